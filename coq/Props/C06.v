(* Props/C06.v — the theorems that decide property C06.  Statements only. *)
From CKB Require Import Arith.U Arith.EpochExt Reward.Reward Reward.RewardProofs Reward.Dao Reward.DaoProofs Reward.FinalizeProofs Reward.ParamsOk gen.ParamsC06.

(* ---- fee split ---- *)
(* proposer share = floor(fee * numer / denom) (u64 product), committer share =
   fee - proposer share; they sum to the fee whenever the split is computed,
   and it is computed for every fee whose product with the numerator fits u64 *)
Theorem c06_fee_split_sums : forall r fee,
  (fee < W64 -> r_denom r <> 0 -> r_numer r <= r_denom r -> fee * r_numer r < W64 ->
   exists p m, fee_split r fee = Some (p, m) /\ p + m = fee /\
               p = fee * r_numer r / r_denom r /\ m < W64 /\ p < W64)%N.
Proof. exact fee_split_sums. Qed.

Theorem c06_fee_split_sums_any : forall r fee p m,
  fee_split r fee = Some (p, m) -> (p + m = fee /\ p = fee * r_numer r / r_denom r)%N.
Proof. exact fee_split_sums_any. Qed.

(* "for every fee < 2^64" is false of the code: safe_mul_ratio multiplies in u64 *)
Theorem c06_fee_split_overflow_refuted :
  exists fee, (fee < W64)%N /\ fee_split (mkRatio 4 10) fee = None.
Proof. exact fee_split_overflow_refuted. Qed.

(* with the ratio read from spec/src/consensus.rs on this run: every fee below 2^62 *)
Theorem c06_params_fee_split : forall fee, (fee < 2 ^ 62)%N ->
  exists p m, fee_split proposer_reward_ratio fee = Some (p, m) /\ (p + m = fee)%N /\
              p = (fee * r_numer proposer_reward_ratio / r_denom proposer_reward_ratio)%N.
Proof. exact params_fee_split. Qed.

Theorem c06_params_window_ok :
  wf_window tx_proposal_window /\
  rw_length tx_proposal_window = tx_proposal_window_length /\
  finalization_delay_length = rw_far tx_proposal_window + 1.
Proof. exact params_window_ok. Qed.

Theorem c06_params_dao_layout_ok :
  dao_pack_ranges = dao_field_ranges /\ dao_extract_ranges = dao_field_ranges.
Proof. exact params_dao_layout_ok. Qed.

(* ---- the dao field ---- *)
Theorem c06_dao_pack_extract : forall d, dao_in_range d -> extract_dao (pack_dao d) = d.
Proof. exact dao_pack_extract. Qed.

Theorem c06_dao_extract_pack : forall bs,
  length bs = 32%nat -> Forall (fun b => (b < 256)%N) bs -> pack_dao (extract_dao bs) = bs.
Proof. exact dao_extract_pack. Qed.

Theorem c06_dao_pack_layout : forall d, dao_in_range d ->
  map (read_range (pack_dao d)) dao_field_ranges = [d_c d; d_ar d; d_s d; d_u d].
Proof. exact dao_pack_layout. Qed.

(* C_n = C_{n-1} + primary_n + secondary_n *)
Theorem c06_dao_C_is_issuance : forall sec e parent number added freed interest d,
  dao_step sec e parent number added freed interest = Some d ->
  exists primary g2,
    ee_block_reward e number = Some primary /\
    ee_secondary_block_issuance e number sec = Some g2 /\
    d_c d = (d_c parent + primary + g2)%N.
Proof. exact dao_C_is_issuance. Qed.

Theorem c06_dao_C_chain : forall sec blocks d0 live0 h d live,
  dao_run sec d0 live0 h blocks = Some (d, live) ->
  exists total, issuance_run sec h blocks = Some total /\ d_c d = (d_c d0 + total)%N.
Proof. exact dao_C_chain. Qed.

(* U_n = U_{n-1} + occupied(outputs) - occupied(inputs) = occupied(live set after n) *)
Theorem c06_dao_U_tracks_occupied : forall sec e parent number txs d live,
  dao_field sec e parent number txs = Some d ->
  block_applicable live txs ->
  d_u parent = occupied_of live ->
  d_u d = (d_u parent + occupied_of (all_outputs txs) - occupied_of (all_inputs txs))%N /\
  d_u d = occupied_of (apply_block live txs).
Proof. exact dao_U_tracks_occupied. Qed.

Theorem c06_dao_U_is_live_occupied : forall sec blocks d0 live0 h d live,
  d_u d0 = occupied_of live0 ->
  chain_applicable live0 blocks ->
  dao_run sec d0 live0 h blocks = Some (d, live) ->
  d_u d = occupied_of live.
Proof. exact dao_U_is_live_occupied. Qed.

Theorem c06_dao_AR_monotone : forall sec e parent number added freed interest d,
  dao_step sec e parent number added freed interest = Some d ->
  (d_ar parent <= d_ar d)%N /\
  exists g2, ee_secondary_block_issuance e number sec = Some g2 /\
             d_ar d = (d_ar parent + d_ar parent * g2 / d_c parent)%N.
Proof. exact dao_AR_monotone. Qed.

Theorem c06_dao_AR_chain_monotone : forall sec blocks d0 live0 h d live,
  dao_run sec d0 live0 h blocks = Some (d, live) -> (d_ar d0 <= d_ar d)%N.
Proof. exact dao_AR_chain_monotone. Qed.

Theorem c06_dao_S_accounts : forall sec e parent number added freed interest d,
  dao_step sec e parent number added freed interest = Some d ->
  exists g2, ee_secondary_block_issuance e number sec = Some g2 /\
    (g2 * d_u parent / d_c parent <= g2)%N /\
    (d_s d + interest = d_s parent + (g2 - g2 * d_u parent / d_c parent))%N.
Proof. exact dao_S_accounts. Qed.

(* the miner's secondary reward of a block and the NervosDAO share of the same
   block split that block's secondary issuance *)
Theorem c06_secondary_split : forall sec e parent number added freed interest d,
  dao_step sec e parent number added freed interest = Some d -> number <> 0%N ->
  exists g2 miner,
    ee_secondary_block_issuance e number sec = Some g2 /\
    secondary_block_reward sec e number parent = Some miner /\
    miner = (g2 * d_u parent / d_c parent)%N /\ (miner <= g2)%N.
Proof. exact secondary_split. Qed.

(* ---- withdrawals ---- *)
Theorem c06_withdraw_formula : forall cap occ dar war v,
  maximum_withdraw cap occ dar war = Some v ->
  ((cap - occ) * war / dar < W64)%N ->
  (occ <= cap)%N /\ dar <> 0%N /\ v = (occ + (cap - occ) * war / dar)%N.
Proof. exact withdraw_formula. Qed.

Theorem c06_withdraw_no_loss : forall cap occ dar war v,
  maximum_withdraw cap occ dar war = Some v ->
  ((cap - occ) * war / dar < W64)%N -> (dar <= war)%N -> (cap <= v)%N.
Proof. exact withdraw_no_loss. Qed.

Theorem c06_withdraw_interest_exact : forall cap occ dar war v,
  maximum_withdraw cap occ dar war = Some v ->
  ((cap - occ) * war / dar < W64)%N -> (dar <= war)%N ->
  v = (cap + (cap - occ) * (war - dar) / dar)%N.
Proof. exact withdraw_interest_exact. Qed.

Theorem c06_withdraw_monotone_in_ar : forall cap occ dar war1 war2 v1 v2,
  maximum_withdraw cap occ dar war1 = Some v1 ->
  maximum_withdraw cap occ dar war2 = Some v2 ->
  ((cap - occ) * war2 / dar < W64)%N -> (war1 <= war2)%N -> (v1 <= v2)%N.
Proof. exact withdraw_monotone_in_ar. Qed.

Theorem c06_withdraw_fully_occupied : forall cap dar war v,
  maximum_withdraw cap cap dar war = Some v -> v = cap.
Proof. exact withdraw_fully_occupied. Qed.

Theorem c06_withdraw_truncation_refuted :
  exists cap occ dar war v,
    maximum_withdraw cap occ dar war = Some v /\ v <> (occ + (cap - occ) * war / dar)%N.
Proof. exact withdraw_truncation_refuted. Qed.

Theorem c06_tx_fee_balance : forall t f,
  transaction_fee t = Some f ->
  exists mw oc, tx_maximum_withdraw t = Some mw /\ tx_outputs_capacity t = Some oc /\ (f + oc = mw)%N.
Proof. exact tx_fee_balance. Qed.

(* ---- non-vacuity ---- *)
Theorem c06_dao_run_example :
  d_u ex_d0 = occupied_of ex_live0 /\ chain_applicable ex_live0 ex_blocks /\
  exists d live, dao_run 70000 ex_d0 ex_live0 1 ex_blocks = Some (d, live) /\ length live = 4%nat.
Proof. exact dao_run_example. Qed.

Theorem c06_withdraw_example :
  maximum_withdraw 100000000000 10200000000 10000000000000000 10000616071298000 = Some 100005532320%N
  /\ ((100000000000 - 10200000000) * 10000616071298000 / 10000000000000000 < W64)%N.
Proof. exact withdraw_example. Qed.

(* ---- the proposer reward ---- *)
(* RewardCalculator::proposal_reward (the two nested walks with the growing
   `proposed` set) pays the block at height t >= 2 the proposer shares of
   exactly the committed transactions whose FIRST proposer (least height whose
   window covers the commit, uncles' proposals included) is t: same fees, same
   order, same overflow behaviour, for every chain on which a transaction is
   committed at most once *)
Theorem c06_proposal_reward_eq_spec : forall w r ch t,
  wf_window w -> 2 <= t -> commits_unique ch ->
  proposal_reward w r ch (t + rw_far w) t = proposer_part_spec w r ch t.
Proof. exact proposal_reward_eq_spec. Qed.

(* F4 (known finding): false for the block at height 1 *)
Theorem c06_proposal_reward_t1_refuted :
  exists w r ch,
    wf_window w /\ commits_unique ch /\
    proposer_part_spec w r ch 1 = Some 400%N /\
    proposal_reward w r ch (1 + rw_far w) 1 = Some 0%N.
Proof. exact proposal_reward_t1_refuted. Qed.

(* per committed transaction at most one block is paid the proposer share, and
   it is a block that proposed the transaction in a window covering the commit *)
Theorem c06_proposer_paid_once : forall w ch c id t1 t2,
  pays w ch t1 c id = true -> pays w ch t2 c id = true -> t1 = t2.
Proof. exact proposer_paid_once. Qed.

Theorem c06_proposer_paid_is_proposer : forall w ch c id t,
  pays w ch t c id = true ->
  1 <= t /\ covers w t c = true /\ mem id (props_at ch t) = true.
Proof. exact proposer_paid_is_proposer. Qed.

(* ---- the total reward and the cellbase ---- *)
(* block_reward_internal(target t >= 2), whenever it returns, = primary(t) +
   g2(t) * U(t-1) / C(t-1) + sum of (fee - share) over t's commits + sum of
   shares of the fees t was the first to propose *)
Theorem c06_block_reward_eq_spec : forall cs ch t rw,
  wf_window (cs_window cs) -> 2 <= t -> commits_unique (rchain_of ch) ->
  block_reward_internal cs ch (t + rw_far (cs_window cs)) t = Some rw ->
  reward_spec cs ch t = Some (br_total rw) /\
  br_total rw = (br_primary rw + br_secondary rw + br_tx_fee rw + br_proposal rw)%N.
Proof. exact block_reward_eq_spec. Qed.

(* a cellbase accepted by RewardVerifier's amount check (model) creates exactly
   the reward of the block it finalises, or nothing when that reward is below
   the capacity of the target's cell *)
Theorem c06_cellbase_eq_reward : forall cs ch t min_cell outs,
  wf_window (cs_window cs) -> 2 <= t -> commits_unique (rchain_of ch) ->
  reward_verifier_ok cs ch (t + rw_far (cs_window cs)) min_cell outs = Some true ->
  exists total, reward_spec cs ch t = Some total /\
    ((min_cell <= total /\ sumN outs = total)%N \/ ((total < min_cell)%N /\ outs = [])).
Proof. exact cellbase_eq_reward. Qed.

(* non-vacuity *)
Theorem c06_proposal_reward_example :
  commits_unique ex_chain /\
  map (fun t => proposal_reward (mkRW 2 5) (mkRatio 4 10) ex_chain (t + 5) t) [2; 3; 4]
  = [Some 22%N; Some 402%N; Some 399%N].
Proof. exact proposal_reward_example. Qed.

Theorem c06_cellbase_eq_reward_example :
  wf_window (cs_window ex_cs) /\ commits_unique (rchain_of ex_fchain) /\
  reward_verifier_ok ex_cs ex_fchain (2 + 5) 1000 [1023%N] = Some true /\
  reward_spec ex_cs ex_fchain 2 = Some 1023%N.
Proof. exact cellbase_eq_reward_example. Qed.

Redirect "out/C06.c06_fee_split_sums" Print Assumptions c06_fee_split_sums.
Redirect "out/C06.c06_fee_split_sums_any" Print Assumptions c06_fee_split_sums_any.
Redirect "out/C06.c06_fee_split_overflow_refuted" Print Assumptions c06_fee_split_overflow_refuted.
Redirect "out/C06.c06_params_fee_split" Print Assumptions c06_params_fee_split.
Redirect "out/C06.c06_params_window_ok" Print Assumptions c06_params_window_ok.
Redirect "out/C06.c06_params_dao_layout_ok" Print Assumptions c06_params_dao_layout_ok.
Redirect "out/C06.c06_dao_pack_extract" Print Assumptions c06_dao_pack_extract.
Redirect "out/C06.c06_dao_extract_pack" Print Assumptions c06_dao_extract_pack.
Redirect "out/C06.c06_dao_pack_layout" Print Assumptions c06_dao_pack_layout.
Redirect "out/C06.c06_dao_C_is_issuance" Print Assumptions c06_dao_C_is_issuance.
Redirect "out/C06.c06_dao_C_chain" Print Assumptions c06_dao_C_chain.
Redirect "out/C06.c06_dao_U_tracks_occupied" Print Assumptions c06_dao_U_tracks_occupied.
Redirect "out/C06.c06_dao_U_is_live_occupied" Print Assumptions c06_dao_U_is_live_occupied.
Redirect "out/C06.c06_dao_AR_monotone" Print Assumptions c06_dao_AR_monotone.
Redirect "out/C06.c06_dao_AR_chain_monotone" Print Assumptions c06_dao_AR_chain_monotone.
Redirect "out/C06.c06_dao_S_accounts" Print Assumptions c06_dao_S_accounts.
Redirect "out/C06.c06_secondary_split" Print Assumptions c06_secondary_split.
Redirect "out/C06.c06_withdraw_formula" Print Assumptions c06_withdraw_formula.
Redirect "out/C06.c06_withdraw_no_loss" Print Assumptions c06_withdraw_no_loss.
Redirect "out/C06.c06_withdraw_interest_exact" Print Assumptions c06_withdraw_interest_exact.
Redirect "out/C06.c06_withdraw_monotone_in_ar" Print Assumptions c06_withdraw_monotone_in_ar.
Redirect "out/C06.c06_withdraw_fully_occupied" Print Assumptions c06_withdraw_fully_occupied.
Redirect "out/C06.c06_withdraw_truncation_refuted" Print Assumptions c06_withdraw_truncation_refuted.
Redirect "out/C06.c06_tx_fee_balance" Print Assumptions c06_tx_fee_balance.
Redirect "out/C06.c06_dao_run_example" Print Assumptions c06_dao_run_example.
Redirect "out/C06.c06_withdraw_example" Print Assumptions c06_withdraw_example.
Redirect "out/C06.c06_proposal_reward_eq_spec" Print Assumptions c06_proposal_reward_eq_spec.
Redirect "out/C06.c06_proposal_reward_t1_refuted" Print Assumptions c06_proposal_reward_t1_refuted.
Redirect "out/C06.c06_proposer_paid_once" Print Assumptions c06_proposer_paid_once.
Redirect "out/C06.c06_proposer_paid_is_proposer" Print Assumptions c06_proposer_paid_is_proposer.
Redirect "out/C06.c06_block_reward_eq_spec" Print Assumptions c06_block_reward_eq_spec.
Redirect "out/C06.c06_cellbase_eq_reward" Print Assumptions c06_cellbase_eq_reward.
Redirect "out/C06.c06_proposal_reward_example" Print Assumptions c06_proposal_reward_example.
Redirect "out/C06.c06_cellbase_eq_reward_example" Print Assumptions c06_cellbase_eq_reward_example.
