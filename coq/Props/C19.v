(* Props/C19.v — the theorems that decide property C19 (chain-root MMR part;
   the block-filter clauses are decided by the harness's predicate only, see
   the level note).  Statements only. *)
From CKB Require Import Chain.MMR Chain.MMRProofs Chain.Filter Chain.FilterProofs Chain.Extension Chain.ExtensionProofs.

(* The MMR is append-only: the node at a position depends only on the leaves
   before it, so two chains share the nodes of their common prefix. *)
Theorem c19_nodes_prefix : forall (D : Type) (merge : D -> D -> D) l ext,
  exists extra, m_nodes (build D merge (l ++ ext)) = m_nodes (build D merge l) ++ extra.
Proof. exact nodes_prefix. Qed.

(* The crate's mmr_size (2*leaves - popcount) is the number of nodes. *)
Theorem c19_mmr_size : forall (D : Type) (merge : D -> D -> D) l,
  (N.of_nat (length l) < pow2 (S hmax))%N ->
  mmr_size (N.of_nat (length l)) = N.of_nat (length (m_nodes (build D merge l))).
Proof. exact mmr_size_is_node_count. Qed.

(* Reading the peaks back by position (what MMR::new(size, store) relies on)
   finds exactly the peaks, whatever stale nodes sit above the size. *)
Theorem c19_peaks_read_back : forall (D : Type) (merge : D -> D -> D) store l,
  (N.of_nat (length l) < pow2 (S hmax))%N -> contains D store (m_nodes (build D merge l)) ->
  all_some D (peaks_at D store (N.of_nat (length l)) hmax 0 []) = Some (m_peaks (build D merge l)).
Proof. exact peaks_read_back. Qed.

(* After a reorganisation of any depth (resume at the fork point, push the
   digests of the attached blocks) the store contains the MMR over the header
   digests of the new main chain, although nodes of the abandoned branch are
   never deleted. *)
Theorem c19_reorg_is_build : forall (D : Type) (merge : D -> D -> D) store common att,
  (N.of_nat (length (common ++ att)) < pow2 (S hmax))%N ->
  contains D store (m_nodes (build D merge common)) ->
  exists st', reorg_store D merge store (N.of_nat (length common)) att = Some st' /\
              contains D st' (m_nodes (build D merge (common ++ att))).
Proof. exact reorg_is_build. Qed.

(* ... and the root served for every prefix of the new main chain (the root a
   block at that height commits to) is the root over exactly that prefix. *)
Theorem c19_roots_after_reorg : forall (D : Type) (merge : D -> D -> D) store common att k,
  (N.of_nat (length (common ++ att)) < pow2 (S hmax))%N ->
  contains D store (m_nodes (build D merge common)) ->
  k <= length (common ++ att) ->
  exists st', reorg_store D merge store (N.of_nat (length common)) att = Some st' /\
              root_from_store D merge st' (N.of_nat k) = root D merge (firstn k (common ++ att)).
Proof. exact roots_after_reorg. Qed.

(* structural invariant: the peaks are perfect trees of strictly increasing
   height from right to left covering all leaves *)
Theorem c19_build_inv : forall (D : Type) (merge : D -> D -> D) l,
  Inv D (build D merge l) (N.of_nat (length l)).
Proof. exact build_inv. Qed.

(* Block filters: one pass of the filter builder after ANY change of the main
   chain (it restarts after the last built block that is still on the main
   chain, or at the fork point of the branch that block is on) never hits its
   `expect`, leaves every main-chain block with a filter hash, and every filter
   hash is H(parent's filter hash, the block's filter data) all the way down to
   genesis — a function of the block's ancestry only. *)
Theorem c19_filter_pass_ok : forall (parent : N -> N) (num : N -> nat) (H2 : N -> N -> N),
  num 0%N = 0 -> (forall b, b <> 0%N -> num b = S (num (parent b))) -> (forall b, num b = 0 -> b = 0%N) ->
  forall main s, chain_ok parent num main -> FInv parent num H2 s ->
  exists s', build_pass parent num H2 main s = Some s' /\ FInv parent num H2 s' /\
             (forall k b, nth_error main k = Some b -> fh s' b = Some (fh_spec parent H2 (num b) b)).
Proof. exact build_pass_ok. Qed.

Theorem c19_filter_example :
  N.to_nat 0%N = 0 /\ (forall b, b <> 0%N -> N.to_nat b = S (N.to_nat (N.pred b))) /\
  (forall b, N.to_nat b = 0 -> b = 0%N) /\ chain_ok N.pred N.to_nat [0; 1; 2; 3]%N.
Proof. exact ex_filter_hyps. Qed.

(* non-vacuity *)
Theorem c19_example_contains : contains ndig ex_store (m_nodes (build ndig nmerge ex_common)).
Proof. exact ex_contains. Qed.
Theorem c19_example_reorg :
  match reorg_store ndig nmerge ex_store 3%N ex_new with
  | Some st' => root_from_store ndig nmerge st' 6%N = Some (0, 5, 51)%N /\
                root_from_store ndig nmerge st' 4%N = Some (0, 3, 37)%N /\
                root_from_store ndig nmerge st' 3%N = Some (0, 2, 30)%N
  | None => False
  end.
Proof. exact ex_reorg_roots. Qed.

(* The acceptance side of the commitment (BlockExtensionVerifier): with the chain-root rule active a
   block passes iff it carries exactly the extension field, of 32..96 bytes, whose first 32 bytes are the
   MMR root over its ancestors' header digests, and its extra hash commits to that extension; so every
   accepted block on any fork commits to that root. *)
Theorem c19_extension_accepted_iff_commits_root : forall root b, length root = 32 ->
  ext_verify true root b = None <->
  e_extra_fields b = 1 /\
  exists bytes, e_ext b = Some bytes /\ 32 <= length bytes <= 96 /\ firstn 32 bytes = root /\
                e_extra_hash_ok b = true.
Proof. exact ext_verify_active_iff. Qed.

Theorem c19_accepted_blocks_commit_the_root : forall root b bytes, length root = 32 ->
  ext_verify true root b = None -> e_ext b = Some bytes -> firstn 32 bytes = root.
Proof. exact accepted_blocks_commit_the_root. Qed.

Theorem c19_extension_before_activation : forall root b,
  ext_verify false root b = None <->
  e_extra_hash_ok b = true /\
  (e_extra_fields b = 0 \/ (e_extra_fields b = 1 /\ exists bytes, e_ext b = Some bytes /\ 1 <= length bytes <= 96)).
Proof. exact ext_verify_inactive_iff. Qed.

(* non-vacuity, and the variant without the short-length rejection (checked slicing): a block whose
   16-byte extension commits to no root passes *)
Theorem c19_extension_example :
  length ex_root = 32 /\ ext_verify true ex_root ex_good = None /\
  ext_verify true ex_root ex_short = Some EInvalidBlockExtension /\
  ext_verify true ex_root (mkEB 0 None true) = Some ENoBlockExtension /\
  ext_verify true ex_root (mkEB 1 (Some (2%N :: tl ex_root)) true) = Some EInvalidChainRoot.
Proof. exact ex_extension. Qed.
Theorem c19_extension_lenient_refuted :
  ext_verify_lenient true ex_root ex_short = None /\
  (forall bytes, e_ext ex_short = Some bytes -> firstn 32 bytes <> ex_root).
Proof. exact lenient_refuted. Qed.

(* A parent digest spans from its left child's start to its right child's END in epoch, timestamp and
   compact target (RFC 0044); with the end compact target taken from the right child's start, the root
   over four leaves whose target changes inside the right subtree ends on the wrong target — and every
   chain root above it differs (the harness compares all ten fields of every node with its own merge). *)
Theorem c19_merge_end_target_from_start_refuted :
  root fdig fmerge ex_fleaves = Some ((0, 3, 40), (0, 100, 50), (1, 103, 70))%N /\
  root fdig fmerge_end_target_from_start ex_fleaves = Some ((0, 3, 40), (0, 100, 50), (1, 103, 60))%N.
Proof. exact merge_end_target_from_start_refuted. Qed.

Redirect "out/C19.c19_nodes_prefix" Print Assumptions c19_nodes_prefix.
Redirect "out/C19.c19_mmr_size" Print Assumptions c19_mmr_size.
Redirect "out/C19.c19_peaks_read_back" Print Assumptions c19_peaks_read_back.
Redirect "out/C19.c19_reorg_is_build" Print Assumptions c19_reorg_is_build.
Redirect "out/C19.c19_roots_after_reorg" Print Assumptions c19_roots_after_reorg.
Redirect "out/C19.c19_build_inv" Print Assumptions c19_build_inv.
Redirect "out/C19.c19_example_contains" Print Assumptions c19_example_contains.
Redirect "out/C19.c19_example_reorg" Print Assumptions c19_example_reorg.
Redirect "out/C19.c19_filter_pass_ok" Print Assumptions c19_filter_pass_ok.
Redirect "out/C19.c19_filter_example" Print Assumptions c19_filter_example.
Redirect "out/C19.c19_extension_accepted_iff_commits_root" Print Assumptions c19_extension_accepted_iff_commits_root.
Redirect "out/C19.c19_accepted_blocks_commit_the_root" Print Assumptions c19_accepted_blocks_commit_the_root.
Redirect "out/C19.c19_extension_before_activation" Print Assumptions c19_extension_before_activation.
Redirect "out/C19.c19_extension_example" Print Assumptions c19_extension_example.
Redirect "out/C19.c19_extension_lenient_refuted" Print Assumptions c19_extension_lenient_refuted.
Redirect "out/C19.c19_merge_end_target_from_start_refuted" Print Assumptions c19_merge_end_target_from_start_refuted.
