(* Props/C03.v — the theorems that decide property C03.  Statements only. *)
From CKB Require Import Chain.Rules Chain.RulesProofs Chain.ProposalProofs Chain.ForkChoice Chain.ForkChoiceProofs.
From CKB Require Tx.Cache Tx.CacheCycles.
Local Open Scope N_scope.

(* The acceptance pipeline (header check, structure, contextual verifiers in
   code order) accepts a block exactly when it meets every declarative rule:
   header linkage, structure, uncle rules, propose/commit window, epoch /
   reward / DAO / extension / transaction rules. *)
Theorem c03_pipeline_iff_rules : forall b,
  wf_window (b_window b) -> block_pipeline b = true <-> block_rules b.
Proof. exact pipeline_iff_rules. Qed.

(* the uncle loop with its `included` map = the rule uncle by uncle (proper
   descent from the chain, an included uncle or an earlier uncle of the same
   block; no double inclusion; same epoch and target; lower number) *)
Theorem c03_uncles_loop_iff : forall c us before,
  NoDup (map u_id before) ->
  uncles_loop c (inc_of before) us = true <-> uncles_rules c before us.
Proof. exact uncles_loop_iff. Qed.

(* the past-median time is a timestamp of the last <= 37 ancestors with more
   than half of them <= it and at least half >= it *)
Theorem c03_median_spec : forall ts count,
  firstn count ts <> [] ->
  let l := firstn count ts in let m := median_time ts count in
  In m l /\
  exists s, Permutation.Permutation l s /\ Sorting.Sorted.Sorted N.le s /\ m = nth (length l / 2) s 0 /\
            (forall i, (i <= length l / 2)%nat -> nth i s 0 <= m) /\
            (forall i, (length l / 2 <= i < length l)%nat -> m <= nth i s 0).
Proof. exact median_spec. Qed.

(* a commitment is accepted iff the id is proposed at distance w_close..w_far *)
Theorem c03_commit_window : forall w ch committed,
  wf_window w -> commit_pipeline w ch committed = true <-> commit_rules w ch committed.
Proof. exact commit_pipeline_iff. Qed.

(* Refused as a whole: processing a block that does not verify on its chain
   changes neither the tip nor its total difficulty nor any other record. *)
Theorem c03_refused_no_effect : forall s b p,
  lookup (fknown s) (bid b) = None -> lookup (fknown s) (bpar b) = Some p ->
  icok p && bok b = false ->
  ftip (process s b) = ftip s /\ ftip_td (process s b) = ftip_td s /\
  (forall i, i <> bid b -> lookup (fknown (process s b)) i = lookup (fknown s) i).
Proof. exact refused_no_effect. Qed.

(* A block that breaks a rule and every block built on it is recorded as not
   fully valid; the tip always is fully valid: no extension of such a branch
   ever becomes canonical. *)
Theorem c03_invalid_never_canonical : forall g bs,
  pfirst [0] bs ->
  let s := run (finit g) bs in
  (forall b, In b bs -> bok b = false -> forall inf, lookup (fknown s) (bid b) = Some inf -> icok inf = false) /\
  (forall b p, In b bs -> lookup (fknown s) (bpar b) = Some p -> icok p = false ->
               forall inf, lookup (fknown s) (bid b) = Some inf -> icok inf = false) /\
  (exists inf, lookup (fknown s) (ftip s) = Some inf /\ icok inf = true).
Proof. exact invalid_never_canonical. Qed.

(* non-vacuity *)
Theorem c03_example : block_rules ex_block /\ block_pipeline ex_block = true /\ block_pipeline ex_block_bad_uncle = false.
Proof. exact ex_rules. Qed.

(* The block cycle limit (structure rule "cycle limits"; the transactions verdict is an input bit of
   block_rules above): BlockTxsVerifier sums the cycles of all committed transactions, cached or not,
   and the entries are cached before the comparison.  A block over max_block_cycles is refused cold and
   refused again when its transactions are in the verification cache; with the sum taken over freshly
   verified transactions only it would be accepted the second time. *)
Theorem c03_block_over_cycle_limit_refused_twice :
  let '(v1, c1) := CacheCycles.cy_vb [] tt false CacheCycles.cy_block in
  let '(v2, _) := CacheCycles.cy_vb c1 tt false CacheCycles.cy_block in
  v1 = None /\ v2 = None /\ Cache.lookup c1 1%N = Some (Cache.mkC 6 1) /\ Cache.lookup c1 2%N = Some (Cache.mkC 6 1).
Proof. exact CacheCycles.block_over_cycle_limit_refused_twice. Qed.
Theorem c03_cycle_sum_of_fresh_only_refuted :
  let '(v1, c1) := CacheCycles.cy_vb_fresh [] tt false CacheCycles.cy_block in
  let '(v2, _) := CacheCycles.cy_vb_fresh c1 tt false CacheCycles.cy_block in
  v1 = None /\ v2 = Some [Cache.mkC 6 1; Cache.mkC 6 1] /\ Cache.sum_cycles [Cache.mkC 6 1; Cache.mkC 6 1] = 12%N.
Proof. exact CacheCycles.fresh_sum_refuted. Qed.

Redirect "out/C03.c03_pipeline_iff_rules" Print Assumptions c03_pipeline_iff_rules.
Redirect "out/C03.c03_uncles_loop_iff" Print Assumptions c03_uncles_loop_iff.
Redirect "out/C03.c03_median_spec" Print Assumptions c03_median_spec.
Redirect "out/C03.c03_commit_window" Print Assumptions c03_commit_window.
Redirect "out/C03.c03_refused_no_effect" Print Assumptions c03_refused_no_effect.
Redirect "out/C03.c03_invalid_never_canonical" Print Assumptions c03_invalid_never_canonical.
Redirect "out/C03.c03_example" Print Assumptions c03_example.
Redirect "out/C03.c03_block_over_cycle_limit_refused_twice" Print Assumptions c03_block_over_cycle_limit_refused_twice.
Redirect "out/C03.c03_cycle_sum_of_fresh_only_refuted" Print Assumptions c03_cycle_sum_of_fresh_only_refuted.
