(* Props/C12.v — the theorems that decide property C12.  Statements only;
   every proof is [exact <lemma>]. *)
From Coq Require Import List NArith Bool.
From CKB Require Import Pool.PoolMap Pool.Reorg Pool.ReorgProofs Pool.Submit Pool.SubmitProofs.
Import ListNotations.
Local Open Scope N_scope.

(* Clause 1, full strength: after update_tx_pool_for_reorg (remove_committed_txs, remove_by_detached_proposal,
   stage moves, remove_expired, limit_size, readd_detached_tx), for every pool, notification, chain view and
   whatever the ancestor-limit / eviction decisions are: no transaction of an attached block is pooled
   (the re-added ones are the detached minus the attached ones). *)
Theorem c12_no_committed : forall fits victim size_of mine c rate p attached dh dp cutoff m retain t,
  In t attached ->
  (forall r, In r retain -> tx_id r <> tx_id t) ->
  ~ In (tx_id t) (lids (reorg fits victim size_of mine c rate p attached dh dp cutoff m retain)).
Proof. exact no_committed. Qed.

(* Clause 2 is FALSE of the code (three independent ways): *)
(* F6: remove_expired removes the expired entry alone; its young pooled child keeps an input that is
   neither live on the chain nor an output of a pooled transaction *)
Theorem c12_inputs_resolvable_refuted : exists c p cutoff,
  all_resolvable c p = true /\
  all_resolvable c (reorg no_limit no_victim total_size true c 1000 p [] [] [] cutoff 100000 []) = false.
Proof. exact inputs_resolvable_refuted_expiry. Qed.
(* F11: a transaction committed only on the abandoned branch cannot be re-added (its conflict is committed
   on the new branch); its pooled descendants stay *)
Theorem c12_inputs_resolvable_lost_parent_refuted : exists c p attached retain,
  all_resolvable (chain0 [(0, 0); (5, 0)] (mkView [] [])) p = true /\
  all_resolvable c (reorg no_limit no_victim total_size true c 1000 p attached [7] [] 0 100000 retain) = false.
Proof. exact inputs_resolvable_refuted_lost_parent. Qed.
(* F12: remove_by_detached_proposal drops an entry whose re-add fails (ancestor limit) and re-adds its descendants *)
Theorem c12_inputs_resolvable_detach_refuted : exists c p dp,
  all_resolvable c p = true /\
  all_resolvable c (reorg (fits_not 2) no_victim total_size true c 1000 p [] [] dp 0 100000 []) = false.
Proof. exact inputs_resolvable_refuted_detach. Qed.

(* Clause 3, full strength: no pooled transaction depends on a detached header (detached headers are not
   on the new main chain) *)
Theorem c12_no_detached_header : forall fits victim size_of mine c rate p attached dh dp cutoff m retain e,
  (forall h, In h dh -> c_main_header c h = false) ->
  In e (reorg fits victim size_of mine c rate p attached dh dp cutoff m retain) ->
  forall h, In h (tx_hdeps (fst e)) -> ~ In h dh.
Proof. exact no_detached_header. Qed.

(* Clause 4: a transaction committed only on the abandoned branch that is admissible when its turn comes
   (resolves against the new chain + the pool, pays the minimum fee, passes the ancestor limit) is pooled
   afterwards.  The code runs no limit_size after the re-adds. *)
Theorem c12_readmitted : forall fits c rate p l1 r l2,
  admissible c rate (readd fits c rate p l1) r = true -> fits (readd fits c rate p l1) r = true ->
  In (tx_id r) (lids (readd fits c rate p (l1 ++ r :: l2))).
Proof. exact readmitted. Qed.

(* Clause 5 (block-assembler node), the part that holds for every reorg: a pooled id inside the proposed
   set of the new window is in stage Proposed, and a pooled tx in stage Pending is in neither set *)
Theorem c12_stage_matches_window_partial : forall fits victim size_of c rate p attached dh dp cutoff m retain e,
  In e (reorg fits victim size_of true c rate p attached dh dp cutoff m retain) ->
  (In (tx_id (fst e)) (v_set (c_view c)) -> snd e = Proposed) /\
  (snd e = Pending -> status_of (c_view c) (tx_id (fst e)) = Pending).
Proof. exact stage_sound_after. Qed.
(* ... and the full clause is FALSE: a Gap entry whose proposal left the window from the gap stays Gap *)
Theorem c12_stage_matches_window_refuted : exists c p,
  stages_match (mkView [1] []) p = true /\
  stages_match (c_view c) (reorg no_limit no_victim total_size true c 1000 p [] [] [] 0 100000 []) = false.
Proof. exact stage_matches_window_refuted. Qed.

(* Clause 5 between two reorgs (submissions interleaved with the notification): a transaction pre-checked under the
   snapshot s_pre and inserted by submit_entry while the pool holds s_now (a snapshot is determined by its tip hash)
   gets the stage the window of s_now gives its id, whatever tip the pre-check saw — so a pool whose stages match
   the window of the tip it is at keeps matching it, and the new entry is (t, status_of (window of s_now)) *)
Theorem c12_stage_on_submission : forall fits s_pre s_now p t,
  snaps_coherent s_pre s_now ->
  stages_match (c_view (s_chain s_now)) p = true ->
  stages_match (c_view (s_chain s_now)) (process_tx fits s_pre s_now p t) = true.
Proof. exact submit_keeps_stages. Qed.
Theorem c12_stage_of_submitted_entry : forall fits s_pre s_now p t e,
  snaps_coherent s_pre s_now ->
  In e (process_tx fits s_pre s_now p t) -> ~ In e p ->
  e = (t, status_of (c_view (s_chain s_now)) (tx_id t)).
Proof. exact submit_stage_of_new_entry. Qed.
(* the hypotheses are met by a submission that straddles the end of the window (pre-checked Proposed under tip 10,
   inserted Pending under tip 11); keeping the pre-check's status instead breaks the clause on that input *)
Theorem c12_stage_on_submission_example :
  snaps_coherent ex_s10 ex_s11 /\
  snd (pre_check ex_s10 ex_t7) = Proposed /\
  process_tx no_limit ex_s10 ex_s11 [] ex_t7 = [(ex_t7, Pending)] /\
  stages_match (c_view (s_chain ex_s11)) (process_tx no_limit ex_s10 ex_s11 [] ex_t7) = true.
Proof. exact ex_straddle. Qed.
Theorem c12_submission_stage_needs_recheck :
  stages_match (c_view (s_chain ex_s11)) [] = true /\
  stages_match (c_view (s_chain ex_s11)) (process_tx_stale no_limit ex_s10 ex_s11 [] ex_t7) = false.
Proof. exact stale_status_breaks. Qed.

(* a reorg in which every step acts: commit with a conflict, detached header, detached proposal, stage moves, re-add *)
Theorem c12_example :
  let p' := reorg no_limit no_victim total_size true ex_chain 1000 ex_before [tx1 1 [(0, 0)] 10] [77] [1] 0 100000 [tx1 8 [(0, 3)] 5] in
  map (fun e => (tx_id (fst e), st_num (snd e))) p' = [(2, 2); (3, 1); (8, 2)] /\ all_resolvable ex_chain p' = true.
Proof. exact ex_reorg. Qed.

Redirect "out/C12.c12_no_committed" Print Assumptions c12_no_committed.
Redirect "out/C12.c12_inputs_resolvable_refuted" Print Assumptions c12_inputs_resolvable_refuted.
Redirect "out/C12.c12_inputs_resolvable_lost_parent_refuted" Print Assumptions c12_inputs_resolvable_lost_parent_refuted.
Redirect "out/C12.c12_inputs_resolvable_detach_refuted" Print Assumptions c12_inputs_resolvable_detach_refuted.
Redirect "out/C12.c12_no_detached_header" Print Assumptions c12_no_detached_header.
Redirect "out/C12.c12_readmitted" Print Assumptions c12_readmitted.
Redirect "out/C12.c12_stage_matches_window_partial" Print Assumptions c12_stage_matches_window_partial.
Redirect "out/C12.c12_stage_matches_window_refuted" Print Assumptions c12_stage_matches_window_refuted.
Redirect "out/C12.c12_example" Print Assumptions c12_example.
Redirect "out/C12.c12_stage_on_submission" Print Assumptions c12_stage_on_submission.
Redirect "out/C12.c12_stage_of_submitted_entry" Print Assumptions c12_stage_of_submitted_entry.
Redirect "out/C12.c12_stage_on_submission_example" Print Assumptions c12_stage_on_submission_example.
Redirect "out/C12.c12_submission_stage_needs_recheck" Print Assumptions c12_submission_stage_needs_recheck.
