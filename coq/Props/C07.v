(* Props/C07.v — the theorems that decide property C07.  Statements only;
   every proof is [exact <lemma>].  Do not weaken: tools/vcheck.py pins the
   hash of this file's statements. *)
From CKB Require Import Arith.U Arith.Compact Arith.Rational Arith.Epoch Arith.EpochExt Arith.DefaultParams.
From CKB Require Import Arith.EpochExtProofs Arith.EpochProofs Arith.ParamsOk Arith.CompactProofs Arith.RationalProofs.
From CKB Require Import Arith.NextEpochProofs Arith.FormulaProofs Arith.EpochChainProofs Arith.RsProofs.
From CKB Require Import gen.RsC07.
From Coq Require Import Sorted.
Local Open Scope N_scope.

(* ---- rewards inside an epoch sum to the epoch totals --------------------------- *)
(* an epoch whose base/remainder rewards were computed from R as next_epoch_ext
   does (R / L, R mod L): the L blocks' rewards exist and add up to exactly R,
   for every length and remainder *)
Theorem c07_epoch_rewards_sum : forall number R hr start L c,
  0 < L -> R < W64 -> start + L <= W64 ->
  sum_range (ee_block_reward (mkEpochExt number (R / L) (R mod L) hr start L c)) start (N.to_nat L) = Some R.
Proof. exact epoch_rewards_sum_of_division. Qed.

(* any epoch record with remainder <= length: the rewards add up to primary_reward() *)
Theorem c07_epoch_primary_rewards_sum : forall e R,
  0 < ee_length e -> ee_remainder_reward e <= ee_length e ->
  ee_start_number e + ee_length e < W64 ->
  ee_primary_reward e = Some R ->
  sum_range (ee_block_reward e) (ee_start_number e) (N.to_nat (ee_length e)) = Some R.
Proof. exact epoch_primary_rewards_sum. Qed.

Theorem c07_epoch_secondary_issuance_sum : forall e sec,
  0 < ee_length e -> sec < W64 -> ee_start_number e + ee_length e <= W64 ->
  sum_range (fun n => ee_secondary_block_issuance e n sec) (ee_start_number e) (N.to_nat (ee_length e)) = Some sec.
Proof. exact epoch_secondary_issuance_sum. Qed.

(* ---- halving on schedule -------------------------------------------------------- *)
Theorem c07_halving_on_schedule : forall P k n,
  0 < p_halving_interval P -> k < 64 ->
  k * p_halving_interval P <= n < (k + 1) * p_halving_interval P ->
  primary_epoch_reward P n = Some (p_initial_primary_epoch_reward P / 2 ^ k).
Proof. exact halving_on_schedule. Qed.

(* the reward handed to the next epoch is the scheduled one whenever the current
   epoch carries the scheduled one (the genesis epoch does) *)
Theorem c07_next_reward_on_schedule : forall P e R,
  ee_primary_reward e = primary_epoch_reward P (ee_number e) ->
  primary_epoch_reward_of_next_epoch P e = Some R ->
  primary_epoch_reward P (ee_number e + 1) = Some R.
Proof. exact next_reward_on_schedule. Qed.

Theorem c07_genesis_reward_on_schedule :
  ee_primary_reward genesis_epoch_ext = primary_epoch_reward default_params (ee_number genesis_epoch_ext).
Proof. exact genesis_reward_on_schedule. Qed.

(* finding, repaired by fix: commit 2ebd8bf in /repo: the schedule as it was
   ([initial >> halvings] on a u64) panicked from the 64th halving on (epoch
   560640 with the default constants, representable in the 24-bit epoch number) *)
Theorem c07_halving_64_refuted : exists n, n < 2 ^ 24 /\ primary_epoch_reward_old default_params n = None.
Proof. exact primary_epoch_reward_old_64_halvings_refuted. Qed.

(* the repaired schedule is total for every epoch number (non-zero interval),
   never issues more than the initial reward, agrees with the old arithmetic
   wherever that was defined, and issues nothing from the 64th halving on *)
Theorem c07_primary_epoch_reward_total : forall P n,
  0 < p_halving_interval P -> exists r, primary_epoch_reward P n = Some r /\ r <= p_initial_primary_epoch_reward P.
Proof. exact primary_epoch_reward_total. Qed.

Theorem c07_primary_epoch_reward_agrees_with_old : forall P n r,
  primary_epoch_reward_old P n = Some r -> primary_epoch_reward P n = Some r.
Proof. exact primary_epoch_reward_agrees_with_old. Qed.

Theorem c07_halving_after_64 : forall P n,
  0 < p_halving_interval P -> 64 * p_halving_interval P <= n ->
  primary_epoch_reward P n = Some 0.
Proof. exact halving_after_64. Qed.

Theorem c07_primary_epoch_reward_fixed_on_witness :
  primary_epoch_reward default_params (64 * DEFAULT_PRIMARY_EPOCH_REWARD_HALVING_INTERVAL) = Some 0 /\
  primary_epoch_reward default_params (47 * DEFAULT_PRIMARY_EPOCH_REWARD_HALVING_INTERVAL) = Some 1 /\
  primary_epoch_reward default_params (2 ^ 64 - 1) = Some 0.
Proof. exact primary_epoch_reward_fixed_on_witness. Qed.

(* ---- the clamps -------------------------------------------------------------------- *)
Theorem c07_bounding_epoch_length : forall P len last r b,
  1 <= p_tau P -> p_min_epoch_length P <= last <= p_max_epoch_length P ->
  bounding_epoch_length P len last = Some (r, b) ->
  p_min_epoch_length P <= r <= p_max_epoch_length P /\
  last / p_tau P <= r <= last * p_tau P /\
  (b = false -> r = len).
Proof. exact bounding_epoch_length_bounds. Qed.

Theorem c07_bounding_hash_rate : forall P hr prev r,
  1 <= p_tau P -> bounding_hash_rate P hr prev = Some r ->
  (prev = 0 -> r = hr) /\
  (prev <> 0 -> r = N.max (prev / p_tau P) (N.min hr (prev * p_tau P)) /\
                prev / p_tau P <= r <= prev * p_tau P).
Proof. exact bounding_hash_rate_clamp. Qed.

(* ---- EpochNumberWithFraction: gap-free positions ------------------------------------ *)
Theorem c07_enf_fields_roundtrip : forall n i l, n < 2 ^ 24 -> i < 2 ^ 16 -> l < 2 ^ 16 ->
  enf_number (enf_new n i l) = n /\ enf_index (enf_new n i l) = i /\ enf_length (enf_new n i l) = l.
Proof. exact enf_fields_roundtrip. Qed.

Theorem c07_enf_pack_unpack : forall v, v < 2 ^ 56 ->
  enf_new (enf_number v) (enf_index v) (enf_length v) = v.
Proof. exact enf_pack_unpack. Qed.

Theorem c07_epoch_successor_is_next_position : forall s p,
  enf_is_well_formed p = true -> enf_is_well_formed s = true -> enf_is_successor_of s p = true ->
  (enf_number s = enf_number p /\ enf_index s = enf_index p + 1 /\ enf_length s = enf_length p
   /\ enf_index s < enf_length p) \/
  (enf_index p + 1 = enf_length p /\ enf_number s = enf_number p + 1 /\ enf_index s = 0).
Proof. exact epoch_successor_is_next_position. Qed.

Theorem c07_epoch_fields_gap_free : forall s p,
  enf_is_well_formed p = true -> enf_is_well_formed s = true -> enf_is_successor_of s p = true ->
  pos_lt (pos p) (pos s) /\
  forall n i, pos_lt (pos p) (n, i) -> pos_lt (n, i) (pos s) -> n = enf_number p /\ enf_length p <= i.
Proof. exact epoch_successor_gap_free. Qed.

Theorem c07_epoch_next_position_is_successor : forall s p,
  (enf_number s = enf_number p /\ enf_index s = enf_index p + 1 /\ enf_length s = enf_length p
   /\ enf_index s < enf_length p) \/
  (enf_index p + 1 = enf_length p /\ enf_number s = enf_number p + 1 /\ enf_index s = 0) ->
  enf_is_successor_of s p = true.
Proof. exact epoch_next_position_is_successor. Qed.

Theorem c07_epoch_chain_positions_increase : forall p l,
  enf_is_well_formed p = true -> enf_chain p l = true ->
  StronglySorted (fun a b => pos_lt (pos a) (pos b)) (p :: l).
Proof. exact epoch_chain_positions_increase. Qed.

Theorem c07_enf_chain_example :
  enf_is_well_formed (enf_new 7 1798 1800) = true /\
  enf_chain (enf_new 7 1798 1800) [enf_new 7 1799 1800; enf_new 8 0 1000; enf_new 8 1 1000] = true.
Proof. exact enf_chain_example. Qed.

(* ---- constants of the source -------------------------------------------------------- *)
Theorem c07_tau_is_two : TAU = 2.
Proof. exact tau_is_two. Qed.

Theorem c07_epoch_length_limits_ok :
  0 < MIN_EPOCH_LENGTH /\ MIN_EPOCH_LENGTH <= MAX_EPOCH_LENGTH /\
  MAX_EPOCH_LENGTH * TAU < W64 /\
  MIN_EPOCH_LENGTH <= GENESIS_EPOCH_LENGTH <= MAX_EPOCH_LENGTH /\
  MAX_EPOCH_LENGTH = DEFAULT_EPOCH_DURATION_TARGET / MIN_BLOCK_INTERVAL /\
  MIN_EPOCH_LENGTH = DEFAULT_EPOCH_DURATION_TARGET / MAX_BLOCK_INTERVAL.
Proof. exact epoch_length_limits_ok. Qed.

Theorem c07_epoch_length_fits_header_field :
  MAX_EPOCH_LENGTH < ENF_LENGTH_MAXIMUM_VALUE /\ MAX_EPOCH_LENGTH <= ENF_INDEX_MAXIMUM_VALUE.
Proof. exact epoch_length_fits_header_field. Qed.


(* ---- next_epoch_ext: length, hash rate estimate, difficulty ------------------------ *)
(* for every tail block whose epoch length is inside the limits, whatever the
   uncle count, duration, hash rates and targets: the next length is inside the
   limits and within a factor TAU (= 2, c07_tau_is_two) of the previous one *)
Theorem c07_next_len_bounds : forall P e hn hc U dur e',
  1 <= p_tau P -> p_min_epoch_length P <= ee_length e <= p_max_epoch_length P ->
  next_epoch_ext P e hn hc U dur = Some e' ->
  p_min_epoch_length P <= ee_length e' <= p_max_epoch_length P /\
  ee_length e / p_tau P <= ee_length e' <= ee_length e * p_tau P.
Proof. exact next_len_bounds. Qed.

Theorem c07_next_len_formula : forall P lor L U D len bound,
  denom (p_orphan_rate_target P) <> 0 ->
  0 < numer (p_orphan_rate_target P) + denom (p_orphan_rate_target P) ->
  D <> 0 -> U <> 0 ->
  rat_new U L = Some lor -> next_epoch_length P lor L U D = Some (len, bound) ->
  let on := numer (p_orphan_rate_target P) in
  let od := denom (p_orphan_rate_target P) in
  let raw := on * (U + L) * p_epoch_duration_target P * L / (U * (on + od) * D) in
  bounding_epoch_length P (low64 raw) L = Some (len, bound).
Proof. exact next_len_formula. Qed.

Theorem c07_next_hash_rate_clamped : forall P e hn hc U dur e',
  1 <= p_tau P -> next_epoch_ext P e hn hc U dur = Some e' ->
  exists diff D,
    compact_to_difficulty hc = Some diff /\ D = N.max (dur / p_ms_in_s P) 1 /\
    let hr := diff * (ee_length e + U) / D in
    let prev := ee_previous_epoch_hash_rate e in
    1 <= ee_previous_epoch_hash_rate e' /\
    (prev = 0 -> ee_previous_epoch_hash_rate e' = N.max hr 1) /\
    (prev <> 0 -> ee_previous_epoch_hash_rate e' = N.max (N.max (prev / p_tau P) (N.min hr (prev * p_tau P))) 1 /\
                  (1 <= prev / p_tau P -> prev / p_tau P <= ee_previous_epoch_hash_rate e' <= prev * p_tau P)).
Proof. exact next_hash_rate_clamped. Qed.

(* the denominator (1 + o') L' of the difficulty formula is computed exactly *)
Theorem c07_diff_denominator_exact : forall P lor L U D L' bound den,
  denom (p_orphan_rate_target P) <> 0 -> L <> 0 -> D <> 0 -> L' <> 0 ->
  rat_new U L = Some lor ->
  diff_denominator P lor L D L' bound = Some den ->
  denotes den (fst (den_spec P L U D L' bound)) (snd (den_spec P L U D L' bound)) /\
  snd (den_spec P L U D L' bound) <> 0.
Proof. exact diff_denominator_spec. Qed.

(* difficulty = max 1 (floor (HR' T / ((1 + o') L'))) with HR' the clamped estimate
   (c07_next_hash_rate_clamped) and (1 + o') L' = dn/dd of den_spec *)
Theorem c07_next_diff_formula : forall P e hn hc U dur e',
  denom (p_orphan_rate_target P) <> 0 ->
  0 < numer (p_orphan_rate_target P) + denom (p_orphan_rate_target P) ->
  next_epoch_ext P e hn hc U dur = Some e' ->
  exists D bound nd,
    D = N.max (dur / p_ms_in_s P) 1 /\
    difficulty_to_compact nd = Some (ee_compact_target e') /\
    let HR' := ee_previous_epoch_hash_rate e' in
    let L' := ee_length e' in
    let dn := fst (den_spec P (ee_length e) U D L' bound) in
    let dd := snd (den_spec P (ee_length e) U D L' bound) in
    dn <> 0 /\ dd <> 0 /\
    nd = N.max 1 (HR' * p_epoch_duration_target P * dd / dn) /\
    (U = 0 -> bound = true) /\
    (bound = false -> exists lor raw, rat_new U (ee_length e) = Some lor /\
                      next_epoch_length P lor (ee_length e) U D = Some (L', false) /\ L' = low64 raw).
Proof. exact next_diff_formula. Qed.

Theorem c07_next_diff_nonzero : forall P e hn hc U dur e',
  next_epoch_ext P e hn hc U dur = Some e' ->
  exists nd d', 1 <= nd < W256 /\ difficulty_to_compact nd = Some (ee_compact_target e') /\
                canonicalb (ee_compact_target e') = true /\
                compact_to_difficulty (ee_compact_target e') = Some d' /\ nd <= d'.
Proof. exact next_diff_nonzero. Qed.

Theorem c07_next_epoch_issuance : forall P e hn hc U dur e',
  p_initial_primary_epoch_reward P < W64 ->
  next_epoch_ext P e hn hc U dur = Some e' ->
  exists R, primary_epoch_reward_of_next_epoch P e = Some R /\
            ee_primary_reward e' = Some R /\
            ee_remainder_reward e' < ee_length e' /\
            ee_base_block_reward e' = R / ee_length e' /\ ee_remainder_reward e' = R mod ee_length e' /\
            ee_number e' = ee_number e + 1 /\ ee_start_number e' = hn + 1.
Proof. exact next_epoch_issuance. Qed.

Theorem c07_next_epoch_examples :
  next_epoch_ext default_params genesis_epoch_ext 999 DIFF_TWO_SRC 25 14400000
    = Some (mkEpochExt 1 191780821917 808 1 1000 1000 538069284) /\
  next_epoch_ext default_params (mkEpochExt 8758 106544901065 448 (2 ^ 60) 5000000 1800 0x1a08a97b) 5001799 0x1a08a97b 61 13000999
    = Some (mkEpochExt 8759 129319502304 616 576460752303423488 5001800 1483 419651776) /\
  (exists e', next_epoch_ext default_params (mkEpochExt 8759 129319502304 616 576460752303423488 5001800 1483 419651776)
                              5003282 419651776 0 14400000 = Some e' /\
              ee_number e' = 8760 /\ ee_primary_reward e' = Some (INITIAL_PRIMARY_EPOCH_REWARD / 2) /\
              ee_length e' = 1800).
Proof. exact next_epoch_examples. Qed.

(* ---- RationalU256: every operation that returns is exact ---------------------------- *)
Theorem c07_rat_new_sound : forall n d r, rat_new n d = Some r -> denotes r n d /\ d <> 0.
Proof. exact rat_new_sound. Qed.
Theorem c07_rat_mul_sound : forall a b r, rat_mul a b = Some r -> denom a <> 0 -> denom b <> 0 ->
  denotes r (numer a * numer b) (denom a * denom b).
Proof. exact rat_mul_sound. Qed.
Theorem c07_rat_mul_u_sound : forall a u r, rat_mul_u a u = Some r -> denom a <> 0 ->
  denotes r (numer a * u) (denom a).
Proof. exact rat_mul_u_sound. Qed.
Theorem c07_rat_div_sound : forall a b r, rat_div a b = Some r -> denom a <> 0 -> denom b <> 0 -> numer b <> 0 ->
  denotes r (numer a * denom b) (denom a * numer b).
Proof. exact rat_div_sound. Qed.
Theorem c07_rat_div_u_sound : forall a u r, rat_div_u a u = Some r -> denom a <> 0 -> u <> 0 ->
  denotes r (numer a) (denom a * u).
Proof. exact rat_div_u_sound. Qed.
Theorem c07_rat_add_u_sound : forall a u r, rat_add_u a u = Some r ->
  r = mkRat (numer a + denom a * u) (denom a).
Proof. exact rat_add_u_sound. Qed.
Theorem c07_rat_sat_sub_u_sound : forall a u r, rat_sat_sub_u a u = Some r ->
  (numer a < denom a * u /\ r = rat_zero) \/
  (denom a * u <= numer a /\ r = mkRat (numer a - denom a * u) (denom a)).
Proof. exact rat_sat_sub_u_sound. Qed.
Theorem c07_rat_cmp_sound : forall a b c, rat_cmp a b = Some c -> denom a <> 0 -> denom b <> 0 ->
  c = (numer a * denom b ?= numer b * denom a).
Proof. exact rat_cmp_sound. Qed.
Theorem c07_rat_into_u256_sound : forall r n d v, denotes r n d -> d <> 0 -> rat_into_u256 r = Some v -> v = n / d.
Proof. exact rat_into_u256_sound. Qed.
Theorem c07_rat_examples :
  rat_mul (mkRat 3 8) (mkRat 4 9) = Some (mkRat 1 6) /\
  rat_add_u (mkRat 1 40) 1 = Some (mkRat 41 40) /\
  rat_gt (mkRat 7 2) (mkRat 10 3) = Some true /\
  rat_new 25 1000 = Some (mkRat 1 40) /\ rat_new 1 0 = None /\
  rat_mul (mkRat (2 ^ 200) 1) (mkRat (2 ^ 100) 1) = None.
Proof. exact rat_examples. Qed.

(* ---- compact target codec, difficulty, PoW ------------------------------------------- *)
Theorem c07_compact_decode_encode : forall t, t < W256 ->
  snd (compact_to_target (target_to_compact t)) = false /\
  fst (compact_to_target (target_to_compact t)) <= t /\
  (ex t <= 3 -> fst (compact_to_target (target_to_compact t)) = t) /\
  (3 < ex t -> fst (compact_to_target (target_to_compact t)) = t / 2 ^ (8 * (ex t - 3)) * 2 ^ (8 * (ex t - 3))
               /\ t < fst (compact_to_target (target_to_compact t)) + 2 ^ (8 * (ex t - 3))) /\
  (t <> 0 -> fst (compact_to_target (target_to_compact t)) <> 0).
Proof. exact compact_decode_encode. Qed.

Theorem c07_compact_roundtrip : forall c, canonicalb c = true ->
  snd (compact_to_target c) = false /\ fst (compact_to_target c) < W256 /\
  target_to_compact (fst (compact_to_target c)) = c.
Proof. exact compact_encode_decode. Qed.

Theorem c07_target_to_compact_canonical : forall t, t < W256 -> canonicalb (target_to_compact t) = true.
Proof. exact target_to_compact_canonical. Qed.

Theorem c07_target_to_compact_monotone : forall t1 t2, t1 <= t2 -> t2 < W256 ->
  target_to_compact t1 <= target_to_compact t2.
Proof. exact target_to_compact_monotone. Qed.

Theorem c07_compact_to_target_strictly_monotone : forall c1 c2,
  canonicalb c1 = true -> canonicalb c2 = true -> c1 < c2 ->
  fst (compact_to_target c1) < fst (compact_to_target c2).
Proof. exact compact_to_target_strictly_monotone. Qed.

Theorem c07_difficulty_to_target_antitone : forall d1 d2 t1 t2,
  d1 <= d2 -> d2 < W256 ->
  difficulty_to_target d1 = Some t1 -> difficulty_to_target d2 = Some t2 -> t2 <= t1.
Proof. exact difficulty_to_target_antitone. Qed.

Theorem c07_difficulty_compact_nonzero : forall d, 1 <= d -> d < W256 ->
  exists c d', difficulty_to_compact d = Some c /\ canonicalb c = true /\
               compact_to_difficulty c = Some d' /\ d <= d'.
Proof. exact difficulty_compact_nonzero. Qed.

Theorem c07_pow_accept_iff : forall hash c,
  pow_verify hash c = true <->
  fst (compact_to_target c) <> 0 /\ snd (compact_to_target c) = false /\ hash <= fst (compact_to_target c).
Proof. exact pow_accept_iff. Qed.

Theorem c07_pow_accept_downward_closed : forall hash hash' c,
  pow_verify hash c = true -> hash' <= hash -> pow_verify hash' c = true.
Proof. exact pow_accept_downward_closed. Qed.

Theorem c07_pow_accept_monotone_in_compact : forall hash c1 c2,
  canonicalb c1 = true -> canonicalb c2 = true -> c1 <= c2 ->
  pow_verify hash c1 = true -> pow_verify hash c2 = true.
Proof. exact pow_accept_monotone_in_compact. Qed.

Theorem c07_pow_accept_separates : forall hash c1 c2,
  canonicalb c1 = true -> canonicalb c2 = true -> c1 < c2 ->
  hash = fst (compact_to_target c2) ->
  pow_verify hash c2 = true /\ pow_verify hash c1 = false.
Proof. exact pow_accept_separates. Qed.

(* the work of a block *)
Theorem c07_compact_to_difficulty_total : forall c, exists d, compact_to_difficulty c = Some d.
Proof. exact compact_to_difficulty_total. Qed.

Theorem c07_target_to_difficulty_antitone : forall t1 t2 d1 d2,
  1 <= t1 -> t1 <= t2 -> t2 < W256 ->
  target_to_difficulty t1 = Some d1 -> target_to_difficulty t2 = Some d2 ->
  1 <= d2 /\ d2 <= d1 /\ d1 < W256.
Proof. exact target_to_difficulty_antitone. Qed.

Theorem c07_compact_to_difficulty_antitone : forall c1 c2,
  canonicalb c1 = true -> canonicalb c2 = true -> c1 <> 0 -> c1 <= c2 ->
  exists d1 d2, compact_to_difficulty c1 = Some d1 /\ compact_to_difficulty c2 = Some d2 /\
                1 <= d2 /\ d2 <= d1 /\ d1 < W256.
Proof. exact compact_to_difficulty_antitone. Qed.

Theorem c07_compact_examples :
  canonicalb DIFF_TWO = true /\ compact_to_target DIFF_TWO = (2 ^ 255, false) /\
  compact_to_difficulty DIFF_TWO = Some 2 /\ difficulty_to_compact 2 = Some DIFF_TWO /\
  target_to_compact (2 ^ 255 + 12345) = DIFF_TWO /\
  canonicalb 0x1a08a97b = true /\ canonicalb 0x21000001 = false /\
  pow_verify (2 ^ 255) DIFF_TWO = true /\ pow_verify (2 ^ 255 + 1) DIFF_TWO = false /\
  pow_verify 0 0x21000001 = false.
Proof. exact compact_examples. Qed.

(* ---- number_with_fraction of consecutive blocks --------------------------------------- *)
Theorem c07_number_with_fraction_successor_same_epoch : forall e b,
  ee_number e < 2 ^ 24 -> ee_length e < 2 ^ 16 ->
  ee_start_number e <= b -> b + 1 < ee_start_number e + ee_length e ->
  exists v1 v2, ee_number_with_fraction e b = Some v1 /\ ee_number_with_fraction e (b + 1) = Some v2 /\
                enf_is_well_formed v1 = true /\ enf_is_well_formed v2 = true /\
                enf_is_successor_of v2 v1 = true.
Proof. exact number_with_fraction_successor_same_epoch. Qed.

Theorem c07_number_with_fraction_successor_next_epoch : forall e e' b,
  ee_number e + 1 < 2 ^ 24 -> ee_length e < 2 ^ 16 -> 0 < ee_length e' < 2 ^ 16 ->
  ee_start_number e <= b -> b + 1 = ee_start_number e + ee_length e ->
  ee_number e' = ee_number e + 1 -> ee_start_number e' = b + 1 ->
  exists v1 v2, ee_number_with_fraction e b = Some v1 /\ ee_number_with_fraction e' (b + 1) = Some v2 /\
                enf_is_well_formed v1 = true /\ enf_is_well_formed v2 = true /\
                enf_is_successor_of v2 v1 = true.
Proof. exact number_with_fraction_successor_next_epoch. Qed.

Theorem c07_enf_constants_match :
  NUMBER_OFFSET = ENF_NUMBER_OFFSET /\ NUMBER_BITS = ENF_NUMBER_BITS /\
  NUMBER_MAXIMUM_VALUE = ENF_NUMBER_MAXIMUM_VALUE /\ NUMBER_MASK = ENF_NUMBER_MASK /\
  INDEX_OFFSET = ENF_INDEX_OFFSET /\ INDEX_BITS = ENF_INDEX_BITS /\
  INDEX_MAXIMUM_VALUE = ENF_INDEX_MAXIMUM_VALUE /\ INDEX_MASK = ENF_INDEX_MASK /\
  LENGTH_OFFSET = ENF_LENGTH_OFFSET /\ LENGTH_BITS = ENF_LENGTH_BITS /\
  LENGTH_MAXIMUM_VALUE = ENF_LENGTH_MAXIMUM_VALUE /\ LENGTH_MASK = ENF_LENGTH_MASK /\
  ENF_LENGTH_OFFSET + ENF_LENGTH_BITS <= 64.
Proof. exact enf_constants_match. Qed.

Theorem c07_diff_two_matches : DIFF_TWO = DIFF_TWO_SRC /\ compact_to_difficulty DIFF_TWO_SRC = Some 2.
Proof. exact diff_two_matches. Qed.

Theorem c07_issuance_constants_ok :
  0 < DEFAULT_PRIMARY_EPOCH_REWARD_HALVING_INTERVAL /\
  0 < INITIAL_PRIMARY_EPOCH_REWARD < W64 /\ DEFAULT_SECONDARY_EPOCH_REWARD < W64 /\
  0 < DEFAULT_ORPHAN_RATE_TARGET_1 /\ 0 < DEFAULT_ORPHAN_RATE_TARGET_0 /\
  0 < DEFAULT_EPOCH_DURATION_TARGET /\ MILLISECONDS_IN_A_SECOND = 1000.
Proof. exact issuance_constants_ok. Qed.

(* ---- functions translated from the Rust text on every run (tools/rs2v.py) are the models ---- *)
Theorem c07_rs_bounding_epoch_length_eq : forall P len last,
  rs_bounding_epoch_length (p_max_epoch_length P) (p_min_epoch_length P) (p_tau P) len last
  = bounding_epoch_length P len last.
Proof. exact rs_bounding_epoch_length_eq. Qed.

Theorem c07_rs_is_successor_of_eq : forall s p, rs_is_successor_of s p = Some (enf_is_successor_of s p).
Proof. exact rs_is_successor_of_eq. Qed.

Theorem c07_rs_is_well_formed_eq : forall v, rs_is_well_formed v = Some (enf_is_well_formed v).
Proof. exact rs_is_well_formed_eq. Qed.

Redirect "out/C07.c07_epoch_rewards_sum" Print Assumptions c07_epoch_rewards_sum.
Redirect "out/C07.c07_epoch_primary_rewards_sum" Print Assumptions c07_epoch_primary_rewards_sum.
Redirect "out/C07.c07_epoch_secondary_issuance_sum" Print Assumptions c07_epoch_secondary_issuance_sum.
Redirect "out/C07.c07_halving_on_schedule" Print Assumptions c07_halving_on_schedule.
Redirect "out/C07.c07_next_reward_on_schedule" Print Assumptions c07_next_reward_on_schedule.
Redirect "out/C07.c07_genesis_reward_on_schedule" Print Assumptions c07_genesis_reward_on_schedule.
Redirect "out/C07.c07_halving_64_refuted" Print Assumptions c07_halving_64_refuted.
Redirect "out/C07.c07_primary_epoch_reward_total" Print Assumptions c07_primary_epoch_reward_total.
Redirect "out/C07.c07_primary_epoch_reward_agrees_with_old" Print Assumptions c07_primary_epoch_reward_agrees_with_old.
Redirect "out/C07.c07_halving_after_64" Print Assumptions c07_halving_after_64.
Redirect "out/C07.c07_primary_epoch_reward_fixed_on_witness" Print Assumptions c07_primary_epoch_reward_fixed_on_witness.
Redirect "out/C07.c07_bounding_epoch_length" Print Assumptions c07_bounding_epoch_length.
Redirect "out/C07.c07_bounding_hash_rate" Print Assumptions c07_bounding_hash_rate.
Redirect "out/C07.c07_enf_fields_roundtrip" Print Assumptions c07_enf_fields_roundtrip.
Redirect "out/C07.c07_enf_pack_unpack" Print Assumptions c07_enf_pack_unpack.
Redirect "out/C07.c07_epoch_successor_is_next_position" Print Assumptions c07_epoch_successor_is_next_position.
Redirect "out/C07.c07_epoch_fields_gap_free" Print Assumptions c07_epoch_fields_gap_free.
Redirect "out/C07.c07_epoch_next_position_is_successor" Print Assumptions c07_epoch_next_position_is_successor.
Redirect "out/C07.c07_epoch_chain_positions_increase" Print Assumptions c07_epoch_chain_positions_increase.
Redirect "out/C07.c07_enf_chain_example" Print Assumptions c07_enf_chain_example.
Redirect "out/C07.c07_tau_is_two" Print Assumptions c07_tau_is_two.
Redirect "out/C07.c07_epoch_length_limits_ok" Print Assumptions c07_epoch_length_limits_ok.
Redirect "out/C07.c07_epoch_length_fits_header_field" Print Assumptions c07_epoch_length_fits_header_field.
Redirect "out/C07.c07_next_len_bounds" Print Assumptions c07_next_len_bounds.
Redirect "out/C07.c07_next_len_formula" Print Assumptions c07_next_len_formula.
Redirect "out/C07.c07_next_hash_rate_clamped" Print Assumptions c07_next_hash_rate_clamped.
Redirect "out/C07.c07_diff_denominator_exact" Print Assumptions c07_diff_denominator_exact.
Redirect "out/C07.c07_next_diff_formula" Print Assumptions c07_next_diff_formula.
Redirect "out/C07.c07_next_diff_nonzero" Print Assumptions c07_next_diff_nonzero.
Redirect "out/C07.c07_next_epoch_issuance" Print Assumptions c07_next_epoch_issuance.
Redirect "out/C07.c07_next_epoch_examples" Print Assumptions c07_next_epoch_examples.
Redirect "out/C07.c07_rat_new_sound" Print Assumptions c07_rat_new_sound.
Redirect "out/C07.c07_rat_mul_sound" Print Assumptions c07_rat_mul_sound.
Redirect "out/C07.c07_rat_mul_u_sound" Print Assumptions c07_rat_mul_u_sound.
Redirect "out/C07.c07_rat_div_sound" Print Assumptions c07_rat_div_sound.
Redirect "out/C07.c07_rat_div_u_sound" Print Assumptions c07_rat_div_u_sound.
Redirect "out/C07.c07_rat_add_u_sound" Print Assumptions c07_rat_add_u_sound.
Redirect "out/C07.c07_rat_sat_sub_u_sound" Print Assumptions c07_rat_sat_sub_u_sound.
Redirect "out/C07.c07_rat_cmp_sound" Print Assumptions c07_rat_cmp_sound.
Redirect "out/C07.c07_rat_into_u256_sound" Print Assumptions c07_rat_into_u256_sound.
Redirect "out/C07.c07_rat_examples" Print Assumptions c07_rat_examples.
Redirect "out/C07.c07_compact_decode_encode" Print Assumptions c07_compact_decode_encode.
Redirect "out/C07.c07_compact_roundtrip" Print Assumptions c07_compact_roundtrip.
Redirect "out/C07.c07_target_to_compact_canonical" Print Assumptions c07_target_to_compact_canonical.
Redirect "out/C07.c07_target_to_compact_monotone" Print Assumptions c07_target_to_compact_monotone.
Redirect "out/C07.c07_compact_to_target_strictly_monotone" Print Assumptions c07_compact_to_target_strictly_monotone.
Redirect "out/C07.c07_difficulty_to_target_antitone" Print Assumptions c07_difficulty_to_target_antitone.
Redirect "out/C07.c07_difficulty_compact_nonzero" Print Assumptions c07_difficulty_compact_nonzero.
Redirect "out/C07.c07_pow_accept_iff" Print Assumptions c07_pow_accept_iff.
Redirect "out/C07.c07_pow_accept_downward_closed" Print Assumptions c07_pow_accept_downward_closed.
Redirect "out/C07.c07_pow_accept_monotone_in_compact" Print Assumptions c07_pow_accept_monotone_in_compact.
Redirect "out/C07.c07_pow_accept_separates" Print Assumptions c07_pow_accept_separates.
Redirect "out/C07.c07_compact_to_difficulty_total" Print Assumptions c07_compact_to_difficulty_total.
Redirect "out/C07.c07_target_to_difficulty_antitone" Print Assumptions c07_target_to_difficulty_antitone.
Redirect "out/C07.c07_compact_to_difficulty_antitone" Print Assumptions c07_compact_to_difficulty_antitone.
Redirect "out/C07.c07_compact_examples" Print Assumptions c07_compact_examples.
Redirect "out/C07.c07_number_with_fraction_successor_same_epoch" Print Assumptions c07_number_with_fraction_successor_same_epoch.
Redirect "out/C07.c07_number_with_fraction_successor_next_epoch" Print Assumptions c07_number_with_fraction_successor_next_epoch.
Redirect "out/C07.c07_enf_constants_match" Print Assumptions c07_enf_constants_match.
Redirect "out/C07.c07_diff_two_matches" Print Assumptions c07_diff_two_matches.
Redirect "out/C07.c07_issuance_constants_ok" Print Assumptions c07_issuance_constants_ok.
Redirect "out/C07.c07_rs_bounding_epoch_length_eq" Print Assumptions c07_rs_bounding_epoch_length_eq.
Redirect "out/C07.c07_rs_is_successor_of_eq" Print Assumptions c07_rs_is_successor_of_eq.
Redirect "out/C07.c07_rs_is_well_formed_eq" Print Assumptions c07_rs_is_well_formed_eq.
