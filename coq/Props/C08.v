(* Props/C08.v — the theorems that decide property C08.  Statements only. *)
From CKB Require Import Chain.ForkChoice Chain.ForkChoiceProofs Chain.Crash Chain.CrashProofs Chain.ForkChoiceExamples Chain.Recover Chain.RecoverProofs.
Local Open Scope N_scope.

(* Any number of crashes at any points of any delivery history: once every
   block of the set has been processed before the last crash or delivered
   (again) after it — by InitLoadUnverified for the stored-but-unverified ones,
   by peers for the rest — the node has the same total difficulty as any run
   that never crashed, and the same tip unless two fully valid chains tie. *)
Theorem c08_converges : forall g ds,
  (forall b b', In b ds -> In b' ds -> bid b = bid b' -> b = b') ->
  (forall b, In b ds -> bid b <> 0) ->
  forall ops sched,
  incl (delivered ops) ds ->
  (forall b, In b ds -> In b (cknown (d0 g) [] ops)) ->
  (forall b, In b sched <-> In b ds) ->
  let dc := crun (d0 g) ops in let dn := drun (d0 g) sched in
  ftip_td (dcore dc) = ftip_td (dcore dn) /\
  ((forall i inf, lookup (fknown (dcore dc)) i = Some inf -> icok inf = true ->
                  itd inf = ftip_td (dcore dc) -> i = ftip (dcore dc)) -> ftip (dcore dc) = ftip (dcore dn)).
Proof. exact crash_converges. Qed.

(* The state found after a restart is a state of a crash-free run over a
   parent-first selection of the delivered blocks (hence satisfies the
   fork-choice invariant; C02's replay consistency holds of every such state). *)
Theorem c08_restart_state_consistent : forall g ds,
  (forall b b', In b ds -> In b' ds -> bid b = bid b' -> b = b') ->
  forall ops, incl (delivered ops) ds ->
  let dc := crun (d0 g) ops in
  FInv (dcore dc) /\
  exists ps, pfirst [0] ps /\ dcore dc = run (finit g) ps /\ incl ps ds.
Proof. exact crash_state_consistent. Qed.

(* non-vacuity: the example tree of C01 with two crashes *)
Theorem c08_example :
  let ops := [CDeliver (mkB 6 5 30 true); CDeliver (mkB 1 0 10 true); CCrash; CDeliver (mkB 4 1 30 true);
              CDeliver (mkB 5 4 30 false); CCrash; CDeliver (mkB 2 1 10 true); CDeliver (mkB 3 2 10 true);
              CDeliver (mkB 6 5 30 true)] in
  incl (delivered ops) ex_blocks /\ (forall b, In b ex_blocks -> In b (cknown (d0 100) [] ops)) /\
  ftip_td (dcore (crun (d0 100) ops)) = 140.
Proof. exact ex_crash. Qed.

Local Open Scope nat_scope.
(* The start-up scan (InitLoadUnverified): a stored-but-unverified block is
   submitted again when every height from the start of the scan up to its own
   that lies above the tip holds some stored-but-unverified block — in
   particular every such block at or below the tip's height, and every run of
   them directly above the tip — and nothing else is submitted. *)
Theorem c08_scan_reaches : forall unv tip start fin h x,
  start <= h <= fin -> In x (unv h) ->
  (forall m, start <= m <= h -> tip < m -> unv m <> []) ->
  In x (scan unv tip start fin).
Proof. exact scan_reaches. Qed.

Theorem c08_scan_reaches_up_to_tip : forall unv tip start fin h x,
  start <= h <= fin -> h <= tip -> In x (unv h) -> In x (scan unv tip start fin).
Proof. exact scan_reaches_up_to_tip. Qed.

Theorem c08_scan_only_unverified : forall unv tip start fin x,
  In x (scan unv tip start fin) -> exists h, start <= h <= fin /\ In x (unv h).
Proof. exact scan_only_unverified. Qed.

(* exactly: submitted <-> stored-but-unverified at a height of the range with no
   height between the start of the range and its own, above the tip, that has none *)
Theorem c08_scan_exact : forall unv tip start fin x,
  In x (scan unv tip start fin) <->
  exists h, start <= h <= fin /\ In x (unv h) /\
            (forall m, start <= m <= h -> tip < m -> unv m <> []).
Proof. exact scan_exact. Qed.

(* "stored but not yet verified blocks are picked up" is false as stated: behind a
   height above the tip that holds only processed blocks the scan stops (known
   finding C08-recovery-stops-at-first-empty-height-above-tip) *)
Theorem c08_scan_gap_refuted : forall fin,
  let unv := fun h => if Nat.eqb h 7 then [77%N] else [] in
  In 77%N (unv 7) /\ ~ In 77%N (scan unv 5 1 fin).
Proof. exact scan_gap_refuted. Qed.

Redirect "out/C08.c08_converges" Print Assumptions c08_converges.
Redirect "out/C08.c08_restart_state_consistent" Print Assumptions c08_restart_state_consistent.
Redirect "out/C08.c08_example" Print Assumptions c08_example.
Redirect "out/C08.c08_scan_reaches" Print Assumptions c08_scan_reaches.
Redirect "out/C08.c08_scan_reaches_up_to_tip" Print Assumptions c08_scan_reaches_up_to_tip.
Redirect "out/C08.c08_scan_only_unverified" Print Assumptions c08_scan_only_unverified.
Redirect "out/C08.c08_scan_exact" Print Assumptions c08_scan_exact.
Redirect "out/C08.c08_scan_gap_refuted" Print Assumptions c08_scan_gap_refuted.
