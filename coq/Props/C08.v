(* Props/C08.v — the theorems that decide property C08.  Statements only. *)
From CKB Require Import Chain.ForkChoice Chain.ForkChoiceProofs Chain.Crash Chain.CrashProofs Chain.ForkChoiceExamples.
Local Open Scope N_scope.

(* Any number of crashes at any points of any delivery history: once every
   block of the set has been processed before the last crash or delivered
   (again) after it — by InitLoadUnverified for the stored-but-unverified ones,
   by peers for the rest — the node has the same total difficulty as any run
   that never crashed, and the same tip unless two fully valid chains tie. *)
Theorem c08_converges : forall g ds,
  (forall b b', In b ds -> In b' ds -> bid b = bid b' -> b = b') ->
  (forall b, In b ds -> bid b <> 0) ->
  forall ops sched,
  incl (delivered ops) ds ->
  (forall b, In b ds -> In b (cknown (d0 g) [] ops)) ->
  (forall b, In b sched <-> In b ds) ->
  let dc := crun (d0 g) ops in let dn := drun (d0 g) sched in
  ftip_td (dcore dc) = ftip_td (dcore dn) /\
  ((forall i inf, lookup (fknown (dcore dc)) i = Some inf -> icok inf = true ->
                  itd inf = ftip_td (dcore dc) -> i = ftip (dcore dc)) -> ftip (dcore dc) = ftip (dcore dn)).
Proof. exact crash_converges. Qed.

(* The state found after a restart is a state of a crash-free run over a
   parent-first selection of the delivered blocks (hence satisfies the
   fork-choice invariant; C02's replay consistency holds of every such state). *)
Theorem c08_restart_state_consistent : forall g ds,
  (forall b b', In b ds -> In b' ds -> bid b = bid b' -> b = b') ->
  forall ops, incl (delivered ops) ds ->
  let dc := crun (d0 g) ops in
  FInv (dcore dc) /\
  exists ps, pfirst [0] ps /\ dcore dc = run (finit g) ps /\ incl ps ds.
Proof. exact crash_state_consistent. Qed.

(* non-vacuity: the example tree of C01 with two crashes *)
Theorem c08_example :
  let ops := [CDeliver (mkB 6 5 30 true); CDeliver (mkB 1 0 10 true); CCrash; CDeliver (mkB 4 1 30 true);
              CDeliver (mkB 5 4 30 false); CCrash; CDeliver (mkB 2 1 10 true); CDeliver (mkB 3 2 10 true);
              CDeliver (mkB 6 5 30 true)] in
  incl (delivered ops) ex_blocks /\ (forall b, In b ex_blocks -> In b (cknown (d0 100) [] ops)) /\
  ftip_td (dcore (crun (d0 100) ops)) = 140.
Proof. exact ex_crash. Qed.

Redirect "out/C08.c08_converges" Print Assumptions c08_converges.
Redirect "out/C08.c08_restart_state_consistent" Print Assumptions c08_restart_state_consistent.
Redirect "out/C08.c08_example" Print Assumptions c08_example.
