(* Props/C14.v — the theorems that decide property C14 (caches never change a
   verdict or an answer).  Statements only. *)
From CKB Require Import Tx.SysCache Tx.SysCacheProofs Tx.Cache Tx.CacheProofs Tx.CacheDaoProofs Tx.CacheMaturity Tx.CacheMaturityProofs Tx.FrozenCache Tx.FrozenCacheProofs.

(* Verdicts, fees, cycles.  [content] (capacity, scripts -> cycles, fee) is a
   function of what the witness hash commits to; [time_relative] stands for
   every check that depends on the position (since, maturity and — see the
   c14_dao_size theorems below — the DAO lock-size rule); the cache is
   a finite map of ANY capacity under ANY eviction (VEvict restricts it to an
   arbitrary key set at arbitrary moments; capacity 0 = evict everything);
   it may start warm with any sound contents.  For every history of pool
   submissions (announced cycles bounded by the relayer) and fully verified
   block verifications the sequence of verdicts with their fees and cycles
   equals that of a node without a cache. *)
Theorem c14_verdict_cache_transparent :
  forall (tx ctx : Type) (wtx_hash : tx -> N) (content : tx -> option completed)
         (time_relative : ctx -> tx -> bool) (maxc : N),
  (forall t1 t2, wtx_hash t1 = wtx_hash t2 -> content t1 = content t2) ->
  forall ops c,
    vcache_ok tx wtx_hash content maxc c -> Forall (vop_ok tx ctx maxc) ops ->
    vrun tx ctx wtx_hash content time_relative maxc c ops =
    vrun_ref tx ctx wtx_hash content time_relative maxc ops.
Proof. exact vrun_transparent. Qed.

(* the invariant the proof rests on holds of the cold cache and is kept by every step *)
Theorem c14_cache_sound_invariant :
  forall (tx ctx : Type) (wtx_hash : tx -> N) (content : tx -> option completed)
         (time_relative : ctx -> tx -> bool) (maxc : N),
  (forall t1 t2, wtx_hash t1 = wtx_hash t2 -> content t1 = content t2) ->
  forall ops c,
    vcache_ok tx wtx_hash content maxc c -> Forall (vop_ok tx ctx maxc) ops ->
    vcache_ok tx wtx_hash content maxc (vfinal tx ctx wtx_hash content time_relative maxc c ops).
Proof. exact vfinal_ok. Qed.

(* An entry is found only under the witness hash of a transaction that was
   verified before (pool or block) — for ANY history, also unsound ones. *)
Theorem c14_hit_requires_same_wtx :
  forall (tx ctx : Type) (wtx_hash : tx -> N) (content : tx -> option completed)
         (time_relative : ctx -> tx -> bool) (maxc : N) ops c t e,
    lookup (vfinal tx ctx wtx_hash content time_relative maxc c ops) (wtx_hash t) = Some e ->
    lookup c (wtx_hash t) = Some e \/
    exists o t', In o ops /\ In t' (vop_txs tx ctx o) /\ wtx_hash t' = wtx_hash t.
Proof. exact hit_requires_same_wtx. Qed.

(* with collision-free hashes: the identical transaction, witnesses included *)
Theorem c14_hit_requires_same_tx :
  forall (tx ctx : Type) (wtx_hash : tx -> N) (content : tx -> option completed)
         (time_relative : ctx -> tx -> bool) (maxc : N),
  (forall t1 t2, wtx_hash t1 = wtx_hash t2 -> t1 = t2) ->
  forall ops t e,
    lookup (vfinal tx ctx wtx_hash content time_relative maxc [] ops) (wtx_hash t) = Some e ->
    exists o, In o ops /\ In t (vop_txs tx ctx o).
Proof. exact hit_requires_same_tx. Qed.

(* Since / maturity are evaluated on the hit path as on the miss path,
   whatever the cache holds: a failing time-relative check rejects, and the
   result depends on the position only through that check. *)
Theorem c14_contextual_always_rerun :
  forall (tx ctx : Type) (wtx_hash : tx -> N) (content : tx -> option completed)
         (time_relative : ctx -> tx -> bool) c lim skip t,
    (forall x, time_relative x t = false ->
       verify_tx tx ctx wtx_hash content time_relative c x lim skip t = None) /\
    (forall x, time_relative x t = false ->
       verify_full tx ctx content time_relative x lim skip t = None) /\
    (forall x1 x2, time_relative x1 t = time_relative x2 t ->
       verify_tx tx ctx wtx_hash content time_relative c x1 lim skip t =
       verify_tx tx ctx wtx_hash content time_relative c x2 lim skip t) /\
    (forall x1 x2, time_relative x1 t = time_relative x2 t ->
       verify_full tx ctx content time_relative x1 lim skip t =
       verify_full tx ctx content time_relative x2 lim skip t).
Proof. exact contextual_always_rerun. Qed.

Theorem c14_block_with_immature_rejected :
  forall (tx ctx : Type) (wtx_hash : tx -> N) (content : tx -> option completed)
         (time_relative : ctx -> tx -> bool) (maxc : N) c x skip txs t,
    In t txs -> time_relative x t = false ->
    fst (verify_block tx ctx wtx_hash content time_relative maxc c x skip txs) = None.
Proof. exact block_with_immature_rejected. Qed.

(* ---- the RFC0044 DAO lock-size rule (DaoScriptSizeVerifier) ----------------- *)
(* The rule is waived when the deposit cell was committed below
   starting_block_limiting_dao_withdrawing_lock: the same (transaction,
   witnesses) passes at one position [x] and fails at another.  [dao_size x t]
   is DaoScriptSizeVerifier at position x, [rfc0044 x] the activation test.

   The block path (BlockTxsVerifier::verify) chains the rule behind BOTH arms:
   it is the cache model above with "since/maturity and the size rule" as its
   position-dependent check, so every theorem above applies to it. *)
Theorem c14_dao_size_block_path_is_conjunction :
  forall (tx ctx : Type) (wtx_hash : tx -> N) (content : tx -> option completed)
         (time_relative dao_size : ctx -> tx -> bool) (rfc0044 : ctx -> bool) c x lim skip t,
    verify_tx_blk tx ctx wtx_hash content time_relative dao_size rfc0044 c x lim skip t =
    verify_tx tx ctx wtx_hash content (tr_dao tx ctx time_relative dao_size rfc0044) c x lim skip t.
Proof. exact verify_tx_blk_conj. Qed.

(* Whatever the cache holds (sound or not; hit or miss): where the rule is
   active and violated, the transaction and every block committing it are
   rejected — the rule is re-run on the hit path. *)
Theorem c14_dao_size_always_rerun :
  forall (tx ctx : Type) (wtx_hash : tx -> N) (content : tx -> option completed)
         (time_relative dao_size : ctx -> tx -> bool) (rfc0044 : ctx -> bool) c x lim skip t,
    rfc0044 x = true -> dao_size x t = false ->
    verify_tx_blk tx ctx wtx_hash content time_relative dao_size rfc0044 c x lim skip t = None.
Proof. exact dao_size_always_rerun. Qed.

Theorem c14_block_with_dao_mismatch_rejected :
  forall (tx ctx : Type) (wtx_hash : tx -> N) (content : tx -> option completed)
         (time_relative dao_size : ctx -> tx -> bool) (rfc0044 : ctx -> bool) (maxc : N) c x skip txs t,
    In t txs -> rfc0044 x = true -> dao_size x t = false ->
    fst (verify_block_d tx ctx wtx_hash content time_relative dao_size rfc0044 maxc c x skip txs) = None.
Proof. exact block_with_dao_mismatch_rejected. Qed.

(* With any sound cache the block path answers for a transaction as with no
   cache, at EVERY position: in particular at two positions that differ in the
   waiver. *)
Theorem c14_dao_size_tx_transparent :
  forall (tx ctx : Type) (wtx_hash : tx -> N) (content : tx -> option completed)
         (time_relative dao_size : ctx -> tx -> bool) (rfc0044 : ctx -> bool) (maxc : N) c x t,
    vcache_ok tx wtx_hash content maxc c ->
    verify_tx_blk tx ctx wtx_hash content time_relative dao_size rfc0044 c x maxc false t =
    verify_tx_blk tx ctx wtx_hash content time_relative dao_size rfc0044 [] x maxc false t.
Proof. exact dao_blk_tx_transparent. Qed.

(* The two-branch scenario itself: verified in a block where the rule is waived
   (accepted, entry cached), then committed where the rule applies: rejected
   with that cache exactly as with none. *)
Theorem c14_dao_waived_then_applies :
  forall (tx ctx : Type) (wtx_hash : tx -> N) (content : tx -> option completed)
         (time_relative dao_size : ctx -> tx -> bool) (rfc0044 : ctx -> bool) (maxc : N) x1 x2 t e,
    time_relative x1 t = true -> dao_size x1 t = true ->
    rfc0044 x2 = true -> dao_size x2 t = false ->
    content t = Some e -> N.le (c_cycles e) maxc ->
    let c1 := snd (verify_block_d tx ctx wtx_hash content time_relative dao_size rfc0044 maxc [] x1 false [t]) in
    fst (verify_block_d tx ctx wtx_hash content time_relative dao_size rfc0044 maxc [] x1 false [t]) = Some [e] /\
    lookup c1 (wtx_hash t) = Some e /\
    fst (verify_block_d tx ctx wtx_hash content time_relative dao_size rfc0044 maxc c1 x2 false [t]) = None /\
    fst (verify_block_d tx ctx wtx_hash content time_relative dao_size rfc0044 maxc [] x2 false [t]) = None.
Proof. exact dao_waived_then_applies. Qed.

(* Histories: block verifications at ANY positions, evictions of any kind, a
   cold or warm sound cache, and pool submissions at positions where the rule
   holds or is waived for the submitted transaction: all verdicts, fees and
   cycles equal those of a node without cache. *)
Theorem c14_dao_size_history_transparent :
  forall (tx ctx : Type) (wtx_hash : tx -> N) (content : tx -> option completed)
         (time_relative dao_size : ctx -> tx -> bool) (rfc0044 : ctx -> bool) (maxc : N),
  (forall t1 t2, wtx_hash t1 = wtx_hash t2 -> content t1 = content t2) ->
  forall ops c,
    vcache_ok tx wtx_hash content maxc c -> Forall (dop_ok tx ctx dao_size maxc) ops ->
    drun tx ctx wtx_hash content time_relative dao_size rfc0044 maxc c ops =
    drun_ref tx ctx wtx_hash content time_relative dao_size rfc0044 maxc ops.
Proof. exact dao_history_transparent. Qed.

Theorem c14_dao_size_block_history_transparent :
  forall (tx ctx : Type) (wtx_hash : tx -> N) (content : tx -> option completed)
         (time_relative dao_size : ctx -> tx -> bool) (rfc0044 : ctx -> bool) (maxc : N),
  (forall t1 t2, wtx_hash t1 = wtx_hash t2 -> content t1 = content t2) ->
  forall ops c,
    vcache_ok tx wtx_hash content maxc c -> Forall (dop_block_only tx ctx) ops ->
    drun tx ctx wtx_hash content time_relative dao_size rfc0044 maxc c ops =
    drun_ref tx ctx wtx_hash content time_relative dao_size rfc0044 maxc ops.
Proof. exact dao_block_history_transparent. Qed.

(* Refuted without that restriction: the tx-pool's verify_rtx does NOT run
   DaoScriptSizeVerifier on its hit path.  A withdraw verified in a block where
   the rule is waived and then offered to the pool on the branch where the rule
   applies is admitted from the cache and rejected without (replayed on the
   real node: known finding C14-pool-cache-hit-skips-dao-lock-size). *)
Theorem c14_pool_hit_skips_dao_size_refuted :
  exists ops, d_run 10000 [] ops <> d_ref 10000 ops /\
              d_run 10000 [] ops = [OBlock (Some [mkC 1074 3000]); OTx (Some (mkC 1074 3000))] /\
              d_ref 10000 ops = [OBlock (Some [mkC 1074 3000]); OTx None].
Proof. exact pool_hit_skips_dao_size_refuted. Qed.

(* non-vacuity: deposit and withdraw on branch A (cached), deposit on branch B,
   withdraw where the rule applies (rejected), everything evicted, again *)
Theorem c14_example_dao_history_ok : Forall (dop_block_only dotx unit) ex_dao_history.
Proof. exact ex_dao_history_ok. Qed.

Theorem c14_example_dao_history :
  d_run 10000 [] ex_dao_history =
  [ OBlock (Some [mkC 537 2000]); OBlock (Some [mkC 1074 3000]);
    OBlock (Some [mkC 537 2000]); OBlock None; ONone; OBlock None;
    OBlock (Some [mkC 537 2000; mkC 1074 3000]) ] /\
  d_ref 10000 ex_dao_history = d_run 10000 [] ex_dao_history.
Proof. exact ex_dao_history_outputs. Qed.

(* ---- cellbase maturity and since, taken apart (Tx/CacheMaturity.v) ----------- *)
(* TimeRelativeTransactionVerifier = MaturityVerifier (first over the resolved
   inputs, then over the resolved cell deps, members of dep groups included),
   then SinceVerifier.  [tr_mat] is their conjunction; the theorems above
   instantiated for it: for every history (pool submissions, block verifications
   at ANY positions, arbitrary evictions, cold or warm sound cache) the verdicts,
   fees and cycles are those of a node without cache. *)
Theorem c14_maturity_history_transparent :
  forall (tx ctx : Type) (wtx_hash : tx -> N) (content : tx -> option completed)
         (since_ok maturity_inputs maturity_deps : ctx -> tx -> bool) (maxc : N),
  (forall t1 t2, wtx_hash t1 = wtx_hash t2 -> content t1 = content t2) ->
  forall ops c,
    vcache_ok tx wtx_hash content maxc c -> Forall (vop_ok tx ctx maxc) ops ->
    vrun tx ctx wtx_hash content (tr_mat tx ctx since_ok maturity_inputs maturity_deps) maxc c ops =
    vrun_ref tx ctx wtx_hash content (tr_mat tx ctx since_ok maturity_inputs maturity_deps) maxc ops.
Proof. exact mat_history_transparent. Qed.

(* Whatever the cache holds (sound or not; hit or miss): an immature cellbase
   output among the inputs OR among the cell deps, or an unmet since, rejects. *)
Theorem c14_maturity_each_check_always_rerun :
  forall (tx ctx : Type) (wtx_hash : tx -> N) (content : tx -> option completed)
         (since_ok maturity_inputs maturity_deps : ctx -> tx -> bool) c x lim skip t,
    maturity_inputs x t = false \/ maturity_deps x t = false \/ since_ok x t = false ->
    verify_tx tx ctx wtx_hash content (tr_mat tx ctx since_ok maturity_inputs maturity_deps) c x lim skip t = None /\
    verify_full tx ctx content (tr_mat tx ctx since_ok maturity_inputs maturity_deps) x lim skip t = None.
Proof. exact mat_each_check_always_rerun. Qed.

Theorem c14_block_with_immature_dep_rejected :
  forall (tx ctx : Type) (wtx_hash : tx -> N) (content : tx -> option completed)
         (since_ok maturity_inputs maturity_deps : ctx -> tx -> bool) (maxc : N) c x skip txs t,
    In t txs -> maturity_deps x t = false ->
    fst (verify_block tx ctx wtx_hash content (tr_mat tx ctx since_ok maturity_inputs maturity_deps) maxc c x skip txs) = None.
Proof. exact mat_block_with_immature_dep_rejected. Qed.

(* The two-branch scenario itself: verified in a block where every cellbase
   output the transaction uses is mature (accepted, entry cached), then committed
   where one among its cell deps is immature: rejected with that cache exactly
   as with none. *)
Theorem c14_mature_then_immature_dep :
  forall (tx ctx : Type) (wtx_hash : tx -> N) (content : tx -> option completed)
         (since_ok maturity_inputs maturity_deps : ctx -> tx -> bool) (maxc : N) x1 x2 t e,
    tr_mat tx ctx since_ok maturity_inputs maturity_deps x1 t = true -> maturity_deps x2 t = false ->
    content t = Some e -> N.le (c_cycles e) maxc ->
    let tr := tr_mat tx ctx since_ok maturity_inputs maturity_deps in
    let c1 := snd (verify_block tx ctx wtx_hash content tr maxc [] x1 false [t]) in
    fst (verify_block tx ctx wtx_hash content tr maxc [] x1 false [t]) = Some [e] /\
    lookup c1 (wtx_hash t) = Some e /\
    fst (verify_block tx ctx wtx_hash content tr maxc c1 x2 false [t]) = None /\
    fst (verify_block tx ctx wtx_hash content tr maxc [] x2 false [t]) = None.
Proof. exact mat_mature_then_immature_dep. Qed.

(* A hit path that evaluates the position-dependent checks only for the
   transactions a syntactic test selects ([grun]: BlockTxsVerifier with that hit
   arm) is the cache model — hence transparent — when the test is complete:
   what it does not select passes at every position. *)
Theorem c14_gated_hit_path_transparent_if_complete :
  forall (tx ctx : Type) (wtx_hash : tx -> N) (content : tx -> option completed)
         (since_ok maturity_inputs maturity_deps : ctx -> tx -> bool) (maxc : N) (has_constraint : tx -> bool),
  (forall t1 t2, wtx_hash t1 = wtx_hash t2 -> content t1 = content t2) ->
  constraint_complete tx ctx since_ok maturity_inputs maturity_deps has_constraint ->
  forall ops c,
    vcache_ok tx wtx_hash content maxc c -> Forall (vop_ok tx ctx maxc) ops ->
    grun tx ctx wtx_hash content since_ok maturity_inputs maturity_deps maxc has_constraint c ops =
    vrun_ref tx ctx wtx_hash content (tr_mat tx ctx since_ok maturity_inputs maturity_deps) maxc ops.
Proof. exact gated_complete_transparent. Qed.

(* Positions read as commit heights (cellbase output of block c > 0 mature at
   height x iff c + k <= x): the test "a since on an input, a cellbase output
   among the inputs or among the cell deps" is complete ... *)
Theorem c14_gated_all_complete : forall k,
  constraint_complete htx N h_since_ok (h_mat_in k) (h_mat_dep k) h_constraint_all.
Proof. exact h_constraint_all_complete. Qed.

(* ... the test that forgets the cell deps is not.  Refuted with a witness: T has
   no since and an ordinary input and lists the cellbase output of block 1 as a
   cell dep, maturity 3 blocks; branch A commits T at height 5 (mature: accepted,
   cached), branch B at height 2 (immature): answered from the cache by the gated
   hit path, rejected without the entry and by the real hit path. *)
Theorem c14_gated_inputs_only_refuted :
  h_constraint_inputs hT = false /\
  exists ops,
    h_grun h_constraint_inputs 3 10000 [] ops = [OBlock (Some [mkC 537 1000]); OBlock (Some [mkC 537 1000])] /\
    h_ref 3 10000 ops = [OBlock (Some [mkC 537 1000]); OBlock None] /\
    h_run 3 10000 [] ops = h_ref 3 10000 ops /\
    h_grun h_constraint_inputs 3 10000 [] ops <> h_ref 3 10000 ops.
Proof. exact gated_inputs_only_refuted. Qed.

(* non-vacuity: cellbase output as dep / as input / both, around the boundary *)
Theorem c14_example_maturity_history_ok : Forall (vop_ok htx N 10000) ex_mat_history.
Proof. exact ex_mat_history_ok. Qed.

Theorem c14_example_maturity_history :
  h_run 3 10000 [] ex_mat_history =
  [ OBlock (Some [mkC 537 1000]); OBlock None; OBlock (Some [mkC 537 1000; mkC 537 1000]);
    OBlock None; OBlock (Some [mkC 537 1000]); OBlock None;
    ONone; OBlock None; OBlock None; OBlock (Some [mkC 537 1000; mkC 537 1000; mkC 537 1000]) ] /\
  h_ref 3 10000 ex_mat_history = h_run 3 10000 [] ex_mat_history /\
  h_grun h_constraint_all 3 10000 [] ex_mat_history = h_run 3 10000 [] ex_mat_history.
Proof. exact ex_mat_history_outputs. Qed.

(* Store read caches: after any history of block / cell writes, deletions of
   unverified blocks, reads and arbitrary evictions in which every read is on
   a stored block / live cell, the caches hold only the immutable content
   their keys address, and every getter on a stored block / live cell answers
   what the columns say. *)
Theorem c14_store_cache_transparent :
  forall (block_of : N -> blockdata) (data_of : N -> N) ops s,
    scache_ok block_of data_of s -> guarded block_of data_of s ops ->
    let s' := srun block_of data_of s ops in
    scache_ok block_of data_of s' /\
    (forall h, db_block s' h = true ->
       fst (get_header block_of s' h) = db_header block_of s' h /\
       fst (get_uncles block_of s' h) = db_uncles block_of s' h /\
       fst (get_proposals block_of s' h) = db_proposals block_of s' h /\
       fst (get_ext block_of s' h) = db_ext block_of s' h /\
       fst (get_txs block_of s' h) = db_txs block_of s' h /\
       fst (get_block block_of s' h) = db_get_block block_of s' h) /\
    (forall k, db_cell s' k = true -> fst (get_data data_of s' k) = db_data data_of s' k).
Proof. exact store_cache_transparent. Qed.

Theorem c14_store_cache_cold_ok : forall block_of data_of, scache_ok block_of data_of empty_sstate.
Proof. exact empty_ok. Qed.

(* cached negative answers (extension None, empty tx-hash list): right when
   every read is guarded ... *)
Theorem c14_negative_cache_guarded_ok :
  forall (block_of : N -> blockdata) (data_of : N -> N) ops s h,
    scache_ok block_of data_of s -> guarded block_of data_of s ops ->
    lookup (ce (srun block_of data_of s ops)) h = Some None -> bd_ext (block_of h) = None.
Proof. exact negative_cache_guarded_ok. Qed.

(* ... and stale when the getter is asked before the block is stored *)
Theorem c14_negative_cache_refuted :
  exists ops h, let s := srun ex_block_of ex_data_of empty_sstate ops in
    db_block s h = true /\
    fst (get_ext ex_block_of s h) = None /\ db_ext ex_block_of s h = Some 4%N /\
    fst (get_txs ex_block_of s h) = [] /\ db_txs ex_block_of s h = [5%N; 6%N].
Proof. exact negative_cache_refuted. Qed.

(* unguarded reads of deleted items are answered from the cache *)
Theorem c14_deleted_block_ghost_refuted :
  exists ops h, let s := srun ex_block_of ex_data_of empty_sstate ops in
    guarded ex_block_of ex_data_of empty_sstate ops /\
    db_block s h = false /\ db_header ex_block_of s h = None /\
    fst (get_header ex_block_of s h) = Some 10%N /\
    db_get_block ex_block_of s h = None /\
    fst (get_block ex_block_of s h) = Some (mkBA 10 (Some [2%N]) (Some [3%N]) (Some 4%N) []).
Proof. exact deleted_block_ghost_refuted. Qed.

Theorem c14_dead_cell_ghost_refuted :
  exists ops k, let s := srun ex_block_of ex_data_of empty_sstate ops in
    guarded ex_block_of ex_data_of empty_sstate ops /\
    db_data ex_data_of s k = None /\ fst (get_data ex_data_of s k) = Some 63%N.
Proof. exact dead_cell_ghost_refuted. Qed.

Theorem c14_ghost_then_negative_refuted :
  exists ops h, let s := srun ex_block_of ex_data_of empty_sstate ops in
    db_block s h = true /\
    option_map ba_ext (fst (get_block ex_block_of s h)) = Some None /\
    option_map ba_ext (db_get_block ex_block_of s h) = Some (Some 4%N).
Proof. exact ghost_then_negative_refuted. Qed.

(* assume-valid blocks put cycles = 0 into the verification cache *)
Theorem c14_skip_script_poisons_refuted :
  exists ops, o_run 10000 [] ops <> o_ref 10000 ops /\
              o_run 10000 [] ops = [OBlock (Some [mkC 0 30]); OBlock (Some [mkC 0 30])] /\
              o_ref 10000 ops = [OBlock (Some [mkC 0 30]); OBlock (Some [mkC 500 30])].
Proof. exact skip_script_poisons_refuted. Qed.

(* SYSTEM_CELL *)
Theorem c14_system_cell_transparent :
  forall (meta_of : N -> N) (system_cell : N -> option N) live deps,
    system_cell_ok meta_of system_cell -> system_cells_unspendable system_cell live ->
    resolve_deps (resolve_dep_cached meta_of system_cell live) deps = resolve_deps (resolve_dep meta_of live) deps.
Proof. exact system_cell_transparent. Qed.

Theorem c14_system_cell_spent_refuted :
  exists sys live, system_cell_ok (fun x => x) sys /\
    resolve_deps (resolve_dep_cached (fun x => x) sys live) [5%N] = Some [5%N] /\
    resolve_deps (resolve_dep (fun x => x) live) [5%N] = None.
Proof. exact system_cell_spent_refuted. Qed.

(* non-vacuity *)
Theorem c14_example_history_ok : Forall (vop_ok otx unit 1000) ex_history.
Proof. exact ex_history_ok. Qed.

Theorem c14_example_history :
  o_run 10000 [] ex_history =
  [ OTx (Some (mkC 500 30)); OTx (Some (mkC 700 11));
    OBlock (Some [mkC 500 30; mkC 700 11]); ONone; OBlock None; OBlock None;
    OBlock (Some [mkC 500 30; mkC 700 11]) ] /\
  o_ref 10000 ex_history = o_run 10000 [] ex_history /\
  lookup (vfinal otx unit ot_wtx ot_content (fun _ t => ot_tr t) 10000 []
            [VSubmit tt (Some 500%N) true ot1; VSubmit tt None true ot2]) 2 = Some (mkC 700 11).
Proof. exact ex_history_outputs. Qed.

Theorem c14_example_store_history :
  guarded ex_block_of ex_data_of empty_sstate ex_shistory /\
  let s := srun ex_block_of ex_data_of empty_sstate ex_shistory in
  lookup (ch s) 1 = Some 10%N /\ lookup (ce s) 1 = Some (Some 4%N) /\ lookup (ct s) 1 = Some [5%N; 6%N] /\ db_block s 1 = true.
Proof. exact (conj ex_shistory_guarded ex_shistory_hits). Qed.

Theorem c14_example_system_cell :
  system_cell_ok (fun x => (x * 2)%N) (fun op => if N.eqb op 5 then Some 10%N else None) /\
  system_cells_unspendable (fun op => if N.eqb op 5 then Some 10%N else None) (fun op => N.leb op 6).
Proof. exact system_cell_example. Qed.

(* SYSTEM_CELL with dep groups and the MAX_DEP_EXPANSION_LIMIT accounting: with a
   map that is consistent with the provider (what setup_system_cell_cache builds),
   the dependency side of resolve_transaction returns the same cells and groups in
   the same order, or the same error, as without the map — for every dep list
   (cached deps repeated, other dep type on a cached out point, user groups, dead /
   unknown / unparsable deps, any total expansion). *)
Theorem c14_system_cell_groups_transparent : forall c p deps,
  cache_consistent c p -> resolve_warm c p deps = resolve_cold p deps.
Proof. exact system_cell_cache_transparent. Qed.

Theorem c14_resolved_deps_at_most_limit : forall p deps slots cells groups,
  resolve_cold p deps = inr (slots, cells, groups) -> length cells <= max_dep_expansion.
Proof. exact resolved_deps_at_most_limit. Qed.

(* were a cached group to cost one slot instead of one per member, a transaction
   with 2049 expanded deps would resolve with the cache and not without *)
Theorem c14_group_cost_one_refuted :
  cache_consistent ex_cache ex_provider /\
  outcome_of (resolve_cold ex_provider ex_deps) = OErr 4 0 /\
  (exists cells groups, outcome_of (resolve_warm_from (fun _ => 1) ex_cache ex_provider ex_deps (max_dep_expansion, [], [])) = OOk cells groups /\ length cells = 2049) /\
  outcome_of (resolve_warm ex_cache ex_provider ex_deps) = OErr 4 0.
Proof. exact (conj ex_cache_consistent group_cost_one_refuted). Qed.

(* Store read caches in front of a store with a freezer (store/src/store.rs part getters with the
   get_frozen_block fallback; shared/src/shared.rs freeze + wipe_out_frozen_data): after any history of
   block writes, freezing of stored blocks, wiping of frozen blocks' part rows, reads on readable blocks
   and arbitrary evictions, every getter answers the block's content — whatever the caches hold and
   wherever the parts are now (columns, freezer, or both). *)
Theorem c14_frozen_cache_transparent :
  forall (block_of : N -> blockdata) ops s,
    fcache_ok block_of s -> fguarded block_of s ops ->
    let s' := frun block_of s ops in
    fcache_ok block_of s' /\
    forall h, avail s' h = true ->
      fst (fget_header block_of s' h) = Some (bd_header (block_of h)) /\
      fst (fget_uncles block_of s' h) = Some (bd_uncles (block_of h)) /\
      fst (fget_proposals block_of s' h) = Some (bd_proposals (block_of h)) /\
      fst (fget_ext block_of s' h) = bd_ext (block_of h) /\
      fst (fget_txs block_of s' h) = bd_txs (block_of h) /\
      fst (fget_body block_of s' h) = bd_txs (block_of h) /\
      fst (fget_block block_of s' h) = Some (whole block_of h).
Proof. exact frozen_cache_transparent. Qed.

Theorem c14_frozen_cache_cold_ok : forall block_of, fcache_ok block_of empty_fstate.
Proof. exact empty_fok. Qed.

(* two nodes whose caches and whose placement of a readable block differ answer alike *)
Theorem c14_freeze_changes_no_answer :
  forall (block_of : N -> blockdata) s1 s2 h,
    fcache_ok block_of s1 -> fcache_ok block_of s2 -> avail s1 h = true -> avail s2 h = true ->
    fst (fget_uncles block_of s1 h) = fst (fget_uncles block_of s2 h) /\
    fst (fget_proposals block_of s1 h) = fst (fget_proposals block_of s2 h) /\
    fst (fget_ext block_of s1 h) = fst (fget_ext block_of s2 h) /\
    fst (fget_txs block_of s1 h) = fst (fget_txs block_of s2 h) /\
    fst (fget_block block_of s1 h) = fst (fget_block block_of s2 h).
Proof. exact freeze_changes_no_answer. Qed.

(* non-vacuity: a frozen and wiped block with an extension is readable, guarded, and answered twice *)
Theorem c14_example_frozen_history :
  fguarded ex_block_of empty_fstate (ex_fz_history ++ [FGetExt 5; FGetExt 5; FGetBlock 5]) /\
  let s := frun ex_block_of empty_fstate ex_fz_history in
  let (a1, s1) := fget_ext ex_block_of s 5 in
  let (a2, _) := fget_ext ex_block_of s1 5 in
  a1 = Some 8%N /\ a2 = Some 8%N /\ avail s 5 = true.
Proof. exact (conj ex_fz_guarded ex_fz_answers). Qed.

(* were the column's answer cached before the freezer fallback is applied, the second read of a frozen
   block's extension would be served the negative entry *)
Theorem c14_late_fallback_refuted :
  let s := frun ex_block_of empty_fstate ex_fz_history in
  let (a1, s1) := fget_ext_late ex_block_of s 5 in
  let (a2, _) := fget_ext_late ex_block_of s1 5 in
  avail s 5 = true /\ a1 = bd_ext (ex_block_of 5) /\ a2 = None /\ a2 <> bd_ext (ex_block_of 5).
Proof. exact late_fallback_refuted. Qed.

Redirect "out/C14.c14_verdict_cache_transparent" Print Assumptions c14_verdict_cache_transparent.
Redirect "out/C14.c14_cache_sound_invariant" Print Assumptions c14_cache_sound_invariant.
Redirect "out/C14.c14_hit_requires_same_wtx" Print Assumptions c14_hit_requires_same_wtx.
Redirect "out/C14.c14_hit_requires_same_tx" Print Assumptions c14_hit_requires_same_tx.
Redirect "out/C14.c14_contextual_always_rerun" Print Assumptions c14_contextual_always_rerun.
Redirect "out/C14.c14_block_with_immature_rejected" Print Assumptions c14_block_with_immature_rejected.
Redirect "out/C14.c14_store_cache_transparent" Print Assumptions c14_store_cache_transparent.
Redirect "out/C14.c14_store_cache_cold_ok" Print Assumptions c14_store_cache_cold_ok.
Redirect "out/C14.c14_negative_cache_guarded_ok" Print Assumptions c14_negative_cache_guarded_ok.
Redirect "out/C14.c14_negative_cache_refuted" Print Assumptions c14_negative_cache_refuted.
Redirect "out/C14.c14_deleted_block_ghost_refuted" Print Assumptions c14_deleted_block_ghost_refuted.
Redirect "out/C14.c14_dead_cell_ghost_refuted" Print Assumptions c14_dead_cell_ghost_refuted.
Redirect "out/C14.c14_ghost_then_negative_refuted" Print Assumptions c14_ghost_then_negative_refuted.
Redirect "out/C14.c14_skip_script_poisons_refuted" Print Assumptions c14_skip_script_poisons_refuted.
Redirect "out/C14.c14_system_cell_transparent" Print Assumptions c14_system_cell_transparent.
Redirect "out/C14.c14_system_cell_spent_refuted" Print Assumptions c14_system_cell_spent_refuted.
Redirect "out/C14.c14_example_history_ok" Print Assumptions c14_example_history_ok.
Redirect "out/C14.c14_example_history" Print Assumptions c14_example_history.
Redirect "out/C14.c14_example_store_history" Print Assumptions c14_example_store_history.
Redirect "out/C14.c14_example_system_cell" Print Assumptions c14_example_system_cell.
Redirect "out/C14.c14_system_cell_groups_transparent" Print Assumptions c14_system_cell_groups_transparent.
Redirect "out/C14.c14_resolved_deps_at_most_limit" Print Assumptions c14_resolved_deps_at_most_limit.
Redirect "out/C14.c14_group_cost_one_refuted" Print Assumptions c14_group_cost_one_refuted.
Redirect "out/C14.c14_dao_size_block_path_is_conjunction" Print Assumptions c14_dao_size_block_path_is_conjunction.
Redirect "out/C14.c14_dao_size_always_rerun" Print Assumptions c14_dao_size_always_rerun.
Redirect "out/C14.c14_block_with_dao_mismatch_rejected" Print Assumptions c14_block_with_dao_mismatch_rejected.
Redirect "out/C14.c14_dao_size_tx_transparent" Print Assumptions c14_dao_size_tx_transparent.
Redirect "out/C14.c14_dao_waived_then_applies" Print Assumptions c14_dao_waived_then_applies.
Redirect "out/C14.c14_dao_size_history_transparent" Print Assumptions c14_dao_size_history_transparent.
Redirect "out/C14.c14_dao_size_block_history_transparent" Print Assumptions c14_dao_size_block_history_transparent.
Redirect "out/C14.c14_pool_hit_skips_dao_size_refuted" Print Assumptions c14_pool_hit_skips_dao_size_refuted.
Redirect "out/C14.c14_example_dao_history_ok" Print Assumptions c14_example_dao_history_ok.
Redirect "out/C14.c14_example_dao_history" Print Assumptions c14_example_dao_history.
Redirect "out/C14.c14_frozen_cache_transparent" Print Assumptions c14_frozen_cache_transparent.
Redirect "out/C14.c14_frozen_cache_cold_ok" Print Assumptions c14_frozen_cache_cold_ok.
Redirect "out/C14.c14_freeze_changes_no_answer" Print Assumptions c14_freeze_changes_no_answer.
Redirect "out/C14.c14_example_frozen_history" Print Assumptions c14_example_frozen_history.
Redirect "out/C14.c14_late_fallback_refuted" Print Assumptions c14_late_fallback_refuted.
Redirect "out/C14.c14_maturity_history_transparent" Print Assumptions c14_maturity_history_transparent.
Redirect "out/C14.c14_maturity_each_check_always_rerun" Print Assumptions c14_maturity_each_check_always_rerun.
Redirect "out/C14.c14_block_with_immature_dep_rejected" Print Assumptions c14_block_with_immature_dep_rejected.
Redirect "out/C14.c14_mature_then_immature_dep" Print Assumptions c14_mature_then_immature_dep.
Redirect "out/C14.c14_gated_hit_path_transparent_if_complete" Print Assumptions c14_gated_hit_path_transparent_if_complete.
Redirect "out/C14.c14_gated_all_complete" Print Assumptions c14_gated_all_complete.
Redirect "out/C14.c14_gated_inputs_only_refuted" Print Assumptions c14_gated_inputs_only_refuted.
Redirect "out/C14.c14_example_maturity_history_ok" Print Assumptions c14_example_maturity_history_ok.
Redirect "out/C14.c14_example_maturity_history" Print Assumptions c14_example_maturity_history.
