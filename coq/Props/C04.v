(* Props/C04.v — the theorems that decide property C04.  Statements only; every
   proof is [exact <lemma>].  Do not weaken: tools/pins/C04.sha256 pins them. *)
From CKB Require Import Arith.Since Arith.SinceProofs Tx.Verify Tx.VerifyProofs Tx.Resolve Tx.ResolveProofs Tx.Accept Tx.AcceptProofs Tx.Recheck Tx.RecheckProofs.
Local Open Scope N_scope.

(* ---- since: bit layout ----------------------------------------------------- *)
(* Decoding is total and exact for every u64: the value splits into relative
   bit / metric flag / reserved bits / 56-bit value; the flags are valid exactly
   for the RFC-17 layout; every decoder answers from those fields. *)
Theorem since_decode_total_exact : forall s, s < U64 ->
  exists rel m r v,
    rel < 2 /\ m < 4 /\ r < 32 /\ v < 2 ^ 56 /\
    s = rel * 2 ^ 63 + m * 2 ^ 61 + r * 2 ^ 56 + v /\
    (flags_is_valid s = true <-> r = 0 /\ m <> 3) /\
    is_absolute s = (rel =? 0) /\
    since_value s = v /\
    extract_metric s = metric_of_fields m v /\
    timestamp_overflows s = (m =? 2) && (U64 <=? v * 1000).
Proof. exact since_decode_total_exact_thm. Qed.

Theorem since_encode_decode : forall (rel : bool) m v,
  m < 3 -> v < 2 ^ 56 ->
  let s := since_encode rel m v in
  s < U64 /\ flags_is_valid s = true /\ is_absolute s = negb rel /\
  since_value s = v /\ extract_metric s = metric_of_fields m v.
Proof. exact since_encode_decode_thm. Qed.

Theorem since_decode_encode : forall s, s < U64 -> flags_is_valid s = true ->
  since_encode (is_relative s) (fld s 61 2) (since_value s) = s /\ fld s 61 2 < 3.
Proof. exact since_decode_encode_thm. Qed.

(* the constants regenerated from the Rust source have the RFC-17 / 24-16-16 layout *)
Theorem since_constants_ok :
  LOCK_TYPE_FLAG = N.shiftl (N.ones 1) 63 /\
  METRIC_TYPE_FLAG_MASK = N.shiftl (N.ones 2) 61 /\
  REMAIN_FLAGS_BITS = N.shiftl (N.ones 5) 56 /\
  VALUE_MASK = N.ones 56 /\
  TAG_BLOCK_NUMBER = 0 /\ TAG_EPOCH = 1 * 2 ^ 61 /\ TAG_TIMESTAMP = 2 * 2 ^ 61 /\
  TIMESTAMP_MULTIPLIER = 1000 /\
  EPOCH_NUMBER_OFFSET = 0 /\ EPOCH_NUMBER_BITS = 24 /\
  EPOCH_INDEX_OFFSET = 24 /\ EPOCH_INDEX_BITS = 16 /\
  EPOCH_LENGTH_OFFSET = 40 /\ EPOCH_LENGTH_BITS = 16.
Proof. exact since_params_ok. Qed.

(* ---- since: F2 ------------------------------------------------------------- *)
(* the arithmetic as it was before the fix: commit panics on a valid since ... *)
Theorem since_timestamp_overflow_refuted :
  exists s, s < U64 /\ flags_is_valid s = true /\ extract_metric_old s = None.
Proof. exact since_timestamp_overflow_refuted_thm. Qed.

(* ... exactly on the class metric = timestamp, value >= 2^64 / 1000 ... *)
Theorem since_overflow_class : forall s,
  extract_metric_old s = None <-> fld s 61 2 = 2 /\ 18446744073709552 <= since_value s.
Proof. exact extract_metric_old_panics_iff. Qed.

(* ... also at the level of the verifier, with every clock defined; the
   repaired check answers Immature there *)
Theorem since_verifier_overflow_refuted :
  exists v s i, sview_defined v /\ iview_defined i /\ s < U64 /\ flags_is_valid s = true /\
                check_since_old v s i = None /\ check_since v s i = Some SImmature.
Proof. exact check_since_old_refuted. Qed.

(* No arithmetic step of the repaired check overflows or panics: for EVERY
   since value, if the three clocks of the commit position and of the input's
   block are defined, the check answers. *)
Theorem since_no_overflow : forall v s i,
  sview_defined v -> iview_defined i -> exists r, check_since v s i = Some r.
Proof. exact check_since_total. Qed.

(* the repair changes nothing where the old arithmetic did not panic *)
Theorem since_repair_conservative : forall v s i r,
  check_since_old v s i = Some r -> check_since v s i = Some r.
Proof. exact check_since_old_conservative. Qed.

(* ---- since: meaning and monotonicity ---------------------------------------- *)
(* the check accepts exactly when the RFC-17 condition holds in exact
   arithmetic (value * 1000 and the sums unbounded, epochs as exact rationals) *)
Theorem since_check_iff_rule : forall bn ep mt s i,
  mt < U64 -> bn < U64 ->
  check_since (mkSview (Some bn) (Some ep) (Some mt)) s
              (option_map (fun '(ibn, iep, base) => mkIview ibn (Some iep) (Some base)) i) = Some SOk
  <-> since_rule bn ep mt s i.
Proof. exact check_since_iff_rule. Qed.

(* a since condition met at a commit position is met at every later one
   (block number, epoch and median time not behind) *)
Theorem since_monotone : forall v v' s i,
  sview_le v v' -> check_since v s i = Some SOk -> check_since v' s i = Some SOk.
Proof. exact since_monotone_thm. Qed.

Theorem since_monotone_nonvacuous :
  let v := mkSview (Some 100) (Some (mkRat 22 10)) (Some 5000) in
  let v' := mkSview (Some 101) (Some (mkRat 23 10)) (Some 5000) in
  let s := since_encode true 1 (ep_new 1 1 2) in
  let i := Some (mkIview 90 (Some (mkRat 7 10)) (Some 0)) in
  sview_le v v' /\ check_since v s i = Some SOk /\
  check_since (mkSview (Some 100) (Some (mkRat 21 10)) (Some 5000)) s i = Some SImmature.
Proof. exact since_monotone_example. Qed.

(* ---- maturity, capacity ----------------------------------------------------- *)
Theorem maturity_ok_iff : forall epoch maturity inputs deps,
  verify_maturity epoch maturity inputs deps = Some TOk <->
  Forall (fun i => cellbase_immature epoch maturity i = Some false) (inputs ++ deps).
Proof. exact verify_maturity_ok_iff. Qed.

Theorem maturity_rule : forall epoch maturity info cur m b,
  ep_to_rational epoch = Some cur -> ep_to_rational maturity = Some m ->
  ep_to_rational (ci_epoch info) = Some b ->
  (cellbase_immature epoch maturity (Some info) = Some true <->
   immature_rule cur m (ci_number info) (ci_index info) b).
Proof. exact cellbase_immature_rule. Qed.

Theorem capacity_ok_iff : forall dao inputs outs,
  verify_capacity dao inputs outs = COk <->
  (inputs = [] \/ existsb (uses_dao dao) inputs = true \/
   (total (map o_capacity inputs) < U64 /\ total (map o_capacity outs) < U64 /\
    total (map o_capacity outs) <= total (map o_capacity inputs))) /\
  Forall (fun o => occupied_shannons o < U64 /\ occupied_shannons o <= o_capacity o) outs.
Proof. exact verify_capacity_ok_iff. Qed.

Theorem capacity_nonvacuous :
  let o c := mkOutput c (mkScript 1 7 20) None 0 in
  occupied_shannons (o 0) = 6100000000 /\
  verify_capacity 99 [o 6100000000] [o 6100000000] = COk /\
  verify_capacity 99 [o 6100000000] [o 6099999999] = CInsufficient 0 /\
  verify_capacity 99 [o 6099999999] [o 6100000000] = COutputsSumOverflow.
Proof. exact capacity_boundary. Qed.

(* ---- resolve ------------------------------------------------------------------ *)
(* one transaction resolves exactly when its inputs are pairwise distinct,
   every input, cell dep and dep-group member is unspent so far and live, dep
   groups parse, the expansion is within the limit, header deps are valid *)
Theorem resolve_transaction_iff : forall seen p hc t,
  (exists r, resolve_transaction seen p hc t = Ok r) <-> tx_ok seen p hc t.
Proof. exact resolve_tx_iff. Qed.

Theorem resolve_transaction_result : forall seen p hc t r seen',
  resolve_transaction seen p hc t = Ok (r, seen') ->
  r_inputs r = spent t /\ seen' = spent t ++ seen.
Proof. exact resolve_tx_result. Qed.

(* a block resolves exactly when no input / direct cell dep refers forward and
   every transaction in turn is acceptable against (block outputs over store)
   with the inputs of the EARLIER transactions spent *)
Theorem resolve_block_iff : forall store hc b,
  (exists rs, resolve_block store hc b = Ok rs) <->
  order_ok b /\ txs_ok [] (overlay (block_cell b) store) hc b.
Proof. exact resolve_block_iff_thm. Qed.

Theorem resolve_block_no_double_spend : forall store hc b rs,
  resolve_block store hc b = Ok rs -> NoDup (flat_map (fun t => spent (b_tx t)) b).
Proof. exact resolve_block_inputs_distinct. Qed.

(* what an input or direct cell dep of transaction i finds live is in the
   store or an output of an EARLIER transaction of the block *)
Theorem resolve_block_earlier : forall store b i t o d,
  order_ok b -> nth_error b i = Some t -> In o (refs (b_tx t)) ->
  overlay (block_cell b) store o = Live d ->
  (block_cell b o = Unknown /\ store o = Live d) \/
  (exists j tj, (j < i)%nat /\ nth_error b j = Some tj /\ tx_index b (fst o) = Some j /\
                nth_error (b_outs tj) (N.to_nat (snd o)) = Some d).
Proof. exact overlay_live_earlier. Qed.

(* known finding: this does NOT extend to the members of a dep group — the
   faithful model (and the code) resolve a block whose first transaction's dep
   group lists an output of the second *)
Theorem dep_group_member_later_refuted :
  resolve_block ex_store (fun _ => true) [ex_A; ex_B]
    = Ok [mkRtx [(1, 0)] [(101, 0)] [ex_group]; mkRtx [] [] []] /\
  resolve_block ex_store (fun _ => true) [ex_A] = Err (EUnknown (101, 0)) /\
  tx_index [ex_A; ex_B] 101 = Some 1%nat.
Proof. exact dep_group_member_later_refuted_thm. Qed.

Theorem resolve_block_nonvacuous :
  order_ok ex_ok_block /\ txs_ok [] (overlay (block_cell ex_ok_block) ex_store) (fun _ => true) ex_ok_block /\
  resolve_block ex_store (fun _ => true) ex_ok_block
    = Ok [mkRtx [] [] []; mkRtx [(100, 1); (1, 0)] [(100, 0)] []].
Proof. exact ex_ok_block_resolves. Qed.

(* ---- acceptance ---------------------------------------------------------------- *)
Theorem accept_iff_rules : forall script_ok c w,
  accept script_ok c w = Some AOk <->
  tx_ok (a_seen c) (a_cells c) (a_headers c) (w_tx w) /\
  exists r seen',
    resolve_transaction (a_seen c) (a_cells c) (a_headers c) (w_tx w) = Ok (r, seen') /\
    r_inputs r = spent (w_tx w) /\
    verify_time_relative (a_sctx c) (combine (w_sinces w) (map (a_info c) (r_inputs r)))
                         (map (a_info c) (r_deps r)) = Some TOk /\
    verify_capacity (a_dao c) (map (a_out c) (r_inputs r)) (w_outputs w) = COk /\
    script_ok (w_tx w) r = true.
Proof. exact accept_iff_rules_thm. Qed.

(* the verdict is a function of the transaction and of what the context
   answers about cells, headers and parameters — not of how it was reached *)
Theorem accept_context_only : forall script_ok c1 c2 w,
  a_seen c1 = a_seen c2 -> (forall o, a_cells c1 o = a_cells c2 o) -> (forall h, a_headers c1 h = a_headers c2 h) ->
  (forall o, a_info c1 o = a_info c2 o) -> (forall o, a_out c1 o = a_out c2 o) ->
  a_sctx c1 = a_sctx c2 -> a_dao c1 = a_dao c2 ->
  accept script_ok c1 w = accept script_ok c2 w.
Proof. exact accept_context_only_thm. Qed.

(* the same set of spent cells accumulated in another order gives the same resolve verdict *)
Theorem resolve_history_independent : forall s1 s2 p hc t,
  (forall x, In x s1 <-> In x s2) ->
  match resolve_transaction s1 p hc t, resolve_transaction s2 p hc t with
  | Ok (r1, _), Ok (r2, _) => r1 = r2
  | Err e1, Err e2 => e1 = e2
  | _, _ => False
  end.
Proof. exact resolve_seen_order_irrelevant. Qed.

(* ---- re-validation (ResolvedTransaction::check) -------------------------------- *)
(* A transaction resolved in context A is re-validated in a context B.  An out
   point designates one cell for ever (where both contexts know it live, its
   content is the same; dead / unknown may differ arbitrarily).  With
   SYSTEM_CELL unset, check accepts exactly when a fresh resolve_transaction in
   B returns the SAME resolved transaction, with the same new seen_inputs ... *)
Theorem recheck_agrees_uncached : forall seenA pA hcA seenB pB hcB t r sA,
  resolve_transaction seenA pA hcA t = Ok (r, sA) ->
  (forall o d d', pA o = Live d -> pB o = Live d' -> d = d') ->
  (forall s, recheck None seenB pB hcB t r = Ok s <-> resolve_transaction seenB pB hcB t = Ok (r, s)) /\
  (forall r' s', resolve_transaction seenB pB hcB t = Ok (r', s') -> r' = r).
Proof. exact recheck_agrees_uncached_thm. Qed.

(* ... i.e. the verdict of check is the verdict of a fresh resolution in B *)
Theorem recheck_verdict_uncached : forall seenA pA hcA seenB pB hcB t r sA,
  resolve_transaction seenA pA hcA t = Ok (r, sA) ->
  (forall o d d', pA o = Live d -> pB o = Live d' -> d = d') ->
  ((exists s, recheck None seenB pB hcB t r = Ok s) <-> (exists x, resolve_transaction seenB pB hcB t = Ok x)) /\
  (forall s r' s', recheck None seenB pB hcB t r = Ok s -> resolve_transaction seenB pB hcB t = Ok (r', s') ->
                   r' = r /\ s' = s).
Proof. exact recheck_uncached_verdict. Qed.

(* With SYSTEM_CELL holding c (resolution in A went through the cache too): the
   same, under what the cached branches rely on — in B every out point the map
   names (cached code cells, cached group cells, their members) is live and not
   in seen_inputs, and a cached group lists what the group cell's data says.
   Then check = fresh cached resolution = fresh resolution that asks the
   provider for everything. *)
Theorem recheck_agrees_cached : forall c seenA pA hcA seenB pB hcB t r sA,
  resolve_transaction_sys c seenA pA hcA t = Ok (r, sA) ->
  (forall o d d', pA o = Live d -> pB o = Live d' -> d = d') ->
  ((forall o, sys_code c o = true -> usable seenB pB o) /\
   (forall g subs, sys_group c g = Some subs ->
      ~ In g seenB /\ (exists d, pB g = Live d /\ parse_group d = Some subs) /\ Forall (usable seenB pB) subs)) ->
  (forall s, recheck (Some c) seenB pB hcB t r = Ok s <-> resolve_transaction_sys c seenB pB hcB t = Ok (r, s)) /\
  (forall s, recheck (Some c) seenB pB hcB t r = Ok s <-> resolve_transaction seenB pB hcB t = Ok (r, s)) /\
  (forall r' s', resolve_transaction seenB pB hcB t = Ok (r', s') -> r' = r).
Proof. exact recheck_agrees_cached_thm. Qed.

Theorem recheck_verdict_cached : forall c seenA pA hcA seenB pB hcB t r sA,
  resolve_transaction_sys c seenA pA hcA t = Ok (r, sA) ->
  (forall o d d', pA o = Live d -> pB o = Live d' -> d = d') ->
  sys_ok c seenB pB ->
  ((exists s, recheck (Some c) seenB pB hcB t r = Ok s) <-> (exists x, resolve_transaction seenB pB hcB t = Ok x)) /\
  (forall s r' s', recheck (Some c) seenB pB hcB t r = Ok s -> resolve_transaction seenB pB hcB t = Ok (r', s') ->
                   r' = r /\ s' = s) /\
  resolve_transaction_sys c seenB pB hcB t = resolve_transaction seenB pB hcB t.
Proof. exact recheck_cached_verdict. Qed.

(* where everything the map names is usable, resolving through the cache is
   resolving without it — verdict, result and error *)
Theorem syscache_transparent : forall c seen p hc t,
  sys_ok c seen p -> resolve_transaction_sys c seen p hc t = resolve_transaction seen p hc t.
Proof. exact resolve_transaction_sys_transparent. Qed.

(* an error of check names an out point of the resolved transaction that is
   really gone in B (spent so far / dead, resp. unknown), or an invalid header
   dep — whatever SYSTEM_CELL holds, no hypothesis *)
Theorem recheck_error_blame : forall sys seen p hc t r e,
  recheck sys seen p hc t r = Err e ->
  match e with
  | EDead o => In o (r_inputs r ++ r_deps r ++ r_groups r) /\ (In o seen \/ p o = Dead)
  | EUnknown o => In o (r_inputs r ++ r_deps r ++ r_groups r) /\ ~ In o seen /\ p o = Unknown
  | EInvalidHeader h => In h (t_hdeps t) /\ hc h = false
  | _ => False
  end.
Proof. exact recheck_blame_thm. Qed.

(* the checked_cells memo of check never changes a verdict *)
Theorem recheck_memo_irrelevant : forall seen p os memo,
  Forall (fun o => exists d, p o = Live d) memo ->
  ((exists m, check_list seen p memo os = Ok m) <-> (exists m, check_list seen p [] os = Ok m)).
Proof. exact check_list_memo_irrelevant. Qed.

Theorem recheck_agrees_nonvacuous :
  resolve_transaction_sys ex_sys [] ex_pA any_header ex_tx = Ok (ex_rtx, [(1, 0)]) /\
  resolve_transaction [] ex_pA any_header ex_tx = Ok (ex_rtx, [(1, 0)]) /\
  immutable ex_pA (kill (3, 0) ex_pA) /\ sys_ok ex_sys [] (kill (3, 0) ex_pA) /\
  recheck (Some ex_sys) [] (kill (3, 0) ex_pA) any_header ex_tx ex_rtx = Err (EDead (3, 0)) /\
  recheck None [] (kill (3, 0) ex_pA) any_header ex_tx ex_rtx = Err (EDead (3, 0)) /\
  resolve_transaction [] (kill (3, 0) ex_pA) any_header ex_tx = Err (EDead (3, 0)) /\
  immutable ex_pA ex_pA /\ sys_ok ex_sys [] ex_pA /\
  recheck (Some ex_sys) [] ex_pA any_header ex_tx ex_rtx = Ok [(1, 0)] /\
  recheck None [] ex_pA any_header ex_tx ex_rtx = Ok [(1, 0)].
Proof. exact RecheckProofs.recheck_agrees_nonvacuous. Qed.

(* the SYSTEM_CELL branch must re-check a dep-group cell that is not a cached
   one: the variant that does not (recheck_seeded) accepts a transaction whose
   dep-group cell was consumed, all hypotheses of recheck_agrees_cached holding *)
Theorem recheck_skips_user_group_refuted :
  exists c seenA pA hcA seenB pB hcB t r sA,
    resolve_transaction_sys c seenA pA hcA t = Ok (r, sA) /\ immutable pA pB /\ sys_ok c seenB pB /\
    recheck_seeded c seenB pB hcB t r = Ok (r_inputs r ++ seenB) /\
    resolve_transaction seenB pB hcB t = Err (EDead (51, 0)) /\
    resolve_transaction_sys c seenB pB hcB t = Err (EDead (51, 0)) /\
    recheck (Some c) seenB pB hcB t r = Err (EDead (51, 0)).
Proof. exact recheck_skips_user_group_refuted_thm. Qed.

(* the hypothesis on SYSTEM_CELL is needed: with a cell the map names consumed
   (impossible on a chain whose system cells cannot be spent) (1) check and the
   cached resolution accept what the provider-based resolution rejects, (2) check
   accepts what even the cached resolution rejects — (90,4) is a member of a
   cached group, not a cached code cell, and also a plain code dep *)
Theorem recheck_without_system_cells_live_refuted :
  (resolve_transaction_sys ex_sys [] ex_pA any_header ex_tx = Ok (ex_rtx, [(1, 0)]) /\
   recheck (Some ex_sys) [] (kill (90, 1) ex_pA) any_header ex_tx ex_rtx = Ok [(1, 0)] /\
   resolve_transaction_sys ex_sys [] (kill (90, 1) ex_pA) any_header ex_tx = Ok (ex_rtx, [(1, 0)]) /\
   resolve_transaction [] (kill (90, 1) ex_pA) any_header ex_tx = Err (EDead (90, 1))) /\
  (resolve_transaction_sys ex_sys [] ex_pA any_header ex_tx2 = Ok (ex_rtx2, [(1, 0)]) /\
   recheck (Some ex_sys) [] (kill (90, 4) ex_pA) any_header ex_tx2 ex_rtx2 = Ok [(1, 0)] /\
   resolve_transaction_sys ex_sys [] (kill (90, 4) ex_pA) any_header ex_tx2 = Err (EDead (90, 4))).
Proof. exact recheck_without_system_cells_live_refuted_thm. Qed.


Redirect "out/C04.since_decode_total_exact" Print Assumptions since_decode_total_exact.
Redirect "out/C04.since_encode_decode" Print Assumptions since_encode_decode.
Redirect "out/C04.since_decode_encode" Print Assumptions since_decode_encode.
Redirect "out/C04.since_constants_ok" Print Assumptions since_constants_ok.
Redirect "out/C04.since_timestamp_overflow_refuted" Print Assumptions since_timestamp_overflow_refuted.
Redirect "out/C04.since_overflow_class" Print Assumptions since_overflow_class.
Redirect "out/C04.since_verifier_overflow_refuted" Print Assumptions since_verifier_overflow_refuted.
Redirect "out/C04.since_no_overflow" Print Assumptions since_no_overflow.
Redirect "out/C04.since_repair_conservative" Print Assumptions since_repair_conservative.
Redirect "out/C04.since_check_iff_rule" Print Assumptions since_check_iff_rule.
Redirect "out/C04.since_monotone" Print Assumptions since_monotone.
Redirect "out/C04.since_monotone_nonvacuous" Print Assumptions since_monotone_nonvacuous.
Redirect "out/C04.maturity_ok_iff" Print Assumptions maturity_ok_iff.
Redirect "out/C04.maturity_rule" Print Assumptions maturity_rule.
Redirect "out/C04.capacity_ok_iff" Print Assumptions capacity_ok_iff.
Redirect "out/C04.capacity_nonvacuous" Print Assumptions capacity_nonvacuous.
Redirect "out/C04.resolve_transaction_iff" Print Assumptions resolve_transaction_iff.
Redirect "out/C04.resolve_transaction_result" Print Assumptions resolve_transaction_result.
Redirect "out/C04.resolve_block_iff" Print Assumptions resolve_block_iff.
Redirect "out/C04.resolve_block_no_double_spend" Print Assumptions resolve_block_no_double_spend.
Redirect "out/C04.resolve_block_earlier" Print Assumptions resolve_block_earlier.
Redirect "out/C04.dep_group_member_later_refuted" Print Assumptions dep_group_member_later_refuted.
Redirect "out/C04.resolve_block_nonvacuous" Print Assumptions resolve_block_nonvacuous.
Redirect "out/C04.accept_iff_rules" Print Assumptions accept_iff_rules.
Redirect "out/C04.accept_context_only" Print Assumptions accept_context_only.
Redirect "out/C04.resolve_history_independent" Print Assumptions resolve_history_independent.
Redirect "out/C04.recheck_agrees_uncached" Print Assumptions recheck_agrees_uncached.
Redirect "out/C04.recheck_verdict_uncached" Print Assumptions recheck_verdict_uncached.
Redirect "out/C04.recheck_agrees_cached" Print Assumptions recheck_agrees_cached.
Redirect "out/C04.recheck_verdict_cached" Print Assumptions recheck_verdict_cached.
Redirect "out/C04.syscache_transparent" Print Assumptions syscache_transparent.
Redirect "out/C04.recheck_error_blame" Print Assumptions recheck_error_blame.
Redirect "out/C04.recheck_memo_irrelevant" Print Assumptions recheck_memo_irrelevant.
Redirect "out/C04.recheck_agrees_nonvacuous" Print Assumptions recheck_agrees_nonvacuous.
Redirect "out/C04.recheck_skips_user_group_refuted" Print Assumptions recheck_skips_user_group_refuted.
Redirect "out/C04.recheck_without_system_cells_live_refuted" Print Assumptions recheck_without_system_cells_live_refuted.
