(* Props/C16.v — the theorems that decide property C16.  Statements only;
   every proof is [exact <lemma>].  Do not weaken: tools/vcheck.py pins the
   hash of this file's statements. *)
From Coq Require Import String List NArith Bool.
From CKB Require Import Codec.Molecule Codec.MoleculeProofs Codec.SchemaWf gen.Schema Codec.Compact Codec.CompactProofs Codec.UnclesVerify.
Import ListNotations.

(* ---- (a) decoding: total, and bounded by the input ------------------------ *)
(* [decode] is a total function on byte strings (a Gallina definition); what a
   reader accepts in either mode re-encodes to at most the input length, so no
   accessor reaches beyond the declared sizes *)
Theorem c16_decode_total_and_bounded : forall t c bs v,
  decode c t bs = Some v -> (len (encode t v) <= len bs)%N.
Proof. exact mol_decode_bounded. Qed.

Theorem c16_accepted_offsets_in_range : forall bs items, parse_dyn bs = Some items ->
  (len (concat items) <= len bs)%N /\ Forall (fun x => (len x <= len bs)%N) items.
Proof. exact accepted_offsets_in_range. Qed.

(* strict mode accepts canonical encodings only (so a peer cannot present two
   byte strings for one strictly decoded value) *)
Theorem c16_strict_accepts_only_canonical : forall t bs v,
  decode false t bs = Some v -> bytes_ok bs = true -> encode t v = bs.
Proof. exact mol_canonical. Qed.

Theorem c16_schema_wf : forallb (fun p => wf (snd p)) schema = true.
Proof. exact schema_wf. Qed.

(* ---- (b) frames ------------------------------------------------------------ *)
Theorem c16_decompress_bounded :
  forall (snap_len : list N -> option N) (snap_dec : list N -> option (list N)),
  (forall x o, snap_dec x = Some o -> snap_len x = Some (N.of_nat (length o))) ->
  forall frame out, decompress snap_len snap_dec frame = Some out ->
  exists flag rest, frame = flag :: rest /\
    ((compress_flag flag = true /\ (N.of_nat (length out) <= MAX_UNCOMPRESSED_LEN)%N) \/
     (compress_flag flag = false /\ out = rest)).
Proof. exact decompress_bounded. Qed.

Theorem c16_compress_decompress :
  forall (snap_len : list N -> option N) (snap_dec : list N -> option (list N)) (snap_enc : list N -> list N),
  (forall x o, snap_dec x = Some o -> snap_len x = Some (N.of_nat (length o))) ->
  (forall x, snap_dec (snap_enc x) = Some x) ->
  forall src, (N.of_nat (length src) <= MAX_UNCOMPRESSED_LEN)%N ->
  decompress snap_len snap_dec (compress snap_enc src) = Some src.
Proof. exact compress_decompress. Qed.

(* ---- (c) compact blocks ---------------------------------------------------- *)
Theorem c16_verified_compact_no_underflow : forall (tx SID U R : Type) (cb : cblock tx SID U R),
  prefilled_ok tx SID U R cb = true -> exists slots, slots_of tx SID U R cb = Some slots.
Proof. exact verified_compact_no_underflow. Qed.

Theorem c16_verified_positions : forall (tx SID U R : Type) (cb : cblock tx SID U R) slots,
  prefilled_ok tx SID U R cb = true -> slots_of tx SID U R cb = Some slots ->
  length slots = txs_len tx SID U R cb /\ rights tx SID slots = cb_sids tx SID U R cb /\
  (forall i t, In (i, t) (cb_pre tx SID U R cb) -> nth_error slots i = Some (inl t)).
Proof. exact verified_positions. Qed.

(* result Block: prefilled transactions at their slots, every other slot holds
   a transaction with the listed short id, the list hashes to the header's
   transactions root; the last component says whether the returned header is
   the compact block's header *)
Theorem c16_reconstruct_sound :
  forall (tx SID : Type) (sid_eqb : SID -> SID -> bool) (sid_of : tx -> SID) (U R : Type)
         (R_eqb : R -> R -> bool) (root : list tx -> R) (pool : SID -> option tx),
  (forall a b, sid_eqb a b = true <-> a = b) ->
  (forall s t, pool s = Some t -> sid_of t = s) ->
  forall (cb : cblock tx SID U R) recv ru txs us h,
  reconstruct tx SID sid_eqb sid_of U R R_eqb root pool cb recv ru = Some (RBlock txs us h) ->
  exists slots, slots_of tx SID U R cb = Some slots /\
    Forall2 (slot_match tx SID sid_of) slots txs /\
    R_eqb (root txs) (cb_root tx SID U R cb) = true /\ h = cb_hdr_commit_ok tx SID U R cb us.
Proof. exact reconstruct_sound. Qed.

Theorem c16_missing_precise :
  forall (tx SID : Type) (sid_eqb : SID -> SID -> bool) (sid_of : tx -> SID) (U R : Type)
         (R_eqb : R -> R -> bool) (root : list tx -> R) (pool : SID -> option tx)
         (cb : cblock tx SID U R) recv ru is us,
  reconstruct tx SID sid_eqb sid_of U R R_eqb root pool cb recv ru = Some (RMissing is us) ->
  exists slots, slots_of tx SID U R cb = Some slots /\
    (forall i, In i is <-> nth_error (resolve tx SID sid_eqb slots (avail_map tx SID sid_eqb sid_of U R pool cb recv)) i = Some None) /\
    (forall i, In i us <-> nth_error (cb_uncles tx SID U R cb) i = Some UMiss) /\ (is <> [] \/ us <> []).
Proof. exact missing_precise. Qed.

Theorem c16_never_other_block :
  forall (tx SID : Type) (sid_eqb : SID -> SID -> bool) (sid_of : tx -> SID) (U R : Type)
         (R_eqb : R -> R -> bool) (root : list tx -> R) (pool : SID -> option tx),
  (forall a b, sid_eqb a b = true <-> a = b) ->
  (forall s t, pool s = Some t -> sid_of t = s) ->
  forall (Collision : Prop) (cb : cblock tx SID U R) recv ru txs us h committed,
  (forall a b, R_eqb a b = true -> a = b) ->
  (forall a b, length a = length b -> root a = root b -> a = b \/ Collision) ->
  root committed = cb_root tx SID U R cb -> length committed = length txs ->
  reconstruct tx SID sid_eqb sid_of U R R_eqb root pool cb recv ru = Some (RBlock txs us h) ->
  txs = committed \/ Collision.
Proof. exact never_other_block. Qed.

(* non-vacuity *)
Theorem c16_example : compact_verify ctx N N.eqb snd N (list N) (ex_cb true) = true /\
  reconstruct ctx N N.eqb snd N (list N) listN_eqb (map fst) ex_pool
    (mkCB [10; 11; 12; 13]%N [101; 103]%N [(0%nat, (10, 100)%N); (2%nat, (12, 102)%N)] [ULocal 7%N] (fun _ => true)) [] [] =
    Some (RBlock [(10, 100); (11, 101); (12, 102); (13, 103)]%N [7%N] true) /\
  reconstruct ctx N N.eqb snd N (list N) listN_eqb (map fst) ex_pool (ex_cb true) [] [] = Some (RMissing [] [0]) /\
  reconstruct ctx N N.eqb snd N (list N) listN_eqb (map fst) (fun _ => None) (ex_cb true) [(13, 103)]%N [] =
    Some (RMissing [1] [0]).
Proof. exact ex_block. Qed.

(* F6 (finding): the model, faithful to `.into_view()` at the end of
   reconstruct_block, returns Block for a verified compact block whose carried
   proposals/uncles/extension do not match the header's proposals_hash /
   extra_hash; the returned block then has a rewritten header (another hash) *)
Theorem c16_reconstruct_header_refuted :
  exists cb txs us,
    reconstruct ctx N N.eqb snd N (list N) listN_eqb (map fst) ex_pool cb [] [] = Some (RBlock txs us false) /\
    compact_verify ctx N N.eqb snd N (list N) cb = true.
Proof. exact reconstruct_header_refuted. Qed.

(* without the verifier the index arithmetic can underflow (= panic) *)
Theorem c16_unverified_underflow :
  reconstruct ctx N N.eqb snd N (list N) listN_eqb (map fst) ex_pool
    (mkCB []%N [101]%N [(1%nat, (10, 100)%N); (1%nat, (12, 102)%N)] [] (fun _ => true)) [] [] = None.
Proof. exact unverified_underflow. Qed.

(* A BlockTransactions reply that passes BlockUnclesVerifier (as repaired by
   2db54f8: as many uncles as requested indexes in range, hashes equal in order)
   never makes reconstruct_block run out of received uncles; the verifier as it
   was accepted an empty reply for a requested uncle, on which reconstruct_block
   panics (F13). *)
Theorem c16_verified_uncles_never_panic : forall (U : Type) (es : list (uentry U)) all_hashes indexes (recv : list U) (hash : U -> N),
  given_matches es all_hashes indexes ->
  uncles_verify true all_hashes indexes (map hash recv) = true ->
  uncles_pass U es 0 recv <> UPanic U.
Proof. exact @verified_uncles_never_panic. Qed.

Theorem c16_uncles_verify_old_refuted :
  uncles_verify false [7%N] [0%nat] [] = true /\
  given_matches [@UGiven N] [7%N] [0%nat] /\
  uncles_pass N [@UGiven N] 0 [] = UPanic N /\
  uncles_verify true [7%N] [0%nat] [] = false.
Proof. exact uncles_verify_old_refuted. Qed.

Redirect "out/C16.c16_decode_total_and_bounded" Print Assumptions c16_decode_total_and_bounded.
Redirect "out/C16.c16_accepted_offsets_in_range" Print Assumptions c16_accepted_offsets_in_range.
Redirect "out/C16.c16_strict_accepts_only_canonical" Print Assumptions c16_strict_accepts_only_canonical.
Redirect "out/C16.c16_schema_wf" Print Assumptions c16_schema_wf.
Redirect "out/C16.c16_decompress_bounded" Print Assumptions c16_decompress_bounded.
Redirect "out/C16.c16_compress_decompress" Print Assumptions c16_compress_decompress.
Redirect "out/C16.c16_verified_compact_no_underflow" Print Assumptions c16_verified_compact_no_underflow.
Redirect "out/C16.c16_verified_positions" Print Assumptions c16_verified_positions.
Redirect "out/C16.c16_reconstruct_sound" Print Assumptions c16_reconstruct_sound.
Redirect "out/C16.c16_missing_precise" Print Assumptions c16_missing_precise.
Redirect "out/C16.c16_never_other_block" Print Assumptions c16_never_other_block.
Redirect "out/C16.c16_example" Print Assumptions c16_example.
Redirect "out/C16.c16_reconstruct_header_refuted" Print Assumptions c16_reconstruct_header_refuted.
Redirect "out/C16.c16_unverified_underflow" Print Assumptions c16_unverified_underflow.
Redirect "out/C16.c16_verified_uncles_never_panic" Print Assumptions c16_verified_uncles_never_panic.
Redirect "out/C16.c16_uncles_verify_old_refuted" Print Assumptions c16_uncles_verify_old_refuted.
