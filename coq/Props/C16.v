(* Props/C16.v — the theorems that decide property C16.  Statements only;
   every proof is [exact <lemma>].  Do not weaken: tools/vcheck.py pins the
   hash of this file's statements. *)
From Coq Require Import String List NArith Bool.
From CKB Require Import Codec.Molecule Codec.MoleculeProofs Codec.SchemaWf gen.Schema Codec.Compact Codec.CompactProofs Codec.UnclesVerify Codec.Rounds Codec.RoundsProofs.
From CKB Require Codec.TxsVerify Codec.TxsVerifyProofs.
Import ListNotations.

(* ---- (a) decoding: total, and bounded by the input ------------------------ *)
(* [decode] is a total function on byte strings (a Gallina definition); what a
   reader accepts in either mode re-encodes to at most the input length, so no
   accessor reaches beyond the declared sizes *)
Theorem c16_decode_total_and_bounded : forall t c bs v,
  decode c t bs = Some v -> (len (encode t v) <= len bs)%N.
Proof. exact mol_decode_bounded. Qed.

Theorem c16_accepted_offsets_in_range : forall bs items, parse_dyn bs = Some items ->
  (len (concat items) <= len bs)%N /\ Forall (fun x => (len x <= len bs)%N) items.
Proof. exact accepted_offsets_in_range. Qed.

(* strict mode accepts canonical encodings only (so a peer cannot present two
   byte strings for one strictly decoded value) *)
Theorem c16_strict_accepts_only_canonical : forall t bs v,
  decode false t bs = Some v -> bytes_ok bs = true -> encode t v = bs.
Proof. exact mol_canonical. Qed.

Theorem c16_schema_wf : forallb (fun p => wf (snd p)) schema = true.
Proof. exact schema_wf. Qed.

(* ---- (b) frames ------------------------------------------------------------ *)
Theorem c16_decompress_bounded :
  forall (snap_len : list N -> option N) (snap_dec : list N -> option (list N)),
  (forall x o, snap_dec x = Some o -> snap_len x = Some (N.of_nat (length o))) ->
  forall frame out, decompress snap_len snap_dec frame = Some out ->
  exists flag rest, frame = flag :: rest /\
    ((compress_flag flag = true /\ (N.of_nat (length out) <= MAX_UNCOMPRESSED_LEN)%N) \/
     (compress_flag flag = false /\ out = rest)).
Proof. exact decompress_bounded. Qed.

Theorem c16_compress_decompress :
  forall (snap_len : list N -> option N) (snap_dec : list N -> option (list N)) (snap_enc : list N -> list N),
  (forall x o, snap_dec x = Some o -> snap_len x = Some (N.of_nat (length o))) ->
  (forall x, snap_dec (snap_enc x) = Some x) ->
  forall src, (N.of_nat (length src) <= MAX_UNCOMPRESSED_LEN)%N ->
  decompress snap_len snap_dec (compress snap_enc src) = Some src.
Proof. exact compress_decompress. Qed.

(* ---- (c) compact blocks ---------------------------------------------------- *)
Theorem c16_verified_compact_no_underflow : forall (tx SID U R : Type) (cb : cblock tx SID U R),
  prefilled_ok tx SID U R cb = true -> exists slots, slots_of tx SID U R cb = Some slots.
Proof. exact verified_compact_no_underflow. Qed.

Theorem c16_verified_positions : forall (tx SID U R : Type) (cb : cblock tx SID U R) slots,
  prefilled_ok tx SID U R cb = true -> slots_of tx SID U R cb = Some slots ->
  length slots = txs_len tx SID U R cb /\ rights tx SID slots = cb_sids tx SID U R cb /\
  (forall i t, In (i, t) (cb_pre tx SID U R cb) -> nth_error slots i = Some (inl t)).
Proof. exact verified_positions. Qed.

(* result Block: prefilled transactions at their slots, every other slot holds
   a transaction with the listed short id, the list hashes to the header's
   transactions root; the last component says whether the returned header is
   the compact block's header *)
Theorem c16_reconstruct_sound :
  forall (tx SID : Type) (sid_eqb : SID -> SID -> bool) (sid_of : tx -> SID) (U R : Type)
         (R_eqb : R -> R -> bool) (root : list tx -> R) (pool : SID -> option tx),
  (forall a b, sid_eqb a b = true <-> a = b) ->
  (forall s t, pool s = Some t -> sid_of t = s) ->
  forall (cb : cblock tx SID U R) recv ru txs us h,
  reconstruct tx SID sid_eqb sid_of U R R_eqb root pool cb recv ru = Some (RBlock txs us h) ->
  exists slots, slots_of tx SID U R cb = Some slots /\
    Forall2 (slot_match tx SID sid_of) slots txs /\
    R_eqb (root txs) (cb_root tx SID U R cb) = true /\ h = cb_hdr_commit_ok tx SID U R cb us.
Proof. exact reconstruct_sound. Qed.

Theorem c16_missing_precise :
  forall (tx SID : Type) (sid_eqb : SID -> SID -> bool) (sid_of : tx -> SID) (U R : Type)
         (R_eqb : R -> R -> bool) (root : list tx -> R) (pool : SID -> option tx)
         (cb : cblock tx SID U R) recv ru is us,
  reconstruct tx SID sid_eqb sid_of U R R_eqb root pool cb recv ru = Some (RMissing is us) ->
  exists slots, slots_of tx SID U R cb = Some slots /\
    (forall i, In i is <-> nth_error (resolve tx SID sid_eqb slots (avail_map tx SID sid_eqb sid_of U R pool cb recv)) i = Some None) /\
    (forall i, In i us <-> nth_error (cb_uncles tx SID U R cb) i = Some UMiss) /\ (is <> [] \/ us <> []).
Proof. exact missing_precise. Qed.

Theorem c16_never_other_block :
  forall (tx SID : Type) (sid_eqb : SID -> SID -> bool) (sid_of : tx -> SID) (U R : Type)
         (R_eqb : R -> R -> bool) (root : list tx -> R) (pool : SID -> option tx),
  (forall a b, sid_eqb a b = true <-> a = b) ->
  (forall s t, pool s = Some t -> sid_of t = s) ->
  forall (Collision : Prop) (cb : cblock tx SID U R) recv ru txs us h committed,
  (forall a b, R_eqb a b = true -> a = b) ->
  (forall a b, length a = length b -> root a = root b -> a = b \/ Collision) ->
  root committed = cb_root tx SID U R cb -> length committed = length txs ->
  reconstruct tx SID sid_eqb sid_of U R R_eqb root pool cb recv ru = Some (RBlock txs us h) ->
  txs = committed \/ Collision.
Proof. exact never_other_block. Qed.

(* non-vacuity *)
Theorem c16_example : compact_verify ctx N N.eqb snd N (list N) (ex_cb true) = true /\
  reconstruct ctx N N.eqb snd N (list N) listN_eqb (map fst) ex_pool
    (mkCB [10; 11; 12; 13]%N [101; 103]%N [(0%nat, (10, 100)%N); (2%nat, (12, 102)%N)] [ULocal 7%N] (fun _ => true)) [] [] =
    Some (RBlock [(10, 100); (11, 101); (12, 102); (13, 103)]%N [7%N] true) /\
  reconstruct ctx N N.eqb snd N (list N) listN_eqb (map fst) ex_pool (ex_cb true) [] [] = Some (RMissing [] [0]) /\
  reconstruct ctx N N.eqb snd N (list N) listN_eqb (map fst) (fun _ => None) (ex_cb true) [(13, 103)]%N [] =
    Some (RMissing [1] [0]).
Proof. exact ex_block. Qed.

(* F6 (finding): the model, faithful to `.into_view()` at the end of
   reconstruct_block, returns Block for a verified compact block whose carried
   proposals/uncles/extension do not match the header's proposals_hash /
   extra_hash; the returned block then has a rewritten header (another hash) *)
Theorem c16_reconstruct_header_refuted :
  exists cb txs us,
    reconstruct ctx N N.eqb snd N (list N) listN_eqb (map fst) ex_pool cb [] [] = Some (RBlock txs us false) /\
    compact_verify ctx N N.eqb snd N (list N) cb = true.
Proof. exact reconstruct_header_refuted. Qed.

(* without the verifier the index arithmetic can underflow (= panic) *)
Theorem c16_unverified_underflow :
  reconstruct ctx N N.eqb snd N (list N) listN_eqb (map fst) ex_pool
    (mkCB []%N [101]%N [(1%nat, (10, 100)%N); (1%nat, (12, 102)%N)] [] (fun _ => true)) [] [] = None.
Proof. exact unverified_underflow. Qed.

(* A BlockTransactions reply that passes BlockUnclesVerifier (as repaired by
   2db54f8: as many uncles as requested indexes in range, hashes equal in order)
   never makes reconstruct_block run out of received uncles; the verifier as it
   was accepted an empty reply for a requested uncle, on which reconstruct_block
   panics (F13). *)
Theorem c16_verified_uncles_never_panic : forall (U : Type) (es : list (uentry U)) all_hashes indexes (recv : list U) (hash : U -> N),
  given_matches es all_hashes indexes ->
  uncles_verify true all_hashes indexes (map hash recv) = true ->
  uncles_pass U es 0 recv <> UPanic U.
Proof. exact @verified_uncles_never_panic. Qed.

Theorem c16_uncles_verify_old_refuted :
  uncles_verify false [7%N] [0%nat] [] = true /\
  given_matches [@UGiven N] [7%N] [0%nat] /\
  uncles_pass N [@UGiven N] 0 [] = UPanic N /\
  uncles_verify true [7%N] [0%nat] [] = false.
Proof. exact uncles_verify_old_refuted. Qed.

(* ---- (d) the rounds of a compact block exchange -------------------------------
   Codec/Rounds.v: the state kept per (compact block, peer) is the list of
   indexes asked last; after a reply that still leaves something missing the
   next request is sort_unstable (new misses ++ indexes asked last); an honest
   peer answers item by item in request order; reconstruct_block consumes the
   received uncles positionally in increasing compact order. *)

(* a strictly increasing request: the honest reply is consumed in place — no
   panic, the misses reported are strictly increasing, not among the requested
   indexes and in range, and when nothing is missing the uncles are the
   committed ones in the committed order *)
Theorem c16_sorted_request_consumed_in_place : forall (U : Type) (full : list U) local idx,
  local_ok full local -> strictly_increasing idx = true ->
  exists us ms,
    uncles_pass U (entries_from 0 local idx) 0 (honest_reply full idx) = UOk U us ms /\
    strictly_increasing ms = true /\ (forall j, In j ms -> ~ In j idx /\ j < length full) /\
    (ms = [] -> us = full).
Proof. exact @sorted_request_consumed_in_place. Qed.

(* the same through the transcription of Relayer::reconstruct_block *)
Theorem c16_reconstruct_committed_uncles :
  forall (tx SID : Type) (sid_eqb : SID -> SID -> bool) (sid_of : tx -> SID) (U R : Type)
         (R_eqb : R -> R -> bool) (root : list tx -> R) (pool : SID -> option tx)
         (cb : cblock tx SID U R) recv (full : list U) local idx txs us h,
  cb_uncles tx SID U R cb = entries_from 0 local idx ->
  local_ok full local -> strictly_increasing idx = true ->
  reconstruct tx SID sid_eqb sid_of U R R_eqb root pool cb recv (honest_reply full idx) = Some (RBlock txs us h) ->
  us = full.
Proof. exact reconstruct_committed_uncles. Qed.

(* the next request is strictly increasing and is exactly (new misses + asked
   last); the guard: new misses are not among the indexes asked last, because
   those positions are filled from the reply (no dedup in the code) *)
Theorem c16_next_request_strictly_increasing : forall misses expected,
  strictly_increasing misses = true -> strictly_increasing expected = true ->
  (forall i, In i misses -> ~ In i expected) ->
  strictly_increasing (next_request true misses expected) = true /\
  (forall i, In i (next_request true misses expected) <-> In i misses \/ In i expected).
Proof. exact next_request_strictly_increasing. Qed.

(* any number of rounds, local availability an arbitrary input of every event:
   every request is strictly increasing, the exchange never panics, and a block
   it yields carries the committed uncles in the committed order *)
Theorem c16_rounds_never_other_uncles : forall (U : Type) (full : list U) events first st reqs fin,
  rs_ok st = true ->
  Forall (fun ev => strictly_increasing (fst ev) = true /\ local_ok full (snd ev)) events ->
  run true full events first st = (reqs, fin) ->
  Forall (fun r => rs_ok r = true) reqs /\ fin <> FPanic /\ fin <> FInvalid /\
  (forall us, fin = FBlock us -> us = full).
Proof. exact @rounds_sound. Qed.

(* without the sort (misses ++ asked last): two uncles, uncle 1 found locally
   when the compact block arrives and gone before the first reply is processed;
   the second request is [1; 0], the honest reply passes BlockUnclesVerifier and
   the block carries the uncles swapped.  Last conjunct (non-vacuity of the
   theorem above): the same exchange with the sort yields the committed uncles *)
Theorem c16_unsorted_request_refuted :
  Forall (fun ev => strictly_increasing (fst ev) = true /\ local_ok ex_full (snd ev)) ex_events /\
  run false ex_full ex_events true rs_empty = ([mkRS [1] [0]; mkRS [1] [1; 0]], FBlock [11; 10]%N) /\
  uncles_verify true ex_full [1; 0] (honest_reply ex_full [1; 0]) = true /\
  run true ex_full ex_events true rs_empty = ([mkRS [1] [0]; mkRS [1] [0; 1]], FBlock ex_full).
Proof. exact unsorted_request_refuted. Qed.

(* ---- (e) BlockTransactionsVerifier: total, and Ok only for the asked slots ------- *)
(* a peer chooses the indexes' block (its own compact block) and the reply; the pending compact
   block may be another peer's: whatever arrives, the verifier answers with a status *)
Theorem c16_txs_verify_never_panics : forall b idx recv,
  TxsVerify.txs_verify true b idx recv <> TxsVerify.TPanic.
Proof. exact TxsVerifyProofs.txs_verify_never_panics. Qed.

Theorem c16_txs_verify_ok_iff : forall b idx recv,
  TxsVerify.txs_verify true b idx recv = TxsVerify.TOk <-> TxsVerify.expected b idx = Some recv.
Proof. exact TxsVerifyProofs.txs_verify_ok_iff. Qed.

Theorem c16_txs_verify_ok_in_range : forall b idx recv,
  TxsVerify.txs_verify true b idx recv = TxsVerify.TOk -> Forall (fun i => (i < N.of_nat (length b))%N) idx.
Proof. exact TxsVerifyProofs.txs_verify_ok_in_range. Qed.

Theorem c16_txs_verify_old_panics_iff : forall b idx recv,
  TxsVerify.txs_verify false b idx recv = TxsVerify.TPanic <-> exists i, In i idx /\ (N.of_nat (length b) <= i)%N.
Proof. exact TxsVerifyProofs.txs_verify_old_panics_iff. Qed.

Theorem c16_txs_verify_fix_conservative : forall b idx recv,
  TxsVerify.txs_verify false b idx recv <> TxsVerify.TPanic ->
  TxsVerify.txs_verify true b idx recv = TxsVerify.txs_verify false b idx recv.
Proof. exact TxsVerifyProofs.txs_verify_fix_conservative. Qed.

Theorem c16_txs_verify_old_refuted :
  TxsVerify.txs_verify false (TxsVerify.block_short_ids [0%N] []) [1%N] [7%N] = TxsVerify.TPanic /\
  TxsVerify.txs_verify true (TxsVerify.block_short_ids [0%N] []) [1%N] [7%N] = TxsVerify.TUnmatched.
Proof. exact TxsVerifyProofs.txs_verify_old_refuted. Qed.

Theorem c16_block_short_ids_length : forall pre sids,
  length (TxsVerify.block_short_ids pre sids) = length pre + length sids.
Proof. exact TxsVerifyProofs.block_short_ids_length. Qed.

Theorem c16_block_short_ids_somes_prefix : forall pre sids,
  exists k, TxsVerifyProofs.somes (TxsVerify.block_short_ids pre sids) = firstn k sids.
Proof. exact TxsVerifyProofs.block_short_ids_somes_prefix. Qed.

(* whatever the prefilled indexes are, every listed short id gets exactly one slot, in list order *)
Theorem c16_block_short_ids_somes : forall pre sids,
  TxsVerifyProofs.somes (TxsVerify.block_short_ids pre sids) = sids.
Proof. exact TxsVerifyProofs.block_short_ids_somes. Qed.

Redirect "out/C16.c16_decode_total_and_bounded" Print Assumptions c16_decode_total_and_bounded.
Redirect "out/C16.c16_accepted_offsets_in_range" Print Assumptions c16_accepted_offsets_in_range.
Redirect "out/C16.c16_strict_accepts_only_canonical" Print Assumptions c16_strict_accepts_only_canonical.
Redirect "out/C16.c16_schema_wf" Print Assumptions c16_schema_wf.
Redirect "out/C16.c16_decompress_bounded" Print Assumptions c16_decompress_bounded.
Redirect "out/C16.c16_compress_decompress" Print Assumptions c16_compress_decompress.
Redirect "out/C16.c16_verified_compact_no_underflow" Print Assumptions c16_verified_compact_no_underflow.
Redirect "out/C16.c16_verified_positions" Print Assumptions c16_verified_positions.
Redirect "out/C16.c16_reconstruct_sound" Print Assumptions c16_reconstruct_sound.
Redirect "out/C16.c16_missing_precise" Print Assumptions c16_missing_precise.
Redirect "out/C16.c16_never_other_block" Print Assumptions c16_never_other_block.
Redirect "out/C16.c16_example" Print Assumptions c16_example.
Redirect "out/C16.c16_reconstruct_header_refuted" Print Assumptions c16_reconstruct_header_refuted.
Redirect "out/C16.c16_unverified_underflow" Print Assumptions c16_unverified_underflow.
Redirect "out/C16.c16_verified_uncles_never_panic" Print Assumptions c16_verified_uncles_never_panic.
Redirect "out/C16.c16_uncles_verify_old_refuted" Print Assumptions c16_uncles_verify_old_refuted.
Redirect "out/C16.c16_sorted_request_consumed_in_place" Print Assumptions c16_sorted_request_consumed_in_place.
Redirect "out/C16.c16_reconstruct_committed_uncles" Print Assumptions c16_reconstruct_committed_uncles.
Redirect "out/C16.c16_next_request_strictly_increasing" Print Assumptions c16_next_request_strictly_increasing.
Redirect "out/C16.c16_rounds_never_other_uncles" Print Assumptions c16_rounds_never_other_uncles.
Redirect "out/C16.c16_unsorted_request_refuted" Print Assumptions c16_unsorted_request_refuted.
Redirect "out/C16.c16_txs_verify_never_panics" Print Assumptions c16_txs_verify_never_panics.
Redirect "out/C16.c16_txs_verify_ok_iff" Print Assumptions c16_txs_verify_ok_iff.
Redirect "out/C16.c16_txs_verify_ok_in_range" Print Assumptions c16_txs_verify_ok_in_range.
Redirect "out/C16.c16_txs_verify_old_panics_iff" Print Assumptions c16_txs_verify_old_panics_iff.
Redirect "out/C16.c16_txs_verify_fix_conservative" Print Assumptions c16_txs_verify_fix_conservative.
Redirect "out/C16.c16_txs_verify_old_refuted" Print Assumptions c16_txs_verify_old_refuted.
Redirect "out/C16.c16_block_short_ids_length" Print Assumptions c16_block_short_ids_length.
Redirect "out/C16.c16_block_short_ids_somes_prefix" Print Assumptions c16_block_short_ids_somes_prefix.
Redirect "out/C16.c16_block_short_ids_somes" Print Assumptions c16_block_short_ids_somes.
