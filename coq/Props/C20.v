(* Props/C20.v — the theorems that decide property C20.  Statements only. *)
From CKB Require Import Chain.Proposal Chain.ProposalProofs Chain.ProposalParams gen.ParamsC20 Chain.ProposalSkip.

(* After ANY sequence of extensions, reorganisations of any depth (to longer
   or shorter chains), truncations and restarts, starting from the genesis
   state: the table holds exactly the main chain's proposal sets inside
   [max 1 (tip+1-w_far), tip], the committable set is the union of proposal
   ids (uncles' included) at distance w_close..w_far from the next block and
   the gap set the union at distance < w_close. *)
Theorem c20_view_eq_spec : forall w, wf_window w -> forall ops,
  ops_ok [[]] ops ->
  let s := prun_state w (genesis_state []) ops in
  wf_chain (p_chain s) /\ TInv w (p_chain s) (p_table s) /\
  v_set (p_view s) = set_spec w (p_chain s) /\ v_gap (p_view s) = gap_spec w (p_chain s).
Proof. intros w Hw ops Hok. exact (view_always_window w Hw ops (genesis_state []) (genesis_inv w Hw) Hok). Qed.

(* the ids reported as dropped are exactly those that left the window *)
Theorem c20_removed_exact : forall w s common blocks,
  wf_window w -> PSInv w s -> common <= tip_of (p_chain s) ->
  let '(s', removed) := reorg w s common blocks in
  PSInv w s' /\ p_chain s' = reorg_chain (p_chain s) common blocks /\
  removed = filter (fun x => negb (mem x (set_spec w (p_chain s')))) (set_spec w (p_chain s)).
Proof. exact reorg_spec. Qed.

(* rebuilt at start-up = maintained incrementally *)
Theorem c20_init_eq_incremental : forall w s,
  wf_window w -> PSInv w s ->
  v_set (snd (init_table w (p_chain s))) = v_set (p_view s) /\
  v_gap (snd (init_table w (p_chain s))) = v_gap (p_view s).
Proof. exact init_eq_incremental. Qed.

(* the view agrees with the rule the block verifier applies to commitments *)
Theorem c20_matches_verifier : forall w ch x,
  wf_window w -> In x (verifier_window w ch) <-> In x (set_spec w ch).
Proof. exact view_matches_verifier. Qed.

(* the view is a function of the chain alone: histories ending on the same
   chain end with the same committable and gap sets *)
Theorem c20_view_history_independent : forall w, wf_window w -> forall ops1 ops2,
  ops_ok [[]] ops1 -> ops_ok [[]] ops2 ->
  let s1 := prun_state w (genesis_state []) ops1 in
  let s2 := prun_state w (genesis_state []) ops2 in
  p_chain s1 = p_chain s2 ->
  v_set (p_view s1) = v_set (p_view s2) /\ v_gap (p_view s1) = v_gap (p_view s2).
Proof. exact view_history_independent. Qed.

(* a restart at any point of any history rebuilds the view the node holds *)
Theorem c20_restart_any_time : forall w, wf_window w -> forall ops,
  ops_ok [[]] ops ->
  let s := prun_state w (genesis_state []) ops in
  v_set (snd (init_table w (p_chain s))) = v_set (p_view s) /\
  v_gap (snd (init_table w (p_chain s))) = v_gap (p_view s).
Proof. exact restart_any_time. Qed.

(* after any history: offered for commitment <-> accepted by the verifier's walk *)
Theorem c20_view_always_matches_verifier : forall w, wf_window w -> forall ops x,
  ops_ok [[]] ops ->
  let s := prun_state w (genesis_state []) ops in
  In x (v_set (p_view s)) <-> In x (verifier_window w (p_chain s)).
Proof. exact view_always_matches_verifier. Qed.

(* the consensus window read from spec/src/consensus.rs on this run meets the
   side condition of the theorems *)
Theorem c20_params_ok : wf_window tx_proposal_window.
Proof. exact tx_proposal_window_wf. Qed.

(* non-vacuity *)
Theorem c20_example_ok : ops_ok [[]] example_ops.
Proof. exact example_ops_ok. Qed.
Theorem c20_example_nontrivial :
  v_set (p_view (prun_state tx_proposal_window (genesis_state []) example_ops)) <> [].
Proof. exact example_nontrivial. Qed.

(* Returning to a branch that was the main chain before: reconcile_main_chain skips re-verifying the
   first fork.verified_len() attached blocks; the proposal table must still be given them (their heights
   were removed when the other branch took over).  With that insertion skipped (k = 3 verified blocks)
   the view lacks their proposals although the chain and the window are the same. *)
Theorem c20_skip_verified_refuted :
  let good := fst (reorg ex_w ex_s2 0 ex_a') in
  let bad := fst (reorg_skip 3 ex_w ex_s2 0 ex_a') in
  p_chain bad = p_chain good /\
  canon (set_spec ex_w (p_chain good)) = [1; 2; 3; 4]%N /\
  canon (v_set (p_view good)) = [1; 2; 3; 4]%N /\
  canon (v_set (p_view bad)) = [4]%N.
Proof. exact skip_verified_refuted. Qed.
Theorem c20_skip_nothing_is_the_code : forall w t old_tip common ch',
  update_table_skip 0 w t old_tip common ch' = update_table w t old_tip common ch'.
Proof. exact update_table_skip_0. Qed.

Redirect "out/C20.c20_view_eq_spec" Print Assumptions c20_view_eq_spec.
Redirect "out/C20.c20_removed_exact" Print Assumptions c20_removed_exact.
Redirect "out/C20.c20_init_eq_incremental" Print Assumptions c20_init_eq_incremental.
Redirect "out/C20.c20_matches_verifier" Print Assumptions c20_matches_verifier.
Redirect "out/C20.c20_view_history_independent" Print Assumptions c20_view_history_independent.
Redirect "out/C20.c20_restart_any_time" Print Assumptions c20_restart_any_time.
Redirect "out/C20.c20_view_always_matches_verifier" Print Assumptions c20_view_always_matches_verifier.
Redirect "out/C20.c20_params_ok" Print Assumptions c20_params_ok.
Redirect "out/C20.c20_example_ok" Print Assumptions c20_example_ok.
Redirect "out/C20.c20_example_nontrivial" Print Assumptions c20_example_nontrivial.
Redirect "out/C20.c20_skip_verified_refuted" Print Assumptions c20_skip_verified_refuted.
Redirect "out/C20.c20_skip_nothing_is_the_code" Print Assumptions c20_skip_nothing_is_the_code.
