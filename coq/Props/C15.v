(* Props/C15.v — the theorems that decide property C15.  Statements only;
   every proof is [exact <lemma>].  Do not weaken: tools/vcheck.py pins the
   hash of this file's statements. *)
From Coq Require Import String List NArith Bool.
From CKB Require Import Codec.Molecule Codec.MoleculeProofs Codec.SchemaWf gen.Schema Codec.Merkle Codec.MerkleProofs Codec.Json Codec.JsonProofs Codec.Examples.
Import ListNotations.
Local Open Scope N_scope.

(* ---- molecule: all eight type constructors -------------------------------- *)
(* decoding (strict or compatible) the encoding of a well-typed value of a
   well-formed type gives the value back; the bound is the u32 size header *)
Theorem c15_mol_roundtrip : forall t, wf t = true -> forall c v,
  has_type t v = true -> len (encode t v) < 4294967296 -> decode c t (encode t v) = Some v.
Proof. exact mol_roundtrip. Qed.

(* a byte string the strict reader accepts IS the encoding of the value it
   decodes to: rebuilding field by field reproduces the bytes *)
Theorem c15_mol_canonical : forall t bs v,
  decode false t bs = Some v -> bytes_ok bs = true -> encode t v = bs.
Proof. exact mol_canonical. Qed.

Theorem c15_mol_size : forall t v, len (encode t v) = size t v.
Proof. exact mol_size. Qed.

(* compatible mode: accepts whatever strict accepts with the same value; a
   table with extra trailing fields decodes to exactly the declared fields,
   and strict mode rejects it *)
Theorem c15_mol_strict_compat : forall t bs v, decode false t bs = Some v -> decode true t bs = Some v.
Proof. exact mol_strict_compat. Qed.

Theorem c15_mol_compat_table_prefix : forall fs vs extras,
  forallb wf fs = true -> forall2b has_type fs vs = true ->
  len (dyn_frame (map2 encode fs vs ++ extras)) < 4294967296 ->
  decode true (TTable fs) (dyn_frame (map2 encode fs vs ++ extras)) = Some (VSeq vs) /\
  (extras <> [] -> decode false (TTable fs) (dyn_frame (map2 encode fs vs ++ extras)) = None).
Proof. exact mol_compat_table_prefix. Qed.

(* ---- instantiation with the CKB schema (regenerated from the .mol files) -- *)
Theorem c15_schema_wf : forallb (fun p => wf (snd p)) schema = true.
Proof. exact schema_wf. Qed.

Theorem c15_schema_matches_generated_readers :
  forallb total_size_ok rust_total_sizes = true /\
  forallb field_count_ok rust_field_counts = true /\
  forallb item_size_ok rust_item_sizes = true /\
  forallb union_ids_ok rust_union_ids = true.
Proof. exact schema_matches_generated_readers. Qed.

Theorem c15_schema_roundtrip : forall n t, In (n, t) schema -> forall c v,
  has_type t v = true -> len (encode t v) < 4294967296 -> decode c t (encode t v) = Some v.
Proof. intros n t H. exact (mol_roundtrip t (schema_wf_In n t H)). Qed.

Theorem c15_schema_has_block_types :
  In ("Block"%string, T_Block) schema /\ In ("Transaction"%string, T_Transaction) schema /\
  In ("Header"%string, T_Header) schema /\ In ("Script"%string, T_Script) schema /\
  In ("CellOutput"%string, T_CellOutput) schema /\ In ("RelayMessage"%string, T_RelayMessage) schema /\
  In ("SyncMessage"%string, T_SyncMessage) schema.
Proof. exact schema_has_block_types. Qed.

(* non-vacuity: a concrete transaction meets the hypotheses *)
Theorem c15_example_tx :
  has_type T_Transaction ex_tx = true /\ len (encode T_Transaction ex_tx) < 4294967296 /\
  decode false T_Transaction (encode T_Transaction ex_tx) = Some ex_tx /\
  bytes_ok (encode T_Transaction ex_tx) = true /\
  has_type T_RawTransaction ex_raw_tx = true /\ len (encode T_RawTransaction ex_raw_tx) < 4294967296.
Proof. exact ex_tx_ok. Qed.

(* ---- hashes commit to content (abstract hash, explicit collisions) -------- *)
Theorem c15_hash_binds : forall (D : Type) (H : list N -> D) t v1 v2, wf t = true ->
  encodable t v1 -> encodable t v2 ->
  hash_of D H t v1 = hash_of D H t v2 -> v1 = v2 \/ hash_collision D H.
Proof. exact hash_binds. Qed.

Theorem c15_tx_hash_covers_raw : forall (D : Type) (H : list N -> D) t_raw raw1 w1 raw2 w2,
  wf t_raw = true -> encodable t_raw raw1 -> encodable t_raw raw2 ->
  tx_hash D H t_raw (VSeq [raw1; w1]) = tx_hash D H t_raw (VSeq [raw2; w2]) ->
  raw1 = raw2 \/ hash_collision D H.
Proof. exact tx_hash_covers_raw. Qed.

Theorem c15_tx_hash_ignores_witnesses : forall (D : Type) (H : list N -> D) t_raw raw w1 w2,
  tx_hash D H t_raw (VSeq [raw; w1]) = tx_hash D H t_raw (VSeq [raw; w2]).
Proof. exact tx_hash_ignores_witnesses. Qed.

Theorem c15_witness_hash_covers_all : forall (D : Type) (H : list N -> D) t_tx tx1 tx2,
  wf t_tx = true -> encodable t_tx tx1 -> encodable t_tx tx2 ->
  witness_hash D H t_tx tx1 = witness_hash D H t_tx tx2 -> tx1 = tx2 \/ hash_collision D H.
Proof. exact witness_hash_covers_all. Qed.

(* CBMT root (merkle-cbt queue algorithm) binds the ordered leaf list for a
   given leaf count, up to an explicit merge collision *)
Theorem c15_cbmt_root_binds : forall (T : Type) (merge : T -> T -> T) (dflt : T),
  (forall x y : T, {x = y} + {x <> y}) -> forall l1 l2,
  length l1 = length l2 -> l1 <> [] ->
  cbmt_root T merge dflt l1 = cbmt_root T merge dflt l2 -> l1 = l2 \/ merge_collision T merge.
Proof. exact cbmt_root_binds. Qed.

(* ... and the leaf-count hypothesis is needed: no leaf/inner-node separation *)
Theorem c15_cbmt_leaf_node_confusion :
  exists l1 l2 : list mtree, l1 <> l2 /\ cbmt_root mtree MNode MZero l1 = cbmt_root mtree MNode MZero l2 /\
    ~ merge_collision mtree MNode.
Proof. exact cbmt_leaf_node_confusion. Qed.

Theorem c15_txs_root_binds : forall (D : Type) (H : list N -> D) (mergeD : D -> D -> D) (zero : D),
  (forall x y : D, {x = y} + {x <> y}) -> forall t_raw t_tx txs1 txs2, wf t_tx = true ->
  length txs1 = length txs2 -> txs1 <> [] ->
  Forall (encodable t_tx) txs1 -> Forall (encodable t_tx) txs2 ->
  transactions_root D H mergeD zero t_raw t_tx txs1 = transactions_root D H mergeD zero t_raw t_tx txs2 ->
  txs1 = txs2 \/ hash_collision D H \/ merge_collision D mergeD.
Proof. exact txs_root_binds. Qed.

(* proposals / uncles hashes are hashes of concatenated fixed-width items *)
Theorem c15_concat_fixed_inj : forall k (l1 l2 : list (list N)), (0 < k)%nat ->
  Forall (fun x => length x = k) l1 -> Forall (fun x => length x = k) l2 ->
  concat l1 = concat l2 -> l1 = l2.
Proof. exact concat_fixed_inj. Qed.

(* ---- JSON leaves --------------------------------------------------------- *)
Theorem c15_json_uint_roundtrip : forall bits n, bits <= 128 -> n < 2 ^ bits ->
  parse_uint bits (print_uint n) = Some n.
Proof. exact json_uint_roundtrip. Qed.

Theorem c15_json_uint_print_canonical : forall n, n < 2 ^ 128 ->
  exists d rest, print_uint n = 48 :: 120 :: d :: rest /\
    Forall (fun c => lower_hex c = true) (d :: rest) /\
    (d = 48 -> n = 0 /\ rest = []).
Proof. exact json_uint_print_canonical. Qed.

Theorem c15_json_uint_parse_shape : forall bits s n, parse_uint bits s = Some n ->
  exists c r, s = 48 :: 120 :: c :: r /\ (c = 48 -> r = []).
Proof. exact json_uint_parse_shape. Qed.

Theorem c15_json_uint_parse_not_injective :
  parse_uint 64 [48; 120; 43; 49; 102] = Some 31 /\ parse_uint 64 [48; 120; 49; 70] = Some 31 /\
  parse_uint 64 [48; 120; 49; 102] = Some 31 /\
  parse_uint 64 [48; 120; 48; 49] = None /\ parse_uint 64 [49; 102] = None /\
  parse_uint 32 [48; 120; 49; 48; 48; 48; 48; 48; 48; 48; 48] = None.
Proof. exact json_uint_parse_not_injective. Qed.

Redirect "out/C15.c15_mol_roundtrip" Print Assumptions c15_mol_roundtrip.
Redirect "out/C15.c15_mol_canonical" Print Assumptions c15_mol_canonical.
Redirect "out/C15.c15_mol_size" Print Assumptions c15_mol_size.
Redirect "out/C15.c15_mol_strict_compat" Print Assumptions c15_mol_strict_compat.
Redirect "out/C15.c15_mol_compat_table_prefix" Print Assumptions c15_mol_compat_table_prefix.
Redirect "out/C15.c15_schema_wf" Print Assumptions c15_schema_wf.
Redirect "out/C15.c15_schema_matches_generated_readers" Print Assumptions c15_schema_matches_generated_readers.
Redirect "out/C15.c15_schema_roundtrip" Print Assumptions c15_schema_roundtrip.
Redirect "out/C15.c15_schema_has_block_types" Print Assumptions c15_schema_has_block_types.
Redirect "out/C15.c15_example_tx" Print Assumptions c15_example_tx.
Redirect "out/C15.c15_hash_binds" Print Assumptions c15_hash_binds.
Redirect "out/C15.c15_tx_hash_covers_raw" Print Assumptions c15_tx_hash_covers_raw.
Redirect "out/C15.c15_tx_hash_ignores_witnesses" Print Assumptions c15_tx_hash_ignores_witnesses.
Redirect "out/C15.c15_witness_hash_covers_all" Print Assumptions c15_witness_hash_covers_all.
Redirect "out/C15.c15_cbmt_root_binds" Print Assumptions c15_cbmt_root_binds.
Redirect "out/C15.c15_cbmt_leaf_node_confusion" Print Assumptions c15_cbmt_leaf_node_confusion.
Redirect "out/C15.c15_txs_root_binds" Print Assumptions c15_txs_root_binds.
Redirect "out/C15.c15_concat_fixed_inj" Print Assumptions c15_concat_fixed_inj.
Redirect "out/C15.c15_json_uint_roundtrip" Print Assumptions c15_json_uint_roundtrip.
Redirect "out/C15.c15_json_uint_print_canonical" Print Assumptions c15_json_uint_print_canonical.
Redirect "out/C15.c15_json_uint_parse_shape" Print Assumptions c15_json_uint_parse_shape.
Redirect "out/C15.c15_json_uint_parse_not_injective" Print Assumptions c15_json_uint_parse_not_injective.
