(* Props/C17.v — the theorems that decide property C17.  Statements only;
   every proof is [exact <lemma>]. *)
From CKB Require Import Structs.AList Structs.Orphan Structs.OrphanProofs Structs.Inflight Structs.InflightProofs Structs.HeaderMap Structs.HeaderMapProofs Structs.Skip Structs.SkipProofs.

(* ---- (a) orphan pool ---------------------------------------------------------
   For every sequence of insert / remove_blocks_by_parent / clean_expired_blocks
   (a hash determines parent and epoch; no block is its own parent), with
   S = stored p the set of blocks the three maps hold:
   insert adds exactly the block; a release of ph keeps exactly the blocks it
   does not return; if ph is itself stored (not a leader) nothing is returned;
   otherwise it returns exactly the descendants of ph in S, each once, every
   block after its parent; expiry returns only whole-tree members below
   leaders and keeps the rest. *)
Theorem c17_orphan_refines : forall par ep ops,
  (forall x, par x <> x) -> Forall (op_ok par ep) ops ->
  let p := orun empty_pool ops in
  (forall b, op_ok par ep (OInsert b) -> forall x, In x (stored (Orphan.insert p b)) <-> x = b \/ In x (stored p)) /\
  (forall ph p' out, remove_blocks_by_parent p ph = (p', out) ->
     (forall b, In b (stored p') <-> In b (stored p) /\ ~ In b out) /\
     ((exists b, In b (stored p) /\ b_id b = ph) -> out = [] /\ p' = p) /\
     (~ (exists b, In b (stored p) /\ b_id b = ph) ->
        (forall b, In b out <-> descends (stored p) ph b) /\ NoDup out /\ parents_first ph out)) /\
  (forall t p' out, clean_expired_blocks p t = (p', out) ->
     (forall b, In b (stored p') <-> In b (stored p) /\ ~ In b out) /\
     (forall b, In b out -> exists l, In l (leaders p) /\ descends (stored p) l b)).
Proof. exact orphan_refines. Qed.

(* leaders = parents of stored blocks that are not stored themselves, no duplicates *)
Theorem c17_orphan_leaders_exact : forall par ep ops,
  (forall x, par x <> x) -> Forall (op_ok par ep) ops ->
  let p := orun empty_pool ops in
  NoDup (leaders p) /\
  forall l, In l (leaders p) <->
    (exists b, In b (stored p) /\ b_parent b = l) /\ ~ (exists b, In b (stored p) /\ b_id b = l).
Proof. exact orphan_leaders_exact. Qed.

Theorem c17_orphan_example :
  Forall (op_ok ex_par ex_ep) ex_ops /\
  leaders (orun empty_pool ex_ops) = [7; 1; 4]%N /\
  snd (remove_blocks_by_parent (orun empty_pool ex_ops) 1) = [mkBlk 2 1 0; mkBlk 3 2 0] /\
  stored (fst (remove_blocks_by_parent (orun empty_pool ex_ops) 1)) = [mkBlk 8 7 0; mkBlk 5 4 0].
Proof. exact orphan_example. Qed.

(* ---- (b) in-flight table (current, repaired prune) ------------------------------ *)
Theorem c17_inflight_single_owner : forall ops,
  let st := irun ifb_default ops in
  NoDup (map fst (states st)) /\
  (forall p1 p2 b, listed st p1 b -> listed st p2 b -> p1 = p2) /\
  (forall p d, alookup N.eqb p (scheds st) = Some d -> NoDup (hashes d)).
Proof. exact inflight_single_owner. Qed.

Theorem c17_inflight_listed_is_owned : forall ops p b,
  listed (irun ifb_default ops) p b -> exists since, owner (irun ifb_default ops) b = Some (p, since).
Proof. exact inflight_listed_is_owned. Qed.

Theorem c17_inflight_owned_is_listed : forall ops p b since,
  owner (irun ifb_default ops) b = Some (p, since) -> listed (irun ifb_default ops) p b.
Proof. exact inflight_owned_is_listed. Qed.

Theorem c17_inflight_release_exact : forall ops,
  let st := irun ifb_default ops in
  (forall now b,
     snd (remove_by_block now b st) = is_some (owner st b) /\
     forall x, owner (fst (remove_by_block now b st)) x = if key_eqb b x then None else owner st x) /\
  (forall p,
     snd (remove_by_peer p st) = length (filter (fun e => N.eqb (fst (snd e)) p) (states st)) /\
     forall x, owner (fst (remove_by_peer p st)) x = if owned_by p (owner st x) then None else owner st x) /\
  (forall now p b,
     snd (Inflight.insert now p b st) = negb (is_some (owner st b)) /\
     forall x, owner (fst (Inflight.insert now p b st)) x =
               if negb (is_some (owner st b)) && key_eqb b x then Some (p, now) else owner st x) /\
  (forall now tip,
     let st' := fst (prune now tip st) in
     let gone := snd (prune now tip st) in
     (forall x, owner st' x = None \/ owner st' x = owner st x) /\
     (forall x, In x (timed_out now (tip + 20) (states st)) -> owner st' x = None) /\
     (forall x p since, owner st x = Some (p, since) -> In p gone -> owner st' x = None) /\
     (forall p, In p gone -> alookup N.eqb p (scheds st') = None)).
Proof. exact inflight_release_exact. Qed.

(* F5: the prune before the repair; and the repaired one on the same history *)
Theorem c17_prune_old_refuted :
  exists ops b p since,
    let st := irun_old ifb_default ops in
    owner st b = Some (p, since) /\ ~ listed st p b /\
    snd (remove_by_peer p st) = 0%nat /\
    snd (Inflight.insert (since + 1) 3 b (fst (remove_by_peer p st))) = false.
Proof. exact prune_old_refuted. Qed.

Theorem c17_prune_fixed_on_witness :
  let st := irun ifb_default f5_ops in
  snd (prune 30001 0 (irun ifb_default (removelast f5_ops))) = [1%N] /\
  owner st (4, 4)%N = None /\ owner st (6, 6)%N = Some (2, 30001)%N /\
  snd (Inflight.insert 30002 3 (4, 4)%N st) = true.
Proof. exact prune_fixed_on_witness. Qed.

(* ---- (c) header map --------------------------------------------------------------
   whatever the memory limit and wherever limit_memory steps (HSpill) fall,
   get / contains_key answer like a plain map *)
Theorem c17_headermap_refines : forall lim ops,
  map erase (hrun (hm_empty lim) ops) = prun [] ops.
Proof. exact headermap_refines. Qed.

Theorem c17_headermap_example :
  hrun (hm_empty 1) [HInsert 1 10; HInsert 2 20; HSpill; HInsert 1 11; HGet 1; HSpill; HContains 2; HRemove 1; HGet 1; HGet 2]%N
  = [AIns false; AIns false; AUnit; AIns false; AGet (Some 11%N); AUnit; ACont true; AUnit; AGet None; AGet (Some 20%N)].
Proof. exact headermap_example. Qed.

(* ---- (d) skip list ------------------------------------------------------------ *)
(* the i64 bit tricks of get_skip_height compute "clear the lowest one bit(s)"
   without overflow for every height below 2^63, and the skip height is
   strictly below the height *)
Theorem c17_skip_height_spec : forall h, (h < 2 ^ 63)%N -> get_skip_height h = Some (skip_spec h).
Proof. exact get_skip_height_spec. Qed.

Theorem c17_skip_height_lt : forall h, (0 < h)%N -> (h < 2 ^ 63)%N ->
  exists s, get_skip_height h = Some s /\ (s < h)%N.
Proof. exact skip_height_lt. Qed.

Theorem c17_skip_height_examples :
  map get_skip_height [0; 1; 2; 3; 12; 13; 1000; 2 ^ 63 - 1]%N
  = map Some [0; 0; 0; 1; 8; 1; 992; 2 ^ 63 - 7]%N.
Proof. exact skip_height_examples. Qed.

Redirect "out/C17.c17_orphan_refines" Print Assumptions c17_orphan_refines.
Redirect "out/C17.c17_orphan_leaders_exact" Print Assumptions c17_orphan_leaders_exact.
Redirect "out/C17.c17_orphan_example" Print Assumptions c17_orphan_example.
Redirect "out/C17.c17_inflight_single_owner" Print Assumptions c17_inflight_single_owner.
Redirect "out/C17.c17_inflight_listed_is_owned" Print Assumptions c17_inflight_listed_is_owned.
Redirect "out/C17.c17_inflight_owned_is_listed" Print Assumptions c17_inflight_owned_is_listed.
Redirect "out/C17.c17_inflight_release_exact" Print Assumptions c17_inflight_release_exact.
Redirect "out/C17.c17_prune_old_refuted" Print Assumptions c17_prune_old_refuted.
Redirect "out/C17.c17_prune_fixed_on_witness" Print Assumptions c17_prune_fixed_on_witness.
Redirect "out/C17.c17_headermap_refines" Print Assumptions c17_headermap_refines.
Redirect "out/C17.c17_headermap_example" Print Assumptions c17_headermap_example.
Redirect "out/C17.c17_skip_height_spec" Print Assumptions c17_skip_height_spec.
Redirect "out/C17.c17_skip_height_lt" Print Assumptions c17_skip_height_lt.
Redirect "out/C17.c17_skip_height_examples" Print Assumptions c17_skip_height_examples.
