(* Props/C17.v — the theorems that decide property C17.  Statements only;
   every proof is [exact <lemma>]. *)
From CKB Require Import Structs.AList Structs.Orphan Structs.OrphanProofs Structs.Inflight Structs.InflightProofs Structs.HeaderMap Structs.HeaderMapProofs Structs.Skip Structs.SkipProofs Structs.ActiveChain Structs.ActiveChainProofs.

(* ---- (a) orphan pool ---------------------------------------------------------
   For every sequence of insert / remove_blocks_by_parent / clean_expired_blocks
   (a hash determines parent and epoch; no block is its own parent), with
   S = stored p the set of blocks the three maps hold:
   insert adds exactly the block; a release of ph keeps exactly the blocks it
   does not return; if ph is itself stored (not a leader) nothing is returned;
   otherwise it returns exactly the descendants of ph in S, each once, every
   block after its parent; expiry returns only whole-tree members below
   leaders and keeps the rest. *)
Theorem c17_orphan_refines : forall par ep ops,
  (forall x, par x <> x) -> Forall (op_ok par ep) ops ->
  let p := orun empty_pool ops in
  (forall b, op_ok par ep (OInsert b) -> forall x, In x (stored (Orphan.insert p b)) <-> x = b \/ In x (stored p)) /\
  (forall ph p' out, remove_blocks_by_parent p ph = (p', out) ->
     (forall b, In b (stored p') <-> In b (stored p) /\ ~ In b out) /\
     ((exists b, In b (stored p) /\ b_id b = ph) -> out = [] /\ p' = p) /\
     (~ (exists b, In b (stored p) /\ b_id b = ph) ->
        (forall b, In b out <-> descends (stored p) ph b) /\ NoDup out /\ parents_first ph out)) /\
  (forall t p' out, clean_expired_blocks p t = (p', out) ->
     (forall b, In b (stored p') <-> In b (stored p) /\ ~ In b out) /\
     (forall b, In b out -> exists l, In l (leaders p) /\ descends (stored p) l b)).
Proof. exact orphan_refines. Qed.

(* leaders = parents of stored blocks that are not stored themselves, no duplicates *)
Theorem c17_orphan_leaders_exact : forall par ep ops,
  (forall x, par x <> x) -> Forall (op_ok par ep) ops ->
  let p := orun empty_pool ops in
  NoDup (leaders p) /\
  forall l, In l (leaders p) <->
    (exists b, In b (stored p) /\ b_parent b = l) /\ ~ (exists b, In b (stored p) /\ b_id b = l).
Proof. exact orphan_leaders_exact. Qed.

Theorem c17_orphan_example :
  Forall (op_ok ex_par ex_ep) ex_ops /\
  leaders (orun empty_pool ex_ops) = [7; 1; 4]%N /\
  snd (remove_blocks_by_parent (orun empty_pool ex_ops) 1) = [mkBlk 2 1 0; mkBlk 3 2 0] /\
  stored (fst (remove_blocks_by_parent (orun empty_pool ex_ops) 1)) = [mkBlk 8 7 0; mkBlk 5 4 0].
Proof. exact orphan_example. Qed.

(* ---- (b) in-flight table (current, repaired prune) ------------------------------ *)
Theorem c17_inflight_single_owner : forall ops,
  let st := irun ifb_default ops in
  NoDup (map fst (states st)) /\
  (forall p1 p2 b, listed st p1 b -> listed st p2 b -> p1 = p2) /\
  (forall p d, alookup N.eqb p (scheds st) = Some d -> NoDup (hashes d)).
Proof. exact inflight_single_owner. Qed.

Theorem c17_inflight_listed_is_owned : forall ops p b,
  listed (irun ifb_default ops) p b -> exists since, owner (irun ifb_default ops) b = Some (p, since).
Proof. exact inflight_listed_is_owned. Qed.

Theorem c17_inflight_owned_is_listed : forall ops p b since,
  owner (irun ifb_default ops) b = Some (p, since) -> listed (irun ifb_default ops) p b.
Proof. exact inflight_owned_is_listed. Qed.

Theorem c17_inflight_release_exact : forall ops,
  let st := irun ifb_default ops in
  (forall now b,
     snd (remove_by_block now b st) = is_some (owner st b) /\
     forall x, owner (fst (remove_by_block now b st)) x = if key_eqb b x then None else owner st x) /\
  (forall p,
     snd (remove_by_peer p st) = length (filter (fun e => N.eqb (fst (snd e)) p) (states st)) /\
     forall x, owner (fst (remove_by_peer p st)) x = if owned_by p (owner st x) then None else owner st x) /\
  (forall now p b,
     snd (Inflight.insert now p b st) = negb (is_some (owner st b)) /\
     forall x, owner (fst (Inflight.insert now p b st)) x =
               if negb (is_some (owner st b)) && key_eqb b x then Some (p, now) else owner st x) /\
  (forall now tip,
     let st' := fst (prune now tip st) in
     let gone := snd (prune now tip st) in
     (forall x, owner st' x = None \/ owner st' x = owner st x) /\
     (forall x, In x (timed_out now (tip + 20) (states st)) -> owner st' x = None) /\
     (forall x p since, owner st x = Some (p, since) -> In p gone -> owner st' x = None) /\
     (forall p, In p gone -> alookup N.eqb p (scheds st') = None)).
Proof. exact inflight_release_exact. Qed.

(* F5: the prune before the repair; and the repaired one on the same history *)
Theorem c17_prune_old_refuted :
  exists ops b p since,
    let st := irun_old ifb_default ops in
    owner st b = Some (p, since) /\ ~ listed st p b /\
    snd (remove_by_peer p st) = 0%nat /\
    snd (Inflight.insert (since + 1) 3 b (fst (remove_by_peer p st))) = false.
Proof. exact prune_old_refuted. Qed.

Theorem c17_prune_fixed_on_witness :
  let st := irun ifb_default f5_ops in
  snd (prune 30001 0 (irun ifb_default (removelast f5_ops))) = [1%N] /\
  owner st (4, 4)%N = None /\ owner st (6, 6)%N = Some (2, 30001)%N /\
  snd (Inflight.insert 30002 3 (4, 4)%N st) = true.
Proof. exact prune_fixed_on_witness. Qed.

(* ---- (c) header map --------------------------------------------------------------
   whatever the memory limit and wherever limit_memory steps (HSpill) fall,
   get / contains_key answer like a plain map *)
Theorem c17_headermap_refines : forall lim ops,
  map erase (hrun (hm_empty lim) ops) = prun [] ops.
Proof. exact headermap_refines. Qed.

Theorem c17_headermap_example :
  hrun (hm_empty 1) [HInsert 1 10; HInsert 2 20; HSpill; HInsert 1 11; HGet 1; HSpill; HContains 2; HRemove 1; HGet 1; HGet 2]%N
  = [AIns false; AIns false; AUnit; AIns false; AGet (Some 11%N); AUnit; ACont true; AUnit; AGet None; AGet (Some 20%N)].
Proof. exact headermap_example. Qed.

(* ---- (d) skip list ------------------------------------------------------------ *)
(* the i64 bit tricks of get_skip_height compute "clear the lowest one bit(s)"
   without overflow for every height below 2^63, and the skip height is
   strictly below the height *)
Theorem c17_skip_height_spec : forall h, (h < 2 ^ 63)%N -> get_skip_height h = Some (skip_spec h).
Proof. exact get_skip_height_spec. Qed.

Theorem c17_skip_height_lt : forall h, (0 < h)%N -> (h < 2 ^ 63)%N ->
  exists s, get_skip_height h = Some s /\ (s < h)%N.
Proof. exact skip_height_lt. Qed.

Theorem c17_skip_height_examples :
  map get_skip_height [0; 1; 2; 3; 12; 13; 1000; 2 ^ 63 - 1]%N
  = map Some [0; 0; 0; 1; 8; 1; 992; 2 ^ 63 - 7]%N.
Proof. exact skip_height_examples. Qed.

(* get_ancestor returns the header reached by number(self) - number parent steps,
   for every store in which views are faithful (number, parent, skip pointer =
   ancestor at the skip height), whatever store_first / fast-scanner answers
   are taken (the fast scanner may only return the true ancestor); it never
   runs out of rounds and never overflows below height 2^63 *)
Theorem c17_get_ancestor_eq_walk : forall par num getv fast tip,
  (forall x, (0 < num x)%N -> num (par x) = (num x - 1)%N) ->
  (forall x sf c, getv x sf = Some c -> h_hash c = x /\ faithful par num c) ->
  (forall n x t, fast n (num x, x) = Some t -> (n <= num x)%N ->
                 h_hash t = walkh par (N.to_nat (num x - n)) x) ->
  forall self number,
    faithful par num self -> (num (h_hash self) < 2 ^ 63)%N ->
    match get_ancestor getv fast tip self number with
    | RSome t => (number <= num (h_hash self))%N /\
                 h_hash t = walkh par (N.to_nat (num (h_hash self) - number)) (h_hash self)
    | RNone => True
    | RPanic | RFuel => False
    end.
Proof. exact get_ancestor_eq_walk. Qed.

Theorem c17_get_ancestor_terminates : forall getv fast tip number fuel current nw,
  (nw < 2 ^ 63)%N -> (N.to_nat nw < fuel)%nat ->
  ga_loop getv fast tip fuel number current nw <> RFuel /\
  ga_loop getv fast tip fuel number current nw <> RPanic.
Proof. exact get_ancestor_terminates. Qed.

Theorem c17_get_ancestor_example :
  (forall x, (0 < lin_num x)%N -> lin_num (lin_par x) = (lin_num x - 1)%N) /\
  (forall x sf c, lin_getv x sf = Some c -> h_hash c = x /\ faithful lin_par lin_num c) /\
  res_hash (get_ancestor lin_getv lin_fast 0 (mkHdr 1000 1000 999 (Some 992%N)) 37) = Some 37%N.
Proof. exact get_ancestor_example. Qed.

(* locator: asked along the start's chain A (height => hash), where get_ancestor
   from any header of that chain gives the header at the requested height, every
   entry get_locator lists is A at the listed height *)
Theorem c17_locator_eq_walk : forall A ga genesis n,
  (forall m k, (k <= m)%N -> (m <= n)%N -> ga (A m) k = Some (A k)) ->
  get_locator ga genesis n (A n) = get_locator (fun _ k => Some (A k)) genesis n (A n).
Proof. exact locator_eq_walk. Qed.

Theorem c17_locator_example :
  get_locator (fun _ k => Some k) 0 30 30 = Some [30; 29; 28; 27; 26; 25; 24; 23; 22; 21; 19; 15; 0]%N
  /\ option_map (@length N) (get_locator (fun _ k => Some k) 0 40000 40000) = Some 26%nat.
Proof. exact locator_example. Qed.

(* ---- (e) ActiveChain on a node with a main-chain index, stored side branches and a header map ----
   universe = header map + chain store (every block verify_block committed, side branches
   included) + the snapshot's number => hash index + tip / unverified tip + the set of blocks with
   an epoch index.  wf_b (decidable, re-evaluated on every universe observed on the real node):
   views tell hash/number/parent of their block, parents and skip targets are known, a skip
   pointer is the ancestor at the skip height, the index binds each number once to a known block
   of that number whose parent is bound one lower.  anc u x n = the block reached from x by
   walking parent links down to height n. *)
(* get_ancestor with the shortcut guarded by is_main_chain: the parent walk for every known base
   (main chain, stored side branch, branch of a branch, header-only), None above the base *)
Theorem c17_active_get_ancestor_eq_walk : forall u, wf_b u = true ->
  forall base number, known u base = true ->
  ac_ga GCode u false base number
  = if (number <=? unum u base)%N then Some (anc u base number) else None.
Proof. exact ac_get_ancestor_eq_walk. Qed.

(* get_ancestor_with_unverified (shortcut guarded by is_unverified_chain = "has an epoch index",
   true for stored side branches too): the parent walk for every height above the unverified
   tip, which is what its only caller (BlockFetcher::fetch in IBD: start = unverified tip + 1) asks *)
Theorem c17_active_get_ancestor_unverified_above : forall u, wf_b u = true ->
  forall base number, known u base = true -> (u_utip u < number)%N ->
  ac_ga GCode u true base number
  = if (number <=? unum u base)%N then Some (anc u base number) else None.
Proof. exact ac_get_ancestor_unverified_above. Qed.

(* ... and at every height when no stored side branch lies at or below the unverified tip *)
Theorem c17_active_get_ancestor_unverified_inv : forall u, wf_b u = true -> stored_descend u = true ->
  forall base number, known u base = true ->
  ac_ga GCode u true base number
  = if (number <=? unum u base)%N then Some (anc u base number) else None.
Proof. exact ac_get_ancestor_unverified_inv. Qed.

(* the shortcut on any stored block (is_main_chain || is_unverified_chain): from a stored side
   tip the main-chain block is answered for a height above the fork point *)
Theorem c17_active_any_stored_refuted :
  exists u base number,
    wf_b u = true /\ known u base = true /\ (number <= unum u base)%N /\
    ac_ga GCode u false base number = Some (anc u base number) /\
    ac_ga GAnyStored u false base number <> Some (anc u base number).
Proof. exact ac_any_stored_refuted. Qed.

(* the code's with_unverified variant asked at or below the unverified tip from a stored side
   branch (outside what its caller asks): not the parent walk *)
Theorem c17_active_unverified_below_tip_refuted :
  exists u base number,
    wf_b u = true /\ known u base = true /\ (number <= u_utip u)%N /\ (number <= unum u base)%N /\
    ac_ga GCode u true base number <> Some (anc u base number).
Proof. exact ac_unverified_below_tip_refuted. Qed.

(* get_locator from any known start lists the start's ancestors at the locator heights *)
Theorem c17_active_locator_eq_walk : forall u, wf_b u = true ->
  forall genesis s, known u s = true ->
  get_locator (ac_ga GCode u false) genesis (unum u s) s
  = get_locator (fun _ k => Some (anc u s k)) genesis (unum u s) s.
Proof. exact ac_locator_eq_walk. Qed.

(* last_common_ancestor of two known blocks with a common root: an ancestor of both, at the
   greatest height at which their ancestors coincide; no panic, no None *)
Theorem c17_active_lca_spec : forall u, wf_b u = true ->
  forall a b, known u a = true -> known u b = true -> anc u a 0 = anc u b 0 ->
  exists nc, (nc <= N.min (unum u a) (unum u b))%N /\
    last_common_ancestor (ac_ga_nh GCode u) (unum u a, a) (unum u b, b) = LSome (nc, anc u a nc) /\
    anc u a nc = anc u b nc /\
    forall k, (nc < k)%N -> (k <= N.min (unum u a) (unum u b))%N -> anc u a k <> anc u b k.
Proof. exact ac_lca_spec. Qed.

Theorem c17_active_example :
  wf_b ex_u = true /\ stored_descend ex_u = false /\
  wf_b ex_ibd = true /\ stored_descend ex_ibd = true /\
  map (ac_ga GCode ex_u false 8) [5; 4; 3; 2; 1; 0; 6]%N = [Some 8; Some 7; Some 6; Some 3; Some 2; Some 1; None]%N /\
  map (ac_ga GCode ex_u true 8) [5; 0]%N = [Some 8; Some 1]%N /\
  get_locator (ac_ga GCode ex_u false) 1 5 8 = Some [8; 7; 6; 3; 2; 1]%N /\
  last_common_ancestor (ac_ga_nh GCode ex_u) (4, 5)%N (5, 8)%N = LSome (2, 3)%N.
Proof. exact ac_example. Qed.


Redirect "out/C17.c17_orphan_refines" Print Assumptions c17_orphan_refines.
Redirect "out/C17.c17_orphan_leaders_exact" Print Assumptions c17_orphan_leaders_exact.
Redirect "out/C17.c17_orphan_example" Print Assumptions c17_orphan_example.
Redirect "out/C17.c17_inflight_single_owner" Print Assumptions c17_inflight_single_owner.
Redirect "out/C17.c17_inflight_listed_is_owned" Print Assumptions c17_inflight_listed_is_owned.
Redirect "out/C17.c17_inflight_owned_is_listed" Print Assumptions c17_inflight_owned_is_listed.
Redirect "out/C17.c17_inflight_release_exact" Print Assumptions c17_inflight_release_exact.
Redirect "out/C17.c17_prune_old_refuted" Print Assumptions c17_prune_old_refuted.
Redirect "out/C17.c17_prune_fixed_on_witness" Print Assumptions c17_prune_fixed_on_witness.
Redirect "out/C17.c17_headermap_refines" Print Assumptions c17_headermap_refines.
Redirect "out/C17.c17_headermap_example" Print Assumptions c17_headermap_example.
Redirect "out/C17.c17_skip_height_spec" Print Assumptions c17_skip_height_spec.
Redirect "out/C17.c17_skip_height_lt" Print Assumptions c17_skip_height_lt.
Redirect "out/C17.c17_skip_height_examples" Print Assumptions c17_skip_height_examples.
Redirect "out/C17.c17_get_ancestor_eq_walk" Print Assumptions c17_get_ancestor_eq_walk.
Redirect "out/C17.c17_get_ancestor_terminates" Print Assumptions c17_get_ancestor_terminates.
Redirect "out/C17.c17_get_ancestor_example" Print Assumptions c17_get_ancestor_example.
Redirect "out/C17.c17_locator_eq_walk" Print Assumptions c17_locator_eq_walk.
Redirect "out/C17.c17_locator_example" Print Assumptions c17_locator_example.
Redirect "out/C17.c17_active_get_ancestor_eq_walk" Print Assumptions c17_active_get_ancestor_eq_walk.
Redirect "out/C17.c17_active_get_ancestor_unverified_above" Print Assumptions c17_active_get_ancestor_unverified_above.
Redirect "out/C17.c17_active_get_ancestor_unverified_inv" Print Assumptions c17_active_get_ancestor_unverified_inv.
Redirect "out/C17.c17_active_any_stored_refuted" Print Assumptions c17_active_any_stored_refuted.
Redirect "out/C17.c17_active_unverified_below_tip_refuted" Print Assumptions c17_active_unverified_below_tip_refuted.
Redirect "out/C17.c17_active_locator_eq_walk" Print Assumptions c17_active_locator_eq_walk.
Redirect "out/C17.c17_active_lca_spec" Print Assumptions c17_active_lca_spec.
Redirect "out/C17.c17_active_example" Print Assumptions c17_active_example.
