(* Props/C17.v — the theorems that decide property C17.  Statements only;
   every proof is [exact <lemma>]. *)
From CKB Require Import Structs.AList Structs.Orphan Structs.OrphanProofs Structs.Skip Structs.SkipProofs.

(* ---- skip list ------------------------------------------------------------ *)
(* the i64 bit tricks of get_skip_height compute "clear the lowest one bit(s)"
   without overflow for every height below 2^63, and the skip height is
   strictly below the height *)
Theorem c17_skip_height_spec : forall h, (h < 2 ^ 63)%N -> get_skip_height h = Some (skip_spec h).
Proof. exact get_skip_height_spec. Qed.

Theorem c17_skip_height_lt : forall h, (0 < h)%N -> (h < 2 ^ 63)%N ->
  exists s, get_skip_height h = Some s /\ (s < h)%N.
Proof. exact skip_height_lt. Qed.

Theorem c17_skip_height_examples :
  map get_skip_height [0; 1; 2; 3; 12; 13; 1000; 2 ^ 63 - 1]%N
  = map Some [0; 0; 0; 1; 8; 1; 992; 2 ^ 63 - 7]%N.
Proof. exact skip_height_examples. Qed.

Redirect "out/C17.c17_skip_height_spec" Print Assumptions c17_skip_height_spec.
Redirect "out/C17.c17_skip_height_lt" Print Assumptions c17_skip_height_lt.
Redirect "out/C17.c17_skip_height_examples" Print Assumptions c17_skip_height_examples.
