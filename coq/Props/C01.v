(* Props/C01.v — the theorems that decide property C01.  Statements only. *)
From CKB Require Import Chain.ForkChoice Chain.ForkChoiceProofs Chain.ForkChoiceExamples Chain.Broker Chain.BrokerProofs.
Local Open Scope N_scope.

(* Any two delivery schedules of the same finite block set — any permutation,
   duplicates, children before parents (held in the orphan pool and connected
   as soon as the missing ancestor arrives) — end with the same total
   difficulty, and with the same tip unless two fully valid chains tie for the
   maximum. *)
Theorem c01_order_independent : forall g ds,
  (forall b b', In b ds -> In b' ds -> bid b = bid b' -> b = b') ->
  forall sched1 sched2,
  (forall b, In b ds -> bid b <> 0) ->
  (forall b, In b sched1 <-> In b ds) -> (forall b, In b sched2 <-> In b ds) ->
  let s1 := dcore (drun (d0 g) sched1) in let s2 := dcore (drun (d0 g) sched2) in
  ftip_td s1 = ftip_td s2 /\
  ((forall i inf, lookup (fknown s1) i = Some inf -> icok inf = true ->
                  itd inf = ftip_td s1 -> i = ftip s1) -> ftip s1 = ftip s2).
Proof. exact delivery_order_independent. Qed.

(* After any schedule: the tip is a processed block whose whole chain verified
   and whose accumulated difficulty is maximal among all processed fully valid
   chains (FInv); every delivered block whose ancestry was delivered (conn) is
   processed; no waiting orphan has a processed parent. *)
Theorem c01_heaviest : forall g ds,
  (forall b b', In b ds -> In b' ds -> bid b = bid b' -> b = b') ->
  forall sched, (forall b, In b sched <-> In b ds) ->
  let d := drun (d0 g) sched in
  FInv (dcore d) /\
  (forall b, conn ds b -> processed (dcore d) (bid b) = true) /\
  (forall o, In o (dorph d) -> processed (dcore d) (bpar o) = false).
Proof. exact delivery_heaviest. Qed.

(* what is recorded for a processed block: accumulated difficulty and
   "the whole chain verified" follow the parent's record *)
Theorem c01_records : forall bs s,
  pfirst (keys (fknown s)) bs ->
  keys (fknown (run s bs)) = rev (map bid bs) ++ keys (fknown s) /\
  (forall b, In b bs -> rule (fknown (run s bs)) b) /\
  (forall i, In i (keys (fknown s)) -> lookup (fknown (run s bs)) i = lookup (fknown s) i).
Proof. exact run_pfirst. Qed.

(* the node never leaves its tip for a chain that is not strictly heavier *)
Theorem c01_strict_switch : forall s b,
  ftip_td s <= ftip_td (process s b) /\
  (ftip (process s b) <> ftip s -> ftip_td s < ftip_td (process s b)).
Proof. exact process_strict. Qed.

(* any two parent-first processing orders (= any interleaving of the insert /
   preload / verify threads the FIFO channels allow) of the same blocks *)
Theorem c01_processing_order_independent : forall g bs1 bs2,
  pfirst [0] bs1 -> pfirst [0] bs2 ->
  (forall b, In b bs1 <-> In b bs2) ->
  let s1 := run (finit g) bs1 in let s2 := run (finit g) bs2 in
  (forall i, lookup (fknown s1) i = lookup (fknown s2) i) /\
  ftip_td s1 = ftip_td s2 /\
  ((forall i inf, lookup (fknown s1) i = Some inf -> icok inf = true ->
                  itd inf = ftip_td s1 -> i = ftip s1) -> ftip s1 = ftip s2).
Proof. exact order_independent. Qed.

(* non-vacuity *)
Theorem c01_example_hyps :
  (forall b b', In b ex_blocks -> In b' ex_blocks -> bid b = bid b' -> b = b') /\
  (forall b, In b ex_blocks -> bid b <> 0) /\
  (forall b, In b ex_sched1 <-> In b ex_blocks) /\ (forall b, In b ex_sched2 <-> In b ex_blocks).
Proof. exact (conj ex_ids_consistent (conj ex_nonzero (conj ex_cover1 ex_cover2))). Qed.
Theorem c01_example_result :
  ftip_td (dcore (drun (d0 100) ex_sched1)) = 140 /\ ftip (dcore (drun (d0 100) ex_sched1)) = 4 /\
  ftip_td (dcore (drun (d0 100) ex_sched2)) = 140 /\ ftip (dcore (drun (d0 100) ex_sched2)) = 4.
Proof. exact ex_result. Qed.

(* The delivery layer below "the parent has been processed" (chain/src/orphan_broker.rs,
   Shared::get_block_status, the snapshot publication in chain/src/verify.rs): the broker decides by
   is_pending_verify and by the BlockExt the PUBLISHED snapshot shows.  At every point of any
   interleaving of deliveries (any order, duplicates) and verifications, with a snapshot published after
   every verified block, that test equals "handed to the verify thread or verified", and whatever is
   parked has a parent that has been neither handed over, nor verified, nor condemned. *)
Theorem c01_parked_iff_parent_unhandled : forall ops,
  let s := brun always binit ops in
  (forall p, parent_there s p = handled s p) /\
  (forall b, In b (s_orph s) -> handled s (bb_par b) = false /\ parent_invalid s (bb_par b) = false).
Proof. exact parked_iff_parent_unhandled. Qed.

(* a delivered block whose parent has been handed over or verified goes to the verify thread at once *)
Theorem c01_child_of_handled_parent_is_queued : forall ops b,
  let s := brun always binit ops in
  handled s (bb_par b) = true -> In b (s_queue (accept1 s b)) /\ s_orph (accept1 s b) = s_orph s.
Proof. exact child_of_handled_parent_is_queued. Qed.

(* were the snapshot refreshed only for side blocks of the tip's epoch or later, the child of a verified
   block of an earlier epoch would stay parked with the verify thread idle; the code's policy connects it *)
Theorem c01_stale_snapshot_parks_refuted :
  (let s := brun recent_only binit ex_ops in
   memN 3 (s_ext s) = true /\ handled s 3 = true /\ parent_there s 3 = false /\
   s_queue s = [] /\ s_orph s = [ex_side4] /\ brun recent_only s [BVerify; BVerify] = s) /\
  (let s := brun always binit (ex_ops ++ [BVerify]) in
   memN 4 (s_ext s) = true /\ s_orph s = [] /\ s_queue s = []).
Proof. exact (conj recent_only_parks_child_of_verified always_connects_it). Qed.

(* search_orphan_leader reads is_pending_verify and the block status one after the other while the
   verify thread may complete any number of blocks in between.  Reading is_pending_verify first (the
   verify thread publishes the snapshot before it removes the block from is_pending_verify), a leader
   that has been handed over or verified is always seen, so its waiting descendants are released. *)
Theorem c01_pending_first_sees_handled_leader : forall ops p k,
  let s := brun always binit ops in
  handled s p = true -> leader_there true s (verify_n k s) p = true.
Proof. exact pending_first_sees_handled_leader. Qed.

(* F21 (repaired by be63b31): reading the status first, a leader verified between the two reads is seen
   as neither stored nor pending *)
Theorem c01_status_first_misses_leader_refuted :
  handled ex_racing 1 = true /\ handled (verify always ex_racing) 1 = true /\
  leader_there false ex_racing (verify always ex_racing) 1 = false /\
  leader_there true ex_racing (verify always ex_racing) 1 = true.
Proof. exact status_first_misses_leader. Qed.

Redirect "out/C01.c01_order_independent" Print Assumptions c01_order_independent.
Redirect "out/C01.c01_heaviest" Print Assumptions c01_heaviest.
Redirect "out/C01.c01_records" Print Assumptions c01_records.
Redirect "out/C01.c01_strict_switch" Print Assumptions c01_strict_switch.
Redirect "out/C01.c01_processing_order_independent" Print Assumptions c01_processing_order_independent.
Redirect "out/C01.c01_example_hyps" Print Assumptions c01_example_hyps.
Redirect "out/C01.c01_example_result" Print Assumptions c01_example_result.
Redirect "out/C01.c01_parked_iff_parent_unhandled" Print Assumptions c01_parked_iff_parent_unhandled.
Redirect "out/C01.c01_child_of_handled_parent_is_queued" Print Assumptions c01_child_of_handled_parent_is_queued.
Redirect "out/C01.c01_stale_snapshot_parks_refuted" Print Assumptions c01_stale_snapshot_parks_refuted.
Redirect "out/C01.c01_pending_first_sees_handled_leader" Print Assumptions c01_pending_first_sees_handled_leader.
Redirect "out/C01.c01_status_first_misses_leader_refuted" Print Assumptions c01_status_first_misses_leader_refuted.
