(* Props/C11.v — the theorems that decide property C11.  Statements only;
   every proof is [exact <lemma>]. *)
From Coq Require Import List NArith.
From CKB Require Import Pool.PoolMap Pool.Inv Pool.Check Pool.Witness Pool.PoolProofs.

Theorem c11_inv_init : forall m, pool_inv (empty_pool m) = true.
Proof. exact inv_init. Qed.

Theorem c11_example_state : exists p, diamond_state = Some p /\ pool_inv p = true /\ length (p_entries p) = 5%nat.
Proof. exact diamond_state_inv. Qed.

Theorem c11_add_with_children_refuted :
  exists p p', f3_before = Some p /\ pool_inv p = true /\ add_pre p wP = true
               /\ has_pooled_children p wP = true
               /\ add_entry p wP Pending = Some (p', 0%N) /\ pool_inv_core p' = true /\ inv_aggs p' = false.
Proof. exact add_with_children_refuted. Qed.

Redirect "out/C11.c11_inv_init" Print Assumptions c11_inv_init.
Redirect "out/C11.c11_example_state" Print Assumptions c11_example_state.
Redirect "out/C11.c11_add_with_children_refuted" Print Assumptions c11_add_with_children_refuted.
