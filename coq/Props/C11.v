(* Props/C11.v — the theorems that decide property C11.  Statements only;
   every proof is [exact <lemma>]. *)
From Coq Require Import List NArith.
From CKB Require Import Pool.PoolMap Pool.Inv Pool.Check Pool.Witness Pool.ListFacts Pool.CounterProofs Pool.RbfProofs Pool.EdgeProofs Pool.PoolProofs.
Import ListNotations.
Local Open Scope N_scope.

(* the empty pool satisfies every clause I0..I6 *)
Theorem c11_inv_init : forall m, pool_inv (empty_pool m) = true.
Proof. exact inv_init. Qed.

(* clause I0 + I5 (the entries map is a map; total size / total cycles / pending /
   gap / proposed equal folds over the entries), at full strength, for add_entry
   (with the eviction branch), remove_entry, remove_entry_and_descendants,
   remove_committed_tx (resolve_conflict), resolve_conflict_header_dep, set_entry,
   limit_size and remove_expired; also: the ancestor limit never changes.
   small_op: the two u64 totals do not saturate on insertion; ODetach is not covered. *)
Theorem c11_inv_step_counters : forall p o p', CI p -> small_op p o -> step p o = Some p' ->
  CI p' /\ p_max_anc p' = p_max_anc p.
Proof. exact counters_step. Qed.

Theorem c11_inv_reachable_counters : forall ops p p', CI p -> run_small p ops -> run p ops = Some p' ->
  CI p' /\ p_max_anc p' = p_max_anc p.
Proof. exact counters_reachable. Qed.

(* CI is what the boolean checker clauses say *)
Theorem c11_counters_bool : forall p, counters_ok p = true <-> CI p.
Proof. exact counters_ok_CI. Qed.

Theorem c11_limit_size_bound : forall p m p', CI p -> limit_size p m = Some p' -> p_total_size p' <= m.
Proof. exact limit_size_bound. Qed.

(* clause I1, building blocks (partial: the step theorem for I1 is not assembled):
   add_entry's edge recording refuses a tx that spends a cell a pooled tx spends,
   otherwise it maps exactly the new inputs to the new tx; remove_entry's edge
   removal deletes exactly the removed tx's inputs *)
Theorem c11_inputs_add_partial : forall p t p', record_entry_edges p t = Some p' ->
  (forall i, In i (tx_inputs t) -> aget pt_eqb i (p_inputs p) = None) /\
  (forall o, aget pt_eqb o (p_inputs p') =
             if existsb (pt_eqb o) (tx_inputs t) then Some (tx_id t) else aget pt_eqb o (p_inputs p)).
Proof. exact record_edges_inputs. Qed.

Theorem c11_double_spend_refused : forall p t i id,
  In i (tx_inputs t) -> aget pt_eqb i (p_inputs p) = Some id -> record_entry_edges p t = None.
Proof. exact record_edges_refuses_double_spend. Qed.

Theorem c11_inputs_remove_partial : forall p t o,
  aget pt_eqb o (p_inputs (remove_entry_edges p t)) =
  if existsb (pt_eqb o) (tx_inputs t) then None else aget pt_eqb o (p_inputs p).
Proof. exact remove_edges_inputs. Qed.

(* removal really removes: the entry and all its descendants are no longer pooled *)
Theorem c11_remove_with_descendants_gone : forall p id p' x, CI p ->
  remove_entry_and_descendants p id = Some p' ->
  (x = id \/ In x (calc_descendants p id)) -> ~ In x (ids p').
Proof. exact red_gone. Qed.

(* RBF: admitted only if fee >= sum of the fees of the replaced txs (conflicts and
   their descendants, each once) + min_rbf_rate * size / 1000; at most 100 replaced *)
Theorem c11_rbf_rule : forall p oc t rate cs, check_rbf p oc t rate = Some cs -> cs <> [] ->
  cs = find_conflict_tx p t /\
  sum_fees p (replaced_set p cs) + sat_mul rate (tx_size t) / 1000 <= tx_fee t /\
  sum_fees p (replaced_set p cs) + sat_mul rate (tx_size t) / 1000 <= U64MAX /\
  N.of_nat (length (flat_map (calc_descendants p) cs) + length cs) <= MAX_REPLACEMENT_CANDIDATES.
Proof. exact rbf_rule. Qed.

Theorem c11_rbf_conflicts : forall p t c,
  In c (find_conflict_tx p t) <-> exists i, In i (tx_inputs t) /\ aget pt_eqb i (p_inputs p) = Some c.
Proof. exact find_conflict_spec. Qed.

(* after process_rbf no replaced (conflicting) tx is pooled any more *)
Theorem c11_rbf_conflicts_gone : forall p cs p' c, CI p ->
  remove_all_with_descendants p cs = Some p' -> In c cs -> pooled p' c = false.
Proof. exact rbf_conflicts_gone. Qed.

(* non-vacuity: a reachable diamond-shaped pool (shared cell dep, header dep, three
   statuses) satisfies every clause; its history satisfies run_small *)
Theorem c11_example_state : exists p, diamond_state = Some p /\ pool_inv p = true /\ length (p_entries p) = 5%nat.
Proof. exact diamond_state_inv. Qed.

Theorem c11_example_small : run_small (empty_pool 125) diamond_ops.
Proof. exact diamond_small. Qed.

Theorem c11_example_counters : exists p, diamond_state = Some p /\ counters_ok p = true.
Proof. exact diamond_counters. Qed.

(* F3 (known finding): the aggregate clause I4 is NOT preserved by add_entry when the
   new tx already has pooled children, although the callers' preconditions hold *)
Theorem c11_add_with_children_refuted :
  exists p p', f3_before = Some p /\ pool_inv p = true /\ add_pre p wP = true
               /\ has_pooled_children p wP = true
               /\ add_entry p wP Pending = Some (p', 0) /\ pool_inv_core p' = true /\ inv_aggs p' = false.
Proof. exact add_with_children_refuted. Qed.

(* F10 (known finding): nor by remove_entry of a tx with pooled ancestors and descendants *)
Theorem c11_remove_inner_refuted :
  exists p p', f8_before = Some p /\ pool_inv p = true
               /\ remove_entry p 2 = Some p' /\ pool_inv_core p' = true /\ inv_aggs p' = false.
Proof. exact remove_inner_refuted. Qed.

(* F9 (known finding): add_entry panics on a consistent pool *)
Theorem c11_add_evict_panic_refuted :
  exists p, f9_before = Some p /\ pool_inv p = true /\ add_pre p nT = true /\ add_entry p nT Pending = None.
Proof. exact add_evict_panic_refuted. Qed.

(* F8 (repaired by a fix: commit): remove_entry_and_descendants as it was, and as it is *)
Theorem c11_remove_with_descendants_old_refuted :
  exists p p', f8_before = Some p /\ pool_inv p = true
               /\ remove_entry_and_descendants_old p 2 = Some p' /\ inv_aggs p' = false.
Proof. exact remove_with_descendants_old_refuted. Qed.

Theorem c11_remove_with_descendants_fixed_on_witness :
  exists p p', f8_before = Some p /\ remove_entry_and_descendants p 2 = Some p' /\ pool_inv p' = true.
Proof. exact remove_with_descendants_fixed_on_witness. Qed.

Redirect "out/C11.c11_inv_init" Print Assumptions c11_inv_init.
Redirect "out/C11.c11_inv_step_counters" Print Assumptions c11_inv_step_counters.
Redirect "out/C11.c11_inv_reachable_counters" Print Assumptions c11_inv_reachable_counters.
Redirect "out/C11.c11_counters_bool" Print Assumptions c11_counters_bool.
Redirect "out/C11.c11_limit_size_bound" Print Assumptions c11_limit_size_bound.
Redirect "out/C11.c11_inputs_add_partial" Print Assumptions c11_inputs_add_partial.
Redirect "out/C11.c11_double_spend_refused" Print Assumptions c11_double_spend_refused.
Redirect "out/C11.c11_inputs_remove_partial" Print Assumptions c11_inputs_remove_partial.
Redirect "out/C11.c11_remove_with_descendants_gone" Print Assumptions c11_remove_with_descendants_gone.
Redirect "out/C11.c11_rbf_rule" Print Assumptions c11_rbf_rule.
Redirect "out/C11.c11_rbf_conflicts" Print Assumptions c11_rbf_conflicts.
Redirect "out/C11.c11_rbf_conflicts_gone" Print Assumptions c11_rbf_conflicts_gone.
Redirect "out/C11.c11_example_state" Print Assumptions c11_example_state.
Redirect "out/C11.c11_example_small" Print Assumptions c11_example_small.
Redirect "out/C11.c11_example_counters" Print Assumptions c11_example_counters.
Redirect "out/C11.c11_add_with_children_refuted" Print Assumptions c11_add_with_children_refuted.
Redirect "out/C11.c11_remove_inner_refuted" Print Assumptions c11_remove_inner_refuted.
Redirect "out/C11.c11_add_evict_panic_refuted" Print Assumptions c11_add_evict_panic_refuted.
Redirect "out/C11.c11_remove_with_descendants_old_refuted" Print Assumptions c11_remove_with_descendants_old_refuted.
Redirect "out/C11.c11_remove_with_descendants_fixed_on_witness" Print Assumptions c11_remove_with_descendants_fixed_on_witness.
