(* Props/C13.v — the theorems that decide property C13.  Statements only;
   every proof is [exact <lemma>]. *)
From Coq Require Import List NArith Bool.
From CKB Require Import Pool.PoolMap Pool.Reorg Pool.Template Pool.TemplateProofs.
Import ListNotations.
Local Open Scope N_scope.

(* After update_blank and ANY sequence of update_full / update_uncles / update_proposals /
   update_transactions / update_blank (with their guards), TemplateSize describes the template:
   total = base + uncles + proposals + transactions = the serialized size, each part is the size of the
   part it names, and the template is within max_block_bytes.  blank_ok: a blank template (cellbase,
   extension, uncles) fits, as it does for every consensus. *)
Theorem c13_size_accounting : forall max mu us base n,
  max <= U64MAX -> base + UNCLE * n <= max -> Forall (blank_ok max) us ->
  let s := trun max mu (tstep max mu (mkT 0 0 0 [] (mkTS 0 0 0 0)) (UBlank base n)) us in
  ts_total (t_size s) = real_size s /\ ts_txs (t_size s) = sumN (t_txs s) /\
  ts_proposals (t_size s) = PROPOSAL * t_nprops s /\ ts_uncles (t_size s) = UNCLE * t_nuncles s /\
  real_size s <= max.
Proof. exact size_accounting. Qed.

(* TxSelector: whatever order the loop considers the candidates in, the selected list is parents-first
   (ord: every in-pool ancestor of an element stands before it) — given C11's link invariant: calc_ancestors
   is transitively closed and ancestors_count grows strictly along it *)
Theorem c13_ancestors_first : forall ancs key proposed size cycles anc_size anc_cycles,
  (forall a b, In a (ancs b) -> incl (ancs a) (ancs b)) ->
  (forall a b, In a (ancs b) -> key a < key b) ->
  forall sl cl cands, ord ancs [] (s_list (select ancs key proposed size cycles anc_size anc_cycles sl cl cands)).
Proof. exact select_ordered. Qed.

(* ... and closed: no transaction without all of its in-pool ancestors *)
Theorem c13_ancestor_closed : forall ancs key proposed size cycles anc_size anc_cycles,
  (forall a b, In a (ancs b) -> incl (ancs a) (ancs b)) ->
  (forall a b, In a (ancs b) -> key a < key b) ->
  forall sl cl cands x a,
    In x (s_list (select ancs key proposed size cycles anc_size anc_cycles sl cl cands)) -> In a (ancs x) ->
    In a (s_list (select ancs key proposed size cycles anc_size anc_cycles sl cl cands)).
Proof. exact select_closed. Qed.

(* ... and within the size and cycle limits it was given, when ancestors_size / ancestors_cycles are the sums
   over the ancestors they stand for (C11's clause I4) *)
Theorem c13_selection_within_limits : forall ancs key proposed size cycles anc_size anc_cycles,
  (forall id, anc_size id = size id + sumf size (sdedup (ancs id))) ->
  (forall id, anc_cycles id = cycles id + sumf cycles (sdedup (ancs id))) ->
  forall sl cl cands,
    let r := select ancs key proposed size cycles anc_size anc_cycles sl cl cands in
    sumf size (s_list r) <= sl /\ sumf cycles (s_list r) <= cl /\
    s_size r = sumf size (s_list r) /\ s_cycles r = sumf cycles (s_list r).
Proof. exact select_within_limits. Qed.

(* with stale aggregates (C11 finding F3) the selector overruns the limit: an over-size template *)
Theorem c13_selection_limit_stale_refuted :
  exists cands, 1000 < sumf f3_size (s_list (select f3_ancs (fun id => id) (fun _ => true) f3_size (fun _ => 0) f3_anc_size (fun _ => 0) 1000 1000 cands)).
Proof. exact select_limit_stale_refuted. Qed.

(* the hypotheses are satisfiable on a diamond, and the selector really packages ancestors first *)
Theorem c13_example_hyps :
  (forall a b, In a (d_ancs b) -> incl (d_ancs a) (d_ancs b)) /\ (forall a b, In a (d_ancs b) -> d_key a < d_key b).
Proof. exact diamond_hyps. Qed.
Theorem c13_example_select :
  s_list (select d_ancs d_key (fun _ => true) d_size (fun _ => 1) d_anc_size (fun id => N.of_nat (length (d_ancs id)) + 1) 900 10 [3; 4; 2])
  = [1; 3; 2].
Proof. exact diamond_select. Qed.
Theorem c13_example_sizes :
  let s := trun 2000 2 (tstep 2000 2 (mkT 0 0 0 [] (mkTS 0 0 0 0)) (UBlank 600 1))
             [UFull 3 [500; 700; 300] [true; true; true]; UUncles 2; UProposals 40; UProposals 5; UTxs [900; 400; 100] [true; false; true]] in
  t_size s = mkTS 400 50 456 1506 /\ real_size s = 1506.
Proof. exact size_run. Qed.

Redirect "out/C13.c13_size_accounting" Print Assumptions c13_size_accounting.
Redirect "out/C13.c13_ancestors_first" Print Assumptions c13_ancestors_first.
Redirect "out/C13.c13_ancestor_closed" Print Assumptions c13_ancestor_closed.
Redirect "out/C13.c13_selection_within_limits" Print Assumptions c13_selection_within_limits.
Redirect "out/C13.c13_selection_limit_stale_refuted" Print Assumptions c13_selection_limit_stale_refuted.
Redirect "out/C13.c13_example_hyps" Print Assumptions c13_example_hyps.
Redirect "out/C13.c13_example_select" Print Assumptions c13_example_select.
Redirect "out/C13.c13_example_sizes" Print Assumptions c13_example_sizes.
