(* Props/C13.v — the theorems that decide property C13.  Statements only;
   every proof is [exact <lemma>]. *)
From Coq Require Import List NArith Bool.
From CKB Require Import Pool.PoolMap Pool.Reorg Pool.Template Pool.TemplateProofs.
From CKB Require Pool.Uncles Pool.UnclesProofs.
Import ListNotations.
Local Open Scope N_scope.

(* After update_blank and ANY sequence of update_full / update_uncles / update_proposals /
   update_transactions / update_blank (with their guards), TemplateSize describes the template:
   total = base + uncles + proposals + transactions = the serialized size, each part is the size of the
   part it names, and the template is within max_block_bytes.  blank_ok: a blank template (cellbase,
   extension, uncles) fits, as it does for every consensus. *)
Theorem c13_size_accounting : forall max mu us base n,
  max <= U64MAX -> base + UNCLE * n <= max -> Forall (blank_ok max) us ->
  let s := trun max mu (tstep max mu (mkT 0 0 0 [] (mkTS 0 0 0 0)) (UBlank base n)) us in
  ts_total (t_size s) = real_size s /\ ts_txs (t_size s) = sumN (t_txs s) /\
  ts_proposals (t_size s) = PROPOSAL * t_nprops s /\ ts_uncles (t_size s) = UNCLE * t_nuncles s /\
  real_size s <= max.
Proof. exact size_accounting. Qed.

(* TxSelector: whatever order the loop considers the candidates in, the selected list is parents-first
   (ord: every in-pool ancestor of an element stands before it) — given C11's link invariant: calc_ancestors
   is transitively closed and ancestors_count grows strictly along it *)
Theorem c13_ancestors_first : forall ancs key proposed size cycles anc_size anc_cycles,
  (forall a b, In a (ancs b) -> incl (ancs a) (ancs b)) ->
  (forall a b, In a (ancs b) -> key a < key b) ->
  forall sl cl cands, ord ancs [] (s_list (select ancs key proposed size cycles anc_size anc_cycles sl cl cands)).
Proof. exact select_ordered. Qed.

(* ... and closed: no transaction without all of its in-pool ancestors *)
Theorem c13_ancestor_closed : forall ancs key proposed size cycles anc_size anc_cycles,
  (forall a b, In a (ancs b) -> incl (ancs a) (ancs b)) ->
  (forall a b, In a (ancs b) -> key a < key b) ->
  forall sl cl cands x a,
    In x (s_list (select ancs key proposed size cycles anc_size anc_cycles sl cl cands)) -> In a (ancs x) ->
    In a (s_list (select ancs key proposed size cycles anc_size anc_cycles sl cl cands)).
Proof. exact select_closed. Qed.

(* ... and within the size and cycle limits it was given, when ancestors_size / ancestors_cycles are the sums
   over the ancestors they stand for (C11's clause I4) *)
Theorem c13_selection_within_limits : forall ancs key proposed size cycles anc_size anc_cycles,
  (forall id, anc_size id = size id + sumf size (sdedup (ancs id))) ->
  (forall id, anc_cycles id = cycles id + sumf cycles (sdedup (ancs id))) ->
  forall sl cl cands,
    let r := select ancs key proposed size cycles anc_size anc_cycles sl cl cands in
    sumf size (s_list r) <= sl /\ sumf cycles (s_list r) <= cl /\
    s_size r = sumf size (s_list r) /\ s_cycles r = sumf cycles (s_list r).
Proof. exact select_within_limits. Qed.

(* with stale aggregates (C11 finding F3) the selector overruns the limit: an over-size template *)
Theorem c13_selection_limit_stale_refuted :
  exists cands, 1000 < sumf f3_size (s_list (select f3_ancs (fun id => id) (fun _ => true) f3_size (fun _ => 0) f3_anc_size (fun _ => 0) 1000 1000 cands)).
Proof. exact select_limit_stale_refuted. Qed.

(* the hypotheses are satisfiable on a diamond, and the selector really packages ancestors first *)
Theorem c13_example_hyps :
  (forall a b, In a (d_ancs b) -> incl (d_ancs a) (d_ancs b)) /\ (forall a b, In a (d_ancs b) -> d_key a < d_key b).
Proof. exact diamond_hyps. Qed.
Theorem c13_example_select :
  s_list (select d_ancs d_key (fun _ => true) d_size (fun _ => 1) d_anc_size (fun id => N.of_nat (length (d_ancs id)) + 1) 900 10 [3; 4; 2])
  = [1; 3; 2].
Proof. exact diamond_select. Qed.
Theorem c13_example_sizes :
  let s := trun 2000 2 (tstep 2000 2 (mkT 0 0 0 [] (mkTS 0 0 0 0)) (UBlank 600 1))
             [UFull 3 [500; 700; 300] [true; true; true]; UUncles 2; UProposals 40; UProposals 5; UTxs [900; 400; 100] [true; false; true]] in
  t_size s = mkTS 400 50 456 1506 /\ real_size s = 1506.
Proof. exact size_run. Qed.

(* ---- CandidateUncles (tx-pool/src/block_assembler/candidate_uncles.rs; model Pool/Uncles.v): the container the
   assembler keeps the candidate uncles in and prepare_uncles draws the template's uncles from.  Inv: the numbers of
   the buckets strictly ascending, no empty bucket, every bucket duplicate-free with at most MAX_PER_HEIGHT ids,
   count = the number of stored uncles <= MAX_CANDIDATE_UNCLES.  It holds after ANY sequence of insert /
   remove_by_number from the empty container *)
Theorem c13_uncles_inv_reachable : forall ops, Uncles.Inv (Uncles.run Uncles.empty ops).
Proof. exact UnclesProofs.reachable_inv. Qed.

Theorem c13_uncles_inv_step : forall c o, Uncles.Inv c -> Uncles.Inv (fst (Uncles.step c o)).
Proof. exact UnclesProofs.step_inv. Qed.

(* neither `.expect("length checked")` nor a `count -= …` below zero is ever reached *)
Theorem c13_uncles_never_panic : forall c o, Uncles.Inv c -> snd (Uncles.step c o) <> Uncles.IPanic.
Proof. exact UnclesProofs.step_never_panics. Qed.

Theorem c13_uncles_reachable_never_panic : forall ops o,
  snd (Uncles.step (Uncles.run Uncles.empty ops) o) <> Uncles.IPanic.
Proof. exact UnclesProofs.reachable_never_panics. Qed.

Theorem c13_uncles_insert_true_contains : forall c u,
  Uncles.Inv c -> snd (Uncles.insert c u) = Uncles.ITrue -> Uncles.contains (fst (Uncles.insert c u)) u = true.
Proof. exact UnclesProofs.insert_true_contains. Qed.

(* insert answers true exactly for a new uncle when there is room (or the lowest bucket makes room: its number is
   below the new one) and the uncle's height holds fewer than MAX_PER_HEIGHT *)
Theorem c13_uncles_insert_true_iff : forall c u, Uncles.Inv c ->
  (snd (Uncles.insert c u) = Uncles.ITrue <->
   Uncles.contains c u = false /\
   ((Uncles.cu_count c < Uncles.MAX_CANDIDATE_UNCLES)%nat \/ exists k, Uncles.first_key c = Some k /\ k < fst u) /\
   (length (Uncles.bucket_of c (fst u)) < Uncles.MAX_PER_HEIGHT)%nat).
Proof. exact UnclesProofs.insert_true_iff. Qed.

(* membership of EVERY uncle v after insert c u: what was there stays unless it was in the evicted bucket
   (evicted c n v = container full && lowest number < n && v has the lowest number); u is there when the answer
   was true *)
Theorem c13_uncles_insert_membership : forall c u v, Uncles.Inv c ->
  Uncles.contains (fst (Uncles.insert c u)) v =
  (Uncles.contains c v && negb (Uncles.evicted c (fst u) v))
  || (Uncles.uncle_eqb v u && Uncles.ires_eqb (snd (Uncles.insert c u)) Uncles.ITrue).
Proof. exact UnclesProofs.insert_membership. Qed.

(* an insert takes a member away only by evicting the lowest bucket, only when the container is full and the new
   number is above the lowest one … *)
Theorem c13_uncles_insert_removes_only_evicted : forall c u v, Uncles.Inv c ->
  Uncles.contains c v = true -> Uncles.contains (fst (Uncles.insert c u)) v = false ->
  (Uncles.MAX_CANDIDATE_UNCLES <= Uncles.cu_count c)%nat /\
  exists k, Uncles.first_key c = Some k /\ k < fst u /\ fst v = k.
Proof. exact UnclesProofs.insert_removes_only_evicted. Qed.

(* … and then the WHOLE lowest bucket goes, whatever the insert answers *)
Theorem c13_uncles_insert_evicts_lowest_bucket : forall c u v k, Uncles.Inv c ->
  (Uncles.MAX_CANDIDATE_UNCLES <= Uncles.cu_count c)%nat -> Uncles.first_key c = Some k -> k < fst u -> fst v = k ->
  Uncles.contains (fst (Uncles.insert c u)) v = false.
Proof. exact UnclesProofs.insert_evicts_lowest_bucket. Qed.

Theorem c13_uncles_remove_true_iff : forall c u, Uncles.Inv c ->
  (snd (Uncles.remove_by_number c u) = Uncles.ITrue <-> Uncles.contains c u = true).
Proof. exact UnclesProofs.remove_true_iff. Qed.

Theorem c13_uncles_remove_membership : forall c u, Uncles.Inv c ->
  Uncles.contains (fst (Uncles.remove_by_number c u)) u = false /\
  forall v, v <> u -> Uncles.contains (fst (Uncles.remove_by_number c u)) v = Uncles.contains c v.
Proof. exact UnclesProofs.remove_membership. Qed.

Theorem c13_uncles_remove_len : forall c u, Uncles.Inv c ->
  (snd (Uncles.remove_by_number c u) = Uncles.ITrue -> Uncles.len c = S (Uncles.len (fst (Uncles.remove_by_number c u)))) /\
  (snd (Uncles.remove_by_number c u) = Uncles.IFalse -> fst (Uncles.remove_by_number c u) = c).
Proof. exact UnclesProofs.remove_len. Qed.

(* values(): exactly the contained uncles, each once, len() of them, numbers ascending *)
Theorem c13_uncles_contains_iff_values : forall c u, Uncles.Inv c ->
  (Uncles.contains c u = true <-> In u (Uncles.values c)).
Proof. exact UnclesProofs.contains_iff_values. Qed.

Theorem c13_uncles_values_ascending : forall c, Uncles.Inv c ->
  Sorted.StronglySorted N.le (map fst (Uncles.values c)).
Proof. exact UnclesProofs.values_ascending. Qed.

Theorem c13_uncles_values_nodup : forall c, Uncles.Inv c -> NoDup (Uncles.values c).
Proof. exact UnclesProofs.values_NoDup. Qed.

Theorem c13_uncles_len_is_length_of_values : forall c, Uncles.Inv c -> Uncles.len c = length (Uncles.values c).
Proof. exact UnclesProofs.len_is_length_of_values. Qed.

(* a full container (UnclesProofs.full: heights 1..12 with ten uncles each, eight at height 13) meets Inv; a higher
   number evicts the ten of height 1, the lowest number or below is refused, a remove makes room again *)
Theorem c13_uncles_example_full :
  Uncles.Inv UnclesProofs.full /\ Uncles.len UnclesProofs.full = 128%nat /\
  Uncles.first_key UnclesProofs.full = Some 1 /\ length (Uncles.cu_map UnclesProofs.full) = 13%nat /\
  snd (Uncles.insert UnclesProofs.full (14, 0)) = Uncles.ITrue /\
  Uncles.len (fst (Uncles.insert UnclesProofs.full (14, 0))) = 119%nat /\
  Uncles.contains UnclesProofs.full (1, 3) = true /\
  Uncles.contains (fst (Uncles.insert UnclesProofs.full (14, 0))) (1, 3) = false /\
  Uncles.contains (fst (Uncles.insert UnclesProofs.full (14, 0))) (2, 3) = true /\
  Uncles.contains (fst (Uncles.insert UnclesProofs.full (14, 0))) (14, 0) = true /\
  Uncles.first_key (fst (Uncles.insert UnclesProofs.full (14, 0))) = Some 2 /\
  Uncles.insert UnclesProofs.full (1, 77) = (UnclesProofs.full, Uncles.IFalse) /\
  Uncles.insert UnclesProofs.full (0, 77) = (UnclesProofs.full, Uncles.IFalse) /\
  snd (Uncles.remove_by_number UnclesProofs.full (1, 5)) = Uncles.ITrue /\
  snd (Uncles.insert (fst (Uncles.remove_by_number UnclesProofs.full (1, 5))) (1, 77)) = Uncles.ITrue /\
  Uncles.len (fst (Uncles.insert (fst (Uncles.remove_by_number UnclesProofs.full (1, 5))) (1, 77))) = 128%nat /\
  length (Uncles.cu_map (Uncles.run UnclesProofs.full (map (fun i => Uncles.ORem (13, N.of_nat i)) (seq 0 8)))) = 12%nat.
Proof. exact UnclesProofs.full_container. Qed.

(* "an insert that answers false leaves the container as it was" is false of the code: on a full container the
   lowest bucket is thrown away BEFORE the set insert is tried.  Re-announcing a candidate (u already contained), or
   an uncle for a height that already holds MAX_PER_HEIGHT, answers false and costs the ten candidates of the lowest
   height *)
Theorem c13_uncles_insert_false_unchanged_refuted :
  exists ops u v, let c := Uncles.run Uncles.empty ops in
    Uncles.Inv c /\ snd (Uncles.insert c u) = Uncles.IFalse /\ Uncles.contains c u = true /\
    Uncles.contains c v = true /\ Uncles.contains (fst (Uncles.insert c u)) v = false /\
    (Uncles.len (fst (Uncles.insert c u)) + 10 = Uncles.len c)%nat /\
    snd (Uncles.insert c (2, 99)) = Uncles.IFalse /\ (Uncles.len (fst (Uncles.insert c (2%N, 99%N))) + 10 = Uncles.len c)%nat.
Proof. exact UnclesProofs.insert_false_unchanged_refuted. Qed.

Redirect "out/C13.c13_size_accounting" Print Assumptions c13_size_accounting.
Redirect "out/C13.c13_ancestors_first" Print Assumptions c13_ancestors_first.
Redirect "out/C13.c13_ancestor_closed" Print Assumptions c13_ancestor_closed.
Redirect "out/C13.c13_selection_within_limits" Print Assumptions c13_selection_within_limits.
Redirect "out/C13.c13_selection_limit_stale_refuted" Print Assumptions c13_selection_limit_stale_refuted.
Redirect "out/C13.c13_example_hyps" Print Assumptions c13_example_hyps.
Redirect "out/C13.c13_example_select" Print Assumptions c13_example_select.
Redirect "out/C13.c13_example_sizes" Print Assumptions c13_example_sizes.
Redirect "out/C13.c13_uncles_inv_reachable" Print Assumptions c13_uncles_inv_reachable.
Redirect "out/C13.c13_uncles_inv_step" Print Assumptions c13_uncles_inv_step.
Redirect "out/C13.c13_uncles_never_panic" Print Assumptions c13_uncles_never_panic.
Redirect "out/C13.c13_uncles_reachable_never_panic" Print Assumptions c13_uncles_reachable_never_panic.
Redirect "out/C13.c13_uncles_insert_true_contains" Print Assumptions c13_uncles_insert_true_contains.
Redirect "out/C13.c13_uncles_insert_true_iff" Print Assumptions c13_uncles_insert_true_iff.
Redirect "out/C13.c13_uncles_insert_membership" Print Assumptions c13_uncles_insert_membership.
Redirect "out/C13.c13_uncles_insert_removes_only_evicted" Print Assumptions c13_uncles_insert_removes_only_evicted.
Redirect "out/C13.c13_uncles_insert_evicts_lowest_bucket" Print Assumptions c13_uncles_insert_evicts_lowest_bucket.
Redirect "out/C13.c13_uncles_remove_true_iff" Print Assumptions c13_uncles_remove_true_iff.
Redirect "out/C13.c13_uncles_remove_membership" Print Assumptions c13_uncles_remove_membership.
Redirect "out/C13.c13_uncles_remove_len" Print Assumptions c13_uncles_remove_len.
Redirect "out/C13.c13_uncles_contains_iff_values" Print Assumptions c13_uncles_contains_iff_values.
Redirect "out/C13.c13_uncles_values_ascending" Print Assumptions c13_uncles_values_ascending.
Redirect "out/C13.c13_uncles_values_nodup" Print Assumptions c13_uncles_values_nodup.
Redirect "out/C13.c13_uncles_len_is_length_of_values" Print Assumptions c13_uncles_len_is_length_of_values.
Redirect "out/C13.c13_uncles_example_full" Print Assumptions c13_uncles_example_full.
Redirect "out/C13.c13_uncles_insert_false_unchanged_refuted" Print Assumptions c13_uncles_insert_false_unchanged_refuted.
