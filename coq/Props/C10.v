(* Props/C10.v — the theorems that decide property C10.  Statements only. *)
From CKB Require Import Freezer.Freeze Freezer.FreezeProofs Freezer.FreezeParts Freezer.FreezePartsProofs.

(* Every main-chain block reads the same (through the store's height switch:
   below Freezer::number() from the freezer, otherwise from the key-value
   store) before, at every intermediate point of, and after any number of
   freeze passes, and after a crash + re-open at any point — the freezer then
   holds any prefix of its items that contains the synced ones (C09). *)
Theorem c10_reads_invariant : forall (main : nat -> N) (tip : nat) s ops h,
  initial main tip s -> 0 < h <= tip -> read (frun s ops) h = Some (main h).
Proof. exact reads_invariant. Qed.

(* the invariant behind it, preserved by every step *)
Theorem c10_step_inv : forall (main : nat -> N) (tip : nat) s o, FInv main tip s -> FInv main tip (step s o).
Proof. exact step_inv. Qed.

(* the wipe-out deletes only bodies of blocks that are durably in the freezer *)
Theorem c10_wipe_only_frozen : forall (main : nat -> N) (tip : nat) s h,
  FInv main tip s -> kv s h <> None -> kv (step s SWipe) h = None ->
  0 < h <= synced s /\ nth_error (fz s) (h - 1) = Some (main h).
Proof. exact wipe_only_frozen. Qed.

(* a pass never moves the frozen height backwards, never beyond the threshold
   block, never by more than the per-run limit *)
Theorem c10_only_old_moved : forall frozen limit maxl,
  (frozen <= frozen_after frozen limit maxl)%N /\
  (frozen_after frozen limit maxl <= N.max frozen limit)%N /\
  (frozen_after frozen limit maxl <= frozen + maxl)%N.
Proof. exact frozen_after_bounds. Qed.

(* non-vacuity: a five-block chain, two passes with a crash in between *)
Theorem c10_example :
  let main := fun h => N.of_nat (100 + h) in
  let s0 := mkFS (fun h => if Nat.leb 1 h && Nat.leb h 5 then Some (main h) else None) [] 0 in
  initial main 5 s0 /\
  map (read (frun s0 [SAppend; SAppend; SCrash 1; SAppend; SSync; SWipe; SAppend; SCrash 0; SAppend; SSync; SWipe])) [1; 2; 3; 4; 5]
  = [Some 101%N; Some 102%N; Some 103%N; Some 104%N; Some 105%N].
Proof. exact ex_freeze. Qed.

(* The same at the granularity of the store's columns and of every getter the
   property lists: header, body, transaction hashes, cellbase, uncles,
   proposals, extension, the block as a view and in packed form answer for
   every main-chain block exactly what the block contains, at every point of
   any sequence of freeze passes — each append, the sync, the batch that
   deletes the frozen blocks' part rows, the batch that deletes side-chain
   blocks stored under frozen numbers, a crash + re-open anywhere. *)
Theorem c10_parts_read_invariant : forall (main : nat -> blk) (tip : nat),
  (forall h h', 0 < h <= tip -> 0 < h' <= tip -> b_id (main h) = b_id (main h') -> h = h') ->
  (forall h, 0 < h <= tip -> b_body (main h) <> []) ->
  forall s ops h, pinitial main tip s -> 0 < h <= tip ->
  let s' := prun s ops in let id := b_id (main h) in
  get_header s' id = Some (b_hdr (main h)) /\
  get_body s' id = b_body (main h) /\
  get_txs_hashes s' id = b_body (main h) /\
  get_cellbase s' id = hd_error (b_body (main h)) /\
  get_uncles s' id = Some (b_uncles (main h)) /\
  get_props s' id = Some (b_props (main h)) /\
  get_ext s' id = b_ext (main h) /\
  get_block s' id = Some (main h) /\
  get_packed_block s' id = Some (main h).
Proof. exact parts_read_invariant. Qed.

(* whatever row a step deletes belongs to a main-chain block that is durably in
   the freezer, or to a block that is not on the main chain and is stored under
   a number this pass has frozen *)
Theorem c10_only_frozen_or_side_removed : forall (main : nat -> blk) (tip : nat) s o id,
  PInv main tip s ->
  p_uncles s id <> None -> p_uncles (pstep_run s o) id = None ->
  (exists h, 0 < h <= p_synced s /\ id = b_id (main h) /\ nth_error (p_fz s) (h - 1) = Some (main h)) \/
  ((forall h, 0 < h <= tip -> id <> b_id (main h)) /\
   exists n, p_numhash s n id = true /\ In n (map fst (p_ret s)) /\ n <= p_synced s).
Proof. exact only_frozen_or_side_removed. Qed.

Theorem c10_parts_inv_reachable : forall (main : nat -> blk) (tip : nat),
  (forall h h', 0 < h <= tip -> 0 < h' <= tip -> b_id (main h) = b_id (main h') -> h = h') ->
  forall s ops, pinitial main tip s -> PInv main tip (prun s ops).
Proof. intros main tip Hinj s ops Hi. apply prun_inv; [exact Hinj|]. apply pinitial_inv. exact Hi. Qed.

(* non-vacuity, and F11: with the part getters as they were before the repair
   71875e4 (key-value store only) the statement is false *)
Theorem c10_parts_example : pinitial ex_main 5 ex_s0 /\
  let s := prun ex_s0 ex_ops in
  map (fun h => get_block s (b_id (ex_main h))) [1; 2; 3; 4; 5] = map (fun h => Some (ex_main h)) [1; 2; 3; 4; 5] /\
  length (p_fz s) = 4.
Proof. split; [exact ex_pinitial|]. cbv zeta. split; [apply ex_parts|apply ex_parts]. Qed.

Theorem c10_parts_old_refuted :
  let s := prun ex_s0 [PBegin; PAppend; PAppend; PSync; PWipeMain] in
  get_uncles_old s (b_id (ex_main 1)) <> Some (b_uncles (ex_main 1)) /\
  get_body_old s (b_id (ex_main 1)) <> b_body (ex_main 1) /\
  get_props_old s (b_id (ex_main 2)) <> Some (b_props (ex_main 2)) /\
  get_ext_old s (b_id (ex_main 2)) <> b_ext (ex_main 2).
Proof. exact parts_old_refuted. Qed.

(* Side-chain blocks (siblings of main-chain blocks, at any height): at every point of any sequence of
   passes and crashes a stored side-chain block is either removed as a whole (header row too) or every
   getter still answers it with its own parts — never with the main-chain block that the freezer, which
   is indexed by number alone, holds at the same height. *)
Theorem c10_side_read_invariant : forall (main : nat -> blk) (tip : nat),
  (forall h h', 0 < h <= tip -> 0 < h' <= tip -> b_id (main h) = b_id (main h') -> h = h') ->
  forall s ops n sb, pinitial main tip s -> not_main main tip (b_id sb) -> b_body sb <> [] -> side_stored s n sb ->
  let s' := prun s ops in let id := b_id sb in
  get_header s' id = None \/
  (get_header s' id = Some (b_hdr sb) /\
   get_body s' id = b_body sb /\
   get_cellbase s' id = hd_error (b_body sb) /\
   get_uncles s' id = Some (b_uncles sb) /\
   get_props s' id = Some (b_props sb) /\
   get_ext s' id = b_ext sb /\
   get_block s' id = Some sb /\
   get_packed_block s' id = Some sb).
Proof. exact side_read_invariant. Qed.

(* non-vacuity: the example's sibling of block 2 survives a crash between the two wipe-out batches
   and reads as itself with 4 blocks frozen *)
Theorem c10_side_example :
  (side_stored ex_s0 2 ex_side /\ not_main ex_main 5 (b_id ex_side) /\ b_body ex_side <> []) /\
  let s := prun ex_s0 ex_ops in
  p_hdr s 999%N = Some (2, 888%N) /\ length (p_fz s) = 4 /\
  get_block s 999%N = Some ex_side /\ get_packed_block s 999%N = Some ex_side /\ get_ext s 999%N = None /\
  get_uncles s 999%N = Some 666%N.
Proof. exact (conj ex_side_stored ex_side_after_crash). Qed.

(* F18: with the freezer consulted by number alone (get_block / get_frozen_block before the repair)
   the same reads answer with main-chain block 2, and the extension fallback picks up block 2's *)
Theorem c10_bynum_refuted :
  let s := prun ex_s0 ex_ops in
  get_block_bynum s 999%N = Some (ex_main 2) /\ get_block_bynum s 999%N <> Some ex_side /\
  get_frozen_block_bynum s 999%N = Some (ex_main 2) /\
  orelse (p_ext s 999%N) (match get_frozen_block_bynum s 999%N with Some b => b_ext b | None => None end) = Some 702%N.
Proof. exact bynum_refuted. Qed.

Redirect "out/C10.c10_reads_invariant" Print Assumptions c10_reads_invariant.
Redirect "out/C10.c10_step_inv" Print Assumptions c10_step_inv.
Redirect "out/C10.c10_wipe_only_frozen" Print Assumptions c10_wipe_only_frozen.
Redirect "out/C10.c10_only_old_moved" Print Assumptions c10_only_old_moved.
Redirect "out/C10.c10_example" Print Assumptions c10_example.
Redirect "out/C10.c10_parts_read_invariant" Print Assumptions c10_parts_read_invariant.
Redirect "out/C10.c10_only_frozen_or_side_removed" Print Assumptions c10_only_frozen_or_side_removed.
Redirect "out/C10.c10_parts_inv_reachable" Print Assumptions c10_parts_inv_reachable.
Redirect "out/C10.c10_parts_example" Print Assumptions c10_parts_example.
Redirect "out/C10.c10_parts_old_refuted" Print Assumptions c10_parts_old_refuted.
Redirect "out/C10.c10_side_read_invariant" Print Assumptions c10_side_read_invariant.
Redirect "out/C10.c10_side_example" Print Assumptions c10_side_example.
Redirect "out/C10.c10_bynum_refuted" Print Assumptions c10_bynum_refuted.
