(* Props/C10.v — the theorems that decide property C10.  Statements only. *)
From CKB Require Import Freezer.Freeze Freezer.FreezeProofs.

(* Every main-chain block reads the same (through the store's height switch:
   below Freezer::number() from the freezer, otherwise from the key-value
   store) before, at every intermediate point of, and after any number of
   freeze passes, and after a crash + re-open at any point — the freezer then
   holds any prefix of its items that contains the synced ones (C09). *)
Theorem c10_reads_invariant : forall (main : nat -> N) (tip : nat) s ops h,
  initial main tip s -> 0 < h <= tip -> read (frun s ops) h = Some (main h).
Proof. exact reads_invariant. Qed.

(* the invariant behind it, preserved by every step *)
Theorem c10_step_inv : forall (main : nat -> N) (tip : nat) s o, FInv main tip s -> FInv main tip (step s o).
Proof. exact step_inv. Qed.

(* the wipe-out deletes only bodies of blocks that are durably in the freezer *)
Theorem c10_wipe_only_frozen : forall (main : nat -> N) (tip : nat) s h,
  FInv main tip s -> kv s h <> None -> kv (step s SWipe) h = None ->
  0 < h <= synced s /\ nth_error (fz s) (h - 1) = Some (main h).
Proof. exact wipe_only_frozen. Qed.

(* a pass never moves the frozen height backwards, never beyond the threshold
   block, never by more than the per-run limit *)
Theorem c10_only_old_moved : forall frozen limit maxl,
  (frozen <= frozen_after frozen limit maxl)%N /\
  (frozen_after frozen limit maxl <= N.max frozen limit)%N /\
  (frozen_after frozen limit maxl <= frozen + maxl)%N.
Proof. exact frozen_after_bounds. Qed.

(* non-vacuity: a five-block chain, two passes with a crash in between *)
Theorem c10_example :
  let main := fun h => N.of_nat (100 + h) in
  let s0 := mkFS (fun h => if Nat.leb 1 h && Nat.leb h 5 then Some (main h) else None) [] 0 in
  initial main 5 s0 /\
  map (read (frun s0 [SAppend; SAppend; SCrash 1; SAppend; SSync; SWipe; SAppend; SCrash 0; SAppend; SSync; SWipe])) [1; 2; 3; 4; 5]
  = [Some 101%N; Some 102%N; Some 103%N; Some 104%N; Some 105%N].
Proof. exact ex_freeze. Qed.

Redirect "out/C10.c10_reads_invariant" Print Assumptions c10_reads_invariant.
Redirect "out/C10.c10_step_inv" Print Assumptions c10_step_inv.
Redirect "out/C10.c10_wipe_only_frozen" Print Assumptions c10_wipe_only_frozen.
Redirect "out/C10.c10_only_old_moved" Print Assumptions c10_only_old_moved.
Redirect "out/C10.c10_example" Print Assumptions c10_example.
