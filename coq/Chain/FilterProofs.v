(* Chain/FilterProofs.v — after any reorganisation one pass of the filter
   builder leaves every main-chain block with the filter hash determined by its
   ancestry, and never hits its `expect`. *)
From CKB Require Import Chain.Filter.

Lemma nth_error_skipn {A} : forall n (l : list A) i, nth_error (skipn n l) i = nth_error l (n + i).
Proof.
  induction n as [|n IH]; intros l i; [reflexivity|].
  destruct l as [|a l]; [destruct i; reflexivity|]. cbn [skipn Nat.add nth_error]. apply IH.
Qed.

Section Proofs.
Variable parent : N -> N.
Variable num : N -> nat.
Variable H2 : N -> N -> N.

(* the block tree is well-formed *)
Hypothesis num_genesis : num 0%N = 0.
Hypothesis num_parent : forall b, b <> 0%N -> num b = S (num (parent b)).
Hypothesis genesis_only : forall b, num b = 0 -> b = 0%N.

Notation on_main := (on_main num).
Notation spec b := (fh_spec parent H2 (num b) b).

(* a main chain: genesis first, consecutive parents *)
Definition chain_ok (main : main_t) : Prop :=
  nth_error main 0 = Some 0%N /\
  forall k b, nth_error main k = Some b -> num b = k /\ (k <> 0 -> nth_error main (k - 1) = Some (parent b)).

(* what is built is right, and closed under ancestors *)
Record FInv (s : fst) : Prop := mkFInv {
  fi_val : forall b v, fh s b = Some v -> v = spec b;
  fi_anc : forall b, fh s b <> None -> b <> 0%N -> fh s (parent b) <> None;
  fi_latest : forall b, latest s = Some b -> fh s b <> None
}.

Lemma spec_unfold b : b <> 0%N -> spec b = H2 (spec (parent b)) b.
Proof.
  intros Hb. rewrite (num_parent b Hb). cbn [fh_spec].
  destruct (N.eqb_spec b 0); [contradiction|reflexivity].
Qed.
Lemma spec_genesis : spec 0%N = H2 0%N 0%N.
Proof. rewrite num_genesis. reflexivity. Qed.

Lemma build_one_inv s b s' :
  FInv s -> build_one parent H2 s b = Some s' ->
  FInv s' /\ fh s' b <> None /\ (forall x, fh s x <> None -> fh s' x <> None).
Proof.
  intros [Hv Ha Hl] Hb. unfold build_one in Hb.
  destruct (fh s b) as [v|] eqn:Eb.
  - injection Hb as <-. split; [split; assumption|]. split; [congruence|auto].
  - destruct (N.eqb_spec b 0) as [->|Hne].
    + injection Hb as <-. split; [|split].
      * split; cbn [fh latest].
        -- intros x v. destruct (N.eqb_spec x 0) as [Ex0|Nx0]; [|apply Hv].
           subst x. intros E. injection E as <-. symmetry. apply spec_genesis.
        -- intros x Hx Hx0. destruct (N.eqb_spec (parent x) 0); [discriminate|].
           destruct (N.eqb_spec x 0); [contradiction|]. apply Ha; assumption.
        -- intros x E. injection E as <-. rewrite N.eqb_refl. discriminate.
      * cbn [fh]. rewrite N.eqb_refl. discriminate.
      * intros x Hx. cbn [fh]. destruct (N.eqb x 0); [discriminate|exact Hx].
    + destruct (fh s (parent b)) as [p|] eqn:Ep; [|discriminate]. injection Hb as <-.
      split; [|split].
      * split; cbn [fh latest].
        -- intros x v. destruct (N.eqb_spec x b) as [Exb|Nxb]; [|apply Hv].
           subst x. intros E. injection E as <-. rewrite (spec_unfold b Hne), (Hv _ _ Ep). reflexivity.
        -- intros x Hx Hx0. destruct (N.eqb_spec (parent x) b) as [E|E]; [discriminate|].
           destruct (N.eqb_spec x b) as [Exb|Nxb]; [subst x; rewrite Ep; discriminate|]. apply Ha; assumption.
        -- intros x E. injection E as <-. rewrite N.eqb_refl. discriminate.
      * cbn [fh]. rewrite N.eqb_refl. discriminate.
      * intros x Hx. cbn [fh]. destruct (N.eqb x b); [discriminate|exact Hx].
Qed.

(* building a parent-linked run of blocks whose first parent is built *)
Lemma build_from_ok : forall bs s,
  FInv s ->
  (forall i b, nth_error bs i = Some b ->
     b = 0%N \/ (i = 0 /\ fh s (parent b) <> None) \/ (i <> 0 /\ nth_error bs (i - 1) = Some (parent b))) ->
  exists s', build_from parent H2 s bs = Some s' /\ FInv s' /\
             (forall b, In b bs -> fh s' b <> None) /\ (forall x, fh s x <> None -> fh s' x <> None).
Proof.
  induction bs as [|b bs IH]; intros s HI Hlink; cbn [build_from].
  - exists s. split; [reflexivity|]. split; [exact HI|]. split; [intros b []|auto].
  - assert (Hone : exists s1, build_one parent H2 s b = Some s1).
    { unfold build_one. destruct (fh s b); [eexists; reflexivity|].
      destruct (Hlink 0 b eq_refl) as [->|[[_ Hp]|[Hc _]]]; [|destruct (N.eqb b 0); [eexists; reflexivity|]|contradiction].
      - rewrite N.eqb_refl. eexists; reflexivity.
      - destruct (fh s (parent b)); [eexists; reflexivity|contradiction]. }
    destruct Hone as (s1 & E1). rewrite E1.
    destruct (build_one_inv s b s1 HI E1) as (HI1 & Hb1 & Hmono1).
    destruct (IH s1 HI1) as (s' & Eb & HI' & Hall & Hmono).
    { intros i x Hx. destruct (Hlink (S i) x Hx) as [->|[[Hc _]|[_ Hp]]]; [left; reflexivity|discriminate|].
      cbn [Nat.sub] in Hp. rewrite Nat.sub_0_r in Hp. destruct i as [|i].
      - cbn [nth_error] in Hp. injection Hp as Hp. right. left. split; [reflexivity|]. rewrite <- Hp. exact Hb1.
      - right. right. split; [discriminate|]. cbn [nth_error Nat.sub] in *. rewrite Nat.sub_0_r. exact Hp. }
    exists s'. split; [exact Eb|]. split; [exact HI'|]. split.
    + intros x [<-|Hx]; [apply Hmono; exact Hb1|apply Hall; exact Hx].
    + intros x Hx. apply Hmono. apply Hmono1. exact Hx.
Qed.

Lemma on_main_spec main b : chain_ok main -> on_main main b = true <-> nth_error main (num b) = Some b.
Proof.
  intros _. unfold Filter.on_main. destruct (nth_error main (num b)) as [x|]; [|split; discriminate].
  destruct (N.eqb_spec x b); split; congruence.
Qed.

(* everything built is closed under ancestors: all main-chain blocks below a built main-chain block are built *)
Lemma built_below main s k b :
  chain_ok main -> FInv s -> nth_error main k = Some b -> fh s b <> None ->
  forall j x, j <= k -> nth_error main j = Some x -> fh s x <> None.
Proof.
  intros [H0 Hc] HI. revert b. induction k as [|k IH]; intros b Hk Hb j x Hj Hx.
  - assert (j = 0) by lia. subst j. congruence.
  - destruct (Nat.eq_dec j (S k)) as [->|Hne]; [congruence|].
    destruct (Hc (S k) b Hk) as [Hn Hp]. specialize (Hp ltac:(discriminate)).
    cbn [Nat.sub] in Hp. rewrite Nat.sub_0_r in Hp.
    assert (Hb0 : b <> 0%N) by (intros ->; rewrite num_genesis in Hn; discriminate).
    apply (IH (parent b) Hp (fi_anc s HI b Hb Hb0) j x); [lia|exact Hx].
Qed.

(* the first block off the main chain on the way up: its parent is on the main chain and is built *)
Lemma first_off_spec main s : chain_ok main -> FInv s -> forall fuel b,
  num b <= fuel -> fh s b <> None -> on_main main b = false ->
  let a := first_off parent num main fuel b in
  on_main main (parent a) = true /\ fh s a <> None /\ a <> 0%N /\ on_main main a = false.
Proof.
  intros HC HI. induction fuel as [|f IH]; intros b Hf Hb Hoff.
  - exfalso. assert (b = 0%N) by (apply genesis_only; lia). subst b.
    destruct HC as [H0 _]. unfold Filter.on_main in Hoff. rewrite num_genesis, H0, N.eqb_refl in Hoff. discriminate.
  - cbn [first_off].
    assert (Hb0 : b <> 0%N).
    { intros ->. destruct HC as [H0 _]. unfold Filter.on_main in Hoff. rewrite num_genesis, H0, N.eqb_refl in Hoff. discriminate. }
    destruct (on_main main (parent b)) eqn:Ep.
    + repeat split; assumption.
    + apply IH; [rewrite (num_parent b Hb0) in Hf; lia|apply (fi_anc s HI); assumption|exact Ep].
Qed.

(* One pass of the builder after any change of the main chain: it never hits
   its `expect`, afterwards every main-chain block has a filter hash, and every
   filter hash is the one determined by the block's ancestry. *)
Theorem build_pass_ok main s :
  chain_ok main -> FInv s ->
  exists s', build_pass parent num H2 main s = Some s' /\ FInv s' /\
             (forall k b, nth_error main k = Some b -> fh s' b = Some (spec b)).
Proof.
  intros HC HI. pose proof HC as [H0 Hc]. unfold build_pass.
  set (st := start_number parent num main s).
  (* every main block below the start is built already *)
  assert (Hbelow : forall j x, j < st -> nth_error main j = Some x -> fh s x <> None).
  { unfold st, start_number. destruct (latest s) as [b|] eqn:El; [|intros; lia].
    pose proof (fi_latest s HI b El) as Hb.
    destruct (on_main main b) eqn:Eon.
    - apply on_main_spec in Eon; [|exact HC]. intros j x Hj Hx.
      apply (built_below main s (num b) b HC HI Eon Hb j x); [lia|exact Hx].
    - destruct (first_off_spec main s HC HI (num b) b (le_n _) Hb Eon) as (Hpa & Ha & Ha0 & _).
      set (a := first_off parent num main (num b) b) in *.
      apply on_main_spec in Hpa; [|exact HC]. intros j x Hj Hx.
      rewrite (num_parent a Ha0) in Hj.
      apply (built_below main s (num (parent a)) (parent a) HC HI Hpa (fi_anc s HI a Ha Ha0) j x); [lia|exact Hx]. }
  destruct (build_from_ok (skipn st main) s HI) as (s' & Eb & HI' & Hall & Hmono).
  { intros i b Hi. rewrite nth_error_skipn in Hi. destruct (Hc _ _ Hi) as [Hn Hp].
    destruct (Nat.eq_dec (st + i) 0) as [E0|NE0].
    - left. rewrite E0 in Hi. congruence.
    - specialize (Hp NE0). destruct i as [|i].
      + right. left. split; [reflexivity|]. rewrite Nat.add_0_r in *. apply (Hbelow (st - 1) (parent b)); [lia|exact Hp].
      + right. right. split; [discriminate|]. rewrite nth_error_skipn. cbn [Nat.sub]. rewrite Nat.sub_0_r.
        replace (st + S i - 1) with (st + i) in Hp by lia. exact Hp. }
  exists s'. split; [exact Eb|]. split; [exact HI'|].
  intros k b Hk. destruct (fh s' b) as [v|] eqn:Ev; [rewrite (fi_val s' HI' b v Ev); reflexivity|].
  exfalso. destruct (Nat.lt_ge_cases k st) as [L|L].
  - apply (Hmono b (Hbelow k b L Hk)). exact Ev.
  - apply (Hall b); [|exact Ev]. rewrite <- (firstn_skipn st main) in Hk.
    rewrite nth_error_app2 in Hk by (rewrite firstn_length; lia).
    eapply nth_error_In. exact Hk.
Qed.
End Proofs.

(* non-vacuity: a linear universe (parent b = b - 1) satisfies the hypotheses *)
Lemma ex_filter_hyps :
  N.to_nat 0%N = 0 /\ (forall b, b <> 0%N -> N.to_nat b = S (N.to_nat (N.pred b))) /\
  (forall b, N.to_nat b = 0 -> b = 0%N) /\ chain_ok N.pred N.to_nat [0; 1; 2; 3]%N.
Proof.
  split; [reflexivity|]. split; [intros b Hb; lia|]. split; [intros b Hb; lia|].
  split; [reflexivity|]. intros k b Hk.
  do 4 (destruct k as [|k]; [cbn in Hk; injection Hk as <-; split; [reflexivity|intros _; reflexivity || (intros H; exfalso; apply H; reflexivity)]|]).
  destruct k; discriminate.
Qed.
