(* Chain/ExtensionProofs.v — a block passes the extension verifier under rfc0044 iff its extension
   carries the MMR root over its ancestors in its first 32 bytes *)
From CKB Require Import Chain.Extension.
From Coq Require Import List NArith Arith Bool Lia.
Import ListNotations.

Lemma bytes_eqb_eq : forall a b, bytes_eqb a b = true <-> a = b.
Proof.
  induction a as [|x a IH]; destruct b as [|y b]; cbn [bytes_eqb]; split; intros H; try discriminate; try reflexivity.
  - apply andb_true_iff in H as [H1 H2]. apply N.eqb_eq in H1. apply IH in H2. subst. reflexivity.
  - injection H as -> ->. rewrite N.eqb_refl. cbn. apply IH. reflexivity.
Qed.

(* C19, acceptance: with the chain-root rule active a block passes iff it has exactly the extension field,
   of 32..96 bytes, whose first 32 bytes are the root, and its extra hash commits to it *)
Theorem ext_verify_active_iff : forall root b, length root = 32 ->
  ext_verify true root b = None <->
  e_extra_fields b = 1 /\
  exists bytes, e_ext b = Some bytes /\ 32 <= length bytes <= 96 /\ firstn 32 bytes = root /\
                e_extra_hash_ok b = true.
Proof.
  intros root b Hr. unfold ext_verify, ext_verify_with, tail_check. split.
  - intros H. destruct (e_extra_fields b) as [|[|n]] eqn:Ef; [discriminate| |discriminate].
    split; [reflexivity|]. destruct (e_ext b) as [bytes|]; [|discriminate]. exists bytes.
    destruct (Nat.eqb_spec (length bytes) 0); [discriminate|].
    destruct (Nat.ltb_spec 96 (length bytes)); [discriminate|].
    destruct (Nat.ltb_spec (length bytes) 32); [discriminate|].
    destruct (bytes_eqb (firstn 32 bytes) root) eqn:E; [|discriminate].
    destruct (e_extra_hash_ok b); [|discriminate].
    apply bytes_eqb_eq in E. repeat split; auto; lia.
  - intros (Ef & bytes & Ee & Hl & Hf & Hh). rewrite Ef, Ee.
    destruct (Nat.eqb_spec (length bytes) 0); [lia|].
    destruct (Nat.ltb_spec 96 (length bytes)); [lia|].
    destruct (Nat.ltb_spec (length bytes) 32); [lia|].
    assert (E : bytes_eqb (firstn 32 bytes) root = true) by (apply bytes_eqb_eq; exact Hf).
    rewrite E, Hh. reflexivity.
Qed.

(* two blocks that pass on the same parent commit to the same root *)
Corollary accepted_blocks_commit_the_root : forall root b bytes, length root = 32 ->
  ext_verify true root b = None -> e_ext b = Some bytes -> firstn 32 bytes = root.
Proof.
  intros root b bytes Hr H He. apply (ext_verify_active_iff root b Hr) in H as (_ & bs & E & _ & Hf & _).
  rewrite He in E. injection E as <-. exact Hf.
Qed.

(* before the rule is active the extension is free (absent, or 1..96 bytes) *)
Theorem ext_verify_inactive_iff : forall root b,
  ext_verify false root b = None <->
  e_extra_hash_ok b = true /\
  (e_extra_fields b = 0 \/ (e_extra_fields b = 1 /\ exists bytes, e_ext b = Some bytes /\ 1 <= length bytes <= 96)).
Proof.
  intros root b. unfold ext_verify, ext_verify_with, tail_check. split.
  - intros H. destruct (e_extra_fields b) as [|[|n]] eqn:Ef; [| |discriminate].
    + destruct (e_extra_hash_ok b); [|discriminate]. split; [reflexivity|left; reflexivity].
    + destruct (e_ext b) as [bytes|]; [|discriminate].
      destruct (Nat.eqb_spec (length bytes) 0); [discriminate|].
      destruct (Nat.ltb_spec 96 (length bytes)); [discriminate|].
      destruct (e_extra_hash_ok b); [|discriminate].
      split; [reflexivity|]. right. split; [reflexivity|]. exists bytes. split; [reflexivity|lia].
  - intros (Hh & [Ef|(Ef & bytes & Ee & Hl)]); rewrite Ef.
    + rewrite Hh. reflexivity.
    + rewrite Ee. destruct (Nat.eqb_spec (length bytes) 0); [lia|].
      destruct (Nat.ltb_spec 96 (length bytes)); [lia|]. rewrite Hh. reflexivity.
Qed.

(* ---- witnesses ------------------------------------------------------------------ *)
Definition ex_root : list N := map N.of_nat (seq 1 32).
Definition ex_good : eblock := mkEB 1 (Some (ex_root ++ [200; 201]%N)) true.
Definition ex_short : eblock := mkEB 1 (Some (firstn 16 ex_root)) true.

Lemma ex_extension :
  length ex_root = 32 /\ ext_verify true ex_root ex_good = None /\
  ext_verify true ex_root ex_short = Some EInvalidBlockExtension /\
  ext_verify true ex_root (mkEB 0 None true) = Some ENoBlockExtension /\
  ext_verify true ex_root (mkEB 1 (Some (2%N :: tl ex_root)) true) = Some EInvalidChainRoot.
Proof. vm_compute. repeat split. Qed.

(* without the short-length rejection a block that commits to no root at all passes *)
Lemma lenient_refuted :
  ext_verify_lenient true ex_root ex_short = None /\
  (forall bytes, e_ext ex_short = Some bytes -> firstn 32 bytes <> ex_root).
Proof.
  split; [vm_compute; reflexivity|].
  intros bytes H. injection H as <-. vm_compute. discriminate.
Qed.
