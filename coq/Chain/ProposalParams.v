(* the consensus constants generated from spec/src/consensus.rs satisfy the
   side conditions of the C20 theorems *)
From CKB Require Import Chain.Proposal Chain.ProposalProofs gen.ParamsC20.

Lemma tx_proposal_window_wf : wf_window tx_proposal_window.
Proof. unfold wf_window, tx_proposal_window. cbn [w_close w_far]. lia. Qed.

(* a concrete history meeting the hypotheses of the theorems: extensions, a
   reorganisation to a shorter-but-valid branch, a restart, a truncation *)
Definition example_ops : list pop :=
  [PReorg 0 [[1%N]; [2%N; 3%N]; []; [4%N]]; PReorg 4 [[5%N]]; PReorg 2 [[6%N]; [7%N]];
   PRestart; PReorg 4 [[8%N]; []; []; []; []; []; []; []; []; [9%N]]; PReorg 5 []].
Lemma example_ops_ok : ops_ok [[]] example_ops.
Proof. cbn. lia. Qed.
Lemma example_nontrivial :
  v_set (p_view (prun_state tx_proposal_window (genesis_state []) example_ops)) <> [].
Proof. vm_compute. discriminate. Qed.
