(* Chain/MMRProofs.v — the chain-root MMR is append-only; the nodes stored for
   a chain are a prefix of the nodes stored for any extension of it, so a
   reorganisation that resumes at the fork point and pushes the new branch
   leaves exactly the MMR of the new main chain below mmr_size(tip). *)
From CKB Require Import Chain.MMR.

Section Proofs.
Variable D : Type.
Variable merge : D -> D -> D.
Notation push := (push D merge).
Notation build := (build D merge).
Notation merge_up := (merge_up D merge).

Lemma merge_up_appends : forall fuel peaks out,
  exists extra, snd (merge_up fuel peaks out) = out ++ extra.
Proof.
  induction fuel as [|f IH]; intros peaks out; cbn [merge_up].
  - exists []. rewrite app_nil_r. reflexivity.
  - destruct peaks as [|[h1 r] [|[h2 l] rest]]; try (exists []; rewrite app_nil_r; reflexivity).
    destruct (Nat.eqb h1 h2); [|exists []; rewrite app_nil_r; reflexivity].
    destruct (IH ((S h1, merge l r) :: rest) (out ++ [merge l r])) as (e & He).
    exists ([merge l r] ++ e). rewrite He, app_assoc. reflexivity.
Qed.

(* MMR::push only appends nodes *)
Lemma push_appends m x : exists extra, m_nodes (push m x) = m_nodes m ++ x :: extra.
Proof.
  unfold MMR.push, push_nodes.
  destruct (merge_up_appends (S (length (m_peaks m))) ((0, x) :: m_peaks m) [x]) as (e & He).
  destruct (merge_up (S (length (m_peaks m))) ((0, x) :: m_peaks m) [x]) as [p out]. cbn [snd] in He.
  subst out. exists e. reflexivity.
Qed.

Lemma fold_push_appends : forall xs m, exists extra, m_nodes (fold_left push xs m) = m_nodes m ++ extra.
Proof.
  induction xs as [|x xs IH]; intros m; cbn [fold_left].
  - exists []. rewrite app_nil_r. reflexivity.
  - destruct (push_appends m x) as (e1 & H1). destruct (IH (push m x)) as (e2 & H2).
    exists ((x :: e1) ++ e2). rewrite H2, H1, app_assoc. reflexivity.
Qed.

(* the nodes of a chain are a prefix of the nodes of every extension of it:
   the node at a position depends only on the leaves before it *)
Theorem nodes_prefix l ext : exists extra, m_nodes (build (l ++ ext)) = m_nodes (build l) ++ extra.
Proof. unfold MMR.build. rewrite fold_left_app. apply fold_push_appends. Qed.

Corollary node_stable l ext p d :
  nth_error (m_nodes (build l)) p = Some d -> nth_error (m_nodes (build (l ++ ext))) p = Some d.
Proof.
  intros H. destruct (nodes_prefix l ext) as (e & He). rewrite He.
  rewrite nth_error_app1; [exact H|]. apply nth_error_Some. congruence.
Qed.

(* two chains with a common prefix share the nodes of that prefix: the stale
   nodes of an abandoned branch can only sit at positions at or above the size
   of the common part *)
Corollary fork_shares_prefix common a b p d :
  nth_error (m_nodes (build common)) p = Some d ->
  nth_error (m_nodes (build (common ++ a))) p = Some d /\
  nth_error (m_nodes (build (common ++ b))) p = Some d.
Proof. intros H. split; apply node_stable; exact H. Qed.

(* writing the nodes position by position *)
Lemma write_at_below (st : N -> option D) : forall nodes base p, (p < base)%N -> write_at D st base nodes p = st p.
Proof.
  intros nodes. revert st. induction nodes as [|x nodes IH]; intros st base p Hp; cbn [write_at]; [reflexivity|].
  rewrite IH by lia. destruct (N.eqb_spec p base); [lia|reflexivity].
Qed.

Lemma write_at_in (st : N -> option D) : forall nodes base i d,
  nth_error nodes i = Some d -> write_at D st base nodes (base + N.of_nat i)%N = Some d.
Proof.
  intros nodes. revert st. induction nodes as [|x nodes IH]; intros st base i d Hi; [destruct i; discriminate|].
  cbn [write_at]. destruct i as [|i]; cbn [nth_error] in Hi.
  - injection Hi as <-. rewrite write_at_below by lia. rewrite N.add_0_r, N.eqb_refl. reflexivity.
  - replace (base + N.of_nat (S i))%N with (N.succ base + N.of_nat i)%N by lia. apply IH. exact Hi.
Qed.

(* pushing the attached blocks onto a store never touches a position below
   the size at the fork point *)
Theorem reorg_keeps_common st n att st' p :
  reorg_store D merge st n att = Some st' -> (p < mmr_size n)%N -> st' p = st p.
Proof.
  unfold reorg_store. destruct (all_some D _); [|discriminate].
  intros E Hp. injection E as <-. apply write_at_below. exact Hp.
Qed.

(* ---------- peaks: heights, sizes, where their roots sit ------------------ *)
Definition heights (ps : peaks_t D) : list nat := map fst ps.
Fixpoint sum_pow (hs : list nat) : N := match hs with [] => 0%N | h :: t => (pow2 h + sum_pow t)%N end.
Fixpoint sum_size (hs : list nat) : N := match hs with [] => 0%N | h :: t => (tree_size h + sum_size t)%N end.

(* strictly increasing from the head (the stack has its lowest peak first) *)
Fixpoint incr (hs : list nat) : Prop :=
  match hs with [] => True | h :: t => (forall x, In x t -> h < x) /\ incr t end.
(* the same, except that the two topmost entries may be equal (a merge is pending) *)
Definition weak_incr (hs : list nat) : Prop :=
  match hs with
  | h1 :: h2 :: t => h1 <= h2 /\ incr (h2 :: t)
  | _ => True
  end.

Lemma pow2_pos h : (0 < pow2 h)%N.
Proof. unfold pow2. rewrite N.shiftl_1_l. assert (2 ^ N.of_nat h <> 0)%N by (apply N.pow_nonzero; discriminate). lia. Qed.
Lemma pow2_S h : pow2 (S h) = (2 * pow2 h)%N.
Proof. unfold pow2. rewrite !N.shiftl_1_l, Nat2N.inj_succ, N.pow_succ_r'. reflexivity. Qed.
Lemma pow2_mono a b : a <= b -> (pow2 a <= pow2 b)%N.
Proof. intros H. unfold pow2. rewrite !N.shiftl_1_l. apply N.pow_le_mono_r; lia. Qed.
Lemma tree_size_S h : tree_size (S h) = (2 * tree_size h + 1)%N.
Proof. unfold tree_size. rewrite (pow2_S (S h)). pose proof (pow2_pos (S h)). lia. Qed.
Lemma tree_size_pos h : (0 < tree_size h)%N.
Proof. unfold tree_size. rewrite pow2_S. pose proof (pow2_pos h). lia. Qed.

(* distinct powers below 2^h sum to less than 2^h *)
Lemma sum_pow_lt : forall hs h, incr hs -> (forall x, In x hs -> x < h) -> (sum_pow hs < pow2 h)%N.
Proof.
  intros hs h. revert hs. induction h as [|h IH]; intros hs Hi Hb.
  - destruct hs as [|x t]; [cbn [sum_pow]; apply pow2_pos|]. specialize (Hb x (or_introl eq_refl)). lia.
  - (* split off the entries equal to h: at most the last one *)
    assert (Hcase : (forall x, In x hs -> x < h) \/ exists hs', hs = hs' ++ [h] /\ (forall x, In x hs' -> x < h) /\ incr hs').
    { clear IH. induction hs as [|a t IHt]; [left; intros x []|].
      destruct Hi as [Ha Hi']. specialize (IHt Hi' (fun x Hx => Hb x (or_intror Hx))).
      destruct IHt as [Hall|(hs' & -> & Hlt & Hi'')].
      - destruct (Nat.eq_dec a h) as [->|Hne].
        + destruct t as [|b t']; [right; exists []; cbn; tauto|].
          exfalso. specialize (Ha b (or_introl eq_refl)). specialize (Hall b (or_introl eq_refl)). lia.
        + left. intros x [<-|Hx]; [specialize (Hb a (or_introl eq_refl)); lia|apply Hall; exact Hx].
      - right. exists (a :: hs'). split; [reflexivity|]. split.
        + intros x [<-|Hx]; [|apply Hlt; exact Hx].
          specialize (Ha h ltac:(apply in_or_app; right; left; reflexivity)). exact Ha.
        + split; [|exact Hi'']. intros x Hx. apply Ha. apply in_or_app. left. exact Hx. }
    rewrite pow2_S. destruct Hcase as [Hall|(hs' & -> & Hlt & Hi')].
    + specialize (IH hs Hi Hall). lia.
    + assert (Hsum : sum_pow (hs' ++ [h]) = (sum_pow hs' + pow2 h)%N).
      { clear. induction hs' as [|a t IHt]; cbn [app sum_pow]; [lia|]. rewrite IHt. lia. }
      rewrite Hsum. specialize (IH hs' Hi' Hlt). lia.
Qed.

(* peaks listed from the LEFT (highest first): strictly decreasing, all <= h *)
Fixpoint decr_below (h : nat) (hs : list nat) : Prop :=
  match hs with [] => True | a :: t => a <= h /\ match a with O => t = [] | S a' => decr_below a' t end end.

Lemma decr_below_weaken h h' hs : h <= h' -> decr_below h hs -> decr_below h' hs.
Proof. destruct hs as [|a t]; cbn; [tauto|]. intros H [Ha Hr]. split; [lia|exact Hr]. Qed.

Lemma decr_sum_lt : forall h hs, decr_below h hs -> (sum_pow hs < pow2 (S h))%N.
Proof.
  induction h as [|h IH]; intros hs Hd.
  - destruct hs as [|a t]; [cbn [sum_pow]; apply pow2_pos|]. cbn in Hd. destruct Hd as [Ha Hr].
    assert (a = 0) by lia. subst a t. cbn. unfold pow2. cbn. lia.
  - destruct hs as [|a t]; [cbn [sum_pow]; apply pow2_pos|]. cbn [decr_below] in Hd. destruct Hd as [Ha Hr].
    cbn [sum_pow]. destruct a as [|a'].
    + subst t. cbn [sum_pow]. pose proof (pow2_mono 0 (S (S h)) ltac:(lia)). pose proof (pow2_pos (S (S h))).
      rewrite (pow2_S (S h)). pose proof (pow2_mono 0 (S h) ltac:(lia)). unfold pow2 in *. cbn in *. lia.
    + assert (Hd' : decr_below h t) by (eapply decr_below_weaken; [|exact Hr]; lia).
      specialize (IH t Hd'). rewrite (pow2_S (S h)). pose proof (pow2_mono (S a') (S h) ltac:(lia)). lia.
Qed.

(* where the peak roots sit in the store, reading from the left *)
Fixpoint holds (store : N -> option D) (base : N) (lps : peaks_t D) : Prop :=
  match lps with
  | [] => True
  | (h, d) :: t => store (base + tree_size h - 1)%N = Some d /\ holds store (base + tree_size h)%N t
  end.

Definition lift (ps : peaks_t D) : list (nat * option D) := map (fun '(h, d) => (h, Some d)) ps.

Lemma all_some_lift ps : all_some D (lift ps) = Some ps.
Proof.
  induction ps as [|[h d] t IH]; [reflexivity|].
  unfold lift in *. cbn [map all_some fold_right] in *. unfold all_some in IH. rewrite IH. reflexivity.
Qed.

(* reading the peaks back by position finds exactly the peaks *)
Lemma peaks_at_spec store : forall h lps base acc,
  decr_below h (heights lps) -> holds store base lps ->
  peaks_at D store (sum_pow (heights lps)) h base (lift acc) = lift (rev lps ++ acc).
Proof.
  induction h as [|h IH]; intros lps base acc Hd Hh.
  - destruct lps as [|[a d] t].
    + cbn. reflexivity.
    + cbn [heights map fst decr_below] in Hd. destruct Hd as [Ha Hr]. assert (a = 0) by lia. subst a.
      destruct t; [|discriminate]. cbn [heights map fst sum_pow peaks_at]. destruct Hh as [Hs _].
      replace (pow2 0 + 0)%N with (pow2 0) by lia. rewrite N.leb_refl. cbn [snd]. rewrite Hs. reflexivity.
  - cbn [peaks_at]. destruct lps as [|[a d] t].
    + cbn [heights map sum_pow]. destruct (N.leb_spec (pow2 (S h)) 0) as [L|L]; [pose proof (pow2_pos (S h)); lia|].
      apply (IH [] base acc); cbn; tauto.
    + cbn [heights map fst decr_below] in Hd. destruct Hd as [Ha Hr].
      cbn [heights map fst sum_pow]. fold (heights t).
      destruct (Nat.eq_dec a (S h)) as [->|Hne].
      * (* the peak of this height is there *)
        assert (Hd' : decr_below h (heights t)) by exact Hr.
        destruct (N.leb_spec (pow2 (S h)) (pow2 (S h) + sum_pow (heights t))) as [L|L]; [|lia].
        destruct Hh as [Hs Hrest]. rewrite Hs.
        replace (pow2 (S h) + sum_pow (heights t) - pow2 (S h))%N with (sum_pow (heights t)) by lia.
        change ((S h, Some d) :: lift acc) with (lift ((S h, d) :: acc)).
        rewrite (IH t _ ((S h, d) :: acc) Hd' Hrest). cbn [rev]. rewrite <- app_assoc. reflexivity.
      * (* no peak of this height *)
        assert (Hd' : decr_below h (a :: heights t)).
        { cbn [decr_below]. split; [lia|exact Hr]. }
        pose proof (decr_sum_lt h (a :: heights t) Hd') as Hlt. cbn [sum_pow] in Hlt.
        destruct (N.leb_spec (pow2 (S h)) (pow2 a + sum_pow (heights t))) as [L|L]; [lia|].
        apply (IH ((a, d) :: t) base acc); [exact Hd'|exact Hh].
Qed.

(* ---------- the stack of peaks mirrors the stored nodes -------------------- *)
(* [peaks_ok ps nodes]: the node list is the concatenation of one perfect tree
   per peak (leftmost = last of the stack first); each peak's digest is the
   last node of its tree *)
Fixpoint peaks_ok (ps : peaks_t D) (nodes : list D) : Prop :=
  match ps with
  | [] => nodes = []
  | (h, d) :: rest => exists pre t, nodes = pre ++ t /\ N.of_nat (length t) = tree_size h /\
                                   nth_error t (length t - 1) = Some d /\ peaks_ok rest pre
  end.

Lemma peaks_ok_size ps : forall nodes, peaks_ok ps nodes -> N.of_nat (length nodes) = sum_size (heights ps).
Proof.
  induction ps as [|[h d] rest IH]; intros nodes H; cbn [peaks_ok heights map fst sum_size] in *.
  - subst. reflexivity.
  - destruct H as (pre & t & -> & Hl & _ & Hr). rewrite app_length, Nat2N.inj_add, (IH _ Hr), Hl.
    fold (heights rest). lia.
Qed.

Lemma sum_size_app a b : sum_size (a ++ b) = (sum_size a + sum_size b)%N.
Proof. induction a as [|x a IH]; cbn [app sum_size]; [lia|]. rewrite IH. lia. Qed.
Lemma sum_pow_app a b : sum_pow (a ++ b) = (sum_pow a + sum_pow b)%N.
Proof. induction a as [|x a IH]; cbn [app sum_pow]; [lia|]. rewrite IH. lia. Qed.

Lemma holds_app store : forall a base b,
  holds store base (a ++ b) <-> holds store base a /\ holds store (base + sum_size (heights a))%N b.
Proof.
  induction a as [|[h d] a IH]; intros base b; cbn [app holds heights map fst sum_size].
  - rewrite N.add_0_r. tauto.
  - rewrite IH. fold (heights a). replace (base + tree_size h + sum_size (heights a))%N
      with (base + (tree_size h + sum_size (heights a)))%N by lia. tauto.
Qed.

(* a store that contains the nodes (possibly with stale junk above) *)
Definition contains (store : N -> option D) (nodes : list D) : Prop :=
  forall i d, nth_error nodes i = Some d -> store (N.of_nat i) = Some d.

Lemma peaks_ok_holds store : forall ps nodes,
  peaks_ok ps nodes -> contains store nodes -> holds store 0 (rev ps).
Proof.
  induction ps as [|[h d] rest IH]; intros nodes Hok Hc; cbn [rev]; [exact I|].
  cbn [peaks_ok] in Hok. destruct Hok as (pre & t & -> & Hl & Hlast & Hr).
  apply holds_app. split.
  - apply (IH pre Hr). intros i x Hi. apply Hc. rewrite nth_error_app1; [exact Hi|].
    apply nth_error_Some. congruence.
  - cbn [holds]. split; [|exact I].
    assert (Hsz : sum_size (heights (rev rest)) = N.of_nat (length pre)).
    { rewrite (peaks_ok_size rest pre Hr). unfold heights. rewrite map_rev.
      generalize (map fst rest). intros l. induction l as [|x l IHl]; [reflexivity|].
      cbn [rev]. rewrite sum_size_app, IHl. cbn [sum_size]. lia. }
    rewrite Hsz, N.add_0_l.
    assert (Ht : (0 < length t)%nat) by (pose proof (tree_size_pos h); lia).
    replace (N.of_nat (length pre) + tree_size h - 1)%N with (N.of_nat (length pre + (length t - 1))) by lia.
    apply Hc. rewrite nth_error_app2 by lia. replace (length pre + (length t - 1) - length pre)%nat with (length t - 1)%nat by lia.
    exact Hlast.
Qed.

(* decreasing from the left = increasing on the stack *)
Lemma incr_decr : forall hs h, incr hs -> (forall x, In x hs -> x <= h) -> decr_below h (rev hs).
Proof.
  induction hs as [|a t IH] using rev_ind; intros h Hi Hb; [exact I|].
  rewrite rev_unit. cbn [decr_below].
  assert (Hia : incr t /\ forall x, In x t -> x < a).
  { clear IH Hb. induction t as [|b t IHt]; [split; [exact I|intros x []]|].
    cbn [app incr] in Hi. destruct Hi as [Hb Hi']. destruct (IHt Hi') as [H1 H2]. split.
    - split; [|exact H1]. intros x Hx. apply Hb. apply in_or_app. left. exact Hx.
    - intros x [<-|Hx]; [apply Hb; apply in_or_app; right; left; reflexivity|apply H2; exact Hx]. }
  destruct Hia as [Hit Hlt]. split; [apply Hb; apply in_or_app; right; left; reflexivity|].
  destruct a as [|a'].
  - destruct t as [|b t']; [reflexivity|]. specialize (Hlt b (or_introl eq_refl)). lia.
  - apply IH; [exact Hit|]. intros x Hx. specialize (Hlt x Hx). lia.
Qed.

(* ---------- invariant of the MMR under push -------------------------------- *)
Record Inv (m : mmr D) (n : N) : Prop := mkInv {
  inv_incr : incr (heights (m_peaks m));
  inv_sum : sum_pow (heights (m_peaks m)) = n;
  inv_ok : peaks_ok (m_peaks m) (m_nodes m)
}.

Lemma merge_up_inv : forall fuel ps nodes,
  (length ps <= fuel)%nat -> ps <> [] -> weak_incr (heights ps) -> peaks_ok ps nodes ->
  let '(ps', out) := merge_up fuel ps nodes in
  incr (heights ps') /\ sum_pow (heights ps') = sum_pow (heights ps) /\ peaks_ok ps' out /\ ps' <> [].
Proof.
  induction fuel as [|f IH]; intros ps nodes Hlen Hne Hw Hok.
  - destruct ps; [contradiction|cbn in Hlen; lia].
  - cbn [merge_up]. destruct ps as [|[h1 r] [|[h2 l] rest]]; [contradiction| |].
    + split; [cbn [heights map fst incr]; split; [intros x []|exact I]|].
      split; [reflexivity|]. split; [exact Hok|discriminate].
    + destruct (Nat.eqb_spec h1 h2) as [->|Hne12].
      * (* merge the two equal peaks *)
        cbn [heights map fst weak_incr incr] in Hw. destruct Hw as [_ [Hlt Hir]].
        assert (Hok' : peaks_ok ((S h2, merge l r) :: rest) (nodes ++ [merge l r])).
        { cbn [peaks_ok] in Hok. destruct Hok as (pre1 & t1 & -> & Hl1 & Hlast1 & (pre2 & t2 & -> & Hl2 & Hlast2 & Hr)).
          cbn [peaks_ok]. exists pre2, (t2 ++ t1 ++ [merge l r]). split; [rewrite <- !app_assoc; reflexivity|].
          split; [rewrite !app_length, !Nat2N.inj_add, Hl1, Hl2, tree_size_S; cbn [length]; lia|].
          split; [|exact Hr].
          rewrite !app_length. cbn [length]. rewrite nth_error_app2 by lia. rewrite nth_error_app2 by lia.
          replace (length t2 + (length t1 + 1) - 1 - length t2 - length t1)%nat with 0%nat by lia. reflexivity. }
        specialize (IH ((S h2, merge l r) :: rest) (nodes ++ [merge l r])).
        cbn [length] in Hlen. assert (Hlen' : (length ((S h2, merge l r) :: rest) <= f)%nat) by (cbn [length]; lia).
        assert (Hw' : weak_incr (heights ((S h2, merge l r) :: rest))).
        { cbn [heights map fst weak_incr]. destruct rest as [|[h3 d3] rest']; [exact I|].
          cbn [map fst]. split; [specialize (Hlt h3 (or_introl eq_refl)); lia|exact Hir]. }
        specialize (IH Hlen' ltac:(discriminate) Hw' Hok').
        destruct (merge_up f ((S h2, merge l r) :: rest) (nodes ++ [merge l r])) as [ps' out].
        destruct IH as (I1 & I2 & I3 & I4). split; [exact I1|]. split; [|split; assumption].
        rewrite I2. cbn [heights map fst sum_pow]. rewrite pow2_S. lia.
      * cbn [heights map fst weak_incr] in Hw. destruct Hw as [Hle Hi].
        split; [|split; [reflexivity|split; [exact Hok|discriminate]]].
        cbn [heights map fst incr]. cbn [incr] in Hi. destruct Hi as [Hlt Hir]. split; [|split; assumption].
        intros x [<-|Hx]; [lia|]. specialize (Hlt x Hx). lia.
Qed.

Lemma push_inv m n x : Inv m n -> Inv (push m x) (n + 1)%N.
Proof.
  intros [Hi Hs Hok]. unfold MMR.push, push_nodes.
  (* push_nodes works on the output list [x]; relate it to working on the whole node list *)
  assert (Hgen : forall fuel ps out pre,
             merge_up fuel ps (pre ++ out) =
             (fst (merge_up fuel ps out), pre ++ snd (merge_up fuel ps out))).
  { induction fuel as [|f IHf]; intros ps out pre; cbn [merge_up]; [reflexivity|].
    destruct ps as [|[h1 r] [|[h2 l] rest]]; try reflexivity.
    destruct (Nat.eqb h1 h2); [|reflexivity]. rewrite <- app_assoc. apply IHf. }
  pose proof (merge_up_inv (S (length (m_peaks m))) ((0, x) :: m_peaks m) (m_nodes m ++ [x])) as H.
  assert (Hw : weak_incr (heights ((0, x) :: m_peaks m))).
  { cbn [heights map fst weak_incr]. destruct (m_peaks m) as [|[h d] t]; [exact I|]. cbn [map fst]. split; [lia|exact Hi]. }
  assert (Hok0 : peaks_ok ((0, x) :: m_peaks m) (m_nodes m ++ [x])).
  { cbn [peaks_ok]. exists (m_nodes m), [x]. repeat split; try assumption. }
  specialize (H ltac:(cbn [length]; lia) ltac:(discriminate) Hw Hok0).
  rewrite Hgen in H.
  destruct (merge_up (S (length (m_peaks m))) ((0, x) :: m_peaks m) [x]) as [ps' out]. cbn [fst snd] in H.
  destruct H as (H1 & H2 & H3 & _). split; cbn [m_peaks m_nodes]; try assumption.
  rewrite H2. cbn [heights map fst sum_pow]. fold (heights (m_peaks m)). rewrite Hs.
  change (pow2 0) with 1%N. lia.
Qed.

Lemma build_inv l : Inv (build l) (N.of_nat (length l)).
Proof.
  unfold MMR.build. assert (H : forall xs m n, Inv m n -> Inv (fold_left push xs m) (n + N.of_nat (length xs))%N).
  { induction xs as [|x xs IH]; intros m n Hm; cbn [fold_left length]; [rewrite N.add_0_r; exact Hm|].
    replace (n + N.of_nat (S (length xs)))%N with (n + 1 + N.of_nat (length xs))%N by lia.
    apply IH. apply push_inv. exact Hm. }
  apply (H l m_empty 0%N). split; cbn; auto.
Qed.

(* heights are bounded by the number of leaves *)
Lemma sum_pow_bound : forall hs x, In x hs -> (pow2 x <= sum_pow hs)%N.
Proof.
  induction hs as [|a t IH]; intros x Hin; [destruct Hin|].
  cbn [sum_pow]. destruct Hin as [<-|Hx]; [lia|]. specialize (IH x Hx). lia.
Qed.

(* ---------- reading peaks and roots back from a store ----------------------- *)
Theorem peaks_read_back store l :
  (N.of_nat (length l) < pow2 (S hmax))%N -> contains store (m_nodes (build l)) ->
  all_some D (peaks_at D store (N.of_nat (length l)) hmax 0 []) = Some (m_peaks (build l)).
Proof.
  intros Hlen Hc. destruct (build_inv l) as [Hi Hs Hok].
  assert (Hb : forall x, In x (heights (m_peaks (build l))) -> x <= hmax).
  { intros x Hx. pose proof (sum_pow_bound _ x Hx) as H. rewrite Hs in H.
    destruct (Nat.le_gt_cases x hmax) as [L|L]; [exact L|]. exfalso.
    pose proof (pow2_mono (S hmax) x ltac:(lia)). lia. }
  pose proof (incr_decr _ hmax Hi Hb) as Hd.
  pose proof (peaks_ok_holds store _ _ Hok Hc) as Hh.
  pose proof (peaks_at_spec store hmax (rev (m_peaks (build l))) 0 [] ) as Hsp.
  unfold heights in Hsp at 1. rewrite map_rev in Hsp. specialize (Hsp Hd Hh).
  assert (Hsum : sum_pow (heights (rev (m_peaks (build l)))) = N.of_nat (length l)).
  { unfold heights. rewrite map_rev. rewrite <- Hs. unfold heights.
    generalize (map fst (m_peaks (build l))). intros hs. induction hs as [|a t IHt]; [reflexivity|].
    cbn [rev]. rewrite sum_pow_app, IHt. cbn [sum_pow]. lia. }
  rewrite Hsum in Hsp. change (@nil (nat * option D)) with (lift []).
  rewrite Hsp. rewrite rev_involutive, app_nil_r. apply all_some_lift.
Qed.

Corollary root_read_back store l :
  (N.of_nat (length l) < pow2 (S hmax))%N -> contains store (m_nodes (build l)) ->
  root_from_store D merge store (N.of_nat (length l)) = root D merge l.
Proof. intros H1 H2. unfold root_from_store, root. rewrite (peaks_read_back store l H1 H2). reflexivity. Qed.

(* ---------- reorganisations ------------------------------------------------ *)
Lemma mmr_size_from_spec : forall h hs sz,
  decr_below h hs -> mmr_size_from (sum_pow hs) h sz = (sz + sum_size hs)%N.
Proof.
  induction h as [|h IH]; intros hs sz Hd.
  - destruct hs as [|a t].
    + cbn. lia.
    + cbn [decr_below] in Hd. destruct Hd as [Ha Hr]. assert (a = 0) by lia. subst a.
      destruct t; [|discriminate]. cbn [sum_pow sum_size mmr_size_from].
      replace (pow2 0 + 0)%N with (pow2 0) by lia. rewrite N.leb_refl. lia.
  - cbn [mmr_size_from]. destruct hs as [|a t].
    + cbn [sum_pow sum_size]. destruct (N.leb_spec (pow2 (S h)) 0) as [L|L]; [pose proof (pow2_pos (S h)); lia|].
      pose proof (IH [] sz I) as H0. cbn [sum_pow sum_size] in H0. exact H0.
    + cbn [decr_below] in Hd. destruct Hd as [Ha Hr]. cbn [sum_pow sum_size].
      destruct (Nat.eq_dec a (S h)) as [->|Hne].
      * destruct (N.leb_spec (pow2 (S h)) (pow2 (S h) + sum_pow t)) as [L|L]; [|lia].
        replace (pow2 (S h) + sum_pow t - pow2 (S h))%N with (sum_pow t) by lia.
        pose proof (IH t (sz + tree_size (S h))%N Hr) as H0. rewrite H0. lia.
      * assert (Hd' : decr_below h (a :: t)) by (cbn [decr_below]; split; [lia|exact Hr]).
        pose proof (decr_sum_lt h (a :: t) Hd') as Hlt. cbn [sum_pow] in Hlt.
        destruct (N.leb_spec (pow2 (S h)) (pow2 a + sum_pow t)) as [L|L]; [lia|].
        pose proof (IH (a :: t) sz Hd') as H0. cbn [sum_pow sum_size] in H0. exact H0.
Qed.

Lemma sum_size_rev hs : sum_size (rev hs) = sum_size hs.
Proof. induction hs as [|a t IH]; [reflexivity|]. cbn [rev]. rewrite sum_size_app, IH. cbn [sum_size]. lia. Qed.
Lemma sum_pow_rev hs : sum_pow (rev hs) = sum_pow hs.
Proof. induction hs as [|a t IH]; [reflexivity|]. cbn [rev]. rewrite sum_pow_app, IH. cbn [sum_pow]. lia. Qed.

(* mmr_size of the crate = number of nodes of the model *)
Theorem mmr_size_is_node_count l :
  (N.of_nat (length l) < pow2 (S hmax))%N ->
  mmr_size (N.of_nat (length l)) = N.of_nat (length (m_nodes (build l))).
Proof.
  intros Hlen. destruct (build_inv l) as [Hi Hs Hok].
  assert (Hb : forall x, In x (heights (m_peaks (build l))) -> x <= hmax).
  { intros x Hx. pose proof (sum_pow_bound _ x Hx) as H. rewrite Hs in H.
    destruct (Nat.le_gt_cases x hmax) as [L|L]; [exact L|]. exfalso.
    pose proof (pow2_mono (S hmax) x ltac:(lia)). lia. }
  pose proof (incr_decr _ hmax Hi Hb) as Hd.
  unfold mmr_size. rewrite <- Hs, <- sum_pow_rev.
  rewrite (mmr_size_from_spec hmax _ 0%N Hd). rewrite sum_size_rev, (peaks_ok_size _ _ Hok). lia.
Qed.

(* what a push appends depends on the peaks only *)
Lemma fold_push_indep : forall xs p n1 n2,
  m_peaks (fold_left push xs (mkM p n1)) = m_peaks (fold_left push xs (mkM p n2)) /\
  exists extra, m_nodes (fold_left push xs (mkM p n1)) = n1 ++ extra /\
                m_nodes (fold_left push xs (mkM p n2)) = n2 ++ extra.
Proof.
  induction xs as [|x xs IH]; intros p n1 n2; cbn [fold_left].
  - split; [reflexivity|]. exists []. rewrite !app_nil_r. split; reflexivity.
  - assert (Hpush : forall n0, push (mkM p n0) x = mkM (fst (push_nodes D merge p x)) (n0 ++ snd (push_nodes D merge p x))).
    { intros n0. unfold MMR.push. cbn [m_peaks m_nodes]. destruct (push_nodes D merge p x); reflexivity. }
    rewrite !Hpush. destruct (push_nodes D merge p x) as [p' out]. cbn [fst snd].
    destruct (IH p' (n1 ++ out) (n2 ++ out)) as (Hp & e & H1 & H2).
    split; [exact Hp|]. exists (out ++ e). rewrite H1, H2, !app_assoc. split; reflexivity.
Qed.

(* After a reorganisation that resumes at the fork point and pushes the digests
   of the attached blocks, the store contains the MMR of the new main chain
   (whatever stale nodes of the abandoned branch were there before). *)
Theorem reorg_is_build store common att :
  (N.of_nat (length (common ++ att)) < pow2 (S hmax))%N ->
  contains store (m_nodes (build common)) ->
  exists st', reorg_store D merge store (N.of_nat (length common)) att = Some st' /\
              contains st' (m_nodes (build (common ++ att))).
Proof.
  intros Hlen Hc.
  assert (Hlc : (N.of_nat (length common) < pow2 (S hmax))%N) by (rewrite app_length in Hlen; lia).
  unfold reorg_store. rewrite (peaks_read_back store common Hlc Hc).
  eexists. split; [reflexivity|].
  unfold MMR.build at 2. rewrite fold_left_app. fold (build common).
  destruct (fold_push_indep att (m_peaks (build common)) [] (m_nodes (build common))) as (_ & e & H1 & H2).
  destruct (build common) as [pc nc] eqn:Eb. cbn [m_peaks m_nodes] in *.
  rewrite H1, H2. cbn [app].
  rewrite (mmr_size_is_node_count common Hlc), Eb. cbn [m_nodes].
  intros i d Hi. destruct (Nat.lt_ge_cases i (length nc)) as [L|L].
  - rewrite write_at_below by lia. apply Hc. rewrite nth_error_app1 in Hi by exact L. exact Hi.
  - rewrite nth_error_app2 in Hi by exact L.
    replace (N.of_nat i) with (N.of_nat (length nc) + N.of_nat (i - length nc))%N by lia.
    apply write_at_in. exact Hi.
Qed.

(* hence the root served for every prefix of the new main chain is the root of
   that prefix: stale nodes never show *)
Theorem roots_after_reorg store common att k :
  (N.of_nat (length (common ++ att)) < pow2 (S hmax))%N ->
  contains store (m_nodes (build common)) ->
  k <= length (common ++ att) ->
  exists st', reorg_store D merge store (N.of_nat (length common)) att = Some st' /\
              root_from_store D merge st' (N.of_nat k) = root D merge (firstn k (common ++ att)).
Proof.
  intros Hlen Hc Hk. destruct (reorg_is_build store common att Hlen Hc) as (st' & Hr & Hcont).
  exists st'. split; [exact Hr|].
  set (main := common ++ att) in *.
  assert (Hkl : length (firstn k main) = k) by (rewrite firstn_length; lia).
  rewrite <- Hkl at 1. apply root_read_back.
  - rewrite Hkl. lia.
  - intros i d Hi. apply Hcont.
    rewrite <- (firstn_skipn k main). destruct (nodes_prefix (firstn k main) (skipn k main)) as (e & He).
    rewrite He. rewrite nth_error_app1; [exact Hi|]. apply nth_error_Some. congruence.
Qed.
End Proofs.

(* non-vacuity: a store holding the MMR of 0-1-2-3-4 (five leaves) plus stale
   nodes, reorganised at the fork point after leaf 2 onto three other blocks *)
Definition ex_leaf (i : N) : ndig := (i, i, 10%N).
Definition ex_common : list ndig := [ex_leaf 0; ex_leaf 1; ex_leaf 2].
Definition ex_old : list ndig := [ex_leaf 3; ex_leaf 4].
Definition ex_new : list ndig := [(3, 3, 7)%N; (4, 4, 7)%N; (5, 5, 7)%N].
Definition ex_store := write_at ndig (fun _ => None) 0%N (m_nodes (build ndig nmerge (ex_common ++ ex_old))).
Lemma ex_contains : contains ndig ex_store (m_nodes (build ndig nmerge ex_common)).
Proof.
  intros i d H. do 4 (destruct i as [|i]; [vm_compute in H; injection H as <-; reflexivity|]).
  vm_compute in H. destruct i; discriminate.
Qed.
Lemma ex_reorg_roots :
  match reorg_store ndig nmerge ex_store 3%N ex_new with
  | Some st' => root_from_store ndig nmerge st' 6%N = Some (0, 5, 51)%N /\
                root_from_store ndig nmerge st' 4%N = Some (0, 3, 37)%N /\
                root_from_store ndig nmerge st' 3%N = Some (0, 2, 30)%N
  | None => False
  end.
Proof. vm_compute. repeat split; reflexivity. Qed.

(* ---- the end of a parent's span -------------------------------------------------- *)
(* four leaves, the compact target changes between leaf 1 and leaf 2 (a difficulty adjustment inside the
   right subtree's left neighbour ... ) : with the end target taken from the right child's START the root
   over leaves 0..3 ends on the target of leaf 2's epoch start, not on leaf 3's *)
Definition ex_fleaf (i target : N) : fdig := ((i, i, 10%N), (i / 2, 100 + i, target)%N, (i / 2, 100 + i, target)%N).
Definition ex_fleaves : list fdig := [ex_fleaf 0 50; ex_fleaf 1 50; ex_fleaf 2 60; ex_fleaf 3 70].
Lemma merge_end_target_from_start_refuted :
  root fdig fmerge ex_fleaves = Some ((0, 3, 40), (0, 100, 50), (1, 103, 70))%N /\
  root fdig fmerge_end_target_from_start ex_fleaves
    = Some ((0, 3, 40), (0, 100, 50), (1, 103, 60))%N.
Proof. vm_compute. split; reflexivity. Qed.
