(* Chain/ProposalSkip.v — the variant of update_proposal_table that does not re-insert attached blocks
   verified earlier (a reorganisation back to a branch that was the main chain before: the first
   fork.verified_len() attached blocks), and why it is wrong.  reconcile_main_chain rightly skips
   re-VERIFYING those blocks; the proposal table must still get them, because the detach that made the
   other branch the main chain removed their heights. *)
From CKB Require Import Chain.Proposal.
Local Open Scope N_scope.

Definition update_table_skip (k : nat) (w : window) (t : table) (old_tip common : nat) (ch' : chain) : table :=
  let new_tip := tip_of ch' in
  let t1 := remove_range (S common) (old_tip - common) t in
  let t2 := insert_from ch' (S common + k) (new_tip - common - k) t1 in
  if Nat.ltb common old_tip then
    let detached_front := S common in
    if Nat.ltb detached_front 2 then t2
    else
      let p_start := Nat.max 1 ((new_tip + 1) - w_far w) in
      insert_from ch' p_start (S common - p_start) t2
  else t2.

Definition reorg_skip (k : nat) (w : window) (s : pstate) (common : nat) (blocks : list (list N))
  : pstate * list N :=
  let ch' := reorg_chain (p_chain s) common blocks in
  let t1 := update_table_skip k w (p_table s) (tip_of (p_chain s)) common ch' in
  let '(t2, removed, v) := finalize w t1 (p_view s) (tip_of ch') in
  (mkP ch' t2 v, removed).

Lemma update_table_skip_0 : forall w t old_tip common ch',
  update_table_skip 0 w t old_tip common ch' = update_table w t old_tip common ch'.
Proof. intros. unfold update_table_skip, update_table. rewrite Nat.add_0_r, Nat.sub_0_r. reflexivity. Qed.

(* A: 1..3 proposing 1, 2, 3; B: four blocks from genesis take over; back to A with two new blocks *)
Definition ex_w : window := mkW 2 10.
Definition ex_a : list (list N) := [[1]; [2]; [3]].
Definition ex_b : list (list N) := [[11]; [12]; [13]; [14]].
Definition ex_a' : list (list N) := ex_a ++ [[4]; [5]].
Definition ex_s2 : pstate := fst (reorg ex_w (fst (reorg ex_w (genesis_state []) 0 ex_a)) 0 ex_b).

Lemma skip_verified_refuted :
  let good := fst (reorg ex_w ex_s2 0 ex_a') in
  let bad := fst (reorg_skip 3 ex_w ex_s2 0 ex_a') in
  p_chain bad = p_chain good /\
  canon (set_spec ex_w (p_chain good)) = [1; 2; 3; 4] /\
  canon (v_set (p_view good)) = [1; 2; 3; 4] /\
  canon (v_set (p_view bad)) = [4].
Proof. vm_compute. repeat split. Qed.
