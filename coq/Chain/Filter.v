(* Chain/Filter.v — executable model of the block-filter builder's pass
   (block-filter/src/filter.rs build_filter_data / build_filter_data_for_block):
   where it restarts after the main chain changed, which blocks it builds, and
   the filter-hash chain fh(b) = H(fh(parent b), H(data b)).  No proofs here. *)
From Coq Require Export List NArith Arith Bool Lia.
Export ListNotations.

Section Filter.
Variable parent : N -> N.          (* block id -> parent id; genesis is 0 *)
Variable num : N -> nat.           (* block number *)
Variable H2 : N -> N -> N.         (* calc_filter_hash(parent filter hash, filter data of the block) as a function of (parent hash, block) *)

Definition main_t := list N.       (* main chain: ids by height *)
Definition on_main (main : main_t) (b : N) : bool :=
  match nth_error main (num b) with Some x => N.eqb x b | None => false end.

Record fst := mkFst {
  fh : N -> option N;              (* COLUMN_BLOCK_FILTER_HASH *)
  latest : option N                (* META_LATEST_BUILT_FILTER_DATA_KEY *)
}.

(* walk up from a block off the main chain to the first block whose parent is on it *)
Fixpoint first_off (main : main_t) (fuel : nat) (b : N) : N :=
  match fuel with
  | O => b
  | S f => if on_main main (parent b) then b else first_off main f (parent b)
  end.

Definition start_number (main : main_t) (s : fst) : nat :=
  match latest s with
  | None => 0
  | Some b => if on_main main b then S (num b) else num (first_off main (num b) b)
  end.

(* build_filter_data_for_block; None = the `expect("parent block filter data stored")` would panic *)
Definition build_one (s : fst) (b : N) : option fst :=
  match fh s b with
  | Some _ => Some s                                   (* already exists: skip *)
  | None =>
    let pf := if N.eqb b 0 then Some 0%N else fh s (parent b) in
    match pf with
    | None => None
    | Some p => Some (mkFst (fun x => if N.eqb x b then Some (H2 p b) else fh s x) (Some b))
    end
  end.

Fixpoint build_from (s : fst) (bs : list N) : option fst :=
  match bs with
  | [] => Some s
  | b :: bs' => match build_one s b with None => None | Some s' => build_from s' bs' end
  end.

Definition build_pass (main : main_t) (s : fst) : option fst :=
  build_from s (skipn (start_number main s) main).

(* the specification: the filter hash of a block is a function of its ancestry *)
Fixpoint fh_spec (fuel : nat) (b : N) : N :=
  match fuel with
  | O => H2 0%N b
  | S f => if N.eqb b 0 then H2 0%N b else H2 (fh_spec f (parent b)) b
  end.
End Filter.
