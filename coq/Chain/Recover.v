(* Chain/Recover.v — the start-up scan of chain/src/init_load_unverified.rs:
   find_unverified_blocks walks the heights start..=end; at each height the
   stored blocks without a BlockExt (find_unverified_block_hashes: the
   COLUMN_NUMBER_HASH rows of that height, in hash order, filtered) are
   submitted again; the walk returns at the first height above the tip that has
   none.  A submitted block gets its record when its parent has one (it goes
   through the normal import pipeline).  No proofs in this file. *)
From Coq Require Export List NArith Arith Bool Lia.
Export ListNotations.

Definition is_nil {A} (l : list A) : bool := match l with [] => true | _ => false end.

(* [unv h]: ids of the stored-but-unverified blocks at height h, in hash order *)
Fixpoint scan_from (unv : nat -> list N) (tip : nat) (n fuel : nat) : list N :=
  match fuel with
  | O => []
  | S f => if Nat.ltb tip n && is_nil (unv n) then []
           else unv n ++ scan_from unv tip (S n) f
  end.
Definition scan (unv : nat -> list N) (tip start fin : nat) : list N :=
  scan_from unv tip start (S fin - start).

(* which of the submitted blocks end up with a record: parents first (the scan
   goes up by height), a block is verified when its parent is *)
Fixpoint settle (parent : N -> N) (has_record : N -> bool) (subm : list N) (done : list N) : list N :=
  match subm with
  | [] => rev done
  | x :: r => if has_record (parent x) || existsb (N.eqb (parent x)) done
              then settle parent has_record r (x :: done) else settle parent has_record r done
  end.

(* ---- cases from the harness ------------------------------------------------ *)
Fixpoint alook {A} (l : list (N * A)) (k : N) : option A :=
  match l with [] => None | (k', v) :: r => if N.eqb k k' then Some v else alook r k end.
Fixpoint hlook (l : list (nat * list N)) (h : nat) : list N :=
  match l with [] => [] | (h', v) :: r => if Nat.eqb h h' then v else hlook r h end.
Fixpoint insert_n (x : N) (l : list N) : list N :=
  match l with [] => [x] | y :: r => if N.leb x y then x :: l else y :: insert_n x r end.
Definition sort_n (l : list N) : list N := fold_right insert_n [] l.
Fixpoint list_eqb_n (a b : list N) : bool :=
  match a, b with [], [] => true | x :: a', y :: b' => N.eqb x y && list_eqb_n a' b' | _, _ => false end.

Record rcase := mkRC {
  rc_unv : list (nat * list N);        (* before the recovery: height -> stored blocks without a record (hash order) *)
  rc_parent : list (N * N);            (* parent of each of them *)
  rc_recorded : list N;                (* blocks that have a record before the recovery (parents of the above, where they do) *)
  rc_tip : nat; rc_start : nat; rc_end : nat;
  rc_picked : list N                   (* observed: which of them have a record after the recovery *)
}.
Definition check_rcase (c : rcase) : bool :=
  let subm := scan (hlook (rc_unv c)) (rc_tip c) (rc_start c) (rc_end c) in
  let parent x := match alook (rc_parent c) x with Some p => p | None => 0%N end in
  let picked := settle parent (fun i => existsb (N.eqb i) (rc_recorded c)) subm [] in
  list_eqb_n (sort_n picked) (sort_n (rc_picked c)).
