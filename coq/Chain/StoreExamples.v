(* non-vacuity for the C02 theorems: a concrete valid chain with an in-block
   create-and-spend, and a competing branch that re-commits a transaction *)
From CKB Require Import Chain.Store Chain.StoreProofs.
Local Open Scope N_scope.

Definition g0 : sblock := mkSB 0 0 [mkTx 1 [] 1; mkTx 2 [] 2] [].
(* block 1: cellbase 10; tx 11 spends (2,0) creating 2 cells; tx 12 spends (11,1) created in this block *)
Definition b1 : sblock := mkSB 1 1 [mkTx 10 [] 0; mkTx 11 [(2, 0%nat)] 2; mkTx 12 [(11, 1%nat)] 1] [].
Definition b2 : sblock := mkSB 2 2 [mkTx 20 [] 1; mkTx 21 [(12, 0%nat); (2, 1%nat)] 1] [].
(* competing block at height 1 committing the same tx 11 *)
Definition c1 : sblock := mkSB 3 1 [mkTx 30 [] 0; mkTx 11 [(2, 0%nat)] 2] [2].

Ltac nodup := repeat (constructor; [cbn; intuition congruence|]); try constructor.

Lemma ex_valid_on (s : store) (b : sblock) :
  NoDup (map txid (sbtxs b)) -> forallb (fun t => match txinfo s (txid t) with None => true | Some _ => false end) (sbtxs b) = true ->
  NoDup (spent_inputs b) ->
  forallb (fun k => match cells s k with Some _ => true | None => existsb (op_eqb k) (all_outputs b) end) (spent_inputs b) = true ->
  num2id s (sbnum b) = None -> id2num s (sbid b) = None -> NoDup (sbuncles b) ->
  forallb (fun u => negb (uncles s u)) (sbuncles b) = true -> valid_on s b.
Proof.
  intros H1 H2 H3 H4 H5 H6 H7 H8. split; try assumption.
  - intros t Ht. rewrite forallb_forall in H2. specialize (H2 t Ht). destruct (txinfo s (txid t)); [discriminate|reflexivity].
  - intros k Hk. rewrite forallb_forall in H4. specialize (H4 k Hk).
    destruct (cells s k) as [m|]; [left; exists m; reflexivity|right].
    apply existsb_exists in H4. destruct H4 as (x & Hx & E). destruct (op_eqb_spec k x); [subst; exact Hx|discriminate].
  - intros u Hu. rewrite forallb_forall in H8. specialize (H8 u Hu). destruct (uncles s u); [discriminate|reflexivity].
Qed.

Lemma ex_chain_valid : valid_chain empty_store ([g0] ++ [b1; b2]).
Proof.
  cbn [app valid_chain]. split; [|split; [|split; [|exact I]]].
  - apply ex_valid_on; cbn; try reflexivity; nodup.
  - apply ex_valid_on; try (vm_compute; reflexivity); cbn; nodup.
  - apply ex_valid_on; try (vm_compute; reflexivity); cbn; nodup.
Qed.

Lemma ex_reorg_result :
  let s := reorg (replay ([g0] ++ [b1; b2])) [b1; b2] [c1] in
  cells s (2, 0%nat) = None /\ cells s (2, 1%nat) = Some (mkCM 0 1) /\
  cells s (11, 0%nat) = Some (mkCM 3 1) /\ cells s (12, 0%nat) = None /\
  txinfo s 11 = Some (mkTL 3 1) /\ txinfo s 12 = None /\ num2id s 1%nat = Some 3 /\ num2id s 2%nat = None /\
  uncles s 2 = true.
Proof. vm_compute. repeat split; reflexivity. Qed.
