(* Chain/Proposal.v — executable model of util/proposal-table/src/lib.rs
   (ProposalTable::{insert, remove, finalize}), of the callers that maintain
   it (chain/src/verify.rs update_proposal_table / reload_proposal_table,
   shared/src/shared_builder.rs init_proposal_table) and of the window walk of
   TwoPhaseCommitVerifier.  No proofs here. *)
From Coq Require Export List Arith NArith Lia Bool.
Export ListNotations.

(* the main chain, as far as proposals are concerned: element h is the union
   of the proposal ids of the block at height h and of its uncles
   (BlockView::union_proposal_ids); element 0 is the genesis block *)
Definition chain := list (list N).
Definition props_at (ch : chain) (h : nat) : list N := nth h ch [].
Definition tip_of (ch : chain) : nat := length ch - 1.

(* BTreeMap<BlockNumber, HashSet<ProposalShortId>> *)
Definition table := nat -> option (list N).
Definition t_empty : table := fun _ => None.
Definition t_insert (n : nat) (ids : list N) (t : table) : table :=
  fun k => if Nat.eqb k n then Some ids else t k.
Definition t_remove (n : nat) (t : table) : table :=
  fun k => if Nat.eqb k n then None else t k.
Definition t_split_off (start : nat) (t : table) : table :=
  fun k => if Nat.ltb k start then None else t k.
(* range(lo ..= hi), flat-mapped *)
Definition t_range (t : table) (lo hi : nat) : list N :=
  flat_map (fun k => match t k with Some ids => ids | None => [] end)
           (seq lo (S hi - lo)).

Record view := mkView { v_gap : list N; v_set : list N }.
Definition view_empty := mkView [] [].

Record window := mkW { w_close : nat; w_far : nat }.

Definition mem (x : N) (l : list N) : bool := existsb (N.eqb x) l.

(* ProposalTable::finalize(origin, number) = (removed ids, new view), and the
   table after the split_off *)
Definition finalize (w : window) (t : table) (origin : view) (number : nat)
  : table * list N * view :=
  let c := number + 1 in
  let p_start := c - w_far w in
  let p_end := c - w_close w in
  let t' := if Nat.ltb 1 p_start then t_split_off p_start t else t in
  let '(new_ids, gap) :=
    if Nat.leb c (w_close w) then ([], t_range t' 0 number)
    else (t_range t' p_start p_end, t_range t' (S p_end) number) in
  let removed := filter (fun x => negb (mem x new_ids)) (v_set origin) in
  (t', removed, mkView gap new_ids).

(* ---- the chain service's maintenance ----------------------------------- *)
(* one VerifyCommit that made [attached] (heights common+1 ..) canonical after
   detaching everything above [common] from a main chain whose tip was
   [old_tip].  [ch'] is the NEW main chain (reload reads the store after the
   commit). *)
Fixpoint remove_range (lo n : nat) (t : table) : table :=
  match n with
  | 0 => t
  | S n' => remove_range (S lo) n' (t_remove lo t)
  end.

Fixpoint insert_from (ch : chain) (lo n : nat) (t : table) : table :=
  match n with
  | 0 => t
  | S n' => insert_from ch (S lo) n' (t_insert lo (props_at ch lo) t)
  end.

Definition update_table (w : window) (t : table) (old_tip common : nat) (ch' : chain) : table :=
  let new_tip := tip_of ch' in
  (* detached: heights common+1 ..= old_tip; attached: common+1 ..= new_tip *)
  let t1 := remove_range (S common) (old_tip - common) t in
  let t2 := insert_from ch' (S common) (new_tip - common) t1 in
  if Nat.ltb common old_tip then            (* fork.has_detached() *)
    let detached_front := S common in
    if Nat.ltb detached_front 2 then t2
    else
      let p_start := Nat.max 1 ((new_tip + 1) - w_far w) in
      insert_from ch' p_start (S common - p_start) t2
  else t2.

Record pstate := mkP { p_chain : chain; p_table : table; p_view : view }.

Definition genesis_state (g : list N) : pstate := mkP [g] t_empty view_empty.

(* a reorganisation: keep heights 0..common of the main chain, attach [blocks] *)
Definition reorg_chain (ch : chain) (common : nat) (blocks : list (list N)) : chain :=
  firstn (S common) ch ++ blocks.

Definition reorg (w : window) (s : pstate) (common : nat) (blocks : list (list N))
  : pstate * list N :=
  let ch' := reorg_chain (p_chain s) common blocks in
  let t1 := update_table w (p_table s) (tip_of (p_chain s)) common ch' in
  let '(t2, removed, v) := finalize w t1 (p_view s) (tip_of ch') in
  (mkP ch' t2 v, removed).

(* SharedBuilder::init_proposal_table *)
Definition init_table (w : window) (ch : chain) : table * view :=
  let tip := tip_of ch in
  let p_start := tip - w_far w in
  let t := insert_from ch p_start (S tip - p_start) t_empty in
  let '(t', _, v) := finalize w t view_empty tip in
  (t', v).

(* ---- specification ----------------------------------------------------- *)
(* heights lo..=hi restricted to >= 1 *)
Definition heights (lo hi : nat) : list nat := seq (Nat.max 1 lo) (S hi - Nat.max 1 lo).
Definition union_props (ch : chain) (hs : list nat) : list N := flat_map (props_at ch) hs.

Definition set_spec (w : window) (ch : chain) : list N :=
  let c := tip_of ch + 1 in
  if Nat.leb c (w_close w) then []
  else union_props ch (heights (c - w_far w) (c - w_close w)).
Definition gap_spec (w : window) (ch : chain) : list N :=
  let c := tip_of ch + 1 in
  if Nat.leb c (w_close w) then union_props ch (heights 0 (tip_of ch))
  else union_props ch (heights (S (c - w_close w)) (tip_of ch)).

(* ---- TwoPhaseCommitVerifier's walk for the block at height c ----------- *)
(* walks proposal_end, proposal_end-1, … down to proposal_start, stops at the
   genesis block *)
Fixpoint walk (ch : chain) (p_end p_start fuel : nat) (acc : list N) : list N :=
  match fuel with
  | 0 => acc
  | S f =>
    if Nat.ltb p_end p_start then acc
    else if Nat.eqb p_end 0 then acc
    else walk ch (p_end - 1) p_start f (acc ++ props_at ch p_end)
  end.
Definition verifier_window (w : window) (ch : chain) : list N :=
  let c := tip_of ch + 1 in
  walk ch (c - w_close w) (c - w_far w) (S c) [].

(* ---- observations for the correspondence check ------------------------- *)
Fixpoint insert_sorted (x : N) (l : list N) : list N :=
  match l with
  | [] => [x]
  | y :: l' => if N.ltb x y then x :: l else if N.eqb x y then l else y :: insert_sorted x l'
  end.
Definition canon (l : list N) : list N := fold_right insert_sorted [] l.

Inductive pop := PReorg (common : nat) (blocks : list (list N)) | PRestart.

Definition pstep (w : window) (s : pstate) (o : pop) : pstate * list N :=
  match o with
  | PReorg common blocks => reorg w s common blocks
  | PRestart => let '(t, v) := init_table w (p_chain s) in (mkP (p_chain s) t v, [])
  end.

(* per op: (canon set, canon gap) of the new view *)
Fixpoint prun (w : window) (s : pstate) (ops : list pop) : list (list N * list N) :=
  match ops with
  | [] => []
  | o :: ops' =>
    let '(s', _) := pstep w s o in
    (canon (v_set (p_view s')), canon (v_gap (p_view s'))) :: prun w s' ops'
  end.

Fixpoint list_eqb {A} (eqb : A -> A -> bool) (a b : list A) : bool :=
  match a, b with
  | [], [] => true
  | x :: a', y :: b' => eqb x y && list_eqb eqb a' b'
  | _, _ => false
  end.
Definition obs_eqb (a b : list N * list N) : bool :=
  list_eqb N.eqb (fst a) (fst b) && list_eqb N.eqb (snd a) (snd b).

(* a history on the real chain service: observed (set, gap) after every tip change / restart *)
Record pcase := mkPCase {
  pc_close : nat; pc_far : nat; pc_genesis : list N;
  pc_ops : list pop; pc_obs : list (list N * list N) }.
Definition check_pcase (c : pcase) : bool :=
  list_eqb obs_eqb (prun (mkW (pc_close c) (pc_far c)) (genesis_state (pc_genesis c)) (pc_ops c))
           (pc_obs c).

(* the ProposalTable API driven directly *)
Inductive top := TInsert (n : nat) (ids : list N) | TRemove (n : nat) | TFinalize (number : nat).
(* per TFinalize: (canon removed, canon set, canon gap) *)
Fixpoint trun (w : window) (t : table) (v : view) (ops : list top) : list (list N * list N * list N) :=
  match ops with
  | [] => []
  | TInsert n ids :: ops' => trun w (t_insert n ids t) v ops'
  | TRemove n :: ops' => trun w (t_remove n t) v ops'
  | TFinalize number :: ops' =>
    let '(t', removed, v') := finalize w t v number in
    (canon removed, canon (v_set v'), canon (v_gap v')) :: trun w t' v' ops'
  end.
Definition obs3_eqb (a b : list N * list N * list N) : bool :=
  let '(a1, a2, a3) := a in let '(b1, b2, b3) := b in
  list_eqb N.eqb a1 b1 && list_eqb N.eqb a2 b2 && list_eqb N.eqb a3 b3.
Record tcase := mkTCase { tc_close : nat; tc_far : nat; tc_ops : list top;
                          tc_obs : list (list N * list N * list N) }.
Definition check_tcase (c : tcase) : bool :=
  list_eqb obs3_eqb (trun (mkW (tc_close c) (tc_far c)) t_empty view_empty (tc_ops c)) (tc_obs c).
