(* Chain/CrashProofs.v — after any number of crashes at any points, once every
   block has been processed before the last crash or delivered after it, the
   node has the tip of a run that never crashed. *)
From Coq Require Import Arith.
From CKB Require Import Chain.ForkChoice Chain.ForkChoiceProofs Chain.Crash.
Local Open Scope N_scope.

Section Crash.
Variable g : N.
Variable ds : list block.
Hypothesis ids_consistent : forall b b', In b ds -> In b' ds -> bid b = bid b' -> b = b'.
Hypothesis ids_nonzero : forall b, In b ds -> bid b <> 0.

Notation DInv := (DInv g ds).

Lemma crash_inv seen d :
  DInv seen d -> DInv (filter (fun b => processed (dcore d) (bid b)) seen) (crash d).
Proof.
  intros [HC Hoi Hnd Hun Hset Hall Honly]. unfold crash. split; cbn [dcore dorph].
  - exact HC.
  - intros x [].
  - constructor.
  - intros o [].
  - intros o [].
  - intros b Hb. apply filter_In in Hb. left. apply Hb.
  - intros i Hi. destruct (Honly i Hi) as [?|(b & Hb & E)]; [left; assumption|].
    right. exists b. split; [|exact E]. apply filter_In. split; [exact Hb|]. rewrite E. exact Hi.
Qed.

Fixpoint delivered (ops : list cop) : list block :=
  match ops with [] => [] | CDeliver b :: ops' => b :: delivered ops' | CCrash :: ops' => delivered ops' end.

Lemma crun_inv : forall ops seen d,
  incl seen ds -> incl (delivered ops) ds -> DInv seen d ->
  DInv (cknown d seen ops) (crun d ops) /\ incl (cknown d seen ops) ds.
Proof.
  unfold crun. induction ops as [|o ops IH]; intros seen d Hseen Hdel HI; cbn [fold_left cknown].
  - split; assumption.
  - destruct o as [b|]; cbn [cstep delivered] in *.
    + apply IH.
      * intros x [<-|Hx]; [apply Hdel; left; reflexivity|apply Hseen; exact Hx].
      * intros x Hx. apply Hdel. right. exact Hx.
      * apply (deliver_inv g ds ids_consistent); [exact Hseen|apply Hdel; left; reflexivity|exact HI].
    + apply IH.
      * intros x Hx. apply filter_In in Hx. apply Hseen. apply Hx.
      * exact Hdel.
      * apply crash_inv. exact HI.
Qed.

(* two states that both know every block agree on the outcome *)
Lemma dinv_determines seen1 d1 seen2 d2 :
  DInv seen1 d1 -> DInv seen2 d2 ->
  (forall b, In b ds -> In b seen1) -> (forall b, In b ds -> In b seen2) ->
  ftip_td (dcore d1) = ftip_td (dcore d2) /\
  ((forall i inf, lookup (fknown (dcore d1)) i = Some inf -> icok inf = true ->
                  itd inf = ftip_td (dcore d1) -> i = ftip (dcore d1)) -> ftip (dcore d1) = ftip (dcore d2)).
Proof.
  intros HI1 HI2 Hcov1 Hcov2.
  pose proof (di_core _ _ _ _ HI1) as HC1. pose proof (di_core _ _ _ _ HI2) as HC2.
  destruct HC1 as (ps1 & Hp1 & Hs1 & Hin1). destruct HC2 as (ps2 & Hp2 & Hs2 & Hin2).
  assert (Hdir : forall (sa sb : fstate) psa psb seenb db,
            pfirst [0] psa -> sa = run (finit g) psa -> incl psa ds ->
            pfirst [0] psb -> sb = run (finit g) psb -> incl psb ds ->
            DInv seenb db -> dcore db = sb -> (forall b, In b ds -> In b seenb) ->
            forall b, In b psa -> In b psb).
  { intros sa sb psa psb seenb db Hpa Hsa Hina Hpb Hsb Hinb HIb Eb Hcovb b Hb.
    assert (Hbds : In b ds) by (apply Hina; exact Hb).
    assert (Hca : conn ds b).
    { apply (processed_conn g ds ids_consistent sa b); [exists psa; auto|exact Hbds| |apply ids_nonzero; exact Hbds].
      apply processed_true. rewrite (core_keys g sa psa Hpa Hsa). apply in_or_app. left.
      apply -> in_rev. apply in_map. exact Hb. }
    pose proof (conn_processed g ds seenb db HIb Hcovb b Hca) as Hpb'. rewrite Eb in Hpb'.
    apply processed_true in Hpb'. rewrite (core_keys g sb psb Hpb Hsb) in Hpb'.
    apply in_app_or in Hpb'. destruct Hpb' as [Hin|[E|[]]].
    - apply in_rev, in_map_iff in Hin. destruct Hin as (x & Ex & Hx).
      assert (x = b) by (apply ids_consistent; [apply Hinb; exact Hx|exact Hbds|exact Ex]).
      subst x. exact Hx.
    - exfalso. apply (ids_nonzero b Hbds). symmetry. exact E. }
  assert (Hsame : forall b, In b ps1 <-> In b ps2).
  { intros b. split.
    - apply (Hdir _ _ ps1 ps2 seen2 d2 Hp1 Hs1 Hin1 Hp2 Hs2 Hin2 HI2 eq_refl Hcov2).
    - apply (Hdir _ _ ps2 ps1 seen1 d1 Hp2 Hs2 Hin2 Hp1 Hs1 Hin1 HI1 eq_refl Hcov1). }
  destruct (order_independent g ps1 ps2 Hp1 Hp2 Hsame) as (_ & Htd & Htip).
  rewrite <- Hs1, <- Hs2 in Htd, Htip. split; [exact Htd|exact Htip].
Qed.

(* Crashes at any points, any number of them: if every block was processed
   before the last crash or is delivered after it, the node converges to the
   tip of any run that never crashed. *)
Theorem crash_converges ops sched :
  incl (delivered ops) ds ->
  (forall b, In b ds -> In b (cknown (d0 g) [] ops)) ->
  (forall b, In b sched <-> In b ds) ->
  let dc := crun (d0 g) ops in let dn := drun (d0 g) sched in
  ftip_td (dcore dc) = ftip_td (dcore dn) /\
  ((forall i inf, lookup (fknown (dcore dc)) i = Some inf -> icok inf = true ->
                  itd inf = ftip_td (dcore dc) -> i = ftip (dcore dc)) -> ftip (dcore dc) = ftip (dcore dn)).
Proof.
  intros Hdel Hknown Hsched dc dn.
  destruct (crun_inv ops [] (d0 g) ltac:(intros x []) Hdel (d0_inv g ds)) as [HIc _].
  assert (HIn : DInv (rev sched ++ []) dn).
  { apply (drun_inv g ds ids_consistent); [intros x []|intros x Hx; apply Hsched; exact Hx|apply d0_inv]. }
  apply (dinv_determines _ dc _ dn HIc HIn Hknown).
  intros b Hb. rewrite app_nil_r. apply -> in_rev. apply Hsched. exact Hb.
Qed.

(* the state right after a restart is a state a crash-free run could be in:
   the fork-choice invariant holds and nothing processed is forgotten *)
Theorem crash_state_consistent ops :
  incl (delivered ops) ds ->
  let dc := crun (d0 g) ops in
  FInv (dcore dc) /\
  exists ps, pfirst [0] ps /\ dcore dc = run (finit g) ps /\ incl ps ds.
Proof.
  intros Hdel dc.
  destruct (crun_inv ops [] (d0 g) ltac:(intros x []) Hdel (d0_inv g ds)) as [HIc _].
  destruct (di_core _ _ _ _ HIc) as (ps & Hp & Hs & Hin).
  split; [unfold dc; rewrite Hs; apply run_inv; apply finit_inv|]. exists ps. auto.
Qed.
End Crash.

From CKB Require Import Chain.ForkChoiceExamples.
Lemma ex_crash :
  let ops := [CDeliver (mkB 6 5 30 true); CDeliver (mkB 1 0 10 true); CCrash; CDeliver (mkB 4 1 30 true);
              CDeliver (mkB 5 4 30 false); CCrash; CDeliver (mkB 2 1 10 true); CDeliver (mkB 3 2 10 true);
              CDeliver (mkB 6 5 30 true)] in
  incl (delivered ops) ex_blocks /\ (forall b, In b ex_blocks -> In b (cknown (d0 100) [] ops)) /\
  ftip_td (dcore (crun (d0 100) ops)) = 140.
Proof.
  cbv zeta. split; [|split].
  - intros b Hb. cbn in Hb. cbn. tauto.
  - intros b Hb. vm_compute. cbn in Hb. tauto.
  - vm_compute. reflexivity.
Qed.
