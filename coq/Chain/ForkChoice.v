(* Chain/ForkChoice.v — executable model of the fork choice of
   chain/src/verify.rs (verify_block: accumulated difficulty, strict
   comparison cannon_total_difficulty > current_total_difficulty, a branch
   becomes canonical only if every block on it verifies) and of the delivery
   layer of chain/src/orphan_broker.rs (a block whose parent is not yet
   processed is held and released, parents first, when the parent arrives).

   Granularity: one [process] = one consume_unverified_blocks of the verify
   thread; one [deliver] = one asynchronous_process_block + the orphan
   broker's search_orphan_leaders.  Thread interleavings show up as the order
   in which blocks are processed; the code guarantees (FIFO channels, a child
   is queued only after its parent is stored or pending) that this order is
   parent-first, which is the only constraint the theorems put on it.

   No proofs in this file. *)
From Coq Require Export List NArith Bool Lia.
Export ListNotations.
Local Open Scope N_scope.

(* [bok] = the block passes non-contextual verification and contextual
   verification on top of its (fully attached) ancestry *)
Record block := mkB { bid : N; bpar : N; bdiff : N; bok : bool }.

(* what the node records for a processed block: BlockExt.total_difficulty and
   whether the whole chain down to genesis verified *)
Record info := mkI { itd : N; icok : bool }.
Definition known := list (N * info).

Fixpoint lookup (k : known) (i : N) : option info :=
  match k with
  | [] => None
  | (j, inf) :: k' => if N.eqb i j then Some inf else lookup k' i
  end.

Record fstate := mkF { fknown : known; ftip : N; ftip_td : N }.

(* genesis has id 0 *)
Definition finit (gtd : N) : fstate := mkF [(0, mkI gtd true)] 0 gtd.

Definition process (s : fstate) (b : block) : fstate :=
  match lookup (fknown s) (bid b) with
  | Some _ => s                                   (* already processed: a duplicate *)
  | None =>
    match lookup (fknown s) (bpar b) with
    | None => s                                   (* parent not processed: never happens for parent-first orders *)
    | Some p =>
      let td := itd p + bdiff b in
      let cok := icok p && bok b in
      let k' := (bid b, mkI td cok) :: fknown s in
      if cok && N.ltb (ftip_td s) td then mkF k' (bid b) td
      else mkF k' (ftip s) (ftip_td s)
    end
  end.

Definition run (s : fstate) (bs : list block) : fstate := fold_left process bs s.

(* ---- delivery with an orphan pool --------------------------------------- *)
Record dstate := mkD { dcore : fstate; dorph : list block }.

Definition processed (s : fstate) (i : N) : bool :=
  match lookup (fknown s) i with Some _ => true | None => false end.

(* release every orphan whose parent is processed, repeatedly (the code's
   remove_blocks_by_parent returns whole subtrees parents-first; here the
   repetition is bounded by the number of orphans) *)
Fixpoint release_pass (s : fstate) (orph : list block) : fstate * list block :=
  match orph with
  | [] => (s, [])
  | b :: rest =>
    if processed s (bpar b) then release_pass (process s b) rest
    else let '(s', kept) := release_pass s rest in (s', b :: kept)
  end.

Fixpoint release (fuel : nat) (s : fstate) (orph : list block) : fstate * list block :=
  match fuel with
  | O => (s, orph)
  | S f => let '(s', kept) := release_pass s orph in
           if Nat.eqb (length kept) (length orph) then (s', kept) else release f s' kept
  end.

Definition deliver (d : dstate) (b : block) : dstate :=
  if processed (dcore d) (bid b) then d                       (* duplicate of a processed block *)
  else if processed (dcore d) (bpar b) then
    let s1 := process (dcore d) b in
    let '(s2, kept) := release (S (length (dorph d))) s1 (dorph d) in
    mkD s2 kept
  else if existsb (fun o => N.eqb (bid o) (bid b)) (dorph d) then d   (* duplicate orphan *)
  else mkD (dcore d) (b :: dorph d).

Definition drun (d : dstate) (bs : list block) : dstate := fold_left deliver bs d.

(* ---- observations for the correspondence check -------------------------- *)
(* after each delivery: tip total difficulty, number of orphans *)
Fixpoint dobs (d : dstate) (bs : list block) : list (N * N) :=
  match bs with
  | [] => []
  | b :: bs' => let d' := deliver d b in
                (ftip_td (dcore d'), N.of_nat (length (dorph d'))) :: dobs d' bs'
  end.

Fixpoint list_eqb {A} (eqb : A -> A -> bool) (a b : list A) : bool :=
  match a, b with
  | [], [] => true
  | x :: a', y :: b' => eqb x y && list_eqb eqb a' b'
  | _, _ => false
  end.

(* a delivery schedule on a real node, observed at quiescence after each
   delivery; [fc_tip] is the final tip id as the harness numbers blocks, or
   None when the model says the maximum is attained twice (tie) *)
Record fcase := mkFCase {
  fc_gtd : N; fc_sched : list block;
  fc_obs : list (N * N);         (* tip td, orphan count after each delivery *)
  fc_final_tip : N;
  fc_orphans : bool }.           (* compare the orphan counts too *)

Definition best_count (k : known) (td : N) : nat :=
  length (filter (fun '(_, inf) => icok inf && N.eqb (itd inf) td) k).

Definition check_fcase (c : fcase) : bool :=
  let d0 := mkD (finit (fc_gtd c)) [] in
  let d := drun d0 (fc_sched c) in
  list_eqb (fun a b => N.eqb (fst a) (fst b) && (negb (fc_orphans c) || N.eqb (snd a) (snd b)))
           (dobs d0 (fc_sched c)) (fc_obs c)
  && (if Nat.eqb (best_count (fknown (dcore d)) (ftip_td (dcore d))) 1
      then N.eqb (ftip (dcore d)) (fc_final_tip c) else true).
