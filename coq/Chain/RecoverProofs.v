(* Chain/RecoverProofs.v — what the start-up scan reaches and what it does not. *)
From CKB Require Import Chain.Recover.

Lemma scan_from_sound unv tip : forall fuel n x,
  In x (scan_from unv tip n fuel) -> exists h, n <= h < n + fuel /\ In x (unv h).
Proof.
  induction fuel as [|f IH]; intros n x H; cbn [scan_from] in H; [destruct H|].
  destruct (Nat.ltb tip n && is_nil (unv n)); [destruct H|].
  apply in_app_or in H as [H|H].
  - exists n. split; [lia|exact H].
  - destruct (IH (S n) x H) as (h & Hh & Hx). exists h. split; [lia|exact Hx].
Qed.

(* every height up to the tip is visited *)
Lemma scan_from_below unv tip : forall fuel n h x,
  n <= h -> h < n + fuel -> h <= tip -> In x (unv h) -> In x (scan_from unv tip n fuel).
Proof.
  induction fuel as [|f IH]; intros n h x H1 H2 H3 Hx; [lia|]. cbn [scan_from].
  destruct (Nat.ltb_spec tip n) as [L|L]; [lia|]. cbn [andb].
  apply in_or_app. destruct (Nat.eq_dec n h) as [->|Hne]; [left; exact Hx|].
  right. apply (IH (S n) h x); try lia; assumption.
Qed.

(* above the tip the walk goes on as long as every height has an unverified block *)
Lemma scan_from_contiguous unv tip : forall fuel n h x,
  n <= h -> h < n + fuel -> (forall m, n <= m <= h -> tip < m -> unv m <> []) ->
  In x (unv h) -> In x (scan_from unv tip n fuel).
Proof.
  induction fuel as [|f IH]; intros n h x H1 H2 Hne Hx; [lia|]. cbn [scan_from].
  assert (Hstop : Nat.ltb tip n && is_nil (unv n) = false).
  { destruct (Nat.ltb_spec tip n) as [L|L]; [|reflexivity]. cbn [andb].
    specialize (Hne n ltac:(lia) L). destruct (unv n); [contradiction|reflexivity]. }
  rewrite Hstop. apply in_or_app. destruct (Nat.eq_dec n h) as [->|Hd]; [left; exact Hx|].
  right. apply (IH (S n) h x); try lia; [|exact Hx]. intros m Hm. apply Hne. lia.
Qed.

Theorem scan_reaches unv tip start fin h x :
  start <= h <= fin -> In x (unv h) ->
  (forall m, start <= m <= h -> tip < m -> unv m <> []) ->
  In x (scan unv tip start fin).
Proof.
  intros Hh Hx Hne. unfold scan. apply (scan_from_contiguous unv tip _ start h x); try lia; assumption.
Qed.

Corollary scan_reaches_up_to_tip unv tip start fin h x :
  start <= h <= fin -> h <= tip -> In x (unv h) -> In x (scan unv tip start fin).
Proof. intros Hh Ht Hx. unfold scan. apply (scan_from_below unv tip _ start h x); try lia; assumption. Qed.

Theorem scan_only_unverified unv tip start fin x :
  In x (scan unv tip start fin) -> exists h, start <= h <= fin /\ In x (unv h).
Proof.
  unfold scan. intros H. apply scan_from_sound in H as (h & Hh & Hx). exists h. split; [lia|exact Hx].
Qed.

(* the finding: a stored-but-unverified block two heights above the tip, with only
   processed blocks at the height in between, is not submitted — whatever the range *)
Theorem scan_gap_refuted : forall fin,
  let unv := fun h => if Nat.eqb h 7 then [77%N] else [] in
  In 77%N (unv 7) /\ ~ In 77%N (scan unv 5 1 fin).
Proof.
  intros fin unv. split; [left; reflexivity|]. unfold scan. intros H.
  assert (G : forall fuel n, n <= 6 -> ~ In 77%N (scan_from unv 5 n fuel)).
  { induction fuel as [|f IH]; intros n Hn Hin; cbn [scan_from] in Hin; [exact Hin|].
    destruct (Nat.ltb_spec 5 n) as [L|L]; cbn [andb] in Hin.
    - assert (n = 6) by lia. subst n. cbn in Hin. exact Hin.
    - assert (E : unv n = []) by (unfold unv; destruct (Nat.eqb_spec n 7); [lia|reflexivity]).
      rewrite E in Hin. cbn in Hin. apply (IH (S n)); [lia|exact Hin]. }
  exact (G _ 1 ltac:(lia) H).
Qed.

(* an example where everything is reached: a side block below the tip and a run above it *)
Lemma scan_example :
  scan (fun h => match h with 3 => [30%N] | 6 => [60; 61]%N | 7 => [70%N] | _ => [] end) 5 1 100 = [30; 60; 61; 70]%N /\
  settle (fun x => match x with 30 => 2 | 60 => 5 | 61 => 55 | 70 => 60 | _ => 0 end)%N (fun i => N.leb i 5) [30; 60; 61; 70]%N [] = [30; 60; 70]%N.
Proof. split; vm_compute; reflexivity. Qed.

(* ---- the scan, exactly ------------------------------------------------------ *)
(* what is submitted is submitted for a reason: the walk got to its height *)
Lemma scan_from_exact unv tip : forall fuel n x,
  In x (scan_from unv tip n fuel) ->
  exists h, n <= h < n + fuel /\ In x (unv h) /\
            (forall m, n <= m <= h -> tip < m -> unv m <> []).
Proof.
  induction fuel as [|f IH]; intros n x H; cbn [scan_from] in H; [destruct H|].
  destruct (Nat.ltb tip n && is_nil (unv n)) eqn:Estop; [destruct H|].
  assert (Hn : tip < n -> unv n <> []).
  { intros L E. apply Nat.ltb_lt in L. rewrite L, E in Estop. discriminate. }
  apply in_app_or in H as [H|H].
  - exists n. split; [lia|]. split; [exact H|]. intros m Hm. replace m with n by lia. exact Hn.
  - destruct (IH (S n) x H) as (h & Hh & Hx & Hne). exists h. split; [lia|]. split; [exact Hx|].
    intros m Hm L. destruct (Nat.eq_dec m n) as [->|Hd]; [exact (Hn L)|]. apply Hne; [lia|exact L].
Qed.

(* InitLoadUnverified submits a block exactly when it is stored-but-unverified
   at a height of the range and no height from the start of the range up to its
   own that lies above the tip is without a stored-but-unverified block *)
Theorem scan_exact unv tip start fin x :
  In x (scan unv tip start fin) <->
  exists h, start <= h <= fin /\ In x (unv h) /\
            (forall m, start <= m <= h -> tip < m -> unv m <> []).
Proof.
  split.
  - unfold scan. intros H. apply scan_from_exact in H as (h & Hh & Hx & Hne).
    exists h. split; [lia|]. split; assumption.
  - intros (h & Hh & Hx & Hne). exact (scan_reaches unv tip start fin h x Hh Hx Hne).
Qed.
