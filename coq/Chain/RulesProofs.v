(* Chain/RulesProofs.v — the loops of the verifiers compute the declarative
   rules; a block that breaks a rule, and everything built on it, never becomes
   canonical and leaves the chain state untouched. *)
From Coq Require Import Sorting.Sorted Sorting.Permutation.
From CKB Require Import Chain.Rules Chain.ProposalProofs Chain.ForkChoice Chain.ForkChoiceProofs.
Local Open Scope N_scope.

(* ---------- past median time ---------------------------------------------- *)
Lemma insert_perm x l : Permutation (x :: l) (insert_n x l).
Proof.
  induction l as [|y l IH]; cbn [insert_n]; [reflexivity|].
  destruct (N.leb x y); [reflexivity|].
  rewrite perm_swap. constructor. exact IH.
Qed.
Lemma sort_perm l : Permutation l (sort_n l).
Proof.
  induction l as [|x l IH]; cbn [sort_n fold_right]; [constructor|].
  rewrite <- insert_perm. constructor. exact IH.
Qed.
Lemma insert_sorted x l : Sorted N.le l -> Sorted N.le (insert_n x l).
Proof.
  induction l as [|y l IH]; intros Hs; cbn [insert_n]; [repeat constructor|].
  destruct (N.leb_spec x y).
  - constructor; [exact Hs|constructor; exact H].
  - inversion Hs as [|? ? Hs' Hhd]; subst. constructor; [apply IH; exact Hs'|].
    destruct l as [|z l]; cbn [insert_n]; [constructor; lia|].
    destruct (N.leb_spec x z); constructor; [lia|]. inversion Hhd; subst. assumption.
Qed.
Lemma sort_sorted l : Sorted N.le (sort_n l).
Proof. induction l as [|x l IH]; cbn [sort_n fold_right]; [constructor|]. apply insert_sorted. exact IH. Qed.

Lemma sorted_nth_le l : Sorted N.le l -> forall i j, (i <= j < length l)%nat -> nth i l 0 <= nth j l 0.
Proof.
  intros Hs. apply Sorted_StronglySorted in Hs; [|intros a b c; lia].
  induction Hs as [|x l Hs IH Hall]; intros i j Hij; [cbn in Hij; lia|].
  destruct i as [|i], j as [|j]; cbn [nth length] in *.
  - lia.
  - rewrite Forall_forall in Hall. apply Hall. apply nth_In. lia.
  - lia.
  - apply IH. lia.
Qed.

(* the median is one of the timestamps; more than half of them are <= it and
   at least half of them are >= it *)
Theorem median_spec ts count :
  firstn count ts <> [] ->
  let l := firstn count ts in let m := median_time ts count in
  In m l /\
  exists s, Permutation l s /\ Sorted N.le s /\ m = nth (length l / 2) s 0 /\
            (forall i, (i <= length l / 2)%nat -> nth i s 0 <= m) /\
            (forall i, (length l / 2 <= i < length l)%nat -> m <= nth i s 0).
Proof.
  intros Hne. cbv zeta. unfold median_time. remember (firstn count ts) as l eqn:El. clear El.
  pose proof (sort_perm l) as Hp. pose proof (sort_sorted l) as Hs.
  assert (Hlen : length (sort_n l) = length l) by (symmetry; apply Permutation_length; exact Hp).
  assert (Hpos : (0 < length l)%nat) by (destruct l; [contradiction|cbn; lia]).
  assert (Hhalf : (length l / 2 < length l)%nat) by (apply Nat.div_lt; lia).
  rewrite Hlen. split.
  - eapply Permutation_in; [symmetry; exact Hp|]. apply nth_In. lia.
  - exists (sort_n l). split; [exact Hp|]. split; [exact Hs|]. split; [reflexivity|]. split.
    + intros i Hi. apply sorted_nth_le; [exact Hs|lia].
    + intros i Hi. apply sorted_nth_le; [exact Hs|lia].
Qed.

(* ---------- uncles ---------------------------------------------------------- *)
(* declarative rule for the i-th uncle given the ones before it in the block *)
Definition uncle_rule (c : uncle_ctx) (before : list uncle) (u : uncle) : Prop :=
  u_target_ok u = true /\ uc_block_epoch c = u_epoch u /\ u_number u < uc_block_number c /\
  ((exists v, In v before /\ u_id v = u_parent u /\ u_number v + 1 = u_number u /\
              (* the entry the map holds for that id is the latest one *) True)
   \/ descendant c u = true) /\
  (forall v, In v before -> u_id v <> u_id u) /\
  uc_known c (u_id u) = false /\ u_props_ok u = true /\ u_pow u = true.

Fixpoint uncles_rules (c : uncle_ctx) (before : list uncle) (us : list uncle) : Prop :=
  match us with
  | [] => True
  | u :: rest => uncle_rule c before u /\ uncles_rules c (u :: before) rest
  end.

Definition inc_of (before : list uncle) : list (N * N) := map (fun v => (u_id v, u_number v)) before.

Lemma alookup_some before k n :
  NoDup (map u_id before) ->
  alookup_n (inc_of before) k = Some n <-> exists v, In v before /\ u_id v = k /\ u_number v = n.
Proof.
  induction before as [|v before IH]; intros Hnd; cbn [inc_of map alookup_n].
  - split; [discriminate|intros (v & [] & _)].
  - cbn [map] in Hnd. inversion Hnd as [|? ? Hnot Hnd']; subst. fold (inc_of before).
    destruct (N.eqb_spec k (u_id v)) as [->|Hne].
    + split.
      * intros E. injection E as <-. exists v. split; [left; reflexivity|split; reflexivity].
      * intros (v' & [<-|Hin] & Eid & En); [congruence|].
        exfalso. apply Hnot. rewrite <- Eid. apply in_map. exact Hin.
    + rewrite (IH Hnd'). split; intros (v' & Hin & Eid & En); exists v'.
      * split; [right; exact Hin|split; assumption].
      * destruct Hin as [<-|Hin]; [congruence|]. split; [exact Hin|split; assumption].
Qed.

Lemma alookup_none before k :
  alookup_n (inc_of before) k = None <-> (forall v, In v before -> u_id v <> k).
Proof.
  induction before as [|v before IH]; cbn [inc_of map alookup_n].
  - split; [intros _ v []|reflexivity].
  - fold (inc_of before). destruct (N.eqb_spec k (u_id v)) as [->|Hne].
    + split; [discriminate|]. intros H. exfalso. apply (H v); [left; reflexivity|reflexivity].
    + rewrite IH. split.
      * intros H v' [<-|Hin]; [congruence|apply H; exact Hin].
      * intros H v' Hin. apply H. right. exact Hin.
Qed.

(* the loop with its `included` map accepts exactly the uncle lists that meet
   the rule uncle by uncle *)
Theorem uncles_loop_iff c : forall us before,
  NoDup (map u_id before) ->
  uncles_loop c (inc_of before) us = true <-> uncles_rules c before us.
Proof.
  induction us as [|u rest IH]; intros before Hnd; cbn [uncles_loop uncles_rules]; [tauto|].
  rewrite !andb_true_iff, orb_true_iff, !negb_true_iff, N.eqb_eq, N.ltb_lt.
  change ((u_id u, u_number u) :: inc_of before) with (inc_of (u :: before)).
  unfold uncle_rule. split.
  - intros ((((((((H1 & H2) & H3) & H4) & H5) & H6) & H7) & H8) & H9).
    assert (Hfresh : forall v, In v before -> u_id v <> u_id u).
    { apply alookup_none. destruct (alookup_n (inc_of before) (u_id u)); [discriminate|reflexivity]. }
    split.
    + repeat split; try assumption.
      destruct H4 as [H4|H4]; [left|right; exact H4].
      destruct (alookup_n (inc_of before) (u_parent u)) as [n|] eqn:E; [|discriminate].
      apply N.eqb_eq in H4. apply alookup_some in E; [|exact Hnd].
      destruct E as (v & Hin & Eid & En). exists v. repeat split; try assumption. lia.
    + apply IH; [|exact H9]. cbn [map]. constructor; [|exact Hnd].
      intros Hin. apply in_map_iff in Hin. destruct Hin as (v & Ev & Hv). apply (Hfresh v Hv Ev).
  - intros ((H1 & H2 & H3 & H4 & H5 & H6 & H7 & H8) & Hrest).
    assert (Hnd' : NoDup (map u_id (u :: before))).
    { cbn [map]. constructor; [|exact Hnd]. intros Hin. apply in_map_iff in Hin.
      destruct Hin as (v & Ev & Hv). apply (H5 v Hv Ev). }
    repeat split; try assumption.
    + destruct H4 as [(v & Hin & Eid & En & _)|H4]; [left|right; exact H4].
      assert (E : alookup_n (inc_of before) (u_parent u) = Some (u_number v)).
      { apply alookup_some; [exact Hnd|]. exists v. auto. }
      rewrite E. apply N.eqb_eq. exact En.
    + apply alookup_none in H5. rewrite H5. reflexivity.
    + apply IH; assumption.
Qed.

(* ---------- the whole pipeline ------------------------------------------------ *)
Definition header_rules (h : header_in) : Prop :=
  h_pow h = true /\ h_number h = h_parent_number h + 1 /\
  ef_well_formed (h_epoch h) = true /\
  (ef_is_genesis (h_parent_epoch h) = true \/ ef_successor (h_epoch h) (h_parent_epoch h) = true) /\
  median_time (h_ancestors_ts h) (h_median_count h) < h_ts h /\ h_ts h <= h_now h + allowed_future.

Definition uncles_rules_top (c : uncle_ctx) (us : list uncle) : Prop :=
  us = [] \/ (uc_block_number c <> 0 /\ (length us <= uc_max c)%nat /\ uncles_rules c [] us).

(* every committed id is proposed (in a block or one of its uncles) at a
   distance w_close..w_far from this block on its own chain *)
Definition commit_rules (w : window) (ch : chain) (committed : list N) : Prop :=
  forall id, In id committed -> In id (set_spec w ch).

Definition block_rules (b : block_in) : Prop :=
  header_rules (b_header b) /\ b_structure b = true /\ b_epoch_ok b = true /\
  uncles_rules_top (b_uctx b) (b_uncles b) /\
  commit_rules (b_window b) (b_chain b) (b_committed b) /\
  b_extension_ok b = true /\ b_reward_ok b = true /\ b_dao_ok b = true /\ b_txs_ok b = true.

Lemma header_pipeline_iff h : header_pipeline h = true <-> header_rules h.
Proof.
  unfold header_pipeline, header_rules.
  rewrite !andb_true_iff, orb_true_iff, N.eqb_eq, N.ltb_lt, N.leb_le. tauto.
Qed.

Lemma uncles_pipeline_iff c us : uncles_pipeline c us = true <-> uncles_rules_top c us.
Proof.
  unfold uncles_pipeline, uncles_rules_top. destruct us as [|u us]; [split; auto|].
  rewrite !andb_true_iff, negb_true_iff, N.eqb_neq, Nat.leb_le.
  change (@nil (N * N)) with (inc_of []).
  rewrite (uncles_loop_iff c (u :: us) [] (NoDup_nil _)).
  split; [intros ((H1 & H2) & H3); right; auto|intros [E|(H1 & H2 & H3)]; [discriminate|auto]].
Qed.

Lemma mem_true_iff x l : mem x l = true <-> In x l.
Proof.
  unfold mem. rewrite existsb_exists. split.
  - intros (y & Hy & E). apply N.eqb_eq in E. subst. exact Hy.
  - intros H. exists x. split; [exact H|apply N.eqb_refl].
Qed.

Lemma commit_pipeline_iff w ch committed :
  wf_window w -> commit_pipeline w ch committed = true <-> commit_rules w ch committed.
Proof.
  intros Hw. unfold commit_pipeline, commit_rules. rewrite forallb_forall.
  split; intros H id Hin; specialize (H id Hin).
  - apply mem_true_iff in H. apply (view_matches_verifier w ch id Hw). exact H.
  - apply mem_true_iff. apply (view_matches_verifier w ch id Hw). exact H.
Qed.

Theorem pipeline_iff_rules b :
  wf_window (b_window b) -> block_pipeline b = true <-> block_rules b.
Proof.
  intros Hw. unfold block_pipeline, block_rules.
  rewrite !andb_true_iff, header_pipeline_iff, uncles_pipeline_iff, (commit_pipeline_iff _ _ _ Hw). tauto.
Qed.

(* ---------- chain level ---------------------------------------------------------- *)
(* processing a block that does not verify on its chain leaves tip and total
   difficulty as they were: the attempt is refused as a whole *)
Theorem refused_no_effect s b p :
  lookup (fknown s) (bid b) = None -> lookup (fknown s) (bpar b) = Some p ->
  icok p && bok b = false ->
  ftip (process s b) = ftip s /\ ftip_td (process s b) = ftip_td s /\
  (forall i, i <> bid b -> lookup (fknown (process s b)) i = lookup (fknown s) i).
Proof.
  intros Hb Hp Hbad. unfold process. rewrite Hb, Hp, Hbad. cbn [andb fknown ftip ftip_td].
  split; [reflexivity|]. split; [reflexivity|]. intros i Hi. apply lookup_cons_other. exact Hi.
Qed.

(* a block that breaks a rule, and every block built on it, is recorded as
   not fully valid, so (FInv) it is never the tip *)
Theorem invalid_never_canonical g bs :
  pfirst [0] bs ->
  let s := run (finit g) bs in
  (forall b, In b bs -> bok b = false -> forall inf, lookup (fknown s) (bid b) = Some inf -> icok inf = false) /\
  (forall b p, In b bs -> lookup (fknown s) (bpar b) = Some p -> icok p = false ->
               forall inf, lookup (fknown s) (bid b) = Some inf -> icok inf = false) /\
  (exists inf, lookup (fknown s) (ftip s) = Some inf /\ icok inf = true).
Proof.
  intros Hp s. destruct (run_pfirst bs (finit g) Hp) as (_ & Hrule & _). fold s in Hrule.
  split; [|split].
  - intros b Hb Hbad inf Hl. destruct (Hrule b Hb) as (p & Hpar & Hself). rewrite Hself in Hl.
    injection Hl as <-. cbn. rewrite Hbad. apply andb_false_r.
  - intros b p Hb Hpar Hbad inf Hl. destruct (Hrule b Hb) as (p' & Hpar' & Hself).
    rewrite Hpar in Hpar'. injection Hpar' as <-. rewrite Hself in Hl. injection Hl as <-. cbn. rewrite Hbad. reflexivity.
  - destruct (run_inv bs _ (finit_inv g)) as [(ti & Ht & Hc & _) _]. exists ti. split; assumption.
Qed.

(* non-vacuity: a block at height 6 with an uncle and a commitment *)
Definition ex_header : header_in :=
  mkHI true 6 5 (mkEF 0 6 10) (mkEF 0 5 10) 1060 [1050; 1040; 1030; 1020; 1010; 1000] 37 999999.
Definition ex_uctx : uncle_ctx :=
  mkUC 6 0 2 (fun i => if N.eqb i 103 then Some 3 else None) (fun _ => None) (fun _ => false).
Definition ex_block : block_in :=
  mkBI ex_header true true ex_uctx [mkU 900 103 4 0 true true true; mkU 901 900 5 0 true true true]
       (mkW 2 10) [[]; [7]; []; []; []; []]%N [7]%N true true true true.
Definition ex_block_bad_uncle : block_in :=
  mkBI ex_header true true ex_uctx [mkU 900 103 4 0 true true true; mkU 900 103 4 0 true true true]
       (mkW 2 10) [[]; [7]; []; []; []; []]%N [7]%N true true true true.
Lemma ex_rules : block_rules ex_block /\ block_pipeline ex_block = true /\ block_pipeline ex_block_bad_uncle = false.
Proof.
  assert (H : block_pipeline ex_block = true) by (vm_compute; reflexivity).
  split; [|split; [exact H|vm_compute; reflexivity]].
  apply pipeline_iff_rules; [unfold wf_window; cbn; lia|exact H].
Qed.
