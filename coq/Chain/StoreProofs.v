(* Chain/StoreProofs.v — detaching a block is the exact inverse of attaching
   it, hence after any reorganisation the canonical-chain columns equal a
   replay of the new main chain. *)
From CKB Require Import Chain.Store.

(* ---------- keys -------------------------------------------------------- *)
Lemma op_eqb_spec a b : reflect (a = b) (op_eqb a b).
Proof.
  unfold op_eqb. destruct a as [a1 a2], b as [b1 b2]. cbn [fst snd].
  destruct (N.eqb_spec a1 b1), (Nat.eqb_spec a2 b2); cbn; constructor; congruence.
Qed.

Lemma upd_cell_same k v f : upd_cell k v f k = v.
Proof. unfold upd_cell. destruct (op_eqb_spec k k); [reflexivity|contradiction]. Qed.
Lemma upd_cell_other k v f x : x <> k -> upd_cell k v f x = f x.
Proof. unfold upd_cell. intros H. destruct (op_eqb_spec x k); [contradiction|reflexivity]. Qed.
Lemma upd_N_same {A} k (v : A) f : upd_N k v f k = v.
Proof. unfold upd_N. rewrite N.eqb_refl. reflexivity. Qed.
Lemma upd_N_other {A} k (v : A) f x : x <> k -> upd_N k v f x = f x.
Proof. unfold upd_N. intros H. destruct (N.eqb_spec x k); [contradiction|reflexivity]. Qed.
Lemma upd_nat_same {A} k (v : A) f : upd_nat k v f k = v.
Proof. unfold upd_nat. rewrite Nat.eqb_refl. reflexivity. Qed.
Lemma upd_nat_other {A} k (v : A) f x : x <> k -> upd_nat k v f x = f x.
Proof. unfold upd_nat. intros H. destruct (Nat.eqb_spec x k); [contradiction|reflexivity]. Qed.

(* ---------- folds of updates -------------------------------------------- *)
Lemma fold_set_cells v : forall l f x,
  fold_left (fun g k => upd_cell k v g) l f x = if in_dec (fun a b => reflect_dec _ _ (op_eqb_spec a b)) x l then v else f x.
Proof.
  induction l as [|k l IH]; intros f x; cbn [fold_left]; [reflexivity|].
  rewrite IH. destruct (in_dec _ x l) as [Hin|Hn].
  - destruct (in_dec _ x (k :: l)) as [?|Hn']; [reflexivity|]. exfalso. apply Hn'. right. exact Hin.
  - destruct (in_dec _ x (k :: l)) as [[->|Hin]|Hn'].
    + apply upd_cell_same.
    + contradiction.
    + apply upd_cell_other. intros ->. apply Hn'. left. reflexivity.
Qed.

Lemma fold_set_cells_in v l f x : In x l -> fold_left (fun g k => upd_cell k v g) l f x = v.
Proof. intros H. rewrite fold_set_cells. destruct (in_dec _ x l); [reflexivity|contradiction]. Qed.
Lemma fold_set_cells_notin v l f x : ~ In x l -> fold_left (fun g k => upd_cell k v g) l f x = f x.
Proof. intros H. rewrite fold_set_cells. destruct (in_dec _ x l); [contradiction|reflexivity]. Qed.

Lemma fold_set_N {A} (v : A) : forall l f x,
  ~ In x l -> fold_left (fun g k => upd_N k v g) l f x = f x.
Proof.
  induction l as [|k l IH]; intros f x Hn; cbn [fold_left]; [reflexivity|].
  rewrite IH by (intros H; apply Hn; right; exact H).
  apply upd_N_other. intros ->. apply Hn. left. reflexivity.
Qed.
Lemma fold_set_N_in {A} (v : A) : forall l f x,
  In x l -> fold_left (fun g k => upd_N k v g) l f x = v.
Proof.
  induction l as [|k l IH]; intros f x Hin; cbn [fold_left]; [destruct Hin|].
  destruct (in_dec N.eq_dec x l) as [Hl|Hl]; [apply IH; exact Hl|].
  destruct Hin as [->|Hin]; [|contradiction].
  rewrite fold_set_N by exact Hl. apply upd_N_same.
Qed.

Lemma fold_txinfo_none : forall txs (f : N -> option txloc) x,
  fold_left (fun g t => upd_N (txid t) None g) txs f x =
  if in_dec N.eq_dec x (map txid txs) then None else f x.
Proof.
  induction txs as [|t txs IH]; intros f x; cbn [fold_left map]; [reflexivity|].
  rewrite IH. destruct (in_dec N.eq_dec x (map txid txs)) as [Hin|Hn].
  - destruct (in_dec N.eq_dec x (txid t :: map txid txs)) as [?|Hn']; [reflexivity|].
    exfalso. apply Hn'. right. exact Hin.
  - destruct (in_dec N.eq_dec x (txid t :: map txid txs)) as [[E|Hin]|Hn'].
    + subst x. apply upd_N_same.
    + contradiction.
    + apply upd_N_other. intros ->. apply Hn'. left. reflexivity.
Qed.

Lemma attach_txinfo_notin bid : forall txs idx f x,
  ~ In x (map txid txs) -> attach_txinfo bid idx txs f x = f x.
Proof.
  induction txs as [|t txs IH]; intros idx f x Hn; cbn [attach_txinfo]; [reflexivity|].
  cbn [map] in Hn. rewrite IH by (intros H; apply Hn; right; exact H).
  apply upd_N_other. intros ->. apply Hn. left. reflexivity.
Qed.

(* position of a transaction in the block *)
Lemma attach_txinfo_in bid : forall txs idx f j t,
  NoDup (map txid txs) -> nth_error txs j = Some t ->
  attach_txinfo bid idx txs f (txid t) = Some (mkTL bid (idx + j)).
Proof.
  induction txs as [|t0 txs IH]; intros idx f j t Hnd Hj; [destruct j; discriminate|].
  cbn [attach_txinfo map] in *. inversion Hnd as [|? ? Hnot Hnd']; subst.
  destruct j as [|j]; cbn [nth_error] in Hj.
  - injection Hj as <-. rewrite attach_txinfo_notin by exact Hnot.
    rewrite upd_N_same. f_equal. f_equal. lia.
  - rewrite (IH (S idx) _ j t Hnd' Hj). f_equal. f_equal. lia.
Qed.

Lemma out_pts_in t k : In k (out_pts t) <-> fst k = txid t /\ snd k < nouts t.
Proof.
  unfold out_pts. rewrite in_map_iff. split.
  - intros (i & <- & Hi). apply in_seq in Hi. cbn. split; [reflexivity|lia].
  - intros [H1 H2]. exists (snd k). split; [destruct k; cbn in *; congruence|apply in_seq; lia].
Qed.

Lemma insert_outputs_notin bid : forall txs idx c x,
  ~ In x (flat_map out_pts txs) -> insert_outputs bid idx txs c x = c x.
Proof.
  induction txs as [|t txs IH]; intros idx c x Hn; cbn [insert_outputs]; [reflexivity|].
  cbn [flat_map] in Hn. rewrite IH by (intros H; apply Hn; apply in_or_app; right; exact H).
  apply fold_set_cells_notin. intros H. apply Hn. apply in_or_app. left. exact H.
Qed.

Lemma insert_outputs_in bid : forall txs idx c j t x,
  NoDup (map txid txs) -> nth_error txs j = Some t -> In x (out_pts t) ->
  insert_outputs bid idx txs c x = Some (mkCM bid (idx + j)).
Proof.
  induction txs as [|t0 txs IH]; intros idx c j t x Hnd Hj Hx; [destruct j; discriminate|].
  cbn [insert_outputs map] in *. inversion Hnd as [|? ? Hnot Hnd']; subst.
  destruct j as [|j]; cbn [nth_error] in Hj.
  - injection Hj as <-. rewrite insert_outputs_notin.
    + rewrite fold_set_cells_in by exact Hx. f_equal. f_equal. lia.
    + intros H. apply in_flat_map in H. destruct H as (t' & Ht' & Hx').
      apply out_pts_in in Hx, Hx'. apply Hnot. apply in_map_iff. exists t'. split; [|exact Ht'].
      destruct Hx, Hx'. congruence.
  - rewrite (IH (S idx) _ j t x Hnd' Hj Hx). f_equal. f_equal. lia.
Qed.

Lemma fold_restore ti : forall l c x,
  NoDup l ->
  fold_left (fun f k => restore_input ti k f) l c x =
  if in_dec (fun a b => reflect_dec _ _ (op_eqb_spec a b)) x l
  then match ti (fst x) with Some loc => Some (mkCM (tl_block loc) (tl_idx loc)) | None => c x end
  else c x.
Proof.
  induction l as [|k l IH]; intros c x Hnd; cbn [fold_left]; [reflexivity|].
  inversion Hnd as [|? ? Hnot Hnd']; subst. rewrite IH by exact Hnd'.
  destruct (in_dec _ x l) as [Hin|Hn].
  - destruct (in_dec _ x (k :: l)) as [?|Hn']; [|exfalso; apply Hn'; right; exact Hin].
    assert (x <> k) by (intros ->; contradiction).
    destruct (ti (fst x)); [reflexivity|].
    unfold restore_input. destruct (ti (fst k)); [apply upd_cell_other; assumption|reflexivity].
  - destruct (in_dec _ x (k :: l)) as [[->|Hin]|Hn'].
    + unfold restore_input. destruct (ti (fst x)); [apply upd_cell_same|reflexivity].
    + contradiction.
    + unfold restore_input. destruct (ti (fst k)); [|reflexivity].
      apply upd_cell_other. intros ->. apply Hn'. left. reflexivity.
Qed.

(* ---------- store equivalence (the columns are functions) ---------------- *)
Record seqv (s s' : store) : Prop := mkSeqv {
  sq_cells : forall k, cells s k = cells s' k;
  sq_txinfo : forall k, txinfo s k = txinfo s' k;
  sq_num : forall k, num2id s k = num2id s' k;
  sq_id : forall k, id2num s k = id2num s' k;
  sq_unc : forall k, uncles s k = uncles s' k
}.

Lemma seqv_refl s : seqv s s.
Proof. split; reflexivity. Qed.
Lemma seqv_sym s s' : seqv s s' -> seqv s' s.
Proof. intros [A B C D E]. split; intros k; symmetry; auto. Qed.
Lemma seqv_trans a b c : seqv a b -> seqv b c -> seqv a c.
Proof. intros [A B C D E] [A' B' C' D' E']. split; intros k; etransitivity; eauto. Qed.

Lemma fold_ext {K V E} (step : (K -> V) -> E -> (K -> V)) :
  (forall f g k, (forall x, f x = g x) -> forall x, step f k x = step g k x) ->
  forall l f g, (forall x, f x = g x) -> forall x, fold_left step l f x = fold_left step l g x.
Proof.
  intros Hs. induction l as [|k l IH]; intros f g H x; cbn [fold_left]; [apply H|].
  apply IH. apply Hs. exact H.
Qed.

Lemma upd_cell_ext k v f g : (forall x, f x = g x) -> forall x, upd_cell k v f x = upd_cell k v g x.
Proof. intros H x. unfold upd_cell. destruct (op_eqb x k); [reflexivity|apply H]. Qed.
Lemma upd_N_ext {A} k (v : A) f g : (forall x, f x = g x) -> forall x, upd_N k v f x = upd_N k v g x.
Proof. intros H x. unfold upd_N. destruct (N.eqb x k); [reflexivity|apply H]. Qed.

Lemma attach_txinfo_ext bid : forall txs idx f g,
  (forall x, f x = g x) -> forall x, attach_txinfo bid idx txs f x = attach_txinfo bid idx txs g x.
Proof.
  induction txs as [|t txs IH]; intros idx f g H x; cbn [attach_txinfo]; [apply H|].
  apply IH. apply upd_N_ext. exact H.
Qed.
Lemma insert_outputs_ext bid : forall txs idx f g,
  (forall x, f x = g x) -> forall x, insert_outputs bid idx txs f x = insert_outputs bid idx txs g x.
Proof.
  induction txs as [|t txs IH]; intros idx f g H x; cbn [insert_outputs]; [apply H|].
  apply IH. apply fold_ext; [|exact H]. intros f' g' k H'. apply upd_cell_ext. exact H'.
Qed.

Lemma attach_ext s s' b : seqv s s' -> seqv (attach s b) (attach s' b).
Proof.
  intros [A B C D E]. unfold attach, attach_block_cell, attach_block.
  split; cbn [cells txinfo num2id id2num uncles]; intros k.
  - apply fold_ext; [intros f g k0 H; apply upd_cell_ext; exact H|].
    apply insert_outputs_ext. exact A.
  - apply attach_txinfo_ext. exact B.
  - unfold upd_nat. destruct (Nat.eqb k (sbnum b)); [reflexivity|apply C].
  - apply upd_N_ext. exact D.
  - apply fold_ext; [intros f g k0 H; apply upd_N_ext; exact H|exact E].
Qed.

Lemma restore_ext ti ti' k f g :
  (forall x, ti x = ti' x) -> (forall x, f x = g x) ->
  forall x, restore_input ti k f x = restore_input ti' k g x.
Proof.
  intros Ht H x. unfold restore_input. rewrite <- Ht.
  destruct (ti (fst k)); [apply upd_cell_ext; exact H|apply H].
Qed.

Lemma fold_restore_ext ti ti' : (forall x, ti x = ti' x) -> forall l f g,
  (forall x, f x = g x) ->
  forall x, fold_left (fun f k => restore_input ti k f) l f x =
            fold_left (fun f k => restore_input ti' k f) l g x.
Proof.
  intros Ht. induction l as [|k0 l IH]; intros f g H x; cbn [fold_left]; [apply H|].
  apply IH. intros y. apply restore_ext; [exact Ht|exact H].
Qed.

Lemma detach_ext s s' b : seqv s s' -> seqv (detach s b) (detach s' b).
Proof.
  intros [A B C D E]. unfold detach, detach_block_cell, detach_block.
  assert (HT : forall x, fold_left (fun f t => upd_N (txid t) None f) (sbtxs b) (txinfo s) x =
                         fold_left (fun f t => upd_N (txid t) None f) (sbtxs b) (txinfo s') x).
  { apply fold_ext; [intros f g k0 H; apply upd_N_ext; exact H|exact B]. }
  split; cbn [cells txinfo num2id id2num uncles]; intros k.
  - apply fold_ext; [intros f g k0 H; apply upd_cell_ext; exact H|].
    apply fold_restore_ext; [exact HT|exact A].
  - apply HT.
  - unfold upd_nat. destruct (Nat.eqb k (sbnum b)); [reflexivity|apply C].
  - apply upd_N_ext. exact D.
  - apply fold_ext; [intros f g k0 H; apply upd_N_ext; exact H|exact E].
Qed.

(* ---------- well-formed stores and valid blocks --------------------------- *)
(* every live cell's creating transaction is in the transaction index, at the
   location the cell entry records *)
Definition WF (s : store) : Prop :=
  forall k m, cells s k = Some m -> txinfo s (fst k) = Some (mkTL (cm_block m) (cm_txidx m)).

Record valid_on (s : store) (b : sblock) : Prop := mkValid {
  v_txids : NoDup (map txid (sbtxs b));
  v_fresh : forall t, In t (sbtxs b) -> txinfo s (txid t) = None;
  v_inputs_nodup : NoDup (spent_inputs b);
  (* every spent input is live on the chain or created in this block *)
  v_inputs_live : forall k, In k (spent_inputs b) ->
                  (exists m, cells s k = Some m) \/ In k (all_outputs b);
  v_num : num2id s (sbnum b) = None;
  v_id : id2num s (sbid b) = None;
  v_unc_nodup : NoDup (sbuncles b);
  v_unc_fresh : forall u, In u (sbuncles b) -> uncles s u = false
}.

Lemma all_outputs_in b k :
  In k (all_outputs b) <-> exists t, In t (sbtxs b) /\ fst k = txid t /\ snd k < nouts t.
Proof.
  unfold all_outputs. rewrite in_flat_map. split; intros (t & Ht & H); exists t; split; try assumption.
  - apply out_pts_in. exact H.
  - apply out_pts_in. exact H.
Qed.

(* detaching undoes attaching *)
Theorem detach_attach s b : WF s -> valid_on s b -> seqv (detach (attach s b) b) s.
Proof.
  intros HW [Hnd Hfresh Hind Hlive Hnum Hid Hund Hunf].
  unfold detach, attach, detach_block_cell, detach_block, attach_block_cell, attach_block.
  cbn [cells txinfo num2id id2num uncles].
  (* the transaction index is back to what it was *)
  assert (HTI : forall x, fold_left (fun f t => upd_N (txid t) None f) (sbtxs b)
                            (attach_txinfo (sbid b) 0 (sbtxs b) (txinfo s)) x = txinfo s x).
  { intros x. rewrite fold_txinfo_none.
    destruct (in_dec N.eq_dec x (map txid (sbtxs b))) as [Hin|Hn].
    - apply in_map_iff in Hin. destruct Hin as (t & <- & Ht). symmetry. apply Hfresh. exact Ht.
    - apply attach_txinfo_notin. exact Hn. }
  split; cbn [cells txinfo num2id id2num uncles]; intros k.
  - (* the live cell set *)
    destruct (in_dec (fun a b => reflect_dec _ _ (op_eqb_spec a b)) k (all_outputs b)) as [Hout|Hnout].
    + (* a cell created by this block: gone again; it was not there before *)
      rewrite fold_set_cells_in by exact Hout.
      destruct (cells s k) as [m|] eqn:Ek; [|reflexivity].
      apply all_outputs_in in Hout. destruct Hout as (t & Ht & Hf & _).
      pose proof (HW _ _ Ek) as Hti. rewrite Hf, (Hfresh t Ht) in Hti. discriminate.
    + rewrite fold_set_cells_notin by exact Hnout.
      rewrite fold_restore by exact Hind.
      destruct (in_dec _ k (spent_inputs b)) as [Hsp|Hnsp].
      * (* spent by this block: restored from the transaction index *)
        destruct (Hlive k Hsp) as [(m & Ek)|Ho]; [|contradiction].
        rewrite HTI, (HW _ _ Ek), Ek. destruct m; reflexivity.
      * rewrite fold_set_cells_notin by exact Hnsp.
        apply insert_outputs_notin. exact Hnout.
  - apply HTI.
  - unfold upd_nat. destruct (Nat.eqb_spec k (sbnum b)) as [->|]; [symmetry; exact Hnum|].
    destruct (Nat.eqb_spec k (sbnum b)); [contradiction|reflexivity].
  - unfold upd_N. destruct (N.eqb_spec k (sbid b)) as [->|]; [symmetry; exact Hid|].
    destruct (N.eqb_spec k (sbid b)); [contradiction|reflexivity].
  - destruct (in_dec N.eq_dec k (sbuncles b)) as [Hin|Hn].
    + rewrite fold_set_N_in by exact Hin. symmetry. apply Hunf. exact Hin.
    + rewrite fold_set_N by exact Hn. apply fold_set_N. exact Hn.
Qed.

(* attaching a valid block keeps the store well-formed *)
Lemma attach_WF s b : WF s -> valid_on s b -> WF (attach s b).
Proof.
  intros HW [Hnd Hfresh Hind Hlive Hnum Hid Hund Hunf] k m.
  unfold attach, attach_block_cell, attach_block. cbn [cells txinfo].
  rewrite fold_set_cells.
  destruct (in_dec _ k (spent_inputs b)); [discriminate|].
  destruct (in_dec (fun a b => reflect_dec _ _ (op_eqb_spec a b)) k (all_outputs b)) as [Hout|Hnout].
  - apply in_flat_map in Hout. destruct Hout as (t & Ht & Hk).
    apply In_nth_error in Ht. destruct Ht as (j & Hj).
    rewrite (insert_outputs_in (sbid b) (sbtxs b) 0 (cells s) j t k Hnd Hj Hk).
    intros E. injection E as <-. cbn [cm_block cm_txidx].
    apply out_pts_in in Hk. destruct Hk as [-> _].
    apply (attach_txinfo_in (sbid b) (sbtxs b) 0 (txinfo s) j t Hnd Hj).
  - rewrite insert_outputs_notin by exact Hnout. intros Ek.
    pose proof (HW _ _ Ek) as Hti. rewrite attach_txinfo_notin; [exact Hti|].
    intros Hin. apply in_map_iff in Hin. destruct Hin as (t & Et & Ht).
    rewrite <- Et, (Hfresh t Ht) in Hti. discriminate.
Qed.

(* ---------- chains -------------------------------------------------------- *)
Fixpoint valid_chain (s : store) (bs : list sblock) : Prop :=
  match bs with
  | [] => True
  | b :: bs' => valid_on s b /\ valid_chain (attach s b) bs'
  end.

Lemma empty_WF : WF empty_store.
Proof. intros k m H. discriminate. Qed.

Lemma attach_all_WF bs : forall s, WF s -> valid_chain s bs -> WF (fold_left attach bs s).
Proof.
  induction bs as [|b bs IH]; intros s HW HV; cbn [fold_left]; [exact HW|].
  destruct HV as [Hb Hrest]. apply IH; [apply attach_WF; assumption|exact Hrest].
Qed.

Lemma valid_chain_app s a : forall b, valid_chain s (a ++ b) <-> valid_chain s a /\ valid_chain (fold_left attach a s) b.
Proof.
  revert s. induction a as [|x a IH]; intros s b; cbn [app valid_chain fold_left]; [tauto|].
  rewrite IH. tauto.
Qed.

Lemma detach_all_ext l : forall s1 s2, seqv s1 s2 -> seqv (fold_left detach l s1) (fold_left detach l s2).
Proof.
  induction l as [|x l IHl]; intros s1 s2 H; cbn [fold_left]; [exact H|].
  apply IHl. apply detach_ext. exact H.
Qed.

(* rolling back the blocks above the fork point gives the store of the
   common prefix *)
Lemma rollback_is_replay : forall detached s,
  WF s -> valid_chain s detached ->
  seqv (fold_left detach (rev detached) (fold_left attach detached s)) s.
Proof.
  intros detached. induction detached as [|b bs IH] using rev_ind; intros s HW HV.
  - cbn. apply seqv_refl.
  - apply valid_chain_app in HV. destruct HV as [HVbs [Hb _]].
    rewrite rev_unit, fold_left_app. cbn [fold_left].
    eapply seqv_trans; [|apply IH; assumption].
    (* one detach undoes the last attach, then continue on equivalent stores *)
    assert (Hstep : seqv (detach (attach (fold_left attach bs s) b) b) (fold_left attach bs s)).
    { apply detach_attach; [apply attach_all_WF; assumption|exact Hb]. }
    apply detach_all_ext. exact Hstep.
Qed.

Lemma attach_all_ext bs : forall s s', seqv s s' -> seqv (fold_left attach bs s) (fold_left attach bs s').
Proof.
  induction bs as [|b bs IH]; intros s s' H; cbn [fold_left]; [exact H|].
  apply IH. apply attach_ext. exact H.
Qed.

(* after a reorganisation of any depth the columns equal a replay of the new
   main chain *)
Theorem reorg_is_replay common detached attached :
  valid_chain empty_store (common ++ detached) ->
  seqv (reorg (replay (common ++ detached)) detached attached) (replay (common ++ attached)).
Proof.
  intros HV. apply valid_chain_app in HV. destruct HV as [HVc HVd].
  unfold reorg, replay. rewrite !fold_left_app.
  apply attach_all_ext. apply rollback_is_replay; [|exact HVd].
  apply attach_all_WF; [apply empty_WF|exact HVc].
Qed.
