(* Chain/Broker.v — how the delivery layer decides that a block's parent "is there"
   (property C01: blocks whose ancestors are missing are held and connected as soon as the
   missing ancestor arrives; a block whose parent is there is never held).

     chain/src/orphan_broker.rs  process_lonely_block: parent is_pending_verify, or
                                 get_block_status(parent) contains BLOCK_STORED  -> process_descendant
                                 (is_pending_verify += block, send to the verify thread);
                                 BLOCK_INVALID -> the block is invalid too; otherwise the orphan pool;
                                 then search_orphan_leaders: every leader (parent of pooled blocks) that
                                 is pending / stored releases its descendants, an invalid one condemns them
     shared/src/shared.rs        get_block_status: block_status_map (BLOCK_INVALID entries), else the
                                 PUBLISHED SNAPSHOT's BlockExt of the block (not the store's)
     chain/src/verify.rs         consume_unverified_blocks / verify_block: the BlockExt is committed to
                                 the store; a new best block publishes a new snapshot, any other block
                                 calls refresh_snapshot(); then is_pending_verify -= block
   ForkChoice.v abstracts all this into "the parent has been processed"; this file is the refinement
   step below it.  [refresh] is the policy "does verifying this non-best block publish a snapshot":
   the code's is constantly true.  No proofs in this file. *)
From Coq Require Export List NArith Bool Lia.
Export ListNotations.
Local Open Scope N_scope.

Record bblk := mkBB {
  bb_id : N; bb_par : N;
  bb_ok : bool;        (* passes verification on top of its parent *)
  bb_best : bool;      (* becomes the new best block when verified (publishes a new snapshot) *)
  bb_recent : bool     (* of the tip's epoch or later (what a policy may look at) *)
}.

Definition memN (x : N) (l : list N) : bool := existsb (N.eqb x) l.
Definition remN (x : N) (l : list N) : list N := filter (fun y => negb (N.eqb x y)) l.

Record bstate := mkBS {
  s_ext : list N;        (* BlockExt in the store: verified blocks (main or side) *)
  s_snap : list N;       (* BlockExt visible in the published snapshot *)
  s_invalid : list N;    (* block_status_map: BLOCK_INVALID *)
  s_pending : list N;    (* is_pending_verify *)
  s_queue : list bblk;   (* channel to the verify thread, FIFO *)
  s_orph : list bblk     (* orphan pool *)
}.

(* genesis (id 0) is verified and in the first snapshot *)
Definition binit : bstate := mkBS [0] [0] [] [] [] [].

Definition parent_there (s : bstate) (p : N) : bool := memN p (s_pending s) || memN p (s_snap s).
Definition parent_invalid (s : bstate) (p : N) : bool := memN p (s_invalid s).

Definition enqueue (s : bstate) (b : bblk) : bstate :=
  mkBS (s_ext s) (s_snap s) (s_invalid s) (bb_id b :: s_pending s) (s_queue s ++ [b]) (s_orph s).
Definition condemn (s : bstate) (b : bblk) : bstate :=
  mkBS (s_ext s) (s_snap s) (bb_id b :: s_invalid s) (s_pending s) (s_queue s) (s_orph s).

(* one sweep of search_orphan_leaders over the pool *)
Fixpoint sweep (s : bstate) (pool : list bblk) (kept : list bblk) : bstate * list bblk :=
  match pool with
  | [] => (s, rev kept)
  | b :: rest =>
    if parent_invalid s (bb_par b) then sweep (condemn s b) rest kept
    else if parent_there s (bb_par b) then sweep (enqueue s b) rest kept
    else sweep s rest (b :: kept)
  end.
Fixpoint settle (fuel : nat) (s : bstate) : bstate :=
  match fuel with
  | O => s
  | S f =>
    let '(s1, kept) := sweep (mkBS (s_ext s) (s_snap s) (s_invalid s) (s_pending s) (s_queue s) []) (s_orph s) [] in
    let s2 := mkBS (s_ext s1) (s_snap s1) (s_invalid s1) (s_pending s1) (s_queue s1) kept in
    if Nat.eqb (length kept) (length (s_orph s)) then s2 else settle f s2
  end.

(* OrphanBlockPool::insert: the pool is keyed by block hash, a second delivery replaces nothing *)
Definition park (pool : list bblk) (b : bblk) : list bblk :=
  if existsb (fun c => N.eqb (bb_id c) (bb_id b)) pool then pool else pool ++ [b].

(* asynchronous_process_block + process_lonely_block of one delivered block *)
Definition accept (s : bstate) (b : bblk) : bstate :=
  let s1 :=
    if parent_there s (bb_par b) then enqueue s b
    else if parent_invalid s (bb_par b) then condemn s b
    else mkBS (s_ext s) (s_snap s) (s_invalid s) (s_pending s) (s_queue s) (park (s_orph s) b) in
  settle (S (length (s_orph s1))) s1.

(* consume_unverified_blocks of the block at the head of the channel *)
Definition verify (refresh : bblk -> bool) (s : bstate) : bstate :=
  match s_queue s with
  | [] => s
  | b :: q =>
    if bb_ok b && negb (parent_invalid s (bb_par b)) then
      let ext' := bb_id b :: s_ext s in
      let snap' := if bb_best b || refresh b then ext' else s_snap s in
      mkBS ext' snap' (s_invalid s) (remN (bb_id b) (s_pending s)) q (s_orph s)
    else
      mkBS (s_ext s) (s_snap s) (bb_id b :: s_invalid s) (remN (bb_id b) (s_pending s)) q (s_orph s)
  end.

Inductive bop := BAccept (b : bblk) | BVerify.
Definition bstep (refresh : bblk -> bool) (s : bstate) (o : bop) : bstate :=
  match o with BAccept b => accept s b | BVerify => verify refresh s end.
Definition brun (refresh : bblk -> bool) (s : bstate) (ops : list bop) : bstate := fold_left (bstep refresh) ops s.

Definition always : bblk -> bool := fun _ => true.       (* the code *)
Definition recent_only : bblk -> bool := bb_recent.      (* refresh only for blocks of the tip's epoch or later *)

(* the abstraction ForkChoice.v uses: the parent has been handed to the verify thread or verified *)
Definition handled (s : bstate) (p : N) : bool := memN p (s_pending s) || memN p (s_ext s).

(* ---- search_orphan_leader's two reads -------------------------------------------- *)
(* The chain-service thread reads is_pending_verify and the block status (published snapshot) one after
   the other while the verify thread may complete blocks in between: [s1] is the state at the first
   read, [s2] at the second.  [pending_first] = the order of the reads (process_lonely_block has always
   read is_pending_verify first; search_orphan_leader read the status first before the repair be63b31). *)
Definition leader_there (pending_first : bool) (s1 s2 : bstate) (p : N) : bool :=
  if pending_first then memN p (s_pending s1) || memN p (s_snap s2)
  else memN p (s_snap s1) || memN p (s_pending s2).
Fixpoint verify_n (k : nat) (s : bstate) : bstate :=
  match k with O => s | S k' => verify_n k' (verify always s) end.

(* ---- cases from the harness -------------------------------------------------- *)
(* a delivery schedule on a real node: per delivered block whether it reaches the broker (it does not when
   non-contextual verification refuses it) and the orphan pool's size once the node is quiescent *)
Fixpoint drain (fuel : nat) (s : bstate) : bstate :=
  match fuel with
  | O => s
  | S f => match s_queue s with [] => s | _ => drain f (verify always s) end
  end.
Record bcase := mkBCase { bc_steps : list (bblk * bool * nat) }.
Fixpoint check_bsteps (s : bstate) (l : list (bblk * bool * nat)) : bool :=
  match l with
  | [] => true
  | (b, reach, o) :: l' =>
    (* a block refused by non-contextual verification is marked BLOCK_INVALID and never reaches the broker
       (asynchronous_process_block returns before process_lonely_block: no sweep of the pool) *)
    let s1 := if reach then accept s b else condemn s b in
    let s2 := drain (S (length (s_queue s1))) s1 in
    Nat.eqb (length (s_orph s2)) o && check_bsteps s2 l'
  end.
Definition check_bcase (c : bcase) : bool := check_bsteps binit (bc_steps c).
