(* Chain/EpochRecord.v — the stored current-epoch record (META_CURRENT_EPOCH, what a restart loads as
   the snapshot's epoch) against the epoch of the tip block (property C02: the stored chain state equals
   a replay of the main chain).  chain/src/verify.rs verify_block, new-best branch:

       if new_epoch || fork.has_detached() || current_tip_header.epoch().number() != epoch.number()
           { db_txn.insert_current_epoch_ext(&epoch) }

   where [epoch] is the epoch of the block being verified (the new tip), [new_epoch] says that block is
   the first of its epoch, and the attached part of the fork may begin with blocks verified earlier
   (re-attached above a truncated tip, or a branch the node returns to).  An epoch is identified by an
   id (number and first block); two epochs with the same number on different branches are different
   epochs.  No proofs in this file. *)
From Coq Require Export List NArith Arith Bool Lia.
Export ListNotations.

Record estate := mkES {
  tip_eid : nat;      (* the epoch of the tip block *)
  tip_enum : nat;     (* its number *)
  record : nat;       (* the stored current-epoch record (an epoch id) *)
  next_eid : nat      (* ids not used so far *)
}.

(* which of the three disjuncts the code has *)
Record rule := mkRule { r_new_epoch : bool; r_detached : bool; r_number : bool }.
Definition code_rule := mkRule true true true.
Definition old_rule := mkRule true true false.      (* before the repair 8b241df *)

(* walking along attached blocks: a block that is the first of its epoch opens a fresh epoch *)
Fixpoint walk_epochs (eid enum next : nat) (heads : list bool) : nat * nat * nat :=
  match heads with
  | [] => (eid, enum, next)
  | true :: rest => walk_epochs next (S enum) (S next) rest
  | false :: rest => walk_epochs eid enum next rest
  end.

Inductive eevent :=
| EExtend (heads : list bool)
    (* nothing detached: the attached blocks descend from the tip, one flag per block (is it the first
       block of its epoch); the last one is the block being verified *)
| EReorg (heads : list bool).
    (* something detached: the attached blocks descend from a common ancestor in some earlier epoch of
       the node's history or a new one; modelled as a walk from a fresh epoch *)

Definition last_head (heads : list bool) : bool := last heads false.

Definition estep (r : rule) (s : estate) (e : eevent) : estate :=
  match e with
  | EExtend [] | EReorg [] => s
  | EExtend heads =>
    let '(eid, enum, next) := walk_epochs (tip_eid s) (tip_enum s) (next_eid s) heads in
    let write := (r_new_epoch r && last_head heads) || (r_number r && negb (Nat.eqb (tip_enum s) enum)) in
    mkES eid enum (if write then eid else record s) next
  | EReorg heads =>
    (* the common ancestor's epoch: any epoch; a fresh id covers "another epoch with any number" *)
    let '(eid, enum, next) := walk_epochs (next_eid s) (tip_enum s) (S (next_eid s)) heads in
    let write := (r_new_epoch r && last_head heads) || r_detached r || (r_number r && negb (Nat.eqb (tip_enum s) enum)) in
    mkES eid enum (if write then eid else record s) next
  end.
Definition erun (r : rule) (s : estate) (es : list eevent) : estate := fold_left (estep r) es s.

Definition einit : estate := mkES 0 0 0 1.
Definition record_ok (s : estate) : Prop := record s = tip_eid s.
