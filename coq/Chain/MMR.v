(* Chain/MMR.v — executable structural model of the chain-root Merkle
   mountain range:
     util/types/src/utilities/merkle_mountain_range.rs  (HeaderDigest, MergeHeaderDigest::merge / merge_peaks)
     chain/src/verify.rs reconcile_main_chain           (ChainRootMMR::new(size at the fork point, store) + push per attached block)
     store/src/transaction.rs insert_header_digest      (COLUMN_CHAIN_ROOT_MMR: position -> digest)
     util/snapshot/src/lib.rs chain_root_mmr            (MMR over the first n+1 leaves, get_root)
   The position arithmetic of the external crate ckb-merkle-mountain-range
   (post-order numbering, peaks, right-to-left bagging) is transcribed
   structurally: nodes are appended in post order, peaks are kept as a stack.
   No proofs in this file. *)
From Coq Require Export List NArith Arith Bool Lia.
Export ListNotations.

Section MMR.
Variable D : Type.
Variable merge : D -> D -> D.       (* MergeHeaderDigest::merge lhs rhs *)

(* peaks as a stack: lowest / rightmost peak first; (height, digest) *)
Definition peaks_t := list (nat * D).

Fixpoint merge_up (fuel : nat) (peaks : peaks_t) (out : list D) : peaks_t * list D :=
  match fuel with
  | O => (peaks, out)
  | S f =>
    match peaks with
    | (h1, r) :: (h2, l) :: rest =>
      if Nat.eqb h1 h2 then merge_up f ((S h1, merge l r) :: rest) (out ++ [merge l r])
      else (peaks, out)
    | _ => (peaks, out)
    end
  end.

(* MMR::push: the leaf, then every parent it completes; returns the new
   peaks and the nodes appended (in position order) *)
Definition push_nodes (peaks : peaks_t) (x : D) : peaks_t * list D :=
  merge_up (S (length peaks)) ((0, x) :: peaks) [x].

Record mmr := mkM { m_peaks : peaks_t; m_nodes : list D }.   (* m_nodes: position -> node *)
Definition m_empty := mkM [] [].
Definition push (m : mmr) (x : D) : mmr :=
  let '(p, out) := push_nodes (m_peaks m) x in mkM p (m_nodes m ++ out).
Definition build (leaves : list D) : mmr := fold_left push leaves m_empty.

(* get_root: bag the peaks right to left; merge_peaks(right, left) = merge(left, right) *)
Definition bag (peaks : peaks_t) : option D :=
  match peaks with
  | [] => None
  | (_, p) :: rest => Some (fold_left (fun acc hl => merge (snd hl) acc) rest p)
  end.
Definition root (leaves : list D) : option D := bag (m_peaks (build leaves)).

(* ---- reading the peaks back from the stored nodes ----------------------- *)
(* MMR::new(mmr_size, store) has no peak stack: it reads nodes by position.
   For [n] leaves the peaks are, left to right, perfect trees for the binary
   digits of n; a perfect tree of height h has 2^(h+1)-1 nodes and its root is
   its last node.  Positions and leaf counts are in N. *)
Definition pow2 (h : nat) : N := N.shiftl 1 (N.of_nat h).
Definition tree_size (h : nat) : N := (pow2 (S h) - 1)%N.

(* peaks for [n] leaves taken from heights h, h-1, …, 0; [base] = position
   where the next tree starts; result rightmost first *)
Fixpoint peaks_at (store : N -> option D) (n : N) (h : nat) (base : N) (acc : list (nat * option D))
  : list (nat * option D) :=
  let step :=
    if N.leb (pow2 h) n then ((n - pow2 h)%N, (base + tree_size h)%N, (h, store (base + tree_size h - 1)%N) :: acc)
    else (n, base, acc) in
  match h with
  | O => snd step
  | S h' => let '(n', base', acc') := step in peaks_at store n' h' base' acc'
  end.

Fixpoint mmr_size_from (n : N) (h : nat) (sz : N) : N :=
  let '(n', sz') := if N.leb (pow2 h) n then ((n - pow2 h)%N, (sz + tree_size h)%N) else (n, sz) in
  match h with O => sz' | S h' => mmr_size_from n' h' sz' end.
(* leaf counts below 2^41 *)
Definition hmax : nat := 40.
Definition mmr_size (n : N) : N := mmr_size_from n hmax 0.

Definition all_some (l : list (nat * option D)) : option peaks_t :=
  fold_right (fun '(h, o) acc => match o, acc with Some d, Some a => Some ((h, d) :: a) | _, _ => None end)
             (Some []) l.

(* ---- the store column under reorganisations ----------------------------- *)
(* write the nodes at positions base, base+1, … (stale higher positions stay) *)
Fixpoint write_at (store : N -> option D) (base : N) (nodes : list D) : N -> option D :=
  match nodes with
  | [] => store
  | x :: nodes' => write_at (fun p => if N.eqb p base then Some x else store p) (N.succ base) nodes'
  end.

(* reconcile_main_chain: resume at [n_common] leaves (genesis included), push
   the digests of the attached blocks *)
Definition reorg_store (store : N -> option D) (n_common : N) (attached : list D) : option (N -> option D) :=
  match all_some (peaks_at store n_common hmax 0 []) with
  | None => None
  | Some peaks =>
    let m := fold_left push attached (mkM peaks []) in
    Some (write_at store (mmr_size n_common) (m_nodes m))
  end.

Definition root_from_store (store : N -> option D) (n : N) : option D :=
  match all_some (peaks_at store n hmax 0 []) with
  | None => None
  | Some peaks => bag peaks
  end.
End MMR.

Arguments mkM {D}.
Arguments m_peaks {D}.
Arguments m_nodes {D}.
Arguments m_empty {D}.

(* ---- the numeric part of a header digest -------------------------------- *)
(* start number, end number, total difficulty; the children hash is compared
   by the harness (blake2b cannot be computed here) *)
Definition ndig := (N * N * N)%type.
Definition nmerge (l r : ndig) : ndig :=
  let '(ls, _, ltd) := l in let '(_, re, rtd) := r in (ls, re, (ltd + rtd)%N).
Definition ndig_eqb (a b : ndig) : bool :=
  let '(a1, a2, a3) := a in let '(b1, b2, b3) := b in N.eqb a1 b1 && N.eqb a2 b2 && N.eqb a3 b3.

Fixpoint list_eqb {A B} (e : A -> B -> bool) (a : list A) (b : list B) : bool :=
  match a, b with
  | [], [] => true
  | x :: a', y :: b' => e x y && list_eqb e a' b'
  | _, _ => false
  end.

(* the full span of a header digest: the numeric part, and (epoch, timestamp, compact target) at its
   start and at its end; RFC 0044: a parent spans from the left child's start to the right child's end *)
Definition span := (N * N * N)%type.
Definition fdig := (ndig * span * span)%type.
Definition fmerge (l r : fdig) : fdig :=
  let '(ln, ls, _) := l in let '(rn, _, re) := r in (nmerge ln rn, ls, re).
(* the variant that takes the end compact target from the right child's START *)
Definition fmerge_end_target_from_start (l r : fdig) : fdig :=
  let '(ln, ls, _) := l in let '(rn, (_, _, rst), (ree, ret, _)) := r in (nmerge ln rn, ls, (ree, ret, rst)).
Definition span_eqb (a b : span) : bool :=
  let '(a1, a2, a3) := a in let '(b1, b2, b3) := b in N.eqb a1 b1 && N.eqb a2 b2 && N.eqb a3 b3.
Definition fdig_eqb (a b : fdig) : bool :=
  let '(an, as_, ae) := a in let '(bn, bs, be) := b in ndig_eqb an bn && span_eqb as_ bs && span_eqb ae be.

(* a history of main-chain changes; after each the first mmr_size(tip+1)
   positions of COLUMN_CHAIN_ROOT_MMR and the root for every n <= tip were read *)
Record mcase := mkMCase {
  mc_genesis : fdig;
  (* (number of common leaves incl. genesis, attached digests, observed nodes, observed roots for n = 1..) *)
  mc_steps : list (N * list fdig * list fdig * list fdig) }.

Definition nseq (n : N) : list N := map N.of_nat (seq 0 (N.to_nat n)).

Fixpoint mcheck (store : N -> option fdig) (steps : list (N * list fdig * list fdig * list fdig)) : bool :=
  match steps with
  | [] => true
  | (nc, att, nodes, roots) :: steps' =>
    match reorg_store fdig fmerge store nc att with
    | None => false
    | Some st' =>
      let n' := (nc + N.of_nat (length att))%N in
      list_eqb (fun a b => match a with Some x => fdig_eqb x b | None => false end)
               (map st' (nseq (mmr_size n'))) nodes &&
      list_eqb (fun a b => match a with Some x => fdig_eqb x b | None => false end)
               (map (fun k => root_from_store fdig fmerge st' (N.succ k)) (nseq n')) roots &&
      mcheck st' steps'
    end
  end.
Definition check_mcase (c : mcase) : bool :=
  mcheck (write_at fdig (fun _ => None) 0%N [mc_genesis c]) (mc_steps c).
