(* Chain/EpochRecordProofs.v — the stored current-epoch record is the tip's epoch after every sequence
   of extensions (also through blocks verified earlier) and reorganisations; without the number
   comparison it is not (F17). *)
From CKB Require Import Chain.EpochRecord.
From Coq Require Import List NArith Arith Bool Lia.
Import ListNotations.

(* a walk that does not change the number does not change the epoch *)
Lemma walk_mono : forall heads eid enum next,
  enum <= snd (fst (walk_epochs eid enum next heads)).
Proof.
  induction heads as [|h rest IH]; intros eid enum next; cbn [walk_epochs]; [cbn; lia|].
  destruct h; [specialize (IH next (S enum) (S next)); lia | apply IH].
Qed.

Lemma walk_same : forall heads eid enum next,
  snd (fst (walk_epochs eid enum next heads)) = enum ->
  fst (fst (walk_epochs eid enum next heads)) = eid.
Proof.
  induction heads as [|h rest IH]; intros eid enum next H; cbn [walk_epochs] in *; [reflexivity|].
  destruct h; [pose proof (walk_mono rest next (S enum) (S next)); lia | apply IH; exact H].
Qed.

Lemma estep_ok s e : record_ok s -> record_ok (estep code_rule s e).
Proof.
  unfold record_ok. intros H. destruct e as [heads|heads]; destruct heads as [|h rest]; cbn [estep]; try exact H.
  - destruct (walk_epochs (tip_eid s) (tip_enum s) (next_eid s) (h :: rest)) as [[eid enum] next] eqn:E.
    cbn [tip_eid record code_rule r_new_epoch r_number].
    destruct (Nat.eqb_spec (tip_enum s) enum) as [Heq|Hne].
    + (* the number did not move: neither did the epoch *)
      pose proof (walk_same (h :: rest) (tip_eid s) (tip_enum s) (next_eid s)) as W. rewrite E in W.
      cbn [fst snd] in W. rewrite (W (eq_sym Heq)).
      destruct (true && last_head (h :: rest) || true && negb true); [reflexivity | exact H].
    + rewrite andb_true_l. cbn [negb]. rewrite orb_true_r. reflexivity.
  - destruct (walk_epochs (next_eid s) (tip_enum s) (S (next_eid s)) (h :: rest)) as [[eid enum] next] eqn:E.
    cbn [tip_eid record code_rule r_detached]. rewrite orb_true_r, orb_true_l. reflexivity.
Qed.

(* C02, current-epoch record: after any history of extensions (through any number of blocks, verified
   before or not) and reorganisations the stored record is the epoch of the tip block *)
Theorem record_follows_tip : forall es, record_ok (erun code_rule einit es).
Proof.
  intros es. unfold erun. assert (H : record_ok einit) by reflexivity. revert H. generalize einit.
  induction es as [|e es IH]; intros s H; cbn [fold_left]; [exact H|].
  apply IH. apply estep_ok. exact H.
Qed.

(* F17: one extension whose attached part crosses the first block of an epoch and ends on a later block
   of it (blocks verified earlier, re-attached above a truncated tip, then one new block) *)
Lemma old_rule_refuted :
  let s := erun old_rule einit [EExtend [true; false]] in
  tip_eid s = 1 /\ record s = 0 /\ record s <> tip_eid s.
Proof. vm_compute. repeat split. discriminate. Qed.

Lemma code_rule_example :
  let s := erun code_rule einit [EExtend [false; false]; EExtend [true; false]; EReorg [false]; EExtend [false; true]] in
  record s = tip_eid s /\ tip_enum s = 2.
Proof. vm_compute. split; reflexivity. Qed.
