(* Chain/ForkChoiceProofs.v — the tip is the head of the heaviest fully valid
   chain whatever the processing order; the node never leaves its tip for a
   chain that is not strictly heavier. *)
From Coq Require Import Arith.
From CKB Require Import Chain.ForkChoice.
Local Open Scope N_scope.

Definition keys (k : known) : list N := map fst k.

Lemma lookup_none_keys k i : lookup k i = None <-> ~ In i (keys k).
Proof.
  induction k as [|[j inf] k IH]; cbn [lookup keys map fst In]; [tauto|].
  destruct (N.eqb_spec i j) as [->|Hne]; split; intros H.
  - discriminate.
  - exfalso. apply H. left. reflexivity.
  - intros [Hj|Hin]; [congruence|]. apply IH in H. contradiction.
  - apply IH. intros Hin. apply H. right. exact Hin.
Qed.

Lemma lookup_some_keys k i inf : lookup k i = Some inf -> In i (keys k).
Proof.
  intros H. destruct (in_dec N.eq_dec i (keys k)) as [Hin|Hn]; [exact Hin|].
  apply lookup_none_keys in Hn. congruence.
Qed.

(* ---------- invariant of the fork-choice core ---------------------------- *)
Record FInv (s : fstate) : Prop := mkFInv {
  fi_tip : exists inf, lookup (fknown s) (ftip s) = Some inf /\ icok inf = true /\ itd inf = ftip_td s;
  fi_max : forall i inf, lookup (fknown s) i = Some inf -> icok inf = true -> itd inf <= ftip_td s
}.

Lemma finit_inv g : FInv (finit g).
Proof.
  split.
  - exists (mkI g true). cbn. auto.
  - intros i inf H Hc. cbn in H. destruct (N.eqb i 0); [|discriminate].
    injection H as <-. cbn. lia.
Qed.

Lemma lookup_cons_other (k : known) i j inf : i <> j -> lookup ((j, inf) :: k) i = lookup k i.
Proof. intros H. cbn [lookup]. destruct (N.eqb_spec i j); [contradiction|reflexivity]. Qed.
Lemma lookup_cons_same (k : known) j inf : lookup ((j, inf) :: k) j = Some inf.
Proof. cbn [lookup]. rewrite N.eqb_refl. reflexivity. Qed.

Lemma process_inv s b : FInv s -> FInv (process s b).
Proof.
  intros [(ti & Ht & Htc & Htd) Hmax]. unfold process.
  destruct (lookup (fknown s) (bid b)) as [?|] eqn:Eb; [split; eauto|].
  destruct (lookup (fknown s) (bpar b)) as [p|] eqn:Ep; [|split; eauto].
  set (td := itd p + bdiff b). set (cok := icok p && bok b).
  assert (Htipne : ftip s <> bid b) by (intros E; rewrite E in Ht; congruence).
  destruct (cok && N.ltb (ftip_td s) td) eqn:Esw.
  - apply andb_true_iff in Esw. destruct Esw as [Hc Hlt]. apply N.ltb_lt in Hlt.
    split; cbn [fknown ftip ftip_td].
    + exists (mkI td cok). rewrite lookup_cons_same. auto.
    + intros i inf H Hc'. destruct (N.eq_dec i (bid b)) as [->|Hne].
      * rewrite lookup_cons_same in H. injection H as <-. cbn. lia.
      * rewrite lookup_cons_other in H by exact Hne. specialize (Hmax _ _ H Hc'). lia.
  - split; cbn [fknown ftip ftip_td].
    + exists ti. rewrite lookup_cons_other by exact Htipne. auto.
    + intros i inf H Hc'. destruct (N.eq_dec i (bid b)) as [->|Hne].
      * rewrite lookup_cons_same in H. injection H as <-. cbn [itd icok] in *.
        fold cok in Hc'. rewrite Hc' in Esw. cbn [andb] in Esw. apply N.ltb_ge in Esw. exact Esw.
      * rewrite lookup_cons_other in H by exact Hne. eauto.
Qed.

Lemma run_inv bs : forall s, FInv s -> FInv (run s bs).
Proof.
  unfold run. induction bs as [|b bs IH]; intros s H; cbn [fold_left]; [exact H|].
  apply IH. apply process_inv. exact H.
Qed.

(* the node never leaves its tip for a chain that is not strictly heavier;
   equal work keeps the chain verified first *)
Lemma process_strict s b :
  ftip_td s <= ftip_td (process s b) /\
  (ftip (process s b) <> ftip s -> ftip_td s < ftip_td (process s b)).
Proof.
  unfold process.
  destruct (lookup (fknown s) (bid b)); [split; [lia|congruence]|].
  destruct (lookup (fknown s) (bpar b)) as [p|]; [|split; [lia|congruence]].
  destruct (icok p && bok b && N.ltb (ftip_td s) (itd p + bdiff b)) eqn:E; cbn [ftip ftip_td].
  - apply andb_true_iff in E. destruct E as [_ E]. apply N.ltb_lt in E. split; [lia|intros _; exact E].
  - split; [lia|congruence].
Qed.

Lemma run_monotone bs : forall s, ftip_td s <= ftip_td (run s bs).
Proof.
  unfold run. induction bs as [|b bs IH]; intros s; cbn [fold_left]; [lia|].
  pose proof (proj1 (process_strict s b)). specialize (IH (process s b)). lia.
Qed.

(* ---------- parent-first orders ------------------------------------------ *)
(* every block's parent is already there (in [dom] or earlier in the list);
   no block occurs twice *)
Fixpoint pfirst (dom : list N) (bs : list block) : Prop :=
  match bs with
  | [] => True
  | b :: bs' => In (bpar b) dom /\ ~ In (bid b) dom /\ pfirst (bid b :: dom) bs'
  end.

(* what the node records for a block follows from what it records for the parent *)
Definition derive (p : info) (b : block) : info := mkI (itd p + bdiff b) (icok p && bok b).
Definition rule (k : known) (b : block) : Prop :=
  exists p, lookup k (bpar b) = Some p /\ lookup k (bid b) = Some (derive p b).

Lemma process_keys_fresh s b p :
  lookup (fknown s) (bid b) = None -> lookup (fknown s) (bpar b) = Some p ->
  fknown (process s b) = (bid b, derive p b) :: fknown s.
Proof.
  intros Hb Hp. unfold process. rewrite Hb, Hp. unfold derive.
  destruct (icok p && bok b && N.ltb (ftip_td s) (itd p + bdiff b)); reflexivity.
Qed.

Lemma rule_weaken k j inf b : ~ In j (keys k) -> rule k b -> rule ((j, inf) :: k) b.
Proof.
  intros Hj (p & Hp & Hb). exists p. split.
  - rewrite lookup_cons_other; [exact Hp|]. intros E. apply Hj. rewrite <- E. eapply lookup_some_keys; eassumption.
  - rewrite lookup_cons_other; [exact Hb|]. intros E. apply Hj. rewrite <- E. eapply lookup_some_keys; eassumption.
Qed.

Lemma run_pfirst bs : forall s,
  pfirst (keys (fknown s)) bs ->
  keys (fknown (run s bs)) = rev (map bid bs) ++ keys (fknown s) /\
  (forall b, In b bs -> rule (fknown (run s bs)) b) /\
  (forall i, In i (keys (fknown s)) -> lookup (fknown (run s bs)) i = lookup (fknown s) i).
Proof.
  unfold run. induction bs as [|b bs IH]; intros s Hpf; cbn [fold_left map rev].
  - split; [reflexivity|]. split; [intros b []|reflexivity].
  - cbn [pfirst] in Hpf. destruct Hpf as (Hpar & Hfresh & Hrest).
    apply lookup_none_keys in Hfresh.
    destruct (lookup (fknown s) (bpar b)) as [p|] eqn:Ep.
    2:{ apply lookup_none_keys in Ep. contradiction. }
    pose proof (process_keys_fresh s b p Hfresh Ep) as Hk.
    assert (Hpf' : pfirst (keys (fknown (process s b))) bs) by (rewrite Hk; exact Hrest).
    destruct (IH (process s b) Hpf') as (Hkeys & Hrule & Hold).
    split; [|split].
    + rewrite Hkeys, Hk. cbn [keys map fst]. rewrite <- app_assoc. reflexivity.
    + intros b0 [<-|Hin]; [|apply Hrule; exact Hin].
      exists p. split.
      * rewrite Hold by (rewrite Hk; right; eapply lookup_some_keys; exact Ep).
        rewrite Hk, lookup_cons_other; [exact Ep|]. intros E. rewrite E in Ep. congruence.
      * rewrite Hold by (rewrite Hk; left; reflexivity). rewrite Hk. apply lookup_cons_same.
    + intros i Hi. rewrite Hold by (rewrite Hk; right; exact Hi).
      rewrite Hk, lookup_cons_other; [reflexivity|]. intros E. subst i.
      apply lookup_none_keys in Hfresh. contradiction.
Qed.

(* two record tables that obey the rule on the same blocks agree *)
Lemma rule_unique k1 k2 : forall bs dom,
  pfirst dom bs ->
  (forall i, In i dom -> lookup k1 i = lookup k2 i) ->
  (forall b, In b bs -> rule k1 b /\ rule k2 b) ->
  forall b, In b bs -> lookup k1 (bid b) = lookup k2 (bid b).
Proof.
  induction bs as [|b bs IH]; intros dom Hpf Hdom Hrule b0 Hin; [destruct Hin|].
  cbn [pfirst] in Hpf. destruct Hpf as (Hpar & Hfresh & Hrest).
  assert (Hb : lookup k1 (bid b) = lookup k2 (bid b)).
  { destruct (Hrule b (or_introl eq_refl)) as [(p1 & Hp1 & Hb1) (p2 & Hp2 & Hb2)].
    rewrite (Hdom _ Hpar) in Hp1. rewrite Hp1 in Hp2. injection Hp2 as <-. congruence. }
  destruct Hin as [<-|Hin]; [exact Hb|].
  apply (IH (bid b :: dom)); try assumption.
  - intros i [<-|Hi]; [exact Hb|apply Hdom; exact Hi].
  - intros b1 H1. apply Hrule. right. exact H1.
Qed.

(* ---------- order independence ------------------------------------------- *)
Theorem order_independent g bs1 bs2 :
  pfirst [0] bs1 -> pfirst [0] bs2 ->
  (forall b, In b bs1 <-> In b bs2) ->
  let s1 := run (finit g) bs1 in let s2 := run (finit g) bs2 in
  (forall i, lookup (fknown s1) i = lookup (fknown s2) i) /\
  ftip_td s1 = ftip_td s2 /\
  (* same tip unless two fully valid chains tie for the maximum *)
  ((forall i inf, lookup (fknown s1) i = Some inf -> icok inf = true ->
                  itd inf = ftip_td s1 -> i = ftip s1) -> ftip s1 = ftip s2).
Proof.
  intros H1 H2 Hsame s1 s2.
  destruct (run_pfirst bs1 (finit g) H1) as (Hk1 & Hr1 & Ho1). fold s1 in Hk1, Hr1, Ho1.
  destruct (run_pfirst bs2 (finit g) H2) as (Hk2 & Hr2 & Ho2). fold s2 in Hk2, Hr2, Ho2.
  assert (Hblocks : forall b, In b bs1 -> lookup (fknown s1) (bid b) = lookup (fknown s2) (bid b)).
  { apply (rule_unique (fknown s1) (fknown s2) bs1 [0] H1).
    - intros i [<-|[]]. rewrite Ho1, Ho2 by (left; reflexivity). reflexivity.
    - intros b Hb. split; [apply Hr1; exact Hb|apply Hr2; apply Hsame; exact Hb]. }
  assert (Hall : forall i, lookup (fknown s1) i = lookup (fknown s2) i).
  { intros i. destruct (lookup (fknown s1) i) as [inf|] eqn:E1.
    - pose proof (lookup_some_keys _ _ _ E1) as Hin. rewrite Hk1 in Hin.
      apply in_app_or in Hin. destruct Hin as [Hin|[<-|[]]].
      + apply in_rev, in_map_iff in Hin. destruct Hin as (b & <- & Hb).
        rewrite <- Hblocks by exact Hb. symmetry. exact E1.
      + rewrite <- E1, Ho1, Ho2 by (left; reflexivity). reflexivity.
    - destruct (lookup (fknown s2) i) as [inf|] eqn:E2; [|reflexivity].
      pose proof (lookup_some_keys _ _ _ E2) as Hin. rewrite Hk2 in Hin.
      apply in_app_or in Hin. destruct Hin as [Hin|[<-|[]]].
      + apply in_rev, in_map_iff in Hin. destruct Hin as (b & <- & Hb).
        apply Hsame in Hb. rewrite Hblocks in E1 by exact Hb. congruence.
      + rewrite Ho1 in E1 by (left; reflexivity). cbn in E1. discriminate. }
  pose proof (run_inv bs1 _ (finit_inv g)) as [(t1 & Ht1 & Hc1 & Hd1) Hm1]. fold s1 in Ht1, Hd1, Hm1.
  pose proof (run_inv bs2 _ (finit_inv g)) as [(t2 & Ht2 & Hc2 & Hd2) Hm2]. fold s2 in Ht2, Hd2, Hm2.
  assert (Htd : ftip_td s1 = ftip_td s2).
  { pose proof Ht1 as Ht1'. rewrite Hall in Ht1'. pose proof (Hm2 _ _ Ht1' Hc1).
    pose proof Ht2 as Ht2'. rewrite <- Hall in Ht2'. pose proof (Hm1 _ _ Ht2' Hc2). lia. }
  split; [exact Hall|]. split; [exact Htd|].
  intros Huniq. symmetry. apply (Huniq (ftip s2) t2); [rewrite Hall; exact Ht2|exact Hc2|lia].
Qed.

(* ---------- the delivery layer (orphan pool) ------------------------------ *)
Lemma run_app s a b : run s (a ++ b) = run (run s a) b.
Proof. unfold run. apply fold_left_app. Qed.

Lemma pfirst_app dom a : forall b0 : list block,
  pfirst dom (a ++ b0) <-> pfirst dom a /\ pfirst (rev (map bid a) ++ dom) b0.
Proof.
  revert dom. induction a as [|x a IH]; intros dom b0; cbn [app pfirst map rev].
  - tauto.
  - rewrite IH. rewrite <- app_assoc. cbn [app]. tauto.
Qed.

Lemma processed_true s i : processed s i = true <-> In i (keys (fknown s)).
Proof.
  unfold processed. destruct (lookup (fknown s) i) eqn:E.
  - split; [intros _; eapply lookup_some_keys; eassumption|reflexivity].
  - split; [discriminate|]. intros H. apply lookup_none_keys in E. contradiction.
Qed.
Lemma processed_false s i : processed s i = false <-> ~ In i (keys (fknown s)).
Proof.
  rewrite <- processed_true. destruct (processed s i); split; intros H.
  - discriminate.
  - exfalso. apply H. reflexivity.
  - discriminate.
  - reflexivity.
Qed.

Section Delivery.
Variable g : N.
Variable ds : list block.            (* every block that is ever delivered *)
Hypothesis ids_consistent : forall b b', In b ds -> In b' ds -> bid b = bid b' -> b = b'.

(* the core is the result of processing, parent-first, distinct delivered blocks *)
Definition Core (s : fstate) : Prop :=
  exists ps, pfirst [0] ps /\ s = run (finit g) ps /\ incl ps ds.

Lemma core_keys s ps : pfirst [0] ps -> s = run (finit g) ps ->
  keys (fknown s) = rev (map bid ps) ++ [0].
Proof. intros Hp ->. exact (proj1 (run_pfirst ps (finit g) Hp)). Qed.

Lemma core_process s b :
  Core s -> In b ds -> processed s (bpar b) = true -> processed s (bid b) = false ->
  Core (process s b) /\ keys (fknown (process s b)) = bid b :: keys (fknown s).
Proof.
  intros (ps & Hp & Hs & Hincl) Hb Hpar Hfresh.
  pose proof (core_keys s ps Hp Hs) as Hk.
  apply processed_true in Hpar. apply processed_false in Hfresh.
  split.
  - exists (ps ++ [b]). split; [|split].
    + apply pfirst_app. split; [exact Hp|]. cbn [pfirst]. rewrite <- Hk. tauto.
    + rewrite run_app, <- Hs. reflexivity.
    + intros x Hx. apply in_app_or in Hx. destruct Hx as [Hx|[<-|[]]]; [apply Hincl; exact Hx|exact Hb].
  - destruct (lookup (fknown s) (bpar b)) as [p|] eqn:Ep.
    2:{ apply lookup_none_keys in Ep. contradiction. }
    apply lookup_none_keys in Hfresh.
    rewrite (process_keys_fresh s b p Hfresh Ep). reflexivity.
Qed.

Definition unprocessed (s : fstate) (l : list block) : Prop :=
  forall o, In o l -> processed s (bid o) = false.
Definition settled (s : fstate) (l : list block) : Prop :=
  forall o, In o l -> processed s (bpar o) = false.

Lemma release_pass_spec : forall orph s,
  Core s -> incl orph ds -> NoDup (map bid orph) -> unprocessed s orph ->
  let '(s', kept) := release_pass s orph in
  Core s' /\ incl kept orph /\ NoDup (map bid kept) /\ unprocessed s' kept /\
  (forall o, In o orph -> In o kept \/ processed s' (bid o) = true) /\
  (forall i, processed s i = true -> processed s' i = true) /\
  (forall i, processed s' i = true -> processed s i = true \/ In i (map bid orph)) /\
  (length kept = length orph -> s' = s /\ settled s orph).
Proof.
  induction orph as [|b rest IH]; intros s HC Hin Hnd Hun; cbn [release_pass].
  - split; [exact HC|]. split; [apply incl_refl|]. split; [constructor|].
    split; [intros o []|]. split; [intros o []|]. split; [auto|].
    split; [intros i H; left; exact H|]. intros _. split; [reflexivity|intros o []].
  - inversion Hnd as [|? ? Hnotin Hnd']; subst.
    assert (Hinb : In b ds) by (apply Hin; left; reflexivity).
    assert (Hinrest : incl rest ds) by (intros x Hx; apply Hin; right; exact Hx).
    destruct (processed s (bpar b)) eqn:Epar.
    + (* released *)
      assert (Hfresh : processed s (bid b) = false) by (apply Hun; left; reflexivity).
      destruct (core_process s b HC Hinb Epar Hfresh) as [HC' Hkeys].
      assert (Hun' : unprocessed (process s b) rest).
      { intros o Ho. apply processed_false. rewrite Hkeys. intros [E|Hk].
        - apply Hnotin. rewrite E. apply in_map. exact Ho.
        - apply processed_true in Hk. rewrite (Hun o (or_intror Ho)) in Hk. discriminate. }
      specialize (IH (process s b) HC' Hinrest Hnd' Hun').
      destruct (release_pass (process s b) rest) as [s' kept].
      destruct IH as (H1 & H2 & H3 & H4 & H5 & H6 & H7 & H8).
      split; [exact H1|]. split; [intros x Hx; right; apply H2; exact Hx|].
      split; [exact H3|]. split; [exact H4|].
      split; [|split; [|split]].
      * intros o [<-|Ho]; [|apply H5; exact Ho]. right. apply H6.
        apply processed_true. rewrite Hkeys. left. reflexivity.
      * intros i Hi. apply H6. apply processed_true. rewrite Hkeys. right.
        apply processed_true. exact Hi.
      * intros i Hi. destruct (H7 i Hi) as [Hp|Hp].
        -- apply processed_true in Hp. rewrite Hkeys in Hp. destruct Hp as [<-|Hp].
           ++ right. left. reflexivity.
           ++ left. apply processed_true. exact Hp.
        -- right. right. exact Hp.
      * intros Hlen. exfalso. cbn [length] in Hlen.
        assert (length kept <= length rest)%nat.
        { apply NoDup_incl_length; [|exact H2].
          clear - H3. induction kept as [|k kept IHk]; [constructor|].
          cbn [map] in H3. inversion H3; subst. constructor; [|apply IHk; assumption].
          intros Hk. apply H1. apply in_map. exact Hk. }
        lia.
    + (* kept *)
      assert (Hun' : unprocessed s rest) by (intros o Ho; apply Hun; right; exact Ho).
      specialize (IH s HC Hinrest Hnd' Hun').
      destruct (release_pass s rest) as [s' kept].
      destruct IH as (H1 & H2 & H3 & H4 & H5 & H6 & H7 & H8).
      assert (Hbun : processed s' (bid b) = false).
      { destruct (processed s' (bid b)) eqn:E; [|reflexivity].
        destruct (H7 _ E) as [Hp|Hp].
        - rewrite (Hun b (or_introl eq_refl)) in Hp. discriminate.
        - contradiction. }
      split; [exact H1|]. split; [intros x [<-|Hx]; [left; reflexivity|right; apply H2; exact Hx]|].
      split.
      { cbn [map]. constructor; [|exact H3]. intros Hk. apply Hnotin.
        apply in_map_iff in Hk. destruct Hk as (x & Ex & Hx). apply in_map_iff. exists x.
        split; [exact Ex|apply H2; exact Hx]. }
      split; [intros o [<-|Ho]; [exact Hbun|apply H4; exact Ho]|].
      split; [intros o [<-|Ho]; [left; left; reflexivity|destruct (H5 o Ho); [left; right; assumption|right; assumption]]|].
      split; [exact H6|].
      split; [intros i Hi; destruct (H7 i Hi); [left; assumption|right; right; assumption]|].
      intros Hlen. cbn [length] in Hlen. destruct H8 as [Hs Hset]; [lia|].
      split; [exact Hs|]. intros o [<-|Ho]; [exact Epar|apply Hset; exact Ho].
Qed.

Lemma release_spec : forall fuel orph s,
  (length orph < fuel)%nat ->
  Core s -> incl orph ds -> NoDup (map bid orph) -> unprocessed s orph ->
  let '(s', kept) := release fuel s orph in
  Core s' /\ incl kept orph /\ NoDup (map bid kept) /\ unprocessed s' kept /\ settled s' kept /\
  (forall o, In o orph -> In o kept \/ processed s' (bid o) = true) /\
  (forall i, processed s i = true -> processed s' i = true) /\
  (forall i, processed s' i = true -> processed s i = true \/ In i (map bid orph)).
Proof.
  induction fuel as [|f IH]; intros orph s Hf HC Hin Hnd Hun; [lia|]. cbn [release].
  pose proof (release_pass_spec orph s HC Hin Hnd Hun) as HP.
  destruct (release_pass s orph) as [s1 kept1].
  destruct HP as (H1 & H2 & H3 & H4 & H5 & H6 & H7 & H8).
  destruct (Nat.eqb_spec (length kept1) (length orph)) as [E|E].
  - destruct (H8 E) as [-> Hset].
    split; [exact H1|]. split; [exact H2|]. split; [exact H3|]. split; [exact H4|].
    split; [intros o Ho; apply Hset; apply H2; exact Ho|]. split; [exact H5|]. split; [exact H6|exact H7].
  - assert (Hlen : (length kept1 <= length orph)%nat).
    { apply NoDup_incl_length; [|exact H2].
      clear - H3. induction kept1 as [|k kept IHk]; [constructor|].
      cbn [map] in H3. inversion H3; subst. constructor; [|apply IHk; assumption].
      intros Hk. apply H1. apply in_map. exact Hk. }
    assert (Hin1 : incl kept1 ds) by (intros x Hx; apply Hin; apply H2; exact Hx).
    specialize (IH kept1 s1 ltac:(lia) H1 Hin1 H3 H4).
    destruct (release f s1 kept1) as [s2 kept2].
    destruct IH as (I1 & I2 & I3 & I4 & I5 & I6 & I7 & I8).
    split; [exact I1|]. split; [intros x Hx; apply H2; apply I2; exact Hx|].
    split; [exact I3|]. split; [exact I4|]. split; [exact I5|].
    split; [|split; [intros i Hi; apply I7; apply H6; exact Hi|]].
    + intros o Ho. destruct (H5 o Ho) as [Hk|Hp]; [|right; apply I7; exact Hp].
      apply I6. exact Hk.
    + intros i Hi. destruct (I8 i Hi) as [Hp|Hp].
      * apply H7. exact Hp.
      * right. apply in_map_iff in Hp. destruct Hp as (x & Ex & Hx). apply in_map_iff.
        exists x. split; [exact Ex|apply H2; exact Hx].
Qed.

(* invariant of the delivery layer *)
Record DInv (seen : list block) (d : dstate) : Prop := mkDInv {
  di_core : Core (dcore d);
  di_orph_in : incl (dorph d) seen;
  di_orph_nd : NoDup (map bid (dorph d));
  di_unproc : unprocessed (dcore d) (dorph d);
  di_settled : settled (dcore d) (dorph d);
  (* nothing delivered is lost: processed, or waiting for an ancestor *)
  di_all : forall b, In b seen -> processed (dcore d) (bid b) = true \/ In b (dorph d);
  (* only delivered blocks are processed *)
  di_only : forall i, processed (dcore d) i = true -> i = 0 \/ exists b, In b seen /\ bid b = i
}.

Lemma existsb_bid (l : list block) b :
  existsb (fun o => N.eqb (bid o) (bid b)) l = true <-> exists o, In o l /\ bid o = bid b.
Proof.
  rewrite existsb_exists. split; intros (o & Ho & E); exists o; split; try assumption.
  - apply N.eqb_eq. exact E.
  - apply N.eqb_eq. exact E.
Qed.

Lemma deliver_inv seen d b :
  incl seen ds -> In b ds -> DInv seen d -> DInv (b :: seen) (deliver d b).
Proof.
  intros Hseen Hb [HC Hoi Hnd Hun Hset Hall Honly]. unfold deliver.
  destruct (processed (dcore d) (bid b)) eqn:Eproc.
  - (* duplicate of a processed block *)
    split; try assumption.
    + intros x Hx. right. apply Hoi. exact Hx.
    + intros x [<-|Hx]; [left; exact Eproc|apply Hall; exact Hx].
    + intros i Hi. destruct (Honly i Hi) as [?|(x & Hx & E)]; [left; assumption|].
      right. exists x. split; [right; exact Hx|exact E].
  - destruct (processed (dcore d) (bpar b)) eqn:Epar.
    + (* processed at once, then the orphans it connects *)
      destruct (core_process (dcore d) b HC Hb Epar Eproc) as [HC1 Hk1].
      (* b itself may be waiting as an orphan?  no: orphans have unprocessed parents *)
      assert (Hbnot : ~ In (bid b) (map bid (dorph d))).
      { intros Hin. apply in_map_iff in Hin. destruct Hin as (o & E & Ho).
        assert (o = b) by (apply ids_consistent; [apply Hseen; apply Hoi; exact Ho|exact Hb|exact E]).
        subst o. rewrite (Hset b Ho) in Epar. discriminate. }
      assert (Hun1 : unprocessed (process (dcore d) b) (dorph d)).
      { intros o Ho. apply processed_false. rewrite Hk1. intros [E|Hk].
        - apply Hbnot. rewrite E. apply in_map. exact Ho.
        - apply processed_true in Hk. rewrite (Hun o Ho) in Hk. discriminate. }
      assert (Hoids : incl (dorph d) ds) by (intros x Hx; apply Hseen; apply Hoi; exact Hx).
      pose proof (release_spec (S (length (dorph d))) (dorph d) (process (dcore d) b)
                    ltac:(lia) HC1 Hoids Hnd Hun1) as HR.
      destruct (release (S (length (dorph d))) (process (dcore d) b) (dorph d)) as [s2 kept].
      destruct HR as (R1 & R2 & R3 & R4 & R5 & R6 & R7 & R8).
      split; cbn [dcore dorph]; try assumption.
      * intros x Hx. right. apply Hoi. apply R2. exact Hx.
      * intros x [<-|Hx].
        -- left. apply R7. apply processed_true. rewrite Hk1. left. reflexivity.
        -- destruct (Hall x Hx) as [Hp|Ho].
           ++ left. apply R7. apply processed_true. rewrite Hk1. right. apply processed_true. exact Hp.
           ++ destruct (R6 x Ho); [right; assumption|left; assumption].
      * intros i Hi. destruct (R8 i Hi) as [Hp|Hp].
        -- apply processed_true in Hp. rewrite Hk1 in Hp. destruct Hp as [<-|Hp].
           ++ right. exists b. split; [left; reflexivity|reflexivity].
           ++ apply processed_true in Hp. destruct (Honly i Hp) as [?|(x & Hx & Ex)]; [left; assumption|].
              right. exists x. split; [right; exact Hx|exact Ex].
        -- right. apply in_map_iff in Hp. destruct Hp as (x & Ex & Hx).
           exists x. split; [right; apply Hoi; exact Hx|exact Ex].
    + destruct (existsb (fun o => N.eqb (bid o) (bid b)) (dorph d)) eqn:Edup.
      * (* duplicate of a waiting orphan *)
        apply existsb_bid in Edup. destruct Edup as (o & Ho & E).
        assert (o = b) by (apply ids_consistent; [apply Hseen; apply Hoi; exact Ho|exact Hb|exact E]).
        subst o.
        split; try assumption.
        -- intros x Hx. right. apply Hoi. exact Hx.
        -- intros x [<-|Hx]; [right; exact Ho|apply Hall; exact Hx].
        -- intros i Hi. destruct (Honly i Hi) as [?|(x & Hx & Ex)]; [left; assumption|].
           right. exists x. split; [right; exact Hx|exact Ex].
      * (* a new orphan *)
        assert (Hnew : ~ In (bid b) (map bid (dorph d))).
        { intros Hin. apply in_map_iff in Hin. destruct Hin as (o & E & Ho).
          assert (existsb (fun o => N.eqb (bid o) (bid b)) (dorph d) = true)
            by (apply existsb_bid; exists o; split; assumption).
          congruence. }
        split; cbn [dcore dorph]; try assumption.
        -- intros x [<-|Hx]; [left; reflexivity|right; apply Hoi; exact Hx].
        -- cbn [map]. constructor; assumption.
        -- intros o [<-|Ho]; [exact Eproc|apply Hun; exact Ho].
        -- intros o [<-|Ho]; [exact Epar|apply Hset; exact Ho].
        -- intros x [<-|Hx]; [right; left; reflexivity|].
           destruct (Hall x Hx); [left; assumption|right; right; assumption].
        -- intros i Hi. destruct (Honly i Hi) as [?|(x & Hx & Ex)]; [left; assumption|].
           right. exists x. split; [right; exact Hx|exact Ex].
Qed.

Definition d0 : dstate := mkD (finit g) [].

Lemma d0_inv : DInv [] d0.
Proof.
  split; cbn [dcore dorph d0].
  - exists []. split; [exact I|]. split; [reflexivity|intros x []].
  - intros x [].
  - constructor.
  - intros o [].
  - intros o [].
  - intros b [].
  - intros i Hi. left. unfold processed in Hi. cbn in Hi. destruct (N.eqb_spec i 0); [assumption|discriminate].
Qed.

Lemma drun_inv : forall sched seen d,
  incl seen ds -> incl sched ds -> DInv seen d -> DInv (rev sched ++ seen) (drun d sched).
Proof.
  unfold drun. induction sched as [|b sched IH]; intros seen d Hseen Hsched HI; cbn [fold_left rev app].
  - exact HI.
  - rewrite <- app_assoc. cbn [app]. apply IH.
    + intros x [<-|Hx]; [apply Hsched; left; reflexivity|apply Hseen; exact Hx].
    + intros x Hx. apply Hsched. right. exact Hx.
    + apply deliver_inv; [exact Hseen|apply Hsched; left; reflexivity|exact HI].
Qed.

(* a delivered block is connected when its whole ancestry down to genesis was delivered *)
Inductive conn : block -> Prop :=
| conn_root b : In b ds -> bpar b = 0 -> conn b
| conn_step b p : In b ds -> In p ds -> bid p = bpar b -> conn p -> conn b.

Lemma core_zero s : Core s -> processed s 0 = true.
Proof.
  intros (ps & Hp & Hs & _). apply processed_true. rewrite (core_keys s ps Hp Hs).
  apply in_or_app. right. left. reflexivity.
Qed.

(* blocks whose ancestors have all arrived are connected and processed: none is left waiting *)
Lemma conn_processed seen d :
  DInv seen d -> (forall b, In b ds -> In b seen) ->
  forall b, conn b -> processed (dcore d) (bid b) = true.
Proof.
  intros HI Hcover b Hc. induction Hc as [b Hb Hroot|b p Hb Hp Hbp _ IH].
  - destruct (di_all _ _ HI b (Hcover b Hb)) as [H|Ho]; [exact H|].
    pose proof (di_settled _ _ HI b Ho) as Hs. rewrite Hroot in Hs.
    rewrite (core_zero _ (di_core _ _ HI)) in Hs. discriminate.
  - destruct (di_all _ _ HI b (Hcover b Hb)) as [H|Ho]; [exact H|].
    pose proof (di_settled _ _ HI b Ho) as Hs. rewrite <- Hbp, IH in Hs. discriminate.
Qed.

Lemma pfirst_conn : forall ps dom,
  pfirst dom ps -> incl ps ds ->
  (forall i, In i dom -> i = 0 \/ exists p, In p ds /\ bid p = i /\ conn p) ->
  forall b, In b ps -> conn b.
Proof.
  induction ps as [|x ps IH]; intros dom Hpf Hincl Hdom b Hb; [destruct Hb|].
  cbn [pfirst] in Hpf. destruct Hpf as (Hpar & Hfresh & Hrest).
  assert (Hx : In x ds) by (apply Hincl; left; reflexivity).
  assert (Hcx : conn x).
  { destruct (Hdom _ Hpar) as [E0|(p & Hp & Ep & Hcp)].
    - apply conn_root; assumption.
    - eapply conn_step; eassumption. }
  destruct Hb as [<-|Hb]; [exact Hcx|].
  apply (IH (bid x :: dom)); try assumption.
  - intros y Hy. apply Hincl. right. exact Hy.
  - intros i [<-|Hi]; [right; exists x; auto|apply Hdom; exact Hi].
Qed.

Lemma processed_conn s b :
  Core s -> In b ds -> processed s (bid b) = true -> bid b <> 0 -> conn b.
Proof.
  intros (ps & Hp & Hs & Hincl) Hb Hproc Hn0.
  apply processed_true in Hproc. rewrite (core_keys s ps Hp Hs) in Hproc.
  apply in_app_or in Hproc. destruct Hproc as [Hin|[E|[]]]; [|congruence].
  apply in_rev, in_map_iff in Hin. destruct Hin as (x & Ex & Hx).
  assert (x = b) by (apply ids_consistent; [apply Hincl; exact Hx|exact Hb|exact Ex]). subst x.
  apply (pfirst_conn ps [0] Hp Hincl); [|exact Hx].
  intros i [<-|[]]. left. reflexivity.
Qed.

(* any two delivery schedules of the same blocks (any order, duplicates, any
   interleaving of arrival with processing) end with the same total
   difficulty, and the same tip unless two fully valid chains tie *)
Theorem delivery_order_independent sched1 sched2 :
  (forall b, In b ds -> bid b <> 0) ->
  (forall b, In b sched1 <-> In b ds) -> (forall b, In b sched2 <-> In b ds) ->
  let s1 := dcore (drun d0 sched1) in let s2 := dcore (drun d0 sched2) in
  ftip_td s1 = ftip_td s2 /\
  ((forall i inf, lookup (fknown s1) i = Some inf -> icok inf = true ->
                  itd inf = ftip_td s1 -> i = ftip s1) -> ftip s1 = ftip s2).
Proof.
  intros Hn0 Hc1 Hc2 s1 s2.
  assert (HI1 : DInv (rev sched1 ++ []) (drun d0 sched1)).
  { apply drun_inv; [intros x []|intros x Hx; apply Hc1; exact Hx|exact d0_inv]. }
  assert (HI2 : DInv (rev sched2 ++ []) (drun d0 sched2)).
  { apply drun_inv; [intros x []|intros x Hx; apply Hc2; exact Hx|exact d0_inv]. }
  assert (Hcov1 : forall b, In b ds -> In b (rev sched1 ++ [])).
  { intros b Hb. rewrite app_nil_r. apply -> in_rev. apply Hc1. exact Hb. }
  assert (Hcov2 : forall b, In b ds -> In b (rev sched2 ++ [])).
  { intros b Hb. rewrite app_nil_r. apply -> in_rev. apply Hc2. exact Hb. }
  pose proof (di_core _ _ HI1) as HC1. pose proof (di_core _ _ HI2) as HC2.
  fold s1 in HC1. fold s2 in HC2.
  destruct HC1 as (ps1 & Hp1 & Hs1 & Hin1). destruct HC2 as (ps2 & Hp2 & Hs2 & Hin2).
  assert (Hsame : forall b, In b ps1 <-> In b ps2).
  { assert (Hdir : forall (sa sb : fstate) psa psb seena seenb da db,
              pfirst [0] psa -> sa = run (finit g) psa -> incl psa ds ->
              pfirst [0] psb -> sb = run (finit g) psb -> incl psb ds ->
              DInv seena da -> dcore da = sa -> DInv seenb db -> dcore db = sb ->
              (forall b, In b ds -> In b seenb) ->
              forall b, In b psa -> In b psb).
    { intros sa sb psa psb seena seenb da db Hpa Hsa Hina Hpb Hsb Hinb HIa Ea HIb Eb Hcovb b Hb.
      assert (Hbds : In b ds) by (apply Hina; exact Hb).
      assert (Hca : conn b).
      { apply (processed_conn sa b); [exists psa; auto|exact Hbds| |apply Hn0; exact Hbds].
        apply processed_true. rewrite (core_keys sa psa Hpa Hsa). apply in_or_app. left.
        apply -> in_rev. apply in_map. exact Hb. }
      pose proof (conn_processed seenb db HIb Hcovb b Hca) as Hpb'. rewrite Eb in Hpb'.
      apply processed_true in Hpb'. rewrite (core_keys sb psb Hpb Hsb) in Hpb'.
      apply in_app_or in Hpb'. destruct Hpb' as [Hin|[E|[]]].
      - apply in_rev, in_map_iff in Hin. destruct Hin as (x & Ex & Hx).
        assert (x = b) by (apply ids_consistent; [apply Hinb; exact Hx|exact Hbds|exact Ex]).
        subst x. exact Hx.
      - exfalso. apply (Hn0 b Hbds). symmetry. exact E. }
    intros b. split.
    - apply (Hdir s1 s2 ps1 ps2 _ _ _ _ Hp1 Hs1 Hin1 Hp2 Hs2 Hin2 HI1 eq_refl HI2 eq_refl Hcov2).
    - apply (Hdir s2 s1 ps2 ps1 _ _ _ _ Hp2 Hs2 Hin2 Hp1 Hs1 Hin1 HI2 eq_refl HI1 eq_refl Hcov1). }
  destruct (order_independent g ps1 ps2 Hp1 Hp2 Hsame) as (_ & Htd & Htip).
  rewrite <- Hs1, <- Hs2 in Htd, Htip. split; [exact Htd|exact Htip].
Qed.

(* the tip is always the head of a fully valid chain and no processed fully
   valid chain is heavier; connected blocks are all processed *)
Theorem delivery_heaviest sched :
  (forall b, In b sched <-> In b ds) ->
  let d := drun d0 sched in
  FInv (dcore d) /\
  (forall b, conn b -> processed (dcore d) (bid b) = true) /\
  (forall o, In o (dorph d) -> processed (dcore d) (bpar o) = false).
Proof.
  intros Hc d.
  assert (HI : DInv (rev sched ++ []) d).
  { apply drun_inv; [intros x []|intros x Hx; apply Hc; exact Hx|exact d0_inv]. }
  split; [|split].
  - destruct (di_core _ _ HI) as (ps & _ & Hs & _). rewrite Hs. apply run_inv. apply finit_inv.
  - apply (conn_processed _ d HI). intros b Hb. rewrite app_nil_r. apply -> in_rev. apply Hc. exact Hb.
  - exact (di_settled _ _ HI).
Qed.
End Delivery.
