(* non-vacuity: a concrete block tree with a fork, an invalid block in the
   middle of the heavier branch and two delivery schedules (one of them
   child-before-parent across the fork point, with a duplicate) *)
From CKB Require Import Chain.ForkChoice Chain.ForkChoiceProofs.
Local Open Scope N_scope.

(*  0 - 1 - 2 - 3          (difficulty 10 each)
         \
          4 - 5(bad) - 6   (difficulty 30 each) *)
Definition ex_blocks : list block :=
  [mkB 1 0 10 true; mkB 2 1 10 true; mkB 3 2 10 true;
   mkB 4 1 30 true; mkB 5 4 30 false; mkB 6 5 30 true].
Definition ex_sched1 : list block := ex_blocks.
Definition ex_sched2 : list block :=
  [mkB 6 5 30 true; mkB 5 4 30 false; mkB 3 2 10 true; mkB 4 1 30 true;
   mkB 2 1 10 true; mkB 1 0 10 true; mkB 4 1 30 true].

Lemma ex_ids_consistent : forall b b', In b ex_blocks -> In b' ex_blocks -> bid b = bid b' -> b = b'.
Proof.
  intros b b' Hb Hb' E. cbn in Hb, Hb'.
  repeat (destruct Hb as [<-|Hb]; [repeat (destruct Hb' as [<-|Hb']; [first [reflexivity|discriminate E]|]); destruct Hb'|]).
  destruct Hb.
Qed.
Lemma ex_nonzero : forall b, In b ex_blocks -> bid b <> 0.
Proof. intros b Hb. cbn in Hb. repeat (destruct Hb as [<-|Hb]; [discriminate|]). destruct Hb. Qed.
Lemma ex_cover1 : forall b, In b ex_sched1 <-> In b ex_blocks.
Proof. intros b. reflexivity. Qed.
Lemma ex_cover2 : forall b, In b ex_sched2 <-> In b ex_blocks.
Proof. intros b. cbn. tauto. Qed.
Lemma ex_result :
  ftip_td (dcore (drun (d0 100) ex_sched1)) = 140 /\ ftip (dcore (drun (d0 100) ex_sched1)) = 4 /\
  ftip_td (dcore (drun (d0 100) ex_sched2)) = 140 /\ ftip (dcore (drun (d0 100) ex_sched2)) = 4.
Proof. vm_compute. repeat split; reflexivity. Qed.
