(* Chain/Crash.v — crashes during block import, on top of Chain/ForkChoice.v.
   Persistent: what verify_block commits in one RocksDB transaction (the
   records of processed blocks, the tip) — [dcore].  Volatile: the orphan pool
   and everything queued — lost.  A block whose body was stored but which was
   not yet processed is found again by InitLoadUnverified or sent again by a
   peer: a later delivery.  No proofs here. *)
From CKB Require Export Chain.ForkChoice.

Inductive cop := CDeliver (b : block) | CCrash.

Definition crash (d : dstate) : dstate := mkD (dcore d) [].

Definition cstep (d : dstate) (o : cop) : dstate :=
  match o with CDeliver b => deliver d b | CCrash => crash d end.
Definition crun (d : dstate) (ops : list cop) : dstate := fold_left cstep ops d.

(* the blocks the node still knows about: processed before the last crash, or
   delivered after it *)
Fixpoint cknown (d : dstate) (seen : list block) (ops : list cop) : list block :=
  match ops with
  | [] => seen
  | CDeliver b :: ops' => cknown (deliver d b) (b :: seen) ops'
  | CCrash :: ops' => cknown (crash d) (filter (fun b => processed (dcore d) (bid b)) seen) ops'
  end.

(* observation: tip total difficulty after each op *)
Fixpoint cobs (d : dstate) (ops : list cop) : list N :=
  match ops with
  | [] => []
  | o :: ops' => let d' := cstep d o in ftip_td (dcore d') :: cobs d' ops'
  end.

(* a crash case from the harness (sequential import): deliveries completed
   before the crash, the one in flight, then every block again; observed tip
   total difficulty right after the restart (start-up recovery finished) and
   at the end *)
Record ccase := mkCCase {
  cc_gtd : N; cc_done : list block; cc_inflight : list block; cc_all : list block;
  cc_td_restart : N; cc_td_final : N }.
Definition check_ccase (c : ccase) : bool :=
  let d0 := mkD (finit (cc_gtd c)) [] in
  let d1 := drun d0 (cc_done c) in
  let d2 := drun d1 (cc_inflight c) in
  (N.eqb (cc_td_restart c) (ftip_td (dcore d1)) || N.eqb (cc_td_restart c) (ftip_td (dcore d2))) &&
  N.eqb (cc_td_final c) (ftip_td (dcore (drun (crash d1) (cc_all c)))) &&
  N.eqb (cc_td_final c) (ftip_td (dcore (drun (crash d2) (cc_all c)))).
