(* Chain/ProposalProofs.v — the proposal view maintained by the chain service
   (and rebuilt at start-up) equals the on-chain proposal window, for every
   sequence of extensions, reorganisations and truncations. *)
From CKB Require Import Chain.Proposal.

Definition lookup (t : table) (k : nat) : list N :=
  match t k with Some ids => ids | None => [] end.

(* lowest height the table must still hold *)
Definition low (w : window) (ch : chain) : nat := Nat.max 1 (tip_of ch + 1 - w_far w).

Definition in_window (w : window) (ch : chain) (k : nat) : bool :=
  Nat.leb (low w ch) k && Nat.leb k (tip_of ch).

(* the table after finalize *)
Definition TInv (w : window) (ch : chain) (t : table) : Prop :=
  forall k, lookup t k = if in_window w ch k then props_at ch k else [].

(* the table between update_proposal_table and finalize: right inside the
   window, empty above the tip and at height 0, anything below the window *)
Definition PInv (w : window) (ch : chain) (t : table) : Prop :=
  forall k, (in_window w ch k = true -> lookup t k = props_at ch k) /\
            (tip_of ch < k -> lookup t k = []) /\ (k = 0 -> lookup t k = []).

Definition wf_window (w : window) : Prop := 1 <= w_close w <= w_far w.
Definition wf_chain (ch : chain) : Prop := ch <> [] /\ props_at ch 0 = [].

(* ---------- small facts ------------------------------------------------- *)
Lemma lookup_insert n ids t k :
  lookup (t_insert n ids t) k = if Nat.eqb k n then ids else lookup t k.
Proof. unfold lookup, t_insert. destruct (Nat.eqb k n); reflexivity. Qed.
Lemma lookup_remove n t k :
  lookup (t_remove n t) k = if Nat.eqb k n then [] else lookup t k.
Proof. unfold lookup, t_remove. destruct (Nat.eqb k n); reflexivity. Qed.
Lemma lookup_split s t k :
  lookup (t_split_off s t) k = if Nat.ltb k s then [] else lookup t k.
Proof. unfold lookup, t_split_off. destruct (Nat.ltb k s); reflexivity. Qed.

Lemma lookup_remove_range : forall n lo t k,
  lookup (remove_range lo n t) k = if Nat.leb lo k && Nat.ltb k (lo + n) then [] else lookup t k.
Proof.
  induction n as [|n IH]; intros lo t k; cbn [remove_range].
  - destruct (Nat.leb_spec lo k), (Nat.ltb_spec k (lo + 0)); cbn; try reflexivity; lia.
  - rewrite IH, lookup_remove.
    destruct (Nat.leb_spec (S lo) k), (Nat.ltb_spec k (S lo + n)), (Nat.eqb_spec k lo),
             (Nat.leb_spec lo k), (Nat.ltb_spec k (lo + S n)); cbn; try reflexivity; lia.
Qed.

Lemma lookup_insert_from ch : forall n lo t k,
  lookup (insert_from ch lo n t) k =
  if Nat.leb lo k && Nat.ltb k (lo + n) then props_at ch k else lookup t k.
Proof.
  induction n as [|n IH]; intros lo t k; cbn [insert_from].
  - destruct (Nat.leb_spec lo k), (Nat.ltb_spec k (lo + 0)); cbn; try reflexivity; lia.
  - rewrite IH, lookup_insert.
    destruct (Nat.leb_spec (S lo) k), (Nat.ltb_spec k (S lo + n)), (Nat.eqb_spec k lo),
             (Nat.leb_spec lo k), (Nat.ltb_spec k (lo + S n)); cbn; subst; try reflexivity; lia.
Qed.

Lemma t_range_lookup t lo hi :
  t_range t lo hi = flat_map (lookup t) (seq lo (S hi - lo)).
Proof. reflexivity. Qed.

Lemma flat_map_ext_in {A B} (f g : A -> list B) l :
  (forall x, In x l -> f x = g x) -> flat_map f l = flat_map g l.
Proof.
  induction l as [|a l IH]; intros H; cbn [flat_map]; [reflexivity|].
  rewrite (H a (or_introl eq_refl)), IH; [reflexivity|]. intros x Hx. apply H. right. exact Hx.
Qed.

(* heights from 0 or from 1 give the same union when the genesis block
   proposes nothing *)
Lemma union_from_zero ch lo hi :
  props_at ch 0 = [] ->
  flat_map (props_at ch) (seq lo (S hi - lo)) = union_props ch (heights lo hi).
Proof.
  intros Hg. unfold union_props, heights.
  destruct lo as [|lo].
  - cbn [Nat.max]. replace (S hi - 0) with (S hi) by lia. cbn [seq flat_map].
    rewrite Hg. cbn [app]. replace (S hi - 1) with hi by lia. reflexivity.
  - replace (Nat.max 1 (S lo)) with (S lo) by lia. reflexivity.
Qed.

(* ---------- finalize ---------------------------------------------------- *)
Lemma finalize_spec w ch t origin :
  wf_window w -> wf_chain ch -> PInv w ch t ->
  let '(t', removed, v) := finalize w t origin (tip_of ch) in
  TInv w ch t' /\ v_set v = set_spec w ch /\ v_gap v = gap_spec w ch /\
  removed = filter (fun x => negb (mem x (set_spec w ch))) (v_set origin).
Proof.
  intros [Hw1 Hw2] [Hne Hg] HP. unfold finalize.
  set (n := tip_of ch). set (c := n + 1).
  set (t' := if Nat.ltb 1 (c - w_far w) then t_split_off (c - w_far w) t else t).
  assert (HT : TInv w ch t').
  { intros k. unfold t', in_window, low. fold n. fold c.
    destruct (HP k) as (Hin & Habove & Hzero). unfold in_window, low in Hin. fold n in Hin, Habove. fold c in Hin.
    destruct (Nat.ltb_spec 1 (c - w_far w)) as [Hs|Hs].
    - rewrite lookup_split.
      replace (Nat.max 1 (c - w_far w)) with (c - w_far w) in * by lia.
      destruct (Nat.ltb_spec k (c - w_far w)) as [Hk|Hk].
      + destruct (Nat.leb_spec (c - w_far w) k); [lia|]. reflexivity.
      + destruct (Nat.leb_spec (c - w_far w) k); [|lia]. cbn [andb].
        destruct (Nat.leb_spec k n); [apply Hin; reflexivity|apply Habove; lia].
    - replace (Nat.max 1 (c - w_far w)) with 1 in * by lia.
      destruct (Nat.leb_spec 1 k) as [Hk|Hk]; cbn [andb].
      + destruct (Nat.leb_spec k n); [apply Hin; reflexivity|apply Habove; lia].
      + apply Hzero. lia. }
  (* what a range over t' reads *)
  assert (Hread : forall lo hi, hi <= n ->
            t_range t' lo hi = flat_map (props_at ch) (seq (Nat.max lo (c - w_far w)) (S hi - Nat.max lo (c - w_far w)))
            \/ True) by (intros; right; exact I).
  clear Hread.
  assert (Hlook : forall k, c - w_far w <= k <= n -> lookup t' k = props_at ch k).
  { intros k Hk. rewrite (HT k). unfold in_window, low. fold n. fold c.
    destruct (Nat.leb_spec (Nat.max 1 (c - w_far w)) k) as [H1|H1]; cbn [andb].
    - destruct (Nat.leb_spec k n); [reflexivity|lia].
    - assert (k = 0) by lia. subst k. symmetry. exact Hg. }
  assert (Hrange : forall lo hi, c - w_far w <= lo -> hi <= n ->
            t_range t' lo hi = union_props ch (heights lo hi)).
  { intros lo hi Hlo Hhi. rewrite t_range_lookup, <- (union_from_zero ch lo hi Hg).
    apply flat_map_ext_in. intros k Hk. apply in_seq in Hk. apply Hlook. lia. }
  unfold set_spec, gap_spec. fold n. fold c.
  destruct (Nat.leb_spec c (w_close w)) as [Hc|Hc].
  - (* chain shorter than w_close: nothing committable yet *)
    cbn [v_set v_gap]. split; [exact HT|]. split; [reflexivity|]. split; [|reflexivity].
    apply Hrange; lia.
  - cbn [v_set v_gap]. split; [exact HT|]. split; [apply Hrange; lia|].
    split; [apply Hrange; lia|]. rewrite Hrange by lia. reflexivity.
Qed.

(* ---------- update_proposal_table --------------------------------------- *)
Lemma tip_reorg ch common blocks :
  common <= tip_of ch -> ch <> [] ->
  tip_of (reorg_chain ch common blocks) = common + length blocks.
Proof.
  intros Hc Hne. unfold tip_of, reorg_chain in *. rewrite app_length, firstn_length.
  destruct ch; [contradiction|]. cbn [length] in *. lia.
Qed.

Lemma nth_firstn_lt {A} (d : A) : forall (l : list A) m k, k < m -> nth k (firstn m l) d = nth k l d.
Proof.
  induction l as [|a l IH]; intros m k Hk.
  - rewrite firstn_nil. reflexivity.
  - destruct m as [|m]; [lia|]. cbn [firstn]. destruct k as [|k]; [reflexivity|].
    cbn [nth]. apply IH. lia.
Qed.

Lemma props_reorg_low ch common blocks k :
  k <= common -> common <= tip_of ch -> ch <> [] ->
  props_at (reorg_chain ch common blocks) k = props_at ch k.
Proof.
  intros Hk Hc Hne. unfold props_at, reorg_chain, tip_of in *.
  rewrite app_nth1.
  - apply nth_firstn_lt. lia.
  - rewrite firstn_length. destruct ch; [contradiction|]. cbn [length] in *. lia.
Qed.

Lemma wf_reorg ch common blocks :
  wf_chain ch -> common <= tip_of ch -> wf_chain (reorg_chain ch common blocks).
Proof.
  intros [Hne Hg] Hc. split.
  - unfold reorg_chain. destruct ch; [contradiction|]. cbn [firstn app]. discriminate.
  - rewrite props_reorg_low by (assumption || lia). exact Hg.
Qed.

Lemma update_table_spec w ch t common blocks :
  wf_window w -> wf_chain ch -> common <= tip_of ch -> TInv w ch t ->
  PInv w (reorg_chain ch common blocks)
       (update_table w t (tip_of ch) common (reorg_chain ch common blocks)).
Proof.
  intros [Hw1 Hw2] [Hne Hg] Hc HT.
  set (ch' := reorg_chain ch common blocks).
  pose proof (tip_reorg ch common blocks Hc Hne) as Htip. fold ch' in Htip.
  assert (Hlowprops : forall k, k <= common -> props_at ch' k = props_at ch k).
  { intros k Hk. apply props_reorg_low; assumption. }
  unfold update_table.
  set (n := tip_of ch) in *. set (m := tip_of ch') in *.
  set (t1 := remove_range (S common) (n - common) t).
  set (t2 := insert_from ch' (S common) (m - common) t1).
  (* t2: new blocks above common, old table at and below common *)
  assert (H2 : forall k, lookup t2 k =
             if Nat.leb (S common) k && Nat.leb k m then props_at ch' k
             else if Nat.leb k common then lookup t k else []).
  { intros k. unfold t2, t1. rewrite lookup_insert_from, lookup_remove_range.
    destruct (Nat.leb_spec (S common) k), (Nat.ltb_spec k (S common + (m - common))),
             (Nat.leb_spec k m), (Nat.ltb_spec k (S common + (n - common))),
             (Nat.leb_spec k common); cbn [andb]; try reflexivity; try lia.
    (* above both tips: the old table is empty there *)
    rewrite (HT k). unfold in_window. fold n.
    destruct (Nat.leb_spec k n); [lia|]. rewrite andb_false_r. reflexivity. }
  assert (Hold : forall k, k <= common -> in_window w ch' k = true ->
                 in_window w ch k = true -> lookup t k = props_at ch' k).
  { intros k Hk _ Hin. rewrite (HT k), Hin. symmetry. apply Hlowprops. exact Hk. }
  destruct (Nat.ltb_spec common n) as [Hdet|Hdet].
  - (* blocks were detached *)
    destruct (Nat.ltb_spec (S common) 2) as [Hfront|Hfront].
    + (* common = 0: nothing below to reload *)
      assert (common = 0) by lia. subst common.
      intros k. rewrite H2. unfold in_window, low. fold m.
      split; [|split].
      * intros Hin. apply andb_true_iff in Hin. destruct Hin as [H1 H3].
        apply Nat.leb_le in H1, H3.
        destruct (Nat.leb_spec 1 k); [|lia]. destruct (Nat.leb_spec k m); [|lia]. reflexivity.
      * intros Hk. destruct (Nat.leb_spec 1 k); [|lia]. destruct (Nat.leb_spec k m); [lia|].
        cbn [andb]. destruct (Nat.leb_spec k 0); [lia|reflexivity].
      * intros ->. cbn [Nat.leb andb]. rewrite (HT 0). unfold in_window, low.
        destruct (Nat.leb_spec (Nat.max 1 (tip_of ch + 1 - w_far w)) 0); [lia|]. reflexivity.
    + set (ps := Nat.max 1 (m + 1 - w_far w)).
      intros k. rewrite lookup_insert_from, H2. unfold in_window, low. fold m. fold ps.
      split; [|split].
      * intros Hin. apply andb_true_iff in Hin. destruct Hin as [H1 H3].
        apply Nat.leb_le in H1, H3.
        destruct (Nat.leb_spec ps k); [|lia]. cbn [andb].
        destruct (Nat.ltb_spec k (ps + (S common - ps))) as [Hr|Hr]; [reflexivity|].
        destruct (Nat.leb_spec (S common) k); [|lia].
        destruct (Nat.leb_spec k m); [reflexivity|lia].
      * intros Hk.
        destruct (Nat.leb_spec ps k), (Nat.ltb_spec k (ps + (S common - ps))); cbn [andb]; try lia.
        all: destruct (Nat.leb_spec (S common) k), (Nat.leb_spec k m); cbn [andb]; try lia.
        all: destruct (Nat.leb_spec k common); [lia|reflexivity].
      * intros ->. destruct (Nat.leb_spec ps 0); [lia|]. cbn [andb Nat.leb].
        rewrite (HT 0). unfold in_window, low.
        destruct (Nat.leb_spec (Nat.max 1 (tip_of ch + 1 - w_far w)) 0); [lia|]. reflexivity.
  - (* pure extension: common = n *)
    assert (common = n) by lia. subst common.
    intros k. rewrite H2. unfold in_window, low. fold m.
    split; [|split].
    + intros Hin. apply andb_true_iff in Hin. destruct Hin as [H1 H3].
      apply Nat.leb_le in H1, H3.
      destruct (Nat.leb_spec (S n) k) as [Ha|Ha]; cbn [andb].
      * destruct (Nat.leb_spec k m); [reflexivity|lia].
      * destruct (Nat.leb_spec k n); [|lia].
        rewrite (HT k). unfold in_window, low. fold n.
        destruct (Nat.leb_spec (Nat.max 1 (n + 1 - w_far w)) k); [|lia].
        destruct (Nat.leb_spec k n); [|lia]. cbn [andb]. symmetry. apply Hlowprops. lia.
    + intros Hk. destruct (Nat.leb_spec (S n) k); [|lia]. destruct (Nat.leb_spec k m); [lia|].
      cbn [andb]. destruct (Nat.leb_spec k n); [lia|reflexivity].
    + intros ->. cbn [Nat.leb andb]. rewrite (HT 0). unfold in_window, low.
      destruct (Nat.leb_spec (Nat.max 1 (tip_of ch + 1 - w_far w)) 0); [lia|]. reflexivity.
Qed.

(* ---------- one step, any sequence of steps ------------------------------ *)
Definition PSInv (w : window) (s : pstate) : Prop :=
  wf_chain (p_chain s) /\ TInv w (p_chain s) (p_table s) /\
  v_set (p_view s) = set_spec w (p_chain s) /\ v_gap (p_view s) = gap_spec w (p_chain s).

Lemma reorg_spec w s common blocks :
  wf_window w -> PSInv w s -> common <= tip_of (p_chain s) ->
  let '(s', removed) := reorg w s common blocks in
  PSInv w s' /\ p_chain s' = reorg_chain (p_chain s) common blocks /\
  removed = filter (fun x => negb (mem x (set_spec w (p_chain s')))) (set_spec w (p_chain s)).
Proof.
  intros Hw (Hwf & HT & Hset & Hgap) Hc. unfold reorg.
  set (ch' := reorg_chain (p_chain s) common blocks).
  pose proof (wf_reorg _ common blocks Hwf Hc) as Hwf'. fold ch' in Hwf'.
  pose proof (update_table_spec w (p_chain s) (p_table s) common blocks Hw Hwf Hc HT) as HP.
  fold ch' in HP.
  pose proof (finalize_spec w ch' _ (p_view s) Hw Hwf' HP) as HF.
  destruct (finalize w (update_table w (p_table s) (tip_of (p_chain s)) common ch')
                     (p_view s) (tip_of ch')) as [[t2 removed] v].
  destruct HF as (HT' & Hs' & Hg' & Hr).
  split; [|split].
  - split; [exact Hwf'|]. split; [exact HT'|]. split; assumption.
  - reflexivity.
  - cbn [p_chain]. rewrite Hr, Hset. reflexivity.
Qed.

(* start-up reconstruction *)
Lemma init_table_spec w ch :
  wf_window w -> wf_chain ch ->
  let '(t, v) := init_table w ch in
  TInv w ch t /\ v_set v = set_spec w ch /\ v_gap v = gap_spec w ch.
Proof.
  intros Hw Hwf. unfold init_table.
  set (n := tip_of ch). set (ps := n - w_far w).
  assert (HP : PInv w ch (insert_from ch ps (S n - ps) t_empty)).
  { intros k. rewrite lookup_insert_from. unfold in_window, low. fold n.
    destruct Hwf as [Hne Hg].
    split; [|split].
    - intros Hin. apply andb_true_iff in Hin. destruct Hin as [H1 H3].
      apply Nat.leb_le in H1, H3.
      destruct (Nat.leb_spec ps k); [|lia].
      destruct (Nat.ltb_spec k (ps + (S n - ps))); [reflexivity|lia].
    - intros Hk. destruct (Nat.leb_spec ps k), (Nat.ltb_spec k (ps + (S n - ps))); cbn [andb]; try reflexivity; lia.
    - intros ->. destruct (Nat.leb_spec ps 0), (Nat.ltb_spec 0 (ps + (S n - ps))); cbn [andb]; try reflexivity.
      exact Hg. }
  pose proof (finalize_spec w ch _ view_empty Hw Hwf HP) as HF. fold n in HF.
  destruct (finalize w (insert_from ch ps (S n - ps) t_empty) view_empty n) as [[t' removed] v].
  destruct HF as (HT & Hs & Hg & _). auto.
Qed.

Lemma genesis_inv w : wf_window w -> PSInv w (genesis_state []).
Proof.
  intros [Hw1 Hw2]. unfold PSInv, genesis_state. cbn [p_chain p_table p_view].
  split; [split; [discriminate|reflexivity]|]. split; [|split].
  - intros k. unfold lookup, t_empty, in_window, low, tip_of. cbn [length].
    destruct (Nat.leb_spec (Nat.max 1 (1 - 1 + 1 - w_far w)) k), (Nat.leb_spec k (1 - 1)); cbn [andb]; try reflexivity; lia.
  - unfold set_spec, tip_of. cbn [length v_set view_empty].
    destruct (Nat.leb_spec (1 - 1 + 1) (w_close w)); [reflexivity|lia].
  - unfold gap_spec, tip_of. cbn [length v_gap view_empty].
    destruct (Nat.leb_spec (1 - 1 + 1) (w_close w)); [reflexivity|lia].
Qed.

(* valid operation sequences: a reorg keeps a prefix of the current chain *)
Fixpoint ops_ok (ch : chain) (ops : list pop) : Prop :=
  match ops with
  | [] => True
  | PReorg common blocks :: ops' =>
    common <= tip_of ch /\ ops_ok (reorg_chain ch common blocks) ops'
  | PRestart :: ops' => ops_ok ch ops'
  end.

Fixpoint prun_state (w : window) (s : pstate) (ops : list pop) : pstate :=
  match ops with
  | [] => s
  | o :: ops' => prun_state w (fst (pstep w s o)) ops'
  end.

Lemma pstep_inv w s o :
  wf_window w -> PSInv w s ->
  match o with PReorg common _ => common <= tip_of (p_chain s) | PRestart => True end ->
  PSInv w (fst (pstep w s o)) /\
  p_chain (fst (pstep w s o)) =
    match o with PReorg common blocks => reorg_chain (p_chain s) common blocks
               | PRestart => p_chain s end.
Proof.
  intros Hw HI Hok. destruct o as [common blocks|]; cbn [pstep].
  - pose proof (reorg_spec w s common blocks Hw HI Hok) as H.
    destruct (reorg w s common blocks) as [s' removed]. cbn [fst]. tauto.
  - destruct HI as (Hwf & HT & Hs & Hg).
    pose proof (init_table_spec w (p_chain s) Hw Hwf) as H.
    destruct (init_table w (p_chain s)) as [t v]. cbn [fst p_chain].
    split; [|reflexivity]. unfold PSInv. cbn [p_chain p_table p_view]. tauto.
Qed.

Theorem view_always_window w : wf_window w -> forall ops s,
  PSInv w s -> ops_ok (p_chain s) ops -> PSInv w (prun_state w s ops).
Proof.
  intros Hw. induction ops as [|o ops IH]; intros s HI Hok; cbn [prun_state]; [exact HI|].
  destruct o as [common blocks|]; cbn [ops_ok] in Hok.
  - destruct Hok as [Hc Hok].
    destruct (pstep_inv w s (PReorg common blocks) Hw HI Hc) as [HI' Hch].
    apply IH; [exact HI'|]. rewrite Hch. exact Hok.
  - destruct (pstep_inv w s PRestart Hw HI I) as [HI' Hch].
    apply IH; [exact HI'|]. rewrite Hch. exact Hok.
Qed.

(* the rebuilt view equals the incrementally maintained one *)
Theorem init_eq_incremental w s :
  wf_window w -> PSInv w s ->
  v_set (snd (init_table w (p_chain s))) = v_set (p_view s) /\
  v_gap (snd (init_table w (p_chain s))) = v_gap (p_view s).
Proof.
  intros Hw (Hwf & HT & Hs & Hg).
  pose proof (init_table_spec w (p_chain s) Hw Hwf) as H.
  destruct (init_table w (p_chain s)) as [t v]. cbn [snd]. destruct H as (_ & H1 & H2).
  rewrite H1, H2, Hs, Hg. split; reflexivity.
Qed.

(* ---------- the verifier's walk ----------------------------------------- *)
Lemma walk_spec ch ps : forall fuel pe acc,
  pe < fuel ->
  walk ch pe ps fuel acc =
  acc ++ flat_map (props_at ch) (rev (seq (Nat.max 1 ps) (S pe - Nat.max 1 ps))).
Proof.
  induction fuel as [|f IH]; intros pe acc Hf; [lia|]. cbn [walk].
  destruct (Nat.ltb_spec pe ps) as [H1|H1].
  - replace (S pe - Nat.max 1 ps) with 0 by lia. cbn. rewrite app_nil_r. reflexivity.
  - destruct (Nat.eqb_spec pe 0) as [H0|H0].
    + subst pe. replace (S 0 - Nat.max 1 ps) with 0 by lia. cbn. rewrite app_nil_r. reflexivity.
    + rewrite IH by lia. rewrite <- app_assoc. f_equal.
      replace (S pe - Nat.max 1 ps) with (S (pe - Nat.max 1 ps)) by lia.
      rewrite seq_S, rev_app_distr. cbn [rev app flat_map].
      replace (Nat.max 1 ps + (pe - Nat.max 1 ps)) with pe by lia.
      replace (S (pe - 1) - Nat.max 1 ps) with (pe - Nat.max 1 ps) by lia. reflexivity.
Qed.

Lemma in_flat_map_rev {A B} (f : A -> list B) l x :
  In x (flat_map f (rev l)) <-> In x (flat_map f l).
Proof.
  rewrite !in_flat_map. split; intros (y & Hy & Hx); exists y; split; try assumption.
  - apply in_rev. exact Hy.
  - apply in_rev in Hy. exact Hy.
Qed.

(* an id may be committed in the next block (the verifier's walk finds it)
   exactly when it is in the view's set *)
Theorem view_matches_verifier w ch x :
  wf_window w -> In x (verifier_window w ch) <-> In x (set_spec w ch).
Proof.
  intros [Hw1 Hw2]. unfold verifier_window, set_spec.
  set (c := tip_of ch + 1).
  rewrite walk_spec by lia. cbn [app]. rewrite in_flat_map_rev.
  destruct (Nat.leb_spec c (w_close w)) as [Hc|Hc].
  - replace (c - w_close w) with 0 by lia.
    replace (S 0 - Nat.max 1 (c - w_far w)) with 0 by lia. cbn. tauto.
  - unfold union_props, heights. tauto.
Qed.

(* ---------- corollaries over whole histories ------------------------------ *)
(* the view is a function of the chain alone: two histories (any reorgs,
   truncations and restarts) that end on the same chain end with the same
   committable and gap sets *)
Theorem view_history_independent w : wf_window w -> forall ops1 ops2,
  ops_ok [[]] ops1 -> ops_ok [[]] ops2 ->
  let s1 := prun_state w (genesis_state []) ops1 in
  let s2 := prun_state w (genesis_state []) ops2 in
  p_chain s1 = p_chain s2 ->
  v_set (p_view s1) = v_set (p_view s2) /\ v_gap (p_view s1) = v_gap (p_view s2).
Proof.
  intros Hw ops1 ops2 H1 H2 s1 s2 Hch.
  destruct (view_always_window w Hw ops1 (genesis_state []) (genesis_inv w Hw) H1) as (_ & _ & Hs1 & Hg1).
  destruct (view_always_window w Hw ops2 (genesis_state []) (genesis_inv w Hw) H2) as (_ & _ & Hs2 & Hg2).
  fold s1 in Hs1, Hg1. fold s2 in Hs2, Hg2. rewrite Hs1, Hs2, Hg1, Hg2, Hch. split; reflexivity.
Qed.

(* a restart at any point of any history rebuilds exactly the view the
   running node holds *)
Theorem restart_any_time w : wf_window w -> forall ops,
  ops_ok [[]] ops ->
  let s := prun_state w (genesis_state []) ops in
  v_set (snd (init_table w (p_chain s))) = v_set (p_view s) /\
  v_gap (snd (init_table w (p_chain s))) = v_gap (p_view s).
Proof.
  intros Hw ops Hok s. apply init_eq_incremental; [exact Hw|].
  exact (view_always_window w Hw ops (genesis_state []) (genesis_inv w Hw) Hok).
Qed.

(* after any history the ids the node offers for commitment are exactly the
   ids the block verifier's walk would accept in the next block *)
Theorem view_always_matches_verifier w : wf_window w -> forall ops x,
  ops_ok [[]] ops ->
  let s := prun_state w (genesis_state []) ops in
  In x (v_set (p_view s)) <-> In x (verifier_window w (p_chain s)).
Proof.
  intros Hw ops x Hok s.
  destruct (view_always_window w Hw ops (genesis_state []) (genesis_inv w Hw) Hok) as (_ & _ & Hs & _).
  fold s in Hs. rewrite Hs. symmetry. apply view_matches_verifier. exact Hw.
Qed.
