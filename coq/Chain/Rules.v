(* Chain/Rules.v — executable model of the block acceptance pipeline a miner's
   or peer's block goes through:
     verification/src/header_verifier.rs     PoW, number, epoch continuity, timestamp (median / future)
     traits/src/header_provider.rs           block_median_time
     verification/src/block_verifier.rs      structure (cellbase shape, roots, limits, duplicates) — as measured bits
     verification/contextual/src/uncles_verifier.rs   the uncle loop with its `included` map
     verification/contextual/src/contextual_block_verifier.rs  TwoPhaseCommitVerifier (window walk of Chain/Proposal.v),
                                             EpochVerifier (epoch ext / target), reward, DAO, extension, txs — bits decided
                                             by the models of C06 / C19 / C04
   and of the declarative rules they implement.  No proofs in this file. *)
From Coq Require Export List NArith Arith Bool Lia.
From CKB Require Export Chain.Proposal.
Export ListNotations.

(* ---- past median time -------------------------------------------------- *)
Fixpoint insert_n (x : N) (l : list N) : list N :=
  match l with
  | [] => [x]
  | y :: l' => if N.leb x y then x :: l else y :: insert_n x l'
  end.
Definition sort_n (l : list N) : list N := fold_right insert_n [] l.

(* timestamps of the parent, grandparent, … (at most [count], the walk stops
   at genesis = end of the list); "timestamps[len >> 1]" after sorting *)
Definition median_time (ancestors_ts : list N) (count : nat) : N :=
  let l := sort_n (firstn count ancestors_ts) in
  nth (length l / 2) l 0%N.

(* ---- header rules ------------------------------------------------------ *)
Record epochf := mkEF { e_num : N; e_idx : N; e_len : N }.
Definition ef_well_formed (e : epochf) : bool := N.ltb 0 (e_len e) && N.ltb (e_idx e) (e_len e).
Definition ef_is_genesis (e : epochf) : bool := N.eqb (e_num e) 0 && N.eqb (e_idx e) 0 && N.eqb (e_len e) 0.
Definition ef_successor (e p : epochf) : bool :=
  if N.eqb (e_idx p + 1) (e_len p)
  then N.eqb (e_num e) (e_num p + 1) && N.eqb (e_idx e) 0
  else N.eqb (e_num e) (e_num p) && N.eqb (e_idx e) (e_idx p + 1) && N.eqb (e_len e) (e_len p).

Record header_in := mkHI {
  h_pow : bool;
  h_number : N; h_parent_number : N;
  h_epoch : epochf; h_parent_epoch : epochf;
  h_ts : N; h_ancestors_ts : list N; h_median_count : nat; h_now : N
}.
Definition allowed_future : N := 15000.

Definition header_pipeline (h : header_in) : bool :=
  h_pow h &&
  N.eqb (h_number h) (h_parent_number h + 1) &&
  ef_well_formed (h_epoch h) &&
  (ef_is_genesis (h_parent_epoch h) || ef_successor (h_epoch h) (h_parent_epoch h)) &&
  N.ltb (median_time (h_ancestors_ts h) (h_median_count h)) (h_ts h) &&
  N.leb (h_ts h) (h_now h + allowed_future).

(* ---- uncles ------------------------------------------------------------ *)
Record uncle := mkU {
  u_id : N; u_parent : N; u_number : N; u_epoch : N;
  u_target_ok : bool;       (* compact_target = the block's epoch target *)
  u_props_ok : bool;        (* proposals within limit, hash matches, no duplicate *)
  u_pow : bool
}.
Record uncle_ctx := mkUC {
  uc_block_number : N; uc_block_epoch : N; uc_max : nat;
  uc_main_number : N -> option N;     (* store.get_block_number + header number: main-chain blocks *)
  uc_uncle_number : N -> option N;    (* store.get_uncle_header: uncles included on the main chain *)
  uc_known : N -> bool                (* double_inclusion: on the main chain or already an included uncle *)
}.

Fixpoint alookup_n (l : list (N * N)) (k : N) : option N :=
  match l with [] => None | (k', v) :: l' => if N.eqb k k' then Some v else alookup_n l' k end.

Definition descendant (c : uncle_ctx) (u : uncle) : bool :=
  match uc_main_number c (u_parent u) with
  | Some pn => N.eqb (pn + 1) (u_number u)
  | None => match uc_uncle_number c (u_parent u) with
            | Some pn => N.eqb (pn + 1) (u_number u)
            | None => false
            end
  end.

Fixpoint uncles_loop (c : uncle_ctx) (included : list (N * N)) (us : list uncle) : bool :=
  match us with
  | [] => true
  | u :: rest =>
    u_target_ok u &&
    N.eqb (uc_block_epoch c) (u_epoch u) &&
    N.ltb (u_number u) (uc_block_number c) &&
    ((match alookup_n included (u_parent u) with Some n => N.eqb (n + 1) (u_number u) | None => false end)
     || descendant c u) &&
    negb (match alookup_n included (u_id u) with Some _ => true | None => false end) &&
    negb (uc_known c (u_id u)) &&
    u_props_ok u && u_pow u &&
    uncles_loop c ((u_id u, u_number u) :: included) rest
  end.

Definition uncles_pipeline (c : uncle_ctx) (us : list uncle) : bool :=
  match us with
  | [] => true
  | _ => negb (N.eqb (uc_block_number c) 0) && Nat.leb (length us) (uc_max c) && uncles_loop c [] us
  end.

(* ---- the propose / commit window --------------------------------------- *)
(* [ch]: union proposal ids per height of the chain the block extends (its
   parent is the tip of [ch]); [committed]: proposal ids of the block's
   non-cellbase transactions *)
Definition commit_pipeline (w : window) (ch : chain) (committed : list N) : bool :=
  forallb (fun id => mem id (verifier_window w ch)) committed.

(* ---- the whole block ---------------------------------------------------- *)
Record block_in := mkBI {
  b_header : header_in;
  b_structure : bool;      (* BlockVerifier + NonContextualBlockTxsVerifier: cellbase shape, roots, size, cycles, proposal limit, duplicates *)
  b_epoch_ok : bool;       (* contextual EpochVerifier: epoch field and compact target equal next_epoch_ext (C07) *)
  b_uctx : uncle_ctx; b_uncles : list uncle;
  b_window : window; b_chain : chain; b_committed : list N;
  b_reward_ok : bool;      (* RewardVerifier (C06) *)
  b_dao_ok : bool;         (* DaoHeaderVerifier (C06) *)
  b_extension_ok : bool;   (* BlockExtensionVerifier (C19) *)
  b_txs_ok : bool          (* BlockTxsVerifier: resolve + transaction rules (C04) *)
}.

Definition block_pipeline (b : block_in) : bool :=
  header_pipeline (b_header b) &&
  b_structure b &&
  b_epoch_ok b &&
  uncles_pipeline (b_uctx b) (b_uncles b) &&
  commit_pipeline (b_window b) (b_chain b) (b_committed b) &&
  b_extension_ok b && b_reward_ok b && b_dao_ok b && b_txs_ok b.

(* ---- cases from the harness --------------------------------------------- *)
(* uncle context as association lists *)
Record rcase := mkRCase {
  rc_header : header_in;
  rc_structure : bool; rc_epoch_ok : bool;
  rc_block_number : N; rc_block_epoch : N; rc_max_uncles : nat;
  rc_main : list (N * N); rc_incl_uncles : list (N * N); rc_known : list N;
  rc_uncles : list uncle;
  rc_close : nat; rc_far : nat; rc_chain : chain; rc_committed : list N;
  rc_reward_ok : bool; rc_dao_ok : bool; rc_extension_ok : bool; rc_txs_ok : bool;
  rc_accepted : bool }.

Definition check_rcase (c : rcase) : bool :=
  Bool.eqb
    (block_pipeline
       (mkBI (rc_header c) (rc_structure c) (rc_epoch_ok c)
             (mkUC (rc_block_number c) (rc_block_epoch c) (rc_max_uncles c)
                   (alookup_n (rc_main c)) (alookup_n (rc_incl_uncles c))
                   (fun i => existsb (N.eqb i) (rc_known c)))
             (rc_uncles c) (mkW (rc_close c) (rc_far c)) (rc_chain c) (rc_committed c)
             (rc_reward_ok c) (rc_dao_ok c) (rc_extension_ok c) (rc_txs_ok c)))
    (rc_accepted c).
