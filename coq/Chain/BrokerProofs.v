(* Chain/BrokerProofs.v — with a snapshot published after every verified block, "the parent is
   there" as the orphan broker computes it (pending, or BlockExt in the PUBLISHED snapshot) is exactly
   "the parent has been handed to the verify thread or verified", and the orphan pool only ever holds
   blocks whose parent has been neither; without the refresh for some side blocks it parks the child
   of a verified block. *)
From CKB Require Import Chain.Broker.
From Coq Require Import List NArith Arith Bool Lia.
Import ListNotations.
Local Open Scope N_scope.

Lemma memN_In x l : memN x l = true <-> In x l.
Proof.
  unfold memN. rewrite existsb_exists. split.
  - intros (y & Hy & E). apply N.eqb_eq in E. subst. exact Hy.
  - intros H. exists x. split; [exact H | apply N.eqb_refl].
Qed.
Lemma memN_cons x y l : memN x (y :: l) = N.eqb x y || memN x l.
Proof. reflexivity. Qed.
Lemma memN_remN x y l : memN x (remN y l) = negb (N.eqb y x) && memN x l.
Proof.
  unfold remN. induction l as [|z l IH]; [cbn; rewrite andb_false_r; reflexivity|].
  cbn [filter]. destruct (N.eqb_spec y z) as [->|Hyz]; cbn [negb].
  - rewrite IH. rewrite memN_cons. destruct (N.eqb_spec z x) as [->|Hzx]; cbn.
    + reflexivity.
    + destruct (N.eqb_spec x z); [congruence|]. reflexivity.
  - rewrite !memN_cons, IH. destruct (N.eqb_spec x z) as [->|Hxz]; cbn.
    + destruct (N.eqb_spec y z); [congruence|]. reflexivity.
    + reflexivity.
Qed.

(* the snapshot shows exactly the store's BlockExts *)
Definition snap_current (s : bstate) : Prop := forall x, memN x (s_snap s) = memN x (s_ext s).
(* what is parked has a parent that has been neither handed over nor verified nor condemned *)
Definition pool_ok (s : bstate) : Prop :=
  forall b, In b (s_orph s) -> handled s (bb_par b) = false /\ parent_invalid s (bb_par b) = false.
(* what waits for the verify thread is pending, or (a duplicate delivery) already verified / condemned *)
Definition staged (s : bstate) (x : N) : bool := handled s x || memN x (s_invalid s).
Definition queue_ok (s : bstate) : Prop := forall b, In b (s_queue s) -> staged s (bb_id b) = true.
Definition binv (s : bstate) : Prop := snap_current s /\ pool_ok s /\ queue_ok s.

Lemma there_handled s p : snap_current s -> parent_there s p = handled s p.
Proof. intros H. unfold parent_there, handled. rewrite (H p). reflexivity. Qed.

(* ---- sweep ----------------------------------------------------------------- *)
Lemma sweep_ext_snap : forall pool s kept,
  s_ext (fst (sweep s pool kept)) = s_ext s /\ s_snap (fst (sweep s pool kept)) = s_snap s.
Proof.
  induction pool as [|b rest IH]; intros s kept; cbn [sweep]; [split; reflexivity|].
  destruct (parent_invalid s (bb_par b)); [destruct (IH (condemn s b) kept) as [A B]; split; [exact A|exact B]|].
  destruct (parent_there s (bb_par b)); [destruct (IH (enqueue s b) kept) as [A B]; split; [exact A|exact B]|].
  apply IH.
Qed.

Lemma sweep_len : forall pool s kept,
  (length (snd (sweep s pool kept)) <= length kept + length pool)%nat.
Proof.
  induction pool as [|b rest IH]; intros s kept; cbn [sweep].
  - cbn [snd]. rewrite rev_length. lia.
  - destruct (parent_invalid s (bb_par b)); [specialize (IH (condemn s b) kept); cbn [length]; lia|].
    destruct (parent_there s (bb_par b)); [specialize (IH (enqueue s b) kept); cbn [length]; lia|].
    specialize (IH s (b :: kept)). cbn [length] in *. lia.
Qed.

(* a sweep that keeps everything changed nothing and found every parent absent *)
Lemma sweep_all_kept : forall pool s kept,
  length (snd (sweep s pool kept)) = (length kept + length pool)%nat ->
  sweep s pool kept = (s, rev kept ++ pool) /\
  forall b, In b pool -> parent_there s (bb_par b) = false /\ parent_invalid s (bb_par b) = false.
Proof.
  induction pool as [|b rest IH]; intros s kept H; cbn [sweep] in *.
  - split; [rewrite app_nil_r; reflexivity | intros b []].
  - destruct (parent_invalid s (bb_par b)) eqn:Ei.
    { pose proof (sweep_len rest (condemn s b) kept). cbn [length] in H. lia. }
    destruct (parent_there s (bb_par b)) eqn:Et.
    { pose proof (sweep_len rest (enqueue s b) kept). cbn [length] in H. lia. }
    assert (H' : length (snd (sweep s rest (b :: kept))) = (length (b :: kept) + length rest)%nat)
      by (cbn [length] in *; lia).
    destruct (IH s (b :: kept) H') as [E A]. split.
    + rewrite E. cbn [rev]. rewrite <- app_assoc. reflexivity.
    + intros c [<-|Hc]; [split; assumption | apply A; exact Hc].
Qed.

(* a sweep only adds to pending / invalid *)
Lemma sweep_mono : forall pool s kept x,
  (memN x (s_pending s) = true -> memN x (s_pending (fst (sweep s pool kept))) = true) /\
  (memN x (s_invalid s) = true -> memN x (s_invalid (fst (sweep s pool kept))) = true).
Proof.
  induction pool as [|b rest IH]; intros s kept x; cbn [sweep]; [split; auto|].
  destruct (parent_invalid s (bb_par b)).
  { destruct (IH (condemn s b) kept x) as [A B]. split; [exact A|].
    intros H. apply B. cbn [condemn s_invalid]. rewrite memN_cons, H. apply orb_true_r. }
  destruct (parent_there s (bb_par b)).
  { destruct (IH (enqueue s b) kept x) as [A B]. split; [|exact B].
    intros H. apply A. cbn [enqueue s_pending]. rewrite memN_cons, H. apply orb_true_r. }
  apply IH.
Qed.

Lemma staged_mono s s' x :
  s_ext s' = s_ext s ->
  (forall y, memN y (s_pending s) = true -> memN y (s_pending s') = true) ->
  (forall y, memN y (s_invalid s) = true -> memN y (s_invalid s') = true) ->
  staged s x = true -> staged s' x = true.
Proof.
  intros He Hp Hi H. unfold staged, handled in *. rewrite He.
  apply orb_true_iff in H as [H|H]; [apply orb_true_iff in H as [H|H]|].
  - rewrite (Hp x H). reflexivity.
  - rewrite H, orb_true_r. reflexivity.
  - rewrite (Hi x H), orb_true_r. reflexivity.
Qed.

(* every entry of the channel after a sweep is staged, if those before were *)
Lemma sweep_queue_ok : forall pool s kept,
  queue_ok s -> queue_ok (fst (sweep s pool kept)).
Proof.
  induction pool as [|b rest IH]; intros s kept Hq; cbn [sweep]; [exact Hq|].
  destruct (parent_invalid s (bb_par b)).
  { apply IH. intros c Hc. cbn [condemn s_queue] in Hc.
    apply (staged_mono s); [reflexivity | auto | | apply Hq; exact Hc].
    intros y Hy. cbn [condemn s_invalid]. rewrite memN_cons, Hy. apply orb_true_r. }
  destruct (parent_there s (bb_par b)).
  { apply IH. intros c Hc. cbn [enqueue s_queue] in Hc. apply in_app_or in Hc as [Hc|[<-|[]]].
    - apply (staged_mono s); [reflexivity | | auto | apply Hq; exact Hc].
      intros y Hy. cbn [enqueue s_pending]. rewrite memN_cons, Hy. apply orb_true_r.
    - unfold staged, handled. cbn [enqueue s_pending]. rewrite memN_cons, N.eqb_refl. reflexivity. }
  apply IH. exact Hq.
Qed.

(* ---- settle ---------------------------------------------------------------- *)
Definition no_pool (s : bstate) : bstate := mkBS (s_ext s) (s_snap s) (s_invalid s) (s_pending s) (s_queue s) [].
Definition with_pool (s : bstate) (l : list bblk) : bstate := mkBS (s_ext s) (s_snap s) (s_invalid s) (s_pending s) (s_queue s) l.

Lemma settle_unfold f s :
  settle (S f) s =
  let '(s1, kept) := sweep (no_pool s) (s_orph s) [] in
  if Nat.eqb (length kept) (length (s_orph s)) then with_pool s1 kept else settle f (with_pool s1 kept).
Proof. reflexivity. Qed.

Lemma settle_ext_snap : forall fuel s,
  s_ext (settle fuel s) = s_ext s /\ s_snap (settle fuel s) = s_snap s.
Proof.
  induction fuel as [|f IH]; intros s; [split; reflexivity|]. rewrite settle_unfold.
  pose proof (sweep_ext_snap (s_orph s) (no_pool s) []) as [A B].
  destruct (sweep (no_pool s) (s_orph s) []) as [s1 kept] eqn:E. cbn [fst] in A, B.
  destruct (Nat.eqb (length kept) (length (s_orph s))).
  - split; [exact A | exact B].
  - destruct (IH (with_pool s1 kept)) as [C D]. cbn [with_pool s_ext s_snap] in C, D.
    rewrite C, D. split; [exact A | exact B].
Qed.

Lemma settle_queue_ok : forall fuel s, queue_ok s -> queue_ok (settle fuel s).
Proof.
  induction fuel as [|f IH]; intros s Hq; [exact Hq|]. rewrite settle_unfold.
  pose proof (sweep_queue_ok (s_orph s) (no_pool s) [] Hq) as Hq1.
  destruct (sweep (no_pool s) (s_orph s) []) as [s1 kept] eqn:E. cbn [fst] in Hq1.
  destruct (Nat.eqb (length kept) (length (s_orph s))); [exact Hq1 | apply IH; exact Hq1].
Qed.

Lemma settle_pool_ok : forall fuel s,
  snap_current s -> (length (s_orph s) < fuel)%nat -> pool_ok (settle fuel s).
Proof.
  induction fuel as [|f IH]; intros s Hc Hf; [lia|]. rewrite settle_unfold.
  pose proof (sweep_len (s_orph s) (no_pool s) []) as Hl.
  pose proof (sweep_ext_snap (s_orph s) (no_pool s) []) as [A B].
  destruct (sweep (no_pool s) (s_orph s) []) as [s1 kept] eqn:E. cbn [fst snd length] in *.
  destruct (Nat.eqb_spec (length kept) (length (s_orph s))) as [Heq|Hne].
  - (* nothing moved *)
    assert (H0 : length (snd (sweep (no_pool s) (s_orph s) [])) = (length (@nil bblk) + length (s_orph s))%nat)
      by (rewrite E; cbn; exact Heq).
    destruct (sweep_all_kept _ _ _ H0) as [E' Hall]. rewrite E in E'. injection E' as -> ->.
    intros b Hb. cbn [with_pool s_orph rev app] in Hb.
    destruct (Hall b Hb) as [Ht Hi]. split.
    + unfold handled. cbn [with_pool s_pending s_ext no_pool].
      unfold parent_there in Ht. cbn [s_pending s_snap no_pool] in Ht. rewrite <- (Hc (bb_par b)). exact Ht.
    + exact Hi.
  - apply IH.
    + intros x. cbn [with_pool s_snap s_ext]. rewrite A, B. apply Hc.
    + cbn [with_pool s_orph]. lia.
Qed.

(* ---- the steps --------------------------------------------------------------- *)
Definition accept1 (s : bstate) (b : bblk) : bstate :=
  if parent_there s (bb_par b) then enqueue s b
  else if parent_invalid s (bb_par b) then condemn s b
  else with_pool s (park (s_orph s) b).
Lemma accept_eq s b : accept s b = settle (S (length (s_orph (accept1 s b)))) (accept1 s b).
Proof. unfold accept, accept1, with_pool. reflexivity. Qed.

Lemma accept1_ext_snap s b : s_ext (accept1 s b) = s_ext s /\ s_snap (accept1 s b) = s_snap s.
Proof.
  unfold accept1. destruct (parent_there s (bb_par b)); [split; reflexivity|].
  destruct (parent_invalid s (bb_par b)); split; reflexivity.
Qed.

Lemma accept1_queue_ok s b : queue_ok s -> queue_ok (accept1 s b).
Proof.
  intros Hq. unfold accept1. destruct (parent_there s (bb_par b)).
  - intros c Hc. cbn [enqueue s_queue] in Hc. apply in_app_or in Hc as [Hc|[<-|[]]].
    + apply (staged_mono s); [reflexivity | | auto | apply Hq; exact Hc].
      intros y Hy. cbn [enqueue s_pending]. rewrite memN_cons, Hy. apply orb_true_r.
    + unfold staged, handled. cbn [enqueue s_pending]. rewrite memN_cons, N.eqb_refl. reflexivity.
  - destruct (parent_invalid s (bb_par b)).
    + intros c Hc. cbn [condemn s_queue] in Hc.
      apply (staged_mono s); [reflexivity | auto | | apply Hq; exact Hc].
      intros y Hy. cbn [condemn s_invalid]. rewrite memN_cons, Hy. apply orb_true_r.
    + exact Hq.
Qed.

Lemma accept_inv s b : binv s -> binv (accept s b).
Proof.
  intros (Hc & Hp & Hq). rewrite accept_eq.
  destruct (accept1_ext_snap s b) as [A B].
  assert (Hc1 : snap_current (accept1 s b)) by (intros x; rewrite A, B; apply Hc).
  split; [|split].
  - intros x. destruct (settle_ext_snap (S (length (s_orph (accept1 s b)))) (accept1 s b)) as [C D].
    rewrite C, D. apply Hc1.
  - apply settle_pool_ok; [exact Hc1 | lia].
  - apply settle_queue_ok. apply accept1_queue_ok. exact Hq.
Qed.

Lemma verify_inv s : binv s -> binv (verify always s).
Proof.
  intros (Hc & Hp & Hq). unfold verify. destruct (s_queue s) as [|b q] eqn:Eq; [split; [|split]; assumption|].
  assert (Hb : staged s (bb_id b) = true) by (apply Hq; rewrite Eq; left; reflexivity).
  assert (Hnot : forall c, In c (s_orph s) -> bb_par c <> bb_id b).
  { intros c Hcin E. destruct (Hp c Hcin) as [Hh Hi]. unfold staged in Hb. rewrite <- E in Hb.
    unfold parent_invalid in Hi. rewrite Hh, Hi in Hb. discriminate. }
  destruct (bb_ok b && negb (parent_invalid s (bb_par b))) eqn:Eok.
  - split; [|split].
    + intros x. cbn [s_snap s_ext]. unfold always. rewrite orb_true_r. reflexivity.
    + intros c Hcin. cbn [s_orph] in Hcin. destruct (Hp c Hcin) as [Hh Hi]. split; [|exact Hi].
      unfold handled in *. cbn [s_pending s_ext]. rewrite memN_remN, memN_cons.
      apply orb_false_iff in Hh as [Hpe Hex]. rewrite Hpe, Hex, andb_false_r, orb_false_r.
      destruct (N.eqb_spec (bb_par c) (bb_id b)) as [E|]; [exfalso; exact (Hnot c Hcin E) | reflexivity].
    + intros c Hcin. cbn [s_queue] in Hcin.
      assert (Hs : staged s (bb_id c) = true) by (apply Hq; rewrite Eq; right; exact Hcin).
      unfold staged, handled in *. cbn [s_pending s_ext s_invalid]. rewrite memN_remN, memN_cons.
      destruct (N.eqb_spec (bb_id b) (bb_id c)) as [E|Hne]; cbn [negb andb].
      * rewrite E, N.eqb_refl. reflexivity.
      * destruct (N.eqb_spec (bb_id c) (bb_id b)); [congruence|]. cbn [orb]. exact Hs.
  - split; [exact Hc|split].
    + intros c Hcin. cbn [s_orph] in Hcin. destruct (Hp c Hcin) as [Hh Hi]. split.
      * unfold handled in *. cbn [s_pending s_ext]. rewrite memN_remN.
        apply orb_false_iff in Hh as [Hpe Hex]. rewrite Hpe, Hex, andb_false_r. reflexivity.
      * unfold parent_invalid in *. cbn [s_invalid]. rewrite memN_cons, Hi, orb_false_r.
        destruct (N.eqb_spec (bb_par c) (bb_id b)) as [E|]; [exfalso; exact (Hnot c Hcin E) | reflexivity].
    + intros c Hcin. cbn [s_queue] in Hcin.
      assert (Hs : staged s (bb_id c) = true) by (apply Hq; rewrite Eq; right; exact Hcin).
      unfold staged, handled in *. cbn [s_pending s_ext s_invalid]. rewrite memN_remN, memN_cons.
      destruct (N.eqb_spec (bb_id b) (bb_id c)) as [E|Hne]; cbn [negb andb].
      * rewrite E, N.eqb_refl, orb_true_r. reflexivity.
      * destruct (N.eqb_spec (bb_id c) (bb_id b)); [congruence|]. cbn [orb]. exact Hs.
Qed.

Lemma binit_inv : binv binit.
Proof. split; [intros x; reflexivity | split; intros b []]. Qed.

(* C01, delivery layer: at every point of any interleaving of deliveries and verifications *)
Theorem broker_invariant : forall ops, binv (brun always binit ops).
Proof.
  intros ops. unfold brun. generalize binit_inv. generalize binit.
  induction ops as [|o ops IH]; intros s H; cbn [fold_left]; [exact H|].
  apply IH. destruct o as [b|]; cbn [bstep]; [apply accept_inv | apply verify_inv]; exact H.
Qed.

(* ... the broker's test is the abstract one, and nothing is parked whose parent has been handed over,
   verified or condemned *)
Theorem parked_iff_parent_unhandled : forall ops,
  let s := brun always binit ops in
  (forall p, parent_there s p = handled s p) /\
  (forall b, In b (s_orph s) -> handled s (bb_par b) = false /\ parent_invalid s (bb_par b) = false).
Proof.
  intros ops s. destruct (broker_invariant ops) as (Hc & Hp & _). split.
  - intros p. apply there_handled. exact Hc.
  - exact Hp.
Qed.

(* a delivered block whose parent has been handed over or verified goes to the verify thread at once *)
Theorem child_of_handled_parent_is_queued : forall ops b,
  let s := brun always binit ops in
  handled s (bb_par b) = true -> In b (s_queue (accept1 s b)) /\ s_orph (accept1 s b) = s_orph s.
Proof.
  intros ops b s H. destruct (broker_invariant ops) as (Hc & _ & _).
  unfold accept1. rewrite (there_handled s _ Hc), H. cbn [enqueue s_queue s_orph].
  split; [apply in_or_app; right; left; reflexivity | reflexivity].
Qed.

(* ---- the two reads of search_orphan_leader ------------------------------------------ *)
Lemma verify_keeps_ext s x : memN x (s_ext s) = true -> memN x (s_ext (verify always s)) = true.
Proof.
  intros H. unfold verify. destruct (s_queue s) as [|b q]; [exact H|].
  destruct (bb_ok b && negb (parent_invalid s (bb_par b))); cbn [s_ext]; [|exact H].
  rewrite memN_cons, H. apply orb_true_r.
Qed.
Lemma verify_n_inv k : forall s, binv s -> binv (verify_n k s).
Proof. induction k as [|k IH]; intros s H; cbn [verify_n]; [exact H | apply IH; apply verify_inv; exact H]. Qed.
Lemma verify_n_keeps_ext k : forall s x, memN x (s_ext s) = true -> memN x (s_ext (verify_n k s)) = true.
Proof. induction k as [|k IH]; intros s x H; cbn [verify_n]; [exact H | apply IH; apply verify_keeps_ext; exact H]. Qed.

(* read is_pending_verify first: a leader that has been handed over or verified is seen, however many
   blocks the verify thread completes between the two reads *)
Theorem pending_first_sees_handled_leader : forall ops p k,
  let s := brun always binit ops in
  handled s p = true -> leader_there true s (verify_n k s) p = true.
Proof.
  intros ops p k s H. pose proof (broker_invariant ops) as I. fold s in I.
  unfold leader_there, handled in *. apply orb_true_iff in H as [H|H]; [rewrite H; reflexivity|].
  destruct (verify_n_inv k s I) as (Hc & _ & _). rewrite (Hc p), (verify_n_keeps_ext k s p H). apply orb_true_r.
Qed.

(* read the status first: block 1 is pending at the first read, verified (snapshot published, no longer
   pending) at the second — seen as neither *)
Definition ex_racing : bstate := brun always binit [BAccept (mkBB 1 0 true true true)].
Lemma status_first_misses_leader :
  handled ex_racing 1 = true /\ handled (verify always ex_racing) 1 = true /\
  leader_there false ex_racing (verify always ex_racing) 1 = false /\
  leader_there true ex_racing (verify always ex_racing) 1 = true.
Proof. vm_compute. repeat split. Qed.

(* ---- the policy that refreshes only for blocks of the tip's epoch or later ------------------------ *)
(* main chain 1 <- 2 (block 2 starts a new epoch); then a fork 3 <- 4 from genesis whose blocks belong to
   the epoch the tip has left; 3 is verified as a side block, 4 is delivered after that *)
Definition ex_main1 := mkBB 1 0 true true true.
Definition ex_main2 := mkBB 2 1 true true true.
Definition ex_side3 := mkBB 3 0 true false false.
Definition ex_side4 := mkBB 4 3 true false false.
Definition ex_ops : list bop :=
  [BAccept ex_main1; BVerify; BAccept ex_main2; BVerify; BAccept ex_side3; BVerify; BAccept ex_side4].

Lemma recent_only_parks_child_of_verified :
  let s := brun recent_only binit ex_ops in
  memN 3 (s_ext s) = true /\ handled s 3 = true /\ parent_there s 3 = false /\
  s_queue s = [] /\ s_orph s = [ex_side4] /\
  (* the verify thread has nothing left to do: block 4 stays parked although its parent is verified *)
  brun recent_only s [BVerify; BVerify] = s.
Proof. vm_compute. repeat split. Qed.

Lemma always_connects_it :
  let s := brun always binit (ex_ops ++ [BVerify]) in
  memN 4 (s_ext s) = true /\ s_orph s = [] /\ s_queue s = [].
Proof. vm_compute. repeat split. Qed.
