(* Chain/EpochIndex.v — the epoch-by-number index (COLUMN_EPOCH rows keyed by epoch number; read by
   get_epoch_index: RPC get_epoch_by_number, Shared::freeze's threshold) against the main chain
   (property C02: every index contains the main chain's entries and nothing else).
     store/src/transaction.rs  attach_block: a block that opens an epoch (epoch().index() == 0) writes
                               number -> its own epoch record; detach_block removes that row
     chain/src/verify.rs       verify_block stores the epoch RECORD of every verified block that opens an
                               epoch, on any branch (insert_epoch_ext_record) — and, before the repair
                               427fd10, also the number row (insert_epoch_ext)
   The main chain is a stack of blocks (newest first); a block is (epoch number, opens its epoch?, epoch
   record id).  No proofs in this file. *)
From Coq Require Export List NArith Arith Bool Lia.
Export ListNotations.

Record eblk := mkEBk { k_enum : nat; k_head : bool; k_rec : nat }.
Definition eindex := list (nat * nat).         (* number -> record id, newest binding first *)

Fixpoint ilookup (ix : eindex) (n : nat) : option nat :=
  match ix with [] => None | (m, r) :: ix' => if Nat.eqb n m then Some r else ilookup ix' n end.
Definition iremove (ix : eindex) (n : nat) : eindex := filter (fun e => negb (Nat.eqb n (fst e))) ix.
Definition iput (ix : eindex) (n r : nat) : eindex := (n, r) :: iremove ix n.

Record xstate := mkXS { x_main : list eblk; x_index : eindex }.

Inductive xop :=
| XAttach (b : eblk)          (* attach_block of the next main-chain block *)
| XDetach                     (* detach_block of the tip *)
| XSideVerified (b : eblk).   (* verify_block of a block that does not become part of the main chain *)

(* [side_writes] = does verifying a side-branch block that opens an epoch write the number row *)
Definition xstep (side_writes : bool) (s : xstate) (o : xop) : xstate :=
  match o with
  | XAttach b => mkXS (b :: x_main s) (if k_head b then iput (x_index s) (k_enum b) (k_rec b) else x_index s)
  | XDetach =>
    match x_main s with
    | [] => s
    | b :: rest => mkXS rest (if k_head b then iremove (x_index s) (k_enum b) else x_index s)
    end
  | XSideVerified b =>
    if side_writes && k_head b then mkXS (x_main s) (iput (x_index s) (k_enum b) (k_rec b)) else s
  end.
Definition xrun (side_writes : bool) (s : xstate) (ops : list xop) : xstate := fold_left (xstep side_writes) ops s.

(* the specification: the record of the main-chain block that opens epoch n *)
Fixpoint main_epoch (main : list eblk) (n : nat) : option nat :=
  match main with
  | [] => None
  | b :: rest => if k_head b && Nat.eqb (k_enum b) n then Some (k_rec b) else main_epoch rest n
  end.

(* a main chain as the consensus rules make it: at most one block opens epoch n *)
Fixpoint heads_unique (main : list eblk) : Prop :=
  match main with
  | [] => True
  | b :: rest => (k_head b = true -> main_epoch rest (k_enum b) = None) /\ heads_unique rest
  end.
Definition attach_ok (s : xstate) (o : xop) : Prop :=
  match o with XAttach b => k_head b = true -> main_epoch (x_main s) (k_enum b) = None | _ => True end.
Fixpoint ops_ok (side_writes : bool) (s : xstate) (ops : list xop) : Prop :=
  match ops with [] => True | o :: ops' => attach_ok s o /\ ops_ok side_writes (xstep side_writes s o) ops' end.

Definition xinit (g : eblk) : xstate := xstep false (mkXS [] []) (XAttach g).
