(* Chain/EpochIndexProofs.v — the epoch-by-number index is, for every number, the epoch record of the
   main-chain block that opens that epoch (none when the main chain has no such block), after any
   sequence of attaches, detaches and side-branch verifications; with side-branch verifications
   writing the row it is not (F20). *)
From CKB Require Import Chain.EpochIndex.
From Coq Require Import List NArith Arith Bool Lia.
Import ListNotations.

Lemma ilookup_iremove ix n m : ilookup (iremove ix n) m = if Nat.eqb m n then None else ilookup ix m.
Proof.
  unfold iremove. induction ix as [|[k r] ix IH]; cbn [filter ilookup fst].
  - destruct (Nat.eqb m n); reflexivity.
  - destruct (Nat.eqb_spec n k) as [->|Hnk]; cbn [negb].
    + rewrite IH. destruct (Nat.eqb_spec m k); reflexivity.
    + cbn [ilookup]. rewrite IH. destruct (Nat.eqb_spec m k) as [->|Hmk].
      * destruct (Nat.eqb_spec k n); [congruence|reflexivity].
      * reflexivity.
Qed.
Lemma ilookup_iput ix n r m : ilookup (iput ix n r) m = if Nat.eqb m n then Some r else ilookup ix m.
Proof.
  unfold iput. cbn [ilookup]. destruct (Nat.eqb_spec m n) as [->|H]; [reflexivity|].
  rewrite ilookup_iremove. destruct (Nat.eqb_spec m n); [contradiction|reflexivity].
Qed.

Definition index_ok (s : xstate) : Prop :=
  heads_unique (x_main s) /\ forall n, ilookup (x_index s) n = main_epoch (x_main s) n.

Lemma step_ok s o : index_ok s -> attach_ok s o -> index_ok (xstep false s o).
Proof.
  intros [Hu Hi] Ha. destruct o as [b| |b]; cbn [xstep].
  - split.
    + cbn [x_main heads_unique]. split; [exact Ha | exact Hu].
    + intros n. cbn [x_main x_index main_epoch]. destruct (k_head b) eqn:Eh; cbn [andb].
      * rewrite ilookup_iput. destruct (Nat.eqb_spec n (k_enum b)) as [->|Hne].
        -- rewrite Nat.eqb_refl. reflexivity.
        -- destruct (Nat.eqb_spec (k_enum b) n); [congruence|]. apply Hi.
      * apply Hi.
  - unfold index_ok in *. destruct s as [m ix]. cbn [x_main x_index] in *. destruct m as [|b rest]; [split; assumption|].
    cbn [heads_unique] in Hu. destruct Hu as [Hb Hr]. split; [exact Hr|].
    intros n. cbn [x_main x_index]. specialize (Hi n). cbn [main_epoch] in Hi.
    destruct (k_head b) eqn:Eh; cbn [andb] in Hi.
    + rewrite ilookup_iremove. destruct (Nat.eqb_spec n (k_enum b)) as [->|Hne].
      * symmetry. apply Hb. reflexivity.
      * destruct (Nat.eqb_spec (k_enum b) n); [congruence|]. exact Hi.
    + exact Hi.
  - cbn [andb]. split; assumption.
Qed.

(* C02, epoch-by-number index *)
Theorem epoch_index_follows_main_chain : forall ops g,
  ops_ok false (xinit g) ops ->
  let s := xrun false (xinit g) ops in
  forall n, ilookup (x_index s) n = main_epoch (x_main s) n.
Proof.
  intros ops g Hok s n. subst s.
  assert (H0 : index_ok (xinit g)).
  { unfold xinit. apply step_ok; [split; [exact I | intros m; reflexivity] | cbn; reflexivity]. }
  revert H0 Hok. generalize (xinit g). unfold xrun.
  induction ops as [|o ops IH]; intros s H0 Hok; cbn [fold_left]; [apply H0|].
  destruct Hok as [Ha Hr]. apply IH; [apply step_ok; assumption | exact Hr].
Qed.

(* F20: main chain genesis(epoch 0) <- a(opens epoch 1, record 11); a side-branch block that opens epoch 1
   with record 21 is verified; with the row written by that verification the index designates the side
   branch's epoch *)
Definition ex_g := mkEBk 0 true 10.
Definition ex_a := mkEBk 1 true 11.
Definition ex_side := mkEBk 1 true 21.
Lemma side_writes_refuted :
  let ops := [XAttach ex_a; XSideVerified ex_side] in
  ops_ok true (xinit ex_g) ops /\
  ilookup (x_index (xrun true (xinit ex_g) ops)) 1 = Some 21 /\
  main_epoch (x_main (xrun true (xinit ex_g) ops)) 1 = Some 11 /\
  ilookup (x_index (xrun false (xinit ex_g) ops)) 1 = Some 11.
Proof. vm_compute. repeat split. Qed.

(* non-vacuity: a reorganisation across an epoch boundary and a truncation *)
Lemma epoch_index_example :
  let ops := [XAttach ex_a; XSideVerified ex_side; XDetach; XAttach ex_side; XDetach] in
  ops_ok false (xinit ex_g) ops /\
  ilookup (x_index (xrun false (xinit ex_g) (firstn 4 ops))) 1 = Some 21 /\
  ilookup (x_index (xrun false (xinit ex_g) ops)) 1 = None /\
  ilookup (x_index (xrun false (xinit ex_g) ops)) 0 = Some 10.
Proof. vm_compute. repeat split. Qed.
