(* Chain/Extension.v — the acceptance side of the chain-root commitment (property C19: "for every block
   on any fork, the chain root committed in its extension equals the MMR root over its ancestors' header
   digests"): verification/contextual/src/contextual_block_verifier.rs BlockExtensionVerifier::verify.
   Bytes are numbers; [root] is the 32-byte calc_mmr_hash of ChainRootMMR::get_root for the parent.
   No proofs in this file. *)
From Coq Require Export List NArith Arith Bool Lia.
Export ListNotations.

Inductive everr := ENoBlockExtension | EEmptyBlockExtension | EExceededMaximumBlockExtensionBytes
                 | EInvalidBlockExtension | EInvalidChainRoot | EUnknownFields | EInvalidExtraHash.

Record eblock := mkEB {
  e_extra_fields : nat;          (* block.data().count_extra_fields() *)
  e_ext : option (list N);       (* block.extension() *)
  e_extra_hash_ok : bool         (* calc_extra_hash().extra_hash() == header.extra_hash() *)
}.

Fixpoint bytes_eqb (a b : list N) : bool :=
  match a, b with
  | [], [] => true
  | x :: a', y :: b' => N.eqb x y && bytes_eqb a' b'
  | _, _ => false
  end.

Definition tail_check (b : eblock) : option everr :=
  if e_extra_hash_ok b then None else Some EInvalidExtraHash.

(* [min_len] = 32 in the code; a parameter so that the variant without the length check can be stated *)
Definition ext_verify_with (min_len : nat) (active : bool) (root : list N) (b : eblock) : option everr :=
  match e_extra_fields b with
  | 0 => if active then Some ENoBlockExtension else tail_check b
  | 1 =>
    match e_ext b with
    | None => Some EUnknownFields
    | Some bytes =>
      if Nat.eqb (length bytes) 0 then Some EEmptyBlockExtension
      else if Nat.ltb 96 (length bytes) then Some EExceededMaximumBlockExtensionBytes
      else if active then
        if Nat.ltb (length bytes) min_len then Some EInvalidBlockExtension
        else if bytes_eqb (firstn 32 bytes) root then tail_check b else Some EInvalidChainRoot
      else tail_check b
    end
  | _ => Some EUnknownFields
  end.
Definition ext_verify := ext_verify_with 32.
(* the variant that compares only when 32 bytes are there (checked slicing, no short-length rejection) *)
Definition ext_verify_lenient (active : bool) (root : list N) (b : eblock) : option everr :=
  match e_extra_fields b, e_ext b with
  | 1, Some bytes =>
    if Nat.eqb (length bytes) 0 then Some EEmptyBlockExtension
    else if Nat.ltb 96 (length bytes) then Some EExceededMaximumBlockExtensionBytes
    else if active && Nat.leb 32 (length bytes) && negb (bytes_eqb (firstn 32 bytes) root) then Some EInvalidChainRoot
    else tail_check b
  | _, _ => ext_verify active root b
  end.

(* ---- cases from the harness ---------------------------------------------------- *)
Record ecase := mkECase { ec_active : bool; ec_root : list N; ec_block : eblock; ec_accepted : bool }.
Definition check_ecase (c : ecase) : bool :=
  Bool.eqb (match ext_verify (ec_active c) (ec_root c) (ec_block c) with None => true | Some _ => false end) (ec_accepted c).
