(* Chain/Store.v — executable model of the canonical-chain columns of the
   store and of the functions that maintain them:
     store/src/transaction.rs  attach_block / detach_block
                               (COLUMN_TRANSACTION_INFO, COLUMN_INDEX, COLUMN_UNCLES)
     store/src/cell.rs         attach_block_cell / detach_block_cell
                               (COLUMN_CELL; COLUMN_CELL_DATA(_HASH) carry the same keys)
     chain/src/verify.rs       rollback (detach_block THEN detach_block_cell, newest
                               block first) and reconcile_main_chain (attach in order)
   and of the specification: replaying the main chain from genesis.

   A cell's output and data are determined by (tx id, index) (content
   addressing), so a live-cell entry is modelled by what the store adds to
   it: creating block, and index of the creating transaction in that block
   (block number and epoch follow from the block).  No proofs in this file. *)
From Coq Require Export List NArith Arith Bool Lia.
Export ListNotations.

Definition outpoint := (N * nat)%type.          (* tx id, output index *)
Definition op_eqb (a b : outpoint) : bool := N.eqb (fst a) (fst b) && Nat.eqb (snd a) (snd b).

Record tx := mkTx { txid : N; tins : list outpoint; nouts : nat }.
(* the first transaction of a block is its cellbase: its inputs are not spent *)
Record sblock := mkSB { sbid : N; sbnum : nat; sbtxs : list tx; sbuncles : list N }.

Record cellmeta := mkCM { cm_block : N; cm_txidx : nat }.
Record txloc := mkTL { tl_block : N; tl_idx : nat }.

Record store := mkS {
  cells  : outpoint -> option cellmeta;   (* COLUMN_CELL *)
  txinfo : N -> option txloc;             (* COLUMN_TRANSACTION_INFO *)
  num2id : nat -> option N;               (* COLUMN_INDEX number -> hash *)
  id2num : N -> option nat;               (* COLUMN_INDEX hash -> number *)
  uncles : N -> bool                      (* COLUMN_UNCLES *)
}.

Definition empty_store : store :=
  mkS (fun _ => None) (fun _ => None) (fun _ => None) (fun _ => None) (fun _ => false).

Definition upd_cell (k : outpoint) (v : option cellmeta) (f : outpoint -> option cellmeta) :=
  fun x => if op_eqb x k then v else f x.
Definition upd_N {A} (k : N) (v : A) (f : N -> A) := fun x => if N.eqb x k then v else f x.
Definition upd_nat {A} (k : nat) (v : A) (f : nat -> A) := fun x => if Nat.eqb x k then v else f x.

(* outputs of a transaction as out-points *)
Definition out_pts (t : tx) : list outpoint := map (fun i => (txid t, i)) (seq 0 (nouts t)).

(* ---- StoreTransaction::attach_block ------------------------------------ *)
Fixpoint attach_txinfo (bid : N) (idx : nat) (txs : list tx) (f : N -> option txloc) :=
  match txs with
  | [] => f
  | t :: txs' => attach_txinfo bid (S idx) txs' (upd_N (txid t) (Some (mkTL bid idx)) f)
  end.

Definition attach_block (s : store) (b : sblock) : store :=
  mkS (cells s)
      (attach_txinfo (sbid b) 0 (sbtxs b) (txinfo s))
      (upd_nat (sbnum b) (Some (sbid b)) (num2id s))
      (upd_N (sbid b) (Some (sbnum b)) (id2num s))
      (fold_left (fun f u => upd_N u true f) (sbuncles b) (uncles s)).

Definition detach_block (s : store) (b : sblock) : store :=
  mkS (cells s)
      (fold_left (fun f t => upd_N (txid t) None f) (sbtxs b) (txinfo s))
      (upd_nat (sbnum b) None (num2id s))
      (upd_N (sbid b) None (id2num s))
      (fold_left (fun f u => upd_N u false f) (sbuncles b) (uncles s)).

(* ---- attach_block_cell / detach_block_cell ------------------------------ *)
Fixpoint insert_outputs (bid : N) (idx : nat) (txs : list tx) (c : outpoint -> option cellmeta) :=
  match txs with
  | [] => c
  | t :: txs' =>
    insert_outputs bid (S idx) txs'
      (fold_left (fun f k => upd_cell k (Some (mkCM bid idx)) f) (out_pts t) c)
  end.

Definition spent_inputs (b : sblock) : list outpoint := flat_map tins (tl (sbtxs b)).
Definition all_outputs (b : sblock) : list outpoint := flat_map out_pts (sbtxs b).

Definition attach_block_cell (s : store) (b : sblock) : store :=
  let c1 := insert_outputs (sbid b) 0 (sbtxs b) (cells s) in
  let c2 := fold_left (fun f k => upd_cell k None f) (spent_inputs b) c1 in
  mkS c2 (txinfo s) (num2id s) (id2num s) (uncles s).

(* restore the spent inputs whose creating transaction is (still) in the
   transaction-info index, then remove the block's own outputs *)
Definition restore_input (ti : N -> option txloc) (k : outpoint) (c : outpoint -> option cellmeta) :=
  match ti (fst k) with
  | Some loc => upd_cell k (Some (mkCM (tl_block loc) (tl_idx loc))) c
  | None => c
  end.

Definition detach_block_cell (s : store) (b : sblock) : store :=
  let c1 := fold_left (fun f k => restore_input (txinfo s) k f) (spent_inputs b) (cells s) in
  let c2 := fold_left (fun f k => upd_cell k None f) (all_outputs b) c1 in
  mkS c2 (txinfo s) (num2id s) (id2num s) (uncles s).

(* chain/src/verify.rs: reconcile_main_chain attaches; rollback detaches *)
Definition attach (s : store) (b : sblock) : store := attach_block_cell (attach_block s b) b.
Definition detach (s : store) (b : sblock) : store := detach_block_cell (detach_block s b) b.

(* the specification: replay of the main chain (genesis first) *)
Definition replay (chain : list sblock) : store := fold_left attach chain empty_store.

(* a reorganisation: detach [detached] newest first, attach [attached] in order *)
Definition reorg (s : store) (detached attached : list sblock) : store :=
  fold_left attach attached (fold_left detach (rev detached) s).

(* ---- observations for the correspondence check -------------------------- *)
Definition opt_eqb {A} (e : A -> A -> bool) (a b : option A) : bool :=
  match a, b with Some x, Some y => e x y | None, None => true | _, _ => false end.
Definition cm_eqb (a b : cellmeta) := N.eqb (cm_block a) (cm_block b) && Nat.eqb (cm_txidx a) (cm_txidx b).
Definition tl_eqb (a b : txloc) := N.eqb (tl_block a) (tl_block b) && Nat.eqb (tl_idx a) (tl_idx b).

Fixpoint alookup {K V} (e : K -> K -> bool) (l : list (K * V)) (k : K) : option V :=
  match l with [] => None | (k', v) :: l' => if e k k' then Some v else alookup e l' k end.

(* what the implementation's columns contained (dumped by iteration) *)
Record sdump := mkDump {
  d_cells : list (outpoint * cellmeta);
  d_txinfo : list (N * txloc);
  d_index : list (nat * N);
  d_uncles : list N }.

(* compare the model store with a dump on every key that can occur: all
   out-points / tx ids / numbers / block ids / uncle ids of [universe], and
   the dump must not contain more entries than the model has live keys *)
Definition keys_ops (u : list sblock) : list outpoint := flat_map all_outputs u.
Definition keys_tx (u : list sblock) : list N := flat_map (fun b => map txid (sbtxs b)) u.

Definition count_some {K V} (f : K -> option V) (ks : list K) : nat :=
  length (filter (fun k => match f k with Some _ => true | None => false end) ks).

Fixpoint nodup_ops (l : list outpoint) : list outpoint :=
  match l with [] => [] | x :: l' => if existsb (op_eqb x) l' then nodup_ops l' else x :: nodup_ops l' end.
Fixpoint nodup_N (l : list N) : list N :=
  match l with [] => [] | x :: l' => if existsb (N.eqb x) l' then nodup_N l' else x :: nodup_N l' end.

Definition dump_matches (u : list sblock) (s : store) (d : sdump) : bool :=
  let ops := nodup_ops (keys_ops u) in
  let txs := nodup_N (keys_tx u) in
  forallb (fun k => opt_eqb cm_eqb (cells s k) (alookup op_eqb (d_cells d) k)) ops &&
  Nat.eqb (count_some (cells s) ops) (length (d_cells d)) &&
  forallb (fun k => opt_eqb tl_eqb (txinfo s k) (alookup N.eqb (d_txinfo d) k)) txs &&
  Nat.eqb (count_some (txinfo s) txs) (length (d_txinfo d)) &&
  forallb (fun b => opt_eqb N.eqb (num2id s (sbnum b)) (alookup Nat.eqb (d_index d) (sbnum b))) u &&
  forallb (fun b => opt_eqb Nat.eqb (id2num s (sbid b))
                      (match alookup N.eqb (map (fun p => (snd p, fst p)) (d_index d)) (sbid b) with
                       | Some n => Some n | None => None end)) u &&
  forallb (fun b => forallb (fun un => Bool.eqb (uncles s un) (existsb (N.eqb un) (d_uncles d))) (sbuncles b)) u.

(* a history of main-chain changes on a real node: after each change the
   columns were dumped.  [sc_steps]: (detached, attached, dump) *)
Record scase := mkSCase {
  sc_genesis : sblock;
  sc_universe : list sblock;
  sc_steps : list (list sblock * list sblock * sdump) }.

Fixpoint check_steps (u : list sblock) (s : store) (steps : list (list sblock * list sblock * sdump)) : bool :=
  match steps with
  | [] => true
  | (det, att, d) :: steps' =>
    let s' := reorg s det att in
    dump_matches u s' d && check_steps u s' steps'
  end.
Definition check_scase (c : scase) : bool :=
  check_steps (sc_genesis c :: sc_universe c) (attach empty_store (sc_genesis c)) (sc_steps c).
