(* Indexer/Query.v — executable model of the RPC query layer
   util/indexer/src/service.rs: build_query_options, FilterOptions,
   IndexerHandle::{get_cells, get_transactions (ungrouped / grouped),
   get_cells_capacity, get_indexer_tip}; and the case checkers the
   correspondence harness (hx-indexer) feeds.  No proofs here. *)
From CKB Require Export Indexer.Indexer.

Inductive dmode := DPrefix | DExact | DPartial.
Record filter_opts := mkF {
  f_script : option script;            (* the other script of the cell *)
  f_slen : option (N * N);
  f_data : option (list N * dmode);
  f_dlen : option (N * N);
  f_cap : option (N * N);
  f_block : option (N * N) }.
Definition no_filter := mkF None None None None None None.

(* a search: script type, script bytes, exact/prefix mode, order, limit, cursor
   (key bytes without the KeyPrefix byte) *)
Record squery := mkSQ {
  sq_lock : bool; sq_script : script; sq_exact : bool; sq_desc : bool;
  sq_limit : nat; sq_after : option (list N); sq_f : filter_opts }.

Definition in_range (r : option (N * N)) (x : N) : bool :=       (* [r0, r1) *)
  match r with None => true | Some (a, b) => N.leb a x && N.ltb x b end.
Definition in_range_incl (r : option (N * N)) (x : N) : bool :=  (* [r0, r1] *)
  match r with None => true | Some (a, b) => N.leb a x && N.leb x b end.
Fixpoint tails {A} (l : list A) : list (list A) :=
  match l with [] => [[]] | _ :: r => l :: tails r end.
Definition data_match (f : option (list N * dmode)) (d : list N) : bool :=
  match f with
  | None => true
  | Some (p, DPrefix) => is_prefix p d
  | Some (p, DExact) => list_eqb N.eqb p d
  | Some (p, DPartial) => existsb (is_prefix p) (tails d)     (* memmem::find *)
  end.
Definition nlen {A} (l : list A) : N := N.of_nat (length l).

(* the filter_map body of get_cells and get_cells_capacity.  [cap] = true is
   get_cells_capacity as it was before fix b7a7b39 (upper bound of
   script_len_range inclusive), kept for QueryProofs.capacity_old_refuted *)
Definition cell_pass (cap : bool) (lockq : bool) (f : filter_opts) (bn : N) (o : output) : bool :=
  let other := if lockq then o_type o else Some (o_lock o) in
  (match f_script f with
   | None => true
   | Some p => match other with Some s => is_prefix p s | None => false end
   end)
  && (let l := match other with Some s => nlen s | None => 0%N end in
      if cap then in_range_incl (f_slen f) l else in_range (f_slen f) l)
  && data_match (f_data f) (o_data o)
  && in_range (f_dlen f) (nlen (o_data o))
  && in_range (f_cap f) (o_cap o)
  && in_range (f_block f) bn.

(* k <= p ++ 0xff 0xff …  (the Desc start key; keys are far shorter than 64 KiB
   and bytes are <= 255) *)
Fixpoint lex_le_top (k p : list N) : bool :=
  match k, p with
  | [], _ => true
  | _ :: _, [] => true
  | x :: k', y :: p' => N.ltb x y || (N.eqb x y && lex_le_top k' p')
  end.

Fixpoint take_while {A} (f : A -> bool) (l : list A) : list A :=
  match l with [] => [] | x :: r => if f x then x :: take_while f r else [] end.

(* snapshot.iterator(IteratorMode::From(from_key, direction)).skip(skip)
   .take_while(|(key, _)| key.starts_with(&prefix)) over one key-prefix table.
   Rows of other tables sort entirely before or after and never pass the
   take_while; a cursor is assumed to carry the table's own KeyPrefix byte. *)
Section Iter.
  Context {A : Type} (keyof : A -> list N).
  Definition iter_rows (rows : list A) (p : list N) (desc : bool) (after : option (list N)) : list A :=
    let it :=
      match desc, after with
      | false, None => sort_by keyof (filter (fun r => lex_leb p (keyof r)) rows)
      | false, Some c => skipn 1 (sort_by keyof (filter (fun r => lex_leb c (keyof r)) rows))
      | true, None => rev (sort_by keyof (filter (fun r => lex_le_top (keyof r) p) rows))
      | true, Some c => skipn 1 (rev (sort_by keyof (filter (fun r => lex_leb (keyof r) c) rows)))
      end in
    take_while (fun r => is_prefix p (keyof r)) it.
End Iter.

Definition cell_result := (N * N * N * N * N)%type.        (* tx, index, block number, tx index, capacity *)
Definition last_key {A} (keyof : A -> list N) (l : list A) : list N :=
  match rev l with [] => [] | x :: _ => keyof x end.

Section Cells.
  Variable st : store.
  Variable q : squery.
  Variable cap : bool.
  Fixpoint collect_cells (lim : nat) (rows : list crow) : option (list (crow * cell_result)) :=
    match rows with
    | [] => Some []
    | r :: rows' =>
      match lim with
      | O => Some []
      | S lim' =>
        if sq_exact q && negb (Nat.eqb (length (crow_key r)) (length (sq_script q) + 16)) then collect_cells lim rows'
        else match get st (KOutPoint (cr_tx r, cr_oi r)) with
             | Some (VCell bn txi o) =>
                 if cell_pass cap (sq_lock q) (sq_f q) bn o
                 then option_map (cons (r, (cr_tx r, cr_oi r, bn, txi, o_cap o))) (collect_cells lim' rows')
                 else collect_cells lim rows'
             | _ => None                                   (* expect("stored OutPoint") *)
             end
      end
    end.
End Cells.

Definition get_cells (st : store) (q : squery) : option (list cell_result * list N) :=
  let rows := iter_rows crow_key (cell_rows (sq_lock q) st) (sq_script q) (sq_desc q) (sq_after q) in
  match collect_cells st q false (sq_limit q) rows with
  | Some l => Some (map snd l, last_key crow_key (map fst l))
  | None => None
  end.

(* order Asc, no cursor, no limit; answers None when there is no tip *)
Definition get_cells_capacity (st : store) (q : squery) : option (option (N * N * N)) :=
  let rows := iter_rows crow_key (cell_rows (sq_lock q) st) (sq_script q) false None in
  match collect_cells st q false (S (length rows)) rows with
  | Some l =>
      let total := fold_left N.add (map (fun x => snd (snd x)) l) 0%N in
      Some (match tip st with Some (n, i) => Some (total, n, i) | None => None end)
  | None => None
  end.

Definition tx_result := (N * N * N * N * bool)%type.        (* tx, block number, tx index, io index, is_output *)
Definition trow_pass (st : store) (q : squery) (r : trow) : bool :=
  (match f_script (sq_f q) with
   | None => true
   | Some fs =>
       match get st (if sq_lock q then KTxType fs (tr_bn r) (tr_txi r) (tr_ioi r) (tr_out r)
                     else KTxLock fs (tr_bn r) (tr_txi r) (tr_ioi r) (tr_out r)) with
       | Some _ => true | None => false end
   end)
  && in_range (f_block (sq_f q)) (tr_bn r).
Definition trow_exact_skip (q : squery) (r : trow) : bool :=
  sq_exact q && negb (Nat.eqb (length (trow_key r)) (length (sq_script q) + 17)).

Fixpoint collect_txs (st : store) (q : squery) (lim : nat) (rows : list trow) : list trow :=
  match rows with
  | [] => []
  | r :: rows' =>
    match lim with
    | O => []
    | S lim' =>
      if trow_exact_skip q r then collect_txs st q lim rows'
      else if trow_pass st q r then r :: collect_txs st q lim' rows'
      else collect_txs st q lim rows'
    end
  end.
Definition get_transactions (st : store) (q : squery) : list tx_result * list N :=
  let rows := iter_rows trow_key (tx_rows (sq_lock q) st) (sq_script q) (sq_desc q) (sq_after q) in
  let l := collect_txs st q (sq_limit q) rows in
  (map (fun r => (tr_tx r, tr_bn r, tr_txi r, tr_ioi r, tr_out r)) l, last_key trow_key l).

(* group_by_transaction: the loop of get_transactions, statement by statement.
   [acc] holds the groups newest first; the cursor is updated before the
   filters are applied. *)
Definition group := (N * N * N * list (bool * N))%type.     (* tx, block number, tx index, cells (is_output, io index) *)
Fixpoint group_loop (st : store) (q : squery) (rows : list trow) (acc : list group) (lk : list N)
  : list group * list N :=
  match rows with
  | [] => (acc, lk)
  | r :: rows' =>
    if trow_exact_skip q r then group_loop st q rows' acc lk
    else
      let full_and_new :=
        match acc with
        | (t, _, _, _) :: _ => Nat.eqb (length acc) (sq_limit q) && negb (N.eqb t (tr_tx r))
        | [] => false
        end in
      if full_and_new then (acc, lk)
      else
        let lk' := trow_key r in
        if negb (trow_pass st q r) then group_loop st q rows' acc lk'
        else
          match acc with
          | (t, bn, txi, cells) :: acc' =>
              if N.eqb t (tr_tx r)
              then group_loop st q rows' ((t, bn, txi, cells ++ [(tr_out r, tr_ioi r)]) :: acc') lk'
              else group_loop st q rows' ((tr_tx r, tr_bn r, tr_txi r, [(tr_out r, tr_ioi r)]) :: acc) lk'
          | [] => group_loop st q rows' [(tr_tx r, tr_bn r, tr_txi r, [(tr_out r, tr_ioi r)])] lk'
          end
  end.
Definition get_transactions_grouped (st : store) (q : squery) : list group * list N :=
  let rows := iter_rows trow_key (tx_rows (sq_lock q) st) (sq_script q) (sq_desc q) (sq_after q) in
  let '(acc, lk) := group_loop st q rows [] [] in
  (rev acc, lk).

(* ------------------------------------------------------------------------ *)
(* cases written by the harness *)
Inductive query :=
| QTip
| QLive (lock : bool) (s : script)
| QTxs (lock : bool) (s : script)
| QCells (q : squery)
| QCap (q : squery)
| QTrans (q : squery)
| QGrouped (q : squery).
Inductive answer :=
| ATip (t : option (N * N))
| ALive (l : list outpoint)
| ATxs (l : list N)
| ACells (r : option (list cell_result * list N))       (* None: the implementation panicked *)
| ACap (r : option (option (N * N * N)))
| ATrans (r : list tx_result * list N)
| AGrouped (r : list group * list N).

Definition run_query (st : store) (q : query) : answer :=
  match q with
  | QTip => ATip (tip st)
  | QLive l s => ALive (live_cells_by_script st l s)
  | QTxs l s => ATxs (transactions_by_script st l s)
  | QCells q => ACells (get_cells st q)
  | QCap q => ACap (get_cells_capacity st q)
  | QTrans q => ATrans (get_transactions st q)
  | QGrouped q => AGrouped (get_transactions_grouped st q)
  end.

Definition pair_eqb {A B} (ea : A -> A -> bool) (eb : B -> B -> bool) (x y : A * B) : bool :=
  ea (fst x) (fst y) && eb (snd x) (snd y).
Definition bytes_eqb := list_eqb N.eqb.
Definition cell_result_eqb : cell_result -> cell_result -> bool :=
  pair_eqb (pair_eqb (pair_eqb (pair_eqb N.eqb N.eqb) N.eqb) N.eqb) N.eqb.
Definition tx_result_eqb : tx_result -> tx_result -> bool :=
  pair_eqb (pair_eqb (pair_eqb (pair_eqb N.eqb N.eqb) N.eqb) N.eqb) Bool.eqb.
Definition group_eqb : group -> group -> bool :=
  pair_eqb (pair_eqb (pair_eqb N.eqb N.eqb) N.eqb) (list_eqb (pair_eqb Bool.eqb N.eqb)).
Definition answer_eqb (a b : answer) : bool :=
  match a, b with
  | ATip x, ATip y => option_eqb (pair_eqb N.eqb N.eqb) x y
  | ALive x, ALive y => list_eqb op_eqb x y
  | ATxs x, ATxs y => list_eqb N.eqb x y
  | ACells x, ACells y => option_eqb (pair_eqb (list_eqb cell_result_eqb) bytes_eqb) x y
  | ACap x, ACap y => option_eqb (option_eqb (pair_eqb (pair_eqb N.eqb N.eqb) N.eqb)) x y
  | ATrans x, ATrans y => pair_eqb (list_eqb tx_result_eqb) bytes_eqb x y
  | AGrouped x, AGrouped y => pair_eqb (list_eqb group_eqb) bytes_eqb x y
  | _, _ => false
  end.

(* a history on the real indexer: per step the operation and the queries put
   to the implementation afterwards together with its answers *)
Record hist_case := mkHist {
  hc_keep : N; hc_interval : N;
  hc_steps : list (iop * list (query * answer)) }.

Fixpoint check_steps (keep interval : N) (st : store) (steps : list (iop * list (query * answer))) : bool :=
  match steps with
  | [] => true
  | (o, qs) :: r =>
    match (match o with
           | OAppend b => append keep interval st b
           | ORollback => Some (rollback st) end) with
    | None => false
    | Some st' =>
        forallb (fun qa => answer_eqb (run_query st' (fst qa)) (snd qa)) qs
        && check_steps keep interval st' r
    end
  end.
Definition check_hist (c : hist_case) : bool := check_steps (hc_keep c) (hc_interval c) [] (hc_steps c).
