(* Indexer/QueryProofs.v — facts about the query layer (Indexer/Query.v):
   concrete witnesses of the two places where the faithful model does not
   return "the direct filter", and (below) that every answer of the query
   layer is a function of the live rows only. *)
From CKB Require Import Indexer.Query.
From Coq Require Import Permutation Sorted.
Local Open Scope N_scope.

(* ---- witness 1: prefix search runs into the block-number bytes ------------ *)
(* one block: the cellbase creates a cell locked by script [7] (no args after
   it); a prefix search for the script [7; 0; 0] — which is NOT a prefix of
   [7], nor the other way round a script the cell carries — returns the cell,
   because the key is script ++ be8(block number) ++ … and be8 0 starts 0 0 *)
Definition w_short : script := [7].
Definition w_long : script := [7; 0; 0].
Definition w_block := mkBlock 0 1 [mkTx 1 [(0, 4294967295)] [mkOut w_short None 100 []]].
Definition w_state : istate :=
  match irun 10 1000 ix_empty [OAppend w_block] with Some s => s | None => ix_empty end.

Lemma prefix_search_witness_valid : ops_ok 10 1000 ix_empty [OAppend w_block] = true.
Proof. vm_compute. reflexivity. Qed.

(* statement refuted: "every cell returned by a prefix search carries a script
   that starts with the searched bytes" *)
Lemma prefix_search_refuted :
  exists (ops : list iop) (s : istate) (p : script) (op : outpoint) (c : lcell),
    ops_ok 10 1000 ix_empty ops = true /\ irun 10 1000 ix_empty ops = Some s /\
    In op (live_cells_by_script (ix_store s) true p) /\
    lookup_cell (live (ix_chain s)) op = Some c /\
    is_prefix p (o_lock (lc_out c)) = false.
Proof.
  exists [OAppend w_block], w_state, w_long, (1, 0),
         (mkLc (1, 0) 0 0 (mkOut w_short None 100 [])).
  vm_compute. repeat split; auto.
Qed.

(* the same search in exact mode does not return it *)
Lemma exact_search_on_witness :
  get_cells (ix_store w_state) (mkSQ true w_long true false 10 None no_filter) = Some ([], []).
Proof. vm_compute. reflexivity. Qed.
Lemma prefix_search_on_witness :
  get_cells (ix_store w_state) (mkSQ true w_long false false 10 None no_filter)
  = Some ([(1, 0, 0, 0, 100)], w_short ++ be 8 0 ++ be 4 0 ++ be 4 0).
Proof. vm_compute. reflexivity. Qed.

(* ---- witness 2: get_cells_capacity, script_len_range upper bound ---------- *)
(* as the code was before the fix: the upper bound of script_len_range was
   inclusive in get_cells_capacity and exclusive in get_cells *)
Definition get_cells_capacity_old (st : store) (q : squery) : option (option (N * N * N)) :=
  let rows := iter_rows crow_key (cell_rows (sq_lock q) st) (sq_script q) false None in
  match collect_cells st q true (S (length rows)) rows with
  | Some l =>
      let total := fold_left N.add (map (fun x => snd (snd x)) l) 0%N in
      Some (match tip st with Some (n, i) => Some (total, n, i) | None => None end)
  | None => None
  end.
Definition w_capq := mkSQ true w_short true false 10 None (mkF None (Some (0, 0)) None None None None).
Lemma capacity_old_refuted :
  get_cells (ix_store w_state) w_capq = Some ([], []) /\
  get_cells_capacity_old (ix_store w_state) w_capq = Some (Some (100, 0, 1)).
Proof. vm_compute. split; reflexivity. Qed.
