(* Indexer/Indexer.v — executable model of util/indexer/src/indexer.rs
   (Key/Value layout, Indexer::{append, rollback, tip, prune,
   get_live_cells_by_script, get_transactions_by_script}) over a model of the
   RocksDB store with write-batch semantics, and the specification the
   property compares it with: the live-cell set and the transaction rows
   obtained by replaying the main chain.  No proofs here (IndexerProofs.v).

   Identifiers: block hashes and transaction hashes are numbers (the harness
   numbers them in order of creation); scripts are the byte strings
   extract_raw_data(script) = code_hash ++ hash_type ++ args, because prefix
   search and the iteration order depend on the bytes. *)
From Coq Require Export List NArith Bool Arith Lia.
Export ListNotations.

(* ------------------------------------------------------------------------ *)
(* data *)
Definition script := list N.
Record output := mkOut { o_lock : script; o_type : option script; o_cap : N; o_data : list N }.
Definition outpoint := (N * N)%type.                 (* tx id, output index *)
Record tx := mkTx { t_id : N; t_inputs : list outpoint; t_outputs : list output }.
Record block := mkBlock { b_num : N; b_id : N; b_txs : list tx }.

(* typed keys; [enc_*] below gives the bytes that follow the one-byte KeyPrefix *)
Inductive key :=
| KOutPoint (op : outpoint)
| KConsumed (bn : N) (op : outpoint)
| KCellLock (s : script) (bn txi oi : N)
| KCellType (s : script) (bn txi oi : N)
| KTxLock (s : script) (bn txi ioi : N) (out : bool)
| KTxType (s : script) (bn txi ioi : N) (out : bool)
| KTxHash (t : N)
| KHeader (bn id : N) (flt : bool).

Inductive value :=
| VCell (bn txi : N) (o : output)               (* Value::Cell; the data travels inside [o] *)
| VTx (t : N)                                   (* Value::TxHash *)
| VInputs (l : list outpoint)                   (* Value::TransactionInputs *)
| VTxs (l : list (N * N * N)).                  (* Value::Transactions: tx id, outputs_len, tx_index.
     The code stores tx_index only under a "filtered" header key and otherwise
     uses the position; when every tx matched the two coincide. *)

(* ---- boolean equalities -------------------------------------------------- *)
Fixpoint list_eqb {A} (eqb : A -> A -> bool) (a b : list A) : bool :=
  match a, b with
  | [], [] => true
  | x :: a', y :: b' => eqb x y && list_eqb eqb a' b'
  | _, _ => false
  end.
Definition option_eqb {A} (eqb : A -> A -> bool) (a b : option A) : bool :=
  match a, b with
  | None, None => true
  | Some x, Some y => eqb x y
  | _, _ => false
  end.
Definition script_eqb : script -> script -> bool := list_eqb N.eqb.
Definition op_eqb (a b : outpoint) : bool := N.eqb (fst a) (fst b) && N.eqb (snd a) (snd b).
Definition key_eqb (a b : key) : bool :=
  match a, b with
  | KOutPoint x, KOutPoint y => op_eqb x y
  | KConsumed n x, KConsumed m y => N.eqb n m && op_eqb x y
  | KCellLock s a1 a2 a3, KCellLock t b1 b2 b3
  | KCellType s a1 a2 a3, KCellType t b1 b2 b3 =>
      script_eqb s t && N.eqb a1 b1 && N.eqb a2 b2 && N.eqb a3 b3
  | KTxLock s a1 a2 a3 o, KTxLock t b1 b2 b3 p
  | KTxType s a1 a2 a3 o, KTxType t b1 b2 b3 p =>
      script_eqb s t && N.eqb a1 b1 && N.eqb a2 b2 && N.eqb a3 b3 && Bool.eqb o p
  | KTxHash x, KTxHash y => N.eqb x y
  | KHeader n i f, KHeader m j g => N.eqb n m && N.eqb i j && Bool.eqb f g
  | _, _ => false
  end.

(* ------------------------------------------------------------------------ *)
(* the store: RocksDB as a finite map; a write batch is a list of operations
   applied in order at commit; every read issued while a batch is being built
   sees the store as it was before the batch *)
Definition store := list (key * value).
Fixpoint get (s : store) (k : key) : option value :=
  match s with
  | [] => None
  | (k', v) :: s' => if key_eqb k k' then Some v else get s' k
  end.
Definition del (k : key) (s : store) : store := filter (fun e => negb (key_eqb k (fst e))) s.
Definition put (k : key) (v : value) (s : store) : store := (k, v) :: del k s.
Inductive bop := Put (k : key) (v : value) | Del (k : key).
Definition apply_op (s : store) (o : bop) : store :=
  match o with Put k v => put k v s | Del k => del k s end.
Definition commit (s : store) (b : list bop) : store := fold_left apply_op b s.

(* ------------------------------------------------------------------------ *)
(* append *)
Fixpoint find_tx (id : N) (i : N) (txs : list tx) : option (N * tx) :=
  match txs with
  | [] => None
  | t :: r => if N.eqb (t_id t) id then Some (i, t) else find_tx id (N.succ i) r
  end.

Inductive resolved := RFound (bn txi : N) (o : output) | RNone | RPanic.
(* self.store.get(OutPoint).or_else(|| transactions.iter().enumerate().find(hash == out_point.tx_hash)
   .map(|(i, tx)| Value::Cell(block_number, i, tx.outputs().get(idx).expect(..), ..))) *)
Definition resolve (st : store) (b : block) (op : outpoint) : resolved :=
  match get st (KOutPoint op) with
  | Some (VCell bn txi o) => RFound bn txi o
  | Some _ => RPanic                                   (* parse_cell_value of a non-cell *)
  | None =>
    match find_tx (fst op) 0 (b_txs b) with
    | None => RNone
    | Some (i, t) => match nth_error (t_outputs t) (N.to_nat (snd op)) with
                     | Some o => RFound (b_num b) i o
                     | None => RPanic                  (* expect("index should match") *)
                     end
    end
  end.

Definition opt_ops {A} (o : option A) (f : A -> list bop) : list bop :=
  match o with Some x => f x | None => [] end.

Definition input_ops (st : store) (b : block) (txi : N) (tid : N) (ii : N) (op : outpoint) : list bop :=
  match resolve st b op with
  | RFound gbn gtxi o =>
      [Del (KCellLock (o_lock o) gbn gtxi (snd op));
       Put (KTxLock (o_lock o) (b_num b) txi ii false) (VTx tid)]
      ++ opt_ops (o_type o) (fun s =>
           [Del (KCellType s gbn gtxi (snd op));
            Put (KTxType s (b_num b) txi ii false) (VTx tid)])
      ++ [Del (KOutPoint op);
          Put (KConsumed (b_num b) op) (VCell gbn gtxi o)]
  | _ => []
  end.

Definition output_ops (bn txi tid oi : N) (o : output) : list bop :=
  [Put (KCellLock (o_lock o) bn txi oi) (VTx tid);
   Put (KTxLock (o_lock o) bn txi oi true) (VTx tid)]
  ++ opt_ops (o_type o) (fun s =>
       [Put (KCellType s bn txi oi) (VTx tid);
        Put (KTxType s bn txi oi true) (VTx tid)])
  ++ [Put (KOutPoint (tid, oi)) (VCell bn txi o)].

(* map with the position as a number *)
Fixpoint mapi {A B} (f : N -> A -> B) (i : N) (l : list A) : list B :=
  match l with [] => [] | x :: r => f i x :: mapi f (N.succ i) r end.

Definition is_found (r : resolved) : bool := match r with RFound _ _ _ => true | _ => false end.
Definition is_panic (r : resolved) : bool := match r with RPanic => true | _ => false end.

Definition tx_inputs_ops (st : store) (b : block) (txi : N) (t : tx) : list bop :=
  if N.ltb 0 txi                                       (* skip cellbase *)
  then concat (mapi (fun ii op => input_ops st b txi (t_id t) ii op) 0 (t_inputs t))
  else [].
Definition tx_outputs_ops (bn txi : N) (t : tx) : list bop :=
  concat (mapi (fun oi o => output_ops bn txi (t_id t) oi o) 0 (t_outputs t)).
Definition tx_matched (st : store) (b : block) (txi : N) (t : tx) : bool :=
  (N.ltb 0 txi && existsb (fun op => is_found (resolve st b op)) (t_inputs t))
  || negb (match t_outputs t with [] => true | _ => false end).
Definition tx_ops (st : store) (b : block) (txi : N) (t : tx) : list bop :=
  tx_inputs_ops st b txi t ++ tx_outputs_ops (b_num b) txi t
  ++ (if tx_matched st b txi t then [Put (KTxHash (t_id t)) (VInputs (t_inputs t))] else []).

Definition matched_txs (st : store) (b : block) : list (N * N * N) :=
  concat (mapi (fun txi t => if tx_matched st b txi t
                             then [(t_id t, N.of_nat (length (t_outputs t)), txi)] else [])
               0 (b_txs b)).
Definition header_op (st : store) (b : block) : bop :=
  let m := matched_txs st b in
  Put (KHeader (b_num b) (b_id b) (negb (Nat.eqb (length m) (length (b_txs b))))) (VTxs m).

Definition append_ops (st : store) (b : block) : list bop :=
  concat (mapi (fun txi t => tx_ops st b txi t) 0 (b_txs b)) ++ [header_op st b].

Definition append_panics (st : store) (b : block) : bool :=
  existsb (fun x => x)
    (mapi (fun txi t => N.ltb 0 txi && existsb (fun op => is_panic (resolve st b op)) (t_inputs t))
          0 (b_txs b)).

(* ---- tip: the greatest Header key (block number, then hash, then flag) ---- *)
Definition hdr_lt (a b : N * N * bool) : bool :=
  let '(n, i, f) := a in let '(m, j, g) := b in
  N.ltb n m || (N.eqb n m && (N.ltb i j || (N.eqb i j && (negb f && g)))).
Fixpoint tip_entry (s : store) (best : option (N * N * bool * list (N * N * N)))
  : option (N * N * bool * list (N * N * N)) :=
  match s with
  | [] => best
  | (KHeader n i f, v) :: s' =>
      let txs := match v with VTxs l => l | _ => [] end in
      let cand := Some (n, i, f, txs) in
      tip_entry s' (match best with
                    | None => cand
                    | Some (n', i', f', _) => if hdr_lt (n', i', f') (n, i, f) then cand else best
                    end)
  | _ :: s' => tip_entry s' best
  end.
(* Assumption of the model: the store holds at least one Header row whenever
   tip/rollback are called (the code seeks backwards from prefix 225 and would
   decode whatever row it finds) — the genesis block is never rolled back. *)
Definition tip (s : store) : option (N * N) :=
  match tip_entry s None with Some (n, i, _, _) => Some (n, i) | None => None end.

(* ---- prune ---------------------------------------------------------------- *)
Definition consumed_below (s : store) (lim : N) : list (N * key) :=
  flat_map (fun e => match fst e with
                     | KConsumed bn op => if N.ltb bn lim then [(bn, fst e)] else []
                     | _ => [] end) s.
Definition min_list (l : list N) : option N :=
  match l with [] => None | x :: r => Some (fold_left N.min r x) end.
Definition headers_between (s : store) (lo hi : N) : list (key * list (N * N * N)) :=
  flat_map (fun e => match e with
                     | (KHeader bn id f, v) =>
                         if N.leb lo bn && N.leb bn hi
                         then [(fst e, match v with VTxs l => l | _ => [] end)] else []
                     | _ => [] end) s.
Definition prune_ops (s : store) (keep : N) : list bop :=
  match tip s with
  | None => []                                            (* expect("stored tip") *)
  | Some (tipn, _) =>
    let pn := (keep + 1)%N in
    if N.ltb pn tipn then
      let upto := (tipn - pn)%N in
      let cs := consumed_below s upto in
      map (fun c => Del (snd c)) cs
      ++ match min_list (map fst cs) with
         | None => []                                     (* min_block_number = u64::MAX *)
         | Some lo =>
             flat_map (fun h => map (fun x => Del (KTxHash (fst (fst x)))) (snd h) ++ [Del (fst h)])
                      (headers_between s lo upto)
         end
    else []
  end.
Definition prune (s : store) (keep : N) : store := commit s (prune_ops s keep).

Definition append_noprune (st : store) (b : block) : store := commit st (append_ops st b).
Definition append (keep interval : N) (st : store) (b : block) : option store :=
  if append_panics st b then None else
  let s1 := append_noprune st b in
  Some (if N.eqb (N.modulo (b_num b) interval) 0 then prune s1 keep else s1).

(* ---- rollback -------------------------------------------------------------- *)
Definition stored_output (st : store) (bn : N) (op : outpoint) : option output :=
  match get st (KOutPoint op) with
  | Some (VCell _ _ o) => Some o
  | Some _ => None
  | None => match get st (KConsumed bn op) with
            | Some (VCell _ _ o) => Some o
            | _ => None
            end
  end.
Definition rb_output_ops (st : store) (bn txi tid oi : N) : list bop :=
  opt_ops (stored_output st bn (tid, oi)) (fun o =>
    [Del (KCellLock (o_lock o) bn txi oi);
     Del (KTxLock (o_lock o) bn txi oi true)]
    ++ opt_ops (o_type o) (fun s =>
         [Del (KCellType s bn txi oi);
          Del (KTxType s bn txi oi true)])
    ++ [Del (KOutPoint (tid, oi))]).
Definition rb_input_ops (st : store) (bn txi ii : N) (op : outpoint) : list bop :=
  match get st (KConsumed bn op) with
  | Some (VCell gbn gtxi o) =>
      [Put (KCellLock (o_lock o) gbn gtxi (snd op)) (VTx (fst op));
       Del (KTxLock (o_lock o) bn txi ii false)]
      ++ opt_ops (o_type o) (fun s =>
           [Put (KCellType s gbn gtxi (snd op)) (VTx (fst op));
            Del (KTxType s bn txi ii false)])
      ++ [Put (KOutPoint op) (VCell gbn gtxi o)]
  | _ => []
  end.
Definition nseq (n : N) : list N := map N.of_nat (seq 0 (N.to_nat n)).
Definition rb_tx_ops (st : store) (bn : N) (e : N * N * N) : list bop :=
  let '(tid, olen, txi) := e in
  concat (map (rb_output_ops st bn txi tid) (nseq olen))
  ++ (if N.ltb 0 txi then
        concat (mapi (rb_input_ops st bn txi) 0
                     (match get st (KTxHash tid) with Some (VInputs l) => l | _ => [] end))
      else [])
  ++ [Del (KTxHash tid)].
Definition rollback_ops (st : store) : list bop :=
  match tip_entry st None with
  | None => []
  | Some (bn, id, flt, txs) =>
      concat (map (rb_tx_ops st bn) (rev txs)) ++ [Del (KHeader bn id flt)]
  end.
Definition rollback (st : store) : store := commit st (rollback_ops st).

(* ------------------------------------------------------------------------ *)
(* key bytes (without the KeyPrefix byte) and their order *)
Fixpoint be (w : nat) (n : N) : list N :=            (* big-endian, w bytes *)
  match w with
  | O => []
  | S w' => be w' (N.div n 256) ++ [N.modulo n 256]
  end.
Definition enc_cell (s : script) (bn txi oi : N) : list N := s ++ be 8 bn ++ be 4 txi ++ be 4 oi.
Definition enc_tx (s : script) (bn txi ioi : N) (out : bool) : list N :=
  enc_cell s bn txi ioi ++ [if out then 1%N else 0%N].

Fixpoint is_prefix (p l : list N) : bool :=
  match p, l with
  | [], _ => true
  | x :: p', y :: l' => N.eqb x y && is_prefix p' l'
  | _ :: _, [] => false
  end.
Fixpoint lex_leb (a b : list N) : bool :=
  match a, b with
  | [], _ => true
  | _ :: _, [] => false
  | x :: a', y :: b' => N.ltb x y || (N.eqb x y && lex_leb a' b')
  end.

Section Sort.
  Context {A : Type} (keyof : A -> list N).
  Fixpoint insert_by (x : A) (l : list A) : list A :=
    match l with
    | [] => [x]
    | y :: l' => if lex_leb (keyof x) (keyof y) then x :: l else y :: insert_by x l'
    end.
  Definition sort_by (l : list A) : list A := fold_right insert_by [] l.
End Sort.

(* rows of the four script-indexed tables *)
Record crow := mkCrow { cr_s : script; cr_bn : N; cr_txi : N; cr_oi : N; cr_tx : N }.
Record trow := mkTrow { tr_s : script; tr_bn : N; tr_txi : N; tr_ioi : N; tr_out : bool; tr_tx : N }.
Definition crow_key (r : crow) := enc_cell (cr_s r) (cr_bn r) (cr_txi r) (cr_oi r).
Definition trow_key (r : trow) := enc_tx (tr_s r) (tr_bn r) (tr_txi r) (tr_ioi r) (tr_out r).

Definition cell_rows (lock : bool) (st : store) : list crow :=
  flat_map (fun e => match e with
                     | (KCellLock s bn txi oi, VTx t) => if lock then [mkCrow s bn txi oi t] else []
                     | (KCellType s bn txi oi, VTx t) => if lock then [] else [mkCrow s bn txi oi t]
                     | _ => [] end) st.
Definition tx_rows (lock : bool) (st : store) : list trow :=
  flat_map (fun e => match e with
                     | (KTxLock s bn txi ioi out, VTx t) => if lock then [mkTrow s bn txi ioi out t] else []
                     | (KTxType s bn txi ioi out, VTx t) => if lock then [] else [mkTrow s bn txi ioi out t]
                     | _ => [] end) st.

(* iterate forward from [prefix] while the key starts with it *)
Definition scan_cells (lock : bool) (p : list N) (st : store) : list crow :=
  sort_by crow_key (filter (fun r => is_prefix p (crow_key r)) (cell_rows lock st)).
Definition scan_txs (lock : bool) (p : list N) (st : store) : list trow :=
  sort_by trow_key (filter (fun r => is_prefix p (trow_key r)) (tx_rows lock st)).

(* Indexer::get_live_cells_by_{lock,type}_script, get_transactions_by_{lock,type}_script *)
Definition live_cells_by_script (st : store) (lock : bool) (s : script) : list outpoint :=
  map (fun r => (cr_tx r, cr_oi r)) (scan_cells lock s st).
Definition transactions_by_script (st : store) (lock : bool) (s : script) : list N :=
  map tr_tx (scan_txs lock s st).

(* ------------------------------------------------------------------------ *)
(* specification: replay of the main chain *)
Record lcell := mkLc { lc_op : outpoint; lc_bn : N; lc_txi : N; lc_out : output }.

Definition lookup_cell (l : list lcell) (op : outpoint) : option lcell :=
  find (fun c => op_eqb (lc_op c) op) l.
Definition spend (l : list lcell) (op : outpoint) : list lcell :=
  filter (fun c => negb (op_eqb (lc_op c) op)) l.
Definition new_cells (bn txi : N) (t : tx) : list lcell :=
  mapi (fun oi o => mkLc (t_id t, oi) bn txi o) 0 (t_outputs t).

Definition out_trows (bn txi : N) (t : tx) : list (bool * trow) :=   (* (is_lock, row) *)
  concat (mapi (fun oi o =>
            (true, mkTrow (o_lock o) bn txi oi true (t_id t))
            :: match o_type o with
               | Some s => [(false, mkTrow s bn txi oi true (t_id t))]
               | None => [] end) 0 (t_outputs t)).
Definition in_trows (l : list lcell) (bn txi : N) (t : tx) : list (bool * trow) :=
  concat (mapi (fun ii op =>
            match lookup_cell l op with
            | Some c =>
                (true, mkTrow (o_lock (lc_out c)) bn txi ii false (t_id t))
                :: match o_type (lc_out c) with
                   | Some s => [(false, mkTrow s bn txi ii false (t_id t))]
                   | None => [] end
            | None => [] end) 0 (t_inputs t)).

Record chain_state := mkCs { cs_live : list lcell; cs_txs : list (bool * trow) }.
Definition cs_empty := mkCs [] [].

(* one transaction: its inputs are looked up in, and removed from, the live
   set as it stands after the preceding transactions of the same block *)
Definition replay_tx (bn : N) (cs : chain_state) (txi : N) (t : tx) : chain_state :=
  let ins := if N.ltb 0 txi then t_inputs t else [] in
  let rows_in := if N.ltb 0 txi then in_trows (cs_live cs) bn txi t else [] in
  mkCs (fold_left spend ins (cs_live cs) ++ new_cells bn txi t)
       (cs_txs cs ++ rows_in ++ out_trows bn txi t).
Fixpoint replay_txs (bn : N) (cs : chain_state) (txi : N) (txs : list tx) : chain_state :=
  match txs with
  | [] => cs
  | t :: r => replay_txs bn (replay_tx bn cs txi t) (N.succ txi) r
  end.
Definition replay_block (cs : chain_state) (b : block) : chain_state :=
  replay_txs (b_num b) cs 0 (b_txs b).
Definition replay (ch : list block) : chain_state := fold_left replay_block ch cs_empty.
Definition live (ch : list block) : list lcell := cs_live (replay ch).
Definition txs (ch : list block) : list (bool * trow) := cs_txs (replay ch).

(* the direct filters the property speaks of *)
Definition lcell_script (lock : bool) (c : lcell) : option script :=
  if lock then Some (o_lock (lc_out c)) else o_type (lc_out c).
Definition lcell_crow (lock : bool) (c : lcell) : list crow :=
  match lcell_script lock c with
  | Some s => [mkCrow s (lc_bn c) (lc_txi c) (snd (lc_op c)) (fst (lc_op c))]
  | None => [] end.
Definition spec_cell_rows (lock : bool) (ch : list block) : list crow :=
  flat_map (lcell_crow lock) (live ch).
Definition spec_tx_rows (lock : bool) (ch : list block) : list trow :=
  map snd (filter (fun r => Bool.eqb (fst r) lock) (txs ch)).
Definition spec_live_cells_by_script (ch : list block) (lock : bool) (p : list N) : list outpoint :=
  map (fun r => (cr_tx r, cr_oi r))
      (sort_by crow_key (filter (fun r => is_prefix p (crow_key r)) (spec_cell_rows lock ch))).
Definition spec_transactions_by_script (ch : list block) (lock : bool) (p : list N) : list N :=
  map tr_tx (sort_by trow_key (filter (fun r => is_prefix p (trow_key r)) (spec_tx_rows lock ch))).
Definition chain_tip (ch : list block) : option (N * N) :=
  match rev ch with [] => None | b :: _ => Some (b_num b, b_id b) end.

(* ------------------------------------------------------------------------ *)
(* validity of a chain, as far as the indexer is concerned: a consistent UTXO
   history (every input of a non-cellbase transaction spends a cell that is
   live at that point — created in an earlier block or earlier in the same
   block), fresh transaction ids, consecutive block numbers.  All decidable. *)
Definition mem_N (x : N) (l : list N) : bool := existsb (N.eqb x) l.
Fixpoint nodup_N (l : list N) : bool :=
  match l with [] => true | x :: r => negb (mem_N x r) && nodup_N r end.
Fixpoint nodup_op (l : list outpoint) : bool :=
  match l with [] => true | x :: r => negb (existsb (op_eqb x) r) && nodup_op r end.
Definition chain_tx_ids (ch : list block) : list N := flat_map (fun b => map t_id (b_txs b)) ch.

Fixpoint txs_ok (l : list lcell) (bn txi : N) (ts : list tx) : bool :=
  match ts with
  | [] => true
  | t :: r =>
      let ins := if N.ltb 0 txi then t_inputs t else [] in
      forallb (fun op => match lookup_cell l op with Some _ => true | None => false end) ins
      && nodup_op ins
      && txs_ok (fold_left spend ins l ++ new_cells bn txi t) bn (N.succ txi) r
  end.
(* the widths of the Rust types: BlockNumber = u64, TxIndex / OutputIndex = u32 *)
Definition block_in_range (b : block) : bool :=
  N.ltb (b_num b) 18446744073709551616
  && N.ltb (N.of_nat (length (b_txs b))) 4294967296
  && forallb (fun t => N.ltb (N.of_nat (length (t_inputs t))) 4294967296
                       && N.ltb (N.of_nat (length (t_outputs t))) 4294967296) (b_txs b).
Definition block_ok (ch : list block) (b : block) : bool :=
  N.eqb (b_num b) (N.of_nat (length ch))
  && block_in_range b
  && nodup_N (map t_id (b_txs b))
  && forallb (fun t => negb (mem_N (t_id t) (chain_tx_ids ch))) (b_txs b)
  && txs_ok (live ch) (b_num b) 0 (b_txs b).

(* ------------------------------------------------------------------------ *)
(* the driver: what IndexerSync does with the indexer — append the next main
   chain block, or roll the tip back.  [ix_floor] is ghost state: the lowest
   block number whose rollback data (Header, TxHash, ConsumedOutPoint rows)
   prune has not touched. *)
Inductive iop := OAppend (b : block) | ORollback.
Record istate := mkIx { ix_store : store; ix_chain : list block; ix_floor : N }.
Definition ix_empty := mkIx [] [] 0.

Definition floor_after (keep interval : N) (fl : N) (bn : N) : N :=
  if N.eqb (N.modulo bn interval) 0 && N.ltb (keep + 1) bn then N.max fl (bn - keep)%N else fl.

Definition istep (keep interval : N) (s : istate) (o : iop) : option istate :=
  match o with
  | OAppend b =>
      match append keep interval (ix_store s) b with
      | Some st => Some (mkIx st (ix_chain s ++ [b]) (floor_after keep interval (ix_floor s) (b_num b)))
      | None => None
      end
  | ORollback => Some (mkIx (rollback (ix_store s)) (removelast (ix_chain s)) (ix_floor s))
  end.
Fixpoint irun (keep interval : N) (s : istate) (ops : list iop) : option istate :=
  match ops with
  | [] => Some s
  | o :: r => match istep keep interval s o with Some s' => irun keep interval s' r | None => None end
  end.

(* a sequence the property quantifies over: appended blocks are valid
   continuations of the current main chain; the genesis block is never rolled
   back; a rollback stays within the retention: the rollback data of the tip
   AND the Header row of the block below it have not been pruned (floor < tip
   number), i.e. at most keep_num blocks below the highest pruned-at tip *)
Definition op_ok (s : istate) (o : iop) : bool :=
  match o with
  | OAppend b => block_ok (ix_chain s) b
  | ORollback => Nat.ltb 1 (length (ix_chain s))
                 && N.ltb (ix_floor s) (N.of_nat (length (ix_chain s) - 1))
  end.
Fixpoint ops_ok (keep interval : N) (s : istate) (ops : list iop) : bool :=
  match ops with
  | [] => true
  | o :: r => op_ok s o && match istep keep interval s o with
                           | Some s' => ops_ok keep interval s' r
                           | None => false end
  end.
