(* Indexer/IndexerExamples.v — non-vacuity: a concrete two-branch history that
   satisfies ops_ok (keep 3, interval 2, so that prune fires) *)
From CKB Require Import Indexer.Indexer.

Definition sA : script := [1;2;3]%N.
Definition sB : script := [1;2;4]%N.
Definition sC : script := [1;2]%N.
Definition tT : script := [9;9]%N.
Definition cb (id : N) (s : script) : tx := mkTx id [] [mkOut s None 50 []].

Definition ex_b0 := mkBlock 0 100 [mkTx 1 [] [mkOut sA None 1000 []; mkOut sB (Some tT) 2000 [7%N]]].
(* tx 3 creates (3,0) and tx 4 spends it in the same block *)
Definition ex_b1 := mkBlock 1 101
  [cb 2 sC;
   mkTx 3 [(1, 0)]%N [mkOut sB None 500 []; mkOut sA (Some tT) 400 []];
   mkTx 4 [(3, 0)]%N [mkOut sC None 450 []]].
Definition ex_b2 := mkBlock 2 102 [cb 5 sA; mkTx 6 [(1, 1)]%N [mkOut sA None 1900 []]].
Definition ex_b3 := mkBlock 3 103 [cb 7 sB].
Definition ex_b4 := mkBlock 4 104 [cb 8 sA; mkTx 9 [(4, 0); (2, 0)]%N [mkOut sB (Some tT) 490 []]].
Definition ex_b5 := mkBlock 5 105 [cb 10 sC; mkTx 11 [(9, 0)]%N [mkOut sA None 480 []]].
Definition ex_b6 := mkBlock 6 106 [cb 12 sA; mkTx 13 [(11, 0)]%N []].
(* the other branch *)
Definition ex_c5 := mkBlock 5 205 [cb 20 sB; mkTx 21 [(9, 0); (6, 0)]%N [mkOut sC (Some tT) 2300 []]].
Definition ex_c6 := mkBlock 6 206 [cb 22 sA].
Definition ex_c7 := mkBlock 7 207 [cb 23 sA; mkTx 24 [(21, 0)]%N [mkOut sA None 1000 []; mkOut sB None 1300 []]].

Definition example_ops : list iop :=
  [OAppend ex_b0; OAppend ex_b1; OAppend ex_b2; OAppend ex_b3; OAppend ex_b4; OAppend ex_b5; OAppend ex_b6;
   ORollback; ORollback;
   OAppend ex_c5; OAppend ex_c6; OAppend ex_c7].

Example example_ops_ok : ops_ok 3 2 ix_empty example_ops = true.
Proof. vm_compute. reflexivity. Qed.

Example example_nontrivial :
  exists s, irun 3 2 ix_empty example_ops = Some s
    /\ live_cells_by_script (ix_store s) true sA = [(3, 1); (5, 0); (8, 0); (22, 0); (23, 0); (24, 0)]%N
    /\ live_cells_by_script (ix_store s) false tT = [(3, 1)]%N
    /\ ix_floor s = 3%N.
Proof. eexists. split; [|split; [|split]]; vm_compute; reflexivity. Qed.

(* prune fires at block 6: the store shrinks although rows were added *)
Example example_prune_fires :
  exists s6 s7, irun 3 2 ix_empty (firstn 6 example_ops) = Some s6
    /\ irun 3 2 ix_empty (firstn 7 example_ops) = Some s7
    /\ length (ix_store s6) = 62 /\ length (ix_store s7) = 59.
Proof. do 2 eexists. split; [|split; [|split]]; vm_compute; reflexivity. Qed.
