(* Indexer/IndexerExamples.v — non-vacuity: a concrete two-branch history that
   satisfies ops_ok (keep 3, interval 2, so that prune fires) *)
From CKB Require Import Indexer.Indexer.

Definition sA : script := [1;2;3]%N.
Definition sB : script := [1;2;4]%N.
Definition sC : script := [1;2]%N.
Definition tT : script := [9;9]%N.
Definition cb (id : N) (s : script) : tx := mkTx id [] [mkOut s None 50 []].

Definition ex_b0 := mkBlock 0 100 [mkTx 1 [] [mkOut sA None 1000 []; mkOut sB (Some tT) 2000 [7%N]]].
(* tx 3 creates (3,0) and tx 4 spends it in the same block *)
Definition ex_b1 := mkBlock 1 101
  [cb 2 sC;
   mkTx 3 [(1, 0)]%N [mkOut sB None 500 []; mkOut sA (Some tT) 400 []];
   mkTx 4 [(3, 0)]%N [mkOut sC None 450 []]].
Definition ex_b2 := mkBlock 2 102 [cb 5 sA; mkTx 6 [(1, 1)]%N [mkOut sA None 1900 []]].
Definition ex_b3 := mkBlock 3 103 [cb 7 sB].
Definition ex_b4 := mkBlock 4 104 [cb 8 sA; mkTx 9 [(4, 0); (2, 0)]%N [mkOut sB (Some tT) 490 []]].
Definition ex_b5 := mkBlock 5 105 [cb 10 sC; mkTx 11 [(9, 0)]%N [mkOut sA None 480 []]].
Definition ex_b6 := mkBlock 6 106 [cb 12 sA; mkTx 13 [(11, 0)]%N []].
(* the other branch *)
Definition ex_c5 := mkBlock 5 205 [cb 20 sB; mkTx 21 [(9, 0); (6, 0)]%N [mkOut sC (Some tT) 2300 []]].
Definition ex_c6 := mkBlock 6 206 [cb 22 sA].
Definition ex_c7 := mkBlock 7 207 [cb 23 sA; mkTx 24 [(21, 0)]%N [mkOut sA None 1000 []; mkOut sB None 1300 []]].

Definition example_ops : list iop :=
  [OAppend ex_b0; OAppend ex_b1; OAppend ex_b2; OAppend ex_b3; OAppend ex_b4; OAppend ex_b5; OAppend ex_b6;
   ORollback; ORollback;
   OAppend ex_c5; OAppend ex_c6; OAppend ex_c7].

Example example_ops_ok : ops_ok 3 2 ix_empty example_ops = true.
Proof. vm_compute. reflexivity. Qed.

Example example_nontrivial :
  exists s, irun 3 2 ix_empty example_ops = Some s
    /\ live_cells_by_script (ix_store s) true sA = [(3, 1); (5, 0); (8, 0); (22, 0); (23, 0); (24, 0)]%N
    /\ live_cells_by_script (ix_store s) false tT = [(3, 1)]%N
    /\ ix_floor s = 3%N.
Proof. eexists. split; [|split; [|split]]; vm_compute; reflexivity. Qed.

(* prune fires at block 6: the store shrinks although rows were added *)
Example example_prune_fires :
  exists s6 s7, irun 3 2 ix_empty (firstn 6 example_ops) = Some s6
    /\ irun 3 2 ix_empty (firstn 7 example_ops) = Some s7
    /\ length (ix_store s6) = 62 /\ length (ix_store s7) = 59.
Proof. do 2 eexists. split; [|split; [|split]]; vm_compute; reflexivity. Qed.

(* the hypotheses of rollback_inverts_append are met: the state after blocks
   0..5 (reachable, hence Inv by inv_reachable), the valid block 6, and a
   rollback that stays within the retention although prune fired at block 6 *)
Example example_rollback_hyps :
  exists s s1 s2, irun 3 2 ix_empty (firstn 6 example_ops) = Some s
    /\ ops_ok 3 2 ix_empty (firstn 6 example_ops) = true
    /\ block_ok (ix_chain s) ex_b6 = true
    /\ istep 3 2 s (OAppend ex_b6) = Some s1
    /\ op_ok s1 ORollback = true
    /\ istep 3 2 s1 ORollback = Some s2
    /\ length (ix_store s1) <> length (ix_store s2).
Proof.
  do 3 eexists. split; [|split; [|split; [|split; [|split; [|split]]]]]; try (vm_compute; reflexivity).
  vm_compute. discriminate.
Qed.

(* the hypotheses of same_block_create_spend are met by block 1: tx 3 creates
   (3,0), tx 4 of the same block spends it; block 1 is on the final chain *)
Example example_same_block_hyps :
  exists s, irun 3 2 ix_empty example_ops = Some s
    /\ ix_chain s = [ex_b0] ++ ex_b1 :: [ex_b2; ex_b3; ex_b4; ex_c5; ex_c6; ex_c7]
    /\ b_txs ex_b1 = [cb 2 sC] ++ mkTx 3 [(1, 0)]%N [mkOut sB None 500 []; mkOut sA (Some tT) 400 []]
                      :: [] ++ mkTx 4 [(3, 0)]%N [mkOut sC None 450 []] :: []
    /\ In (3, N.of_nat 0)%N (t_inputs (mkTx 4 [(3, 0)]%N [mkOut sC None 450 []])).
Proof. eexists. split; [|split; [|split]]; try (vm_compute; reflexivity). left. reflexivity. Qed.
