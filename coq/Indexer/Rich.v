(* Indexer/Rich.v — executable model of the SQL-backed rich indexer
   (util/rich-indexer/src/indexer/{mod,insert,remove}.rs and
   indexer_handle/async_indexer_handle/{mod,get_cells,get_cells_capacity,
   get_transactions}.rs, SQLite branch), at the level it shares with
   util/indexer: the chain's cell history (every output created on the main
   chain, where it was created and where, if at all, it was consumed) — except
   that scripts are NOT stored in the rows: as in the SQL schema every output
   row carries the ids of its lock / type script, the bytes live in the table
   `script`, rows of which are inserted on first use and garbage-collected by
   rollback when no remaining output references them.  Every query joins the
   output rows with that table.  No proofs here (RichProofs.v).

   What is denormalised (trusted, correspondence-checked on every run): the
   joins output ⋈ ckb_transaction ⋈ block and input ⋈ ckb_transaction ⋈ block
   are carried inside the cell row (tx hash, block number, tx index of the
   creating and of the consuming transaction; `is_spent` and the `input` row are
   the one field [g_spent]); ORDER BY output.id / tx_id is the order of
   insertion (INTEGER PRIMARY KEY rowids grow: max + 1), i.e. chain order. *)
From CKB Require Export Indexer.Indexer Indexer.Query.

(* ------------------------------------------------------------------------ *)
(* cell rows; [A] is how a row refers to its lock script, [B] to its type
   script: the rich indexer's rows carry script ids (option N: the columns are
   nullable), the specification's rows the scripts themselves *)
Definition spent_info := (N * N * N * N)%type.        (* consuming tx id, its block number, its tx index, input index *)
Record gcell (A B : Type) := mkGc {
  g_op : outpoint; g_bn : N; g_txi : N; g_cap : N; g_data : list N;
  g_lock : A; g_type : B; g_spent : option spent_info }.
Arguments mkGc {A B}. Arguments g_op {A B}. Arguments g_bn {A B}. Arguments g_txi {A B}.
Arguments g_cap {A B}. Arguments g_data {A B}. Arguments g_lock {A B}. Arguments g_type {A B}.
Arguments g_spent {A B}.

Definition is_some {T} (o : option T) : bool := match o with Some _ => true | None => false end.
Definition opt_list {T} (o : option T) : list T := match o with Some x => [x] | None => [] end.

Section Generic.
  Context {A B : Type}.
  Definition g_set_spent (c : gcell A B) (s : option spent_info) : gcell A B :=
    mkGc (g_op c) (g_bn c) (g_txi c) (g_cap c) (g_data c) (g_lock c) (g_type c) s.
  Definition g_matches (op : outpoint) (c : gcell A B) : bool := op_eqb (g_op c) op.
  (* UPDATE output SET is_spent = 1 WHERE tx_id = (… tx_hash = $1) AND output_index = $2,
     together with the input row (output_id, consumed_tx_id, input_index) *)
  Definition g_mark (info : spent_info) (op : outpoint) (c : gcell A B) : gcell A B :=
    if g_matches op c then g_set_spent c (Some info) else c.
  Fixpoint g_spend (tid bn txi ii : N) (ins : list outpoint) (cs : list (gcell A B)) : list (gcell A B) :=
    match ins with
    | [] => cs
    | op :: r => g_spend tid bn txi (N.succ ii) r (map (g_mark (tid, bn, txi, ii) op) cs)
    end.
  (* rollback of block [bn]: reset_spent_cells (outputs consumed by a transaction
     of the block) and the removal of the block's own outputs and inputs *)
  Definition g_unspend (bn : N) (c : gcell A B) : gcell A B :=
    match g_spent c with
    | Some (_, sbn, _, _) => if N.eqb sbn bn then g_set_spent c None else c
    | None => c
    end.
  Definition g_created_in (bn : N) (c : gcell A B) : bool := N.eqb (g_bn c) bn.
  Definition g_rollback_cells (bn : N) (cs : list (gcell A B)) : list (gcell A B) :=
    filter (fun c => negb (g_created_in bn c)) (map (g_unspend bn) cs).
End Generic.

Definition ins_of (txi : N) (t : tx) : list outpoint := if N.ltb 0 txi then t_inputs t else [].

(* ------------------------------------------------------------------------ *)
(* the specification's cell history: replay of the main chain *)
Definition acell := gcell script (option script).
Definition a_new (bn txi : N) (t : tx) : list acell :=
  mapi (fun oi o => mkGc (t_id t, oi) bn txi (o_cap o) (o_data o) (o_lock o) (o_type o) None) 0 (t_outputs t).
Definition a_tx (bn : N) (cs : list acell) (txi : N) (t : tx) : list acell :=
  g_spend (t_id t) bn txi 0 (ins_of txi t) cs ++ a_new bn txi t.
Fixpoint a_txs (bn : N) (cs : list acell) (txi : N) (ts : list tx) : list acell :=
  match ts with [] => cs | t :: r => a_txs bn (a_tx bn cs txi t) (N.succ txi) r end.
Definition a_block (cs : list acell) (b : block) : list acell := a_txs (b_num b) cs 0 (b_txs b).
Definition all_cells (ch : list block) : list acell := fold_left a_block ch [].

Definition a_out (a : acell) : output := mkOut (g_lock a) (g_type a) (g_cap a) (g_data a).
Definition a_lcell (a : acell) : lcell := mkLc (g_op a) (g_bn a) (g_txi a) (a_out a).
(* the cells not consumed: the live set *)
Definition a_view (cs : list acell) : list lcell :=
  flat_map (fun a => if is_some (g_spent a) then [] else [a_lcell a]) cs.
(* the transaction rows of a cell: one per script where it was created, one per
   script where it was consumed *)
Definition a_out_rows (a : acell) : list (bool * trow) :=
  (true, mkTrow (g_lock a) (g_bn a) (g_txi a) (snd (g_op a)) true (fst (g_op a)))
  :: match g_type a with
     | Some s => [(false, mkTrow s (g_bn a) (g_txi a) (snd (g_op a)) true (fst (g_op a)))]
     | None => [] end.
Definition a_in_rows (a : acell) : list (bool * trow) :=
  match g_spent a with
  | Some (tid, sbn, stxi, ii) =>
      (true, mkTrow (g_lock a) sbn stxi ii false tid)
      :: match g_type a with
         | Some s => [(false, mkTrow s sbn stxi ii false tid)]
         | None => [] end
  | None => [] end.
Definition a_rows (cs : list acell) : list (bool * trow) := flat_map (fun a => a_out_rows a ++ a_in_rows a) cs.

(* ------------------------------------------------------------------------ *)
(* the rich indexer's tables *)
Definition rcell := gcell (option N) (option N).
Definition stable := list (N * script).                 (* table script: id, code_hash ++ hash_type ++ args; UNIQUE(script) *)
Record rdb := mkDb {
  d_blocks : list (N * N);                               (* block number, block id; insertion order *)
  d_cells : list rcell;
  d_scripts : stable }.
Definition db_empty := mkDb [] [] [].

(* SELECT id FROM script WHERE code_hash = $1 AND hash_type = $2 AND args = $3 *)
Definition script_id (tbl : stable) (s : script) : option N :=
  option_map fst (find (fun r => script_eqb (snd r) s) tbl).
(* the row with primary key [i] *)
Definition script_of (tbl : stable) (i : N) : option script :=
  option_map snd (find (fun r => N.eqb (fst r) i) tbl).
(* id INTEGER PRIMARY KEY: one more than the largest rowid in use *)
Definition next_id (tbl : stable) : N := N.succ (fold_left N.max (map fst tbl) 0%N).
(* INSERT INTO script … ON CONFLICT (code_hash, hash_type, args) DO NOTHING *)
Definition insert_script (tbl : stable) (s : script) : stable :=
  match script_id tbl s with Some _ => tbl | None => tbl ++ [(next_id tbl, s)] end.

Definition tx_scripts (t : tx) : list script :=
  flat_map (fun o => o_lock o :: opt_list (o_type o)) (t_outputs t).

(* the input loop of insert_transaction: spend_cell; `break` at the first
   input whose output row does not exist; the second `input` row for one
   output (output_id is the primary key) makes the INSERT, hence append, fail *)
Fixpoint r_spend (tid bn txi ii : N) (ins : list outpoint) (cs : list rcell) : option (list rcell) :=
  match ins with
  | [] => Some cs
  | op :: r =>
      if existsb (g_matches op) cs then
        if existsb (fun c => g_matches op c && is_some (g_spent c)) cs then None
        else r_spend tid bn txi (N.succ ii) r (map (g_mark (tid, bn, txi, ii) op) cs)
      else Some cs
  end.
Definition r_new (tbl : stable) (bn txi : N) (t : tx) : list rcell :=
  mapi (fun oi o => mkGc (t_id t, oi) bn txi (o_cap o) (o_data o)
                         (script_id tbl (o_lock o))
                         (match o_type o with Some s => script_id tbl s | None => None end) None)
       0 (t_outputs t).
Definition r_tx (bn : N) (st : list rcell * stable) (txi : N) (t : tx) : option (list rcell * stable) :=
  match r_spend (t_id t) bn txi 0 (ins_of txi t) (fst st) with
  | None => None
  | Some cs1 =>
      let tbl1 := fold_left insert_script (tx_scripts t) (snd st) in
      Some (cs1 ++ r_new tbl1 bn txi t, tbl1)
  end.
Fixpoint r_txs (bn : N) (st : list rcell * stable) (txi : N) (ts : list tx) : option (list rcell * stable) :=
  match ts with
  | [] => Some st
  | t :: r => match r_tx bn st txi t with Some st' => r_txs bn st' (N.succ txi) r | None => None end
  end.
Definition rappend (db : rdb) (b : block) : option rdb :=
  match r_txs (b_num b) (d_cells db, d_scripts db) 0 (b_txs b) with
  | Some (cs, tbl) => Some (mkDb (d_blocks db ++ [(b_num b, b_id b)]) cs tbl)
  | None => None
  end.

(* SELECT block_hash, block_number FROM block ORDER BY id DESC LIMIT 1 *)
Definition rtip (db : rdb) : option (N * N) :=
  match rev (d_blocks db) with [] => None | x :: _ => Some x end.

(* rollback_block.  script_exists_in_output asks whether a remaining output
   references the id as lock script, then as type script.  [GcLockOnly] is the
   variant in which the answer to the second question is never looked at. *)
Inductive gc_mode := GcLockOrType | GcLockOnly.
Definition opt_N_is (o : option N) (i : N) : bool := match o with Some j => N.eqb j i | None => false end.
Definition referenced (m : gc_mode) (cs : list rcell) (i : N) : bool :=
  existsb (fun c => opt_N_is (g_lock c) i) cs
  || match m with
     | GcLockOrType => existsb (fun c => opt_N_is (g_type c) i) cs
     | GcLockOnly => false
     end.
Definition rrollback_gen (m : gc_mode) (db : rdb) : rdb :=
  match rev (d_blocks db) with
  | [] => db
  | (bn, _) :: rest =>
      let gone := filter (g_created_in bn) (d_cells db) in
      let cand := flat_map (fun c => opt_list (g_lock c) ++ opt_list (g_type c)) gone in
      let cs := g_rollback_cells bn (d_cells db) in
      let dead := filter (fun i => negb (referenced m cs i)) cand in
      mkDb (rev rest) cs (filter (fun r => negb (mem_N (fst r) dead)) (d_scripts db))
  end.
Definition rrollback := rrollback_gen GcLockOrType.

(* a row read through the table: [res tbl c a] — the row [c] (script ids) stands
   for the cell [a] of the chain's history: same fields, and its ids are the
   primary keys of rows holding a's lock and type script *)
Definition res (tbl : stable) (c : rcell) (a : acell) : Prop :=
  g_op c = g_op a /\ g_bn c = g_bn a /\ g_txi c = g_txi a /\ g_cap c = g_cap a /\ g_data c = g_data a /\
  g_spent c = g_spent a /\
  (exists i, g_lock c = Some i /\ script_of tbl i = Some (g_lock a)) /\
  match g_type a with
  | None => g_type c = None
  | Some s => exists j, g_type c = Some j /\ script_of tbl j = Some s
  end.
Definition Res (tbl : stable) (cs : list rcell) (acs : list acell) : Prop := Forall2 (res tbl) cs acs.

(* ------------------------------------------------------------------------ *)
(* the query layer *)
Definition sc_head (s : script) : list N := firstn 33 s.     (* code_hash, hash_type *)
Definition sc_args (s : script) : list N := skipn 33 s.
Fixpoint drop_while {T} (f : T -> bool) (l : list T) : list T :=
  match l with [] => [] | x :: r => if f x then drop_while f r else l end.
(* get_binary_upper_boundary *)
Definition upper_bound (v : list N) : list N :=
  match v with
  | [] => repeat 255%N 32
  | _ => match drop_while (N.eqb 255) (rev v) with
         | [] => repeat 255%N (S (length v))
         | x :: r => rev r ++ [N.succ x]
         end
  end.
(* BLOB comparison: memcmp, then the shorter one first *)
Definition blob_lt (a b : list N) : bool := negb (lex_leb b a).
(* col >= $p AND col < $upper *)
Definition in_prefix_range (p x : list N) : bool := lex_leb p x && blob_lt x (upper_bound p).
Definition blob_match (m : dmode) (p x : list N) : bool :=
  match m with
  | DPrefix => in_prefix_range p x
  | DExact => list_eqb N.eqb p x
  | DPartial => existsb (is_prefix p) (tails x)               (* instr(x, p) > 0 *)
  end.
(* build_query_script_sql: code_hash = … AND hash_type = … AND args <mode> … *)
Definition sel_of (m : dmode) (p s : script) : bool :=
  list_eqb N.eqb (sc_head p) (sc_head s) && blob_match m (sc_args p) (sc_args s).

Record rquery := mkRQ {
  rq_lock : bool; rq_script : script; rq_mode : dmode; rq_desc : bool; rq_limit : nat; rq_f : filter_opts }.

(* a row of output JOIN query_script LEFT JOIN other script *)
Record jcell := mkJc {
  j_op : outpoint; j_bn : N; j_txi : N; j_cap : N; j_data : list N;
  j_lock : option script; j_type : option script; j_spent : option spent_info }.
Definition join_cell (tbl : stable) (lockq : bool) (sel : script -> bool) (c : rcell) : list jcell :=
  match (if lockq then g_lock c else g_type c) with
  | None => []
  | Some i =>
    match script_of tbl i with
    | None => []                                           (* inner join: no script row, no result row *)
    | Some qs =>
      if sel qs then
        let other := match (if lockq then g_type c else g_lock c) with
                     | Some j => script_of tbl j           (* LEFT JOIN: NULL when the row is missing *)
                     | None => None end in
        [mkJc (g_op c) (g_bn c) (g_txi c) (g_cap c) (g_data c)
              (if lockq then Some qs else other) (if lockq then other else Some qs) (g_spent c)]
      else []
    end
  end.
Definition j_other (lockq : bool) (j : jcell) : option script := if lockq then j_type j else j_lock j.

(* build_cell_filter / build_filter without block_range *)
Definition jcell_pass (lockq : bool) (f : filter_opts) (j : jcell) : bool :=
  (match f_script f with
   | None => true
   | Some p => match j_other lockq j with Some s => sel_of DPrefix p s | None => false end
   end)
  && in_range (f_slen f) (match j_other lockq j with Some s => nlen s | None => 0%N end)
  && (match f_data f with None => true | Some (p, m) => blob_match m p (j_data j) end)
  && in_range (f_dlen f) (nlen (j_data j))
  && in_range (f_cap f) (j_cap j).

Definition joined (db : rdb) (q : rquery) : list jcell :=
  filter (jcell_pass (rq_lock q) (rq_f q))
         (flat_map (join_cell (d_scripts db) (rq_lock q) (sel_of (rq_mode q) (rq_script q))) (d_cells db)).

Definition rcell_result := (N * N * N * N * N * option script * option script * list N)%type.
Definition jcell_result (j : jcell) : rcell_result :=
  (fst (j_op j), snd (j_op j), j_bn j, j_txi j, j_cap j, j_lock j, j_type j, j_data j).
(* the answers as functions of the joined rows [js] *)
Definition q_live (js : list jcell) (q : rquery) : list jcell :=
  filter (fun j => negb (is_some (j_spent j)) && in_range (f_block (rq_f q)) (j_bn j)) js.
(* get_cells: ORDER BY output.id ASC|DESC LIMIT limit (first page) *)
Definition q_cells (js : list jcell) (q : rquery) : list rcell_result :=
  map jcell_result (firstn (rq_limit q) (if rq_desc q then rev (q_live js q) else q_live js q)).
(* get_cells_capacity: SUM(capacity), null when no row is selected *)
Definition q_capacity (js : list jcell) (tip : option (N * N)) (q : rquery) : option (N * N * N) :=
  match q_live js q with
  | [] => None
  | l => match tip with
         | Some (n, i) => Some (fold_left N.add (map j_cap l) 0%N, n, i)
         | None => None
         end
  end.
(* get_transactions: the union of the output rows and of the input rows whose
   consumed output is selected; block_range applies to the block of the
   transaction the row belongs to.  Rows come ORDER BY tx_id; the order inside
   one transaction is not specified by the query: the model (and the harness)
   list them by (block number, tx index, input before output, io index). *)
Definition row_key (r : tx_result) : list N :=
  let '(t, bn, txi, ioi, out) := r in [bn; txi; if out then 1%N else 0%N; ioi].
Definition q_tx_rows (js : list jcell) (q : rquery) : list tx_result :=
  flat_map (fun j => if in_range (f_block (rq_f q)) (j_bn j)
                     then [(fst (j_op j), j_bn j, j_txi j, snd (j_op j), true)] else []) js
  ++ flat_map (fun j => match j_spent j with
                        | Some (tid, sbn, stxi, ii) =>
                            if in_range (f_block (rq_f q)) sbn then [(tid, sbn, stxi, ii, false)] else []
                        | None => [] end) js.
Definition q_txs (js : list jcell) (q : rquery) : list tx_result := sort_by row_key (q_tx_rows js q).

Definition rich_get_cells (db : rdb) (q : rquery) := q_cells (joined db q) q.
Definition rich_get_capacity (db : rdb) (q : rquery) := q_capacity (joined db q) (rtip db) q.
Definition rich_get_txs (db : rdb) (q : rquery) := q_txs (joined db q) q.

(* ------------------------------------------------------------------------ *)
(* the same queries as direct filters over the chain's cell history *)
Definition a_jcell (a : acell) : jcell :=
  mkJc (g_op a) (g_bn a) (g_txi a) (g_cap a) (g_data a) (Some (g_lock a)) (g_type a) (g_spent a).
Definition a_script (lockq : bool) (a : acell) : option script := if lockq then Some (g_lock a) else g_type a.
Definition a_selected (lockq : bool) (sel : script -> bool) (a : acell) : bool :=
  match a_script lockq a with Some s => sel s | None => false end.
Definition spec_joined (cs : list acell) (q : rquery) : list jcell :=
  filter (jcell_pass (rq_lock q) (rq_f q))
         (map a_jcell (filter (a_selected (rq_lock q) (sel_of (rq_mode q) (rq_script q))) cs)).
(* … and over the live-cell set of the main chain *)
Definition l_jcell (c : lcell) : jcell :=
  mkJc (lc_op c) (lc_bn c) (lc_txi c) (o_cap (lc_out c)) (o_data (lc_out c))
       (Some (o_lock (lc_out c))) (o_type (lc_out c)) None.
Definition l_selected (lockq : bool) (sel : script -> bool) (c : lcell) : bool :=
  match lcell_script lockq c with Some s => sel s | None => false end.
Definition live_joined (L : list lcell) (q : rquery) : list jcell :=
  filter (jcell_pass (rq_lock q) (rq_f q))
         (map l_jcell (filter (l_selected (rq_lock q) (sel_of (rq_mode q) (rq_script q))) L)).
(* … and, for the transaction lists, over the transaction history of the main chain *)
Definition trow_result (r : trow) : tx_result := (tr_tx r, tr_bn r, tr_txi r, tr_ioi r, tr_out r).
Definition no_cell_filter (f : filter_opts) : bool :=
  negb (is_some (f_script f)) && negb (is_some (f_slen f)) && negb (is_some (f_data f))
  && negb (is_some (f_dlen f)) && negb (is_some (f_cap f)).
Definition history_rows (ch : list block) (q : rquery) : list tx_result :=
  map trow_result
      (filter (fun r => sel_of (rq_mode q) (rq_script q) (tr_s r) && in_range (f_block (rq_f q)) (tr_bn r))
              (spec_tx_rows (rq_lock q) ch)).
Definition spec_get_cells (ch : list block) (q : rquery) := q_cells (spec_joined (all_cells ch) q) q.
Definition spec_get_capacity (ch : list block) (q : rquery) := q_capacity (spec_joined (all_cells ch) q) (chain_tip ch) q.
Definition spec_get_txs (ch : list block) (q : rquery) := q_txs (spec_joined (all_cells ch) q) q.

(* ------------------------------------------------------------------------ *)
(* the driver, as IndexerSync drives it; the rich indexer keeps everything, so
   any block can be rolled back *)
Record rstate := mkRs { rs_db : rdb; rs_chain : list block }.
Definition rs_empty := mkRs db_empty [].
Definition rstep_gen (m : gc_mode) (s : rstate) (o : iop) : option rstate :=
  match o with
  | OAppend b => match rappend (rs_db s) b with
                 | Some db => Some (mkRs db (rs_chain s ++ [b]))
                 | None => None end
  | ORollback => Some (mkRs (rrollback_gen m (rs_db s)) (removelast (rs_chain s)))
  end.
Fixpoint rrun_gen (m : gc_mode) (s : rstate) (ops : list iop) : option rstate :=
  match ops with
  | [] => Some s
  | o :: r => match rstep_gen m s o with Some s' => rrun_gen m s' r | None => None end
  end.
Definition rop_ok (s : rstate) (o : iop) : bool :=
  match o with OAppend b => block_ok (rs_chain s) b | ORollback => true end.
Fixpoint rops_ok_gen (m : gc_mode) (s : rstate) (ops : list iop) : bool :=
  match ops with
  | [] => true
  | o :: r => rop_ok s o && match rstep_gen m s o with
                            | Some s' => rops_ok_gen m s' r
                            | None => false end
  end.
Definition rstep := rstep_gen GcLockOrType.
Definition rrun := rrun_gen GcLockOrType.
Definition rops_ok := rops_ok_gen GcLockOrType.

(* ------------------------------------------------------------------------ *)
(* cases written by the harness (hx-indexer, stream "rich") *)
Inductive rq := RQTip | RQCells (q : rquery) | RQCap (q : rquery) | RQTxs (q : rquery).
Inductive ra :=
| RATip (t : option (N * N))
| RACells (l : list rcell_result)
| RACap (c : option (N * N * N))
| RATxs (l : list tx_result).             (* every row of every page, ungrouped or flattened groups *)
Definition rich_run (db : rdb) (q : rq) : ra :=
  match q with
  | RQTip => RATip (rtip db)
  | RQCells q => RACells (rich_get_cells db q)
  | RQCap q => RACap (rich_get_capacity db q)
  | RQTxs q => RATxs (rich_get_txs db q)
  end.
Definition spec_run (ch : list block) (q : rq) : ra :=
  match q with
  | RQTip => RATip (chain_tip ch)
  | RQCells q => RACells (spec_get_cells ch q)
  | RQCap q => RACap (spec_get_capacity ch q)
  | RQTxs q => RATxs (spec_get_txs ch q)
  end.
Definition oscript_eqb := option_eqb script_eqb.
Definition rcell_result_eqb : rcell_result -> rcell_result -> bool :=
  pair_eqb (pair_eqb (pair_eqb (pair_eqb (pair_eqb (pair_eqb (pair_eqb N.eqb N.eqb) N.eqb) N.eqb) N.eqb)
                                oscript_eqb) oscript_eqb) bytes_eqb.
Definition ra_eqb (a b : ra) : bool :=
  match a, b with
  | RATip x, RATip y => option_eqb (pair_eqb N.eqb N.eqb) x y
  | RACells x, RACells y => list_eqb rcell_result_eqb x y
  | RACap x, RACap y => option_eqb (pair_eqb (pair_eqb N.eqb N.eqb) N.eqb) x y
  | RATxs x, RATxs y => list_eqb tx_result_eqb x (sort_by row_key y)
  | _, _ => false
  end.
Definition rich_hist_case := list (iop * list (rq * ra)).
Fixpoint rcheck_steps (db : rdb) (steps : rich_hist_case) : bool :=
  match steps with
  | [] => true
  | (o, qs) :: r =>
    match (match o with OAppend b => rappend db b | ORollback => Some (rrollback db) end) with
    | None => false
    | Some db' => forallb (fun qa => ra_eqb (rich_run db' (fst qa)) (snd qa)) qs && rcheck_steps db' r
    end
  end.
Definition check_rich_hist (c : rich_hist_case) : bool := rcheck_steps db_empty c.
