(* Indexer/IndexerRange.v — the numbers in the rows of a valid chain fit the
   Rust integer types, hence the big-endian key encodings are injective. *)
From CKB Require Import Indexer.Indexer Indexer.IndexerLemmas Indexer.IndexerSpec Indexer.IndexerInv.
Arguments N.add : simpl never.
Arguments N.sub : simpl never.
Arguments N.mul : simpl never.
Arguments N.div : simpl never.
Arguments N.modulo : simpl never.
Arguments N.pow : simpl never.
Arguments N.of_nat : simpl never.
Arguments N.to_nat : simpl never.
Local Open Scope N_scope.

(* ---- big-endian bytes ----------------------------------------------------------------- *)
Lemma be_length : forall w n, length (be w n) = w.
Proof. induction w; intro n; cbn [be]; auto. rewrite app_length, IHw. cbn. lia. Qed.

Lemma be_inj_mod : forall w n m, be w n = be w m -> n mod 256 ^ N.of_nat w = m mod 256 ^ N.of_nat w.
Proof.
  induction w as [|w IH]; intros n m H.
  - cbn. rewrite !N.mod_1_r. reflexivity.
  - cbn [be] in H. apply app_inj_tail in H. destruct H as [H1 H2]. apply IH in H1.
    rewrite Nat2N.inj_succ, N.pow_succ_r'. rewrite !N.mod_mul_r by (try apply N.pow_nonzero; lia).
    rewrite H1, H2. reflexivity.
Qed.
Lemma be_inj : forall w n m, n < 256 ^ N.of_nat w -> m < 256 ^ N.of_nat w -> be w n = be w m -> n = m.
Proof.
  intros w n m Hn Hm H. apply be_inj_mod in H. rewrite !N.mod_small in H; auto.
Qed.
Lemma be8_inj : forall n m, n < 18446744073709551616 -> m < 18446744073709551616 -> be 8 n = be 8 m -> n = m.
Proof. intros n m Hn Hm. apply be_inj; assumption. Qed.
Lemma be4_inj : forall n m, n < 4294967296 -> m < 4294967296 -> be 4 n = be 4 m -> n = m.
Proof. intros n m Hn Hm. apply be_inj; assumption. Qed.

Lemma app_inj_len : forall {A} (s s' t t' : list A), s ++ t = s' ++ t' -> length t = length t' -> s = s' /\ t = t'.
Proof.
  intros A s s' t t' E L. assert (length s = length s').
  { apply (f_equal (@length A)) in E. rewrite !app_length in E. lia. }
  assert (s = s') by (eapply app_eq_len; eauto). subst s'. split; auto. eapply app_inv_head; eauto.
Qed.

Lemma enc_cell_inj : forall s bn txi oi s' bn' txi' oi',
  bn < 18446744073709551616 -> bn' < 18446744073709551616 ->
  txi < 4294967296 -> txi' < 4294967296 -> oi < 4294967296 -> oi' < 4294967296 ->
  enc_cell s bn txi oi = enc_cell s' bn' txi' oi' -> s = s' /\ bn = bn' /\ txi = txi' /\ oi = oi'.
Proof.
  intros s bn txi oi s' bn' txi' oi' H1 H2 H3 H4 H5 H6 E. unfold enc_cell in E.
  apply app_inj_len in E; [|rewrite !app_length, !be_length; reflexivity]. destruct E as [-> E].
  apply app_inj_len in E; [|rewrite !app_length, !be_length; reflexivity]. destruct E as [E1 E].
  apply app_inj_len in E; [|rewrite !be_length; reflexivity]. destruct E as [E2 E3].
  apply be8_inj in E1; auto. apply be4_inj in E2; auto. apply be4_inj in E3; auto.
Qed.
Lemma enc_tx_inj : forall s bn txi oi o s' bn' txi' oi' o',
  bn < 18446744073709551616 -> bn' < 18446744073709551616 ->
  txi < 4294967296 -> txi' < 4294967296 -> oi < 4294967296 -> oi' < 4294967296 ->
  enc_tx s bn txi oi o = enc_tx s' bn' txi' oi' o' -> s = s' /\ bn = bn' /\ txi = txi' /\ oi = oi' /\ o = o'.
Proof.
  intros s bn txi oi o s' bn' txi' oi' o' H1 H2 H3 H4 H5 H6 E. unfold enc_tx in E.
  apply app_inj_tail in E. destruct E as [E E']. apply enc_cell_inj in E; auto.
  destruct E as [? [? [? ?]]]. repeat split; auto. destruct o, o'; auto; discriminate.
Qed.

(* ---- ranges of the rows of a valid chain -------------------------------------------------- *)
Definition crange (c : lcell) : Prop :=
  lc_bn c < 18446744073709551616 /\ lc_txi c < 4294967296 /\ snd (lc_op c) < 4294967296.
Definition trange (r : trow) : Prop :=
  tr_bn r < 18446744073709551616 /\ tr_txi r < 4294967296 /\ tr_ioi r < 4294967296.

Lemma PT_ind : forall bn L0 T0 (P : bool * trow -> Prop) all,
  (forall r, In r T0 -> P r) ->
  (forall pre t post r, all = pre ++ t :: post ->
     In r (rows_tx bn (PL bn L0 T0 pre) (N.of_nat (length pre)) t) -> P r) ->
  forall r, In r (PT bn L0 T0 all) -> P r.
Proof.
  intros bn L0 T0 P all. induction all as [|x l IH] using rev_ind; intros H0 H1 r Hr.
  - apply H0. exact Hr.
  - rewrite PT_snoc in Hr. apply in_app_or in Hr. destruct Hr as [Hr|Hr].
    + apply IH; auto. intros pre t post r0 E Hr0. apply (H1 pre t (post ++ [x]) r0); auto.
      rewrite E, <- app_assoc. reflexivity.
    + apply (H1 l x [] r); auto.
Qed.

Lemma block_in_range_parts : forall b, block_in_range b = true ->
  b_num b < 18446744073709551616 /\ N.of_nat (length (b_txs b)) < 4294967296 /\
  (forall t, In t (b_txs b) -> N.of_nat (length (t_inputs t)) < 4294967296 /\
                               N.of_nat (length (t_outputs t)) < 4294967296).
Proof.
  intros b H. unfold block_in_range in H. apply andb_true_iff in H. destruct H as [H H3].
  apply andb_true_iff in H. destruct H as [H1 H2]. apply N.ltb_lt in H1. apply N.ltb_lt in H2.
  split; auto. split; auto. intros t Ht. rewrite forallb_forall in H3. apply H3 in Ht.
  apply andb_true_iff in Ht. destruct Ht as [G1 G2]. apply N.ltb_lt in G1. apply N.ltb_lt in G2. auto.
Qed.

Lemma nth_error_lt : forall {A} (l : list A) j x, nth_error l j = Some x -> N.of_nat j < N.of_nat (length l).
Proof. intros A l j x H. assert (j < length l)%nat by (apply nth_error_Some; congruence). lia. Qed.

Lemma chain_ranges : forall ch, chain_ok ch ->
  (forall c, In c (live ch) -> crange c) /\ (forall r, In r (txs ch) -> trange (snd r)).
Proof.
  induction 1 as [|ch b Hc [IH1 IH2] Hb]. { split; intros x []. }
  pose proof (chain_facts _ Hc) as F.
  pose proof (block_seq_facts ch b (b_txs b) [] F Hb (eq_sym (app_nil_r _))) as SF.
  pose proof (block_ok_parts _ _ Hb) as [Hn [HR _]]. apply block_in_range_parts in HR.
  destruct HR as [R1 [R2 R3]]. split.
  - intros c Hc'. rewrite live_snoc in Hc'. apply (sf_origin _ _ _ _ _ SF) in Hc'.
    destruct Hc' as [Hc'|[j [t [G1 G2]]]]; auto.
    apply in_new_cells in G2. destruct G2 as [oi [o [G2 ->]]]. unfold crange. cbn.
    pose proof (nth_error_lt _ _ _ G1). pose proof (nth_error_lt _ _ _ G2).
    destruct (R3 t (nth_error_In _ _ G1)). repeat split; lia.
  - intros r Hr. rewrite txs_snoc in Hr. revert r Hr. apply PT_ind; auto.
    intros pre t post r E Hr.
    assert (Ht : In t (b_txs b)) by (rewrite E; apply in_or_app; right; left; auto).
    assert (Hi : N.of_nat (length pre) < N.of_nat (length (b_txs b))).
    { rewrite E, app_length. cbn. lia. }
    destruct (R3 t Ht) as [R4 R5]. apply in_rows_tx in Hr.
    destruct Hr as [[ii [op [c [G1 [_ G2]]]]]|[oi [o [G1 G2]]]].
    + assert (N.of_nat ii < N.of_nat (length (t_inputs t))).
      { apply nth_error_lt in G1. unfold tx_ins in G1. destruct (0 <? N.of_nat (length pre)); cbn in G1; lia. }
      unfold cell_in_rows in G2. destruct (o_type (lc_out c)); cbn [In] in G2;
        intuition; subst r; unfold trange; cbn; repeat split; lia.
    + apply nth_error_lt in G1.
      unfold out_rows in G2. destruct (o_type o); cbn [In] in G2;
        intuition; subst r; unfold trange; cbn; repeat split; lia.
Qed.
