(* Indexer/InvEquiv.v — the invariant of the indexer's store makes it
   live-equivalent to the reference store of its chain, hence every query of
   the RPC layer answers alike on both (SameAnswers.same_answers). *)
From CKB Require Import Indexer.Indexer Indexer.IndexerLemmas Indexer.IndexerSpec Indexer.IndexerInv.
From CKB Require Import Indexer.IndexerRange Indexer.Query Indexer.SameAnswers Indexer.Canon Indexer.IndexerProofs.
From Coq Require Import Permutation.
Arguments N.add : simpl never.
Arguments N.sub : simpl never.
Arguments N.mul : simpl never.
Arguments N.div : simpl never.
Arguments N.modulo : simpl never.
Arguments N.of_nat : simpl never.
Arguments N.to_nat : simpl never.
Local Open Scope N_scope.

(* ---- the reference store, part by part ---------------------------------------------------------- *)
Definition canon_hdr (ch : list block) : store :=
  match chain_tip ch with Some (n, i) => [(KHeader n i false, VTxs [])] | None => [] end.

Lemma flat_map_map_nil : forall {A B C} (f : B -> list C) (g : A -> B) l,
  (forall x, f (g x) = []) -> flat_map f (map g l) = [].
Proof. induction l as [|a l IH]; intro H; cbn; auto. rewrite H, IH; auto. Qed.
Lemma flat_map_map_single : forall {A B} (f : B -> list A) (g : A -> B) l,
  (forall x, f (g x) = [x]) -> flat_map f (map g l) = l.
Proof. induction l as [|a l IH]; intro H; cbn; auto. rewrite H, IH; auto. Qed.

Lemma canon_cell_rows : forall lock ch, cell_rows lock (canon_store ch) = spec_cell_rows lock ch.
Proof.
  intros lock ch. unfold canon_store, cell_rows. rewrite !flat_map_app.
  rewrite flat_map_map_nil by reflexivity.
  rewrite (flat_map_map_nil _ _ (spec_tx_rows true ch)) by reflexivity.
  rewrite (flat_map_map_nil _ _ (spec_tx_rows false ch)) by reflexivity.
  assert (H : flat_map (fun e : key * value => match e with
             | (KCellLock s bn txi oi, VTx t) => if lock then [mkCrow s bn txi oi t] else []
             | (KCellType s bn txi oi, VTx t) => if lock then [] else [mkCrow s bn txi oi t]
             | _ => [] end)
            match chain_tip ch with Some (n, i) => [(KHeader n i false, VTxs [])] | None => [] end = []).
  { destruct (chain_tip ch) as [[n i]|]; reflexivity. }
  rewrite H. destruct lock.
  - rewrite flat_map_map_single by (intros []; reflexivity). rewrite flat_map_map_nil by reflexivity.
    cbn [app]. rewrite app_nil_r. reflexivity.
  - rewrite flat_map_map_nil by reflexivity. rewrite flat_map_map_single by (intros []; reflexivity).
    cbn [app]. rewrite app_nil_r. reflexivity.
Qed.
Lemma canon_tx_rows : forall lock ch, tx_rows lock (canon_store ch) = spec_tx_rows lock ch.
Proof.
  intros lock ch. unfold canon_store, tx_rows. rewrite !flat_map_app.
  rewrite flat_map_map_nil by reflexivity.
  rewrite (flat_map_map_nil _ _ (spec_cell_rows true ch)) by reflexivity.
  rewrite (flat_map_map_nil _ _ (spec_cell_rows false ch)) by reflexivity.
  assert (H : flat_map (fun e : key * value => match e with
             | (KTxLock s bn txi ioi out, VTx t) => if lock then [mkTrow s bn txi ioi out t] else []
             | (KTxType s bn txi ioi out, VTx t) => if lock then [] else [mkTrow s bn txi ioi out t]
             | _ => [] end)
            match chain_tip ch with Some (n, i) => [(KHeader n i false, VTxs [])] | None => [] end = []).
  { destruct (chain_tip ch) as [[n i]|]; reflexivity. }
  rewrite H. destruct lock.
  - rewrite flat_map_map_single by (intros []; reflexivity). rewrite flat_map_map_nil by reflexivity.
    cbn [app]. rewrite app_nil_r. reflexivity.
  - rewrite flat_map_map_nil by reflexivity. rewrite flat_map_map_single by (intros []; reflexivity).
    cbn [app]. rewrite app_nil_r. reflexivity.
Qed.

Lemma tip_entry_app : forall a b best, tip_entry (a ++ b) best = tip_entry b (tip_entry a best).
Proof.
  induction a as [|[k v] a IH]; intros b best; cbn [app tip_entry]; auto.
  destruct k; apply IH.
Qed.
Lemma canon_tip : forall ch, tip (canon_store ch) = chain_tip ch.
Proof.
  intro ch. unfold tip, canon_store. rewrite !tip_entry_app.
  rewrite (tip_entry_none (map _ (live ch))).
  2: { intros n i f v H. apply in_map_iff in H. destruct H as [c [H _]]. discriminate. }
  rewrite (tip_entry_none (map _ (spec_cell_rows true ch))).
  2: { intros n i f v H. apply in_map_iff in H. destruct H as [c [H _]]. discriminate. }
  rewrite (tip_entry_none (map _ (spec_cell_rows false ch))).
  2: { intros n i f v H. apply in_map_iff in H. destruct H as [c [H _]]. discriminate. }
  rewrite (tip_entry_none (map _ (spec_tx_rows true ch))).
  2: { intros n i f v H. apply in_map_iff in H. destruct H as [c [H _]]. discriminate. }
  rewrite (tip_entry_none (map _ (spec_tx_rows false ch))).
  2: { intros n i f v H. apply in_map_iff in H. destruct H as [c [H _]]. discriminate. }
  destruct (chain_tip ch) as [[n i]|]; reflexivity.
Qed.

(* membership in the reference store *)
Lemma in_canon_store : forall ch e,
  In e (canon_store ch) <-> In e (live_kvs (live ch) (txs ch)) \/ In e (canon_hdr ch).
Proof.
  intros ch [k v]. unfold canon_store. fold (canon_hdr ch). rewrite !in_app_iff, !in_map_iff, in_live_kvs. split.
  - intros [[c [E H]]|[[r [E H]]|[[r [E H]]|[[r [E H]]|[[r [E H]]|H]]]]]; auto; left.
    + left. exists c. split; auto. rewrite <- E. left. reflexivity.
    + left. apply in_spec_cell_rows in H. destruct H as [c [H1 H2]]. exists c. split; auto. rewrite <- E. exact H2.
    + left. apply in_spec_cell_rows in H. destruct H as [c [H1 H2]]. exists c. split; auto. rewrite <- E. exact H2.
    + right. apply in_spec_tx_rows in H. exists (true, r). split; auto.
    + right. apply in_spec_tx_rows in H. exists (false, r). split; auto.
  - intros [[[c [H1 H2]]|[[l r] [E H]]]|H]; auto.
    + unfold cell_kvs in H2. destruct H2 as [H2|[H2|H2]].
      * left. exists c. auto.
      * right. left. exists (mkCrow (o_lock (lc_out c)) (lc_bn c) (lc_txi c) (snd (lc_op c)) (fst (lc_op c))).
        split; auto. apply in_spec_cell_rows. exists c. split; auto. right. left. reflexivity.
      * destruct (o_type (lc_out c)) as [sc|] eqn:ET; [|contradiction]. destruct H2 as [H2|[]].
        right. right. left. exists (mkCrow sc (lc_bn c) (lc_txi c) (snd (lc_op c)) (fst (lc_op c))).
        split; auto. apply in_spec_cell_rows. exists c. split; auto. unfold cell_kvs. rewrite ET. right. right. left. reflexivity.
    + destruct l.
      * right. right. right. left. exists r. split; auto. apply in_spec_tx_rows. auto.
      * right. right. right. right. left. exists r. split; auto. apply in_spec_tx_rows. auto.
    + do 5 right. exact H.
Qed.

Lemma in_get_ex : forall st k v, In (k, v) st -> exists v', get st k = Some v'.
Proof.
  induction st as [|[k0 v0] st IH]; intros k v H; cbn [get In] in *. contradiction.
  destruct (key_eqb k k0) eqn:E; eauto. destruct H as [H|H]; eauto.
  inversion H; subst. rewrite key_eqb_refl in E. discriminate.
Qed.

Lemma inv_get_canon : forall s k, Inv s -> live_key k = true ->
  get (ix_store s) k = get (canon_store (ix_chain s)) k.
Proof.
  intros s k HI Hk.
  assert (A : forall v, get (canon_store (ix_chain s)) k = Some v -> get (ix_store s) k = Some v).
  { intros v G. apply get_in in G. apply in_canon_store in G. destruct G as [G|G].
    - apply (inv_live _ HI); auto.
    - exfalso. unfold canon_hdr in G. destruct (chain_tip (ix_chain s)) as [[n i]|]; [|contradiction].
      destruct G as [G|[]]. inversion G; subst. discriminate. }
  destruct (get (ix_store s) k) as [v|] eqn:G.
  - apply (inv_live _ HI) in G; auto.
    destruct (in_get_ex (canon_store (ix_chain s)) k v) as [v' G'].
    { apply in_canon_store. auto. }
    rewrite G'. apply A in G'. exact G'.
  - destruct (get (canon_store (ix_chain s)) k) as [v|] eqn:G'; auto.
Qed.

(* ---- E1 -------------------------------------------------------------------------------------------- *)
Theorem inv_live_equiv : forall s, Inv s -> live_equiv (ix_store s) (canon_store (ix_chain s)).
Proof.
  intros s HI. constructor.
  - rewrite canon_tip. apply inv_tip; auto.
  - intro lock. rewrite canon_cell_rows. apply inv_cell_rows; auto.
  - intro lock. rewrite canon_tx_rows. apply inv_tx_rows; auto.
  - intro op. apply inv_get_canon; auto.
  - intros. apply inv_get_canon; auto.
  - intros. apply inv_get_canon; auto.
Qed.

(* ---- E3 -------------------------------------------------------------------------------------------- *)
Theorem inv_eq_filter_all : forall s, Inv s ->
  forall q, run_query (ix_store s) q = run_query (canon_store (ix_chain s)) q.
Proof. intros s HI q. apply same_answers. apply inv_live_equiv; auto. apply inv_rows_inj; auto. Qed.

Theorem indexer_eq_filter_all : forall keep interval ops s,
  ops_ok keep interval ix_empty ops = true -> irun keep interval ix_empty ops = Some s ->
  forall q, run_query (ix_store s) q = run_query (canon_store (ix_chain s)) q.
Proof. intros. apply inv_eq_filter_all. eapply inv_reachable; eauto. Qed.

Theorem rollback_inverts_append_all : forall keep interval s b s1 s2,
  Inv s -> block_ok (ix_chain s) b = true ->
  istep keep interval s (OAppend b) = Some s1 -> op_ok s1 ORollback = true ->
  istep keep interval s1 ORollback = Some s2 ->
  forall q, run_query (ix_store s2) q = run_query (ix_store s) q.
Proof.
  intros keep interval s b s1 s2 HI HB H1 HO H2 q.
  destruct (rollback_inverts_append_rows keep interval s b s1 s2 HI HB H1 HO H2) as [HI2 [E _]].
  rewrite (inv_eq_filter_all s2 HI2 q), (inv_eq_filter_all s HI q), E. reflexivity.
Qed.

Print Assumptions inv_live_equiv.
Print Assumptions indexer_eq_filter_all.
Print Assumptions rollback_inverts_append_all.
