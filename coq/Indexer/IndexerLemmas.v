(* Indexer/IndexerLemmas.v — store algebra for the indexer model: key equality,
   get/put/del, last-write-wins for write batches. *)
From CKB Require Import Indexer.Indexer.
From Coq Require Import Permutation Sorted.
Arguments N.add : simpl never.
Arguments N.sub : simpl never.
Arguments N.mul : simpl never.
Arguments N.div : simpl never.
Arguments N.modulo : simpl never.
Arguments N.of_nat : simpl never.
Arguments N.to_nat : simpl never.

(* ---- boolean equalities ---------------------------------------------------- *)
Lemma list_eqb_N_spec : forall a b : list N, list_eqb N.eqb a b = true <-> a = b.
Proof.
  induction a as [|x a IH]; destruct b as [|y b]; cbn; split; intro H; try congruence; auto.
  - apply andb_true_iff in H. destruct H as [H1 H2]. apply N.eqb_eq in H1. apply IH in H2. congruence.
  - inversion H; subst. apply andb_true_iff. split. apply N.eqb_refl. apply IH. reflexivity.
Qed.
Lemma script_eqb_spec : forall a b, script_eqb a b = true <-> a = b.
Proof. exact list_eqb_N_spec. Qed.
Lemma op_eqb_spec : forall a b, op_eqb a b = true <-> a = b.
Proof.
  intros [a1 a2] [b1 b2]. unfold op_eqb. cbn. rewrite andb_true_iff, !N.eqb_eq.
  split. intros [? ?]; congruence. intro H; inversion H; auto.
Qed.
Lemma op_eqb_refl : forall a, op_eqb a a = true.
Proof. intro a. apply op_eqb_spec. reflexivity. Qed.
Lemma op_eqb_sym : forall a b, op_eqb a b = op_eqb b a.
Proof.
  intros a b. destruct (op_eqb a b) eqn:E; destruct (op_eqb b a) eqn:F; auto.
  - apply op_eqb_spec in E. subst. rewrite op_eqb_refl in F. discriminate.
  - apply op_eqb_spec in F. subst. rewrite op_eqb_refl in E. discriminate.
Qed.
Lemma op_eqb_neq : forall a b, op_eqb a b = false <-> a <> b.
Proof.
  intros a b. split.
  - intros H E. subst. rewrite op_eqb_refl in H. discriminate.
  - intro H. destruct (op_eqb a b) eqn:E; auto. apply op_eqb_spec in E. contradiction.
Qed.

Lemma key_eqb_spec : forall a b, key_eqb a b = true <-> a = b.
Proof.
  intros a b. destruct a, b; cbn [key_eqb]; try (split; intro; discriminate);
    rewrite ?andb_true_iff, ?N.eqb_eq, ?script_eqb_spec, ?op_eqb_spec, ?Bool.eqb_true_iff;
    (split; [ intro H; decompose [and] H; congruence | intro H; inversion H; auto 10 ]).
Qed.
Lemma key_eqb_refl : forall a, key_eqb a a = true.
Proof. intro a. apply key_eqb_spec. reflexivity. Qed.
Lemma key_eqb_neq : forall a b, key_eqb a b = false <-> a <> b.
Proof.
  intros a b. split.
  - intros H E. subst. rewrite key_eqb_refl in H. discriminate.
  - intro H. destruct (key_eqb a b) eqn:E; auto. apply key_eqb_spec in E. contradiction.
Qed.
Lemma key_eqb_sym : forall a b, key_eqb a b = key_eqb b a.
Proof.
  intros a b. destruct (key_eqb a b) eqn:E; destruct (key_eqb b a) eqn:F; auto.
  - apply key_eqb_spec in E. subst. rewrite key_eqb_refl in F. discriminate.
  - apply key_eqb_spec in F. subst. rewrite key_eqb_refl in E. discriminate.
Qed.
Lemma key_eq_dec : forall a b : key, {a = b} + {a <> b}.
Proof.
  intros a b. destruct (key_eqb a b) eqn:E.
  - left. apply key_eqb_spec. exact E.
  - right. apply key_eqb_neq. exact E.
Qed.

(* ---- get / put / del -------------------------------------------------------- *)
Lemma get_del_same : forall st k, get (del k st) k = None.
Proof.
  unfold del. induction st as [|[k' v] st IH]; intro k; cbn [filter get fst negb]; auto.
  destruct (key_eqb k k') eqn:E; cbn [filter get fst negb]; auto. rewrite E. auto.
Qed.
Lemma get_del_other : forall st k k', k <> k' -> get (del k st) k' = get st k'.
Proof.
  unfold del. induction st as [|[k0 v] st IH]; intros k k' H; cbn [filter get fst negb]; auto.
  destruct (key_eqb k k0) eqn:E; cbn [filter get fst negb].
  - apply key_eqb_spec in E. subst k0.
    assert (key_eqb k' k = false) as -> by (apply key_eqb_neq; congruence). auto.
  - destruct (key_eqb k' k0); auto.
Qed.
Lemma get_put_same : forall st k v, get (put k v st) k = Some v.
Proof. intros. unfold put. cbn [get]. rewrite key_eqb_refl. reflexivity. Qed.
Lemma get_put_other : forall st k v k', k <> k' -> get (put k v st) k' = get st k'.
Proof.
  intros. unfold put. cbn [get].
  assert (key_eqb k' k = false) as -> by (apply key_eqb_neq; congruence).
  apply get_del_other. assumption.
Qed.

Definition wf_store (st : store) := NoDup (map fst st).

Lemma in_del : forall st k e, In e (del k st) <-> In e st /\ fst e <> k.
Proof.
  intros. unfold del. rewrite filter_In. rewrite negb_true_iff, key_eqb_neq.
  split; intros [? ?]; split; auto.
Qed.
Lemma wf_del : forall st k, wf_store st -> wf_store (del k st).
Proof.
  unfold wf_store. induction st as [|[k0 v] st IH]; intros k H. constructor.
  inversion H; subst. unfold del. cbn [filter fst negb]. fold (del k st).
  destruct (key_eqb k k0); cbn [negb map fst]; auto.
  constructor; auto. intro HI. apply H2. apply in_map_iff in HI. destruct HI as [e [E1 E2]].
  apply in_del in E2. apply in_map_iff. exists e. tauto.
Qed.
Lemma wf_put : forall st k v, wf_store st -> wf_store (put k v st).
Proof.
  intros. unfold wf_store, put. cbn. constructor.
  - intro HI. apply in_map_iff in HI. destruct HI as [e [E1 E2]]. apply in_del in E2. tauto.
  - apply wf_del. assumption.
Qed.
Lemma wf_apply_op : forall st o, wf_store st -> wf_store (apply_op st o).
Proof. intros st [k v|k] H; cbn. apply wf_put; auto. apply wf_del; auto. Qed.
Lemma wf_commit : forall ops st, wf_store st -> wf_store (commit st ops).
Proof.
  unfold commit. induction ops as [|o ops IH]; intros st H; cbn; auto.
  apply IH. apply wf_apply_op. assumption.
Qed.
Lemma wf_nil : wf_store [].
Proof. constructor. Qed.

Lemma get_in : forall st k v, get st k = Some v -> In (k, v) st.
Proof.
  induction st as [|[k0 v0] st IH]; intros k v; cbn. discriminate.
  destruct (key_eqb k k0) eqn:E.
  - apply key_eqb_spec in E. intro H. inversion H; subst. auto.
  - intro H. right. auto.
Qed.
Lemma in_get : forall st k v, wf_store st -> In (k, v) st -> get st k = Some v.
Proof.
  unfold wf_store. induction st as [|[k0 v0] st IH]; intros k v W HI; cbn in *. contradiction.
  inversion W; subst. destruct HI as [HI|HI].
  - inversion HI; subst. rewrite key_eqb_refl. reflexivity.
  - destruct (key_eqb k k0) eqn:E.
    + apply key_eqb_spec in E. subst. exfalso. apply H1. apply in_map_iff. exists (k0, v). auto.
    + auto.
Qed.
Lemma in_get_iff : forall st k v, wf_store st -> (In (k, v) st <-> get st k = Some v).
Proof. intros. split. apply in_get; auto. apply get_in. Qed.

(* ---- last write wins --------------------------------------------------------- *)
Definition bop_key (o : bop) : key := match o with Put k _ => k | Del k => k end.
Definition bop_res (o : bop) : option value := match o with Put _ v => Some v | Del _ => None end.
Fixpoint last_op (ops : list bop) (k : key) : option (option value) :=
  match ops with
  | [] => None
  | o :: r => match last_op r k with
              | Some x => Some x
              | None => if key_eqb k (bop_key o) then Some (bop_res o) else None
              end
  end.

Lemma get_apply_op : forall st o k,
  get (apply_op st o) k = if key_eqb k (bop_key o) then bop_res o else get st k.
Proof.
  intros st [k0 v|k0] k; cbn [apply_op bop_key bop_res].
  - destruct (key_eqb k k0) eqn:E.
    + apply key_eqb_spec in E. subst. apply get_put_same.
    + apply get_put_other. apply key_eqb_neq in E. congruence.
  - destruct (key_eqb k k0) eqn:E.
    + apply key_eqb_spec in E. subst. apply get_del_same.
    + apply get_del_other. apply key_eqb_neq in E. congruence.
Qed.

Lemma get_commit : forall ops st k,
  get (commit st ops) k = match last_op ops k with Some r => r | None => get st k end.
Proof.
  unfold commit. induction ops as [|o ops IH]; intros st k; cbn [fold_left last_op]; auto.
  rewrite IH. destruct (last_op ops k); auto.
  rewrite get_apply_op. destruct (key_eqb k (bop_key o)); auto.
Qed.

Lemma last_op_app : forall a b k,
  last_op (a ++ b) k = match last_op b k with Some r => Some r | None => last_op a k end.
Proof.
  induction a as [|o a IH]; intros b k; cbn [app last_op].
  - destruct (last_op b k); auto.
  - rewrite IH. destruct (last_op b k); auto.
Qed.

Lemma last_op_none_iff : forall ops k, last_op ops k = None <-> ~ In k (map bop_key ops).
Proof.
  induction ops as [|o ops IH]; intro k; cbn [last_op map In].
  - tauto.
  - destruct (last_op ops k) eqn:E.
    + split. discriminate. intro H. exfalso. apply H. right.
      destruct (in_dec key_eq_dec k (map bop_key ops)); auto.
      apply IH in n. congruence.
    + destruct (key_eqb k (bop_key o)) eqn:F.
      * apply key_eqb_spec in F. split. discriminate. intro H. exfalso. apply H. auto.
      * apply key_eqb_neq in F. split; auto. intros _ [H|H]. congruence. apply IH in H; auto.
Qed.
Lemma last_op_not_in : forall ops k, ~ In k (map bop_key ops) -> last_op ops k = None.
Proof. intros. apply last_op_none_iff. assumption. Qed.

Lemma last_op_concat_none : forall (l : list (list bop)) k,
  (forall ops, In ops l -> last_op ops k = None) -> last_op (concat l) k = None.
Proof.
  induction l as [|a l IH]; intros k H; cbn [concat]; auto.
  rewrite last_op_app. rewrite IH. apply H. left; auto. intros. apply H. right; auto.
Qed.

(* a commit of operations that do not touch the keys seen by a row filter *)
Lemma commit_app : forall st a b, commit st (a ++ b) = commit (commit st a) b.
Proof. intros. unfold commit. apply fold_left_app. Qed.
