(* Indexer/RichProofs.v — proofs about the model of the rich indexer (Rich.v):
   for every history of appends and rollbacks over a valid chain the rows of
   the rich indexer, with their script ids looked up in the reference-counted
   table `script`, are the chain's cell history; hence every answer is the
   direct filter over it, rollback restores every answer, and the live part of
   the history is the live-cell set of the main chain (IndexerSpec). *)
From CKB Require Import Indexer.Indexer Indexer.IndexerLemmas Indexer.IndexerSpec Indexer.Rich.
From Coq Require Import Permutation.
Arguments N.add : simpl never.
Arguments N.sub : simpl never.
Arguments N.mul : simpl never.
Arguments N.div : simpl never.
Arguments N.modulo : simpl never.
Arguments N.of_nat : simpl never.
Arguments N.to_nat : simpl never.
Local Open Scope N_scope.

(* ======================================================================== *)
(* A. the table `script` *)
Definition tbl_wf (tbl : stable) : Prop := NoDup (map fst tbl).
Definition tbl_ext (tbl tbl' : stable) : Prop :=
  forall i x, script_of tbl i = Some x -> script_of tbl' i = Some x.

Lemma tbl_ext_refl : forall t, tbl_ext t t.
Proof. intros t i x H. exact H. Qed.
Lemma tbl_ext_trans : forall a b c, tbl_ext a b -> tbl_ext b c -> tbl_ext a c.
Proof. intros a b c H1 H2 i x H. apply H2, H1, H. Qed.

Lemma fold_max_ge : forall l a, a <= fold_left N.max l a.
Proof. induction l as [|x l IH]; intro a; cbn [fold_left]. lia. specialize (IH (N.max a x)). lia. Qed.
Lemma fold_max_in : forall l a x, In x l -> x <= fold_left N.max l a.
Proof.
  induction l as [|y l IH]; intros a x H; cbn [fold_left]. contradiction.
  destruct H as [->|H]. pose proof (fold_max_ge l (N.max a x)). lia. apply IH. exact H.
Qed.
Lemma next_id_fresh : forall tbl r, In r tbl -> fst r < next_id tbl.
Proof.
  intros tbl r H. unfold next_id. assert (fst r <= fold_left N.max (map fst tbl) 0).
  { apply fold_max_in. apply in_map. exact H. } lia.
Qed.

Lemma script_of_some : forall tbl i x, script_of tbl i = Some x -> In (i, x) tbl.
Proof.
  intros tbl i x H. unfold script_of in H. destruct (find _ tbl) as [[j y]|] eqn:F; [|discriminate].
  apply find_some in F. destruct F as [F1 F2]. cbn in F2. apply N.eqb_eq in F2. cbn in H. inversion H; subst. exact F1.
Qed.
Lemma script_of_in : forall tbl i x, tbl_wf tbl -> In (i, x) tbl -> script_of tbl i = Some x.
Proof.
  induction tbl as [|[j y] tbl IH]; intros i x W H. contradiction.
  unfold script_of. cbn [find fst]. inversion W; subst. destruct H as [H|H].
  - inversion H; subst. rewrite N.eqb_refl. reflexivity.
  - destruct (N.eqb j i) eqn:E.
    + apply N.eqb_eq in E. subst j. exfalso. apply H2. apply (in_map fst) in H. exact H.
    + apply IH; auto.
Qed.
Lemma script_of_none_app : forall tbl n s i,
  script_of (tbl ++ [(n, s)]) i =
  match script_of tbl i with Some x => Some x | None => if N.eqb n i then Some s else None end.
Proof.
  induction tbl as [|[j y] tbl IH]; intros n s i; unfold script_of in *; cbn [app find fst].
  - destruct (N.eqb n i); reflexivity.
  - destruct (N.eqb j i). reflexivity. apply IH.
Qed.
Lemma script_id_some : forall tbl s i, script_id tbl s = Some i -> In (i, s) tbl.
Proof.
  intros tbl s i H. unfold script_id in H. destruct (find _ tbl) as [[j y]|] eqn:F; [|discriminate].
  apply find_some in F. destruct F as [F1 F2]. cbn in F2. apply script_eqb_spec in F2. cbn in H. inversion H; subst. exact F1.
Qed.
Lemma script_id_none : forall tbl s, script_id tbl s = None -> forall i, ~ In (i, s) tbl.
Proof.
  intros tbl s H i HI. unfold script_id in H. destruct (find _ tbl) eqn:F; [discriminate|].
  eapply find_none in F; eauto. cbn in F. assert (script_eqb s s = true) by (apply script_eqb_spec; reflexivity). congruence.
Qed.
Lemma script_id_app : forall tbl r s i, script_id tbl s = Some i -> script_id (tbl ++ r) s = Some i.
Proof.
  induction tbl as [|[j y] tbl IH]; intros r s i H; unfold script_id in *; cbn [app find snd] in *. discriminate.
  destruct (script_eqb y s). exact H. apply IH. exact H.
Qed.

Lemma find_app_none : forall {T} (p : T -> bool) a b, find p a = None -> find p (a ++ b) = find p b.
Proof. induction a as [|x a IH]; intros b H; cbn [app find] in *. reflexivity. destruct (p x). discriminate. apply IH. exact H. Qed.

Definition id_ok (tbl : stable) (s : script) : Prop :=
  exists i, script_id tbl s = Some i /\ script_of tbl i = Some s.

Lemma insert_wf : forall tbl s, tbl_wf tbl -> tbl_wf (insert_script tbl s).
Proof.
  intros tbl s W. unfold insert_script. destruct (script_id tbl s); auto.
  unfold tbl_wf. rewrite map_app. cbn [map fst]. apply NoDup_app_intro; auto.
  - constructor; auto. constructor.
  - intros x H [<-|[]]. apply in_map_iff in H. destruct H as [r [E H]]. apply next_id_fresh in H. lia.
Qed.
Lemma insert_ext : forall tbl s, tbl_ext tbl (insert_script tbl s).
Proof.
  intros tbl s i x H. unfold insert_script. destruct (script_id tbl s); auto.
  rewrite script_of_none_app, H. reflexivity.
Qed.
Lemma insert_id_ok : forall tbl s, tbl_wf tbl -> id_ok (insert_script tbl s) s.
Proof.
  intros tbl s W. pose proof (insert_wf tbl s W) as W'. unfold insert_script in *. destruct (script_id tbl s) as [i|] eqn:E.
  - exists i. split; auto. apply script_of_in; auto. apply script_id_some. exact E.
  - assert (H : script_id (tbl ++ [(next_id tbl, s)]) s = Some (next_id tbl)).
    { unfold script_id. rewrite find_app_none.
      - cbn. assert (script_eqb s s = true) by (apply script_eqb_spec; reflexivity). rewrite H. reflexivity.
      - unfold script_id in E. destruct (find _ tbl); [discriminate|reflexivity]. }
    exists (next_id tbl). split; auto. apply script_of_in; auto. apply in_or_app. right. cbn. auto.
Qed.
Lemma id_ok_insert : forall tbl s s', tbl_wf tbl -> id_ok tbl s -> id_ok (insert_script tbl s') s.
Proof.
  intros tbl s s' W [i [H1 H2]]. exists i. split.
  - unfold insert_script. destruct (script_id tbl s'); auto. apply script_id_app. exact H1.
  - apply insert_ext. exact H2.
Qed.
Lemma fold_insert_wf : forall ss tbl, tbl_wf tbl -> tbl_wf (fold_left insert_script ss tbl).
Proof. induction ss; intros tbl W; cbn [fold_left]; auto. apply IHss. apply insert_wf. exact W. Qed.
Lemma fold_insert_ext : forall ss tbl, tbl_ext tbl (fold_left insert_script ss tbl).
Proof.
  induction ss; intro tbl; cbn [fold_left]. apply tbl_ext_refl.
  eapply tbl_ext_trans. apply insert_ext. apply IHss.
Qed.
Lemma fold_insert_keeps : forall ss tbl s, tbl_wf tbl -> id_ok tbl s -> id_ok (fold_left insert_script ss tbl) s.
Proof.
  induction ss; intros tbl s W H; cbn [fold_left]; auto. apply IHss. apply insert_wf; auto. apply id_ok_insert; auto.
Qed.
Lemma fold_insert_id_ok : forall ss tbl s, tbl_wf tbl -> In s ss -> id_ok (fold_left insert_script ss tbl) s.
Proof.
  induction ss as [|a ss IH]; intros tbl s W H; cbn [fold_left]. contradiction.
  destruct H as [->|H].
  - apply fold_insert_keeps. apply insert_wf; auto. apply insert_id_ok; auto.
  - apply IH; auto. apply insert_wf; auto.
Qed.

(* garbage collection keeps every row whose id is not collected *)
Lemma find_filter_same : forall {T} (p q : T -> bool) l,
  (forall x, In x l -> p x = true -> q x = true) -> find p (filter q l) = find p l.
Proof.
  induction l as [|x l IH]; intro H; cbn [filter find]. reflexivity.
  destruct (q x) eqn:Q; cbn [find].
  - destruct (p x); auto. apply IH. intros. apply H; cbn; auto.
  - destruct (p x) eqn:P. rewrite (H x) in Q; cbn; auto. discriminate. apply IH. intros. apply H; cbn; auto.
Qed.
Lemma script_of_gc : forall tbl dead i, mem_N i dead = false ->
  script_of (filter (fun r => negb (mem_N (fst r) dead)) tbl) i = script_of tbl i.
Proof.
  intros tbl dead i H. unfold script_of. rewrite find_filter_same; auto.
  intros x _ E. apply N.eqb_eq in E. rewrite E, H. reflexivity.
Qed.
Lemma gc_wf : forall tbl (f : N * script -> bool), tbl_wf tbl -> tbl_wf (filter f tbl).
Proof. intros. unfold tbl_wf. apply NoDup_map_filter. assumption. Qed.

(* ======================================================================== *)
(* B. rows of the rich indexer read through the table: [res tbl c a] — the row
   [c] (script ids) stands for the cell [a] (scripts) *)
Lemma res_ext : forall tbl tbl' c a, tbl_ext tbl tbl' -> res tbl c a -> res tbl' c a.
Proof.
  intros tbl tbl' c a E (H1 & H2 & H3 & H4 & H5 & H6 & [i [H7 H8]] & H9).
  repeat split; auto. exists i; auto. destruct (g_type a); auto. destruct H9 as [j [H9 H10]]. exists j; auto.
Qed.
Lemma Res_ext : forall tbl tbl' cs acs, tbl_ext tbl tbl' -> Res tbl cs acs -> Res tbl' cs acs.
Proof. intros tbl tbl' cs acs E H. induction H; constructor; auto. eapply res_ext; eauto. Qed.

Lemma res_set_spent : forall tbl c a s, res tbl c a -> res tbl (g_set_spent c s) (g_set_spent a s).
Proof. intros tbl c a s (H1 & H2 & H3 & H4 & H5 & H6 & H7 & H8). repeat split; auto. Qed.
Lemma res_matches : forall tbl c a op, res tbl c a -> g_matches op c = g_matches op a.
Proof. intros tbl c a op (H1 & _). unfold g_matches. rewrite H1. reflexivity. Qed.
Lemma res_mark : forall tbl c a info op, res tbl c a -> res tbl (g_mark info op c) (g_mark info op a).
Proof.
  intros tbl c a info op H. unfold g_mark. rewrite (res_matches tbl c a op H).
  destruct (g_matches op a); auto. apply res_set_spent. exact H.
Qed.
Lemma res_unspend : forall tbl c a bn, res tbl c a -> res tbl (g_unspend bn c) (g_unspend bn a).
Proof.
  intros tbl c a bn H. pose proof H as (H1 & H2 & H3 & H4 & H5 & H6 & H7 & H8). unfold g_unspend. rewrite H6.
  destruct (g_spent a) as [[[[t sbn] stxi] ii]|] eqn:Ea; [destruct (N.eqb sbn bn)|]; auto.
  apply res_set_spent. exact H.
Qed.
Lemma Res_map : forall tbl (f : rcell -> rcell) (g : acell -> acell) cs acs,
  (forall c a, res tbl c a -> res tbl (f c) (g a)) -> Res tbl cs acs -> Res tbl (map f cs) (map g acs).
Proof. intros tbl f g cs acs Hf H. induction H; cbn [map]; constructor; auto. Qed.
Lemma Res_filter : forall tbl (f : rcell -> bool) (g : acell -> bool) cs acs,
  (forall c a, res tbl c a -> f c = g a) -> Res tbl cs acs -> Res tbl (filter f cs) (filter g acs).
Proof.
  intros tbl f g cs acs Hf H. induction H; cbn [filter]. constructor.
  rewrite (Hf _ _ H). destruct (g y); auto. constructor; auto.
Qed.
Lemma Res_app : forall tbl a b c d, Res tbl a c -> Res tbl b d -> Res tbl (a ++ b) (c ++ d).
Proof. intros. apply Forall2_app; assumption. Qed.
Lemma Res_existsb : forall tbl (f : rcell -> bool) (g : acell -> bool) cs acs,
  (forall c a, res tbl c a -> f c = g a) -> Res tbl cs acs -> existsb f cs = existsb g acs.
Proof. intros tbl f g cs acs Hf H. induction H; cbn [existsb]; auto. rewrite (Hf _ _ H), IHForall2. reflexivity. Qed.
Lemma Res_rollback_cells : forall tbl bn cs acs, Res tbl cs acs -> Res tbl (g_rollback_cells bn cs) (g_rollback_cells bn acs).
Proof.
  intros. unfold g_rollback_cells. apply Res_filter.
  - intros c a (H1 & H2 & _). unfold g_created_in. rewrite H2. reflexivity.
  - apply Res_map; auto. intros. apply res_unspend. assumption.
Qed.

(* the input loop with its checks is the unchecked marking when every input
   names exactly one row and that row is not consumed *)
Definition valid_ins (ins : list outpoint) (acs : list acell) : Prop :=
  NoDup ins /\
  (forall op, In op ins -> exists a, In a acs /\ g_op a = op) /\
  (forall op a, In op ins -> In a acs -> g_op a = op -> g_spent a = None).

Lemma mark_ops : forall {A B} info op (cs : list (gcell A B)), map g_op (map (g_mark info op) cs) = map g_op cs.
Proof.
  intros. rewrite map_map. apply map_ext. intro c. unfold g_mark. destruct (g_matches op c); reflexivity.
Qed.
Lemma in_mark : forall {A B} info op (cs : list (gcell A B)) x,
  In x (map (g_mark info op) cs) -> exists c, In c cs /\ x = g_mark info op c.
Proof. intros. apply in_map_iff in H. destruct H as [c [E H]]. eauto. Qed.
Lemma valid_ins_step : forall info op ins acs,
  valid_ins (op :: ins) acs -> valid_ins ins (map (g_mark info op) acs).
Proof.
  intros info op ins acs (N1 & E & U). inversion N1; subst. split; [|split]; auto.
  - intros op' H. destruct (E op' (or_intror H)) as [a [Ha Ho]].
    exists (g_mark info op a). split. apply in_map; auto.
    unfold g_mark. destruct (g_matches op a); auto.
  - intros op' x H Hx Ho. apply in_mark in Hx. destruct Hx as [a [Ha ->]].
    unfold g_mark in *. destruct (g_matches op a) eqn:M.
    + cbn in Ho. unfold g_matches in M. apply op_eqb_spec in M. exfalso. apply H1. congruence.
    + apply (U op'); cbn; auto.
Qed.

Lemma r_spend_valid : forall tbl tid bn txi ins ii cs acs,
  Res tbl cs acs -> valid_ins ins acs ->
  exists cs', r_spend tid bn txi ii ins cs = Some cs' /\ Res tbl cs' (g_spend tid bn txi ii ins acs).
Proof.
  induction ins as [|op ins IH]; intros ii cs acs R V; cbn [r_spend g_spend]. eauto.
  pose proof V as (N1 & E & U).
  assert (Y1 : existsb (g_matches op) cs = existsb (g_matches op) acs).
  { apply (Res_existsb tbl); auto. intros; eapply res_matches; eauto. }
  rewrite Y1.
  assert (X1 : existsb (g_matches op) acs = true).
  { destruct (E op) as [a [Ha Ho]]; cbn; auto. apply existsb_exists. exists a. split; auto.
    unfold g_matches. apply op_eqb_spec. exact Ho. }
  rewrite X1.
  assert (Y2 : existsb (fun c => g_matches op c && is_some (g_spent c)) cs
               = existsb (fun a => g_matches op a && is_some (g_spent a)) acs).
  { apply (Res_existsb tbl); auto.
    intros c a H. rewrite (res_matches tbl c a op H). destruct H as (_ & _ & _ & _ & _ & H & _). rewrite H. reflexivity. }
  rewrite Y2.
  assert (X2 : existsb (fun a => g_matches op a && is_some (g_spent a)) acs = false).
  { apply not_true_is_false. intro H. apply existsb_exists in H. destruct H as [a [Ha H]].
    apply andb_true_iff in H. destruct H as [H1 H2]. unfold g_matches in H1. apply op_eqb_spec in H1.
    rewrite (U op a) in H2; cbn; auto. discriminate. }
  rewrite X2. apply IH.
  - apply Res_map; auto. intros. apply res_mark. assumption.
  - eapply valid_ins_step. exact V.
Qed.

(* ======================================================================== *)
(* C. the cell history of the chain *)
Lemma spend_app : forall a b op, spend (a ++ b) op = spend a op ++ spend b op.
Proof. intros. unfold spend. apply filter_app. Qed.
Lemma a_view_app : forall a b, a_view (a ++ b) = a_view a ++ a_view b.
Proof. intros. unfold a_view. apply flat_map_app. Qed.
Lemma a_view_cons : forall a cs, a_view (a :: cs) = (if is_some (g_spent a) then [] else [a_lcell a]) ++ a_view cs.
Proof. reflexivity. Qed.
Lemma a_view_mark : forall info op cs, a_view (map (g_mark info op) cs) = spend (a_view cs) op.
Proof.
  induction cs as [|a cs IH]. reflexivity.
  cbn [map]. rewrite !a_view_cons, spend_app, IH. f_equal. unfold g_mark. destruct (g_matches op a) eqn:M.
  - cbn [g_set_spent g_spent is_some]. destruct (is_some (g_spent a)). reflexivity.
    unfold spend. cbn [filter a_lcell lc_op]. unfold g_matches in M. rewrite M. reflexivity.
  - destruct (is_some (g_spent a)). reflexivity.
    unfold spend. cbn [filter a_lcell lc_op]. unfold g_matches in M. rewrite M. reflexivity.
Qed.
Lemma a_view_spend : forall tid bn txi ins ii cs,
  a_view (g_spend tid bn txi ii ins cs) = fold_left spend ins (a_view cs).
Proof.
  induction ins as [|op ins IH]; intros ii cs; cbn [g_spend fold_left]. reflexivity.
  rewrite IH, a_view_mark. reflexivity.
Qed.
Lemma a_view_new_gen : forall bn txi tid outs k,
  a_view (mapi (fun oi o => mkGc (tid, oi) bn txi (o_cap o) (o_data o) (o_lock o) (o_type o) None) k outs)
  = mapi (fun oi o => mkLc (tid, oi) bn txi o) k outs.
Proof.
  induction outs as [|o outs IH]; intro k; cbn [mapi]. reflexivity.
  rewrite a_view_cons. cbn [g_spent is_some app]. rewrite IH. f_equal. destruct o. reflexivity.
Qed.
Lemma a_view_new : forall bn txi t, a_view (a_new bn txi t) = new_cells bn txi t.
Proof. intros. apply a_view_new_gen. Qed.
Lemma a_view_tx : forall bn cs txi t, a_view (a_tx bn cs txi t) = live_tx bn (a_view cs) txi t.
Proof. intros. unfold a_tx, live_tx. rewrite a_view_app, a_view_spend, a_view_new. reflexivity. Qed.
Lemma a_view_txs : forall bn ts cs txi T,
  a_view (a_txs bn cs txi ts) = cs_live (replay_txs bn (mkCs (a_view cs) T) txi ts).
Proof.
  induction ts as [|t ts IH]; intros cs txi T; cbn [a_txs replay_txs]. reflexivity.
  rewrite replay_tx_eq. cbn [cs_live cs_txs]. rewrite <- a_view_tx. apply IH.
Qed.
(* the cells of the history that are not consumed are the live cells of the chain *)
Theorem a_view_all_cells : forall ch, a_view (all_cells ch) = live ch.
Proof.
  induction ch as [|b ch IH] using rev_ind. reflexivity.
  unfold all_cells. rewrite fold_left_app. cbn [fold_left]. fold (all_cells ch). unfold a_block.
  rewrite (a_view_txs _ _ _ _ (txs ch)), IH. unfold live at 2. rewrite replay_snoc, replay_eta. reflexivity.
Qed.

Definition AW (ids : list N) (cs : list acell) : Prop :=
  NoDup (map g_op cs) /\ forall a, In a cs -> In (fst (g_op a)) ids.

Lemma spend_ops : forall tid bn txi ins ii (cs : list acell), map g_op (g_spend tid bn txi ii ins cs) = map g_op cs.
Proof.
  induction ins as [|op ins IH]; intros ii cs; cbn [g_spend]. reflexivity. rewrite IH. apply mark_ops.
Qed.
Lemma a_new_ops : forall bn txi t, map g_op (a_new bn txi t) = mapi (fun oi _ => (t_id t, oi)) 0 (t_outputs t).
Proof.
  intros. unfold a_new. generalize 0. induction (t_outputs t) as [|o l IH]; intro k; cbn [mapi map]; auto.
  rewrite IH. reflexivity.
Qed.
Lemma NoDup_map_eq : forall {T U} (f : T -> U) l x y, NoDup (map f l) -> In x l -> In y l -> f x = f y -> x = y.
Proof.
  induction l as [|a l IH]; intros x y N Hx Hy E. contradiction. cbn [map] in N. inversion N; subst.
  destruct Hx as [->|Hx], Hy as [->|Hy]; auto.
  - exfalso. apply H1. rewrite E. apply in_map. exact Hy.
  - exfalso. apply H1. rewrite <- E. apply in_map. exact Hx.
Qed.

Lemma AW_tx : forall ids bn cs txi t, AW ids cs -> ~ In (t_id t) ids -> AW (ids ++ [t_id t]) (a_tx bn cs txi t).
Proof.
  intros ids bn cs txi t [N I] F. unfold a_tx. split.
  - rewrite map_app, spend_ops, a_new_ops. apply NoDup_app_intro; auto.
    + rewrite <- (new_cells_ops 0 0). apply new_cells_nodup.
    + intros op H1 H2. apply in_map_iff in H1. destruct H1 as [a [<- H1]]. apply in_mapi in H2.
      destruct H2 as [j [x [_ E]]]. apply F. replace (t_id t) with (fst (g_op a)) by (rewrite E; reflexivity).
      apply I. exact H1.
  - intros a H. apply in_app_or in H. apply in_or_app. destruct H as [H|H].
    + left. assert (In (g_op a) (map g_op cs)). { rewrite <- (spend_ops (t_id t) bn txi (ins_of txi t) 0 cs). apply in_map. exact H. }
      apply in_map_iff in H0. destruct H0 as [a' [E H0]]. rewrite <- E. apply I. exact H0.
    + right. assert (In (g_op a) (map g_op (a_new bn txi t))) by (apply in_map; exact H).
      rewrite a_new_ops in H0. apply in_mapi in H0. destruct H0 as [j [x [_ E]]]. rewrite E. cbn. auto.
Qed.

Lemma valid_ins_of_view : forall ins cs,
  NoDup (map g_op cs) -> NoDup ins ->
  (forall op, In op ins -> exists c, lookup_cell (a_view cs) op = Some c) -> valid_ins ins cs.
Proof.
  intros ins cs N NI L.
  assert (W : forall op, In op ins -> exists a, In a cs /\ g_op a = op /\ g_spent a = None).
  { intros op H. destruct (L op H) as [c Hc]. apply lookup_some in Hc. destruct Hc as [Hc Ho].
    unfold a_view in Hc. apply in_flat_map in Hc. destruct Hc as [a [Ha Hc]].
    destruct (g_spent a) eqn:S; cbn [is_some] in Hc. contradiction. destruct Hc as [<-|[]].
    exists a. repeat split; auto. }
  split; [|split]; auto.
  - intros op H. destruct (W op H) as [a [Ha [Ho _]]]. eauto.
  - intros op a H Ha Ho. destruct (W op H) as [a' [Ha' [Ho' S]]].
    assert (a = a'). { eapply NoDup_map_eq; eauto. congruence. } subst. exact S.
Qed.

Fixpoint txs_valid (bn : N) (cs : list acell) (txi : N) (ts : list tx) : Prop :=
  match ts with
  | [] => True
  | t :: r => valid_ins (ins_of txi t) cs /\ txs_valid bn (a_tx bn cs txi t) (N.succ txi) r
  end.

Lemma txs_valid_of_ok : forall bn ts ids cs txi,
  AW ids cs -> txs_ok (a_view cs) bn txi ts = true -> NoDup (map t_id ts) ->
  (forall t, In t ts -> ~ In (t_id t) ids) ->
  txs_valid bn cs txi ts /\ AW (ids ++ map t_id ts) (a_txs bn cs txi ts).
Proof.
  induction ts as [|t ts IH]; intros ids cs txi W OK ND FR; cbn [txs_valid a_txs map].
  - rewrite app_nil_r. auto.
  - cbn [txs_ok] in OK. fold (ins_of txi t) in OK.
    apply andb_true_iff in OK. destruct OK as [OK O3]. apply andb_true_iff in OK. destruct OK as [O1 O2].
    inversion ND; subst.
    assert (V : valid_ins (ins_of txi t) cs).
    { apply valid_ins_of_view. apply W. apply nodup_op_spec. exact O2.
      intros op H. rewrite forallb_forall in O1. apply O1 in H. destruct (lookup_cell (a_view cs) op); eauto. discriminate. }
    assert (W' : AW (ids ++ [t_id t]) (a_tx bn cs txi t)). { apply AW_tx; auto. apply FR. cbn; auto. }
    destruct (IH (ids ++ [t_id t]) (a_tx bn cs txi t) (N.succ txi) W') as [V' W'']; auto.
    + rewrite a_view_tx. exact O3.
    + intros t' H HI. apply in_app_or in HI. destruct HI as [HI|[HI|[]]].
      * apply (FR t'); cbn; auto.
      * apply H1. rewrite HI. apply in_map. exact H.
    + split; auto. rewrite <- app_assoc in W''. exact W''.
Qed.

(* ======================================================================== *)
(* D. rolling back a block undoes what appending it did to the cell history *)
Definition marked_from (bn : N) (a a' : acell) : Prop :=
  a' = a \/ (g_spent a = None /\ exists t i ii, a' = g_set_spent a (Some (t, bn, i, ii))).
Definition is_new (bn : N) (a : acell) : Prop :=
  g_bn a = bn /\ forall t sbn stxi ii, g_spent a = Some (t, sbn, stxi, ii) -> sbn = bn.
Definition Ext (bn : N) (cs cs' : list acell) : Prop :=
  exists old new, cs' = old ++ new /\ Forall2 (marked_from bn) cs old /\ Forall (is_new bn) new.

Lemma Ext_refl : forall bn cs, Ext bn cs cs.
Proof.
  intros. exists cs, []. rewrite app_nil_r. repeat split; auto.
  induction cs; constructor; auto. left. reflexivity.
Qed.
Lemma Forall2_map_r_in : forall {T U} (R : T -> U -> Prop) (f : U -> U) l l',
  Forall2 R l l' -> (forall x y, R x y -> In y l' -> R x (f y)) -> Forall2 R l (map f l').
Proof.
  intros T U R f l l' H. induction H; intro Hf; cbn [map]; constructor.
  - apply Hf; cbn; auto.
  - apply IHForall2. intros. apply Hf; cbn; auto.
Qed.
Lemma Ext_mark : forall bn cs cs' t i ii op,
  Ext bn cs cs' -> (forall x, In x cs' -> g_matches op x = true -> g_spent x = None) ->
  Ext bn cs (map (g_mark (t, bn, i, ii) op) cs').
Proof.
  intros bn cs cs' t i ii op (old & new & -> & F2 & FN) U. exists (map (g_mark (t, bn, i, ii) op) old), (map (g_mark (t, bn, i, ii) op) new).
  rewrite map_app. split; [reflexivity|split].
  - apply Forall2_map_r_in; auto. intros a a' M HI. unfold g_mark. destruct (g_matches op a') eqn:E; auto.
    assert (S : g_spent a' = None) by (apply U; auto; apply in_or_app; auto).
    destruct M as [->|[S0 (t0 & i0 & ii0 & ->)]].
    + right. split; auto. eauto.
    + discriminate.
  - rewrite Forall_forall in *. intros x H. apply in_map_iff in H. destruct H as [y [<- H]].
    destruct (FN y H) as [N1 N2]. unfold g_mark. destruct (g_matches op y); [|split; auto].
    split; cbn; auto. intros. inversion H0; subst. reflexivity.
Qed.
Lemma Ext_spend : forall bn tid txi ins ii cs cs',
  Ext bn cs cs' -> valid_ins ins cs' -> Ext bn cs (g_spend tid bn txi ii ins cs').
Proof.
  induction ins as [|op ins IH]; intros ii cs cs' E V; cbn [g_spend]. exact E.
  apply IH.
  - apply Ext_mark; auto. intros x Hx M. destruct V as (_ & _ & U). apply (U op x); cbn; auto.
    unfold g_matches in M. apply op_eqb_spec in M. exact M.
  - eapply valid_ins_step. exact V.
Qed.
Lemma Ext_new : forall bn cs cs' new, Ext bn cs cs' -> Forall (is_new bn) new -> Ext bn cs (cs' ++ new).
Proof.
  intros bn cs cs' new (old & nw & -> & F2 & FN) H. exists old, (nw ++ new). rewrite app_assoc. repeat split; auto.
  apply Forall_app. auto.
Qed.
Lemma a_new_is_new : forall bn txi t, Forall (is_new bn) (a_new bn txi t).
Proof.
  intros. unfold a_new. generalize 0. induction (t_outputs t); intro k; cbn [mapi]; constructor; auto.
  split; cbn; auto. discriminate.
Qed.
Lemma Ext_txs : forall bn ts cs cs' txi, Ext bn cs cs' -> txs_valid bn cs' txi ts -> Ext bn cs (a_txs bn cs' txi ts).
Proof.
  induction ts as [|t ts IH]; intros cs cs' txi E V; cbn [a_txs]. exact E.
  destruct V as [V1 V2]. apply IH; auto. unfold a_tx. apply Ext_new. apply Ext_spend; auto. apply a_new_is_new.
Qed.

Definition AB (n : N) (cs : list acell) : Prop :=
  forall a, In a cs -> g_bn a < n /\ forall t sbn stxi ii, g_spent a = Some (t, sbn, stxi, ii) -> sbn < n.

Lemma set_spent_none : forall (a : acell), g_spent a = None -> g_set_spent a None = a.
Proof. intros [] H. cbn in *. subst. reflexivity. Qed.

Lemma rollback_new_nil : forall {A B} bn (new : list (gcell A B)),
  Forall (fun a => g_bn a = bn) new -> filter (fun c => negb (g_created_in bn c)) (map (g_unspend bn) new) = [].
Proof.
  intros A B bn new FN. induction new as [|a new IH]; cbn [map filter]. reflexivity. inversion FN; subst.
  assert (g_created_in (g_bn a) (g_unspend (g_bn a) a) = true).
  { unfold g_created_in, g_unspend. destruct (g_spent a) as [[[[t sbn] stxi] ii]|]; [destruct (N.eqb sbn (g_bn a))|]; cbn; apply N.eqb_refl. }
  rewrite H. cbn [negb]. apply IH. auto.
Qed.

Lemma Ext_rollback : forall bn cs cs', Ext bn cs cs' -> AB bn cs -> g_rollback_cells bn cs' = cs.
Proof.
  intros bn cs cs' (old & new & -> & F2 & FN) B. unfold g_rollback_cells. rewrite map_app, filter_app.
  assert (N0 := @rollback_new_nil script (option script) bn new).
  unfold acell in *. rewrite N0, app_nil_r.
  2:{ rewrite Forall_forall in *. intros x H. apply FN. exact H. }
  clear FN N0.
  induction F2 as [|a a' cs old M F2 IH]; cbn [map filter]. reflexivity.
  assert (Ba : g_bn a < bn /\ forall t sbn stxi ii, g_spent a = Some (t, sbn, stxi, ii) -> sbn < bn) by (apply B; cbn; auto).
  assert (U : g_unspend bn a' = a).
  { destruct Ba as [_ Ba]. destruct M as [->|[S (t & i & ii & ->)]].
    - unfold g_unspend. destruct (g_spent a) as [[[[t sbn] stxi] ii]|] eqn:S; auto.
      specialize (Ba _ _ _ _ eq_refl). destruct (N.eqb sbn bn) eqn:E; auto. apply N.eqb_eq in E. lia.
    - unfold g_unspend. cbn [g_set_spent g_spent]. rewrite N.eqb_refl.
      change (g_set_spent a None = a). apply set_spent_none. exact S. }
  rewrite U. assert (g_created_in bn a = false). { unfold g_created_in. apply N.eqb_neq. lia. }
  rewrite H. cbn [negb]. f_equal. apply IH. intros x Hx. apply B. cbn; auto.
Qed.

Lemma AB_Ext : forall bn cs cs', AB bn cs -> Ext bn cs cs' -> AB (N.succ bn) cs'.
Proof.
  intros bn cs cs' B (old & new & -> & F2 & FN) a H. apply in_app_or in H. destruct H as [H|H].
  - clear FN. induction F2 as [|x x' cs old M F2 IH]. contradiction. destruct H as [->|H].
    + assert (Bx := B x (or_introl eq_refl)). destruct Bx as [B1 B2]. destruct M as [->|[S (t & i & ii & ->)]].
      * split. lia. intros. specialize (B2 _ _ _ _ H). lia.
      * cbn. split. lia. intros. inversion H; subst. lia.
    + apply IH; auto. intros y Hy. apply B. cbn; auto.
  - rewrite Forall_forall in FN. destruct (FN a H) as [N1 N2]. split. lia.
    intros. specialize (N2 _ _ _ _ H0). lia.
Qed.

(* ======================================================================== *)
(* E. one append / one rollback of the rich indexer, read through the table *)
Lemma Res_new_gen : forall tbl bn txi tid outs k,
  (forall o, In o outs -> id_ok tbl (o_lock o) /\ forall s, o_type o = Some s -> id_ok tbl s) ->
  Res tbl
    (mapi (fun oi o => mkGc (tid, oi) bn txi (o_cap o) (o_data o) (script_id tbl (o_lock o))
                            (match o_type o with Some s => script_id tbl s | None => None end) None) k outs)
    (mapi (fun oi o => mkGc (tid, oi) bn txi (o_cap o) (o_data o) (o_lock o) (o_type o) None) k outs).
Proof.
  induction outs as [|o outs IH]; intros k H; cbn [mapi]; constructor.
  - destruct (H o (or_introl eq_refl)) as [[i [L1 L2]] T]. repeat split; cbn; auto.
    + exists i. auto.
    + destruct (o_type o) as [s|]; auto. destruct (T s eq_refl) as [j [T1 T2]]. exists j. auto.
  - apply IH. intros. apply H. cbn; auto.
Qed.
Lemma Res_new : forall tbl bn txi t,
  (forall s, In s (tx_scripts t) -> id_ok tbl s) -> Res tbl (r_new tbl bn txi t) (a_new bn txi t).
Proof.
  intros tbl bn txi t H. apply Res_new_gen. intros o Ho. split.
  - apply H. unfold tx_scripts. apply in_flat_map. exists o. split; cbn; auto.
  - intros s E. apply H. unfold tx_scripts. apply in_flat_map. exists o. split; auto. rewrite E. cbn. auto.
Qed.

Lemma r_tx_sim : forall tbl bn rcs cs txi t,
  tbl_wf tbl -> Res tbl rcs cs -> valid_ins (ins_of txi t) cs ->
  exists rcs' tbl', r_tx bn (rcs, tbl) txi t = Some (rcs', tbl') /\ tbl_wf tbl' /\ Res tbl' rcs' (a_tx bn cs txi t).
Proof.
  intros tbl bn rcs cs txi t W R V. unfold r_tx. cbn [fst snd].
  destruct (r_spend_valid tbl (t_id t) bn txi (ins_of txi t) 0 rcs cs R V) as [rcs1 [E R1]]. rewrite E.
  do 2 eexists. split; [reflexivity|]. split. apply fold_insert_wf; auto.
  unfold a_tx. apply Res_app.
  - eapply Res_ext; eauto. apply fold_insert_ext.
  - apply Res_new. intros s H. apply fold_insert_id_ok; auto.
Qed.
Lemma r_txs_sim : forall bn ts tbl rcs cs txi,
  tbl_wf tbl -> Res tbl rcs cs -> txs_valid bn cs txi ts ->
  exists rcs' tbl', r_txs bn (rcs, tbl) txi ts = Some (rcs', tbl') /\ tbl_wf tbl' /\ Res tbl' rcs' (a_txs bn cs txi ts).
Proof.
  induction ts as [|t ts IH]; intros tbl rcs cs txi W R V; cbn [r_txs a_txs]. eauto.
  destruct V as [V1 V2]. destruct (r_tx_sim tbl bn rcs cs txi t W R V1) as (rcs1 & tbl1 & E & W1 & R1).
  rewrite E. apply IH; auto.
Qed.

Lemma Forall2_impl_in : forall {T U} (R R' : T -> U -> Prop) l l',
  Forall2 R l l' -> (forall x y, In x l -> R x y -> R' x y) -> Forall2 R' l l'.
Proof.
  intros T U R R' l l' H. induction H; intro Hf; constructor.
  - apply Hf; cbn; auto.
  - apply IHForall2. intros. apply Hf; cbn; auto.
Qed.
Lemma mem_N_filter_false : forall (f : N -> bool) i l, f i = false -> mem_N i (filter f l) = false.
Proof.
  intros f i l H. apply not_true_is_false. intro M. apply mem_N_spec in M. apply filter_In in M. destruct M. congruence.
Qed.
(* script_exists_in_output looks at lock AND type references: no id that a
   remaining row carries is collected *)
Lemma rollback_sim : forall tbl rcs cs bn cand,
  Res tbl rcs cs ->
  let cs2 := g_rollback_cells bn rcs in
  let dead := filter (fun i => negb (referenced GcLockOrType cs2 i)) cand in
  Res (filter (fun r => negb (mem_N (fst r) dead)) tbl) cs2 (g_rollback_cells bn cs).
Proof.
  intros tbl rcs cs bn cand R cs2 dead.
  assert (R2 : Res tbl cs2 (g_rollback_cells bn cs)) by (apply Res_rollback_cells; exact R).
  eapply Forall2_impl_in. exact R2.
  intros c a Hc (H1 & H2 & H3 & H4 & H5 & H6 & [i [H7 H8]] & H9). repeat split; auto.
  - exists i. split; auto. rewrite script_of_gc; auto. apply mem_N_filter_false.
    apply negb_false_iff. unfold referenced. apply orb_true_iff. left. apply existsb_exists. exists c. split; auto.
    rewrite H7. cbn. apply N.eqb_refl.
  - destruct (g_type a) as [s|]; auto. destruct H9 as [j [H9 H10]]. exists j. split; auto.
    rewrite script_of_gc; auto. apply mem_N_filter_false.
    apply negb_false_iff. unfold referenced. apply orb_true_iff. right. apply existsb_exists. exists c. split; auto.
    rewrite H9. cbn. apply N.eqb_refl.
Qed.

(* ======================================================================== *)
(* F. every reachable state *)
Definition block_rows (ch : list block) : list (N * N) := map (fun b => (b_num b, b_id b)) ch.
Definition RInv (s : rstate) : Prop :=
  chain_ok (rs_chain s) /\
  d_blocks (rs_db s) = block_rows (rs_chain s) /\
  tbl_wf (d_scripts (rs_db s)) /\
  Res (d_scripts (rs_db s)) (d_cells (rs_db s)) (all_cells (rs_chain s)).

Lemma all_cells_snoc : forall ch b, all_cells (ch ++ [b]) = a_block (all_cells ch) b.
Proof. intros. unfold all_cells. rewrite fold_left_app. reflexivity. Qed.

Record ACF (ch : list block) : Prop := {
  acf_w : AW (chain_tx_ids ch) (all_cells ch);
  acf_b : AB (N.of_nat (length ch)) (all_cells ch) }.

Lemma block_facts : forall ch b, ACF ch -> block_ok ch b = true ->
  txs_valid (b_num b) (all_cells ch) 0 (b_txs b) /\ ACF (ch ++ [b]) /\
  Ext (b_num b) (all_cells ch) (all_cells (ch ++ [b])).
Proof.
  intros ch b [W B] OK. apply block_ok_parts in OK. destruct OK as (Hn & _ & (O1 & O2 & O3)).
  destruct (txs_valid_of_ok (b_num b) (b_txs b) (chain_tx_ids ch) (all_cells ch) 0 W) as [V W']; auto.
  { rewrite a_view_all_cells. exact O1. }
  assert (E : Ext (b_num b) (all_cells ch) (all_cells (ch ++ [b]))).
  { rewrite all_cells_snoc. unfold a_block. apply Ext_txs; auto. apply Ext_refl. }
  split; auto. split; auto. constructor.
  - rewrite chain_tx_ids_snoc, all_cells_snoc. exact W'.
  - rewrite app_length. cbn [length]. replace (N.of_nat (length ch + 1)) with (N.succ (b_num b)) by lia.
    eapply AB_Ext; eauto. rewrite Hn. exact B.
Qed.
Lemma acf_nil : ACF [].
Proof. constructor. split. constructor. intros a []. intros a []. Qed.
Lemma chain_acf : forall ch, chain_ok ch -> ACF ch.
Proof. induction 1. apply acf_nil. apply block_facts; auto. Qed.

Lemma rinv_empty : RInv rs_empty.
Proof. split; [constructor|split; [reflexivity|split; constructor]]. Qed.

Lemma rinv_append : forall s b, RInv s -> block_ok (rs_chain s) b = true ->
  exists db, rappend (rs_db s) b = Some db /\ RInv (mkRs db (rs_chain s ++ [b])).
Proof.
  intros [db ch] b (C & BL & W & R) OK. cbn [rs_db rs_chain] in *.
  destruct (block_facts ch b (chain_acf ch C) OK) as (V & _ & _).
  destruct (r_txs_sim (b_num b) (b_txs b) (d_scripts db) (d_cells db) (all_cells ch) 0 W R V) as (rcs & tbl & E & W' & R').
  unfold rappend. rewrite E. eexists. split; [reflexivity|].
  split; [|split; [|split]]; cbn [rs_db rs_chain d_blocks d_scripts d_cells]; auto.
  - constructor; auto.
  - rewrite BL. unfold block_rows. rewrite map_app. reflexivity.
  - rewrite all_cells_snoc. exact R'.
Qed.

Lemma rinv_rollback : forall s, RInv s -> RInv (mkRs (rrollback (rs_db s)) (removelast (rs_chain s))).
Proof.
  intros [db ch] (C & BL & W & R). cbn [rs_db rs_chain] in *. unfold rrollback, rrollback_gen.
  destruct ch as [|b0 ch0] using rev_ind.
  - rewrite BL. cbn. split; [constructor|split; [exact BL|split; auto]].
  - clear IHch0. rewrite removelast_last. apply chain_ok_snoc_inv in C. destruct C as [C OK].
    rewrite BL. unfold block_rows. rewrite map_app, rev_app_distr. cbn [map rev app].
    rewrite rev_involutive.
    destruct (block_facts ch0 b0 (chain_acf ch0 C) OK) as (_ & _ & E).
    apply block_ok_parts in OK. destruct OK as (Hn & _).
    assert (RB : g_rollback_cells (b_num b0) (all_cells (ch0 ++ [b0])) = all_cells ch0).
    { apply Ext_rollback; auto. rewrite Hn. apply (acf_b _ (chain_acf ch0 C)). }
    split; [|split; [|split]]; cbn [rs_db rs_chain d_blocks d_scripts d_cells]; auto.
    + apply gc_wf. exact W.
    + rewrite <- RB. apply rollback_sim. exact R.
Qed.

Lemma rinv_step : forall s o s', RInv s -> rop_ok s o = true -> rstep s o = Some s' -> RInv s'.
Proof.
  intros s o s' I OK E. destruct o as [b|]; cbn in OK, E.
  - destruct (rinv_append s b I OK) as [db [E1 I1]]. rewrite E1 in E. inversion E; subst. exact I1.
  - inversion E; subst. apply rinv_rollback. exact I.
Qed.
Lemma rinv_run : forall ops s s', RInv s -> rops_ok_gen GcLockOrType s ops = true -> rrun_gen GcLockOrType s ops = Some s' -> RInv s'.
Proof.
  induction ops as [|o ops IH]; intros s s' I OK E; cbn in OK, E.
  - inversion E; subst. exact I.
  - apply andb_true_iff in OK. destruct OK as [O1 O2].
    destruct (rstep_gen GcLockOrType s o) as [s1|] eqn:S; [|discriminate].
    apply (IH s1 s'); auto. apply (rinv_step s o s1); auto.
Qed.
Theorem rinv_reachable : forall ops s, rops_ok rs_empty ops = true -> rrun rs_empty ops = Some s -> RInv s.
Proof. intros. eapply rinv_run; eauto. apply rinv_empty. Qed.

(* ======================================================================== *)
(* G. the answers *)
Lemma join_cell_res : forall tbl lockq sel c a, res tbl c a ->
  join_cell tbl lockq sel c = if a_selected lockq sel a then [a_jcell a] else [].
Proof.
  intros tbl lockq sel c a (H1 & H2 & H3 & H4 & H5 & H6 & [i [H7 H8]] & H9).
  unfold join_cell, a_selected, a_script, a_jcell. destruct lockq.
  - rewrite H7, H8. destruct (sel (g_lock a)); auto. rewrite H1, H2, H3, H4, H5, H6. do 2 f_equal.
    destruct (g_type a) as [s|]. destruct H9 as [j [-> H9]]. exact H9. rewrite H9. reflexivity.
  - destruct (g_type a) as [s|].
    + destruct H9 as [j [-> H9]]. rewrite H9. destruct (sel s); auto. rewrite H1, H2, H3, H4, H5, H6, H7, H8. reflexivity.
    + rewrite H9. reflexivity.
Qed.
Lemma joined_res : forall tbl lockq sel cs acs, Res tbl cs acs ->
  flat_map (join_cell tbl lockq sel) cs = map a_jcell (filter (a_selected lockq sel) acs).
Proof.
  intros tbl lockq sel cs acs H. induction H; cbn [flat_map filter map]. reflexivity.
  rewrite (join_cell_res tbl lockq sel x y H), IHForall2. destruct (a_selected lockq sel y); reflexivity.
Qed.
Theorem joined_eq : forall s q, RInv s -> joined (rs_db s) q = spec_joined (all_cells (rs_chain s)) q.
Proof.
  intros s q (_ & _ & _ & R). unfold joined, spec_joined. rewrite (joined_res _ _ _ _ _ R). reflexivity.
Qed.
Lemma block_rows_tip : forall ch, match rev (block_rows ch) with [] => None | x :: _ => Some x end = chain_tip ch.
Proof.
  intro ch. unfold block_rows, chain_tip. rewrite <- map_rev. destruct (rev ch); reflexivity.
Qed.
Theorem rtip_eq : forall s, RInv s -> rtip (rs_db s) = chain_tip (rs_chain s).
Proof. intros s (_ & BL & _). unfold rtip. rewrite BL. apply block_rows_tip. Qed.

Theorem rinv_eq_filter : forall s, RInv s -> forall q, rich_run (rs_db s) q = spec_run (rs_chain s) q.
Proof.
  intros s I q. destruct q; cbn [rich_run spec_run];
    unfold rich_get_cells, rich_get_capacity, rich_get_txs, spec_get_cells, spec_get_capacity, spec_get_txs;
    rewrite ?(joined_eq s _ I), ?(rtip_eq s I); reflexivity.
Qed.

Theorem rich_eq_filter_all : forall ops s,
  rops_ok rs_empty ops = true -> rrun rs_empty ops = Some s ->
  forall q, rich_run (rs_db s) q = spec_run (rs_chain s) q.
Proof. intros ops s H1 H2. apply rinv_eq_filter. eapply rinv_reachable; eauto. Qed.

Theorem rich_rollback_inverts_append_all : forall ops s b s1 s2,
  rops_ok rs_empty ops = true -> rrun rs_empty ops = Some s ->
  block_ok (rs_chain s) b = true ->
  rstep s (OAppend b) = Some s1 -> rstep s1 ORollback = Some s2 ->
  rs_chain s2 = rs_chain s /\ forall q, rich_run (rs_db s2) q = rich_run (rs_db s) q.
Proof.
  intros ops s b s1 s2 H1 H2 OK E1 E2. pose proof (rinv_reachable ops s H1 H2) as I.
  assert (I1 : RInv s1) by (apply (rinv_step s (OAppend b) s1); auto).
  assert (I2 : RInv s2) by (apply (rinv_step s1 ORollback s2); auto).
  assert (C : rs_chain s2 = rs_chain s).
  { cbn in E1, E2. destruct (rappend (rs_db s) b); [|discriminate]. inversion E1; subst. inversion E2; subst.
    cbn. apply removelast_last. }
  split; auto. intro q. rewrite (rinv_eq_filter s2 I2), (rinv_eq_filter s I), C. reflexivity.
Qed.

(* a valid append is never refused (no missing output row, no second input row) *)
Theorem rich_valid_append_succeeds : forall ops s b,
  rops_ok rs_empty ops = true -> rrun rs_empty ops = Some s ->
  block_ok (rs_chain s) b = true -> exists s1, rstep s (OAppend b) = Some s1.
Proof.
  intros ops s b H1 H2 OK. destruct (rinv_append s b (rinv_reachable ops s H1 H2) OK) as [db [E _]].
  cbn. rewrite E. eauto.
Qed.

(* the live part of the answers is the direct filter over the live-cell set of the main chain *)
Lemma q_live_view : forall cs q, q_live (spec_joined cs q) q = q_live (live_joined (a_view cs) q) q.
Proof.
  intros cs q. unfold q_live, spec_joined, live_joined.
  induction cs as [|a cs IH]. reflexivity.
  rewrite a_view_cons. cbn [filter]. destruct (g_spent a) as [si|] eqn:S; cbn [is_some app].
  - destruct (a_selected (rq_lock q) (sel_of (rq_mode q) (rq_script q)) a); auto.
    cbn [map filter]. destruct (jcell_pass (rq_lock q) (rq_f q) (a_jcell a)); auto.
    cbn [filter]. unfold a_jcell at 1. cbn [j_spent]. rewrite S. cbn [is_some negb andb]. exact IH.
  - cbn [filter].
    assert (E1 : l_selected (rq_lock q) (sel_of (rq_mode q) (rq_script q)) (a_lcell a)
                 = a_selected (rq_lock q) (sel_of (rq_mode q) (rq_script q)) a).
    { unfold l_selected, a_selected, lcell_script, a_script. destruct (rq_lock q); reflexivity. }
    assert (E2 : l_jcell (a_lcell a) = a_jcell a).
    { unfold l_jcell, a_jcell, a_lcell, a_out. cbn. rewrite S. reflexivity. }
    rewrite E1. destruct (a_selected (rq_lock q) (sel_of (rq_mode q) (rq_script q)) a); auto.
    cbn [map filter]. rewrite E2. destruct (jcell_pass (rq_lock q) (rq_f q) (a_jcell a)); auto.
    cbn [filter]. rewrite IH. reflexivity.
Qed.
Theorem spec_cells_live : forall ch q,
  spec_get_cells ch q = q_cells (live_joined (live ch) q) q /\
  spec_get_capacity ch q = q_capacity (live_joined (live ch) q) (chain_tip ch) q.
Proof.
  intros ch q. unfold spec_get_cells, spec_get_capacity, q_cells, q_capacity.
  rewrite q_live_view, a_view_all_cells. auto.
Qed.
Theorem rich_cells_eq_live_filter : forall ops s,
  rops_ok rs_empty ops = true -> rrun rs_empty ops = Some s ->
  rtip (rs_db s) = chain_tip (rs_chain s) /\
  forall q, rich_get_cells (rs_db s) q = q_cells (live_joined (live (rs_chain s)) q) q /\
            rich_get_capacity (rs_db s) q = q_capacity (live_joined (live (rs_chain s)) q) (chain_tip (rs_chain s)) q.
Proof.
  intros ops s H1 H2. pose proof (rinv_reachable ops s H1 H2) as I. split. apply rtip_eq; auto.
  intro q. pose proof (rinv_eq_filter s I (RQCells q)) as E1. pose proof (rinv_eq_filter s I (RQCap q)) as E2.
  cbn in E1, E2. inversion E1. inversion E2. rewrite H0, H3. apply spec_cells_live.
Qed.

(* ======================================================================== *)
(* H. the rows of the cell history are the transaction history of the chain *)
Definition op_in_rows (tid bn txi ii : N) (c : lcell) : list (bool * trow) :=
  (true, mkTrow (o_lock (lc_out c)) bn txi ii false tid)
  :: match o_type (lc_out c) with
     | Some s => [(false, mkTrow s bn txi ii false tid)]
     | None => [] end.
Definition in_rows_from (L : list lcell) (tid bn txi : N) (ii : N) (ins : list outpoint) : list (bool * trow) :=
  concat (mapi (fun ii op => match lookup_cell L op with Some c => op_in_rows tid bn txi ii c | None => [] end) ii ins).
Lemma in_trows_eq : forall L bn txi t, in_trows L bn txi t = in_rows_from L (t_id t) bn txi 0 (t_inputs t).
Proof. reflexivity. Qed.

Lemma a_rows_app : forall a b, a_rows (a ++ b) = a_rows a ++ a_rows b.
Proof. intros. unfold a_rows. apply flat_map_app. Qed.
Lemma a_rows_cons : forall a l, a_rows (a :: l) = (a_out_rows a ++ a_in_rows a) ++ a_rows l.
Proof. reflexivity. Qed.
Lemma a_rows_new_gen : forall bn txi tid outs k,
  a_rows (mapi (fun oi o => mkGc (tid, oi) bn txi (o_cap o) (o_data o) (o_lock o) (o_type o) None) k outs)
  = concat (mapi (fun oi o => (true, mkTrow (o_lock o) bn txi oi true tid)
                              :: match o_type o with
                                 | Some s => [(false, mkTrow s bn txi oi true tid)]
                                 | None => [] end) k outs).
Proof.
  induction outs as [|o outs IH]; intro k; cbn [mapi concat]. reflexivity.
  unfold a_rows in *. cbn [flat_map]. rewrite IH. f_equal.
  unfold a_out_rows, a_in_rows. cbn. rewrite app_nil_r. reflexivity.
Qed.
Lemma a_rows_new : forall bn txi t, a_rows (a_new bn txi t) = out_trows bn txi t.
Proof. intros. apply a_rows_new_gen. Qed.

Definition Vin (L : list lcell) (ins : list outpoint) (cs : list acell) : Prop :=
  NoDup ins /\ NoDup (map g_op cs) /\
  forall op, In op ins -> exists a, In a cs /\ g_op a = op /\ g_spent a = None /\ lookup_cell L op = Some (a_lcell a).

Lemma mark_nomatch : forall info op (l : list acell),
  (forall x, In x l -> g_op x <> op) -> map (g_mark info op) l = l.
Proof.
  induction l as [|x l IH]; intro H; cbn [map]. reflexivity.
  rewrite IH by (intros; apply H; cbn; auto). f_equal. unfold g_mark, g_matches.
  assert (op_eqb (g_op x) op = false) by (apply op_eqb_neq; apply H; cbn; auto). rewrite H0. reflexivity.
Qed.
Lemma a_rows_spend : forall L tid bn txi ins ii cs, Vin L ins cs ->
  Permutation (a_rows (g_spend tid bn txi ii ins cs)) (a_rows cs ++ in_rows_from L tid bn txi ii ins).
Proof.
  induction ins as [|op ins IH]; intros ii cs V; cbn [g_spend].
  - unfold in_rows_from. cbn. rewrite app_nil_r. apply Permutation_refl.
  - destruct V as (N1 & N2 & W). inversion N1; subst.
    destruct (W op (or_introl eq_refl)) as (a & Ha & Ho & S & Lk).
    apply in_split in Ha. destruct Ha as (pre & post & ->).
    assert (ND : forall x, In x (pre ++ post) -> g_op x <> op).
    { pose proof N2 as N3. rewrite map_app in N3. cbn [map] in N3. apply NoDup_remove_2 in N3. intros x Hx E. apply N3.
      rewrite <- map_app. rewrite Ho, <- E. apply in_map. exact Hx. }
    set (info := (tid, bn, txi, ii)).
    assert (M : map (g_mark info op) (pre ++ a :: post) = pre ++ g_set_spent a (Some info) :: post).
    { rewrite map_app. cbn [map]. rewrite !mark_nomatch.
      - unfold g_mark, g_matches. rewrite Ho, op_eqb_refl. reflexivity.
      - intros. apply ND. apply in_or_app. auto.
      - intros. apply ND. apply in_or_app. auto. }
    rewrite M.
    assert (V' : Vin L ins (pre ++ g_set_spent a (Some info) :: post)).
    { split; [|split]; auto.
      - rewrite <- M, mark_ops. exact N2.
      - intros op' H'. destruct (W op' (or_intror H')) as (a' & Ha' & Ho' & S' & Lk').
        exists a'. repeat split; auto. apply in_app_or in Ha'. apply in_or_app. destruct Ha' as [Ha'|[Ha'|Ha']]; auto.
        + subst a'. exfalso. apply H1. congruence.
        + right. right. exact Ha'. }
    eapply Permutation_trans. apply IH. exact V'.
    unfold in_rows_from. cbn [mapi concat]. rewrite Lk. fold (in_rows_from L tid bn txi (N.succ ii) ins).
    rewrite !a_rows_app, !a_rows_cons.
    assert (E1 : a_out_rows (g_set_spent a (Some info)) = a_out_rows a) by reflexivity.
    assert (E2 : a_in_rows (g_set_spent a (Some info)) = op_in_rows tid bn txi ii (a_lcell a)) by reflexivity.
    assert (E3 : a_in_rows a = []) by (unfold a_in_rows; rewrite S; reflexivity).
    rewrite E1, E2, E3, app_nil_r.
    set (X := op_in_rows tid bn txi ii (a_lcell a)). set (Y := in_rows_from L tid bn txi (N.succ ii) ins).
    rewrite <- !app_assoc. apply Permutation_app_head. apply Permutation_app_head.
    rewrite !app_assoc. apply Permutation_app_tail. apply Permutation_app_comm.
Qed.

Lemma Vin_of_view : forall ins cs, NoDup (map g_op cs) -> NoDup ins ->
  (forall op, In op ins -> exists c, lookup_cell (a_view cs) op = Some c) -> Vin (a_view cs) ins cs.
Proof.
  intros ins cs N NI L. split; [|split]; auto.
  intros op H. destruct (L op H) as [c Hc]. pose proof Hc as Hc'. apply lookup_some in Hc. destruct Hc as [Hc Ho].
  unfold a_view in Hc. apply in_flat_map in Hc. destruct Hc as [a [Ha Hc]].
  destruct (g_spent a) eqn:S; cbn [is_some] in Hc. contradiction. destruct Hc as [<-|[]].
  exists a. repeat split; auto.
Qed.

Lemma a_rows_txs : forall bn ts ids cs txi T,
  AW ids cs -> txs_ok (a_view cs) bn txi ts = true -> NoDup (map t_id ts) ->
  (forall t, In t ts -> ~ In (t_id t) ids) ->
  Permutation (a_rows cs) T ->
  Permutation (a_rows (a_txs bn cs txi ts)) (cs_txs (replay_txs bn (mkCs (a_view cs) T) txi ts)).
Proof.
  induction ts as [|t ts IH]; intros ids cs txi T W OK ND FR P; cbn [a_txs replay_txs]. exact P.
  cbn [txs_ok] in OK. fold (ins_of txi t) in OK.
  apply andb_true_iff in OK. destruct OK as [OK O3]. apply andb_true_iff in OK. destruct OK as [O1 O2].
  inversion ND; subst.
  assert (V : Vin (a_view cs) (ins_of txi t) cs).
  { apply Vin_of_view. apply W. apply nodup_op_spec. exact O2.
    intros op H. rewrite forallb_forall in O1. apply O1 in H. destruct (lookup_cell (a_view cs) op); eauto. discriminate. }
  assert (W' : AW (ids ++ [t_id t]) (a_tx bn cs txi t)). { apply AW_tx; auto. apply FR. cbn; auto. }
  rewrite replay_tx_eq. cbn [cs_live cs_txs]. rewrite <- a_view_tx.
  apply (IH (ids ++ [t_id t])); auto.
  - rewrite a_view_tx. exact O3.
  - intros t' H HI. apply in_app_or in HI. destruct HI as [HI|[HI|[]]].
    + apply (FR t'); cbn; auto.
    + apply H1. rewrite HI. apply in_map. exact H.
  - unfold a_tx. rewrite a_rows_app, a_rows_new. unfold rows_tx. rewrite app_assoc. apply Permutation_app_tail.
    eapply Permutation_trans. apply (a_rows_spend (a_view cs)). exact V.
    apply Permutation_app; auto. unfold ins_of. destruct (N.ltb 0 txi).
    + rewrite in_trows_eq. apply Permutation_refl.
    + apply Permutation_refl.
Qed.
Theorem a_rows_all_cells : forall ch, chain_ok ch -> Permutation (a_rows (all_cells ch)) (txs ch).
Proof.
  induction 1 as [|ch b C IH OK]. apply Permutation_refl.
  pose proof (chain_acf ch C) as [W _]. apply block_ok_parts in OK. destruct OK as (Hn & _ & (O1 & O2 & O3)).
  rewrite all_cells_snoc. unfold a_block, txs. rewrite replay_snoc, replay_eta.
  rewrite <- a_view_all_cells. apply (a_rows_txs _ _ (chain_tx_ids ch)); auto.
  rewrite a_view_all_cells. exact O1.
Qed.

(* the transaction list of a search without cell filters *)
Lemma no_cell_filter_pass : forall lockq f j, no_cell_filter f = true -> jcell_pass lockq f j = true.
Proof.
  intros lockq f j H. unfold no_cell_filter in H. repeat (apply andb_true_iff in H; destruct H as [H ?]).
  unfold jcell_pass. destruct (f_script f), (f_slen f), (f_data f), (f_dlen f), (f_cap f); try discriminate. reflexivity.
Qed.
Lemma filter_true : forall {T} (f : T -> bool) l, (forall x, f x = true) -> filter f l = l.
Proof. induction l; intro H; cbn [filter]; auto. rewrite H, IHl; auto. Qed.
Lemma perm_filter : forall {T} (f : T -> bool) l l', Permutation l l' -> Permutation (filter f l) (filter f l').
Proof.
  intros T f l l' H. induction H; cbn [filter].
  - constructor.
  - destruct (f x); auto.
  - destruct (f x), (f y); auto. constructor.
  - eapply Permutation_trans; eauto.
Qed.
Lemma flat_map_app_perm : forall {T U} (f g : T -> list U) l,
  Permutation (flat_map f l ++ flat_map g l) (flat_map (fun x => f x ++ g x) l).
Proof.
  induction l as [|x l IH]; cbn [flat_map]. constructor.
  rewrite <- !app_assoc. apply Permutation_app_head.
  eapply Permutation_trans. 2:{ apply Permutation_app_head. exact IH. }
  rewrite !app_assoc. apply Permutation_app_tail. apply Permutation_app_comm.
Qed.

Section TxRows.
  Variable q : rquery.
  Let lockq := rq_lock q.
  Let sel := sel_of (rq_mode q) (rq_script q).
  Let blk := in_range (f_block (rq_f q)).
  Definition j_rows (j : jcell) : list tx_result :=
    (if blk (j_bn j) then [(fst (j_op j), j_bn j, j_txi j, snd (j_op j), true)] else [])
    ++ match j_spent j with
       | Some (tid, sbn, stxi, ii) => if blk sbn then [(tid, sbn, stxi, ii, false)] else []
       | None => [] end.
  Definition pick (rows : list (bool * trow)) : list tx_result :=
    map trow_result (filter (fun r => sel (tr_s r) && blk (tr_bn r))
                            (map snd (filter (fun r => Bool.eqb (fst r) lockq) rows))).
  Lemma pick_app : forall a b, pick (a ++ b) = pick a ++ pick b.
  Proof. intros. unfold pick. rewrite filter_app, map_app, filter_app, map_app. reflexivity. Qed.
  Lemma pick_cell : forall a,
    pick (a_out_rows a ++ a_in_rows a) = if a_selected lockq sel a then j_rows (a_jcell a) else [].
  Proof.
    intro a. unfold pick, a_out_rows, a_in_rows, a_selected, a_script, j_rows, a_jcell. cbn [j_bn j_op j_txi j_spent].
    destruct lockq; destruct (g_type a) as [s|]; destruct (g_spent a) as [[[[t sbn] stxi] ii]|];
      cbn [app filter map fst snd Bool.eqb tr_s tr_bn trow_result tr_tx tr_txi tr_ioi tr_out];
      repeat match goal with
             | |- context [sel ?x] => destruct (sel x); cbn [andb filter map app]
             | |- context [blk ?x] => destruct (blk x); cbn [andb filter map app]
             end; reflexivity.
  Qed.
  Lemma pick_rows : forall cs,
    pick (a_rows cs) = flat_map j_rows (map a_jcell (filter (a_selected lockq sel) cs)).
  Proof.
    induction cs as [|a cs IH]. reflexivity.
    rewrite a_rows_cons, pick_app, pick_cell, IH. cbn [filter]. destruct (a_selected lockq sel a); reflexivity.
  Qed.
  Lemma pick_perm : forall r r', Permutation r r' -> Permutation (pick r) (pick r').
  Proof. intros. unfold pick. apply Permutation_map. apply perm_filter. apply Permutation_map. apply perm_filter. assumption. Qed.

  Theorem spec_tx_rows_history : forall ch, chain_ok ch -> no_cell_filter (rq_f q) = true ->
    Permutation (q_tx_rows (spec_joined (all_cells ch) q) q) (history_rows ch q).
  Proof.
    intros ch C NF. unfold spec_joined. rewrite filter_true by (intro; apply no_cell_filter_pass; exact NF).
    unfold q_tx_rows. eapply Permutation_trans. apply flat_map_app_perm.
    fold blk. change (Permutation (flat_map j_rows (map a_jcell (filter (a_selected lockq sel) (all_cells ch)))) (history_rows ch q)).
    rewrite <- pick_rows. unfold history_rows, spec_tx_rows. apply (pick_perm _ (txs ch)). apply a_rows_all_cells. exact C.
  Qed.
End TxRows.

Theorem rich_txs_eq_history : forall ops s,
  rops_ok rs_empty ops = true -> rrun rs_empty ops = Some s ->
  forall q, no_cell_filter (rq_f q) = true ->
    Permutation (q_tx_rows (joined (rs_db s) q) q) (history_rows (rs_chain s) q) /\
    rich_get_txs (rs_db s) q = sort_by row_key (q_tx_rows (joined (rs_db s) q) q).
Proof.
  intros ops s H1 H2 q NF. pose proof (rinv_reachable ops s H1 H2) as I. split; [|reflexivity].
  rewrite (joined_eq s q I). apply spec_tx_rows_history; auto. apply I.
Qed.

(* ======================================================================== *)
(* I. witnesses *)
Definition w_hash (c : N) : list N := repeat c 32 ++ [1].
Definition w_alice : script := w_hash 1 ++ [10].
Definition w_miner : script := w_hash 1 ++ [11].
Definition w_bob : script := w_hash 1 ++ [12].
Definition w_carol : script := w_hash 1 ++ [12; 7].
Definition w_token : script := w_hash 7 ++ [99].       (* used as a type script only *)
(* block 0: a token cell for alice, a plain cell for the miner *)
Definition w_b0 := mkBlock 0 100 [mkTx 1 [] [mkOut w_alice (Some w_token) 1000 [1]; mkOut w_miner None 2000 []]].
(* block 1: the miner's cell becomes a second token cell (bob), which the next
   transaction of the same block passes on to carol *)
Definition w_b1 := mkBlock 1 101
  [mkTx 2 [] [mkOut w_miner None 1000 []];
   mkTx 3 [(1, 1)] [mkOut w_bob (Some w_token) 2000 [2]];
   mkTx 4 [(3, 0)] [mkOut w_carol (Some w_token) 2000 [2; 2]]].
(* the other branch *)
Definition w_c1 := mkBlock 1 201 [mkTx 5 [] [mkOut w_miner None 1000 []]; mkTx 6 [(1, 0)] [mkOut w_bob (Some w_token) 1000 [1]]].
Definition w_c2 := mkBlock 2 202 [mkTx 7 [] [mkOut w_carol None 500 []]; mkTx 3 [(1, 1)] [mkOut w_bob (Some w_token) 2000 [2]]].
Definition w_ops : list iop := [OAppend w_b0; OAppend w_b1; ORollback; OAppend w_c1; OAppend w_c2].
Definition w_q_token := mkRQ false w_token DExact false 100 no_filter.
Definition w_q_alice := mkRQ true w_alice DPrefix false 100 no_filter.
Definition w_q_bobs := mkRQ true w_bob DPrefix true 1 no_filter.

Example rich_example_ops_ok : rops_ok rs_empty w_ops = true.
Proof. vm_compute. reflexivity. Qed.
Example rich_example_nontrivial :
  exists s, rrun rs_empty w_ops = Some s
    /\ rich_run (rs_db s) (RQCells w_q_token) =
         RACells [(6, 0, 1, 1, 1000, Some w_bob, Some w_token, [1]); (3, 0, 2, 1, 2000, Some w_bob, Some w_token, [2])]
    /\ rich_run (rs_db s) (RQTxs w_q_token) =
         RATxs [(1, 0, 0, 0, true); (6, 1, 1, 0, false); (6, 1, 1, 0, true); (3, 2, 1, 0, true)]
    /\ rich_run (rs_db s) (RQCap w_q_token) = RACap (Some (3000, 2, 202))
    /\ rich_run (rs_db s) (RQCells w_q_bobs) = RACells [(3, 0, 2, 1, 2000, Some w_bob, Some w_token, [2])]
    /\ length (d_scripts (rs_db s)) = 5%nat.
Proof. eexists. repeat (match goal with |- _ /\ _ => split end); vm_compute; reflexivity. Qed.
(* the hypotheses of rich_rollback_inverts_append_all are met: block 1 creates
   and consumes a cell, shares the type script with block 0, and brings new scripts *)
Example rich_example_rollback_hyps :
  exists s s1 s2, rrun rs_empty [OAppend w_b0] = Some s
    /\ rops_ok rs_empty [OAppend w_b0] = true
    /\ block_ok (rs_chain s) w_b1 = true
    /\ rstep s (OAppend w_b1) = Some s1 /\ rstep s1 ORollback = Some s2
    /\ length (d_scripts (rs_db s)) = 3%nat /\ length (d_scripts (rs_db s1)) = 5%nat
    /\ rs_db s2 = rs_db s.
Proof. do 3 eexists. repeat (match goal with |- _ /\ _ => split end); vm_compute; reflexivity. Qed.

(* the variant of script_exists_in_output that never looks at type references:
   rolling back block 1 deletes the row of the token script although alice's
   live cell of block 0 carries it — searching by the type script finds nothing,
   and alice's cell is shown without a type script *)
Theorem rich_gc_ignoring_type_refs_refuted :
  exists (ops : list iop) (s : rstate) (c : lcell),
    rops_ok_gen GcLockOnly rs_empty ops = true /\ rrun_gen GcLockOnly rs_empty ops = Some s /\
    In c (live (rs_chain s)) /\ o_type (lc_out c) = Some w_token /\
    rich_run (rs_db s) (RQCells w_q_token) = RACells [] /\
    rich_run (rs_db s) (RQTxs w_q_token) = RATxs [] /\
    rich_run (rs_db s) (RQCap w_q_token) = RACap None /\
    rich_run (rs_db s) (RQCells w_q_alice) = RACells [(1, 0, 0, 0, 1000, Some w_alice, None, [1])] /\
    spec_run (rs_chain s) (RQCells w_q_token) = RACells [(1, 0, 0, 0, 1000, Some w_alice, Some w_token, [1])].
Proof.
  exists [OAppend w_b0; OAppend w_b1; ORollback]. eexists.
  exists (mkLc (1, 0) 0 0 (mkOut w_alice (Some w_token) 1000 [1])).
  repeat (match goal with |- _ /\ _ => split end); try (vm_compute; reflexivity).
  vm_compute. left. reflexivity.
Qed.

(* ======================================================================== *)
(* J. the statements of Props/C18.v about reachable states *)
Theorem rich_rows_resolve : forall ops s,
  rops_ok rs_empty ops = true -> rrun rs_empty ops = Some s ->
  d_blocks (rs_db s) = map (fun b => (b_num b, b_id b)) (rs_chain s) /\
  NoDup (map fst (d_scripts (rs_db s))) /\
  Res (d_scripts (rs_db s)) (d_cells (rs_db s)) (all_cells (rs_chain s)).
Proof. intros ops s H1 H2. destruct (rinv_reachable ops s H1 H2) as (_ & B & W & R). auto. Qed.

Theorem rich_cell_history : forall ops s,
  rops_ok rs_empty ops = true -> rrun rs_empty ops = Some s ->
  a_view (all_cells (rs_chain s)) = live (rs_chain s) /\
  Permutation (a_rows (all_cells (rs_chain s))) (txs (rs_chain s)).
Proof.
  intros ops s H1 H2. split. apply a_view_all_cells. apply a_rows_all_cells. apply (rinv_reachable ops s H1 H2).
Qed.
