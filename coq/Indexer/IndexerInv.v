(* Indexer/IndexerInv.v — the invariant tying the indexer's store to the replay
   of the main chain, and its preservation by append / prune / rollback. *)
From CKB Require Import Indexer.Indexer Indexer.IndexerLemmas Indexer.IndexerSpec.
From Coq Require Import Permutation.
Arguments N.add : simpl never.
Arguments N.sub : simpl never.
Arguments N.mul : simpl never.
Arguments N.div : simpl never.
Arguments N.modulo : simpl never.
Arguments N.of_nat : simpl never.
Arguments N.to_nat : simpl never.
Local Open Scope N_scope.

(* ---- more on last_op ----------------------------------------------------------- *)
Lemma last_op_in : forall ops k r, last_op ops k = Some r ->
  exists o, In o ops /\ bop_key o = k /\ bop_res o = r.
Proof.
  induction ops as [|o ops IH]; intros k r H; cbn [last_op] in H. discriminate.
  destruct (last_op ops k) eqn:E.
  - inversion H; subst. destruct (IH _ _ E) as [o' [H1 H2]]. exists o'. split; cbn; auto.
  - destruct (key_eqb k (bop_key o)) eqn:F; [|discriminate]. apply key_eqb_spec in F.
    inversion H; subst. exists o. cbn; auto.
Qed.
Lemma last_op_fun : forall ops k o, In o ops -> bop_key o = k ->
  (forall o', In o' ops -> bop_key o' = k -> bop_res o' = bop_res o) ->
  last_op ops k = Some (bop_res o).
Proof.
  intros ops k o HI Hk Hf. destruct (last_op ops k) as [r|] eqn:E.
  - apply last_op_in in E. destruct E as [o' [H1 [H2 H3]]]. rewrite <- H3. f_equal. apply Hf; auto.
  - apply last_op_none_iff in E. exfalso. apply E. apply in_map_iff. exists o. auto.
Qed.

(* ---- the live rows as key/value pairs ---------------------------------------------- *)
Definition cell_kvs (c : lcell) : list (key * value) :=
  (KOutPoint (lc_op c), VCell (lc_bn c) (lc_txi c) (lc_out c))
  :: (KCellLock (o_lock (lc_out c)) (lc_bn c) (lc_txi c) (snd (lc_op c)), VTx (fst (lc_op c)))
  :: match o_type (lc_out c) with
     | Some s => [(KCellType s (lc_bn c) (lc_txi c) (snd (lc_op c)), VTx (fst (lc_op c)))]
     | None => [] end.
Definition trow_kv (r : bool * trow) : key * value :=
  let t := snd r in
  ((if fst r then KTxLock else KTxType) (tr_s t) (tr_bn t) (tr_txi t) (tr_ioi t) (tr_out t), VTx (tr_tx t)).
Definition live_kvs (L : list lcell) (T : list (bool * trow)) : list (key * value) :=
  flat_map cell_kvs L ++ map trow_kv T.
Definition live_key (k : key) : bool :=
  match k with
  | KOutPoint _ | KCellLock _ _ _ _ | KCellType _ _ _ _ | KTxLock _ _ _ _ _ | KTxType _ _ _ _ _ => true
  | _ => false end.
Definition LiveInv (st : store) (L : list lcell) (T : list (bool * trow)) : Prop :=
  forall k v, live_key k = true -> (get st k = Some v <-> In (k, v) (live_kvs L T)).

Lemma in_live_kvs : forall L T k v,
  In (k, v) (live_kvs L T) <->
  (exists c, In c L /\ In (k, v) (cell_kvs c)) \/ (exists r, trow_kv r = (k, v) /\ In r T).
Proof.
  intros. unfold live_kvs. rewrite in_app_iff, in_flat_map, in_map_iff. reflexivity.
Qed.

Lemma live_inv_step : forall st L T ops L' T',
  LiveInv st L T ->
  (forall k o o', live_key k = true -> In o ops -> In o' ops -> bop_key o = k -> bop_key o' = k ->
                  bop_res o = bop_res o') ->
  (forall k v, live_key k = true ->
     (In (k, v) (live_kvs L' T') <->
      In (Put k v) ops \/ (~ In k (map bop_key ops) /\ In (k, v) (live_kvs L T)))) ->
  LiveInv (commit st ops) L' T'.
Proof.
  intros st L T ops L' T' HI Hf Hc k v Hk. rewrite get_commit, (Hc k v Hk).
  destruct (last_op ops k) as [r|] eqn:E.
  - pose proof E as E'. apply last_op_in in E'. destruct E' as [o [H1 [H2 H3]]]. split.
    + intro H. subst r. left. destruct o; cbn in *; [|discriminate]. inversion H; subst. auto.
    + intros [H|[H _]].
      * rewrite <- H3. symmetry. apply (Hf k (Put k v) o Hk H H1 eq_refl H2).
      * exfalso. apply H. apply in_map_iff. exists o. auto.
  - apply last_op_none_iff in E. rewrite (HI k v Hk). split.
    + intro H. right. auto.
    + intros [H|[_ H]]; auto. exfalso. apply E. apply in_map_iff. exists (Put k v). auto.
Qed.

(* ---- tip ----------------------------------------------------------------------- *)
Lemma hdr_lt_asym : forall a b, hdr_lt a b = true -> hdr_lt b a = false.
Proof.
  intros [[n i] f] [[m j] g]. unfold hdr_lt.
  destruct (N.ltb_spec n m), (N.ltb_spec m n), (N.eqb_spec n m), (N.eqb_spec m n),
    (N.ltb_spec i j), (N.ltb_spec j i), (N.eqb_spec i j), (N.eqb_spec j i), f, g; cbn; try reflexivity; try lia; intro; try discriminate.
Qed.

Definition vtxs (v : value) : list (N * N * N) := match v with VTxs l => l | _ => [] end.

Lemma tip_entry_none : forall st best, (forall n i f v, ~ In (KHeader n i f, v) st) -> tip_entry st best = best.
Proof.
  induction st as [|[k v] st IH]; intros best H; cbn [tip_entry]; auto.
  destruct k; try (apply IH; intros n0 i0 f0 v0 HI; apply (H n0 i0 f0 v0); cbn; auto).
  exfalso. eapply H. left. reflexivity.
Qed.

Lemma tip_entry_max : forall st n i f l best,
  (forall n' i' f' v', In (KHeader n' i' f', v') st ->
     (n', i', f', vtxs v') = (n, i, f, l) \/ hdr_lt (n', i', f') (n, i, f) = true) ->
  match best with
  | None => True
  | Some (n', i', f', l') => (n', i', f', l') = (n, i, f, l) \/ hdr_lt (n', i', f') (n, i, f) = true
  end ->
  (best = Some (n, i, f, l) \/ exists v, In (KHeader n i f, v) st /\ vtxs v = l) ->
  tip_entry st best = Some (n, i, f, l).
Proof.
  induction st as [|[k v] st IH]; intros n i f l best Hall Hb Hex; cbn [tip_entry].
  - destruct Hex as [H|[v [[] _]]]. auto.
  - assert (Hall' : forall n' i' f' v', In (KHeader n' i' f', v') st ->
       (n', i', f', vtxs v') = (n, i, f, l) \/ hdr_lt (n', i', f') (n, i, f) = true).
    { intros. apply Hall. right. auto. }
    assert (Hex' : forall k', (forall a b c, k' <> KHeader a b c) -> k = k' ->
       best = Some (n, i, f, l) \/ exists v0, In (KHeader n i f, v0) st /\ vtxs v0 = l).
    { intros k' Hk' E. destruct Hex as [H|[v0 [[H|H] H2]]]; auto.
      - inversion H. subst. exfalso. eapply Hk'. reflexivity.
      - right. eauto. }
    destruct k; try (apply IH; auto; eapply Hex'; [|reflexivity]; intros; discriminate).
    fold (vtxs v). specialize (Hall bn id flt v (or_introl eq_refl)).
    apply IH; auto.
    + destruct best as [[[[n' i'] f'] l']|]; auto.
      destruct (hdr_lt (n', i', f') (bn, id, flt)) eqn:E; auto.
    + destruct (key_eq_dec (KHeader bn id flt) (KHeader n i f)) as [D|D].
      * inversion D; subst bn id flt.
        destruct Hall as [Hall|Hall]; [|rewrite hdr_lt_asym in Hall; [discriminate|exact Hall]].
        inversion Hall as [Hv]. left.
        destruct best as [[[[n' i'] f'] l']|]; [|rewrite Hv; reflexivity].
        destruct Hb as [Hb|Hb].
        -- inversion Hb; subst. destruct (hdr_lt (n, i, f) (n, i, f)); rewrite ?Hv; reflexivity.
        -- rewrite Hb, Hv. reflexivity.
      * destruct Hex as [H|[v0 [[H|H] H2]]].
        -- left. subst best. destruct Hall as [Hall|Hall]. inversion Hall; subst. congruence.
           rewrite (hdr_lt_asym _ _ Hall). reflexivity.
        -- inversion H; subst. congruence.
        -- right. eauto.
Qed.

(* ---- the operations of one transaction, as sets -------------------------------------- *)
Lemma in_concat_mapi : forall {A B} (f : N -> A -> list B) l i y,
  In y (concat (mapi f i l)) <-> exists j x, nth_error l j = Some x /\ In y (f (i + N.of_nat j) x).
Proof.
  intros. rewrite in_concat. split.
  - intros [ys [H1 H2]]. apply in_mapi in H1. destruct H1 as [j [x [H1 ->]]]. eauto.
  - intros [j [x [H1 H2]]]. eexists. split; eauto. apply in_mapi. eauto.
Qed.

Lemma or_iff2 : forall A A' B B' : Prop, (A <-> A') -> (B <-> B') -> (A \/ B <-> A' \/ B').
Proof. tauto. Qed.

Definition cell_in_rows (c : lcell) (bn txi ii tid : N) : list (bool * trow) :=
  (true, mkTrow (o_lock (lc_out c)) bn txi ii false tid)
  :: match o_type (lc_out c) with
     | Some s => [(false, mkTrow s bn txi ii false tid)]
     | None => [] end.
Definition out_rows (o : output) (bn txi oi tid : N) : list (bool * trow) :=
  (true, mkTrow (o_lock o) bn txi oi true tid)
  :: match o_type o with
     | Some s => [(false, mkTrow s bn txi oi true tid)]
     | None => [] end.
Definition PutKv (kv : key * value) : bop := Put (fst kv) (snd kv).
Definition DelK (kv : key * value) : bop := Del (fst kv).

Lemma in_rows_tx : forall bn L i t r,
  In r (rows_tx bn L i t) <->
  (exists ii op c, nth_error (tx_ins i t) ii = Some op /\ lookup_cell L op = Some c /\
                   In r (cell_in_rows c bn i (N.of_nat ii) (t_id t))) \/
  (exists oi o, nth_error (t_outputs t) oi = Some o /\ In r (out_rows o bn i (N.of_nat oi) (t_id t))).
Proof.
  intros. unfold rows_tx, tx_ins. rewrite in_app_iff. apply or_iff2.
  - destruct (0 <? i).
    + unfold in_trows. rewrite in_concat_mapi. split.
      * intros [j [op [H1 H2]]]. rewrite N.add_0_l in H2. destruct (lookup_cell L op) as [c|] eqn:E; [|contradiction].
        exists j, op, c. auto.
      * intros [j [op [c [H1 [H2 H3]]]]]. exists j, op. split; auto. rewrite N.add_0_l, H2. exact H3.
    + split. contradiction. intros [j [op [c [H1 _]]]]. destruct j; discriminate.
  - unfold out_trows. rewrite in_concat_mapi. split; intros [j [o [H1 H2]]]; exists j, o;
      rewrite N.add_0_l in *; auto.
Qed.

Lemma in_input_ops : forall st b txi tid ii op c o,
  resolve st b op = RFound (lc_bn c) (lc_txi c) (lc_out c) -> lc_op c = op ->
  (In o (input_ops st b txi tid ii op) <->
   In o (map DelK (cell_kvs c)) \/ In o (map PutKv (map trow_kv (cell_in_rows c (b_num b) txi ii tid))) \/
   o = Put (KConsumed (b_num b) op) (VCell (lc_bn c) (lc_txi c) (lc_out c))).
Proof.
  intros st b txi tid ii op c o HR E. unfold input_ops. rewrite HR. subst op.
  unfold cell_kvs, cell_in_rows, opt_ops. destruct (o_type (lc_out c)); cbn [app map In DelK PutKv trow_kv fst snd tr_s tr_bn tr_txi tr_ioi tr_out tr_tx]; intuition.
Qed.

Lemma in_output_ops : forall bn txi tid oi out o,
  In o (output_ops bn txi tid oi out) <->
  In o (map PutKv (cell_kvs (mkLc (tid, oi) bn txi out))) \/ In o (map PutKv (map trow_kv (out_rows out bn txi oi tid))).
Proof.
  intros. unfold output_ops, cell_kvs, out_rows, opt_ops. cbn [lc_op lc_bn lc_txi lc_out fst snd].
  destruct (o_type out); cbn [app map In DelK PutKv trow_kv fst snd tr_s tr_bn tr_txi tr_ioi tr_out tr_tx]; intuition.
Qed.

Lemma tx_inputs_ops_eq : forall st b i t,
  tx_inputs_ops st b i t = concat (mapi (fun ii op => input_ops st b i (t_id t) ii op) 0 (tx_ins i t)).
Proof. intros. unfold tx_inputs_ops, tx_ins. destruct (0 <? i); reflexivity. Qed.

Lemma in_tx_ops : forall st b L i t o,
  (forall op, In op (tx_ins i t) -> exists c, lookup_cell L op = Some c /\
      resolve st b op = RFound (lc_bn c) (lc_txi c) (lc_out c)) ->
  (In o (tx_ops st b i t) <->
   (exists ii op c, nth_error (tx_ins i t) ii = Some op /\ lookup_cell L op = Some c /\
      (In o (map DelK (cell_kvs c)) \/
       In o (map PutKv (map trow_kv (cell_in_rows c (b_num b) i (N.of_nat ii) (t_id t)))) \/
       o = Put (KConsumed (b_num b) op) (VCell (lc_bn c) (lc_txi c) (lc_out c)))) \/
   (exists oi out, nth_error (t_outputs t) oi = Some out /\
      (In o (map PutKv (cell_kvs (mkLc (t_id t, N.of_nat oi) (b_num b) i out))) \/
       In o (map PutKv (map trow_kv (out_rows out (b_num b) i (N.of_nat oi) (t_id t)))))) \/
   (tx_matched st b i t = true /\ o = Put (KTxHash (t_id t)) (VInputs (t_inputs t)))).
Proof.
  intros st b L i t o HR. unfold tx_ops. rewrite !in_app_iff. apply or_iff2; [|apply or_iff2].
  - rewrite tx_inputs_ops_eq, in_concat_mapi. split.
    + intros [j [op [H1 H2]]]. rewrite N.add_0_l in H2.
      destruct (HR op (nth_error_In _ _ H1)) as [c [Hc1 Hc2]]. apply lookup_some in Hc1 as Hc3.
      exists j, op, c. split; auto. split; auto. eapply in_input_ops; eauto. tauto.
    + intros [j [op [c [H1 [H2 H3]]]]]. exists j, op. split; auto. rewrite N.add_0_l.
      destruct (HR op (nth_error_In _ _ H1)) as [c' [Hc1 Hc2]]. rewrite H2 in Hc1. inversion Hc1; subst c'.
      apply lookup_some in H2. eapply in_input_ops; eauto. tauto.
  - unfold tx_outputs_ops. rewrite in_concat_mapi. split; intros [j [x [H1 H2]]]; exists j, x; split; auto;
      rewrite N.add_0_l in *; apply in_output_ops; auto.
  - destruct (tx_matched st b i t); cbn [In]; intuition; discriminate.
Qed.

(* ---- facts about cell_kvs / trow_kv ----------------------------------------------------- *)
Lemma cell_kvs_live : forall c k v, In (k, v) (cell_kvs c) -> live_key k = true.
Proof.
  intros c k v H. unfold cell_kvs in H. destruct (o_type (lc_out c)); cbn [In] in H;
    intuition; match goal with H : _ = (k, v) |- _ => inversion H end; reflexivity.
Qed.
Lemma trow_kv_live : forall r, live_key (fst (trow_kv r)) = true.
Proof. intros [[] r]; reflexivity. Qed.
Lemma cell_kvs_not_trow : forall c k v r, In (k, v) (cell_kvs c) -> fst (trow_kv r) <> k.
Proof.
  intros c k v [[] r] H E; unfold cell_kvs in H; destruct (o_type (lc_out c)); cbn [In] in H;
    cbn in E; intuition; match goal with H : _ = (k, v) |- _ => inversion H end; congruence.
Qed.
Lemma cell_kvs_same_op : forall c c' k v, In (k, v) (cell_kvs c) -> In (k, v) (cell_kvs c') -> lc_op c = lc_op c'.
Proof.
  intros c c' k v H H'. unfold cell_kvs in *. destruct (lc_op c) as [a1 a2], (lc_op c') as [b1 b2].
  cbn [fst snd] in *.
  destruct (o_type (lc_out c)), (o_type (lc_out c')); cbn [In] in H, H';
    intuition; subst; try discriminate;
    match goal with H : (_, _) = (_, _) |- _ => inversion H end; congruence.
Qed.
Lemma cell_kvs_key_op : forall c c' k v v', In (k, v) (cell_kvs c) -> In (k, v') (cell_kvs c') ->
  fst (lc_op c) = fst (lc_op c') -> lc_op c = lc_op c'.
Proof.
  intros c c' k v v' H H' E. unfold cell_kvs in *. destruct (lc_op c) as [a1 a2], (lc_op c') as [b1 b2].
  cbn [fst snd] in *. subst b1.
  destruct (o_type (lc_out c)), (o_type (lc_out c')); cbn [In] in H, H';
    intuition; subst; try discriminate;
    match goal with H : (_, _) = (_, _) |- _ => inversion H end; congruence.
Qed.
Lemma cell_kvs_fun : forall c k v v', In (k, v) (cell_kvs c) -> In (k, v') (cell_kvs c) -> v = v'.
Proof.
  intros c k v v' H H'. unfold cell_kvs in *.
  destruct (o_type (lc_out c)); cbn [In] in H, H';
    intuition; subst; try discriminate;
    match goal with H : (_, _) = (_, _) |- _ => inversion H end; congruence.
Qed.
(* what a key of a cell says about the cell *)
Lemma cell_kvs_key_info : forall c k v, In (k, v) (cell_kvs c) ->
  match k with
  | KOutPoint op => op = lc_op c
  | KCellLock _ bn txi oi | KCellType _ bn txi oi => bn = lc_bn c /\ txi = lc_txi c /\ oi = snd (lc_op c)
  | _ => False end.
Proof.
  intros c k v H. unfold cell_kvs in H. destruct (o_type (lc_out c)); cbn [In] in H;
    intuition; match goal with H : _ = (k, v) |- _ => inversion H end; auto.
Qed.
Lemma trow_kv_key_info : forall r,
  match fst (trow_kv r) with
  | KTxLock _ bn txi ioi out | KTxType _ bn txi ioi out =>
      bn = tr_bn (snd r) /\ txi = tr_txi (snd r) /\ ioi = tr_ioi (snd r) /\ out = tr_out (snd r)
  | _ => False end.
Proof. intros [[] r]; cbn; auto. Qed.

Lemma nodup_map_inj_in : forall {A B} (f : A -> B) l x y, NoDup (map f l) -> In x l -> In y l -> f x = f y -> x = y.
Proof.
  induction l as [|a l IH]; intros x y H Hx Hy E; cbn in *. contradiction.
  inversion H; subst. destruct Hx as [Hx|Hx], Hy as [Hy|Hy]; subst; auto.
  - exfalso. apply H2. rewrite E. apply in_map. auto.
  - exfalso. apply H2. rewrite <- E. apply in_map. auto.
Qed.

Lemma rows_tx_tx : forall bn L i t r, In r (rows_tx bn L i t) -> tr_tx (snd r) = t_id t.
Proof.
  intros bn L i t r H. apply in_rows_tx in H.
  destruct H as [[ii [op [c [_ [_ H]]]]]|[oi [o [_ H]]]].
  - unfold cell_in_rows in H. destruct (o_type (lc_out c)); cbn [In] in H; intuition; subst; reflexivity.
  - unfold out_rows in H. destruct (o_type o); cbn [In] in H; intuition; subst; reflexivity.
Qed.

(* ---- one transaction of append ------------------------------------------------------------ *)
Section AppendTx.
  Variables (st0 st : store) (b : block) (L0 : list lcell) (T0 : list (bool * trow)) (ids0 : list N).
  Variables (pre : list tx) (t : tx).
  Let bn := b_num b.
  Let i := N.of_nat (length pre).
  Let L := PL bn L0 T0 pre.
  Let T := PT bn L0 T0 pre.
  Hypothesis Hbn : forall c, In c L0 -> lc_bn c < bn.
  Hypothesis HTbn : forall r, In r T0 -> tr_bn (snd r) < bn.
  Hypothesis Hid : forall c, In c L0 -> In (fst (lc_op c)) ids0.
  Hypothesis SF : SeqFacts bn L0 T0 ids0 pre.
  Hypothesis OK : tx_step_ok bn L0 T0 ids0 pre t.
  Hypothesis LI : LiveInv st L T.
  Hypothesis HR : forall op, In op (tx_ins i t) -> exists c, lookup_cell L op = Some c /\
      resolve st0 b op = RFound (lc_bn c) (lc_txi c) (lc_out c).

  Definition Cs (c : lcell) : Prop := exists ii op, nth_error (tx_ins i t) ii = Some op /\ lookup_cell L op = Some c.

  Lemma Cs_in : forall c, Cs c -> In c L /\ In (lc_op c) (tx_ins i t).
  Proof.
    intros c [ii [op [H1 H2]]]. apply lookup_some in H2. destruct H2 as [H2 H3]. split; auto.
    rewrite H3. eapply nth_error_In; eauto.
  Qed.
  Lemma in_Cs : forall c, In c L -> In (lc_op c) (tx_ins i t) -> Cs c.
  Proof.
    intros c H1 H2. apply In_nth_error in H2. destruct H2 as [ii H2]. exists ii, (lc_op c). split; auto.
    apply lookup_in_nodup; auto. apply (sf_nd _ _ _ _ _ SF).
  Qed.

  Lemma tx_ops_live : forall o,
    (In o (tx_ops st0 b i t) /\ live_key (bop_key o) = true) <->
    ((exists c, Cs c /\ In o (map DelK (cell_kvs c))) \/
     (exists c, In c (new_cells bn i t) /\ In o (map PutKv (cell_kvs c))) \/
     (exists r, In r (rows_tx bn L i t) /\ o = PutKv (trow_kv r))).
  Proof.
    intro o. rewrite (in_tx_ops st0 b L i t o HR). split.
    - intros [[[ii [op [c [H1 [H2 H3]]]]]|[[oi [out [H1 H2]]]|[_ H]]] Hl].
      + destruct H3 as [H3|[H3|H3]].
        * left. exists c. split; auto. exists ii, op. auto.
        * right. right. rewrite in_map_iff in H3. destruct H3 as [kv [E H3]].
          rewrite in_map_iff in H3. destruct H3 as [r [E' H3]]. exists r. split; [|subst; auto].
          apply in_rows_tx. left. exists ii, op, c. auto.
        * subst o. discriminate.
      + destruct H2 as [H2|H2].
        * right. left. eexists. split; [|exact H2]. apply in_new_cells. eauto.
        * right. right. rewrite in_map_iff in H2. destruct H2 as [kv [E H3]].
          rewrite in_map_iff in H3. destruct H3 as [r [E' H3]]. exists r. split; [|subst; auto].
          apply in_rows_tx. right. exists oi, out. auto.
      + subst o. discriminate.
    - intros [[c [[ii [op [H1 H2]]] H3]]|[[c [H1 H2]]|[r [H1 H2]]]].
      + split. left. exists ii, op, c. auto.
        apply in_map_iff in H3. destruct H3 as [[k v] [<- H3]]. eapply cell_kvs_live; eauto.
      + split. apply in_new_cells in H1. destruct H1 as [oi [out [H1 ->]]]. right. left. exists oi, out. auto.
        apply in_map_iff in H2. destruct H2 as [[k v] [<- H3]]. eapply cell_kvs_live; eauto.
      + split; [|subst o; apply trow_kv_live]. apply in_rows_tx in H1.
        destruct H1 as [[ii [op [c [H1 [H3 H4]]]]]|[oi [out [H1 H3]]]].
        * left. exists ii, op, c. split; auto. split; auto. right. left. subst o.
          apply in_map. apply in_map. auto.
        * right. left. exists oi, out. split; auto. right. subst o. apply in_map. apply in_map. auto.
  Qed.

  Lemma L_pos : forall c, In c L -> lc_bn c < bn \/ (lc_bn c = bn /\ lc_txi c < i).
  Proof. intros c H. apply (sf_origin _ _ _ _ _ SF) in H. eapply origin_pos; eauto. Qed.
  Lemma L_id : forall c, In c L -> fst (lc_op c) <> t_id t.
  Proof.
    intros c H E. destruct OK as [_ [_ N2]]. apply N2. rewrite <- E.
    apply (sf_origin _ _ _ _ _ SF) in H. eapply origin_id; eauto.
  Qed.
End AppendTx.
