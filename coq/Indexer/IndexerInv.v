(* Indexer/IndexerInv.v — the invariant tying the indexer's store to the replay
   of the main chain, and its preservation by append / prune / rollback. *)
From CKB Require Import Indexer.Indexer Indexer.IndexerLemmas Indexer.IndexerSpec.
From Coq Require Import Permutation.
Arguments N.add : simpl never.
Arguments N.sub : simpl never.
Arguments N.mul : simpl never.
Arguments N.div : simpl never.
Arguments N.modulo : simpl never.
Arguments N.of_nat : simpl never.
Arguments N.to_nat : simpl never.
Local Open Scope N_scope.

(* ---- more on last_op ----------------------------------------------------------- *)
Lemma last_op_in : forall ops k r, last_op ops k = Some r ->
  exists o, In o ops /\ bop_key o = k /\ bop_res o = r.
Proof.
  induction ops as [|o ops IH]; intros k r H; cbn [last_op] in H. discriminate.
  destruct (last_op ops k) eqn:E.
  - inversion H; subst. destruct (IH _ _ E) as [o' [H1 H2]]. exists o'. split; cbn; auto.
  - destruct (key_eqb k (bop_key o)) eqn:F; [|discriminate]. apply key_eqb_spec in F.
    inversion H; subst. exists o. cbn; auto.
Qed.
Lemma last_op_fun : forall ops k o, In o ops -> bop_key o = k ->
  (forall o', In o' ops -> bop_key o' = k -> bop_res o' = bop_res o) ->
  last_op ops k = Some (bop_res o).
Proof.
  intros ops k o HI Hk Hf. destruct (last_op ops k) as [r|] eqn:E.
  - apply last_op_in in E. destruct E as [o' [H1 [H2 H3]]]. rewrite <- H3. f_equal. apply Hf; auto.
  - apply last_op_none_iff in E. exfalso. apply E. apply in_map_iff. exists o. auto.
Qed.

(* ---- the live rows as key/value pairs ---------------------------------------------- *)
Definition cell_kvs (c : lcell) : list (key * value) :=
  (KOutPoint (lc_op c), VCell (lc_bn c) (lc_txi c) (lc_out c))
  :: (KCellLock (o_lock (lc_out c)) (lc_bn c) (lc_txi c) (snd (lc_op c)), VTx (fst (lc_op c)))
  :: match o_type (lc_out c) with
     | Some s => [(KCellType s (lc_bn c) (lc_txi c) (snd (lc_op c)), VTx (fst (lc_op c)))]
     | None => [] end.
Definition trow_kv (r : bool * trow) : key * value :=
  let t := snd r in
  ((if fst r then KTxLock else KTxType) (tr_s t) (tr_bn t) (tr_txi t) (tr_ioi t) (tr_out t), VTx (tr_tx t)).
Definition live_kvs (L : list lcell) (T : list (bool * trow)) : list (key * value) :=
  flat_map cell_kvs L ++ map trow_kv T.
Definition live_key (k : key) : bool :=
  match k with
  | KOutPoint _ | KCellLock _ _ _ _ | KCellType _ _ _ _ | KTxLock _ _ _ _ _ | KTxType _ _ _ _ _ => true
  | _ => false end.
Definition LiveInv (st : store) (L : list lcell) (T : list (bool * trow)) : Prop :=
  forall k v, live_key k = true -> (get st k = Some v <-> In (k, v) (live_kvs L T)).

Lemma in_live_kvs : forall L T k v,
  In (k, v) (live_kvs L T) <->
  (exists c, In c L /\ In (k, v) (cell_kvs c)) \/ (exists r, trow_kv r = (k, v) /\ In r T).
Proof.
  intros. unfold live_kvs. rewrite in_app_iff, in_flat_map, in_map_iff. reflexivity.
Qed.

Lemma live_inv_step : forall st L T ops L' T',
  LiveInv st L T ->
  (forall k o o', live_key k = true -> In o ops -> In o' ops -> bop_key o = k -> bop_key o' = k ->
                  bop_res o = bop_res o') ->
  (forall k v, live_key k = true ->
     (In (k, v) (live_kvs L' T') <->
      In (Put k v) ops \/ (~ In k (map bop_key ops) /\ In (k, v) (live_kvs L T)))) ->
  LiveInv (commit st ops) L' T'.
Proof.
  intros st L T ops L' T' HI Hf Hc k v Hk. rewrite get_commit, (Hc k v Hk).
  destruct (last_op ops k) as [r|] eqn:E.
  - pose proof E as E'. apply last_op_in in E'. destruct E' as [o [H1 [H2 H3]]]. split.
    + intro H. subst r. left. destruct o; cbn in *; [|discriminate]. inversion H; subst. auto.
    + intros [H|[H _]].
      * rewrite <- H3. symmetry. apply (Hf k (Put k v) o Hk H H1 eq_refl H2).
      * exfalso. apply H. apply in_map_iff. exists o. auto.
  - apply last_op_none_iff in E. rewrite (HI k v Hk). split.
    + intro H. right. auto.
    + intros [H|[_ H]]; auto. exfalso. apply E. apply in_map_iff. exists (Put k v). auto.
Qed.

(* ---- tip ----------------------------------------------------------------------- *)
Lemma hdr_lt_asym : forall a b, hdr_lt a b = true -> hdr_lt b a = false.
Proof.
  intros [[n i] f] [[m j] g]. unfold hdr_lt.
  destruct (N.ltb_spec n m), (N.ltb_spec m n), (N.eqb_spec n m), (N.eqb_spec m n),
    (N.ltb_spec i j), (N.ltb_spec j i), (N.eqb_spec i j), (N.eqb_spec j i), f, g; cbn; try reflexivity; try lia; intro; try discriminate.
Qed.

Definition vtxs (v : value) : list (N * N * N) := match v with VTxs l => l | _ => [] end.

Lemma tip_entry_none : forall st best, (forall n i f v, ~ In (KHeader n i f, v) st) -> tip_entry st best = best.
Proof.
  induction st as [|[k v] st IH]; intros best H; cbn [tip_entry]; auto.
  destruct k; try (apply IH; intros n0 i0 f0 v0 HI; apply (H n0 i0 f0 v0); cbn; auto).
  exfalso. eapply H. left. reflexivity.
Qed.

Lemma tip_entry_max : forall st n i f l best,
  (forall n' i' f' v', In (KHeader n' i' f', v') st ->
     (n', i', f', vtxs v') = (n, i, f, l) \/ hdr_lt (n', i', f') (n, i, f) = true) ->
  match best with
  | None => True
  | Some (n', i', f', l') => (n', i', f', l') = (n, i, f, l) \/ hdr_lt (n', i', f') (n, i, f) = true
  end ->
  (best = Some (n, i, f, l) \/ exists v, In (KHeader n i f, v) st /\ vtxs v = l) ->
  tip_entry st best = Some (n, i, f, l).
Proof.
  induction st as [|[k v] st IH]; intros n i f l best Hall Hb Hex; cbn [tip_entry].
  - destruct Hex as [H|[v [[] _]]]. auto.
  - assert (Hall' : forall n' i' f' v', In (KHeader n' i' f', v') st ->
       (n', i', f', vtxs v') = (n, i, f, l) \/ hdr_lt (n', i', f') (n, i, f) = true).
    { intros. apply Hall. right. auto. }
    assert (Hex' : forall k', (forall a b c, k' <> KHeader a b c) -> k = k' ->
       best = Some (n, i, f, l) \/ exists v0, In (KHeader n i f, v0) st /\ vtxs v0 = l).
    { intros k' Hk' E. destruct Hex as [H|[v0 [[H|H] H2]]]; auto.
      - inversion H. subst. exfalso. eapply Hk'. reflexivity.
      - right. eauto. }
    destruct k; try (apply IH; auto; eapply Hex'; [|reflexivity]; intros; discriminate).
    fold (vtxs v). specialize (Hall bn id flt v (or_introl eq_refl)).
    apply IH; auto.
    + destruct best as [[[[n' i'] f'] l']|]; auto.
      destruct (hdr_lt (n', i', f') (bn, id, flt)) eqn:E; auto.
    + destruct (key_eq_dec (KHeader bn id flt) (KHeader n i f)) as [D|D].
      * inversion D; subst bn id flt.
        destruct Hall as [Hall|Hall]; [|rewrite hdr_lt_asym in Hall; [discriminate|exact Hall]].
        inversion Hall as [Hv]. left.
        destruct best as [[[[n' i'] f'] l']|]; [|rewrite Hv; reflexivity].
        destruct Hb as [Hb|Hb].
        -- inversion Hb; subst. destruct (hdr_lt (n, i, f) (n, i, f)); rewrite ?Hv; reflexivity.
        -- rewrite Hb, Hv. reflexivity.
      * destruct Hex as [H|[v0 [[H|H] H2]]].
        -- left. subst best. destruct Hall as [Hall|Hall]. inversion Hall; subst. congruence.
           rewrite (hdr_lt_asym _ _ Hall). reflexivity.
        -- inversion H; subst. congruence.
        -- right. eauto.
Qed.

(* ---- the operations of one transaction, as sets -------------------------------------- *)
Lemma in_concat_mapi : forall {A B} (f : N -> A -> list B) l i y,
  In y (concat (mapi f i l)) <-> exists j x, nth_error l j = Some x /\ In y (f (i + N.of_nat j) x).
Proof.
  intros. rewrite in_concat. split.
  - intros [ys [H1 H2]]. apply in_mapi in H1. destruct H1 as [j [x [H1 ->]]]. eauto.
  - intros [j [x [H1 H2]]]. eexists. split; eauto. apply in_mapi. eauto.
Qed.

Lemma or_iff2 : forall A A' B B' : Prop, (A <-> A') -> (B <-> B') -> (A \/ B <-> A' \/ B').
Proof. tauto. Qed.

Definition cell_in_rows (c : lcell) (bn txi ii tid : N) : list (bool * trow) :=
  (true, mkTrow (o_lock (lc_out c)) bn txi ii false tid)
  :: match o_type (lc_out c) with
     | Some s => [(false, mkTrow s bn txi ii false tid)]
     | None => [] end.
Definition out_rows (o : output) (bn txi oi tid : N) : list (bool * trow) :=
  (true, mkTrow (o_lock o) bn txi oi true tid)
  :: match o_type o with
     | Some s => [(false, mkTrow s bn txi oi true tid)]
     | None => [] end.
Definition PutKv (kv : key * value) : bop := Put (fst kv) (snd kv).
Definition DelK (kv : key * value) : bop := Del (fst kv).

Lemma in_rows_tx : forall bn L i t r,
  In r (rows_tx bn L i t) <->
  (exists ii op c, nth_error (tx_ins i t) ii = Some op /\ lookup_cell L op = Some c /\
                   In r (cell_in_rows c bn i (N.of_nat ii) (t_id t))) \/
  (exists oi o, nth_error (t_outputs t) oi = Some o /\ In r (out_rows o bn i (N.of_nat oi) (t_id t))).
Proof.
  intros. unfold rows_tx, tx_ins. rewrite in_app_iff. apply or_iff2.
  - destruct (0 <? i).
    + unfold in_trows. rewrite in_concat_mapi. split.
      * intros [j [op [H1 H2]]]. rewrite N.add_0_l in H2. destruct (lookup_cell L op) as [c|] eqn:E; [|contradiction].
        exists j, op, c. auto.
      * intros [j [op [c [H1 [H2 H3]]]]]. exists j, op. split; auto. rewrite N.add_0_l, H2. exact H3.
    + split. contradiction. intros [j [op [c [H1 _]]]]. destruct j; discriminate.
  - unfold out_trows. rewrite in_concat_mapi. split; intros [j [o [H1 H2]]]; exists j, o;
      rewrite N.add_0_l in *; auto.
Qed.

Lemma in_input_ops : forall st b txi tid ii op c o,
  resolve st b op = RFound (lc_bn c) (lc_txi c) (lc_out c) -> lc_op c = op ->
  (In o (input_ops st b txi tid ii op) <->
   In o (map DelK (cell_kvs c)) \/ In o (map PutKv (map trow_kv (cell_in_rows c (b_num b) txi ii tid))) \/
   o = Put (KConsumed (b_num b) op) (VCell (lc_bn c) (lc_txi c) (lc_out c))).
Proof.
  intros st b txi tid ii op c o HR E. unfold input_ops. rewrite HR. subst op.
  unfold cell_kvs, cell_in_rows, opt_ops. destruct (o_type (lc_out c)); cbn [app map In DelK PutKv trow_kv fst snd tr_s tr_bn tr_txi tr_ioi tr_out tr_tx]; intuition.
Qed.

Lemma in_output_ops : forall bn txi tid oi out o,
  In o (output_ops bn txi tid oi out) <->
  In o (map PutKv (cell_kvs (mkLc (tid, oi) bn txi out))) \/ In o (map PutKv (map trow_kv (out_rows out bn txi oi tid))).
Proof.
  intros. unfold output_ops, cell_kvs, out_rows, opt_ops. cbn [lc_op lc_bn lc_txi lc_out fst snd].
  destruct (o_type out); cbn [app map In DelK PutKv trow_kv fst snd tr_s tr_bn tr_txi tr_ioi tr_out tr_tx]; intuition.
Qed.

Lemma tx_inputs_ops_eq : forall st b i t,
  tx_inputs_ops st b i t = concat (mapi (fun ii op => input_ops st b i (t_id t) ii op) 0 (tx_ins i t)).
Proof. intros. unfold tx_inputs_ops, tx_ins. destruct (0 <? i); reflexivity. Qed.

Lemma in_tx_ops : forall st b L i t o,
  (forall op, In op (tx_ins i t) -> exists c, lookup_cell L op = Some c /\
      resolve st b op = RFound (lc_bn c) (lc_txi c) (lc_out c)) ->
  (In o (tx_ops st b i t) <->
   (exists ii op c, nth_error (tx_ins i t) ii = Some op /\ lookup_cell L op = Some c /\
      (In o (map DelK (cell_kvs c)) \/
       In o (map PutKv (map trow_kv (cell_in_rows c (b_num b) i (N.of_nat ii) (t_id t)))) \/
       o = Put (KConsumed (b_num b) op) (VCell (lc_bn c) (lc_txi c) (lc_out c)))) \/
   (exists oi out, nth_error (t_outputs t) oi = Some out /\
      (In o (map PutKv (cell_kvs (mkLc (t_id t, N.of_nat oi) (b_num b) i out))) \/
       In o (map PutKv (map trow_kv (out_rows out (b_num b) i (N.of_nat oi) (t_id t)))))) \/
   (tx_matched st b i t = true /\ o = Put (KTxHash (t_id t)) (VInputs (t_inputs t)))).
Proof.
  intros st b L i t o HR. unfold tx_ops. rewrite !in_app_iff. apply or_iff2; [|apply or_iff2].
  - rewrite tx_inputs_ops_eq, in_concat_mapi. split.
    + intros [j [op [H1 H2]]]. rewrite N.add_0_l in H2.
      destruct (HR op (nth_error_In _ _ H1)) as [c [Hc1 Hc2]]. apply lookup_some in Hc1 as Hc3.
      exists j, op, c. split; auto. split; auto. eapply in_input_ops; eauto. tauto.
    + intros [j [op [c [H1 [H2 H3]]]]]. exists j, op. split; auto. rewrite N.add_0_l.
      destruct (HR op (nth_error_In _ _ H1)) as [c' [Hc1 Hc2]]. rewrite H2 in Hc1. inversion Hc1; subst c'.
      apply lookup_some in H2. eapply in_input_ops; eauto. tauto.
  - unfold tx_outputs_ops. rewrite in_concat_mapi. split; intros [j [x [H1 H2]]]; exists j, x; split; auto;
      rewrite N.add_0_l in *; apply in_output_ops; auto.
  - destruct (tx_matched st b i t); cbn [In]; intuition; discriminate.
Qed.

(* ---- facts about cell_kvs / trow_kv ----------------------------------------------------- *)
Lemma cell_kvs_live : forall c k v, In (k, v) (cell_kvs c) -> live_key k = true.
Proof.
  intros c k v H. unfold cell_kvs in H. destruct (o_type (lc_out c)); cbn [In] in H;
    intuition; match goal with H : _ = (k, v) |- _ => inversion H end; reflexivity.
Qed.
Lemma trow_kv_live : forall r, live_key (fst (trow_kv r)) = true.
Proof. intros [[] r]; reflexivity. Qed.
Lemma cell_kvs_not_trow : forall c k v r, In (k, v) (cell_kvs c) -> fst (trow_kv r) <> k.
Proof.
  intros c k v [[] r] H E; unfold cell_kvs in H; destruct (o_type (lc_out c)); cbn [In] in H;
    cbn in E; intuition; match goal with H : _ = (k, v) |- _ => inversion H end; congruence.
Qed.
Lemma cell_kvs_same_op : forall c c' k v, In (k, v) (cell_kvs c) -> In (k, v) (cell_kvs c') -> lc_op c = lc_op c'.
Proof.
  intros c c' k v H H'. unfold cell_kvs in *. destruct (lc_op c) as [a1 a2], (lc_op c') as [b1 b2].
  cbn [fst snd] in *.
  destruct (o_type (lc_out c)), (o_type (lc_out c')); cbn [In] in H, H';
    intuition; subst; try discriminate;
    match goal with H : (_, _) = (_, _) |- _ => inversion H end; congruence.
Qed.
Lemma cell_kvs_key_op : forall c c' k v v', In (k, v) (cell_kvs c) -> In (k, v') (cell_kvs c') ->
  fst (lc_op c) = fst (lc_op c') -> lc_op c = lc_op c'.
Proof.
  intros c c' k v v' H H' E. unfold cell_kvs in *. destruct (lc_op c) as [a1 a2], (lc_op c') as [b1 b2].
  cbn [fst snd] in *. subst b1.
  destruct (o_type (lc_out c)), (o_type (lc_out c')); cbn [In] in H, H';
    intuition; subst; try discriminate;
    match goal with H : (_, _) = (_, _) |- _ => inversion H end; congruence.
Qed.
Lemma cell_kvs_fun : forall c k v v', In (k, v) (cell_kvs c) -> In (k, v') (cell_kvs c) -> v = v'.
Proof.
  intros c k v v' H H'. unfold cell_kvs in *.
  destruct (o_type (lc_out c)); cbn [In] in H, H';
    intuition; subst; try discriminate;
    match goal with H : (_, _) = (_, _) |- _ => inversion H end; congruence.
Qed.
(* what a key of a cell says about the cell *)
Lemma cell_kvs_key_info : forall c k v, In (k, v) (cell_kvs c) ->
  match k with
  | KOutPoint op => op = lc_op c
  | KCellLock _ bn txi oi | KCellType _ bn txi oi => bn = lc_bn c /\ txi = lc_txi c /\ oi = snd (lc_op c)
  | _ => False end.
Proof.
  intros c k v H. unfold cell_kvs in H. destruct (o_type (lc_out c)); cbn [In] in H;
    intuition; match goal with H : _ = (k, v) |- _ => inversion H end; auto.
Qed.
Lemma trow_kv_key_info : forall r,
  match fst (trow_kv r) with
  | KTxLock _ bn txi ioi out | KTxType _ bn txi ioi out =>
      bn = tr_bn (snd r) /\ txi = tr_txi (snd r) /\ ioi = tr_ioi (snd r) /\ out = tr_out (snd r)
  | _ => False end.
Proof. intros [[] r]; cbn; auto. Qed.

Lemma nodup_map_inj_in : forall {A B} (f : A -> B) l x y, NoDup (map f l) -> In x l -> In y l -> f x = f y -> x = y.
Proof.
  induction l as [|a l IH]; intros x y H Hx Hy E; cbn in *. contradiction.
  inversion H; subst. destruct Hx as [Hx|Hx], Hy as [Hy|Hy]; subst; auto.
  - exfalso. apply H2. rewrite E. apply in_map. auto.
  - exfalso. apply H2. rewrite <- E. apply in_map. auto.
Qed.

Lemma rows_tx_tx : forall bn L i t r, In r (rows_tx bn L i t) -> tr_tx (snd r) = t_id t.
Proof.
  intros bn L i t r H. apply in_rows_tx in H.
  destruct H as [[ii [op [c [_ [_ H]]]]]|[oi [o [_ H]]]].
  - unfold cell_in_rows in H. destruct (o_type (lc_out c)); cbn [In] in H; intuition; subst; reflexivity.
  - unfold out_rows in H. destruct (o_type o); cbn [In] in H; intuition; subst; reflexivity.
Qed.

(* ---- one transaction of append ------------------------------------------------------------ *)
Section AppendTx.
  Variables (st0 st : store) (b : block) (L0 : list lcell) (T0 : list (bool * trow)) (ids0 : list N).
  Variables (pre : list tx) (t : tx).
  Let bn := b_num b.
  Let i := N.of_nat (length pre).
  Let L := PL bn L0 T0 pre.
  Let T := PT bn L0 T0 pre.
  Hypothesis Hbn : forall c, In c L0 -> lc_bn c < bn.
  Hypothesis HTbn : forall r, In r T0 -> tr_bn (snd r) < bn.
  Hypothesis Hid : forall c, In c L0 -> In (fst (lc_op c)) ids0.
  Hypothesis SF : SeqFacts bn L0 T0 ids0 pre.
  Hypothesis OK : tx_step_ok bn L0 T0 ids0 pre t.
  Hypothesis LI : LiveInv st L T.
  Hypothesis HR : forall op, In op (tx_ins i t) -> exists c, lookup_cell L op = Some c /\
      resolve st0 b op = RFound (lc_bn c) (lc_txi c) (lc_out c).

  Definition Cs (c : lcell) : Prop := exists ii op, nth_error (tx_ins i t) ii = Some op /\ lookup_cell L op = Some c.

  Lemma Cs_in : forall c, Cs c -> In c L /\ In (lc_op c) (tx_ins i t).
  Proof.
    intros c [ii [op [H1 H2]]]. apply lookup_some in H2. destruct H2 as [H2 H3]. split; auto.
    rewrite H3. eapply nth_error_In; eauto.
  Qed.
  Lemma in_Cs : forall c, In c L -> In (lc_op c) (tx_ins i t) -> Cs c.
  Proof.
    intros c H1 H2. apply In_nth_error in H2. destruct H2 as [ii H2]. exists ii, (lc_op c). split; auto.
    apply lookup_in_nodup; auto. apply (sf_nd _ _ _ _ _ SF).
  Qed.

  Lemma tx_ops_live : forall o,
    (In o (tx_ops st0 b i t) /\ live_key (bop_key o) = true) <->
    ((exists c, Cs c /\ In o (map DelK (cell_kvs c))) \/
     (exists c, In c (new_cells bn i t) /\ In o (map PutKv (cell_kvs c))) \/
     (exists r, In r (rows_tx bn L i t) /\ o = PutKv (trow_kv r))).
  Proof.
    intro o. rewrite (in_tx_ops st0 b L i t o HR). split.
    - intros [[[ii [op [c [H1 [H2 H3]]]]]|[[oi [out [H1 H2]]]|[_ H]]] Hl].
      + destruct H3 as [H3|[H3|H3]].
        * left. exists c. split; auto. exists ii, op. auto.
        * right. right. rewrite in_map_iff in H3. destruct H3 as [kv [E H3]].
          rewrite in_map_iff in H3. destruct H3 as [r [E' H3]]. exists r. split; [|subst; auto].
          apply in_rows_tx. left. exists ii, op, c. auto.
        * subst o. discriminate.
      + destruct H2 as [H2|H2].
        * right. left. eexists. split; [|exact H2]. apply in_new_cells. eauto.
        * right. right. rewrite in_map_iff in H2. destruct H2 as [kv [E H3]].
          rewrite in_map_iff in H3. destruct H3 as [r [E' H3]]. exists r. split; [|subst; auto].
          apply in_rows_tx. right. exists oi, out. auto.
      + subst o. discriminate.
    - intros [[c [[ii [op [H1 H2]]] H3]]|[[c [H1 H2]]|[r [H1 H2]]]].
      + split. left. exists ii, op, c. auto.
        apply in_map_iff in H3. destruct H3 as [[k v] [<- H3]]. eapply cell_kvs_live; eauto.
      + split. apply in_new_cells in H1. destruct H1 as [oi [out [H1 ->]]]. right. left. exists oi, out. auto.
        apply in_map_iff in H2. destruct H2 as [[k v] [<- H3]]. eapply cell_kvs_live; eauto.
      + split; [|subst o; apply trow_kv_live]. apply in_rows_tx in H1.
        destruct H1 as [[ii [op [c [H1 [H3 H4]]]]]|[oi [out [H1 H3]]]].
        * left. exists ii, op, c. split; auto. split; auto. right. left. subst o.
          apply in_map. apply in_map. auto.
        * right. left. exists oi, out. split; auto. right. subst o. apply in_map. apply in_map. auto.
  Qed.

  Lemma L_pos : forall c, In c L -> lc_bn c < bn \/ (lc_bn c = bn /\ lc_txi c < i).
  Proof. intros c H. apply (sf_origin _ _ _ _ _ SF) in H. eapply origin_pos; eauto. Qed.
  Lemma L_id : forall c, In c L -> fst (lc_op c) <> t_id t.
  Proof.
    intros c H E. destruct OK as [_ [_ N2]]. apply N2. rewrite <- E.
    apply (sf_origin _ _ _ _ _ SF) in H. eapply origin_id; eauto.
  Qed.
  Lemma T_pos : forall r, In r T -> tr_bn (snd r) < bn \/ (tr_bn (snd r) = bn /\ tr_txi (snd r) < i).
  Proof. intros r H. apply (sf_tpos _ _ _ _ _ SF) in H. destruct H as [H|H]; auto. Qed.

  Let ops := tx_ops st0 b i t.
  Lemma ops_D : forall c kv, Cs c -> In kv (cell_kvs c) -> In (Del (fst kv)) ops.
  Proof.
    intros c kv H1 H2. apply (proj2 (tx_ops_live (Del (fst kv)))). left. exists c. split; auto.
    apply in_map_iff. exists kv. auto.
  Qed.
  Lemma ops_PN : forall c kv, In c (new_cells bn i t) -> In kv (cell_kvs c) -> In (Put (fst kv) (snd kv)) ops.
  Proof.
    intros c kv H1 H2. apply (proj2 (tx_ops_live (Put (fst kv) (snd kv)))). right. left. exists c. split; auto.
    apply in_map_iff. exists kv. auto.
  Qed.
  Lemma ops_PR : forall r, In r (rows_tx bn L i t) -> In (Put (fst (trow_kv r)) (snd (trow_kv r))) ops.
  Proof.
    intros r H. apply (proj2 (tx_ops_live (Put (fst (trow_kv r)) (snd (trow_kv r))))). right. right. exists r. auto.
  Qed.
  Lemma ops_cls : forall o, In o ops -> live_key (bop_key o) = true ->
    (exists c kv, Cs c /\ In kv (cell_kvs c) /\ o = Del (fst kv)) \/
    (exists c kv, In c (new_cells bn i t) /\ In kv (cell_kvs c) /\ o = Put (fst kv) (snd kv)) \/
    (exists r, In r (rows_tx bn L i t) /\ o = Put (fst (trow_kv r)) (snd (trow_kv r))).
  Proof.
    intros o H1 H2. destruct (proj1 (tx_ops_live o) (conj H1 H2)) as [[c [HC HD]]|[[c [HC HP]]|[r [Hr E]]]].
    - left. apply in_map_iff in HD. destruct HD as [kv [E HD]]. exists c, kv. auto.
    - right. left. apply in_map_iff in HP. destruct HP as [kv [E HP]]. exists c, kv. auto.
    - right. right. exists r. auto.
  Qed.

  Lemma dis_old_new : forall c c' k v v', In c L -> In c' (new_cells bn i t) ->
    In (k, v) (cell_kvs c) -> In (k, v') (cell_kvs c') -> False.
  Proof.
    intros c c' k v v' H H' Hk Hk'. apply cell_kvs_key_info in Hk. apply cell_kvs_key_info in Hk'.
    apply in_new_cells in H'. destruct H' as [oi [out [_ ->]]]. cbn [lc_op lc_bn lc_txi snd] in Hk'.
    pose proof (L_pos c H) as P. pose proof (L_id c H) as I.
    destruct k; try contradiction.
    - apply I. rewrite <- Hk, Hk'. reflexivity.
    - lia.
    - lia.
  Qed.
  Lemma dis_rows : forall r r', In r T -> In r' (rows_tx bn L i t) -> fst (trow_kv r) = fst (trow_kv r') -> False.
  Proof.
    intros r r' H H' E. pose proof (trow_kv_key_info r) as K. pose proof (trow_kv_key_info r') as K'.
    rewrite E in K. apply T_pos in H. apply rows_tx_pos in H'.
    destruct (fst (trow_kv r')); try contradiction; lia.
  Qed.

  Lemma live_append_tx :
    LiveInv (commit st ops) (PL bn L0 T0 (pre ++ [t])) (PT bn L0 T0 (pre ++ [t])).
  Proof.
    rewrite PL_snoc, PT_snoc. fold i L T. unfold live_tx.
    apply live_inv_step with (L := L) (T := T); auto.
    - intros k o o' Hk Ho Ho' Ek Ek'.
      destruct (ops_cls o Ho) as [[c [kv [HC [Hkv ->]]]]|[[c [kv [HC [Hkv ->]]]]|[r [Hr ->]]]]; [rewrite Ek; auto| | |];
      (destruct (ops_cls o' Ho') as [[c' [kv' [HC' [Hkv' ->]]]]|[[c' [kv' [HC' [Hkv' ->]]]]|[r' [Hr' ->]]]]; [rewrite Ek'; auto| | |]);
      cbn [bop_key bop_res] in *; try reflexivity; try destruct kv as [k1 v1]; try destruct kv' as [k2 v2];
        cbn [fst snd] in *; subst.
      + exfalso. apply Cs_in in HC. eapply dis_old_new; [apply HC|apply HC'|apply Hkv|apply Hkv'].
      + exfalso. eapply cell_kvs_not_trow; eauto.
      + exfalso. apply Cs_in in HC'. eapply dis_old_new; [apply HC'|apply HC|apply Hkv'|apply Hkv].
      + f_equal. assert (c = c').
        { apply (nodup_map_inj_in lc_op (new_cells bn i t)); auto. apply new_cells_nodup.
          eapply cell_kvs_key_op; eauto.
          apply in_new_cells in HC. apply in_new_cells in HC'.
          destruct HC as [? [? [_ ->]]]. destruct HC' as [? [? [_ ->]]]. reflexivity. }
        subst c'. eapply cell_kvs_fun; eauto.
      + exfalso. eapply cell_kvs_not_trow; eauto.
      + exfalso. eapply cell_kvs_not_trow; eauto.
      + exfalso. eapply cell_kvs_not_trow; eauto.
      + f_equal. unfold trow_kv. cbn [snd]. rewrite (rows_tx_tx _ _ _ _ _ Hr), (rows_tx_tx _ _ _ _ _ Hr'). reflexivity.
    - intros k v Hk. rewrite in_live_kvs. split.
      + intros [[c [Hc Hkv]]|[r [Er Hr]]].
        * apply in_app_or in Hc. destruct Hc as [Hc|Hc].
          -- apply in_fold_spend in Hc. destruct Hc as [Hc1 Hc2]. right. split.
             ++ intro HI. apply in_map_iff in HI. destruct HI as [o [Eo Ho]].
                destruct (ops_cls o Ho) as [[c' [kv [HC [Hkv' ->]]]]|[[c' [kv [HC [Hkv' ->]]]]|[r [Hr ->]]]];
                  [rewrite Eo; auto| | |]; cbn [bop_key] in Eo; try destruct kv as [k1 v1]; cbn [fst] in Eo; subst.
                ** apply Cs_in in HC as HC2. destruct HC2 as [HC2 HC3].
                   assert (v1 = v).
                   { assert (G1 : get st k = Some v1). { apply LI; auto. apply in_live_kvs. left. eauto. }
                     assert (G2 : get st k = Some v). { apply LI; auto. apply in_live_kvs. left. eauto. }
                     congruence. }
                   subst v1. apply Hc2. rewrite (cell_kvs_same_op c c' k v); auto.
                ** eapply dis_old_new; [apply Hc1|apply HC|apply Hkv|apply Hkv'].
                ** eapply cell_kvs_not_trow; eauto.
             ++ apply in_live_kvs. left. eauto.
          -- left. apply (ops_PN c (k, v)); auto.
        * apply in_app_or in Hr. destruct Hr as [Hr|Hr].
          -- right. split.
             ++ intro HI. apply in_map_iff in HI. destruct HI as [o [Eo Ho]].
                assert (Ek : fst (trow_kv r) = k) by (rewrite Er; reflexivity).
                destruct (ops_cls o Ho) as [[c' [kv [HC [Hkv' ->]]]]|[[c' [kv [HC [Hkv' ->]]]]|[r' [Hr' ->]]]];
                  [rewrite Eo; auto| | |]; cbn [bop_key] in Eo; try destruct kv as [k1 v1]; cbn [fst] in Eo; subst.
                ** eapply cell_kvs_not_trow; eauto.
                ** eapply cell_kvs_not_trow; eauto.
                ** eapply dis_rows; eauto.
             ++ apply in_live_kvs. right. eauto.
          -- left. pose proof (ops_PR r Hr) as P. rewrite Er in P. exact P.
      + intros [HP|[Hn HI]].
        * destruct (ops_cls _ HP Hk) as [[c' [kv [HC [Hkv' E]]]]|[[c' [kv [HC [Hkv' E]]]]|[r [Hr E]]]].
          -- discriminate.
          -- injection E as E1 E2. left. exists c'. split. apply in_or_app; auto.
             rewrite (surjective_pairing kv) in Hkv'. congruence.
          -- injection E as E1 E2. right. exists r. split; [|apply in_or_app; auto].
             subst k v. reflexivity.
        * apply in_live_kvs in HI. destruct HI as [[c [Hc Hkv]]|[r [Er Hr]]].
          -- left. exists c. split; auto. apply in_or_app. left. apply in_fold_spend. split; auto.
             intro Hin. apply Hn. apply in_map_iff. exists (Del k). split; auto.
             apply (ops_D c (k, v)); auto. apply in_Cs; auto.
          -- right. exists r. split; auto. apply in_or_app; auto.
  Qed.
End AppendTx.

Lemma live_inv_aux_ops : forall st L T ops, LiveInv st L T ->
  (forall o, In o ops -> live_key (bop_key o) = false) -> LiveInv (commit st ops) L T.
Proof.
  intros st L T ops LI H k v Hk. rewrite get_commit. rewrite last_op_not_in. apply LI; auto.
  intro HI. apply in_map_iff in HI. destruct HI as [o [E HI]]. apply H in HI. congruence.
Qed.

Lemma find_tx_nth : forall l j t k, NoDup (map t_id l) -> nth_error l j = Some t ->
  find_tx (t_id t) k l = Some (k + N.of_nat j, t).
Proof.
  induction l as [|a l IH]; intros j t k ND H. destruct j; discriminate.
  cbn [map] in ND. inversion ND; subst. destruct j; cbn [nth_error find_tx] in *.
  - inversion H; subst. rewrite N.eqb_refl. do 2 f_equal. lia.
  - destruct (N.eqb_spec (t_id a) (t_id t)) as [E|E].
    + exfalso. apply H2. rewrite E. apply in_map. eapply nth_error_In; eauto.
    + rewrite (IH j t (N.succ k)); auto. do 2 f_equal. lia.
Qed.

(* ---- the rollback data ------------------------------------------------------------------------ *)
Definition smatched (i : N) (t : tx) : bool :=
  (N.ltb 0 i && negb (match t_inputs t with [] => true | _ => false end))
  || negb (match t_outputs t with [] => true | _ => false end).
Definition smatched_txs (b : block) : list (N * N * N) :=
  concat (mapi (fun txi t => if smatched txi t
                             then [(t_id t, N.of_nat (length (t_outputs t)), txi)] else [])
               0 (b_txs b)).
Definition sflag (b : block) : bool := negb (Nat.eqb (length (smatched_txs b)) (length (b_txs b))).
Definition hdr_key (b : block) : key := KHeader (b_num b) (b_id b) (sflag b).
Definition hdr_val (b : block) : value := VTxs (smatched_txs b).


Lemma existsb_all_true : forall {A} (f : A -> bool) l, (forall x, In x l -> f x = true) ->
  existsb f l = negb (match l with [] => true | _ => false end).
Proof. intros A f [|a l] H; cbn; auto. rewrite H; cbn; auto. Qed.

Lemma tx_matched_ok : forall st b i t,
  (forall op, In op (tx_ins i t) -> is_found (resolve st b op) = true) ->
  tx_matched st b i t = smatched i t.
Proof.
  intros st b i t H. unfold tx_matched, smatched, tx_ins in *. destruct (0 <? i); cbn [andb]; auto.
  rewrite existsb_all_true; auto.
Qed.

Lemma app_eq_len : forall {A} (a a' x x' : list A), a ++ x = a' ++ x' -> length a = length a' -> a = a'.
Proof.
  induction a as [|y a IH]; intros [|y' a'] x x' E H; cbn in *; try discriminate; auto.
  inversion E; subst. f_equal. eapply IH; eauto.
Qed.

(* ---- all transactions of a block ------------------------------------------------------------- *)
Section AppendBlock.
  Variables (st0 : store) (b : block) (L0 : list lcell) (T0 : list (bool * trow)) (ids0 : list N).
  Let bn := b_num b.
  Hypothesis HND : NoDup (map lc_op L0).
  Hypothesis Hbn : forall c, In c L0 -> lc_bn c < bn.
  Hypothesis Hid : forall c, In c L0 -> In (fst (lc_op c)) ids0.
  Hypothesis HTbn : forall r, In r T0 -> tr_bn (snd r) < bn.
  Hypothesis HTND : NoDup T0.
  Hypothesis POK : pre_ok bn L0 ids0 (b_txs b).
  Hypothesis LI0 : LiveInv st0 L0 T0.

  Lemma prefix_facts : forall pre rest, b_txs b = pre ++ rest -> SeqFacts bn L0 T0 ids0 pre.
  Proof.
    intros pre rest E. apply seq_facts; auto. rewrite E in POK. eapply pre_ok_prefix; eauto.
  Qed.
  Lemma prefix_step_ok : forall pre t rest, b_txs b = pre ++ t :: rest -> tx_step_ok bn L0 T0 ids0 pre t.
  Proof.
    intros pre t rest E. assert (P : pre_ok bn L0 ids0 (pre ++ [t])).
    { rewrite E in POK. replace (pre ++ t :: rest) with ((pre ++ [t]) ++ rest) in POK by (rewrite <- app_assoc; reflexivity).
      eapply pre_ok_prefix; eauto. }
    destruct (pre_ok_snoc bn L0 T0 ids0 pre t P) as [_ H]. exact H.
  Qed.

  Lemma resolve_ok : forall pre rest op c, b_txs b = pre ++ rest ->
    lookup_cell (PL bn L0 T0 pre) op = Some c ->
    resolve st0 b op = RFound (lc_bn c) (lc_txi c) (lc_out c).
  Proof.
    intros pre rest op c E H. pose proof (prefix_facts pre rest E) as SF.
    apply lookup_some in H. destruct H as [H <-]. apply (sf_origin _ _ _ _ _ SF) in H.
    unfold resolve. destruct H as [H|[j [t [H1 H2]]]].
    - assert (G : get st0 (KOutPoint (lc_op c)) = Some (VCell (lc_bn c) (lc_txi c) (lc_out c))).
      { apply LI0; auto. apply in_live_kvs. left. exists c. split; auto. left. reflexivity. }
      rewrite G. reflexivity.
    - assert (Ht : nth_error (b_txs b) j = Some t).
      { rewrite E. rewrite nth_error_app1; auto. apply nth_error_Some. congruence. }
      apply in_new_cells in H2. destruct H2 as [oi [o [H2 ->]]]. cbn [lc_op lc_bn lc_txi lc_out fst snd].
      destruct (get st0 (KOutPoint (t_id t, N.of_nat oi))) as [v|] eqn:G.
      + exfalso. apply LI0 in G; auto. apply in_live_kvs in G. destruct G as [[c0 [G1 G2]]|[r [G1 G2]]].
        * apply cell_kvs_key_info in G2. destruct POK as [_ [_ F]]. apply (F t).
          eapply nth_error_In; eauto. apply Hid in G1. rewrite <- G2 in G1. exact G1.
        * pose proof (trow_kv_key_info r) as K. rewrite G1 in K. exact K.
      + destruct POK as [_ [ND _]]. rewrite (find_tx_nth _ _ _ 0 ND Ht).
        rewrite Nat2N.id, H2. rewrite N.add_0_l. reflexivity.
  Qed.

  Lemma prefix_resolves : forall pre t rest, b_txs b = pre ++ t :: rest ->
    forall op, In op (tx_ins (N.of_nat (length pre)) t) ->
    exists c, lookup_cell (PL bn L0 T0 pre) op = Some c /\
              resolve st0 b op = RFound (lc_bn c) (lc_txi c) (lc_out c).
  Proof.
    intros pre t rest E op Hop. destruct (prefix_step_ok pre t rest E) as [R _].
    destruct (R op Hop) as [c Hc]. exists c. split; auto. eapply resolve_ok; eauto.
  Qed.

  Lemma live_append_txs : forall pre rest, b_txs b = pre ++ rest ->
    LiveInv (commit st0 (concat (mapi (tx_ops st0 b) 0 pre))) (PL bn L0 T0 pre) (PT bn L0 T0 pre).
  Proof.
    induction pre as [|t pre IH] using rev_ind; intros rest E.
    - exact LI0.
    - rewrite <- app_assoc in E. cbn [app] in E.
      rewrite mapi_app, concat_app, commit_app. cbn [mapi concat]. rewrite app_nil_r, N.add_0_l.
      eapply live_append_tx; eauto.
      + eapply prefix_facts; eauto.
      + eapply prefix_step_ok; eauto.
      + eapply prefix_resolves; eauto.
  Qed.

  Lemma live_append_noprune :
    LiveInv (append_noprune st0 b) (PL bn L0 T0 (b_txs b)) (PT bn L0 T0 (b_txs b)).
  Proof.
    unfold append_noprune, append_ops. rewrite commit_app. apply live_inv_aux_ops.
    - apply (live_append_txs (b_txs b) []). rewrite app_nil_r. reflexivity.
    - intros o [<-|[]]. reflexivity.
  Qed.
  Lemma in_append_ops : forall o,
    In o (append_ops st0 b) <->
    (exists j t, nth_error (b_txs b) j = Some t /\ In o (tx_ops st0 b (N.of_nat j) t)) \/ o = header_op st0 b.
  Proof.
    intro o. unfold append_ops. rewrite in_app_iff, in_concat_mapi. cbn [In]. apply or_iff2.
    - split; intros [j [t [H1 H2]]]; exists j, t; rewrite N.add_0_l in *; auto.
    - split; [intros [H|[]]|]; auto.
  Qed.

  Lemma tx_matched_block : forall j t, nth_error (b_txs b) j = Some t ->
    tx_matched st0 b (N.of_nat j) t = smatched (N.of_nat j) t.
  Proof.
    intros j t H. apply nth_error_split in H. destruct H as [pre [post [E <-]]].
    apply tx_matched_ok. intros op Hop. destruct (prefix_resolves pre t post E op Hop) as [c [_ R]].
    rewrite R. reflexivity.
  Qed.
  Lemma matched_txs_ok : matched_txs st0 b = smatched_txs b.
  Proof.
    unfold matched_txs, smatched_txs. f_equal. apply mapi_ext_in. intros j t H.
    rewrite N.add_0_l, tx_matched_block; auto.
  Qed.
  Lemma header_op_ok : header_op st0 b = Put (hdr_key b) (hdr_val b).
  Proof. unfold header_op. rewrite matched_txs_ok. reflexivity. Qed.

  Lemma append_ops_aux : forall o, In o (append_ops st0 b) -> live_key (bop_key o) = false ->
    (exists pre t post op c, b_txs b = pre ++ t :: post /\ In op (tx_ins (N.of_nat (length pre)) t) /\
        lookup_cell (PL bn L0 T0 pre) op = Some c /\
        o = Put (KConsumed bn op) (VCell (lc_bn c) (lc_txi c) (lc_out c))) \/
    (exists j t, nth_error (b_txs b) j = Some t /\ smatched (N.of_nat j) t = true /\
        o = Put (KTxHash (t_id t)) (VInputs (t_inputs t))) \/
    o = Put (hdr_key b) (hdr_val b).
  Proof.
    intros o H Hl. apply in_append_ops in H. destruct H as [[j [t [H1 H2]]]|H].
    - pose proof H1 as H1'. apply nth_error_split in H1. destruct H1 as [pre [post [E <-]]].
      rewrite (in_tx_ops st0 b (PL bn L0 T0 pre) _ t o (prefix_resolves pre t post E)) in H2.
      destruct H2 as [[ii [op [c [G1 [G2 G3]]]]]|[[oi [out [G1 G2]]]|[G1 G2]]].
      + destruct G3 as [G3|[G3|G3]].
        * exfalso. apply in_map_iff in G3. destruct G3 as [[k v] [<- G3]]. apply cell_kvs_live in G3.
          cbn in Hl. congruence.
        * exfalso. apply in_map_iff in G3. destruct G3 as [kv [<- G3]]. apply in_map_iff in G3.
          destruct G3 as [r [<- G3]]. cbn [PutKv bop_key] in Hl. rewrite trow_kv_live in Hl. discriminate.
        * left. exists pre, t, post, op, c. split; auto. split; auto. eapply nth_error_In; eauto.
      + exfalso. destruct G2 as [G2|G2].
        * apply in_map_iff in G2. destruct G2 as [[k v] [<- G3]]. apply cell_kvs_live in G3.
          cbn in Hl. congruence.
        * apply in_map_iff in G2. destruct G2 as [kv [<- G3]]. apply in_map_iff in G3.
          destruct G3 as [r [<- G3]]. cbn [PutKv bop_key] in Hl. rewrite trow_kv_live in Hl. discriminate.
      + right. left. exists (length pre), t. rewrite tx_matched_block in G1; auto.
    - right. right. rewrite <- header_op_ok. auto.
  Qed.

  Lemma append_ops_consumed : forall pre t post op c, b_txs b = pre ++ t :: post ->
    In op (tx_ins (N.of_nat (length pre)) t) -> lookup_cell (PL bn L0 T0 pre) op = Some c ->
    In (Put (KConsumed bn op) (VCell (lc_bn c) (lc_txi c) (lc_out c))) (append_ops st0 b).
  Proof.
    intros pre t post op c E Hop Hc. apply in_append_ops. left. exists (length pre), t. split.
    - rewrite E. apply nth_error_app_mid.
    - apply (in_tx_ops st0 b (PL bn L0 T0 pre) _ t _ (prefix_resolves pre t post E)).
      left. apply In_nth_error in Hop. destruct Hop as [ii Hop]. exists ii, op, c. auto.
  Qed.
  Lemma append_ops_txhash : forall j t, nth_error (b_txs b) j = Some t -> smatched (N.of_nat j) t = true ->
    In (Put (KTxHash (t_id t)) (VInputs (t_inputs t))) (append_ops st0 b).
  Proof.
    intros j t H M. apply in_append_ops. left. exists j, t. split; auto.
    unfold tx_ops. rewrite !in_app_iff. right. right. rewrite tx_matched_block, M; auto. left. auto.
  Qed.
  Lemma append_ops_header : In (Put (hdr_key b) (hdr_val b)) (append_ops st0 b).
  Proof. apply in_append_ops. right. symmetry. apply header_op_ok. Qed.

  Lemma consumed_unique : forall pre t post pre' t' post' op c c',
    b_txs b = pre ++ t :: post -> b_txs b = pre' ++ t' :: post' ->
    In op (tx_ins (N.of_nat (length pre)) t) -> In op (tx_ins (N.of_nat (length pre')) t') ->
    lookup_cell (PL bn L0 T0 pre) op = Some c -> lookup_cell (PL bn L0 T0 pre') op = Some c' -> c = c'.
  Proof.
    assert (W : forall pre t post pre' t' post' op c',
      b_txs b = pre ++ t :: post -> b_txs b = pre' ++ t' :: post' ->
      In op (tx_ins (N.of_nat (length pre)) t) ->
      lookup_cell (PL bn L0 T0 pre') op = Some c' -> (length pre < length pre')%nat -> False).
    { intros pre t post pre' t' post' op c' E E' Hop Hc' Hlt.
      pose proof (prefix_facts pre' (t' :: post') E') as SF. apply lookup_some in Hc'. destruct Hc' as [Hc' <-].
      apply (sf_unspent _ _ _ _ _ SF c' Hc'). exists (length pre), t. split; auto.
      assert (nth_error (b_txs b) (length pre) = Some t) by (rewrite E; apply nth_error_app_mid).
      rewrite E' in H. rewrite nth_error_app1 in H; auto. }
    intros pre t post pre' t' post' op c c' E E' Hop Hop' Hc Hc'.
    destruct (Nat.lt_trichotomy (length pre) (length pre')) as [H|[H|H]].
    - exfalso. eapply (W pre t post pre' t' post'); eauto.
    - assert (pre = pre').
      { rewrite E in E'. eapply app_eq_len; eauto. }
      subst pre'. congruence.
    - exfalso. eapply (W pre' t' post' pre t post); eauto.
  Qed.
End AppendBlock.

Record AuxInv (st : store) (ch : list block) (fl : N) : Prop := {
  ax_hdr_sound : forall n id f v, get st (KHeader n id f) = Some v ->
      exists chp B rest, ch = chp ++ B :: rest /\ KHeader n id f = hdr_key B /\ v = hdr_val B;
  ax_hdr_complete : forall chp B rest, ch = chp ++ B :: rest -> fl <= b_num B ->
      get st (hdr_key B) = Some (hdr_val B);
  ax_txhash : forall chp B rest j t, ch = chp ++ B :: rest -> fl <= b_num B ->
      nth_error (b_txs B) j = Some t -> smatched (N.of_nat j) t = true ->
      get st (KTxHash (t_id t)) = Some (VInputs (t_inputs t));
  ax_consumed : forall chp B rest pre t post op c, ch = chp ++ B :: rest -> fl <= b_num B ->
      b_txs B = pre ++ t :: post -> In op (tx_ins (N.of_nat (length pre)) t) ->
      lookup_cell (PL (b_num B) (live chp) (txs chp) pre) op = Some c ->
      get st (KConsumed (b_num B) op) = Some (VCell (lc_bn c) (lc_txi c) (lc_out c)) }.

Record Inv (s : istate) : Prop := {
  inv_chain : chain_ok (ix_chain s);
  inv_wf : wf_store (ix_store s);
  inv_live : LiveInv (ix_store s) (live (ix_chain s)) (txs (ix_chain s));
  inv_aux : AuxInv (ix_store s) (ix_chain s) (ix_floor s);
  inv_floor : ix_floor s <= N.pred (N.of_nat (length (ix_chain s))) }.

Lemma get_commit_cases : forall st ops k,
  (~ In k (map bop_key ops) /\ get (commit st ops) k = get st k) \/
  (exists o, In o ops /\ bop_key o = k /\ get (commit st ops) k = bop_res o).
Proof.
  intros. rewrite get_commit. destruct (last_op ops k) as [r|] eqn:E.
  - right. apply last_op_in in E. destruct E as [o [H1 [H2 H3]]]. exists o. auto.
  - left. apply last_op_none_iff in E. auto.
Qed.
Lemma get_commit_fun : forall st ops k o, In o ops -> bop_key o = k ->
  (forall o', In o' ops -> bop_key o' = k -> bop_res o' = bop_res o) ->
  get (commit st ops) k = bop_res o.
Proof. intros. rewrite get_commit. erewrite last_op_fun; eauto. Qed.
Lemma get_commit_other : forall st ops k, ~ In k (map bop_key ops) -> get (commit st ops) k = get st k.
Proof. intros. rewrite get_commit, last_op_not_in; auto. Qed.

Lemma snoc_decomp : forall {A} (ch : list A) b chp B rest, ch ++ [b] = chp ++ B :: rest ->
  (rest = [] /\ chp = ch /\ B = b) \/ (exists rest', rest = rest' ++ [b] /\ ch = chp ++ B :: rest').
Proof.
  intros A ch b chp B rest E. destruct (exists_last (l := B :: rest)) as [l' [a E']]. discriminate.
  rewrite E' in E. rewrite app_assoc in E. apply app_inj_tail in E. destruct E as [E1 E2]. subst a.
  destruct rest as [|x rest].
  - left. destruct l'; [|destruct l'; discriminate]. inversion E'; subst. rewrite app_nil_r. auto.
  - right. destruct l' as [|y l']. discriminate. inversion E'; subst y.
    exists l'. split; auto.
Qed.
Lemma decomp_num : forall ch chp B rest, ChainFacts ch -> ch = chp ++ B :: rest ->
  b_num B = N.of_nat (length chp) /\ (length chp < length ch)%nat.
Proof.
  intros ch chp B rest F E. split.
  - apply (cf_num _ F). rewrite E. apply nth_error_app_mid.
  - rewrite E, app_length. cbn. lia.
Qed.

Lemma in_chain_ids : forall ch chp B rest j t, ch = chp ++ B :: rest -> nth_error (b_txs B) j = Some t ->
  In (t_id t) (chain_tx_ids ch).
Proof.
  intros ch chp B rest j t E H. unfold chain_tx_ids. apply in_flat_map. exists B. split.
  - rewrite E. apply in_or_app. right. left. reflexivity.
  - apply in_map. eapply nth_error_In; eauto.
Qed.

(* ---- append without prune preserves the invariant ----------------------------------------------- *)
Section AppendInv.
  Variables (s : istate) (b : block).
  Hypothesis HI : Inv s.
  Hypothesis HB : block_ok (ix_chain s) b = true.
  Let st := ix_store s.
  Let ch := ix_chain s.
  Let fl := ix_floor s.
  Let F : ChainFacts ch := chain_facts _ (inv_chain _ HI).
  Let Hnum : b_num b = N.of_nat (length ch) := proj1 (block_ok_parts _ _ HB).
  Let cND : NoDup (map lc_op (live ch)) := cf_nd _ F.
  Let cid : forall c, In c (live ch) -> In (fst (lc_op c)) (chain_tx_ids ch) := cf_id _ F.
  Let cTND : NoDup (txs ch) := cf_tnd _ F.
  Let cPOK : pre_ok (b_num b) (live ch) (chain_tx_ids ch) (b_txs b) := proj2 (proj2 (block_ok_parts _ _ HB)).
  Let cLI : LiveInv st (live ch) (txs ch) := inv_live _ HI.
  Lemma cbn_ : forall c, In c (live ch) -> lc_bn c < b_num b.
  Proof. intros c H. rewrite Hnum. apply (cf_bn _ F). auto. Qed.
  Lemma cTbn : forall r, In r (txs ch) -> tr_bn (snd r) < b_num b.
  Proof. intros r H. rewrite Hnum. apply (cf_tbn _ F). auto. Qed.
  Let ops := append_ops st b.
  Let st' := append_noprune st b.

  Lemma A_cls : forall o, In o ops -> live_key (bop_key o) = false ->
    (exists pre t post op c, b_txs b = pre ++ t :: post /\ In op (tx_ins (N.of_nat (length pre)) t) /\
        lookup_cell (PL (b_num b) (live ch) (txs ch) pre) op = Some c /\
        o = Put (KConsumed (b_num b) op) (VCell (lc_bn c) (lc_txi c) (lc_out c))) \/
    (exists j t, nth_error (b_txs b) j = Some t /\ smatched (N.of_nat j) t = true /\
        o = Put (KTxHash (t_id t)) (VInputs (t_inputs t))) \/
    o = Put (hdr_key b) (hdr_val b).
  Proof.
    intros o H1 H2. pose proof cbn_. pose proof cTbn.
    eapply (append_ops_aux st b (live ch) (txs ch) (chain_tx_ids ch)); eauto.
  Qed.

  Lemma inv_append_live : LiveInv st' (live (ch ++ [b])) (txs (ch ++ [b])).
  Proof.
    rewrite live_snoc, txs_snoc. pose proof cbn_. pose proof cTbn.
    eapply (live_append_noprune st b (live ch) (txs ch) (chain_tx_ids ch)); eauto.
  Qed.

  Lemma inv_append_aux : AuxInv st' (ch ++ [b]) fl.
  Proof.
    pose proof cbn_ as Hbn. pose proof cTbn as HTbn. constructor.
    - intros n id f v G. unfold st', append_noprune in G. fold ops in G.
      destruct (get_commit_cases st ops (KHeader n id f)) as [[_ E]|[o [H1 [H2 E]]]]; rewrite E in G.
      + apply (ax_hdr_sound _ _ _ (inv_aux _ HI)) in G. destruct G as [chp [B [rest [G1 G2]]]].
        exists chp, B, (rest ++ [b]). split; auto. fold ch in G1. rewrite G1, <- app_assoc. reflexivity.
      + destruct (A_cls o H1) as [[pre [t [post [op [c [_ [_ [_ ->]]]]]]]]|[[j [t [_ [_ ->]]]]| ->]];
          [rewrite H2; reflexivity| | |]; try discriminate.
        exists ch, b, []. cbn [bop_key bop_res] in *. split; auto. split; congruence.
    - intros chp B rest E Hfl. apply snoc_decomp in E. destruct E as [[-> [-> ->]]|[rest' [-> E]]].
      + unfold st', append_noprune. fold ops.
        rewrite (get_commit_fun st ops (hdr_key b) (Put (hdr_key b) (hdr_val b))); auto.
        * eapply (append_ops_header st b (live ch) (txs ch) (chain_tx_ids ch)); eauto.
        * intros o' H1 H2.
          destruct (A_cls o' H1) as [[pre [t [post [op [c [_ [_ [_ ->]]]]]]]]|[[j [t [_ [_ ->]]]]| ->]];
            [rewrite H2; reflexivity| | |]; try discriminate. reflexivity.
      + unfold st', append_noprune. fold ops. rewrite get_commit_other.
        * eapply (ax_hdr_complete _ _ _ (inv_aux _ HI)); eauto.
        * intro HIn. apply in_map_iff in HIn. destruct HIn as [o [H2 H1]].
          destruct (A_cls o H1) as [[pre [t [post [op [c [_ [_ [_ ->]]]]]]]]|[[j [t [_ [_ ->]]]]| ->]];
            [rewrite H2; reflexivity| | |]; try discriminate.
          cbn [bop_key] in H2. inversion H2. destruct (decomp_num ch chp B rest' F E). lia.
    - intros chp B rest j t E Hfl Hj Hm. apply snoc_decomp in E. destruct E as [[-> [-> ->]]|[rest' [-> E]]].
      + unfold st', append_noprune. fold ops.
        rewrite (get_commit_fun st ops (KTxHash (t_id t)) (Put (KTxHash (t_id t)) (VInputs (t_inputs t)))); auto.
        * eapply (append_ops_txhash st b (live ch) (txs ch) (chain_tx_ids ch)); eauto.
        * intros o' H1 H2.
          destruct (A_cls o' H1) as [[pre [t' [post [op [c [_ [_ [_ ->]]]]]]]]|[[j' [t' [G1 [_ ->]]]]| ->]];
            [rewrite H2; reflexivity| | |]; try discriminate.
          cbn [bop_key bop_res] in *. inversion H2. destruct cPOK as [_ [ND _]].
          assert (t' = t).
          { apply (nodup_map_inj_in t_id (b_txs b)); auto; eapply nth_error_In; eauto. }
          subst; reflexivity.
      + unfold st', append_noprune. fold ops. rewrite get_commit_other.
        * eapply (ax_txhash _ _ _ (inv_aux _ HI)); eauto.
        * intro HIn. apply in_map_iff in HIn. destruct HIn as [o [H2 H1]].
          destruct (A_cls o H1) as [[pre [t' [post [op [c [_ [_ [_ ->]]]]]]]]|[[j' [t' [G1 [_ ->]]]]| ->]];
            [rewrite H2; reflexivity| | |]; try discriminate.
          cbn [bop_key] in H2. inversion H2. destruct cPOK as [_ [_ Fr]]. apply (Fr t').
          eapply nth_error_In; eauto. rewrite H0. eapply in_chain_ids; eauto.
    - intros chp B rest pre t post op c E Hfl Et Hop Hc. apply snoc_decomp in E.
      destruct E as [[-> [-> ->]]|[rest' [-> E]]].
      + unfold st', append_noprune. fold ops.
        rewrite (get_commit_fun st ops (KConsumed (b_num b) op)
                   (Put (KConsumed (b_num b) op) (VCell (lc_bn c) (lc_txi c) (lc_out c)))); auto.
        * eapply (append_ops_consumed st b (live ch) (txs ch) (chain_tx_ids ch)); eauto.
        * intros o' H1 H2.
          destruct (A_cls o' H1) as [[pre' [t' [post' [op' [c' [G1 [G2 [G3 ->]]]]]]]]|[[j' [t' [G1 [_ ->]]]]| ->]];
            [rewrite H2; reflexivity| | |]; try discriminate.
          cbn [bop_key bop_res] in *. inversion H2. subst op'.
          assert (c' = c).
          { eapply (consumed_unique b (live ch) (txs ch) (chain_tx_ids ch)) with (pre := pre') (t := t') (post := post') (pre' := pre) (t' := t) (post' := post) (op := op); eauto. }
          subst; reflexivity.
      + unfold st', append_noprune. fold ops. rewrite get_commit_other.
        * eapply (ax_consumed _ _ _ (inv_aux _ HI)); eauto.
        * intro HIn. apply in_map_iff in HIn. destruct HIn as [o [H2 H1]].
          destruct (A_cls o H1) as [[pre' [t' [post' [op' [c' [G1 [G2 [G3 ->]]]]]]]]|[[j' [t' [G1 [_ ->]]]]| ->]];
            [rewrite H2; reflexivity| | |]; try discriminate.
          cbn [bop_key] in H2. inversion H2. destruct (decomp_num ch chp B rest' F E). lia.
  Qed.

  Lemma inv_append_noprune : Inv (mkIx st' (ch ++ [b]) fl).
  Proof.
    constructor; cbn [ix_store ix_chain ix_floor].
    - constructor; auto. apply (inv_chain _ HI).
    - apply wf_commit. apply (inv_wf _ HI).
    - apply inv_append_live.
    - apply inv_append_aux.
    - pose proof (inv_floor _ HI) as H. fold fl ch in H. rewrite app_length. cbn [length]. lia.
  Qed.
End AppendInv.

(* ---- tip ------------------------------------------------------------------------------------------ *)
Lemma chain_tip_snoc : forall ch b, chain_tip (ch ++ [b]) = Some (b_num b, b_id b).
Proof. intros. unfold chain_tip. rewrite rev_unit. reflexivity. Qed.

Lemma inv_tip_entry : forall s ch0 bl, Inv s -> ix_chain s = ch0 ++ [bl] ->
  tip_entry (ix_store s) None = Some (b_num bl, b_id bl, sflag bl, smatched_txs bl).
Proof.
  intros s ch0 bl HI E. pose proof (chain_facts _ (inv_chain _ HI)) as F.
  pose proof (inv_aux _ HI) as AX. pose proof (inv_floor _ HI) as FL.
  destruct (decomp_num _ ch0 bl [] F E) as [Hn _].
  apply tip_entry_max; auto.
  - intros n' i' f' v' HIn. apply in_get in HIn; [|apply (inv_wf _ HI)].
    apply (ax_hdr_sound _ _ _ AX) in HIn. destruct HIn as [chp [B [rest [G1 [G2 G3]]]]].
    rewrite E in G1. apply snoc_decomp in G1. destruct G1 as [[-> [-> ->]]|[rest' [-> G1]]].
    + left. inversion G2. subst. reflexivity.
    + right. inversion G2. subst n' i' f'. destruct (decomp_num _ chp B rest' (chain_facts _ (chain_ok_removelast _ (inv_chain _ HI)))) as [Hn' Hl].
      { rewrite E, removelast_last. exact G1. }
      rewrite E, removelast_last in Hl. unfold hdr_lt.
      assert (b_num B <? b_num bl = true) as ->; [|reflexivity]. apply N.ltb_lt. lia.
  - right. exists (hdr_val bl). split; [|reflexivity]. apply get_in.
    apply (ax_hdr_complete _ _ _ AX ch0 bl []); auto. rewrite E, app_length in FL. cbn [length] in FL. lia.
Qed.

Lemma inv_tip : forall s, Inv s -> tip (ix_store s) = chain_tip (ix_chain s).
Proof.
  intros s HI. destruct (ix_chain s) as [|x l] eqn:E using rev_ind.
  - unfold tip. rewrite tip_entry_none. reflexivity.
    intros n i f v HIn. apply in_get in HIn; [|apply (inv_wf _ HI)].
    apply (ax_hdr_sound _ _ _ (inv_aux _ HI)) in HIn. destruct HIn as [chp [B [rest [G1 _]]]].
    rewrite E in G1. destruct chp; discriminate.
  - unfold tip. rewrite (inv_tip_entry s l x HI E). rewrite chain_tip_snoc. reflexivity.
Qed.

(* ---- prune ------------------------------------------------------------------------------------------ *)
Lemma prune_ops_cls : forall st keep o, In o (prune_ops st keep) ->
  exists tipn tid, tip st = Some (tipn, tid) /\ keep + 1 < tipn /\
    ((exists bn op, o = Del (KConsumed bn op) /\ bn < tipn - (keep + 1)) \/
     (exists bn id f v x, In (KHeader bn id f, v) st /\ bn <= tipn - (keep + 1) /\ In x (vtxs v) /\
                          o = Del (KTxHash (fst (fst x)))) \/
     (exists bn id f v, In (KHeader bn id f, v) st /\ bn <= tipn - (keep + 1) /\ o = Del (KHeader bn id f))).
Proof.
  intros st keep o H. unfold prune_ops in H. destruct (tip st) as [[tipn tid]|]; [|contradiction].
  destruct (N.ltb_spec (keep + 1) tipn) as [Hlt|]; [|contradiction].
  exists tipn, tid. split; auto. split; auto. apply in_app_or in H. destruct H as [H|H].
  - left. apply in_map_iff in H. destruct H as [[bn k] [<- H]]. unfold consumed_below in H.
    apply in_flat_map in H. destruct H as [[k' v] [H1 H2]]. cbn [fst] in H2.
    destruct k'; try contradiction. destruct (N.ltb_spec bn0 (tipn - (keep + 1))); [|contradiction].
    destruct H2 as [H2|[]]. inversion H2; subst. eexists _, _. split; [reflexivity|auto].
  - destruct (min_list _) as [lo|]; [|contradiction]. apply in_flat_map in H. destruct H as [[k l] [H1 H2]].
    unfold headers_between in H1. apply in_flat_map in H1. destruct H1 as [[k' v] [H1 H3]].
    destruct k'; try contradiction.
    destruct (lo <=? bn); [|contradiction]. destruct (N.leb_spec bn (tipn - (keep + 1))); [|contradiction].
    cbn [andb] in H3. destruct H3 as [H3|[]]. inversion H3; subst k l. fold (vtxs v) in *.
    apply in_app_or in H2. cbn [fst snd] in H2. destruct H2 as [H2|[H2|[]]].
    + right. left. apply in_map_iff in H2. destruct H2 as [x [<- H2]]. exists bn, id, flt, v, x. auto.
    + right. right. exists bn, id, flt, v. auto.
Qed.

Lemma prune_ops_dels : forall st keep o, In o (prune_ops st keep) -> bop_res o = None /\ live_key (bop_key o) = false.
Proof.
  intros st keep o H. apply prune_ops_cls in H.
  destruct H as [tipn [tid [_ [_ [[bn [op [-> _]]]|[[bn [id [f [v [x [_ [_ [_ ->]]]]]]]]|[bn [id [f [v [_ [_ ->]]]]]]]]]]]]; auto.
Qed.

Lemma get_prune : forall st keep k v, get (prune st keep) k = Some v ->
  get st k = Some v /\ ~ In k (map bop_key (prune_ops st keep)).
Proof.
  intros st keep k v H. unfold prune in H.
  destruct (get_commit_cases st (prune_ops st keep) k) as [[H1 E]|[o [H1 [H2 E]]]]; rewrite E in H.
  - auto.
  - apply prune_ops_dels in H1. destruct H1 as [H1 _]. congruence.
Qed.

Lemma in_smatched_txs : forall B x, In x (smatched_txs B) ->
  exists j t, nth_error (b_txs B) j = Some t /\ smatched (N.of_nat j) t = true /\ fst (fst x) = t_id t.
Proof.
  intros B x H. unfold smatched_txs in H. apply in_concat_mapi in H. destruct H as [j [t [H1 H2]]].
  rewrite N.add_0_l in H2. destruct (smatched (N.of_nat j) t) eqn:E; [|contradiction].
  destruct H2 as [<-|[]]. exists j, t. auto.
Qed.

Lemma nodup_flat_map_pos : forall {A B} (f : A -> list B) l a x r a' x' r' y,
  NoDup (flat_map f l) -> l = a ++ x :: r -> l = a' ++ x' :: r' -> In y (f x) -> In y (f x') ->
  length a = length a'.
Proof.
  intros A B f l a. revert l. induction a as [|z a IH]; intros l x r a' x' r' y ND E E' Hy Hy'.
  - destruct a' as [|z' a']; auto. exfalso. subst l. cbn [app] in E'. inversion E'; subst z'.
    cbn [flat_map] in ND. apply NoDup_app_inv in ND. destruct ND as [_ [_ D]]. apply (D y Hy).
    rewrite H1. apply in_flat_map. exists x'. split; auto. apply in_or_app. right. left. auto.
  - destruct a' as [|z' a'].
    + exfalso. subst l. cbn [app] in E'. inversion E'; subst z.
      cbn [flat_map] in ND. apply NoDup_app_inv in ND. destruct ND as [_ [_ D]]. apply (D y Hy').
      apply in_flat_map. exists x. split; auto. apply in_or_app. right. left. auto.
    + cbn [length]. f_equal. subst l. cbn [app] in E'. inversion E'; subst z'.
      cbn [flat_map app] in ND. apply NoDup_app_inv in ND. destruct ND as [_ [ND _]].
      eapply (IH (a ++ x :: r)); eauto.
Qed.

Lemma chain_tx_unique : forall ch chp B rest chp' B' rest' j t j' t', ChainFacts ch ->
  ch = chp ++ B :: rest -> ch = chp' ++ B' :: rest' ->
  nth_error (b_txs B) j = Some t -> nth_error (b_txs B') j' = Some t' -> t_id t = t_id t' ->
  b_num B = b_num B'.
Proof.
  intros ch chp B rest chp' B' rest' j t j' t' F E E' H H' Eid.
  destruct (decomp_num _ _ _ _ F E) as [-> _]. destruct (decomp_num _ _ _ _ F E') as [-> _]. f_equal.
  eapply (nodup_flat_map_pos (fun b => map t_id (b_txs b)) ch) with (y := t_id t); eauto.
  - apply (cf_ids_nd _ F).
  - apply in_map. eapply nth_error_In; eauto.
  - rewrite Eid. apply in_map. eapply nth_error_In; eauto.
Qed.

Lemma inv_prune : forall s keep ch0 bl, Inv s -> ix_chain s = ch0 ++ [bl] ->
  Inv (mkIx (prune (ix_store s) keep) (ix_chain s)
            (if keep + 1 <? b_num bl then N.max (ix_floor s) (b_num bl - keep) else ix_floor s)).
Proof.
  intros s keep ch0 bl HI E. pose proof (chain_facts _ (inv_chain _ HI)) as F.
  pose proof (inv_aux _ HI) as AX. pose proof (inv_floor _ HI) as FL.
  pose proof (inv_tip s HI) as TIP. rewrite E, chain_tip_snoc in TIP.
  destruct (decomp_num _ ch0 bl [] F E) as [Hn _].
  set (fl' := if keep + 1 <? b_num bl then N.max (ix_floor s) (b_num bl - keep) else ix_floor s).
  assert (Hfl : ix_floor s <= fl') by (unfold fl'; destruct (keep + 1 <? b_num bl); lia).
  assert (CLS : forall o, In o (prune_ops (ix_store s) keep) ->
     keep + 1 < b_num bl /\
     ((exists bn op, o = Del (KConsumed bn op) /\ bn < fl' - 1) \/
      (exists chp B rest x, ix_chain s = chp ++ B :: rest /\ b_num B < fl' /\ In x (smatched_txs B) /\
                            o = Del (KTxHash (fst (fst x)))) \/
      (exists bn id f, bn < fl' /\ o = Del (KHeader bn id f)))).
  { intros o Ho. apply prune_ops_cls in Ho. destruct Ho as [tipn [tid [H1 [H2 H3]]]].
    rewrite TIP in H1. inversion H1; subst tipn tid. split; auto.
    assert (Efl : fl' = N.max (ix_floor s) (b_num bl - keep)).
    { unfold fl'. apply N.ltb_lt in H2. rewrite H2. reflexivity. }
    destruct H3 as [[bn [op [-> H3]]]|[[bn [id [f [v [x [G1 [G2 [G3 ->]]]]]]]]|[bn [id [f [v [G1 [G2 ->]]]]]]]].
    - left. exists bn, op. split; auto. lia.
    - right. left. apply in_get in G1; [|apply (inv_wf _ HI)]. apply (ax_hdr_sound _ _ _ AX) in G1.
      destruct G1 as [chp [B [rest [G4 [G5 ->]]]]]. inversion G5; subst bn id f.
      exists chp, B, rest, x. split; auto. split; auto. lia.
    - right. right. exists bn, id, f. split; auto. lia. }
  constructor; cbn [ix_store ix_chain ix_floor]; fold fl'.
  - apply (inv_chain _ HI).
  - apply wf_commit. apply (inv_wf _ HI).
  - apply live_inv_aux_ops. apply (inv_live _ HI). intros o Ho. apply prune_ops_dels in Ho. tauto.
  - constructor.
    + intros n id f v G. apply get_prune in G. destruct G as [G _]. apply (ax_hdr_sound _ _ _ AX) in G. exact G.
    + intros chp B rest EB HB. unfold prune. rewrite get_commit_other.
      * apply (ax_hdr_complete _ _ _ AX chp B rest); auto. lia.
      * intro HIn. apply in_map_iff in HIn. destruct HIn as [o [Ek Ho]]. apply CLS in Ho.
        destruct Ho as [_ [[bn [op [-> _]]]|[[chp' [B' [rest' [x [_ [_ [_ ->]]]]]]]|[bn [id [f [G ->]]]]]]]; try discriminate.
        cbn [bop_key] in Ek. inversion Ek. lia.
    + intros chp B rest j t EB HB Hj Hm. unfold prune. rewrite get_commit_other.
      * apply (ax_txhash _ _ _ AX chp B rest j t); auto. lia.
      * intro HIn. apply in_map_iff in HIn. destruct HIn as [o [Ek Ho]]. apply CLS in Ho.
        destruct Ho as [_ [[bn [op [-> _]]]|[[chp' [B' [rest' [x [G1 [G2 [G3 ->]]]]]]]|[bn [id [f [G ->]]]]]]]; try discriminate.
        cbn [bop_key] in Ek. inversion Ek as [Eid]. apply in_smatched_txs in G3.
        destruct G3 as [j' [t' [G4 [_ G5]]]]. rewrite G5 in Eid.
        assert (b_num B' = b_num B) by (eapply chain_tx_unique; eauto). lia.
    + intros chp B rest pre t post op c EB HB Et Hop Hc. unfold prune. rewrite get_commit_other.
      * apply (ax_consumed _ _ _ AX chp B rest pre t post op c); auto. lia.
      * intro HIn. apply in_map_iff in HIn. destruct HIn as [o [Ek Ho]]. apply CLS in Ho.
        destruct Ho as [_ [[bn [op' [-> G]]]|[[chp' [B' [rest' [x [_ [_ [_ ->]]]]]]]|[bn [id [f [G ->]]]]]]]; try discriminate.
        cbn [bop_key] in Ek. inversion Ek. lia.
  - unfold fl'. rewrite E, app_length in *. cbn [length] in *. destruct (keep + 1 <? b_num bl); lia.
Qed.

(* ---- append ---------------------------------------------------------------------------------------- *)
Lemma inv_resolves : forall s b pre t post op, Inv s -> block_ok (ix_chain s) b = true ->
  b_txs b = pre ++ t :: post -> In op (tx_ins (N.of_nat (length pre)) t) ->
  exists c, lookup_cell (PL (b_num b) (live (ix_chain s)) (txs (ix_chain s)) pre) op = Some c /\
            resolve (ix_store s) b op = RFound (lc_bn c) (lc_txi c) (lc_out c).
Proof.
  intros s b pre t post op HI HB E Hop.
  pose proof (chain_facts _ (inv_chain _ HI)) as F.
  pose proof (cf_nd _ F). pose proof (cf_id _ F). pose proof (cf_tnd _ F).
  pose proof (cbn_ s b HI HB). pose proof (cTbn s b HI HB).
  pose proof (proj2 (proj2 (block_ok_parts _ _ HB))). pose proof (inv_live _ HI).
  eapply (prefix_resolves (ix_store s) b (live (ix_chain s)) (txs (ix_chain s)) (chain_tx_ids (ix_chain s))); eauto.
Qed.

Lemma existsb_false : forall {A} (f : A -> bool) l, (forall x, In x l -> f x = false) -> existsb f l = false.
Proof.
  intros A f l H. destruct (existsb f l) eqn:E; auto. apply existsb_exists in E.
  destruct E as [x [H1 H2]]. rewrite H in H2; auto.
Qed.

Theorem valid_append_never_panics : forall s b, Inv s -> block_ok (ix_chain s) b = true ->
  append_panics (ix_store s) b = false.
Proof.
  intros s b HI HB. unfold append_panics. apply existsb_false. intros x Hx.
  apply in_mapi in Hx. destruct Hx as [j [t [H1 ->]]]. rewrite N.add_0_l.
  apply nth_error_split in H1. destruct H1 as [pre [post [E <-]]].
  destruct (0 <? N.of_nat (length pre)) eqn:Z; auto. cbn [andb]. apply existsb_false. intros op Hop.
  destruct (inv_resolves s b pre t post op HI HB E) as [c [_ R]].
  - unfold tx_ins. rewrite Z. exact Hop.
  - rewrite R. reflexivity.
Qed.

Lemma inv_append : forall keep interval s b st', Inv s -> block_ok (ix_chain s) b = true ->
  append keep interval (ix_store s) b = Some st' ->
  Inv (mkIx st' (ix_chain s ++ [b]) (floor_after keep interval (ix_floor s) (b_num b))).
Proof.
  intros keep interval s b st' HI HB HA. unfold append in HA.
  rewrite (valid_append_never_panics s b HI HB) in HA. inversion HA; subst st'. clear HA.
  pose proof (inv_append_noprune s b HI HB) as H1. unfold floor_after.
  destruct (b_num b mod interval =? 0); cbn [andb]; auto.
  apply (inv_prune _ keep (ix_chain s) b) in H1; auto.
Qed.

Lemma op_eq_dec : forall a b : outpoint, {a = b} + {a <> b}.
Proof. decide equality; apply N.eq_dec. Qed.

(* ---- rollback: the operations of one transaction ------------------------------------------------------ *)
Lemma in_rb_output_ops : forall st bn txi tid oi out o,
  stored_output st bn (tid, oi) = Some out ->
  (In o (rb_output_ops st bn txi tid oi) <->
   In o (map DelK (cell_kvs (mkLc (tid, oi) bn txi out))) \/
   In o (map DelK (map trow_kv (out_rows out bn txi oi tid)))).
Proof.
  intros st bn txi tid oi out o H. unfold rb_output_ops. rewrite H. unfold opt_ops at 1.
  unfold cell_kvs, out_rows, opt_ops. cbn [lc_op lc_bn lc_txi lc_out fst snd].
  destruct (o_type out); cbn [app map In DelK PutKv trow_kv fst snd tr_s tr_bn tr_txi tr_ioi tr_out tr_tx]; intuition.
Qed.

Lemma in_rb_input_ops : forall st bn txi ii op c tid o,
  get st (KConsumed bn op) = Some (VCell (lc_bn c) (lc_txi c) (lc_out c)) -> lc_op c = op ->
  (In o (rb_input_ops st bn txi ii op) <->
   In o (map PutKv (cell_kvs c)) \/ In o (map DelK (map trow_kv (cell_in_rows c bn txi ii tid)))).
Proof.
  intros st bn txi ii op c tid o H E. unfold rb_input_ops. rewrite H. subst op.
  unfold cell_kvs, cell_in_rows, opt_ops.
  destruct (o_type (lc_out c)); cbn [app map In DelK PutKv trow_kv fst snd tr_s tr_bn tr_txi tr_ioi tr_out tr_tx]; intuition.
Qed.

Lemma in_nseq_len : forall {A} (l : list A) oi,
  In oi (nseq (N.of_nat (length l))) <-> exists j x, nth_error l j = Some x /\ oi = N.of_nat j.
Proof.
  intros A l oi. unfold nseq. rewrite Nat2N.id, in_map_iff. split.
  - intros [j [<- H]]. apply in_seq in H. destruct (nth_error l j) as [x|] eqn:E.
    + exists j, x. auto.
    + apply nth_error_None in E. lia.
  - intros [j [x [H ->]]]. exists j. split; auto. apply in_seq.
    assert (j < length l)%nat by (apply nth_error_Some; congruence). lia.
Qed.

Section RollbackTx.
  Variables (st0 st : store) (b : block) (L0 : list lcell) (T0 : list (bool * trow)) (ids0 : list N).
  Variables (pre : list tx) (t : tx).
  Let bn := b_num b.
  Let i := N.of_nat (length pre).
  Let L := PL bn L0 T0 pre.
  Let T := PT bn L0 T0 pre.
  Hypothesis Hbn : forall c, In c L0 -> lc_bn c < bn.
  Hypothesis HTbn : forall r, In r T0 -> tr_bn (snd r) < bn.
  Hypothesis Hid : forall c, In c L0 -> In (fst (lc_op c)) ids0.
  Hypothesis SF : SeqFacts bn L0 T0 ids0 pre.
  Hypothesis OK : tx_step_ok bn L0 T0 ids0 pre t.
  Hypothesis PD : pos_det L.
  Hypothesis LI : LiveInv st (PL bn L0 T0 (pre ++ [t])) (PT bn L0 T0 (pre ++ [t])).
  Hypothesis RD_hash : get st0 (KTxHash (t_id t)) = Some (VInputs (t_inputs t)).
  Hypothesis RD_cons : forall op c, In op (tx_ins i t) -> lookup_cell L op = Some c ->
      get st0 (KConsumed bn op) = Some (VCell (lc_bn c) (lc_txi c) (lc_out c)).
  Hypothesis RD_out : forall oj out, nth_error (t_outputs t) oj = Some out ->
      stored_output st0 bn (t_id t, N.of_nat oj) = Some out.

  Let rops := rb_tx_ops st0 bn (t_id t, N.of_nat (length (t_outputs t)), i).

  Lemma rb_inputs_eq :
    (if 0 <? i then concat (mapi (rb_input_ops st0 bn i) 0
                       (match get st0 (KTxHash (t_id t)) with Some (VInputs l) => l | _ => [] end))
     else []) = concat (mapi (rb_input_ops st0 bn i) 0 (tx_ins i t)).
  Proof. rewrite RD_hash. unfold tx_ins. destruct (0 <? i); reflexivity. Qed.

  Lemma in_rops : forall o,
    In o rops <->
    ((exists c, In c (new_cells bn i t) /\ In o (map DelK (cell_kvs c))) \/
     (exists r, In r (rows_tx bn L i t) /\ o = DelK (trow_kv r)) \/
     (exists c, Cs b L0 T0 pre t c /\ In o (map PutKv (cell_kvs c))) \/
     o = Del (KTxHash (t_id t))).
  Proof.
    intro o. unfold rops, rb_tx_ops. rewrite rb_inputs_eq. rewrite !in_app_iff. split.
    - intros [H|[H|H]].
      + apply in_concat in H. destruct H as [l [H1 H2]]. apply in_map_iff in H1. destruct H1 as [oi [<- H1]].
        apply in_nseq_len in H1. destruct H1 as [j [out [H1 ->]]].
        rewrite (in_rb_output_ops st0 bn i (t_id t) (N.of_nat j) out o (RD_out j out H1)) in H2.
        destruct H2 as [H2|H2].
        * left. eexists. split; [|exact H2]. apply in_new_cells. eauto.
        * right. left. apply in_map_iff in H2. destruct H2 as [kv [<- H2]]. apply in_map_iff in H2.
          destruct H2 as [r [<- H2]]. exists r. split; auto. apply in_rows_tx. right. eauto.
      + apply in_concat_mapi in H. destruct H as [ii [op [H1 H2]]]. rewrite N.add_0_l in H2.
        destruct OK as [R _]. destruct (R op (nth_error_In _ _ H1)) as [c Hc].
        pose proof (lookup_some _ _ _ Hc) as [_ Hop].
        rewrite (in_rb_input_ops st0 bn i (N.of_nat ii) op c (t_id t) o (RD_cons op c (nth_error_In _ _ H1) Hc) Hop) in H2.
        destruct H2 as [H2|H2].
        * right. right. left. exists c. split; auto. exists ii, op. auto.
        * right. left. apply in_map_iff in H2. destruct H2 as [kv [<- H2]]. apply in_map_iff in H2.
          destruct H2 as [r [<- H2]]. exists r. split; auto. apply in_rows_tx. left. exists ii, op, c. auto.
      + destruct H as [<-|[]]. auto.
    - intros [[c [H1 H2]]|[[r [H1 ->]]|[[c [[ii [op [H1 H3]]] H2]]| ->]]].
      + left. apply in_new_cells in H1. destruct H1 as [oj [out [H1 ->]]].
        apply in_concat. eexists. split. apply in_map. apply in_nseq_len. eauto.
        apply (in_rb_output_ops st0 bn i (t_id t) (N.of_nat oj) out _ (RD_out oj out H1)). auto.
      + apply in_rows_tx in H1. destruct H1 as [[ii [op [c [H1 [H3 H4]]]]]|[oj [out [H1 H3]]]].
        * right. left. apply in_concat_mapi. exists ii, op. split; auto. rewrite N.add_0_l.
          pose proof (lookup_some _ _ _ H3) as [_ Hop].
          apply (in_rb_input_ops st0 bn i (N.of_nat ii) op c (t_id t) _ (RD_cons op c (nth_error_In _ _ H1) H3) Hop).
          right. apply in_map. apply in_map. auto.
        * left. apply in_concat. eexists. split. apply in_map. apply in_nseq_len. eauto.
          apply (in_rb_output_ops st0 bn i (t_id t) (N.of_nat oj) out _ (RD_out oj out H1)).
          right. apply in_map. apply in_map. auto.
      + right. left. apply in_concat_mapi. exists ii, op. split; auto. rewrite N.add_0_l.
        pose proof (lookup_some _ _ _ H3) as [_ Hop].
        apply (in_rb_input_ops st0 bn i (N.of_nat ii) op c (t_id t) _ (RD_cons op c (nth_error_In _ _ H1) H3) Hop).
        auto.
      + right. right. left. reflexivity.
  Qed.
  Lemma key_det_L : forall c c' k v v', In c L -> In c' L ->
    In (k, v) (cell_kvs c) -> In (k, v') (cell_kvs c') -> c = c'.
  Proof.
    intros c c' k v v' H H' Hk Hk'. apply cell_kvs_key_info in Hk. apply cell_kvs_key_info in Hk'.
    destruct k; try contradiction.
    - apply (nodup_map_inj_in lc_op L); auto. apply (sf_nd _ _ _ _ _ SF). congruence.
    - apply PD; auto; destruct Hk as [? [? ?]], Hk' as [? [? ?]]; congruence.
    - apply PD; auto; destruct Hk as [? [? ?]], Hk' as [? [? ?]]; congruence.
  Qed.

  Lemma rops_cls : forall o, In o rops -> live_key (bop_key o) = true ->
    (exists c kv, In c (new_cells bn i t) /\ In kv (cell_kvs c) /\ o = Del (fst kv)) \/
    (exists r, In r (rows_tx bn L i t) /\ o = Del (fst (trow_kv r))) \/
    (exists c kv, Cs b L0 T0 pre t c /\ In kv (cell_kvs c) /\ o = Put (fst kv) (snd kv)).
  Proof.
    intros o H Hl. apply in_rops in H. destruct H as [[c [H1 H2]]|[[r [H1 ->]]|[[c [H1 H2]]| ->]]].
    - left. apply in_map_iff in H2. destruct H2 as [kv [<- H2]]. exists c, kv. auto.
    - right. left. exists r. auto.
    - right. right. apply in_map_iff in H2. destruct H2 as [kv [<- H2]]. exists c, kv. auto.
    - discriminate.
  Qed.
  Lemma rops_DN : forall c kv, In c (new_cells bn i t) -> In kv (cell_kvs c) -> In (Del (fst kv)) rops.
  Proof. intros c kv H1 H2. apply in_rops. left. exists c. split; auto. apply in_map_iff. exists kv. auto. Qed.
  Lemma rops_DR : forall r, In r (rows_tx bn L i t) -> In (Del (fst (trow_kv r))) rops.
  Proof. intros r H. apply in_rops. right. left. exists r. auto. Qed.
  Lemma rops_PC : forall c kv, Cs b L0 T0 pre t c -> In kv (cell_kvs c) -> In (Put (fst kv) (snd kv)) rops.
  Proof. intros c kv H1 H2. apply in_rops. right. right. left. exists c. split; auto. apply in_map_iff. exists kv. auto. Qed.

  Lemma live_rollback_tx : LiveInv (commit st rops) L T.
  Proof.
    pose proof (dis_old_new b L0 T0 ids0 pre t Hbn Hid SF OK) as DON.
    pose proof (dis_rows b L0 T0 ids0 pre t HTbn SF) as DRW.
    apply live_inv_step with (L := PL bn L0 T0 (pre ++ [t])) (T := PT bn L0 T0 (pre ++ [t])); auto.
    - intros k o o' Hk Ho Ho' Ek Ek'.
      destruct (rops_cls o Ho) as [[c [kv [HC [Hkv ->]]]]|[[r [Hr ->]]|[c [kv [HC [Hkv ->]]]]]]; [rewrite Ek; auto| | |];
      (destruct (rops_cls o' Ho') as [[c' [kv' [HC' [Hkv' ->]]]]|[[r' [Hr' ->]]|[c' [kv' [HC' [Hkv' ->]]]]]]; [rewrite Ek'; auto| | |]);
      cbn [bop_key bop_res] in *; try reflexivity; try destruct kv as [k1 v1]; try destruct kv' as [k2 v2];
        cbn [fst snd] in *; subst.
      + exfalso. apply Cs_in in HC'. eapply DON; [apply HC'|apply HC|apply Hkv'|apply Hkv].
      + exfalso. eapply cell_kvs_not_trow; eauto.
      + exfalso. apply Cs_in in HC. eapply DON; [apply HC|apply HC'|apply Hkv|apply Hkv'].
      + exfalso. eapply cell_kvs_not_trow; eauto.
      + f_equal. apply Cs_in in HC. apply Cs_in in HC'. assert (c = c') by (eapply key_det_L; eauto; tauto).
        subst c'. eapply cell_kvs_fun; eauto.
    - intros k v Hk. rewrite PL_snoc, PT_snoc. fold i L T. unfold live_tx. rewrite !in_live_kvs. split.
      + intros [[c [Hc Hkv]]|[r [Er Hr]]].
        * destruct (in_dec op_eq_dec (lc_op c) (tx_ins i t)) as [D|D].
          -- left. apply (rops_PC c (k, v)); auto. eapply in_Cs; eauto.
          -- right. split.
             ++ intro HI. apply in_map_iff in HI. destruct HI as [o [Eo Ho]].
                destruct (rops_cls o Ho) as [[c' [kv [HC [Hkv' ->]]]]|[[r [Hr ->]]|[c' [kv [HC [Hkv' ->]]]]]];
                  [rewrite Eo; auto| | |]; cbn [bop_key] in Eo; try destruct kv as [k1 v1]; cbn [fst] in Eo; subst.
                ** eapply DON; [apply Hc|apply HC|apply Hkv|apply Hkv'].
                ** eapply cell_kvs_not_trow; eauto.
                ** apply Cs_in in HC. destruct HC as [HC1 HC2].
                   assert (c = c') by (eapply key_det_L; eauto). subst c'. contradiction.
             ++ left. exists c. split; auto. apply in_or_app. left. apply in_fold_spend. auto.
        * right. split.
          -- intro HI. apply in_map_iff in HI. destruct HI as [o [Eo Ho]].
             assert (Ek : fst (trow_kv r) = k) by (rewrite Er; reflexivity).
             destruct (rops_cls o Ho) as [[c' [kv [HC [Hkv' ->]]]]|[[r' [Hr' ->]]|[c' [kv [HC [Hkv' ->]]]]]];
               [rewrite Eo; auto| | |]; cbn [bop_key] in Eo; try destruct kv as [k1 v1]; cbn [fst] in Eo; subst.
             ++ eapply cell_kvs_not_trow; eauto.
             ++ eapply DRW; eauto.
             ++ eapply cell_kvs_not_trow; eauto.
          -- right. exists r. split; auto. apply in_or_app. auto.
      + intros [HP|[Hn HI]].
        * destruct (rops_cls _ HP Hk) as [[c' [kv [HC [Hkv' E]]]]|[[r [Hr E]]|[c' [kv [HC [Hkv' E]]]]]]; try discriminate.
          injection E as E1 E2. left. exists c'. split. apply Cs_in in HC. tauto.
          rewrite (surjective_pairing kv) in Hkv'. congruence.
        * destruct HI as [[c [Hc Hkv]]|[r [Er Hr]]].
          -- apply in_app_or in Hc. destruct Hc as [Hc|Hc].
             ++ apply in_fold_spend in Hc. left. exists c. tauto.
             ++ exfalso. apply Hn. apply in_map_iff. exists (Del k). split; auto. apply (rops_DN c (k, v)); auto.
          -- apply in_app_or in Hr. destruct Hr as [Hr|Hr].
             ++ right. eauto.
             ++ exfalso. apply Hn. apply in_map_iff. exists (Del k). split; auto.
                pose proof (rops_DR r Hr) as P. rewrite Er in P. exact P.
  Qed.
End RollbackTx.

(* ---- rollback: all transactions of the tip block ------------------------------------------------------- *)
Lemma concat_map_rev_mapi : forall {A B C} (m : N -> A -> bool) (e : N -> A -> B) (f : B -> list C) l k,
  concat (map f (rev (concat (mapi (fun i x => if m i x then [e i x] else []) k l)))) =
  concat (rev (mapi (fun i x => if m i x then f (e i x) else []) k l)).
Proof.
  intros A B C m e f l. induction l as [|x l IH] using rev_ind; intro k. reflexivity.
  rewrite !mapi_app, concat_app, !rev_app_distr, map_app, !concat_app, IH. cbn [mapi concat rev app].
  f_equal. destruct (m (k + N.of_nat (length l)) x); reflexivity.
Qed.

Section RollbackBlock.
  Variables (st0 : store) (b : block) (L0 : list lcell) (T0 : list (bool * trow)) (ids0 : list N).
  Let bn := b_num b.
  Hypothesis HND : NoDup (map lc_op L0).
  Hypothesis Hbn : forall c, In c L0 -> lc_bn c < bn.
  Hypothesis Hid : forall c, In c L0 -> In (fst (lc_op c)) ids0.
  Hypothesis HTbn : forall r, In r T0 -> tr_bn (snd r) < bn.
  Hypothesis HTND : NoDup T0.
  Hypothesis Hpos : pos_det L0.
  Hypothesis POK : pre_ok bn L0 ids0 (b_txs b).
  Hypothesis LIF : LiveInv st0 (PL bn L0 T0 (b_txs b)) (PT bn L0 T0 (b_txs b)).
  Hypothesis RDH : forall j t, nth_error (b_txs b) j = Some t -> smatched (N.of_nat j) t = true ->
      get st0 (KTxHash (t_id t)) = Some (VInputs (t_inputs t)).
  Hypothesis RDC : forall pre t post op c, b_txs b = pre ++ t :: post ->
      In op (tx_ins (N.of_nat (length pre)) t) -> lookup_cell (PL bn L0 T0 pre) op = Some c ->
      get st0 (KConsumed bn op) = Some (VCell (lc_bn c) (lc_txi c) (lc_out c)).

  Definition rb (i : N) (t : tx) : list bop :=
    if smatched i t then rb_tx_ops st0 bn (t_id t, N.of_nat (length (t_outputs t)), i) else [].

  Lemma rb_prefix_facts : forall pre rest, b_txs b = pre ++ rest -> SeqFacts bn L0 T0 ids0 pre.
  Proof. intros. eapply (prefix_facts b L0 T0 ids0); eauto. Qed.
  Lemma rb_prefix_ok : forall pre rest, b_txs b = pre ++ rest -> pre_ok bn L0 ids0 pre.
  Proof. intros pre rest E. rewrite E in POK. eapply pre_ok_prefix; eauto. Qed.
  Lemma rb_step_ok : forall pre t rest, b_txs b = pre ++ t :: rest -> tx_step_ok bn L0 T0 ids0 pre t.
  Proof. intros. eapply (prefix_step_ok b L0 T0 ids0); eauto. Qed.

  Lemma RDO : forall j t oj out, nth_error (b_txs b) j = Some t -> nth_error (t_outputs t) oj = Some out ->
    stored_output st0 bn (t_id t, N.of_nat oj) = Some out.
  Proof.
    intros j t oj out Hj Ho. pose proof (rb_prefix_facts (b_txs b) [] (eq_sym (app_nil_r _))) as SF.
    set (cnew := mkLc (t_id t, N.of_nat oj) bn (N.of_nat j) out).
    assert (OR : origin bn L0 (b_txs b) cnew).
    { right. exists j, t. split; auto. apply in_new_cells. eauto. }
    unfold stored_output. apply (sf_acct _ _ _ _ _ SF) in OR. destruct OR as [OR|[j' [t' [Hj' Hop]]]].
    - assert (G : get st0 (KOutPoint (t_id t, N.of_nat oj)) = Some (VCell bn (N.of_nat j) out)).
      { apply LIF; auto. apply in_live_kvs. left. exists cnew. split; auto. left. reflexivity. }
      rewrite G. reflexivity.
    - cbn [cnew lc_op] in Hop.
      destruct (get st0 (KOutPoint (t_id t, N.of_nat oj))) as [v|] eqn:G.
      + exfalso. apply LIF in G; auto. apply in_live_kvs in G. destruct G as [[c' [G1 G2]]|[r [G1 G2]]].
        * apply cell_kvs_key_info in G2. apply (sf_unspent _ _ _ _ _ SF c' G1). rewrite <- G2. exists j', t'. auto.
        * pose proof (trow_kv_key_info r) as K. rewrite G1 in K. exact K.
      + pose proof Hj' as Hs. apply nth_error_split in Hs. destruct Hs as [pre' [post' [E' L']]]. subst j'.
        destruct (rb_step_ok pre' t' post' E') as [R _]. destruct (R _ Hop) as [c'' Hc''].
        rewrite (RDC pre' t' post' _ c'' E' Hop Hc''). f_equal.
        pose proof (rb_prefix_facts pre' (t' :: post') E') as SF'.
        apply lookup_some in Hc''. destruct Hc'' as [Hc1 Hc2]. apply (sf_origin _ _ _ _ _ SF') in Hc1.
        destruct POK as [_ [ND FR]]. destruct Hc1 as [Hc1|[j2 [t2 [G1 G2]]]].
        * exfalso. apply Hid in Hc1. rewrite Hc2 in Hc1. apply (FR t); auto. eapply nth_error_In; eauto.
        * apply in_new_cells in G2. destruct G2 as [oi [o2 [G2 ->]]]. cbn [lc_op lc_out] in *.
          inversion Hc2 as [[Eid Eoi]]. assert (oi = oj) by lia. subst oi.
          assert (t2 = t).
          { apply (nodup_map_inj_in t_id (b_txs b)); auto.
            - rewrite E'. apply in_or_app. left. eapply nth_error_In; eauto.
            - eapply nth_error_In; eauto. }
          subst t2. congruence.
  Qed.

  Lemma unmatched_id : forall pre t, smatched (N.of_nat (length pre)) t = false ->
    PL bn L0 T0 (pre ++ [t]) = PL bn L0 T0 pre /\ PT bn L0 T0 (pre ++ [t]) = PT bn L0 T0 pre.
  Proof.
    intros pre t M. unfold smatched in M. apply orb_false_iff in M. destruct M as [M1 M2].
    apply negb_false_iff in M2. destruct (t_outputs t) as [|o os] eqn:EO; [|discriminate].
    assert (EI : tx_ins (N.of_nat (length pre)) t = []).
    { unfold tx_ins. destruct (0 <? N.of_nat (length pre)); auto. cbn [andb] in M1.
      apply negb_false_iff in M1. destruct (t_inputs t); [reflexivity|discriminate]. }
    rewrite PL_snoc, PT_snoc. unfold live_tx, rows_tx, new_cells, out_trows, in_trows. rewrite EI, EO.
    cbn [fold_left mapi concat]. rewrite !app_nil_r. split; auto.
    unfold tx_ins in EI. destruct (0 <? N.of_nat (length pre)); [rewrite EI|]; cbn [mapi concat]; apply app_nil_r.
  Qed.

  Lemma live_rollback_txs : forall pre rest, b_txs b = pre ++ rest ->
    forall st, LiveInv st (PL bn L0 T0 pre) (PT bn L0 T0 pre) ->
    LiveInv (commit st (concat (rev (mapi rb 0 pre)))) L0 T0.
  Proof.
    induction pre as [|t pre IH] using rev_ind; intros rest E st LI.
    - exact LI.
    - rewrite <- app_assoc in E. cbn [app] in E.
      rewrite mapi_app, rev_app_distr. cbn [mapi rev app concat]. rewrite N.add_0_l, commit_app.
      apply (IH (t :: rest) E). unfold rb. destruct (smatched (N.of_nat (length pre)) t) eqn:M.
      + eapply (live_rollback_tx st0 st b L0 T0 ids0 pre t); eauto.
        * eapply rb_prefix_facts; eauto.
        * eapply rb_step_ok; eauto.
        * eapply (seq_pos bn L0 T0 ids0); eauto. eapply rb_prefix_ok; eauto.
        * eapply RDH; eauto. rewrite E. apply nth_error_app_mid.
        * intros oj out Ho. eapply RDO; eauto. rewrite E. apply nth_error_app_mid.
      + destruct (unmatched_id pre t M) as [E1 E2]. rewrite E1, E2 in LI. exact LI.
  Qed.

  Lemma in_rb_all : forall o, In o (concat (rev (mapi rb 0 (b_txs b)))) -> live_key (bop_key o) = false ->
    exists j t, nth_error (b_txs b) j = Some t /\ o = Del (KTxHash (t_id t)).
  Proof.
    intros o H Hl. apply in_concat in H. destruct H as [l [H1 H2]]. apply in_rev in H1.
    apply in_mapi in H1. destruct H1 as [j [t [Hj ->]]]. rewrite N.add_0_l in H2.
    exists j, t. split; auto. unfold rb in H2. destruct (smatched (N.of_nat j) t) eqn:M; [|contradiction].
    pose proof Hj as Hs. apply nth_error_split in Hs. destruct Hs as [pre [post [E Lj]]]. subst j.
    eapply (in_rops st0 b L0 T0 ids0 pre t) in H2; eauto.
    - destruct H2 as [[c [G1 G2]]|[[r [G1 ->]]|[[c [G1 G2]]| ->]]]; auto; exfalso.
      + apply in_map_iff in G2. destruct G2 as [[k v] [<- G2]]. apply cell_kvs_live in G2. cbn in Hl. congruence.
      + cbn [DelK bop_key] in Hl. rewrite trow_kv_live in Hl. discriminate.
      + apply in_map_iff in G2. destruct G2 as [[k v] [<- G2]]. apply cell_kvs_live in G2. cbn in Hl. congruence.
    - eapply rb_step_ok; eauto.
    - intros oj out Ho. eapply RDO; eauto.
  Qed.
End RollbackBlock.

(* ---- rollback preserves the invariant -------------------------------------------------------------------- *)
Lemma rollback_ops_eq : forall s ch0 bl, Inv s -> ix_chain s = ch0 ++ [bl] ->
  rollback_ops (ix_store s) =
  concat (rev (mapi (rb (ix_store s) bl) 0 (b_txs bl))) ++ [Del (hdr_key bl)].
Proof.
  intros s ch0 bl HI E. unfold rollback_ops. rewrite (inv_tip_entry s ch0 bl HI E). f_equal.
  unfold smatched_txs. rewrite concat_map_rev_mapi. reflexivity.
Qed.

Lemma inv_rollback : forall s, Inv s -> op_ok s ORollback = true ->
  Inv (mkIx (rollback (ix_store s)) (removelast (ix_chain s)) (ix_floor s)).
Proof.
  intros s HI HO. cbn [op_ok] in HO. apply andb_true_iff in HO. destruct HO as [HO1 HO2].
  apply Nat.ltb_lt in HO1. apply N.ltb_lt in HO2.
  destruct (exists_last (l := ix_chain s)) as [ch0 [bl E]]. { intro Z. rewrite Z in HO1. cbn in HO1. lia. }
  rewrite E in *. rewrite removelast_last. rewrite app_length in *. cbn [length] in *.
  pose proof (inv_chain _ HI) as CO. rewrite E in CO. apply chain_ok_snoc_inv in CO. destruct CO as [CO HB].
  pose proof (chain_facts _ CO) as F0. pose proof (inv_aux _ HI) as AX. rewrite E in AX.
  pose proof (block_ok_parts _ _ HB) as [Hn [_ POK]].
  pose proof (cf_nd _ F0) as cND. pose proof (cf_id _ F0) as cid. pose proof (cf_tnd _ F0) as cTND.
  pose proof (cf_pos _ F0) as cpos.
  assert (cbn0 : forall c, In c (live ch0) -> lc_bn c < b_num bl).
  { intros c H. rewrite Hn. apply (cf_bn _ F0). auto. }
  assert (cTbn0 : forall r, In r (txs ch0) -> tr_bn (snd r) < b_num bl).
  { intros r H. rewrite Hn. apply (cf_tbn _ F0). auto. }
  pose proof (inv_live _ HI) as LIF. rewrite E, live_snoc, txs_snoc in LIF.
  assert (Hfl : ix_floor s <= b_num bl) by lia.
  assert (RDH : forall j t, nth_error (b_txs bl) j = Some t -> smatched (N.of_nat j) t = true ->
      get (ix_store s) (KTxHash (t_id t)) = Some (VInputs (t_inputs t))).
  { intros j t H1 H2. apply (ax_txhash _ _ _ AX ch0 bl [] j t); auto. }
  assert (RDC : forall pre t post op c, b_txs bl = pre ++ t :: post ->
      In op (tx_ins (N.of_nat (length pre)) t) ->
      lookup_cell (PL (b_num bl) (live ch0) (txs ch0) pre) op = Some c ->
      get (ix_store s) (KConsumed (b_num bl) op) = Some (VCell (lc_bn c) (lc_txi c) (lc_out c))).
  { intros pre t post op c H1 H2 H3. apply (ax_consumed _ _ _ AX ch0 bl [] pre t post op c); auto. }
  assert (CLS : forall o, In o (rollback_ops (ix_store s)) -> live_key (bop_key o) = false ->
     (exists j t, nth_error (b_txs bl) j = Some t /\ o = Del (KTxHash (t_id t))) \/ o = Del (hdr_key bl)).
  { intros o Ho Hl. rewrite (rollback_ops_eq s ch0 bl HI E) in Ho. apply in_app_or in Ho.
    destruct Ho as [Ho|[<-|[]]]; auto. left.
    eapply (in_rb_all (ix_store s) bl (live ch0) (txs ch0) (chain_tx_ids ch0)); eauto. }
  constructor; cbn [ix_store ix_chain ix_floor].
  - exact CO.
  - apply wf_commit. apply (inv_wf _ HI).
  - unfold rollback. rewrite (rollback_ops_eq s ch0 bl HI E), commit_app. apply live_inv_aux_ops.
    + eapply (live_rollback_txs (ix_store s) bl (live ch0) (txs ch0) (chain_tx_ids ch0)) with (rest := []); eauto.
      symmetry. apply app_nil_r.
    + intros o [<-|[]]. reflexivity.
  - assert (DELS : forall k v, get (rollback (ix_store s)) k = Some v -> live_key k = false ->
        get (ix_store s) k = Some v /\ ~ In k (map bop_key (rollback_ops (ix_store s)))).
    { intros k v G Hl. unfold rollback in G.
      destruct (get_commit_cases (ix_store s) (rollback_ops (ix_store s)) k) as [[H1 E1]|[o [H1 [H2 E1]]]]; rewrite E1 in G.
      - auto.
      - exfalso. destruct (CLS o H1) as [[j [t [_ ->]]]| ->]; [rewrite H2; auto| |]; discriminate. }
    assert (HDR : In (Del (hdr_key bl)) (rollback_ops (ix_store s))).
    { rewrite (rollback_ops_eq s ch0 bl HI E). apply in_or_app. right. left. reflexivity. }
    constructor.
    + intros n id f v G. apply DELS in G; auto. destruct G as [G NI].
      apply (ax_hdr_sound _ _ _ AX) in G. destruct G as [chp [B [rest [G1 [G2 G3]]]]].
      apply snoc_decomp in G1. destruct G1 as [[-> [-> ->]]|[rest' [-> G1]]].
      * exfalso. apply NI. apply in_map_iff. exists (Del (hdr_key bl)). split; auto.
      * exists chp, B, rest'. auto.
    + intros chp B rest EB HBf. unfold rollback. rewrite get_commit_other.
      * apply (ax_hdr_complete _ _ _ AX chp B (rest ++ [bl])); auto. rewrite EB, <- app_assoc. reflexivity.
      * intro HIn. apply in_map_iff in HIn. destruct HIn as [o [Ek Ho]].
        destruct (CLS o Ho) as [[j [t [_ ->]]]| ->]; [rewrite Ek; reflexivity| |]; try discriminate.
        cbn [bop_key] in Ek. inversion Ek. destruct (decomp_num ch0 chp B rest F0 EB). lia.
    + intros chp B rest j t EB HBf Hj Hm. unfold rollback. rewrite get_commit_other.
      * apply (ax_txhash _ _ _ AX chp B (rest ++ [bl]) j t); auto. rewrite EB, <- app_assoc. reflexivity.
      * intro HIn. apply in_map_iff in HIn. destruct HIn as [o [Ek Ho]].
        destruct (CLS o Ho) as [[j' [t' [Hj' ->]]]| ->]; [rewrite Ek; reflexivity| |]; try discriminate.
        cbn [bop_key] in Ek. inversion Ek as [Eid]. destruct POK as [_ [_ FR]]. apply (FR t').
        eapply nth_error_In; eauto. rewrite Eid. eapply in_chain_ids; eauto.
    + intros chp B rest pre t post op c EB HBf Et Hop Hc. unfold rollback. rewrite get_commit_other.
      * apply (ax_consumed _ _ _ AX chp B (rest ++ [bl]) pre t post op c); auto. rewrite EB, <- app_assoc. reflexivity.
      * intro HIn. apply in_map_iff in HIn. destruct HIn as [o [Ek Ho]].
        destruct (CLS o Ho) as [[j' [t' [Hj' ->]]]| ->]; [rewrite Ek; reflexivity| |]; discriminate.
  - lia.
Qed.

(* ---- the driver --------------------------------------------------------------------------------------------- *)
Lemma inv_empty : Inv ix_empty.
Proof.
  constructor; cbn [ix_empty ix_store ix_chain ix_floor].
  - constructor.
  - apply wf_nil.
  - intros k v _. cbn. split. discriminate. tauto.
  - constructor; cbn [get]; try discriminate; intros chp; intros; destruct chp; discriminate.
  - cbn. lia.
Qed.

Lemma inv_step : forall keep interval s o s', Inv s -> op_ok s o = true ->
  istep keep interval s o = Some s' -> Inv s'.
Proof.
  intros keep interval s o s' HI HO HS. destruct o as [b|]; cbn [istep op_ok] in *.
  - destruct (append keep interval (ix_store s) b) as [st'|] eqn:E; [|discriminate].
    inversion HS; subst s'. eapply inv_append; eauto.
  - inversion HS; subst s'. apply inv_rollback; auto.
Qed.

Lemma inv_run : forall keep interval ops s s', Inv s -> ops_ok keep interval s ops = true ->
  irun keep interval s ops = Some s' -> Inv s'.
Proof.
  induction ops as [|o ops IH]; intros s s' HI HO HR; cbn [ops_ok irun] in *.
  - inversion HR; subst; auto.
  - apply andb_true_iff in HO. destruct HO as [HO1 HO2].
    destruct (istep keep interval s o) as [s1|] eqn:E; [|discriminate].
    apply (IH s1 s'); auto. eapply inv_step; eauto.
Qed.
