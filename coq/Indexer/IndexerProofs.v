(* Indexer/IndexerProofs.v — the theorems about the indexer model: after any
   valid sequence of append / rollback operations the store answers like a
   direct filter over the replayed main chain; rollback inverts append; prune
   never touches a live row. *)
From CKB Require Import Indexer.Indexer Indexer.IndexerLemmas Indexer.IndexerSpec Indexer.IndexerInv.
From CKB Require Import Indexer.IndexerRange Indexer.SameAnswers.
From Coq Require Import Permutation.
Arguments N.add : simpl never.
Arguments N.sub : simpl never.
Arguments N.mul : simpl never.
Arguments N.div : simpl never.
Arguments N.modulo : simpl never.
Arguments N.of_nat : simpl never.
Arguments N.to_nat : simpl never.
Local Open Scope N_scope.

(* ---- rows of a store ------------------------------------------------------------ *)
Definition crow_kv (lock : bool) (r : crow) : key * value :=
  ((if lock then KCellLock else KCellType) (cr_s r) (cr_bn r) (cr_txi r) (cr_oi r), VTx (cr_tx r)).
Definition trow_kv' (lock : bool) (r : trow) : key * value := trow_kv (lock, r).

Lemma in_cell_rows : forall lock st r, In r (cell_rows lock st) <-> In (crow_kv lock r) st.
Proof.
  intros lock st r. unfold cell_rows. rewrite in_flat_map. split.
  - intros [[k v] [H1 H2]]. destruct k, v, lock; cbn in H2; try contradiction;
      destruct H2 as [<-|[]]; exact H1.
  - intro H. exists (crow_kv lock r). split; auto. destruct r, lock; cbn; auto.
Qed.
Lemma in_tx_rows : forall lock st r, In r (tx_rows lock st) <-> In (trow_kv' lock r) st.
Proof.
  intros lock st r. unfold tx_rows. rewrite in_flat_map. split.
  - intros [[k v] [H1 H2]]. destruct k, v, lock; cbn in H2; try contradiction;
      destruct H2 as [<-|[]]; exact H1.
  - intro H. exists (trow_kv' lock r). split; auto. destruct r, lock; cbn; auto.
Qed.

Lemma crow_kv_inj : forall lock r r', fst (crow_kv lock r) = fst (crow_kv lock r') ->
  snd (crow_kv lock r) = snd (crow_kv lock r') -> r = r'.
Proof. intros [] [] []; cbn; intros H1 H2; inversion H1; inversion H2; reflexivity. Qed.
Lemma trow_kv_inj : forall lock r r', fst (trow_kv' lock r) = fst (trow_kv' lock r') ->
  snd (trow_kv' lock r) = snd (trow_kv' lock r') -> r = r'.
Proof. intros [] [] []; cbn; intros H1 H2; inversion H1; inversion H2; reflexivity. Qed.

Lemma cell_rows_nodup : forall lock st, wf_store st -> NoDup (cell_rows lock st).
Proof.
  unfold wf_store. induction st as [|[k v] st IH]; intro W; cbn [cell_rows flat_map]. constructor.
  cbn [map fst] in W. inversion W; subst. specialize (IH H2). fold (cell_rows lock st).
  assert (P : forall r, In r (cell_rows lock st) -> fst (crow_kv lock r) <> k).
  { intros r Hr E. apply in_cell_rows in Hr. apply H1. rewrite <- E. apply in_map. exact Hr. }
  destruct k, v, lock; cbn [app]; auto; constructor; auto; intro HI; apply (P _ HI); reflexivity.
Qed.
Lemma tx_rows_nodup : forall lock st, wf_store st -> NoDup (tx_rows lock st).
Proof.
  unfold wf_store. induction st as [|[k v] st IH]; intro W; cbn [tx_rows flat_map]. constructor.
  cbn [map fst] in W. inversion W; subst. specialize (IH H2). fold (tx_rows lock st).
  assert (P : forall r, In r (tx_rows lock st) -> fst (trow_kv' lock r) <> k).
  { intros r Hr E. apply in_tx_rows in Hr. apply H1. rewrite <- E. apply in_map. exact Hr. }
  destruct k, v, lock; cbn [app]; auto; constructor; auto; intro HI; apply (P _ HI); reflexivity.
Qed.

(* ---- rows of the specification ---------------------------------------------------- *)
Lemma in_lcell_crow : forall lock c r, In r (lcell_crow lock c) <-> In (crow_kv lock r) (cell_kvs c).
Proof.
  intros lock c r. unfold lcell_crow, lcell_script, cell_kvs, crow_kv. destruct r as [s bn txi oi t]. cbn [cr_s cr_bn cr_txi cr_oi cr_tx].
  destruct lock; destruct (o_type (lc_out c)); cbn [In]; split; intro H;
    repeat match goal with
           | H : _ \/ _ |- _ => destruct H
           | H : False |- _ => contradiction
           | H : mkCrow _ _ _ _ _ = mkCrow _ _ _ _ _ |- _ => inversion H; clear H; subst
           | H : (_, _) = (_, _) |- _ => inversion H; clear H; subst
           end; auto.
Qed.
Lemma in_spec_cell_rows : forall lock ch r,
  In r (spec_cell_rows lock ch) <-> exists c, In c (live ch) /\ In (crow_kv lock r) (cell_kvs c).
Proof.
  intros. unfold spec_cell_rows. rewrite in_flat_map. split; intros [c [H1 H2]]; exists c; split; auto;
    apply in_lcell_crow; auto.
Qed.
Lemma in_spec_tx_rows : forall lock ch r, In r (spec_tx_rows lock ch) <-> In (lock, r) (txs ch).
Proof.
  intros. unfold spec_tx_rows. rewrite in_map_iff. split.
  - intros [[l r'] [<- H]]. apply filter_In in H. destruct H as [H1 H2]. cbn in *.
    apply Bool.eqb_prop in H2. subst. exact H1.
  - intro H. exists (lock, r). split; auto. apply filter_In. split; auto. cbn. apply Bool.eqb_reflx.
Qed.

Lemma spec_cell_rows_nodup : forall lock ch, NoDup (map lc_op (live ch)) -> NoDup (spec_cell_rows lock ch).
Proof.
  intros lock ch. unfold spec_cell_rows. induction (live ch) as [|c l IH]; intro H; cbn [flat_map]. constructor.
  cbn [map] in H. inversion H as [|x y Hnin Hnd]; subst. apply NoDup_app_intro; auto.
  - unfold lcell_crow. destruct (lcell_script lock c); repeat constructor; auto.
  - intros r H1 H2. apply in_flat_map in H2. destruct H2 as [c' [H4 H5]]. apply Hnin.
    apply in_lcell_crow in H1. apply in_lcell_crow in H5.
    rewrite (cell_kvs_same_op c c' _ _ H1 H5). apply in_map. exact H4.
Qed.
Lemma spec_tx_rows_nodup : forall lock ch, NoDup (txs ch) -> NoDup (spec_tx_rows lock ch).
Proof.
  intros lock ch H. unfold spec_tx_rows. apply NoDup_map_inj.
  - intros [l r] [l' r'] H1 H2 E. apply filter_In in H1. apply filter_In in H2. cbn in *.
    destruct H1 as [_ H1], H2 as [_ H2]. apply Bool.eqb_prop in H1. apply Bool.eqb_prop in H2. congruence.
  - apply NoDup_filter. exact H.
Qed.

(* ---- what the invariant says about the observable rows ------------------------------ *)
Lemma crow_kv_live : forall lock r, live_key (fst (crow_kv lock r)) = true.
Proof. intros [] r; reflexivity. Qed.

Lemma inv_cell_rows : forall s lock, Inv s ->
  Permutation (cell_rows lock (ix_store s)) (spec_cell_rows lock (ix_chain s)).
Proof.
  intros s lock HI. pose proof (chain_facts _ (inv_chain _ HI)) as F.
  apply NoDup_Permutation.
  - apply cell_rows_nodup. apply (inv_wf _ HI).
  - apply spec_cell_rows_nodup. apply (cf_nd _ F).
  - intro r. rewrite in_cell_rows, in_spec_cell_rows.
    rewrite (surjective_pairing (crow_kv lock r)).
    rewrite (in_get_iff _ _ _ (inv_wf _ HI)). rewrite (inv_live _ HI _ _ (crow_kv_live lock r)).
    rewrite in_live_kvs. split.
    + intros [H|[r' [H1 H2]]]; auto. exfalso.
      pose proof (trow_kv_key_info r') as K. rewrite H1 in K. destruct lock; exact K.
    + intro H. left. exact H.
Qed.

Lemma inv_tx_rows : forall s lock, Inv s ->
  Permutation (tx_rows lock (ix_store s)) (spec_tx_rows lock (ix_chain s)).
Proof.
  intros s lock HI. pose proof (chain_facts _ (inv_chain _ HI)) as F.
  apply NoDup_Permutation.
  - apply tx_rows_nodup. apply (inv_wf _ HI).
  - apply spec_tx_rows_nodup. apply (cf_tnd _ F).
  - intro r. rewrite in_tx_rows, in_spec_tx_rows.
    rewrite (surjective_pairing (trow_kv' lock r)).
    rewrite (in_get_iff _ _ _ (inv_wf _ HI)). unfold trow_kv'.
    rewrite (inv_live _ HI _ _ (trow_kv_live (lock, r))).
    rewrite in_live_kvs. split.
    + intros [[c [H1 H2]]|[r' [H1 H2]]].
      * exfalso. eapply cell_kvs_not_trow; eauto.
      * rewrite <- surjective_pairing in H1. destruct r' as [l' r'].
        assert (l' = lock).
        { destruct l', lock; auto; cbn in H1; inversion H1. }
        subst l'. assert (r' = r); [|subst; auto].
        apply (trow_kv_inj lock); unfold trow_kv'; rewrite H1; reflexivity.
    + intro H. right. exists (lock, r). split; auto.
Qed.

Lemma inv_outpoint : forall s op, Inv s ->
  get (ix_store s) (KOutPoint op) =
  match lookup_cell (live (ix_chain s)) op with
  | Some c => Some (VCell (lc_bn c) (lc_txi c) (lc_out c))
  | None => None end.
Proof.
  intros s op HI. destruct (lookup_cell (live (ix_chain s)) op) as [c|] eqn:E.
  - apply lookup_some in E. destruct E as [E <-]. apply (inv_live _ HI); auto.
    apply in_live_kvs. left. exists c. split; auto. left. reflexivity.
  - destruct (get (ix_store s) (KOutPoint op)) as [v|] eqn:G; auto. exfalso.
    apply (inv_live _ HI) in G; auto. apply in_live_kvs in G. destruct G as [[c [G1 G2]]|[r [G1 G2]]].
    + apply cell_kvs_key_info in G2. eapply (proj1 (lookup_none _ _) E); eauto.
    + pose proof (trow_kv_key_info r) as K. rewrite G1 in K. exact K.
Qed.

(* ---- T1 -------------------------------------------------------------------------------- *)
Theorem ops_ok_runs : forall keep interval ops s, ops_ok keep interval s ops = true ->
  exists s', irun keep interval s ops = Some s'.
Proof.
  induction ops as [|o ops IH]; intros s H; cbn [ops_ok irun] in *. eauto.
  apply andb_true_iff in H. destruct H as [_ H]. destruct (istep keep interval s o); [|discriminate]. auto.
Qed.

Theorem inv_reachable : forall keep interval ops s,
  ops_ok keep interval ix_empty ops = true -> irun keep interval ix_empty ops = Some s -> Inv s.
Proof. intros. eapply inv_run; eauto. apply inv_empty. Qed.

Theorem inv_eq_filter_rows : forall s, Inv s ->
  tip (ix_store s) = chain_tip (ix_chain s) /\
  (forall lock, Permutation (cell_rows lock (ix_store s)) (spec_cell_rows lock (ix_chain s))) /\
  (forall lock, Permutation (tx_rows lock (ix_store s)) (spec_tx_rows lock (ix_chain s))) /\
  (forall op, get (ix_store s) (KOutPoint op) =
     match lookup_cell (live (ix_chain s)) op with
     | Some c => Some (VCell (lc_bn c) (lc_txi c) (lc_out c))
     | None => None end).
Proof.
  intros s HI. split; [|split; [|split]].
  - apply inv_tip; auto.
  - intro. apply inv_cell_rows; auto.
  - intro. apply inv_tx_rows; auto.
  - intro. apply inv_outpoint; auto.
Qed.

Theorem indexer_eq_filter_rows : forall keep interval ops s,
  ops_ok keep interval ix_empty ops = true -> irun keep interval ix_empty ops = Some s ->
  tip (ix_store s) = chain_tip (ix_chain s) /\
  (forall lock, Permutation (cell_rows lock (ix_store s)) (spec_cell_rows lock (ix_chain s))) /\
  (forall lock, Permutation (tx_rows lock (ix_store s)) (spec_tx_rows lock (ix_chain s))) /\
  (forall op, get (ix_store s) (KOutPoint op) =
     match lookup_cell (live (ix_chain s)) op with
     | Some c => Some (VCell (lc_bn c) (lc_txi c) (lc_out c))
     | None => None end).
Proof. intros. apply inv_eq_filter_rows. eapply inv_reachable; eauto. Qed.

(* ---- two states over the same chain ------------------------------------------------------ *)
Lemma option_eq_of_iff : forall {A} (a b : option A), (forall v, a = Some v <-> b = Some v) -> a = b.
Proof.
  intros A [x|] [y|] H; auto.
  - symmetry. apply (proj1 (H x)). reflexivity.
  - symmetry. apply (proj1 (H x)). reflexivity.
  - apply (proj2 (H y)). reflexivity.
Qed.

Lemma inv_same_chain_get : forall s s' k, Inv s -> Inv s' -> ix_chain s = ix_chain s' ->
  live_key k = true -> get (ix_store s) k = get (ix_store s') k.
Proof.
  intros s s' k HI HI' E Hk. apply option_eq_of_iff. intro v.
  rewrite (inv_live _ HI k v Hk), (inv_live _ HI' k v Hk), E. reflexivity.
Qed.

(* ---- T3 ------------------------------------------------------------------------------------ *)
Theorem rollback_inverts_append_rows : forall keep interval s b s1 s2,
  Inv s -> block_ok (ix_chain s) b = true ->
  istep keep interval s (OAppend b) = Some s1 -> op_ok s1 ORollback = true ->
  istep keep interval s1 ORollback = Some s2 ->
  Inv s2 /\ ix_chain s2 = ix_chain s /\
  tip (ix_store s2) = tip (ix_store s) /\
  (forall lock, Permutation (cell_rows lock (ix_store s2)) (cell_rows lock (ix_store s))) /\
  (forall lock, Permutation (tx_rows lock (ix_store s2)) (tx_rows lock (ix_store s))) /\
  (forall op, get (ix_store s2) (KOutPoint op) = get (ix_store s) (KOutPoint op)) /\
  (forall sc bn txi ioi out, get (ix_store s2) (KTxLock sc bn txi ioi out) = get (ix_store s) (KTxLock sc bn txi ioi out)) /\
  (forall sc bn txi ioi out, get (ix_store s2) (KTxType sc bn txi ioi out) = get (ix_store s) (KTxType sc bn txi ioi out)) /\
  (forall sc bn txi oi, get (ix_store s2) (KCellLock sc bn txi oi) = get (ix_store s) (KCellLock sc bn txi oi)) /\
  (forall sc bn txi oi, get (ix_store s2) (KCellType sc bn txi oi) = get (ix_store s) (KCellType sc bn txi oi)).
Proof.
  intros keep interval s b s1 s2 HI HB H1 HO H2.
  assert (HI1 : Inv s1) by (exact (inv_step keep interval s (OAppend b) s1 HI HB H1)).
  assert (HI2 : Inv s2) by (exact (inv_step keep interval s1 ORollback s2 HI1 HO H2)).
  assert (E : ix_chain s2 = ix_chain s).
  { cbn [istep] in H1, H2. destruct (append keep interval (ix_store s) b); [|discriminate].
    inversion H1; subst s1. inversion H2; subst s2. cbn [ix_chain]. apply removelast_last. }
  split; auto. split; auto. split; [|split; [|split]].
  - rewrite (inv_tip _ HI2), (inv_tip _ HI), E. reflexivity.
  - intro lock. rewrite (inv_cell_rows _ lock HI2), (inv_cell_rows _ lock HI), E. reflexivity.
  - intro lock. rewrite (inv_tx_rows _ lock HI2), (inv_tx_rows _ lock HI), E. reflexivity.
  - repeat split; intros; apply inv_same_chain_get; auto.
Qed.

(* ---- T5: prune ------------------------------------------------------------------------------- *)
Lemma cell_rows_del : forall lock k st, live_key k = false -> cell_rows lock (del k st) = cell_rows lock st.
Proof.
  intros lock k st Hk. unfold del, cell_rows. induction st as [|[k' v] st IH]; cbn [filter flat_map fst]. reflexivity.
  destruct (key_eqb k k') eqn:E; cbn [negb flat_map].
  - apply key_eqb_spec in E. subst k'. rewrite IH. destruct k; try discriminate; reflexivity.
  - rewrite IH. reflexivity.
Qed.
Lemma tx_rows_del : forall lock k st, live_key k = false -> tx_rows lock (del k st) = tx_rows lock st.
Proof.
  intros lock k st Hk. unfold del, tx_rows. induction st as [|[k' v] st IH]; cbn [filter flat_map fst]. reflexivity.
  destruct (key_eqb k k') eqn:E; cbn [negb flat_map].
  - apply key_eqb_spec in E. subst k'. rewrite IH. destruct k; try discriminate; reflexivity.
  - rewrite IH. reflexivity.
Qed.
Lemma rows_commit_dels : forall ops st,
  (forall o, In o ops -> bop_res o = None /\ live_key (bop_key o) = false) ->
  (forall lock, cell_rows lock (commit st ops) = cell_rows lock st) /\
  (forall lock, tx_rows lock (commit st ops) = tx_rows lock st).
Proof.
  unfold commit. induction ops as [|o ops IH]; intros st H; cbn [fold_left]. auto.
  destruct (H o (or_introl eq_refl)) as [H1 H2]. destruct o as [k v|k]; [discriminate|]. cbn [apply_op bop_key] in *.
  destruct (IH (del k st) (fun o' Ho' => H o' (or_intror Ho'))) as [G1 G2].
  split; intro lock. rewrite G1. apply cell_rows_del; auto. rewrite G2. apply tx_rows_del; auto.
Qed.

Theorem prune_keeps_live : forall st keep,
  (forall lock, cell_rows lock (prune st keep) = cell_rows lock st) /\
  (forall lock, tx_rows lock (prune st keep) = tx_rows lock st) /\
  (forall k, live_key k = true -> get (prune st keep) k = get st k) /\
  (forall op, get (prune st keep) (KOutPoint op) = get st (KOutPoint op)).
Proof.
  intros st keep. pose proof (rows_commit_dels (prune_ops st keep) st (prune_ops_dels st keep)) as [H1 H2].
  assert (H3 : forall k, live_key k = true -> get (prune st keep) k = get st k).
  { intros k Hk. unfold prune. apply get_commit_other. intro HI. apply in_map_iff in HI.
    destruct HI as [o [E Ho]]. apply prune_ops_dels in Ho. destruct Ho as [_ Ho]. congruence. }
  repeat split; auto.
Qed.

Theorem prune_keeps_tip : forall s keep, Inv s -> tip (prune (ix_store s) keep) = tip (ix_store s).
Proof.
  intros s keep HI. destruct (ix_chain s) as [|x l] eqn:E.
  - pose proof (inv_tip s HI) as T. rewrite E in T. cbn in T. unfold prune, prune_ops. rewrite T. unfold commit. cbn [fold_left]. exact T.
  - destruct (exists_last (l := x :: l)) as [ch0 [bl E']]. discriminate. rewrite E' in E.
    pose proof (inv_prune s keep ch0 bl HI E) as HP. apply inv_tip in HP. cbn [ix_store ix_chain] in HP.
    rewrite HP. symmetry. apply inv_tip; auto.
Qed.

(* ---- T4: a spent outpoint never comes back ---------------------------------------------------- *)
Lemma chain_ok_app_inv : forall a r, chain_ok (a ++ r) -> chain_ok a.
Proof.
  intros a r. induction r as [|x r IH] using rev_ind; intro H.
  - rewrite app_nil_r in H. exact H.
  - rewrite app_assoc in H. apply chain_ok_snoc_inv in H. tauto.
Qed.

Lemma spent_never_live : forall rest chp B j t op,
  chain_ok (chp ++ B :: rest) -> nth_error (b_txs B) j = Some t -> In op (tx_ins (N.of_nat j) t) ->
  In (fst op) (chain_tx_ids (chp ++ [B])) /\ forall c, In c (live (chp ++ B :: rest)) -> lc_op c <> op.
Proof.
  induction rest as [|b' rest IH] using rev_ind; intros chp B j t op CO Hj Hop.
  - replace (chp ++ [B]) with (chp ++ [B]) in * by reflexivity.
    apply chain_ok_snoc_inv in CO. destruct CO as [CO HB].
    pose proof (block_seq_facts chp B (b_txs B) [] (chain_facts _ CO) HB (eq_sym (app_nil_r _))) as SF.
    assert (SP : spent_in (b_txs B) op) by (exists j, t; auto). split.
    + rewrite chain_tx_ids_snoc. apply (sf_spent_ids _ _ _ _ _ SF). exact SP.
    + intros c Hc E. rewrite live_snoc in Hc. apply (sf_unspent _ _ _ _ _ SF c Hc). rewrite E. exact SP.
  - replace (chp ++ B :: rest ++ [b']) with ((chp ++ B :: rest) ++ [b']) in * by (rewrite <- app_assoc; reflexivity).
    apply chain_ok_snoc_inv in CO. destruct CO as [CO HB].
    destruct (IH chp B j t op CO Hj Hop) as [IH1 IH2]. split; auto.
    pose proof (block_seq_facts _ b' (b_txs b') [] (chain_facts _ CO) HB (eq_sym (app_nil_r _))) as SF.
    intros c Hc E. rewrite live_snoc in Hc. apply (sf_origin _ _ _ _ _ SF) in Hc.
    destruct Hc as [Hc|[j' [t' [G1 G2]]]].
    + apply (IH2 c Hc E).
    + apply in_new_cells in G2. destruct G2 as [oi [o [_ ->]]]. cbn [lc_op] in E. subst op. cbn [fst] in IH1.
      apply block_ok_parts in HB. destruct HB as [_ [_ [_ [_ FR]]]]. apply (FR t').
      eapply nth_error_In; eauto.
      unfold chain_tx_ids in *. rewrite flat_map_app in *. apply in_app_or in IH1. apply in_or_app.
      destruct IH1 as [IH1|IH1]; auto. right. cbn [flat_map] in *. rewrite app_nil_r in IH1.
      apply in_or_app. auto.
Qed.

Lemma live_cells_sound : forall s lock p op, Inv s ->
  In op (live_cells_by_script (ix_store s) lock p) -> exists c, In c (live (ix_chain s)) /\ lc_op c = op.
Proof.
  intros s lock p op HI H. unfold live_cells_by_script, scan_cells in H. apply in_map_iff in H.
  destruct H as [r [E H]].
  assert (Hr : In r (cell_rows lock (ix_store s))).
  { apply (Permutation_in _ (sort_by_perm crow_key _)) in H. apply filter_In in H. tauto. }
  apply (Permutation_in _ (inv_cell_rows s lock HI)) in Hr. apply in_spec_cell_rows in Hr.
  destruct Hr as [c [Hc Hk]]. exists c. split; auto. rewrite <- E.
  unfold cell_kvs, crow_kv in Hk. destruct (lc_op c) as [a1 a2]. cbn [fst snd] in Hk.
  destruct lock; destruct (o_type (lc_out c)); cbn [In] in Hk;
    repeat match goal with
           | H : _ \/ _ |- _ => destruct H
           | H : False |- _ => contradiction
           | H : (_, _) = (_, _) |- _ => inversion H; clear H; subst
           end; reflexivity.
Qed.

Theorem same_block_create_spend : forall keep interval ops s chp B rest pre1 t1 mid t2 post oi,
  ops_ok keep interval ix_empty ops = true -> irun keep interval ix_empty ops = Some s ->
  ix_chain s = chp ++ B :: rest ->
  b_txs B = pre1 ++ t1 :: mid ++ t2 :: post ->
  (oi < length (t_outputs t1))%nat ->
  In (t_id t1, N.of_nat oi) (t_inputs t2) ->
  get (ix_store s) (KOutPoint (t_id t1, N.of_nat oi)) = None /\
  (forall lock p, ~ In (t_id t1, N.of_nat oi) (live_cells_by_script (ix_store s) lock p)) /\
  (forall c, In c (live (ix_chain s)) -> lc_op c <> (t_id t1, N.of_nat oi)).
Proof.
  intros keep interval ops s chp B rest pre1 t1 mid t2 post oi HO HR E ET _ Hin.
  pose proof (inv_reachable _ _ _ _ HO HR) as HI.
  set (j := length (pre1 ++ t1 :: mid)).
  assert (Hj : nth_error (b_txs B) j = Some t2).
  { rewrite ET. replace (pre1 ++ t1 :: mid ++ t2 :: post) with ((pre1 ++ t1 :: mid) ++ t2 :: post)
      by (rewrite <- app_assoc; reflexivity). apply nth_error_app_mid. }
  assert (Hop : In (t_id t1, N.of_nat oi) (tx_ins (N.of_nat j) t2)).
  { unfold tx_ins. assert (0 <? N.of_nat j = true) as ->; auto. apply N.ltb_lt.
    unfold j. rewrite app_length. cbn [length]. lia. }
  pose proof (inv_chain _ HI) as CO. rewrite E in CO.
  destruct (spent_never_live rest chp B j t2 _ CO Hj Hop) as [_ DEAD]. rewrite <- E in DEAD.
  split; [|split]; auto.
  - rewrite (inv_outpoint s _ HI). rewrite (proj2 (lookup_none _ _) DEAD). reflexivity.
  - intros lock p H. apply (live_cells_sound s lock p _ HI) in H. destruct H as [c [H1 H2]].
    apply (DEAD c H1 H2).
Qed.

(* ---- distinct rows have distinct key bytes ------------------------------------------------------ *)
Theorem inv_rows_inj : forall s, Inv s -> rows_inj (ix_store s).
Proof.
  intros s HI. pose proof (chain_ranges _ (inv_chain _ HI)) as [RC RT]. split.
  - intros lock x y Hx Hy E.
    assert (R : forall r, In r (cell_rows lock (ix_store s)) ->
              cr_bn r < 18446744073709551616 /\ cr_txi r < 4294967296 /\ cr_oi r < 4294967296).
    { intros r Hr. apply (Permutation_in _ (inv_cell_rows s lock HI)) in Hr. apply in_spec_cell_rows in Hr.
      destruct Hr as [c [Hc Hk]]. apply RC in Hc. apply cell_kvs_key_info in Hk. unfold crange in Hc.
      destruct lock; cbn in Hk; destruct Hk as [-> [-> ->]]; exact Hc. }
    destruct (R x Hx) as [X1 [X2 X3]]. destruct (R y Hy) as [Y1 [Y2 Y3]].
    unfold crow_key in E. apply enc_cell_inj in E; auto. destruct E as [E1 [E2 [E3 E4]]].
    apply in_cell_rows in Hx. apply in_cell_rows in Hy.
    assert (K : fst (crow_kv lock x) = fst (crow_kv lock y)).
    { unfold crow_kv. cbn [fst]. congruence. }
    apply (crow_kv_inj lock); auto.
    rewrite (surjective_pairing (crow_kv lock x)) in Hx. rewrite (surjective_pairing (crow_kv lock y)) in Hy.
    apply (in_get _ _ _ (inv_wf _ HI)) in Hx. apply (in_get _ _ _ (inv_wf _ HI)) in Hy. congruence.
  - intros lock x y Hx Hy E.
    assert (R : forall r, In r (tx_rows lock (ix_store s)) -> trange r).
    { intros r Hr. apply (Permutation_in _ (inv_tx_rows s lock HI)) in Hr. apply in_spec_tx_rows in Hr.
      apply RT in Hr. exact Hr. }
    destruct (R x Hx) as [X1 [X2 X3]]. destruct (R y Hy) as [Y1 [Y2 Y3]].
    unfold trow_key in E. apply enc_tx_inj in E; auto. destruct E as [E1 [E2 [E3 [E4 E5]]]].
    apply in_tx_rows in Hx. apply in_tx_rows in Hy.
    assert (K : fst (trow_kv' lock x) = fst (trow_kv' lock y)).
    { unfold trow_kv', trow_kv. cbn [fst snd]. congruence. }
    apply (trow_kv_inj lock); auto.
    rewrite (surjective_pairing (trow_kv' lock x)) in Hx. rewrite (surjective_pairing (trow_kv' lock y)) in Hy.
    apply (in_get _ _ _ (inv_wf _ HI)) in Hx. apply (in_get _ _ _ (inv_wf _ HI)) in Hy. congruence.
Qed.

(* ---- T2 ------------------------------------------------------------------------------------------ *)
Theorem inv_eq_filter : forall s, Inv s ->
  tip (ix_store s) = chain_tip (ix_chain s) /\
  (forall lock p, live_cells_by_script (ix_store s) lock p = spec_live_cells_by_script (ix_chain s) lock p) /\
  (forall lock p, transactions_by_script (ix_store s) lock p = spec_transactions_by_script (ix_chain s) lock p).
Proof.
  intros s HI. destruct (inv_rows_inj s HI) as [J1 J2]. split; [apply inv_tip; auto|]. split; intros lock p.
  - unfold live_cells_by_script, spec_live_cells_by_script, scan_cells. f_equal.
    apply sort_filter_canonical. apply inv_cell_rows; auto. apply J1.
  - unfold transactions_by_script, spec_transactions_by_script, scan_txs. f_equal.
    apply sort_filter_canonical. apply inv_tx_rows; auto. apply J2.
Qed.

Theorem indexer_eq_filter : forall keep interval ops s,
  ops_ok keep interval ix_empty ops = true -> irun keep interval ix_empty ops = Some s ->
  tip (ix_store s) = chain_tip (ix_chain s) /\
  (forall lock p, live_cells_by_script (ix_store s) lock p = spec_live_cells_by_script (ix_chain s) lock p) /\
  (forall lock p, transactions_by_script (ix_store s) lock p = spec_transactions_by_script (ix_chain s) lock p).
Proof. intros. apply inv_eq_filter. eapply inv_reachable; eauto. Qed.

Theorem rollback_inverts_append : forall keep interval s b s1 s2,
  Inv s -> block_ok (ix_chain s) b = true ->
  istep keep interval s (OAppend b) = Some s1 -> op_ok s1 ORollback = true ->
  istep keep interval s1 ORollback = Some s2 ->
  tip (ix_store s2) = tip (ix_store s) /\
  (forall lock p, live_cells_by_script (ix_store s2) lock p = live_cells_by_script (ix_store s) lock p) /\
  (forall lock p, transactions_by_script (ix_store s2) lock p = transactions_by_script (ix_store s) lock p).
Proof.
  intros keep interval s b s1 s2 HI HB H1 HO H2.
  destruct (rollback_inverts_append_rows keep interval s b s1 s2 HI HB H1 HO H2) as [HI2 [E [T _]]].
  destruct (inv_eq_filter s HI) as [_ [A1 A2]]. destruct (inv_eq_filter s2 HI2) as [_ [B1 B2]].
  split; auto. split; intros lock p.
  - rewrite A1, B1, E. reflexivity.
  - rewrite A2, B2, E. reflexivity.
Qed.

Print Assumptions indexer_eq_filter_rows.
Print Assumptions indexer_eq_filter.
Print Assumptions rollback_inverts_append_rows.
Print Assumptions rollback_inverts_append.
Print Assumptions same_block_create_spend.
Print Assumptions prune_keeps_live.
Print Assumptions prune_keeps_tip.
Print Assumptions valid_append_never_panics.
