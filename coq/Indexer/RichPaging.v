(* Indexer/RichPaging.v — model of the cursor of the rich indexer's ungrouped
   get_transactions (util/rich-indexer/src/indexer_handle/async_indexer_handle/
   get_transactions.rs): a page is `… WHERE tx_id >= last ORDER BY tx_id LIMIT
   limit OFFSET offset` over the ordered answer, last_cursor is (tx_id of the
   last row, number of rows of that transaction already returned).  [OldRule]
   counts that number from zero on every page (the code before fix 9118212),
   [FixedRule] continues from the incoming cursor.  Ascending order; descending
   is the mirror image.  No proofs here (RichPagingProofs.v). *)
From Coq Require Export List NArith Bool Arith Lia Sorted.
Export ListNotations.

Section Cursor.
  Context {X : Type}.
  Definition prow := (N * X)%type.                (* tx_id, the rest of the row *)
  Definition cursor := (N * nat)%type.            (* last tx_id, offset *)
  Definition page (rows : list prow) (cur : option cursor) (limit : nat) : list prow :=
    match cur with
    | None => firstn limit rows
    | Some (last, off) => firstn limit (skipn off (filter (fun r => N.leb last (fst r)) rows))
    end.
  (* the loop over the rows of a page: `if id == last_id { count += 1 } else { last_id = id; count = 1 }` *)
  Fixpoint count_rows (st : cursor) (p : list prow) : cursor :=
    match p with
    | [] => st
    | r :: p' => count_rows (if N.eqb (fst r) (fst st) then (fst st, S (snd st)) else (fst r, 1%nat)) p'
    end.
  Inductive rule := OldRule | FixedRule.
  Definition start_state (ru : rule) (cur : option cursor) : cursor :=
    match ru, cur with FixedRule, Some c => c | _, _ => (0%N, 0%nat) end.
  Definition next_cursor (ru : rule) (cur : option cursor) (p : list prow) : cursor :=
    count_rows (start_state ru cur) p.
  (* a client following last_cursor until a page is shorter than the limit *)
  Fixpoint walk (ru : rule) (rows : list prow) (fuel : nat) (cur : option cursor) (limit : nat) : list prow :=
    match fuel with
    | O => []
    | S f => let p := page rows cur limit in
             if Nat.ltb (length p) limit then p
             else p ++ walk ru rows f (Some (next_cursor ru cur p)) limit
    end.
  Definition id_sorted (rows : list prow) : Prop := StronglySorted (fun a b => (fst a <= fst b)%N) rows.
End Cursor.
