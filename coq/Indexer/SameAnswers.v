(* Indexer/SameAnswers.v — every answer of the query layer (Indexer/Query.v:
   tip, live cells / transactions by script, get_cells, get_cells_capacity,
   get_transactions ungrouped and grouped, with every filter, order, limit and
   cursor) is a function of the live rows only: two stores that agree on the
   tip, on the rows of the four script-indexed tables (as sets) and on the
   OutPoint / TxLockScript / TxTypeScript point reads give identical answers.
   This is what turns "rollback restores the live rows" and "the live rows are
   the replay of the chain" into statements about every query. *)
From CKB Require Import Indexer.Query.
From Coq Require Import Permutation Sorted RelationClasses.

Arguments N.add : simpl never.
Arguments N.sub : simpl never.
Arguments N.mul : simpl never.
Arguments N.div : simpl never.
Arguments N.modulo : simpl never.

(* ---- the byte order -------------------------------------------------------- *)
Lemma lex_leb_total : forall a b, lex_leb a b = true \/ lex_leb b a = true.
Proof.
  induction a as [|x a IH]; intros [|y b]; cbn; auto.
  destruct (N.lt_trichotomy x y) as [H|[H|H]].
  - left. apply N.ltb_lt in H. rewrite H. reflexivity.
  - subst y. rewrite N.ltb_irrefl, N.eqb_refl. cbn. apply IH.
  - right. apply N.ltb_lt in H. rewrite H. reflexivity.
Qed.

Lemma lex_leb_cons : forall x a y b,
  lex_leb (x :: a) (y :: b) = true <-> (x < y)%N \/ (x = y /\ lex_leb a b = true).
Proof.
  intros. cbn. rewrite orb_true_iff, andb_true_iff, N.ltb_lt, N.eqb_eq. tauto.
Qed.

Lemma lex_leb_trans : forall a b c, lex_leb a b = true -> lex_leb b c = true -> lex_leb a c = true.
Proof.
  induction a as [|x a IH]; intros [|y b] [|z c] H1 H2; try reflexivity; try discriminate.
  apply lex_leb_cons in H1. apply lex_leb_cons in H2. apply lex_leb_cons.
  destruct H1 as [H1|[-> H1]], H2 as [H2|[-> H2]].
  - left. lia.
  - left. assumption.
  - left. assumption.
  - right. split; [reflexivity|]. eapply IH; eassumption.
Qed.

Lemma lex_leb_antisym : forall a b, lex_leb a b = true -> lex_leb b a = true -> a = b.
Proof.
  induction a as [|x a IH]; intros [|y b] H1 H2; try reflexivity; try discriminate.
  apply lex_leb_cons in H1. apply lex_leb_cons in H2.
  destruct H1 as [H1|[-> H1]], H2 as [H2|[E H2]]; try lia.
  f_equal. apply IH; assumption.
Qed.

(* ---- insertion sort is canonical -------------------------------------------- *)
Section Canon.
  Context {A : Type} (keyof : A -> list N).
  Definition kle (x y : A) : Prop := lex_leb (keyof x) (keyof y) = true.

  Lemma insert_by_perm : forall x l, Permutation (insert_by keyof x l) (x :: l).
  Proof.
    induction l as [|y l IH]; cbn; [reflexivity|].
    destruct (lex_leb (keyof x) (keyof y)); [reflexivity|].
    rewrite IH. apply perm_swap.
  Qed.
  Lemma sort_by_perm : forall l, Permutation (sort_by keyof l) l.
  Proof.
    induction l as [|x l IH]; cbn; [reflexivity|].
    rewrite insert_by_perm. constructor. exact IH.
  Qed.

  Lemma insert_by_sorted : forall x l, StronglySorted kle l -> StronglySorted kle (insert_by keyof x l).
  Proof.
    induction l as [|y l IH]; intros Hs; cbn.
    - constructor; constructor.
    - inversion Hs as [|? ? Hs' Hall]; subst.
      destruct (lex_leb (keyof x) (keyof y)) eqn:E.
      + constructor; [assumption|]. constructor; [exact E|].
        eapply Forall_impl; [|exact Hall]. intros z Hz. unfold kle in *. eapply lex_leb_trans; eassumption.
      + constructor; [apply IH; assumption|].
        assert (Hyx : kle y x).
        { unfold kle. destruct (lex_leb_total (keyof x) (keyof y)) as [H|H]; [congruence|exact H]. }
        rewrite Forall_forall. intros z Hz.
        apply (Permutation_in _ (insert_by_perm x l)) in Hz. destruct Hz as [<-|Hz]; [exact Hyx|].
        rewrite Forall_forall in Hall. apply Hall. exact Hz.
  Qed.
  Lemma sort_by_sorted : forall l, StronglySorted kle (sort_by keyof l).
  Proof.
    induction l as [|x l IH]; cbn; [constructor|]. apply insert_by_sorted. exact IH.
  Qed.

  Lemma sorted_perm_unique : forall l l',
    StronglySorted kle l -> StronglySorted kle l' -> Permutation l l' ->
    (forall x y, In x l -> In y l -> keyof x = keyof y -> x = y) ->
    l = l'.
  Proof.
    induction l as [|x l IH]; intros l' Hs Hs' Hp Hinj.
    - apply Permutation_nil in Hp. subst. reflexivity.
    - destruct l' as [|x' l'].
      { apply Permutation_sym, Permutation_nil in Hp. discriminate. }
      inversion Hs as [|? ? Hs1 Hall]; subst. inversion Hs' as [|? ? Hs1' Hall']; subst.
      assert (Hx : x = x').
      { assert (H1 : In x (x' :: l')) by (eapply Permutation_in; [exact Hp|left; reflexivity]).
        assert (H2 : In x' (x :: l)) by (eapply Permutation_in; [apply Permutation_sym; exact Hp|left; reflexivity]).
        destruct H1 as [H1|H1]; [congruence|]. destruct H2 as [H2|H2]; [congruence|].
        rewrite Forall_forall in Hall, Hall'.
        apply Hinj; [left; reflexivity|right; exact H2|].
        apply lex_leb_antisym; [apply Hall; exact H2|apply Hall'; exact H1]. }
      subst x'. f_equal. apply IH; try assumption.
      + eapply Permutation_cons_inv. exact Hp.
      + intros a b Ha Hb. apply Hinj; right; assumption.
  Qed.

  Lemma sort_by_canonical : forall l l',
    Permutation l l' ->
    (forall x y, In x l -> In y l -> keyof x = keyof y -> x = y) ->
    sort_by keyof l = sort_by keyof l'.
  Proof.
    intros l l' Hp Hinj. apply sorted_perm_unique; try apply sort_by_sorted.
    - rewrite sort_by_perm. rewrite Hp. symmetry. apply sort_by_perm.
    - intros x y Hx Hy. apply Hinj; eapply Permutation_in; try apply sort_by_perm; assumption.
  Qed.

  Lemma filter_perm : forall (f : A -> bool) l l', Permutation l l' -> Permutation (filter f l) (filter f l').
  Proof.
    intros f l l' Hp. induction Hp; cbn.
    - constructor.
    - destruct (f x); [constructor|]; assumption.
    - destruct (f x), (f y); try reflexivity. apply perm_swap.
    - etransitivity; eassumption.
  Qed.

  Lemma sort_filter_canonical : forall (f : A -> bool) l l',
    Permutation l l' ->
    (forall x y, In x l -> In y l -> keyof x = keyof y -> x = y) ->
    sort_by keyof (filter f l) = sort_by keyof (filter f l').
  Proof.
    intros f l l' Hp Hinj. apply sort_by_canonical; [apply filter_perm; exact Hp|].
    intros x y Hx Hy. apply filter_In in Hx. apply filter_In in Hy. apply Hinj; tauto.
  Qed.

  Lemma iter_rows_canonical : forall rows rows' p desc after,
    Permutation rows rows' ->
    (forall x y, In x rows -> In y rows -> keyof x = keyof y -> x = y) ->
    iter_rows keyof rows p desc after = iter_rows keyof rows' p desc after.
  Proof.
    intros rows rows' p desc after Hp Hinj. unfold iter_rows.
    destruct desc, after as [c|];
      rewrite (sort_filter_canonical _ rows rows' Hp Hinj); reflexivity.
  Qed.
End Canon.

(* ---- stores that agree on the live rows -------------------------------------- *)
Record live_equiv (st st' : store) : Prop := mkLE {
  le_tip : tip st = tip st';
  le_cells : forall lock, Permutation (cell_rows lock st) (cell_rows lock st');
  le_txs : forall lock, Permutation (tx_rows lock st) (tx_rows lock st');
  le_op : forall op, get st (KOutPoint op) = get st' (KOutPoint op);
  le_txlock : forall s bn txi ioi out,
      get st (KTxLock s bn txi ioi out) = get st' (KTxLock s bn txi ioi out);
  le_txtype : forall s bn txi ioi out,
      get st (KTxType s bn txi ioi out) = get st' (KTxType s bn txi ioi out) }.

(* distinct rows have distinct keys (true of every store the indexer builds
   from a chain whose numbers fit the Rust integer types) *)
Definition rows_inj (st : store) : Prop :=
  (forall lock x y, In x (cell_rows lock st) -> In y (cell_rows lock st) -> crow_key x = crow_key y -> x = y) /\
  (forall lock x y, In x (tx_rows lock st) -> In y (tx_rows lock st) -> trow_key x = trow_key y -> x = y).

Section Same.
  Variables st st' : store.
  Hypothesis LE : live_equiv st st'.
  Hypothesis INJ : rows_inj st.

  Lemma cell_iter_same : forall lock p desc after,
    iter_rows crow_key (cell_rows lock st) p desc after = iter_rows crow_key (cell_rows lock st') p desc after.
  Proof.
    intros. apply iter_rows_canonical; [apply (le_cells _ _ LE)|]. destruct INJ as [H _]. apply H.
  Qed.
  Lemma tx_iter_same : forall lock p desc after,
    iter_rows trow_key (tx_rows lock st) p desc after = iter_rows trow_key (tx_rows lock st') p desc after.
  Proof.
    intros. apply iter_rows_canonical; [apply (le_txs _ _ LE)|]. destruct INJ as [_ H]. apply H.
  Qed.

  Lemma collect_cells_same : forall q cap rows lim,
    collect_cells st q cap lim rows = collect_cells st' q cap lim rows.
  Proof.
    intros q cap. induction rows as [|r rows IH]; intros lim; [reflexivity|].
    cbn [collect_cells]. destruct lim as [|lim']; [reflexivity|].
    rewrite (le_op _ _ LE). rewrite !IH. reflexivity.
  Qed.

  Lemma trow_pass_same : forall q r, trow_pass st q r = trow_pass st' q r.
  Proof.
    intros q r. unfold trow_pass. destruct (f_script (sq_f q)) as [fs|]; [|reflexivity].
    destruct (sq_lock q); [rewrite (le_txtype _ _ LE)|rewrite (le_txlock _ _ LE)]; reflexivity.
  Qed.
  Lemma collect_txs_same : forall q rows lim,
    collect_txs st q lim rows = collect_txs st' q lim rows.
  Proof.
    intros q. induction rows as [|r rows IH]; intros lim; [reflexivity|].
    cbn [collect_txs]. destruct lim as [|lim']; [reflexivity|].
    rewrite trow_pass_same, !IH. reflexivity.
  Qed.
  Lemma group_loop_same : forall q rows acc lk,
    group_loop st q rows acc lk = group_loop st' q rows acc lk.
  Proof.
    intros q. induction rows as [|r rows IH]; intros acc lk; [reflexivity|].
    cbn [group_loop]. rewrite trow_pass_same.
    destruct (trow_exact_skip q r); [apply IH|].
    destruct acc as [|[[[t bn] txi] cells] acc']; cbn;
      repeat match goal with |- context [if ?c then _ else _] => destruct c end;
      rewrite ?IH; reflexivity.
  Qed.

  Theorem same_answers : forall q, run_query st q = run_query st' q.
  Proof.
    intros [ | lock s | lock s | q | q | q | q]; cbn [run_query].
    - rewrite (le_tip _ _ LE). reflexivity.
    - unfold live_cells_by_script, scan_cells. f_equal. f_equal.
      apply sort_filter_canonical; [apply (le_cells _ _ LE)|]. destruct INJ as [H _]. apply H.
    - unfold transactions_by_script, scan_txs. f_equal. f_equal.
      apply sort_filter_canonical; [apply (le_txs _ _ LE)|]. destruct INJ as [_ H]. apply H.
    - unfold get_cells. rewrite cell_iter_same, collect_cells_same. reflexivity.
    - unfold get_cells_capacity. rewrite cell_iter_same, collect_cells_same, (le_tip _ _ LE). reflexivity.
    - unfold get_transactions. rewrite tx_iter_same, collect_txs_same. reflexivity.
    - unfold get_transactions_grouped. rewrite tx_iter_same, group_loop_same. reflexivity.
  Qed.
End Same.
