(* Indexer/Canon.v — the reference store of a chain: exactly the rows a direct
   filter over the replayed main chain yields (live cells, their lock/type
   script rows, the transaction rows of the history, the tip), nothing else.
   "The indexer answers like a direct filter over the chain" is stated as:
   every query gives the same answer on the indexer's store and on
   [canon_store chain].  Definitions only. *)
From CKB Require Export Indexer.Query.

Definition canon_store (ch : list block) : store :=
  map (fun c => (KOutPoint (lc_op c), VCell (lc_bn c) (lc_txi c) (lc_out c))) (live ch)
  ++ map (fun r => (KCellLock (cr_s r) (cr_bn r) (cr_txi r) (cr_oi r), VTx (cr_tx r))) (spec_cell_rows true ch)
  ++ map (fun r => (KCellType (cr_s r) (cr_bn r) (cr_txi r) (cr_oi r), VTx (cr_tx r))) (spec_cell_rows false ch)
  ++ map (fun r => (KTxLock (tr_s r) (tr_bn r) (tr_txi r) (tr_ioi r) (tr_out r), VTx (tr_tx r))) (spec_tx_rows true ch)
  ++ map (fun r => (KTxType (tr_s r) (tr_bn r) (tr_txi r) (tr_ioi r) (tr_out r), VTx (tr_tx r))) (spec_tx_rows false ch)
  ++ match chain_tip ch with Some (n, i) => [(KHeader n i false, VTxs [])] | None => [] end.
