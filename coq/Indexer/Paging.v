(* Indexer/Paging.v — limits: the objects of a page are the first [limit]
   elements of the filtered row sequence (rows in key order from the start
   position, exact-mode and filter conditions applied). *)
From CKB Require Import Indexer.Query.

Definition txs_keep (st : store) (q : squery) (r : trow) : bool :=
  negb (trow_exact_skip q r) && trow_pass st q r.

Theorem collect_txs_firstn : forall st q rows lim,
  collect_txs st q lim rows = firstn lim (filter (txs_keep st q) rows).
Proof.
  intros st q. induction rows as [|r rows IH]; intros lim.
  - destruct lim; reflexivity.
  - cbn [collect_txs filter]. unfold txs_keep at 1.
    destruct lim as [|lim'].
    + destruct (negb (trow_exact_skip q r) && trow_pass st q r); reflexivity.
    + destruct (trow_exact_skip q r); cbn [negb andb]; [apply IH|].
      destruct (trow_pass st q r); [cbn [firstn]; rewrite IH; reflexivity|apply IH].
Qed.

Corollary get_transactions_objects : forall st q,
  fst (get_transactions st q) =
  map (fun r => (tr_tx r, tr_bn r, tr_txi r, tr_ioi r, tr_out r))
      (firstn (sq_limit q)
         (filter (txs_keep st q)
            (iter_rows trow_key (tx_rows (sq_lock q) st) (sq_script q) (sq_desc q) (sq_after q)))).
Proof. intros. unfold get_transactions. cbn [fst]. rewrite collect_txs_firstn. reflexivity. Qed.

(* cells: when every visited row has its OutPoint row (no panic), a page is the
   first [limit] cells of the unlimited answer *)
Theorem collect_cells_firstn : forall st q cap rows full,
  collect_cells st q cap (S (length rows)) rows = Some full ->
  forall lim, collect_cells st q cap lim rows = Some (firstn lim full).
Proof.
  intros st q cap. induction rows as [|r rows IH]; intros full Hfull lim.
  - cbn in Hfull. injection Hfull as <-. destruct lim; reflexivity.
  - assert (Hmono : forall n l, n >= length l ->
              collect_cells st q cap n l = collect_cells st q cap (S (length l)) l).
    { clear. intros n l. revert n. induction l as [|x l IHl]; intros n Hn; [destruct n; reflexivity|].
      cbn [length] in *. destruct n as [|n]; [lia|].
      cbn [collect_cells].
      destruct (sq_exact q && negb (Nat.eqb (length (crow_key x)) (length (sq_script q) + 16))).
      - rewrite (IHl (S n)) by lia. rewrite (IHl (S (S (length l)))) by lia. reflexivity.
      - destruct (get st (KOutPoint (cr_tx x, cr_oi x))) as [[bn txi o| | |]|]; try reflexivity.
        destruct (cell_pass cap (sq_lock q) (sq_f q) bn o).
        + rewrite (IHl n) by lia. reflexivity.
        + rewrite (IHl (S n)) by lia. rewrite (IHl (S (S (length l)))) by lia. reflexivity. }
    cbn [length] in Hfull. cbn [collect_cells] in Hfull |- *.
    destruct lim as [|lim']; [reflexivity|].
    destruct (sq_exact q && negb (Nat.eqb (length (crow_key r)) (length (sq_script q) + 16))).
    + rewrite Hmono in Hfull by lia. apply IH. exact Hfull.
    + destruct (get st (KOutPoint (cr_tx r, cr_oi r))) as [[bn txi o| | |]|]; try discriminate.
      destruct (cell_pass cap (sq_lock q) (sq_f q) bn o).
      * destruct (collect_cells st q cap (S (length rows)) rows) as [rest|] eqn:E; [|discriminate].
        cbn in Hfull. injection Hfull as <-. rewrite (IH rest eq_refl lim'). reflexivity.
      * rewrite Hmono in Hfull by lia. apply IH. exact Hfull.
Qed.
