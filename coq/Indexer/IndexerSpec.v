(* Indexer/IndexerSpec.v — facts about the specification side (replay of the
   main chain): list utilities, the per-transaction view of replay_block,
   well-formedness of the live set of a valid chain. *)
From CKB Require Import Indexer.Indexer Indexer.IndexerLemmas.
From Coq Require Import Permutation.
Arguments N.add : simpl never.
Arguments N.sub : simpl never.
Arguments N.mul : simpl never.
Arguments N.div : simpl never.
Arguments N.modulo : simpl never.
Arguments N.of_nat : simpl never.
Arguments N.to_nat : simpl never.
Local Open Scope N_scope.

(* ---- mapi -------------------------------------------------------------------- *)
Lemma mapi_app : forall {A B} (f : N -> A -> B) a b i,
  mapi f i (a ++ b) = mapi f i a ++ mapi f (i + N.of_nat (length a)) b.
Proof.
  induction a as [|x a IH]; intros b i; cbn [mapi app length].
  - f_equal. lia.
  - rewrite IH. do 3 f_equal. lia.
Qed.
Lemma mapi_length : forall {A B} (f : N -> A -> B) l i, length (mapi f i l) = length l.
Proof. induction l; intro i; cbn [mapi length]; auto. Qed.
Lemma in_mapi : forall {A B} (f : N -> A -> B) l i y,
  In y (mapi f i l) <-> exists j x, nth_error l j = Some x /\ y = f (i + N.of_nat j) x.
Proof.
  induction l as [|a l IH]; intros i y; cbn [mapi In].
  - split. tauto. intros [j [x [H _]]]. destruct j; discriminate.
  - rewrite IH. split.
    + intros [H|[j [x [H1 H2]]]].
      * exists 0%nat, a. split; auto. subst. f_equal. lia.
      * exists (S j), x. split; auto. subst. f_equal. lia.
    + intros [[|j] [x [H1 H2]]]; cbn in H1.
      * inversion H1; subst. left. f_equal. lia.
      * right. exists j, x. split; auto. subst. f_equal. lia.
Qed.
Lemma mapi_ext_in : forall {A B} (f g : N -> A -> B) l i,
  (forall j x, nth_error l j = Some x -> f (i + N.of_nat j) x = g (i + N.of_nat j) x) ->
  mapi f i l = mapi g i l.
Proof.
  induction l as [|a l IH]; intros i H; cbn [mapi]; auto. f_equal.
  - specialize (H 0%nat a eq_refl). replace (i + N.of_nat 0) with i in H by lia. exact H.
  - apply IH. intros j x Hj. specialize (H (S j) x Hj).
    replace (N.succ i + N.of_nat j) with (i + N.of_nat (S j)) by lia. exact H.
Qed.
Lemma nth_error_app_mid : forall {A} (pre : list A) x post, nth_error (pre ++ x :: post) (length pre) = Some x.
Proof. induction pre; cbn; auto. Qed.
Lemma nth_error_split' : forall {A} (l : list A) j x, nth_error l j = Some x ->
  exists pre post, l = pre ++ x :: post /\ length pre = j.
Proof. intros. apply nth_error_split. assumption. Qed.

(* ---- lookup / spend ---------------------------------------------------------- *)
Lemma lookup_some : forall l op c, lookup_cell l op = Some c -> In c l /\ lc_op c = op.
Proof.
  intros l op c H. unfold lookup_cell in H. apply find_some in H. destruct H as [H1 H2].
  apply op_eqb_spec in H2. auto.
Qed.
Lemma lookup_none : forall l op, lookup_cell l op = None <-> (forall c, In c l -> lc_op c <> op).
Proof.
  intros l op. unfold lookup_cell. split.
  - intros H c Hc E. eapply find_none in H; eauto. apply op_eqb_neq in H. contradiction.
  - intro H. destruct (find _ l) eqn:F; auto. apply find_some in F. destruct F as [F1 F2].
    apply op_eqb_spec in F2. exfalso. eapply H; eauto.
Qed.
Lemma lookup_in_nodup : forall l op c, NoDup (map lc_op l) -> In c l -> lc_op c = op -> lookup_cell l op = Some c.
Proof.
  induction l as [|a l IH]; intros op c ND HI E; cbn in *. contradiction.
  inversion ND; subst. destruct HI as [HI|HI].
  - subst a. rewrite op_eqb_refl. reflexivity.
  - destruct (op_eqb (lc_op a) (lc_op c)) eqn:F.
    + apply op_eqb_spec in F. exfalso. apply H1. rewrite F. apply in_map. assumption.
    + apply IH; auto.
Qed.
Lemma in_spend : forall l op c, In c (spend l op) <-> In c l /\ lc_op c <> op.
Proof. intros. unfold spend. rewrite filter_In, negb_true_iff, op_eqb_neq. tauto. Qed.
Lemma in_fold_spend : forall ins l c, In c (fold_left spend ins l) <-> In c l /\ ~ In (lc_op c) ins.
Proof.
  induction ins as [|op ins IH]; intros l c; cbn [fold_left In].
  - tauto.
  - rewrite IH, in_spend. split.
    + intros [[H1 H2] H3]. split; auto. intros [H|H]; auto.
    + intros [H1 H2]. split; [split|]; auto.
Qed.
Lemma NoDup_map_filter : forall {A B} (f : A -> B) (p : A -> bool) l,
  NoDup (map f l) -> NoDup (map f (filter p l)).
Proof.
  induction l as [|a l IH]; intro H; cbn [filter map]. constructor.
  inversion H; subst. destruct (p a); cbn [map]; auto.
  constructor; auto. intro HI. apply H2. apply in_map_iff in HI. destruct HI as [c [E HI]].
  apply filter_In in HI. apply in_map_iff. exists c. tauto.
Qed.
Lemma spend_sub_nodup : forall l op, NoDup (map lc_op l) -> NoDup (map lc_op (spend l op)).
Proof. intros. apply NoDup_map_filter. assumption. Qed.
Lemma fold_spend_nodup : forall ins l, NoDup (map lc_op l) -> NoDup (map lc_op (fold_left spend ins l)).
Proof.
  induction ins; intros l H; cbn [fold_left]; auto. apply IHins. apply spend_sub_nodup. auto.
Qed.

(* ---- the live-set part of replay ---------------------------------------------- *)
Definition tx_ins (i : N) (t : tx) : list outpoint := if N.ltb 0 i then t_inputs t else [].
Definition live_tx (bn : N) (L : list lcell) (i : N) (t : tx) : list lcell :=
  fold_left spend (tx_ins i t) L ++ new_cells bn i t.
Definition rows_tx (bn : N) (L : list lcell) (i : N) (t : tx) : list (bool * trow) :=
  (if N.ltb 0 i then in_trows L bn i t else []) ++ out_trows bn i t.

Lemma replay_tx_eq : forall bn cs i t,
  replay_tx bn cs i t = mkCs (live_tx bn (cs_live cs) i t) (cs_txs cs ++ rows_tx bn (cs_live cs) i t).
Proof. reflexivity. Qed.

Lemma replay_txs_app : forall bn a b cs i,
  replay_txs bn cs i (a ++ b) = replay_txs bn (replay_txs bn cs i a) (i + N.of_nat (length a)) b.
Proof.
  induction a as [|t a IH]; intros b cs i; cbn [replay_txs app length].
  - f_equal. lia.
  - rewrite IH. f_equal. lia.
Qed.
Lemma replay_txs_snoc : forall bn a t cs i,
  replay_txs bn cs i (a ++ [t]) = replay_tx bn (replay_txs bn cs i a) (i + N.of_nat (length a)) t.
Proof. intros. rewrite replay_txs_app. reflexivity. Qed.

Lemma txs_ok_app : forall bn a b L T i,
  txs_ok L bn i (a ++ b) =
  txs_ok L bn i a && txs_ok (cs_live (replay_txs bn (mkCs L T) i a)) bn (i + N.of_nat (length a)) b.
Proof.
  induction a as [|t a IH]; intros b L T i; cbn [txs_ok replay_txs app length].
  - cbn [cs_live andb]. replace (i + N.of_nat 0) with i by lia. reflexivity.
  - rewrite replay_tx_eq. cbn [cs_live cs_txs]. fold (tx_ins i t). fold (live_tx bn L i t).
    rewrite (IH b _ (T ++ rows_tx bn L i t)). rewrite !andb_assoc.
    replace (N.succ i + N.of_nat (length a)) with (i + N.of_nat (S (length a))) by lia. reflexivity.
Qed.

Lemma replay_app : forall a b, replay (a ++ b) = fold_left replay_block b (replay a).
Proof. intros. unfold replay. apply fold_left_app. Qed.
Lemma replay_snoc : forall ch b, replay (ch ++ [b]) = replay_txs (b_num b) (replay ch) 0 (b_txs b).
Proof. intros. rewrite replay_app. reflexivity. Qed.

(* ---- NoDup helpers ------------------------------------------------------------ *)
Lemma NoDup_app_intro : forall {A} (a b : list A),
  NoDup a -> NoDup b -> (forall x, In x a -> ~ In x b) -> NoDup (a ++ b).
Proof.
  induction a as [|x a IH]; intros b Ha Hb H; cbn [app]; auto.
  inversion Ha; subst. constructor.
  - rewrite in_app_iff. intros [H0|H0]; auto. apply (H x); cbn; auto.
  - apply IH; auto. intros y Hy. apply H. cbn; auto.
Qed.
Lemma NoDup_app_inv : forall {A} (a b : list A),
  NoDup (a ++ b) -> NoDup a /\ NoDup b /\ (forall x, In x a -> ~ In x b).
Proof.
  induction a as [|x a IH]; intros b H; cbn [app] in H.
  - split; [constructor|split; auto].
  - inversion H; subst. apply IH in H3. destruct H3 as [H3 [H4 H5]]. split; [|split; auto].
    + constructor; auto. intro. apply H2. apply in_or_app. auto.
    + intros y [Hy|Hy] Hb. subst. apply H2. apply in_or_app. auto. eapply H5; eauto.
Qed.
Lemma NoDup_concat_mapi : forall {A B} (f : N -> A -> list B) (g : B -> N) l k,
  (forall j x y, In y (f j x) -> g y = j) -> (forall j x, NoDup (f j x)) ->
  NoDup (concat (mapi f k l)).
Proof.
  induction l as [|a l IH]; intros k Hg Hn; cbn [mapi concat]. constructor.
  apply NoDup_app_intro; auto.
  intros y Hy HI. apply Hg in Hy. apply in_concat in HI. destruct HI as [ys [H1 H2]].
  apply in_mapi in H1. destruct H1 as [j [x [_ E]]]. subst ys. apply Hg in H2. lia.
Qed.
Lemma NoDup_map_inj : forall {A B} (f : A -> B) l,
  (forall x y, In x l -> In y l -> f x = f y -> x = y) -> NoDup l -> NoDup (map f l).
Proof.
  induction l as [|a l IH]; intros Hi Hn; cbn [map]. constructor.
  inversion Hn; subst. constructor.
  - intro HI. apply in_map_iff in HI. destruct HI as [x [E HI]].
    assert (x = a) by (apply Hi; cbn; auto). subst. contradiction.
  - apply IH; auto. intros. apply Hi; cbn; auto.
Qed.
Lemma NoDup_map_of : forall {A B} (f : A -> B) l, NoDup (map f l) -> NoDup l.
Proof.
  induction l as [|a l IH]; intro H; cbn [map] in H; constructor; inversion H; subst; auto.
  intro. apply H2. apply in_map. assumption.
Qed.

(* ---- new cells and rows of one transaction ------------------------------------- *)
Lemma in_new_cells : forall bn i t c,
  In c (new_cells bn i t) <->
  exists oi o, nth_error (t_outputs t) oi = Some o /\ c = mkLc (t_id t, N.of_nat oi) bn i o.
Proof.
  intros. unfold new_cells. rewrite in_mapi. split; intros [j [x [H1 H2]]]; exists j, x; split; auto;
    rewrite N.add_0_l in *; auto.
Qed.
Lemma new_cells_ops : forall bn i t, map lc_op (new_cells bn i t) = mapi (fun oi _ => (t_id t, oi)) 0 (t_outputs t).
Proof.
  intros. unfold new_cells. generalize 0. induction (t_outputs t) as [|o l IH]; intro k; cbn [mapi map]; auto.
  rewrite IH. reflexivity.
Qed.
Lemma new_cells_nodup : forall bn i t, NoDup (map lc_op (new_cells bn i t)).
Proof.
  intros. rewrite new_cells_ops. generalize 0. induction (t_outputs t) as [|o l IH]; intro k; cbn [mapi].
  constructor. constructor; auto. intro HI. apply in_mapi in HI. destruct HI as [j [x [_ E]]].
  inversion E. lia.
Qed.

Lemma in_out_trows : forall bn i t r,
  In r (out_trows bn i t) <->
  exists oi o, nth_error (t_outputs t) oi = Some o /\
    (r = (true, mkTrow (o_lock o) bn i (N.of_nat oi) true (t_id t)) \/
     exists s, o_type o = Some s /\ r = (false, mkTrow s bn i (N.of_nat oi) true (t_id t))).
Proof.
  intros. unfold out_trows. rewrite in_concat. split.
  - intros [l [H1 H2]]. apply in_mapi in H1. destruct H1 as [j [o [H1 E]]]. subst l.
    rewrite N.add_0_l in H2. exists j, o. split; auto. destruct H2 as [H2|H2]; auto.
    destruct (o_type o) as [s|]; [|contradiction]. destruct H2 as [H2|[]]. right. exists s. auto.
  - intros [oi [o [H1 H2]]]. eexists. split. apply in_mapi. exists oi, o. split; eauto.
    rewrite N.add_0_l. destruct H2 as [H2|[s [H2 H3]]]. left; auto. rewrite H2. right. left. auto.
Qed.
Lemma in_in_trows : forall L bn i t r,
  In r (in_trows L bn i t) <->
  exists ii op c, nth_error (t_inputs t) ii = Some op /\ lookup_cell L op = Some c /\
    (r = (true, mkTrow (o_lock (lc_out c)) bn i (N.of_nat ii) false (t_id t)) \/
     exists s, o_type (lc_out c) = Some s /\ r = (false, mkTrow s bn i (N.of_nat ii) false (t_id t))).
Proof.
  intros. unfold in_trows. rewrite in_concat. split.
  - intros [l [H1 H2]]. apply in_mapi in H1. destruct H1 as [j [op [H1 E]]]. subst l.
    rewrite N.add_0_l in H2. destruct (lookup_cell L op) as [c|] eqn:F; [|contradiction].
    exists j, op, c. split; auto. split; auto. destruct H2 as [H2|H2]; auto.
    destruct (o_type (lc_out c)) as [s|]; [|contradiction]. destruct H2 as [H2|[]]. right. exists s. auto.
  - intros [ii [op [c [H1 [H2 H3]]]]]. eexists. split. apply in_mapi. exists ii, op. split; eauto.
    rewrite N.add_0_l, H2. destruct H3 as [H3|[s [H3 H4]]]. left; auto. rewrite H3. right. left. auto.
Qed.

Lemma out_trows_nodup : forall bn i t, NoDup (out_trows bn i t).
Proof.
  intros. unfold out_trows. apply NoDup_concat_mapi with (g := fun r => tr_ioi (snd r)).
  - intros j x y [H|H]. subst; auto. destruct (o_type x); [|contradiction]. destruct H as [H|[]]. subst; auto.
  - intros j x. constructor. destruct (o_type x); cbn; [|tauto]. intros [H|[]]. discriminate.
    destruct (o_type x); constructor; auto. constructor.
Qed.
Lemma in_trows_nodup : forall L bn i t, NoDup (in_trows L bn i t).
Proof.
  intros. unfold in_trows. apply NoDup_concat_mapi with (g := fun r => tr_ioi (snd r)).
  - intros j x y H. destruct (lookup_cell L x) as [c|]; [|contradiction]. destruct H as [H|H]. subst; auto.
    destruct (o_type (lc_out c)); [|contradiction]. destruct H as [H|[]]. subst; auto.
  - intros j x. destruct (lookup_cell L x) as [c|]; [|constructor]. constructor.
    destruct (o_type (lc_out c)); cbn; [|tauto]. intros [H|[]]. discriminate.
    destruct (o_type (lc_out c)); constructor; auto. constructor.
Qed.
Lemma rows_tx_nodup : forall L bn i t, NoDup (rows_tx bn L i t).
Proof.
  intros. unfold rows_tx. apply NoDup_app_intro.
  - destruct (0 <? i). apply in_trows_nodup. constructor.
  - apply out_trows_nodup.
  - intros r H1 H2. destruct (0 <? i); [|contradiction].
    apply in_in_trows in H1. apply in_out_trows in H2.
    destruct H1 as [ii [op [c [_ [_ H1]]]]]. destruct H2 as [oi [o [_ H2]]].
    destruct H1 as [H1|[s [_ H1]]]; destruct H2 as [H2|[s' [_ H2]]]; subst r; discriminate.
Qed.
Lemma rows_tx_pos : forall L bn i t r, In r (rows_tx bn L i t) -> tr_bn (snd r) = bn /\ tr_txi (snd r) = i.
Proof.
  intros L bn i t r H. unfold rows_tx in H. apply in_app_or in H. destruct H as [H|H].
  - destruct (0 <? i); [|contradiction]. apply in_in_trows in H.
    destruct H as [ii [op [c [_ [_ [H|[s [_ H]]]]]]]]; subst r; auto.
  - apply in_out_trows in H. destruct H as [oi [o [_ [H|[s [_ H]]]]]]; subst r; auto.
Qed.

(* ---- decidable predicates of block_ok ------------------------------------------- *)
Lemma mem_N_spec : forall x l, mem_N x l = true <-> In x l.
Proof.
  intros. unfold mem_N. rewrite existsb_exists. split.
  - intros [y [H1 H2]]. apply N.eqb_eq in H2. subst. auto.
  - intro H. exists x. split; auto. apply N.eqb_refl.
Qed.
Lemma nodup_N_spec : forall l, nodup_N l = true -> NoDup l.
Proof.
  induction l as [|x l IH]; cbn [nodup_N]; intro H; constructor;
    apply andb_true_iff in H; destruct H as [H1 H2]; auto.
  apply negb_true_iff in H1. intro HI. apply mem_N_spec in HI. congruence.
Qed.
Lemma nodup_op_spec : forall l, nodup_op l = true -> NoDup l.
Proof.
  induction l as [|x l IH]; cbn [nodup_op]; intro H; constructor;
    apply andb_true_iff in H; destruct H as [H1 H2]; auto.
  apply negb_true_iff in H1. intro HI.
  assert (existsb (op_eqb x) l = true); [|congruence].
  apply existsb_exists. exists x. split; auto. apply op_eqb_refl.
Qed.

(* ---- the states between the transactions of one block ---------------------------- *)
Section Seq.
  Variables (bn : N) (L0 : list lcell) (T0 : list (bool * trow)) (ids0 : list N).
  Hypothesis HND : NoDup (map lc_op L0).
  Hypothesis Hbn : forall c, In c L0 -> lc_bn c < bn.
  Hypothesis Hid : forall c, In c L0 -> In (fst (lc_op c)) ids0.
  Hypothesis HTbn : forall r, In r T0 -> tr_bn (snd r) < bn.
  Hypothesis HTND : NoDup T0.

  Definition PS (pre : list tx) : chain_state := replay_txs bn (mkCs L0 T0) 0 pre.
  Definition PL pre := cs_live (PS pre).
  Definition PT pre := cs_txs (PS pre).

  Lemma PS_snoc : forall pre t, PS (pre ++ [t]) = replay_tx bn (PS pre) (N.of_nat (length pre)) t.
  Proof. intros. unfold PS. rewrite replay_txs_snoc. rewrite N.add_0_l. reflexivity. Qed.
  Lemma PL_snoc : forall pre t, PL (pre ++ [t]) = live_tx bn (PL pre) (N.of_nat (length pre)) t.
  Proof. intros. unfold PL. rewrite PS_snoc. reflexivity. Qed.
  Lemma PT_snoc : forall pre t, PT (pre ++ [t]) = PT pre ++ rows_tx bn (PL pre) (N.of_nat (length pre)) t.
  Proof. intros. unfold PT. rewrite PS_snoc. reflexivity. Qed.

  Definition pre_ok (pre : list tx) : Prop :=
    txs_ok L0 bn 0 pre = true /\ NoDup (map t_id pre) /\ (forall t, In t pre -> ~ In (t_id t) ids0).

  Definition tx_step_ok (pre : list tx) (t : tx) : Prop :=
    (forall op, In op (tx_ins (N.of_nat (length pre)) t) -> exists c, lookup_cell (PL pre) op = Some c) /\
    NoDup (tx_ins (N.of_nat (length pre)) t) /\
    ~ In (t_id t) (ids0 ++ map t_id pre).

  Lemma pre_ok_snoc : forall pre t, pre_ok (pre ++ [t]) -> pre_ok pre /\ tx_step_ok pre t.
  Proof.
    intros pre t [H1 [H2 H3]]. rewrite (txs_ok_app bn pre [t] L0 T0 0) in H1.
    apply andb_true_iff in H1. destruct H1 as [H1 H4]. rewrite map_app in H2.
    apply NoDup_app_inv in H2. destruct H2 as [H2 [_ H5]]. split; [split; [|split]|]; auto.
    - intros. apply H3. apply in_or_app. auto.
    - cbn [txs_ok] in H4. rewrite N.add_0_l in H4. fold (PS pre) in H4. fold (PL pre) in H4.
      fold (tx_ins (N.of_nat (length pre)) t) in H4.
      apply andb_true_iff in H4. destruct H4 as [H4 _]. apply andb_true_iff in H4. destruct H4 as [H4 H6].
      split; [|split].
      + intros op Hop. rewrite forallb_forall in H4. apply H4 in Hop.
        destruct (lookup_cell (PL pre) op) as [c|]; [eauto|discriminate].
      + apply nodup_op_spec. assumption.
      + rewrite in_app_iff. intros [H|H]. apply (H3 t); auto. apply in_or_app. cbn; auto.
        apply (H5 _ H). cbn. auto.
  Qed.

  Definition origin (pre : list tx) (c : lcell) : Prop :=
    In c L0 \/ exists j t, nth_error pre j = Some t /\ In c (new_cells bn (N.of_nat j) t).
  Definition spent_in (pre : list tx) (op : outpoint) : Prop :=
    exists j t, nth_error pre j = Some t /\ In op (tx_ins (N.of_nat j) t).

  Lemma origin_mono : forall pre t c, origin pre c -> origin (pre ++ [t]) c.
  Proof.
    intros pre t c [H|[j [x [H1 H2]]]]. left; auto. right. exists j, x. split; auto.
    rewrite nth_error_app1; auto. apply nth_error_Some. congruence.
  Qed.
  Lemma spent_in_mono : forall pre t op, spent_in pre op -> spent_in (pre ++ [t]) op.
  Proof.
    intros pre t c [j [x [H1 H2]]]. exists j, x. split; auto.
    rewrite nth_error_app1; auto. apply nth_error_Some. congruence.
  Qed.
  Lemma nth_error_snoc_inv : forall {A} (pre : list A) t j x, nth_error (pre ++ [t]) j = Some x ->
    nth_error pre j = Some x \/ (j = length pre /\ x = t).
  Proof.
    intros A pre t j x H. destruct (Nat.lt_ge_cases j (length pre)).
    - rewrite nth_error_app1 in H; auto.
    - rewrite nth_error_app2 in H; auto. destruct (j - length pre)%nat eqn:E; cbn in H.
      + inversion H. right. split; auto. lia.
      + destruct n; discriminate.
  Qed.
  Lemma origin_snoc_inv : forall pre t c, origin (pre ++ [t]) c ->
    origin pre c \/ In c (new_cells bn (N.of_nat (length pre)) t).
  Proof.
    intros pre t c [H|[j [x [H1 H2]]]]. left; left; auto.
    apply nth_error_snoc_inv in H1. destruct H1 as [H1|[-> ->]]; auto. left. right. eauto.
  Qed.
  Lemma spent_in_snoc_inv : forall pre t op, spent_in (pre ++ [t]) op ->
    spent_in pre op \/ In op (tx_ins (N.of_nat (length pre)) t).
  Proof.
    intros pre t c [j [x [H1 H2]]].
    apply nth_error_snoc_inv in H1. destruct H1 as [H1|[-> ->]]; auto. left. exists j, x. auto.
  Qed.
  Lemma origin_id : forall pre c, origin pre c -> In (fst (lc_op c)) (ids0 ++ map t_id pre).
  Proof.
    intros pre c [H|[j [t [H1 H2]]]]; apply in_or_app. left; auto.
    right. apply in_new_cells in H2. destruct H2 as [oi [o [_ ->]]]. cbn.
    apply in_map. eapply nth_error_In; eauto.
  Qed.
  Lemma origin_pos : forall pre c, origin pre c ->
    lc_bn c < bn \/ (lc_bn c = bn /\ lc_txi c < N.of_nat (length pre)).
  Proof.
    intros pre c [H|[j [t [H1 H2]]]]. left; auto.
    right. apply in_new_cells in H2. destruct H2 as [oi [o [_ ->]]]. cbn. split; auto.
    assert (j < length pre)%nat by (apply nth_error_Some; congruence). lia.
  Qed.

  Record SeqFacts (pre : list tx) : Prop := {
    sf_nd : NoDup (map lc_op (PL pre));
    sf_origin : forall c, In c (PL pre) -> origin pre c;
    sf_acct : forall c, origin pre c -> In c (PL pre) \/ spent_in pre (lc_op c);
    sf_unspent : forall c, In c (PL pre) -> ~ spent_in pre (lc_op c);
    sf_spent_ids : forall op, spent_in pre op -> In (fst op) (ids0 ++ map t_id pre);
    sf_tpos : forall r, In r (PT pre) ->
                In r T0 \/ (tr_bn (snd r) = bn /\ tr_txi (snd r) < N.of_nat (length pre));
    sf_tnd : NoDup (PT pre) }.

  Lemma seq_facts_nil : SeqFacts [].
  Proof.
    constructor; unfold PL, PT, PS; cbn [replay_txs cs_live cs_txs]; auto.
    - intros. left. auto.
    - intros c [H|[j [t [H _]]]]; auto. destruct j; discriminate.
    - intros c _ [j [t [H _]]]. destruct j; discriminate.
    - intros op [j [t [H _]]]. destruct j; discriminate.
  Qed.

  Lemma seq_facts_snoc : forall pre t, SeqFacts pre -> tx_step_ok pre t -> SeqFacts (pre ++ [t]).
  Proof.
    intros pre t F [R [N1 N2]]. set (i := N.of_nat (length pre)) in *.
    assert (IDS : forall c, In c (PL pre) -> fst (lc_op c) <> t_id t).
    { intros c Hc E. apply N2. rewrite <- E. apply origin_id. apply (sf_origin _ F). auto. }
    assert (INS : forall op, In op (tx_ins i t) -> fst op <> t_id t).
    { intros op Hop. destruct (R op Hop) as [c Hc]. apply lookup_some in Hc. destruct Hc as [Hc <-]. auto. }
    constructor.
    - rewrite PL_snoc. fold i. unfold live_tx. rewrite map_app. apply NoDup_app_intro.
      + apply fold_spend_nodup. apply (sf_nd _ F).
      + apply new_cells_nodup.
      + intros op H1 H2. apply in_map_iff in H1. destruct H1 as [c [<- H1]].
        apply in_fold_spend in H1. destruct H1 as [H1 _].
        apply in_map_iff in H2. destruct H2 as [c' [E H2]]. apply in_new_cells in H2.
        destruct H2 as [oi [o [_ ->]]]. cbn in E. apply (IDS c H1). rewrite <- E. reflexivity.
    - intros c Hc. rewrite PL_snoc in Hc. fold i in Hc. apply in_app_or in Hc. destruct Hc as [Hc|Hc].
      + apply origin_mono. apply (sf_origin _ F). apply in_fold_spend in Hc. tauto.
      + right. exists (length pre), t. split; auto. apply nth_error_app_mid.
    - intros c Hc. rewrite PL_snoc. fold i. unfold live_tx. apply origin_snoc_inv in Hc. destruct Hc as [Hc|Hc].
      + apply (sf_acct _ F) in Hc. destruct Hc as [Hc|Hc].
        * destruct (in_dec (fun a b => match key_eq_dec (KOutPoint a) (KOutPoint b) with
                                       | left e => left (f_equal (fun k => match k with KOutPoint o => o | _ => a end) e)
                                       | right n => right (fun e => n (f_equal KOutPoint e)) end)
                           (lc_op c) (tx_ins i t)) as [D|D].
          -- right. exists (length pre), t. split; auto. apply nth_error_app_mid.
          -- left. apply in_or_app. left. apply in_fold_spend. auto.
        * right. apply spent_in_mono. auto.
      + left. apply in_or_app. right. auto.
    - intros c Hc S. rewrite PL_snoc in Hc. fold i in Hc. apply in_app_or in Hc.
      apply spent_in_snoc_inv in S. fold i in S. destruct Hc as [Hc|Hc].
      + apply in_fold_spend in Hc. destruct Hc as [Hc1 Hc2]. destruct S as [S|S]; auto.
        apply (sf_unspent _ F c); auto.
      + apply in_new_cells in Hc. destruct Hc as [oi [o [_ ->]]]. cbn [lc_op] in S. destruct S as [S|S].
        * apply (sf_spent_ids _ F) in S. auto.
        * apply INS in S. auto.
    - intros op S. apply spent_in_snoc_inv in S. fold i in S. rewrite map_app, app_assoc. apply in_or_app.
      destruct S as [S|S]. left. apply (sf_spent_ids _ F). auto.
      left. destruct (R op S) as [c Hc]. apply lookup_some in Hc. destruct Hc as [Hc <-].
      apply origin_id. apply (sf_origin _ F). auto.
    - intros r Hr. rewrite PT_snoc in Hr. rewrite app_length. cbn [length]. apply in_app_or in Hr.
      destruct Hr as [Hr|Hr].
      + apply (sf_tpos _ F) in Hr. destruct Hr as [Hr|[Hr1 Hr2]]; auto. right. split; auto. lia.
      + apply rows_tx_pos in Hr. right. destruct Hr. split; auto. lia.
    - rewrite PT_snoc. apply NoDup_app_intro. apply (sf_tnd _ F). apply rows_tx_nodup.
      intros r H1 H2. apply rows_tx_pos in H2. apply (sf_tpos _ F) in H1. destruct H2 as [H2 H3].
      destruct H1 as [H1|[_ H1]]. apply HTbn in H1. lia. lia.
  Qed.

  Lemma seq_facts : forall pre, pre_ok pre -> SeqFacts pre.
  Proof.
    induction pre as [|t pre IH] using rev_ind; intro H. apply seq_facts_nil.
    apply pre_ok_snoc in H. destruct H as [H1 H2]. apply seq_facts_snoc; auto.
  Qed.
  Definition pos_det (l : list lcell) : Prop :=
    forall c c', In c l -> In c' l -> lc_bn c = lc_bn c' -> lc_txi c = lc_txi c' ->
                 snd (lc_op c) = snd (lc_op c') -> c = c'.
  Hypothesis Hpos : pos_det L0.

  Lemma seq_pos : forall pre, pre_ok pre -> pos_det (PL pre).
  Proof.
    induction pre as [|t pre IH] using rev_ind; intro H.
    - exact Hpos.
    - pose proof H as H0. apply pre_ok_snoc in H. destruct H as [H1 H2]. specialize (IH H1).
      pose proof (seq_facts pre H1) as F.
      intros c c' Hc Hc' E1 E2 E3. rewrite PL_snoc in Hc, Hc'. unfold live_tx in *.
      apply in_app_or in Hc. apply in_app_or in Hc'.
      assert (OLD : forall x, In x (fold_left spend (tx_ins (N.of_nat (length pre)) t) (PL pre)) ->
                  In x (PL pre) /\ (lc_bn x < bn \/ (lc_bn x = bn /\ lc_txi x < N.of_nat (length pre)))).
      { intros x Hx. apply in_fold_spend in Hx. destruct Hx as [Hx _]. split; auto.
        apply origin_pos. apply (sf_origin _ F). auto. }
      destruct Hc as [Hc|Hc], Hc' as [Hc'|Hc'].
      + apply OLD in Hc. apply OLD in Hc'. apply IH; tauto.
      + apply OLD in Hc. apply in_new_cells in Hc'. destruct Hc' as [oi [o [_ ->]]]. cbn in *. lia.
      + apply OLD in Hc'. apply in_new_cells in Hc. destruct Hc as [oi [o [_ ->]]]. cbn in *. lia.
      + apply in_new_cells in Hc. apply in_new_cells in Hc'.
        destruct Hc as [oi [o [G1 ->]]]. destruct Hc' as [oi' [o' [G1' ->]]]. cbn in E3.
        assert (oi = oi') by lia. subst oi'. congruence.
  Qed.
End Seq.

(* ---- valid chains ------------------------------------------------------------------ *)
Inductive chain_ok : list block -> Prop :=
| cok_nil : chain_ok []
| cok_snoc : forall ch b, chain_ok ch -> block_ok ch b = true -> chain_ok (ch ++ [b]).

Lemma chain_ok_snoc_inv : forall ch b, chain_ok (ch ++ [b]) -> chain_ok ch /\ block_ok ch b = true.
Proof.
  intros ch b H. inversion H.
  - destruct ch; discriminate.
  - apply app_inj_tail in H0. destruct H0; subst. auto.
Qed.
Lemma chain_ok_removelast : forall ch, chain_ok ch -> chain_ok (removelast ch).
Proof.
  intros ch H. destruct H. constructor. rewrite removelast_last. assumption.
Qed.

Lemma replay_eta : forall ch, replay ch = mkCs (live ch) (txs ch).
Proof. intro. unfold live, txs. destruct (replay ch); reflexivity. Qed.
Lemma live_snoc : forall ch b, live (ch ++ [b]) = PL (b_num b) (live ch) (txs ch) (b_txs b).
Proof. intros. unfold live at 1. rewrite replay_snoc, replay_eta. reflexivity. Qed.
Lemma txs_snoc : forall ch b, txs (ch ++ [b]) = PT (b_num b) (live ch) (txs ch) (b_txs b).
Proof. intros. unfold txs at 1. rewrite replay_snoc, replay_eta. reflexivity. Qed.

Lemma chain_tx_ids_snoc : forall ch b, chain_tx_ids (ch ++ [b]) = chain_tx_ids ch ++ map t_id (b_txs b).
Proof. intros. unfold chain_tx_ids. rewrite flat_map_app. cbn. rewrite app_nil_r. reflexivity. Qed.

Lemma block_ok_parts : forall ch b, block_ok ch b = true ->
  b_num b = N.of_nat (length ch) /\ block_in_range b = true /\
  pre_ok (b_num b) (live ch) (chain_tx_ids ch) (b_txs b).
Proof.
  intros ch b H. unfold block_ok in H. repeat (apply andb_true_iff in H; destruct H as [H ?]).
  apply N.eqb_eq in H. split; auto. split; auto. split; [|split]; auto.
  - apply nodup_N_spec. auto.
  - intros t Ht HI. rewrite forallb_forall in H1. apply H1 in Ht. apply negb_true_iff in Ht.
    apply mem_N_spec in HI. congruence.
Qed.

Lemma pre_ok_prefix : forall bn L0 ids0 a b, pre_ok bn L0 ids0 (a ++ b) -> pre_ok bn L0 ids0 a.
Proof.
  intros bn L0 ids0 a b [H1 [H2 H3]]. rewrite (txs_ok_app bn a b L0 [] 0) in H1.
  apply andb_true_iff in H1. destruct H1 as [H1 _]. rewrite map_app in H2. apply NoDup_app_inv in H2.
  split; [|split]; try tauto. intros. apply H3. apply in_or_app. auto.
Qed.

Record ChainFacts (ch : list block) : Prop := {
  cf_nd : NoDup (map lc_op (live ch));
  cf_bn : forall c, In c (live ch) -> lc_bn c < N.of_nat (length ch);
  cf_id : forall c, In c (live ch) -> In (fst (lc_op c)) (chain_tx_ids ch);
  cf_tbn : forall r, In r (txs ch) -> tr_bn (snd r) < N.of_nat (length ch);
  cf_tnd : NoDup (txs ch);
  cf_ids_nd : NoDup (chain_tx_ids ch);
  cf_num : forall j B, nth_error ch j = Some B -> b_num B = N.of_nat j;
  cf_pos : pos_det (live ch) }.

Lemma block_seq_facts : forall ch b pre rest, ChainFacts ch -> block_ok ch b = true ->
  b_txs b = pre ++ rest -> SeqFacts (b_num b) (live ch) (txs ch) (chain_tx_ids ch) pre.
Proof.
  intros ch b pre rest F H E. apply block_ok_parts in H. destruct H as [Hn [_ Hp]].
  rewrite E in Hp. apply pre_ok_prefix in Hp. apply seq_facts; auto.
  - apply (cf_nd _ F).
  - apply (cf_id _ F).
  - intros r Hr. rewrite Hn. apply (cf_tbn _ F). auto.
  - apply (cf_tnd _ F).
Qed.

Lemma chain_facts : forall ch, chain_ok ch -> ChainFacts ch.
Proof.
  induction 1 as [|ch b Hc IH Hb].
  - constructor; cbn; try tauto; try constructor. intros j B H. destruct j; discriminate.
    intros c c' [].
  - pose proof (block_seq_facts ch b (b_txs b) [] IH Hb (eq_sym (app_nil_r _))) as F.
    pose proof (block_ok_parts _ _ Hb) as [Hn [_ [_ [Hnd Hfresh]]]].
    constructor.
    + rewrite live_snoc. apply (sf_nd _ _ _ _ _ F).
    + intros c Hc'. rewrite live_snoc in Hc'. apply (sf_origin _ _ _ _ _ F) in Hc'.
      rewrite app_length. cbn [length].
      assert (Hb0 : forall c, In c (live ch) -> lc_bn c < b_num b).
      { intros c0 H0. rewrite Hn. apply (cf_bn _ IH). auto. }
      destruct (origin_pos _ _ Hb0 _ _ Hc') as [H|[H _]]; lia.
    + intros c Hc'. rewrite live_snoc in Hc'. apply (sf_origin _ _ _ _ _ F) in Hc'.
      rewrite chain_tx_ids_snoc. eapply origin_id; eauto. apply (cf_id _ IH).
    + intros r Hr. rewrite txs_snoc in Hr. apply (sf_tpos _ _ _ _ _ F) in Hr.
      rewrite app_length. cbn [length]. destruct Hr as [Hr|[Hr _]]. apply (cf_tbn _ IH) in Hr. lia. lia.
    + rewrite txs_snoc. apply (sf_tnd _ _ _ _ _ F).
    + rewrite chain_tx_ids_snoc. apply NoDup_app_intro; auto. apply (cf_ids_nd _ IH).
      intros x H1 H2. apply in_map_iff in H2. destruct H2 as [t [<- H2]]. apply (Hfresh t); auto.
    + intros j B H. apply nth_error_snoc_inv in H. destruct H as [H|[-> ->]]; auto. apply (cf_num _ IH); auto.
    + rewrite live_snoc. apply (seq_pos (b_num b) (live ch) (txs ch) (chain_tx_ids ch)); auto.
      * apply (cf_nd _ IH).
      * intros c0 H0. rewrite Hn. apply (cf_bn _ IH). auto.
      * apply (cf_id _ IH).
      * intros r Hr. rewrite Hn. apply (cf_tbn _ IH). auto.
      * apply (cf_tnd _ IH).
      * apply (cf_pos _ IH).
      * apply block_ok_parts in Hb. tauto.
Qed.
