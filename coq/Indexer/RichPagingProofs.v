(* Indexer/RichPagingProofs.v — following last_cursor under the fixed rule
   yields exactly the ordered answer, each row once; under the old rule it does not. *)
From CKB Require Import Indexer.RichPaging.
Arguments N.add : simpl never.
Local Open Scope N_scope.

Section Proofs.
  Context {X : Type}.
  Notation prow := (@prow X).

  Definition cnt (v : N) (l : list prow) : nat := length (filter (fun r => N.eqb (fst r) v) l).
  Fixpoint lastid (p : list prow) (d : N) : N := match p with [] => d | r :: p' => lastid p' (fst r) end.

  Lemma cnt_cons : forall v r l, cnt v (r :: l) = ((if N.eqb (fst r) v then 1 else 0) + cnt v l)%nat.
  Proof. intros. unfold cnt. cbn [filter]. destruct (N.eqb (fst r) v); reflexivity. Qed.
  Lemma cnt_app : forall v a b, cnt v (a ++ b) = (cnt v a + cnt v b)%nat.
  Proof. intros. unfold cnt. rewrite filter_app, app_length. reflexivity. Qed.

  Lemma sorted_tail_ge : forall (r : prow) p, id_sorted (r :: p) -> forall x, In x p -> fst r <= fst x.
  Proof. intros r p H x Hx. inversion H; subst. rewrite Forall_forall in H3. apply H3. exact Hx. Qed.
  Lemma sorted_tail : forall (r : prow) p, id_sorted (r :: p) -> id_sorted p.
  Proof. intros r p H. inversion H; assumption. Qed.
  Lemma lastid_ge : forall p d, id_sorted p -> (forall x, In x p -> d <= fst x) -> d <= lastid p d.
  Proof.
    induction p as [|r p IH]; intros d S H; cbn [lastid]. lia.
    assert (d <= fst r) by (apply H; cbn; auto).
    assert (fst r <= lastid p (fst r)). { apply IH. eapply sorted_tail; eauto. apply sorted_tail_ge. exact S. } lia.
  Qed.
  Lemma lastid_max : forall p d, id_sorted p -> forall x, In x p -> fst x <= lastid p d.
  Proof.
    induction p as [|r p IH]; intros d S x Hx. contradiction. cbn [lastid]. destruct Hx as [->|Hx].
    - apply lastid_ge. eapply sorted_tail; eauto. apply sorted_tail_ge. exact S.
    - apply IH; auto. eapply sorted_tail; eauto.
  Qed.
  Lemma lastid_in : forall p d, p <> [] -> exists x, In x p /\ fst x = lastid p d.
  Proof.
    induction p as [|r p IH]; intros d H. congruence. cbn [lastid]. destruct p as [|r' p].
    - exists r. cbn. auto.
    - destruct (IH (fst r)) as [x [Hx E]]. discriminate. exists x. split; auto. right. exact Hx.
  Qed.

  (* what the loop computes on an ordered page whose ids are not below the start id *)
  Lemma count_rows_spec : forall p i0 c0, id_sorted p -> (forall x, In x p -> i0 <= fst x) ->
    count_rows (i0, c0) p = (lastid p i0, ((if N.eqb (lastid p i0) i0 then c0 else 0) + cnt (lastid p i0) p)%nat).
  Proof.
    induction p as [|r p IH]; intros i0 c0 S H; cbn [count_rows lastid fst snd].
    - rewrite N.eqb_refl. unfold cnt. cbn. f_equal. lia.
    - assert (S' : id_sorted p) by (eapply sorted_tail; eauto).
      assert (G : forall x, In x p -> fst r <= fst x) by (apply sorted_tail_ge; exact S).
      assert (L : fst r <= lastid p (fst r)) by (apply lastid_ge; auto).
      assert (R0 : i0 <= fst r) by (apply H; cbn; auto).
      rewrite cnt_cons. destruct (N.eqb (fst r) i0) eqn:E.
      + apply N.eqb_eq in E. rewrite IH; auto. 2:{ intros x Hx. rewrite <- E. apply G. exact Hx. }
        rewrite <- E. f_equal. destruct (N.eqb (lastid p (fst r)) (fst r)) eqn:E2.
        * apply N.eqb_eq in E2. rewrite E2, N.eqb_refl. lia.
        * rewrite N.eqb_sym, E2. lia.
      + apply N.eqb_neq in E. rewrite IH; auto. f_equal.
        destruct (N.eqb (lastid p (fst r)) (fst r)) eqn:E2.
        * apply N.eqb_eq in E2. rewrite E2. rewrite N.eqb_refl.
          assert (N.eqb (fst r) i0 = false) by (apply N.eqb_neq; exact E). rewrite H0. lia.
        * assert (N.eqb (lastid p (fst r)) i0 = false). { apply N.eqb_neq. apply N.eqb_neq in E2. lia. }
          rewrite H0, N.eqb_sym, E2. lia.
  Qed.

  (* the cursor stands at position n of the ordered answer *)
  Definition cur_state (cur : option cursor) : cursor := match cur with Some c => c | None => (0, 0%nat) end.
  Definition pos_ok (rows : list prow) (n : nat) (cur : option cursor) : Prop :=
    (cur = None -> n = 0%nat) /\
    (forall x, In x (firstn n rows) -> fst x <= fst (cur_state cur)) /\
    (forall x, In x (skipn n rows) -> fst (cur_state cur) <= fst x) /\
    snd (cur_state cur) = cnt (fst (cur_state cur)) (firstn n rows).

  Lemma filter_all : forall {T} (f : T -> bool) l, (forall x, In x l -> f x = true) -> filter f l = l.
  Proof. induction l as [|a l IH]; intro H; cbn [filter]; auto. rewrite H by (cbn; auto). f_equal. apply IH. intros. apply H. cbn; auto. Qed.
  Lemma filter_ext_in' : forall {T} (f g : T -> bool) l, (forall x, In x l -> f x = g x) -> filter f l = filter g l.
  Proof. induction l as [|a l IH]; intro H; cbn [filter]; auto. rewrite H by (cbn; auto). rewrite IH. reflexivity. intros. apply H. cbn; auto. Qed.
  Lemma skipn_app_exact : forall {T} (a b : list T), skipn (length a) (a ++ b) = b.
  Proof. induction a; intro b; cbn; auto. Qed.

  Lemma page_pos : forall rows n cur limit, pos_ok rows n cur -> page rows cur limit = firstn limit (skipn n rows).
  Proof.
    intros rows n cur limit (H0 & H1 & H2 & H3). destruct cur as [[last off]|].
    - cbn [cur_state fst snd] in *. unfold page. f_equal.
      rewrite <- (firstn_skipn n rows) at 1. rewrite filter_app.
      rewrite (filter_ext_in' _ (fun r => N.eqb (fst r) last) (firstn n rows)).
      2:{ intros x Hx. specialize (H1 x Hx). destruct (N.eqb (fst x) last) eqn:E.
          apply N.eqb_eq in E. apply N.leb_le. lia. apply N.eqb_neq in E. apply N.leb_gt. lia. }
      rewrite (filter_all _ (skipn n rows)). 2:{ intros x Hx. apply N.leb_le. apply H2. exact Hx. }
      rewrite H3. unfold cnt. apply skipn_app_exact.
    - rewrite (H0 eq_refl). reflexivity.
  Qed.

  Lemma in_firstn : forall {T} n (l : list T) x, In x (firstn n l) -> In x l.
  Proof. induction n; intros l x H; cbn [firstn] in H. contradiction. destruct l. contradiction. destruct H as [->|H]; cbn; auto. Qed.
  Lemma firstn_len_firstn : forall {T} k (l : list T), firstn (length (firstn k l)) l = firstn k l.
  Proof. induction k; intro l; cbn [firstn length]. reflexivity. destruct l; cbn [firstn length]. reflexivity. f_equal. apply IHk. Qed.
  Lemma filter_none : forall {T} (f : T -> bool) l, (forall x, In x l -> f x = false) -> filter f l = [].
  Proof. induction l as [|a l IH]; intro H; cbn [filter]; auto. rewrite H by (cbn; auto). apply IH. intros. apply H. cbn; auto. Qed.
  Lemma firstn_plus : forall {T} n m (l : list T), firstn (n + m) l = firstn n l ++ firstn m (skipn n l).
  Proof. induction n; intros m l; cbn [plus firstn skipn app]. reflexivity. destruct l; cbn. rewrite firstn_nil. reflexivity. f_equal. apply IHn. Qed.
  Lemma skipn_plus : forall {T} n m (l : list T), skipn (n + m) l = skipn m (skipn n l).
  Proof. induction n; intros m l; cbn [plus skipn]. reflexivity. destruct l; cbn. rewrite skipn_nil. reflexivity. apply IHn. Qed.
  Lemma sorted_skipn : forall n (l : list prow), id_sorted l -> id_sorted (skipn n l).
  Proof. induction n; intros l S; cbn [skipn]; auto. destruct l; auto. apply IHn. eapply sorted_tail; eauto. Qed.
  Lemma sorted_firstn : forall n (l : list prow), id_sorted l -> id_sorted (firstn n l).
  Proof.
    induction n; intros l S; cbn [firstn]. constructor. destruct l. constructor. constructor.
    - apply IHn. eapply sorted_tail; eauto.
    - rewrite Forall_forall. intros x Hx. apply (sorted_tail_ge p l S). eapply in_firstn; eauto.
  Qed.
  Lemma sorted_app_le : forall (a b : list prow), id_sorted (a ++ b) -> forall x y, In x a -> In y b -> fst x <= fst y.
  Proof.
    induction a as [|r a IH]; intros b S x y Hx Hy. contradiction. cbn [app] in S. destruct Hx as [->|Hx].
    - apply (sorted_tail_ge x (a ++ b) S). apply in_or_app. auto.
    - apply (IH b); auto. eapply sorted_tail; eauto.
  Qed.

  Lemma pos_next : forall rows n cur limit, id_sorted rows -> pos_ok rows n cur ->
    let p := firstn limit (skipn n rows) in p <> [] ->
    pos_ok rows (n + length p) (Some (next_cursor FixedRule cur p)).
  Proof.
    intros rows n cur limit S (H0 & H1 & H2 & H3) p NE.
    assert (Sp : id_sorted p) by (apply sorted_firstn, sorted_skipn; exact S).
    assert (ST : cur_state cur = start_state FixedRule cur) by (destruct cur; reflexivity).
    destruct (cur_state cur) as [i0 c0] eqn:CS. cbn [fst snd] in *.
    assert (Gp : forall x, In x p -> i0 <= fst x). { intros x Hx. apply H2. eapply in_firstn; eauto. }
    unfold next_cursor. rewrite <- ST, count_rows_spec; auto. set (v := lastid p i0).
    assert (E1 : firstn (n + length p) rows = firstn n rows ++ p).
    { rewrite firstn_plus. f_equal. unfold p. apply firstn_len_firstn. }
    assert (E2 : skipn n rows = p ++ skipn (n + length p) rows).
    { rewrite skipn_plus. unfold p at 1. rewrite <- (firstn_skipn limit (skipn n rows)) at 1. f_equal.
      unfold p. rewrite firstn_length. destruct (Nat.le_ge_cases limit (length (skipn n rows))).
      - rewrite Nat.min_l; auto.
      - rewrite Nat.min_r; auto. rewrite !skipn_all2; auto. }
    assert (V0 : i0 <= v) by (apply lastid_ge; auto).
    split; [discriminate|]. cbn [cur_state fst snd]. split; [|split].
    - intros x Hx. rewrite E1 in Hx. apply in_app_or in Hx. destruct Hx as [Hx|Hx].
      + specialize (H1 x Hx). lia.
      + apply lastid_max; auto.
    - intros x Hx. destruct (lastid_in p i0 NE) as [y [Hy Ey]]. fold v in Ey. rewrite <- Ey.
      apply (sorted_app_le p (skipn (n + length p) rows)); auto. rewrite <- E2. apply sorted_skipn. exact S.
    - rewrite E1, cnt_app. f_equal. destruct (N.eqb v i0) eqn:E.
      + apply N.eqb_eq in E. rewrite E. exact H3.
      + apply N.eqb_neq in E. unfold cnt. rewrite filter_none; [reflexivity|].
        intros x Hx. apply N.eqb_neq. specialize (H1 x Hx). lia.
  Qed.

  Lemma firstn_short : forall {T} limit (l : list T), (length (firstn limit l) < limit)%nat -> firstn limit l = l.
  Proof. intros T limit l H. rewrite firstn_length in H. apply firstn_all2. lia. Qed.

  Lemma walk_from : forall rows limit, id_sorted rows -> (0 < limit)%nat ->
    forall fuel n cur, pos_ok rows n cur -> (n <= length rows)%nat -> (length rows - n < fuel)%nat ->
    firstn n rows ++ walk FixedRule rows fuel cur limit = rows.
  Proof.
    intros rows limit S L. induction fuel as [|f IH]; intros n cur P B F. lia.
    cbn [walk]. rewrite (page_pos rows n cur limit P). set (p := firstn limit (skipn n rows)).
    destruct (Nat.ltb (length p) limit) eqn:E.
    - apply Nat.ltb_lt in E. unfold p in *. rewrite (firstn_short limit (skipn n rows) E). apply firstn_skipn.
    - apply Nat.ltb_ge in E. assert (NE : p <> []). { intro Z. rewrite Z in E. cbn in E. lia. }
      assert (LP : (n + length p <= length rows)%nat).
      { unfold p. rewrite firstn_length, skipn_length. lia. }
      rewrite app_assoc. replace (firstn n rows ++ p) with (firstn (n + length p) rows).
      2:{ rewrite firstn_plus. f_equal. unfold p. apply firstn_len_firstn. }
      apply IH; auto.
      + apply pos_next; auto.
      + lia.
  Qed.
End Proofs.

(* following last_cursor to the end returns the ordered answer, every row once *)
Theorem walk_fixed_complete : forall {X} (rows : list (@prow X)) limit,
  id_sorted rows -> (0 < limit)%nat -> walk FixedRule rows (S (length rows)) None limit = rows.
Proof.
  intros X rows limit HS L. apply (walk_from rows limit HS L (S (length rows)) 0%nat None); try lia.
  repeat split; cbn; auto; try contradiction. intros. lia.
Qed.

(* the rule before fix 9118212: a transaction with two rows, limit 1 *)
Definition w_rows : list (@prow N) := [(1, 10); (1, 11); (2, 12)].
Theorem walk_old_refuted :
  id_sorted w_rows /\ walk OldRule w_rows (S (length w_rows)) None 1 = [(1, 10); (1, 11); (1, 11); (1, 11)]
  /\ walk OldRule w_rows (S (length w_rows)) None 1 <> w_rows
  /\ forall fuel, ~ In (2, 12) (walk OldRule w_rows fuel None 1).
Proof.
  split; [|split; [|split]].
  - repeat constructor; cbn; lia.
  - vm_compute. reflexivity.
  - vm_compute. discriminate.
  - assert (A : forall fuel, ~ In (2, 12) (walk OldRule w_rows fuel (Some (1, 1%nat)) 1)).
    { induction fuel as [|f IH]; cbn [walk]. auto.
      change (page w_rows (Some (1, 1%nat)) 1) with [(1, 11)] . cbn [length Nat.ltb Nat.leb app].
      change (next_cursor OldRule (Some (1, 1%nat)) [(1, 11)]) with (1, 1%nat).
      intros [H|H]. discriminate. exact (IH H). }
    intros [|f]; cbn [walk]. auto.
    change (page w_rows None 1) with [(1, 10)]. cbn [length Nat.ltb Nat.leb app].
    change (next_cursor OldRule None [(1, 10)]) with (1, 1%nat). intros [H|H]. discriminate. exact (A f H).
Qed.
