(* Indexer/ScriptMatch.v — what "the key starts with the searched bytes" means
   in terms of the script of a row: in exact mode (key length = searched length
   + 16 / + 17) it is equality of scripts; in prefix mode it is "the script
   starts with the searched bytes" for every row whose script is at least as
   long as the searched bytes.  Rows with a SHORTER script are the known class
   (QueryProofs.prefix_search_refuted). *)
From CKB Require Import Indexer.Query.
Arguments N.div : simpl never.
Arguments N.modulo : simpl never.

Lemma be_length : forall w n, length (be w n) = w.
Proof.
  induction w as [|w IH]; intros n; cbn [be]; [reflexivity|].
  rewrite app_length, IH. cbn. lia.
Qed.
Lemma crow_key_length : forall r, length (crow_key r) = length (cr_s r) + 16.
Proof.
  intros r. unfold crow_key, enc_cell. rewrite !app_length, !be_length. lia.
Qed.
Lemma trow_key_length : forall r, length (trow_key r) = length (tr_s r) + 17.
Proof.
  intros r. unfold trow_key, enc_tx, enc_cell. rewrite !app_length, !be_length. cbn. lia.
Qed.

Lemma is_prefix_app_long : forall p s rest, length p <= length s -> is_prefix p (s ++ rest) = is_prefix p s.
Proof.
  induction p as [|x p IH]; intros [|y s] rest H; cbn in *; try reflexivity; try lia.
  rewrite IH by lia. reflexivity.
Qed.
Lemma is_prefix_same_length : forall p s, length p = length s -> is_prefix p s = true -> p = s.
Proof.
  induction p as [|x p IH]; intros [|y s] H Hp; cbn in *; try reflexivity; try discriminate.
  apply andb_true_iff in Hp. destruct Hp as [Hx Hp]. apply N.eqb_eq in Hx. subst y.
  f_equal. apply IH; [lia|assumption].
Qed.
Lemma is_prefix_refl : forall s rest, is_prefix s (s ++ rest) = true.
Proof. induction s as [|x s IH]; intros; cbn; [reflexivity|]. rewrite N.eqb_refl, IH. reflexivity. Qed.

(* exact mode: the rows get_cells / get_cells_capacity keep are exactly the rows of the searched script *)
Theorem exact_mode_cell_rows : forall p r,
  (is_prefix p (crow_key r) = true /\ length (crow_key r) = length p + 16) <-> cr_s r = p.
Proof.
  intros p r. split.
  - intros [Hp Hl]. rewrite crow_key_length in Hl. unfold crow_key, enc_cell in Hp.
    rewrite is_prefix_app_long in Hp by lia. symmetry. apply is_prefix_same_length; [lia|assumption].
  - intros <-. split; [unfold crow_key, enc_cell; apply is_prefix_refl|apply crow_key_length].
Qed.
Theorem exact_mode_tx_rows : forall p r,
  (is_prefix p (trow_key r) = true /\ length (trow_key r) = length p + 17) <-> tr_s r = p.
Proof.
  intros p r. split.
  - intros [Hp Hl]. rewrite trow_key_length in Hl. unfold trow_key, enc_tx, enc_cell in Hp.
    rewrite <- !app_assoc in Hp. rewrite is_prefix_app_long in Hp by lia.
    symmetry. apply is_prefix_same_length; [lia|assumption].
  - intros <-. split; [unfold trow_key, enc_tx, enc_cell; rewrite <- !app_assoc; apply is_prefix_refl|apply trow_key_length].
Qed.

(* prefix mode, outside the known class *)
Theorem prefix_mode_cell_rows : forall p r,
  length p <= length (cr_s r) -> is_prefix p (crow_key r) = is_prefix p (cr_s r).
Proof. intros p r H. unfold crow_key, enc_cell. apply is_prefix_app_long. exact H. Qed.
Theorem prefix_mode_tx_rows : forall p r,
  length p <= length (tr_s r) -> is_prefix p (trow_key r) = is_prefix p (tr_s r).
Proof.
  intros p r H. unfold trow_key, enc_tx, enc_cell. rewrite <- !app_assoc. apply is_prefix_app_long. exact H.
Qed.
