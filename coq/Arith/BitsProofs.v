(* Arith/BitsProofs.v — bit operations of [N] as arithmetic. *)
From Coq Require Import NArith Lia.
Local Open Scope N_scope.

Lemma testbit_small a k m : a < 2 ^ k -> k <= m -> N.testbit a m = false.
Proof.
  intros Ha Hm. rewrite <- (N.mod_small a (2 ^ k) Ha). apply N.mod_pow2_bits_high. exact Hm.
Qed.

Lemma land_shiftl_small a b k : a < 2 ^ k -> N.land (N.shiftl b k) a = 0.
Proof.
  intros Ha. apply N.bits_inj. intros m. rewrite N.land_spec, N.bits_0.
  destruct (N.lt_ge_cases m k) as [H|H].
  - rewrite N.shiftl_spec_low by exact H. reflexivity.
  - rewrite (testbit_small a k m Ha H). apply Bool.andb_false_r.
Qed.

Lemma lor_shiftl_small a b k : a < 2 ^ k -> N.lor (N.shiftl b k) a = b * 2 ^ k + a.
Proof.
  intros Ha. pose proof (land_shiftl_small a b k Ha) as H0.
  rewrite <- (N.lxor_lor _ _ H0), <- (N.add_nocarry_lxor _ _ H0), N.shiftl_mul_pow2. reflexivity.
Qed.

Lemma lor_small_shiftl a b k : a < 2 ^ k -> N.lor a (N.shiftl b k) = a + b * 2 ^ k.
Proof. intros Ha. rewrite N.lor_comm, lor_shiftl_small by exact Ha. lia. Qed.

Lemma lor_small_mul a b k : a < 2 ^ k -> N.lor a (b * 2 ^ k) = a + b * 2 ^ k.
Proof. intros Ha. rewrite <- (N.shiftl_mul_pow2 b k) at 1. apply lor_small_shiftl. exact Ha. Qed.

Lemma pow2_pos k : 0 < 2 ^ k.
Proof. apply N.neq_0_lt_0. apply N.pow_nonzero. lia. Qed.

Lemma pow2_le_mono a b : a <= b -> 2 ^ a <= 2 ^ b.
Proof. intros H. apply N.pow_le_mono_r; lia. Qed.

Lemma pow2_lt_mono a b : a < b -> 2 ^ a < 2 ^ b.
Proof. intros H. apply N.pow_lt_mono_r; lia. Qed.

Lemma pow2_split a b : b <= a -> 2 ^ a = 2 ^ (a - b) * 2 ^ b.
Proof. intros H. rewrite <- N.pow_add_r. f_equal. lia. Qed.

(* N.size: the number of significant bits *)
Lemma size_bounds t : t <> 0 -> 2 ^ (N.size t - 1) <= t < 2 ^ N.size t.
Proof.
  intros Ht. rewrite (N.size_log2 t Ht).
  replace (N.succ (N.log2 t) - 1) with (N.log2 t) by lia.
  apply N.log2_spec. lia.
Qed.

Lemma size_unique t k : 2 ^ k <= t < 2 ^ (k + 1) -> N.size t = k + 1.
Proof.
  intros [Hlo Hhi]. assert (t <> 0) by (pose proof (pow2_pos k); lia).
  rewrite (N.size_log2 t H). rewrite (N.log2_unique t k); try lia.
Qed.

Lemma size_le_mono a b : a <= b -> N.size a <= N.size b.
Proof.
  intros H. destruct (N.eq_dec a 0) as [->|Ha]; [cbn; lia|].
  assert (b <> 0) by lia.
  rewrite (N.size_log2 a Ha), (N.size_log2 b H0).
  pose proof (N.log2_le_mono a b H). lia.
Qed.

(* evaluate the closed powers of two (and the word sizes) everywhere *)
Ltac eval_pows :=
  repeat match goal with
  | |- context [2 ^ ?k] =>
    let v := eval vm_compute in (2 ^ k) in
    match v with N0 => fail 1 | Npos _ => idtac end;
    progress change (2 ^ k) with v in *
  | H : context [2 ^ ?k] |- _ =>
    let v := eval vm_compute in (2 ^ k) in
    match v with N0 => fail 1 | Npos _ => idtac end;
    progress change (2 ^ k) with v in *
  end.
