(* Arith/Rational.v — RationalU256 of util/rational/src/lib.rs, the operations
   Consensus::next_epoch_ext uses, transcribed operator by operator.  Every
   U256 operator is the checked one of Arith/U.v ([None] = the numext panic);
   U256::gcd (Stein's algorithm in numext, outside /repo) is taken by its
   specification [N.gcd].  Model only; proofs are in Arith/RationalProofs.v. *)
From CKB Require Export Arith.U.
Local Open Scope N_scope.

Record rat := mkRat { numer : N; denom : N }.

(* new_raw *)
Definition rat_raw (n d : N) : rat := mkRat n d.
Definition rat_one : rat := mkRat 1 1.
Definition rat_zero : rat := mkRat 0 1.

(* new: panics on denom = 0, then reduce() *)
Definition rat_new (n d : N) : option rat :=
  if d =? 0 then None else
  let g := N.gcd n d in
  n' <- div256 n g ;; d' <- div256 d g ;; Some (mkRat n' d').

Definition rat_is_zero (r : rat) : bool := numer r =? 0.

(* into_u256 *)
Definition rat_into_u256 (r : rat) : option N := div256 (numer r) (denom r).

(* saturating_sub_u256 *)
Definition rat_sat_sub_u (r : rat) (u : N) : option rat :=
  p <- mul256 (denom r) u ;;
  if numer r <? p then Some rat_zero else Some (mkRat (numer r - p) (denom r)).

(* Mul<&RationalU256> for &RationalU256 *)
Definition rat_mul (a b : rat) : option rat :=
  let gcd_ad := N.gcd (numer a) (denom b) in
  let gcd_bc := N.gcd (denom a) (numer b) in
  x1 <- div256 (numer a) gcd_ad ;; x2 <- div256 (numer b) gcd_bc ;; n <- mul256 x1 x2 ;;
  y1 <- div256 (denom a) gcd_bc ;; y2 <- div256 (denom b) gcd_ad ;; d <- mul256 y1 y2 ;;
  Some (mkRat n d).

(* Mul<&U256> for &RationalU256 *)
Definition rat_mul_u (a : rat) (u : N) : option rat :=
  let g := N.gcd (denom a) u in
  x <- div256 u g ;; n <- mul256 (numer a) x ;; d <- div256 (denom a) g ;;
  Some (mkRat n d).

(* Div<&RationalU256> for &RationalU256 *)
Definition rat_div (a b : rat) : option rat :=
  let gcd_ac := N.gcd (numer a) (numer b) in
  let gcd_bd := N.gcd (denom a) (denom b) in
  x1 <- div256 (numer a) gcd_ac ;; x2 <- div256 (denom b) gcd_bd ;; n <- mul256 x1 x2 ;;
  y1 <- div256 (denom a) gcd_bd ;; y2 <- div256 (numer b) gcd_ac ;; d <- mul256 y1 y2 ;;
  Some (mkRat n d).

(* Div<&U256> for &RationalU256 *)
Definition rat_div_u (a : rat) (u : N) : option rat :=
  let g := N.gcd (numer a) u in
  n <- div256 (numer a) g ;; x <- div256 u g ;; d <- mul256 (denom a) x ;;
  Some (mkRat n d).

(* Add<&U256> for &RationalU256 *)
Definition rat_add_u (a : rat) (u : N) : option rat :=
  p <- mul256 (denom a) u ;; n <- add256 (numer a) p ;; Some (mkRat n (denom a)).

(* Add<&RationalU256> for &RationalU256 *)
Definition rat_add (a b : rat) : option rat :=
  if denom a =? denom b then
    n <- add256 (numer a) (numer b) ;; rat_new n (denom a)
  else
    let g := N.gcd (denom a) (denom b) in
    q <- div256 (denom b) g ;; lcm <- mul256 (denom a) q ;;
    l1 <- div256 lcm (denom a) ;; ln <- mul256 (numer a) l1 ;;
    r1 <- div256 lcm (denom b) ;; rn <- mul256 (numer b) r1 ;;
    n <- add256 ln rn ;; rat_new n lcm.

(* Ord::cmp *)
Definition rat_cmp (a b : rat) : option comparison :=
  let g := N.gcd (denom a) (denom b) in
  q1 <- div256 (denom b) g ;; lhs <- mul256 (numer a) q1 ;;
  q2 <- div256 (denom a) g ;; rhs <- mul256 (numer b) q2 ;;
  Some (lhs ?= rhs).

Definition rat_gt (a b : rat) : option bool :=
  c <- rat_cmp a b ;; Some (match c with Gt => true | _ => false end).

Definition rat_eqb (a b : rat) : bool := (numer a =? numer b) && (denom a =? denom b).
Definition option_rat_eqb (a b : option rat) : bool :=
  match a, b with
  | None, None => true
  | Some x, Some y => rat_eqb x y
  | _, _ => false
  end.

(* ---- cases written by the harness ---------------------------------------- *)
(* one binary operation on two raw rationals / a rational and a U256:
   op 0 mul, 1 div, 2 add, 3 mul_u, 4 div_u, 5 add_u, 6 saturating_sub_u256,
   7 new(n1, d1) *)
Definition rat_apply (op : N) (a b : rat) : option rat :=
  match op with
  | 0 => rat_mul a b
  | 1 => rat_div a b
  | 2 => rat_add a b
  | 3 => rat_mul_u a (numer b)
  | 4 => rat_div_u a (numer b)
  | 5 => rat_add_u a (numer b)
  | 6 => rat_sat_sub_u a (numer b)
  | _ => rat_new (numer a) (denom a)
  end.
Definition check_ratop (c : N * (N * N) * (N * N) * option (N * N)) : bool :=
  let '(op, (n1, d1), (n2, d2), r) := c in
  option_rat_eqb (rat_apply op (mkRat n1 d1) (mkRat n2 d2))
                 (match r with Some (n, d) => Some (mkRat n d) | None => None end).
(* (a, b, cmp a b as comparison, into_u256 a) *)
Definition option_cmp_eqb (a b : option comparison) : bool :=
  match a, b with
  | None, None => true
  | Some Eq, Some Eq | Some Lt, Some Lt | Some Gt, Some Gt => true
  | _, _ => false
  end.
Definition check_ratcmp (c : (N * N) * (N * N) * option comparison * option N) : bool :=
  let '((n1, d1), (n2, d2), o, f) := c in
  option_cmp_eqb (rat_cmp (mkRat n1 d1) (mkRat n2 d2)) o
  && option_N_eqb (rat_into_u256 (mkRat n1 d1)) f.
