(* Arith/EpochExtProofs.v — per-block rewards sum to the epoch totals, the
   halving schedule, and the two clamps of spec/src/consensus.rs. *)
From Coq Require Import Lia.
From CKB Require Import Arith.U Arith.UProofs Arith.BitsProofs Arith.EpochExt.
Local Open Scope N_scope.

(* ---- rewards inside an epoch --------------------------------------------- *)
(* the shape shared by block_reward and secondary_block_issuance *)
Definition reward_fn (start base rem n : N) : option N :=
  if start <=? n then
    s <- add64 start rem ;; if n <? s then add64 base 1 else Some base
  else Some base.

Lemma block_reward_fn e n :
  ee_block_reward e n = reward_fn (ee_start_number e) (ee_base_block_reward e) (ee_remainder_reward e) n.
Proof. reflexivity. Qed.

Lemma secondary_fn e n sec : ee_length e <> 0 ->
  ee_secondary_block_issuance e n sec =
  reward_fn (ee_start_number e) (sec / ee_length e) (sec mod ee_length e) n.
Proof.
  intros HL. unfold ee_secondary_block_issuance, div64, rem64, reward_fn.
  apply N.eqb_neq in HL. rewrite HL. reflexivity.
Qed.

Lemma reward_fn_value start base rem n :
  start <= n -> start + rem < W64 -> (0 < rem -> base + 1 < W64) ->
  reward_fn start base rem n = Some (base + (if n <? start + rem then 1 else 0)).
Proof.
  intros Hs Ho Hb. unfold reward_fn.
  apply N.leb_le in Hs. rewrite Hs. unfold add64 at 1. rewrite (chk_ok _ _ Ho). cbn [bind].
  destruct (N.ltb_spec n (start + rem)).
  - unfold add64. rewrite chk_ok; [reflexivity|]. apply Hb. apply N.leb_le in Hs. lia.
  - f_equal. lia.
Qed.

Lemma sum_reward_fn start base rem : start + rem < W64 -> (0 < rem -> base + 1 < W64) ->
  forall k s, start <= s ->
  sum_range (reward_fn start base rem) s k =
  Some (base * N.of_nat k + N.min (N.of_nat k) (start + rem - s)).
Proof.
  intros Ho Hb. induction k as [|k IH]; intros s Hs.
  - cbn [sum_range]. f_equal. lia.
  - cbn [sum_range]. rewrite (reward_fn_value _ _ _ _ Hs Ho Hb). cbn [bind].
    rewrite IH by lia. cbn [bind]. f_equal.
    destruct (N.ltb_spec s (start + rem)); lia.
Qed.

(* every block of the epoch gets a reward and the rewards add up to
   base * length + remainder when remainder <= length *)
Lemma epoch_rewards_sum_gen start base rem L :
  rem <= L -> start + rem < W64 -> base * L + rem < W64 -> 0 < L ->
  sum_range (reward_fn start base rem) start (N.to_nat L) = Some (base * L + rem).
Proof.
  intros Hr Hs Hb HL.
  rewrite sum_reward_fn; try lia.
  - rewrite N2Nat.id. f_equal. lia.
  - intros Hrem. unfold W64 in *. nia.
Qed.

Lemma sum_range_ext f g : (forall n, f n = g n) -> forall k s, sum_range f s k = sum_range g s k.
Proof.
  intros H. induction k as [|k IH]; intros s; cbn [sum_range]; [reflexivity|].
  rewrite H. destruct (g s); cbn [bind]; [|reflexivity]. rewrite IH. reflexivity.
Qed.

Theorem epoch_primary_rewards_sum e R :
  0 < ee_length e -> ee_remainder_reward e <= ee_length e ->
  ee_start_number e + ee_length e < W64 ->
  ee_primary_reward e = Some R ->
  sum_range (ee_block_reward e) (ee_start_number e) (N.to_nat (ee_length e)) = Some R.
Proof.
  intros HL Hr Hs HR. unfold ee_primary_reward in HR. unbind HR.
  apply mul64_some in E as [-> Hm]. apply add64_some in HR as [-> Ha].
  rewrite (sum_range_ext _ _ (block_reward_fn e)).
  apply epoch_rewards_sum_gen; try assumption; lia.
Qed.

(* an epoch whose base/remainder were computed from a reward R as in
   next_epoch_ext / set_primary_reward: the blocks' rewards add up to R *)
Theorem epoch_rewards_sum_of_division number R hr start L c :
  0 < L -> R < W64 -> start + L <= W64 ->
  sum_range (ee_block_reward (mkEpochExt number (R / L) (R mod L) hr start L c)) start (N.to_nat L) = Some R.
Proof.
  intros HL HR Hs.
  assert (HdL : L <> 0) by lia.
  pose proof (N.div_mod R L HdL) as Hdm. pose proof (N.mod_lt R L HdL) as Hlt.
  rewrite (sum_range_ext _ _ (block_reward_fn _)). cbn [ee_start_number ee_base_block_reward ee_remainder_reward].
  replace (Some R) with (Some (R / L * L + R mod L)) by (f_equal; lia).
  apply epoch_rewards_sum_gen; lia.
Qed.

Theorem epoch_secondary_issuance_sum e sec :
  0 < ee_length e -> sec < W64 -> ee_start_number e + ee_length e <= W64 ->
  sum_range (fun n => ee_secondary_block_issuance e n sec) (ee_start_number e) (N.to_nat (ee_length e)) = Some sec.
Proof.
  intros HL Hsec Hs.
  assert (HdL : ee_length e <> 0) by lia.
  pose proof (N.div_mod sec _ HdL) as Hdm. pose proof (N.mod_lt sec _ HdL) as Hlt.
  rewrite (sum_range_ext _ _ (fun n => secondary_fn e n sec HdL)).
  replace (Some sec) with (Some (sec / ee_length e * ee_length e + sec mod ee_length e)) by (f_equal; lia).
  apply epoch_rewards_sum_gen; lia.
Qed.

(* ---- halving schedule ------------------------------------------------------ *)
Lemma primary_epoch_reward_value P n : p_halving_interval P <> 0 ->
  primary_epoch_reward P n =
  Some (if n / p_halving_interval P <? 64 then p_initial_primary_epoch_reward P / 2 ^ (n / p_halving_interval P) else 0).
Proof.
  intros HI. unfold primary_epoch_reward, div64. apply N.eqb_neq in HI. rewrite HI. cbn [bind].
  unfold checked_shr64. set (h := n / p_halving_interval P). clearbody h.
  destruct (N.ltb_spec h 64) as [H64|H64].
  - assert (Hw : h <? W32 = true) by (apply N.ltb_lt; unfold W32; eval_pows; lia). rewrite Hw.
    rewrite N.shiftr_div_pow2. reflexivity.
  - destruct (h <? W32); reflexivity.
Qed.

Theorem halving_on_schedule P k n :
  0 < p_halving_interval P -> k < 64 ->
  k * p_halving_interval P <= n < (k + 1) * p_halving_interval P ->
  primary_epoch_reward P n = Some (p_initial_primary_epoch_reward P / 2 ^ k).
Proof.
  intros HI Hk [Hlo Hhi]. rewrite primary_epoch_reward_value by lia.
  assert (Hq : n / p_halving_interval P = k).
  { symmetry. apply (N.div_unique n _ k (n - k * p_halving_interval P)); lia. }
  rewrite Hq. apply N.ltb_lt in Hk. rewrite Hk. reflexivity.
Qed.

(* from the 64th halving on the repaired schedule issues nothing *)
Theorem halving_after_64 P n :
  0 < p_halving_interval P -> 64 * p_halving_interval P <= n ->
  primary_epoch_reward P n = Some 0.
Proof.
  intros HI Hn. rewrite primary_epoch_reward_value by lia.
  assert (64 <= n / p_halving_interval P) by (apply N.div_le_lower_bound; lia).
  apply N.ltb_ge in H. rewrite H. reflexivity.
Qed.

(* the repaired function is total (for a non-zero interval, whatever the epoch
   number) and agrees with the old one wherever the old one is defined *)
Theorem primary_epoch_reward_total P n :
  0 < p_halving_interval P -> exists r, primary_epoch_reward P n = Some r /\ r <= p_initial_primary_epoch_reward P.
Proof.
  intros HI. rewrite primary_epoch_reward_value by lia. eexists. split; [reflexivity|].
  destruct (_ <? 64); [|lia]. apply N.div_le_upper_bound; [apply N.pow_nonzero; lia|].
  pose proof (pow2_pos (n / p_halving_interval P)). nia.
Qed.

Theorem primary_epoch_reward_agrees_with_old P n r :
  primary_epoch_reward_old P n = Some r -> primary_epoch_reward P n = Some r.
Proof.
  unfold primary_epoch_reward_old. intros H. apply bind_some in H as (h & Hh & H).
  apply div64_some in Hh as [-> HI]. apply shr64_some in H as [-> H64].
  rewrite primary_epoch_reward_value by assumption. apply N.ltb_lt in H64. rewrite H64. reflexivity.
Qed.

Lemma div_succ_not_multiple n I : I <> 0 -> (n + 1) mod I <> 0 -> (n + 1) / I = n / I.
Proof.
  intros HI Hm.
  pose proof (N.div_mod n I HI) as Hdm. pose proof (N.mod_lt n I HI) as Hlt.
  destruct (N.eq_dec (n mod I + 1) I) as [He|Hne].
  - exfalso. apply Hm. symmetry. apply (N.mod_unique (n + 1) I (n / I + 1) 0); lia.
  - symmetry. apply (N.div_unique (n + 1) I (n / I) (n mod I + 1)); lia.
Qed.

(* the reward next_epoch_ext gives the next epoch is the scheduled one, provided
   the current epoch carries the scheduled one *)
Theorem next_reward_on_schedule P e R :
  ee_primary_reward e = primary_epoch_reward P (ee_number e) ->
  primary_epoch_reward_of_next_epoch P e = Some R ->
  primary_epoch_reward P (ee_number e + 1) = Some R.
Proof.
  intros Hinv H. unfold primary_epoch_reward_of_next_epoch in H.
  apply bind_some in H as (n1 & E & H). apply add64_some in E as [-> _].
  unfold is_multiple_of in H.
  destruct (N.eqb_spec (p_halving_interval P) 0) as [HI|HI].
  - destruct (N.eqb_spec (ee_number e + 1) 0); [lia|]. cbn [negb] in H.
    rewrite Hinv in H. unfold primary_epoch_reward, div64 in H.
    rewrite HI in H. cbn in H. discriminate.
  - destruct (N.eqb_spec ((ee_number e + 1) mod p_halving_interval P) 0) as [Hm|Hm]; cbn [negb] in H.
    + exact H.
    + rewrite Hinv in H. rewrite primary_epoch_reward_value in * by assumption.
      rewrite (div_succ_not_multiple _ _ HI Hm). exact H.
Qed.

(* ---- the two clamps --------------------------------------------------------- *)
Lemma div_le_self a b : 1 <= b -> a / b <= a.
Proof.
  intros Hb. assert (b <> 0) by lia.
  apply N.div_le_upper_bound; [assumption|]. nia.
Qed.

Theorem bounding_epoch_length_bounds P len last r b :
  1 <= p_tau P -> p_min_epoch_length P <= last <= p_max_epoch_length P ->
  bounding_epoch_length P len last = Some (r, b) ->
  p_min_epoch_length P <= r <= p_max_epoch_length P /\
  last / p_tau P <= r <= last * p_tau P /\
  (b = false -> r = len).
Proof.
  intros Ht [Hlo Hhi] H. unfold bounding_epoch_length in H. unbind H.
  apply mul64_some in E as [-> _]. apply div64_some in E0 as [-> _].
  pose proof (div_le_self last (p_tau P) Ht) as Hd.
  assert (Hm : last <= last * p_tau P) by nia.
  destruct (N.ltb_spec (N.min (p_max_epoch_length P) (last * p_tau P)) len).
  - inversion H; subst. repeat split; try lia; discriminate.
  - destruct (N.ltb_spec len (N.max (p_min_epoch_length P) (last / p_tau P))); inversion H; subst.
    + repeat split; try lia; discriminate.
    + repeat split; lia.
Qed.

Theorem bounding_hash_rate_clamp P hr prev r :
  1 <= p_tau P -> bounding_hash_rate P hr prev = Some r ->
  (prev = 0 -> r = hr) /\
  (prev <> 0 -> r = N.max (prev / p_tau P) (N.min hr (prev * p_tau P)) /\
                prev / p_tau P <= r <= prev * p_tau P).
Proof.
  intros Ht H. unfold bounding_hash_rate in H.
  destruct (N.eqb_spec prev 0) as [Hp|Hp].
  - inversion H; subst. split; [reflexivity|]. intros Hc; contradiction.
  - split; [intros Hc; contradiction|]. intros _.
    unbind H. apply div256_some in E as [-> _].
    pose proof (div_le_self prev (p_tau P) Ht) as Hd.
    assert (Hm : prev <= prev * p_tau P) by nia.
    destruct (N.ltb_spec hr (prev / p_tau P)).
    + inversion H; subst. lia.
    + unbind H. apply mul256_some in E as [-> _].
      destruct (N.ltb_spec (prev * p_tau P) hr); inversion H; subst; lia.
Qed.
