(* Arith/Since.v — executable model of the `since` field (RFC-17) as decoded by
   verification/src/transaction_verifier.rs (Since::{is_absolute, flags_is_valid,
   extract_metric, timestamp_overflows}) and of the EpochNumberWithFraction
   accessors of util/types/src/core/extras.rs that the since / maturity rules
   use (number/index/length, normalize, is_well_formed_increment, to_rational,
   minimum_epoch_number_after_n_blocks).

   Numbers are N; every u64 operation of the Rust code that can overflow is
   explicit: [None] = the release build (overflow-checks = true) panics.
   The masks, metric tags and the multiplier come from coq/gen/SinceParams.v,
   regenerated from the Rust source on every run by tools/since2v.py.

   No proofs in this file (Arith/SinceProofs.v). *)
From Coq Require Export List NArith Lia Bool.
From CKB Require Export gen.SinceParams.
Export ListNotations.
Local Open Scope N_scope.

Definition U64 : N := 2 ^ 64.
Definition U64MAX : N := 2 ^ 64 - 1.

(* checked u64 arithmetic: None = overflow (a panic for the plain operators,
   None for the checked_ methods) *)
Definition add64 (a b : N) : option N := if a + b <? U64 then Some (a + b) else None.
Definition mul64 (a b : N) : option N := if a * b <? U64 then Some (a * b) else None.
Definition sat_mul64 (a b : N) : N := N.min (a * b) U64MAX.
Definition sat_sub64 (a b : N) : N := a - b.   (* N subtraction truncates at 0 = saturating_sub *)

(* ---- Since ------------------------------------------------------------- *)
Definition since_value (s : N) : N := N.land s VALUE_MASK.
Definition since_metric_bits (s : N) : N := N.land s METRIC_TYPE_FLAG_MASK.

Definition is_absolute (s : N) : bool := N.land s LOCK_TYPE_FLAG =? 0.
Definition is_relative (s : N) : bool := negb (is_absolute s).

Definition flags_is_valid (s : N) : bool :=
  (N.land s REMAIN_FLAGS_BITS =? 0) && negb (since_metric_bits s =? METRIC_TYPE_FLAG_MASK).

Inductive metric :=
| MBlock (n : N)       (* block number / relative block count *)
| MEpoch (e : N)       (* EpochNumberWithFraction::from_full_value_unchecked(value) *)
| MTime (ms : N).      (* milliseconds *)

(* Since::extract_metric as it was before the fix: commit: `value * 1000` with
   overflow checks.  Outer None = panic; inner None = no metric (flag 11). *)
Definition extract_metric_old (s : N) : option (option metric) :=
  let v := since_value s in
  let t := since_metric_bits s in
  if t =? TAG_BLOCK_NUMBER then Some (Some (MBlock v))
  else if t =? TAG_EPOCH then Some (Some (MEpoch v))
  else if t =? TAG_TIMESTAMP then
    match mul64 v TIMESTAMP_MULTIPLIER with
    | Some ms => Some (Some (MTime ms))
    | None => None
    end
  else Some None.

(* Since::extract_metric as repaired: value.saturating_mul(1000); total *)
Definition extract_metric (s : N) : option metric :=
  let v := since_value s in
  let t := since_metric_bits s in
  if t =? TAG_BLOCK_NUMBER then Some (MBlock v)
  else if t =? TAG_EPOCH then Some (MEpoch v)
  else if t =? TAG_TIMESTAMP then Some (MTime (sat_mul64 v TIMESTAMP_MULTIPLIER))
  else None.

(* Since::timestamp_overflows: checked_mul(1000).is_none() on the timestamp metric *)
Definition timestamp_overflows (s : N) : bool :=
  (since_metric_bits s =? TAG_TIMESTAMP) &&
  match mul64 (since_value s) TIMESTAMP_MULTIPLIER with Some _ => false | None => true end.

(* the RFC-17 encoding: relative flag (bit 63), metric flag m (bits 62-61,
   0 block number, 1 epoch, 2 timestamp), value (bits 55-0) *)
Definition since_encode (rel : bool) (m v : N) : N :=
  (if rel then 2 ^ 63 else 0) + m * 2 ^ 61 + v.
(* field [w] bits wide at bit offset [lo] *)
Definition fld (s lo w : N) : N := (s / 2 ^ lo) mod 2 ^ w.

(* ---- EpochNumberWithFraction ------------------------------------------- *)
Definition ep_number (e : N) : N := fld e EPOCH_NUMBER_OFFSET EPOCH_NUMBER_BITS.
Definition ep_index (e : N) : N := fld e EPOCH_INDEX_OFFSET EPOCH_INDEX_BITS.
Definition ep_length (e : N) : N := fld e EPOCH_LENGTH_OFFSET EPOCH_LENGTH_BITS.
Definition ep_new (number index length : N) : N :=
  length * 2 ^ EPOCH_LENGTH_OFFSET + index * 2 ^ EPOCH_INDEX_OFFSET + number * 2 ^ EPOCH_NUMBER_OFFSET.

Definition ep_normalize (e : N) : N :=
  if ep_length e =? 0 then ep_new (ep_number e) 0 1 else e.
Definition ep_is_well_formed_increment (e : N) : bool :=
  (ep_index e <? ep_length e) || ((ep_length e =? 0) && (ep_index e =? 0)).
Definition ep_is_well_formed (e : N) : bool :=
  (0 <? ep_length e) && (ep_index e <? ep_length e).

(* exact non-negative rationals num/den, den > 0; RationalU256 keeps them
   reduced, which changes neither comparison nor sum; the operands here are
   below 2^41, far from the 256-bit limit *)
Record rat := mkRat { rnum : N; rden : N }.
Definition rat_lt (a b : rat) : bool := rnum a * rden b <? rnum b * rden a.
Definition rat_add (a b : rat) : rat := mkRat (rnum a * rden b + rnum b * rden a) (rden a * rden b).

(* EpochNumberWithFraction::to_rational: 0 for the all-zero value, otherwise
   index/length + number; RationalU256::new panics on length 0 (None) *)
Definition ep_to_rational (e : N) : option rat :=
  if e =? 0 then Some (mkRat 0 1)
  else if ep_length e =? 0 then None
  else Some (mkRat (ep_index e + ep_number e * ep_length e) (ep_length e)).

Definition ep_min_number_after (e n : N) : N :=
  if ep_length e <=? ep_index e + n then ep_number e + 1 else ep_number e.
