(* Arith/FormulaProofs.v — the rational arithmetic of next_epoch_ext computes
   the RFC formulas exactly: whenever no operation panics, the next epoch
   length is the clamped floor of  o_ideal (1+o) T L / (o (1+o_ideal) D)  and the
   next difficulty is  max 1 (floor (HR' T / ((1+o') L')))  with the orphan
   rate term o' of the three sub-cases.  Fractions are pairs compared by cross
   multiplication in unbounded N. *)
From Coq Require Import Lia NArithRing.
From CKB Require Import Arith.U Arith.UProofs Arith.Compact Arith.CompactProofs Arith.Rational
     Arith.RationalProofs Arith.BitsProofs Arith.Epoch Arith.EpochExt Arith.EpochExtProofs Arith.NextEpochProofs.
Local Open Scope N_scope.

(* ---- operations on a rational that denotes n/d ---------------------------------- *)
Lemma den_add_u a n d u r : denotes a n d -> rat_add_u a u = Some r -> denotes r (n + d * u) d.
Proof.
  intros [Hd He] H. apply rat_add_u_sound in H. subst r. unfold denotes, frac_eq in *. cbn [numer denom].
  split; [assumption|]. nia.
Qed.

Lemma den_mul_u a n d u r : denotes a n d -> rat_mul_u a u = Some r -> denotes r (n * u) d.
Proof.
  intros [Hd He] H. destruct (rat_mul_u_sound _ _ _ H Hd) as [Hrd Hs]. unfold denotes, frac_eq in *.
  split; [assumption|].
  apply (N.mul_cancel_r _ _ (denom a) Hd).
  transitivity (numer r * denom a * d); [ring|]. rewrite Hs.
  transitivity (numer a * d * u * denom r); [ring|]. rewrite He. ring.
Qed.

Lemma den_mul a b n2 d2 r : denom a <> 0 -> denotes b n2 d2 -> rat_mul a b = Some r ->
  denotes r (numer a * n2) (denom a * d2).
Proof.
  intros Ha [Hd He] H. destruct (rat_mul_sound _ _ _ H Ha Hd) as [Hrd Hs]. unfold denotes, frac_eq in *.
  split; [assumption|].
  apply (N.mul_cancel_r _ _ (denom b) Hd).
  transitivity (numer r * (denom a * denom b) * d2); [ring|]. rewrite Hs.
  transitivity (numer a * (numer b * d2) * denom r); [ring|]. rewrite He. ring.
Qed.

Lemma den_div a b n1 d1 n2 d2 r : denotes a n1 d1 -> denotes b n2 d2 -> n2 <> 0 -> d2 <> 0 ->
  rat_div a b = Some r -> denotes r (n1 * d2) (d1 * n2).
Proof.
  intros [Hda Ea] [Hdb Eb] Hn2 Hd2 H. unfold frac_eq in *.
  assert (Hnb : numer b <> 0).
  { intros Hz. rewrite Hz in Eb. assert (n2 * denom b = 0) by lia. apply N.eq_mul_0 in H0. lia. }
  destruct (rat_div_sound _ _ _ H Hda Hdb Hnb) as [Hrd Hs]. unfold denotes, frac_eq in *.
  split; [assumption|].
  assert (Hc : denom a * denom b <> 0) by (apply N.neq_mul_0; split; assumption).
  apply (N.mul_cancel_r _ _ (denom a * denom b) Hc).
  transitivity (numer r * denom a * d1 * (n2 * denom b)); [ring|]. rewrite <- Eb.
  transitivity (numer r * (denom a * numer b) * d1 * d2); [ring|]. rewrite Hs.
  transitivity (numer a * d1 * denom b * denom r * d2); [ring|]. rewrite Ea. ring.
Qed.

Lemma den_sat_sub_1 q n d r : denotes q n d -> d <> 0 -> rat_sat_sub_u q 1 = Some r ->
  (n <= d /\ rat_is_zero r = true) \/ (d < n /\ rat_is_zero r = false /\ denotes r (n - d) d).
Proof.
  intros [Hd He] Hdd H. unfold frac_eq in He. apply rat_sat_sub_u_sound in H. rewrite N.mul_1_r in H.
  destruct H as [[Hlt ->]|[Hle ->]].
  - left. split; [|reflexivity]. nia.
  - unfold rat_is_zero, denotes, frac_eq. cbn [numer denom].
    destruct (N.eqb_spec (numer q - denom q) 0) as [Hz|Hz].
    + left. split; [|reflexivity]. nia.
    + right. split; [nia|]. split; [reflexivity|]. split; [assumption|]. nia.
Qed.

Lemma rat_one_denotes : denotes rat_one 1 1.
Proof. unfold denotes, frac_eq. cbn. lia. Qed.

Lemma denotes_frac_eq r n d n' d' : denotes r n d -> d <> 0 -> d' <> 0 -> frac_eq n d n' d' -> denotes r n' d'.
Proof.
  intros [Hd He] H1 H2 Hf. unfold denotes, frac_eq in *. split; [assumption|].
  apply (N.mul_cancel_r _ _ d H1).
  transitivity (numer r * d * d'); [ring|]. rewrite He.
  transitivity (n * d' * denom r); [ring|]. rewrite Hf. ring.
Qed.

(* ---- the denominator (1 + o') L' of the difficulty formula ------------------------ *)
(* as a fraction dn/dd; xn/xd is the estimate (1+o) T L / (o D L') of the source *)
Definition den_spec (P : params) (L U D L' : N) (bound : bool) : N * N :=
  let on := numer (p_orphan_rate_target P) in
  let od := denom (p_orphan_rate_target P) in
  let T := p_epoch_duration_target P in
  let xn := (U + L) * T * L in
  let xd := U * D * L' in
  if bound then
    if U =? 0 then (L', 1)
    else if xd <? xn then (xn * L', xn - xd) else ((on + od) * L', od)
  else ((on + od) * L', od).

Lemma ort_branch P L' ort1 den :
  denom (p_orphan_rate_target P) <> 0 ->
  rat_add_u (p_orphan_rate_target P) 1 = Some ort1 -> rat_mul_u ort1 L' = Some den ->
  denotes den ((numer (p_orphan_rate_target P) + denom (p_orphan_rate_target P)) * L') (denom (p_orphan_rate_target P)).
Proof.
  intros Hod H1 H2.
  assert (Ho : denotes (p_orphan_rate_target P) (numer (p_orphan_rate_target P)) (denom (p_orphan_rate_target P)))
    by (split; [assumption|reflexivity]).
  pose proof (den_add_u _ _ _ _ _ Ho H1) as Ho1. rewrite N.mul_1_r in Ho1.
  exact (den_mul_u _ _ _ _ _ Ho1 H2).
Qed.

Theorem diff_denominator_spec P lor L U D L' bound den :
  denom (p_orphan_rate_target P) <> 0 -> L <> 0 -> D <> 0 -> L' <> 0 ->
  rat_new U L = Some lor ->
  diff_denominator P lor L D L' bound = Some den ->
  denotes den (fst (den_spec P L U D L' bound)) (snd (den_spec P L U D L' bound)) /\
  snd (den_spec P L U D L' bound) <> 0.
Proof.
  intros Hod HL HD HL' Hlor H.
  destruct (rat_new_sound _ _ _ Hlor) as [Hl _].
  assert (Hz : rat_is_zero lor = (U =? 0)).
  { destruct Hl as [Hld Hle]. unfold frac_eq in Hle. unfold rat_is_zero.
    destruct (N.eqb_spec (numer lor) 0) as [Hn|Hn]; destruct (N.eqb_spec U 0) as [Hu|Hu]; try reflexivity; exfalso.
    - rewrite Hn in Hle. assert (U * denom lor = 0) by lia. apply N.eq_mul_0 in H0. lia.
    - subst U. assert (numer lor * L = 0) by lia. apply N.eq_mul_0 in H0. lia. }
  unfold diff_denominator in H. unfold den_spec. cbv zeta.
  destruct bound.
  2:{ apply bind_some in H as (ort1 & H1 & H2). cbn [fst snd]. split; [|assumption]. eapply ort_branch; eassumption. }
  rewrite Hz in H. destruct (N.eqb_spec U 0) as [Hu|Hu].
  - apply rat_new_den1 in H. subst den. cbn [fst snd]. split; [|lia]. unfold denotes, frac_eq. cbn. lia.
  - apply bind_some in H as (lor1 & Hlor1 & H). apply bind_some in H as (a1 & Ha1 & H).
    apply bind_some in H as (a2 & Ha2 & H). apply bind_some in H as (b1 & Hb1 & H).
    apply bind_some in H as (b2 & Hb2 & H). apply bind_some in H as (q & Hq & H).
    apply bind_some in H as (recip & Hrecip & H).
    set (T := p_epoch_duration_target P) in *.
    pose proof (den_add_u _ _ _ _ _ Hl Hlor1) as D1. rewrite N.mul_1_r in D1.
    pose proof (den_mul_u _ _ _ _ _ D1 Ha1) as D2. pose proof (den_mul_u _ _ _ _ _ D2 Ha2) as D3.
    pose proof (den_mul_u _ _ _ _ _ Hl Hb1) as D4. pose proof (den_mul_u _ _ _ _ _ D4 Hb2) as D5.
    assert (Hxd : U * D * L' <> 0) by (repeat (apply N.neq_mul_0; split); assumption).
    pose proof (den_div _ _ _ _ _ _ _ D3 D5 Hxd HL Hq) as D6.
    set (xn := (U + L) * T * L) in *. set (xd := U * D * L') in *.
    assert (HLxd : L * xd <> 0) by (apply N.neq_mul_0; split; assumption).
    destruct (den_sat_sub_1 _ _ _ _ D6 HLxd Hrecip) as [[Hle Hrz]|(Hlt & Hrz & D7)]; rewrite Hrz in H.
    + assert (Hc : xd <? xn = false) by (apply N.ltb_ge; nia). rewrite Hc. cbn [fst snd].
      apply bind_some in H as (ort1 & H1 & H2). split; [|assumption]. eapply ort_branch; eassumption.
    + assert (Hc : xd <? xn = true) by (apply N.ltb_lt; nia). rewrite Hc. cbn [fst snd].
      apply N.ltb_lt in Hc.
      apply bind_some in H as (est & Hest & H). apply bind_some in H as (est1 & Hest1 & H).
      assert (Hnz : xn * L - L * xd <> 0) by nia.
      pose proof (den_div _ _ _ _ _ _ _ rat_one_denotes D7 Hnz HLxd Hest) as D8. rewrite !N.mul_1_l in D8.
      pose proof (den_add_u _ _ _ _ _ D8 Hest1) as D9. rewrite N.mul_1_r in D9.
      pose proof (den_mul_u _ _ _ _ _ D9 H) as D10.
      split; [|lia].
      apply (denotes_frac_eq _ _ _ _ _ D10); [assumption|lia|].
      unfold frac_eq. replace (L * xd + (xn * L - L * xd)) with (xn * L) by lia.
      replace (xn * L - L * xd) with ((xn - xd) * L) by nia. ring.
Qed.

(* ---- the difficulty formula ------------------------------------------------------- *)
Theorem next_diff_formula P e hn hc U dur e' :
  denom (p_orphan_rate_target P) <> 0 ->
  0 < numer (p_orphan_rate_target P) + denom (p_orphan_rate_target P) ->
  next_epoch_ext P e hn hc U dur = Some e' ->
  exists D bound nd,
    D = N.max (dur / p_ms_in_s P) 1 /\
    difficulty_to_compact nd = Some (ee_compact_target e') /\
    let HR' := ee_previous_epoch_hash_rate e' in
    let L' := ee_length e' in
    let dn := fst (den_spec P (ee_length e) U D L' bound) in
    let dd := snd (den_spec P (ee_length e) U D L' bound) in
    dn <> 0 /\ dd <> 0 /\
    nd = N.max 1 (HR' * p_epoch_duration_target P * dd / dn) /\
    (U = 0 -> bound = true) /\
    (bound = false -> exists lor raw, rat_new U (ee_length e) = Some lor /\
                      next_epoch_length P lor (ee_length e) U D = Some (L', false) /\ L' = low64 raw).
Proof.
  intros Hod Hon H.
  destruct (next_epoch_ext_inv _ _ _ _ _ _ _ H) as (D & adjusted & lor & len & bound & den & nd & R & number & start & compact
    & HD & Hadj & Hlor & Hlen & Hden & Hnd & HR & Hl & Hnum & Hstart & Hc & ->).
  cbn [ee_compact_target ee_previous_epoch_hash_rate ee_length].
  unfold last_epoch_duration in HD. apply bind_some in HD as (ds & Hds & HD). apply div64_some in Hds as [-> _].
  inversion HD; subst D; clear HD.
  set (D := N.max (dur / p_ms_in_s P) 1) in *.
  assert (HD0 : D <> 0) by lia.
  destruct (rat_new_sound _ _ _ Hlor) as [_ HL].
  destruct (diff_denominator_spec P lor _ U D len bound den Hod HL HD0 Hl Hlor Hden) as [Hdd Hddnz].
  exists D, bound, nd. split; [reflexivity|]. split; [assumption|]. cbv zeta.
  set (dn := fst (den_spec P (ee_length e) U D len bound)) in *.
  set (dd := snd (den_spec P (ee_length e) U D len bound)) in *.
  assert (Hdn : dn <> 0).
  { subst dn. unfold den_spec. cbv zeta. destruct bound; cbn [fst]; [|nia].
    destruct (N.eqb_spec U 0); cbn [fst]; [assumption|].
    destruct (N.ltb_spec (U * D * len) ((U + ee_length e) * p_epoch_duration_target P * ee_length e)); cbn [fst]; nia. }
  destruct Hdd as [Hdend Hfe]. unfold frac_eq in Hfe.
  assert (Hdenn : numer den <> 0).
  { intros Hz. rewrite Hz in Hfe. assert (dn * denom den = 0) by lia. apply N.eq_mul_0 in H0. lia. }
  destruct (next_epoch_diff_value _ _ _ _ Hnd) as [_ Hv]. specialize (Hv Hdend Hdenn).
  split; [assumption|]. split; [assumption|]. split.
  - rewrite Hv. f_equal. apply frac_eq_floor; try assumption. unfold frac_eq.
    transitivity (adjusted * p_epoch_duration_target P * (dn * denom den)); [ring|]. rewrite <- Hfe. ring.
  - split.
    + intros HU. unfold next_epoch_length in Hlen. subst U. cbn [N.eqb] in Hlen.
      apply bind_some in Hlen as (m & _ & Hlen). inversion Hlen. reflexivity.
    + intros ->. exists lor.
      unfold next_epoch_length in Hlen. destruct (N.eqb_spec U 0).
      * apply bind_some in Hlen as (m & _ & Hlen). inversion Hlen.
      * pose proof Hlen as Hlen'.
        apply bind_some in Hlen as (lor1 & _ & Hlen). apply bind_some in Hlen as (n1 & _ & Hlen).
        apply bind_some in Hlen as (n2 & _ & Hlen). apply bind_some in Hlen as (numr & _ & Hlen).
        apply bind_some in Hlen as (ort1 & _ & Hlen). apply bind_some in Hlen as (d1 & _ & Hlen).
        apply bind_some in Hlen as (denr & _ & Hlen). apply bind_some in Hlen as (q & _ & Hlen).
        apply bind_some in Hlen as (raw & _ & Hlen).
        exists raw. split; [assumption|]. split.
        -- unfold next_epoch_length. apply N.eqb_neq in n. rewrite n. exact Hlen'.
        -- unfold bounding_epoch_length in Hlen.
           apply bind_some in Hlen as (m & _ & Hlen). apply bind_some in Hlen as (dv & _ & Hlen).
           destruct (_ <? low64 raw); [inversion Hlen|]. destruct (low64 raw <? _); inversion Hlen. reflexivity.
Qed.

(* ---- the length formula ------------------------------------------------------------- *)
Lemma den_mul2 a b n1 d1 n2 d2 r : denotes a n1 d1 -> denotes b n2 d2 -> rat_mul a b = Some r ->
  denotes r (n1 * n2) (d1 * d2).
Proof.
  intros [Hda Ea] [Hdb Eb] H. destruct (rat_mul_sound _ _ _ H Hda Hdb) as [Hrd Hs]. unfold denotes, frac_eq in *.
  split; [assumption|].
  assert (Hc : denom a * denom b <> 0) by (apply N.neq_mul_0; split; assumption).
  apply (N.mul_cancel_r _ _ (denom a * denom b) Hc).
  transitivity (numer r * (denom a * denom b) * (d1 * d2)); [ring|]. rewrite Hs.
  transitivity (numer a * d1 * (numer b * d2) * denom r); [ring|]. rewrite Ea, Eb. ring.
Qed.

(* with uncles, the raw next length is floor (o_ideal (U+L) T L / (U (1+o_ideal) D))
   — the RFC's  o_ideal (1+o) T L / (o (1+o_ideal) D)  with o = U/L — truncated to
   64 bits and clamped by bounding_epoch_length *)
Theorem next_len_formula P lor L U D len bound :
  denom (p_orphan_rate_target P) <> 0 ->
  0 < numer (p_orphan_rate_target P) + denom (p_orphan_rate_target P) ->
  D <> 0 -> U <> 0 ->
  rat_new U L = Some lor -> next_epoch_length P lor L U D = Some (len, bound) ->
  let on := numer (p_orphan_rate_target P) in
  let od := denom (p_orphan_rate_target P) in
  let raw := on * (U + L) * p_epoch_duration_target P * L / (U * (on + od) * D) in
  bounding_epoch_length P (low64 raw) L = Some (len, bound).
Proof.
  intros Hod Hon HD HU Hlor H. cbv zeta.
  destruct (rat_new_sound _ _ _ Hlor) as [Hl HL].
  unfold next_epoch_length in H. apply N.eqb_neq in HU. rewrite HU in H. apply N.eqb_neq in HU.
  set (ort := p_orphan_rate_target P) in *. set (T := p_epoch_duration_target P) in *.
  assert (Ho : denotes ort (numer ort) (denom ort)) by (split; [assumption|reflexivity]).
  apply bind_some in H as (lor1 & Hlor1 & H). apply bind_some in H as (n1 & Hn1 & H).
  apply bind_some in H as (n2 & Hn2 & H). apply bind_some in H as (numr & Hnumr & H).
  apply bind_some in H as (ort1 & Hort1 & H). apply bind_some in H as (d1 & Hd1 & H).
  apply bind_some in H as (denr & Hdenr & H). apply bind_some in H as (q & Hq & H).
  apply bind_some in H as (raw & Hraw & H).
  pose proof (den_add_u _ _ _ _ _ Hl Hlor1) as D1. rewrite N.mul_1_r in D1.
  pose proof (den_mul2 _ _ _ _ _ _ _ Ho D1 Hn1) as D2.
  pose proof (den_mul_u _ _ _ _ _ D2 Hn2) as D3. pose proof (den_mul_u _ _ _ _ _ D3 Hnumr) as D4.
  pose proof (den_add_u _ _ _ _ _ Ho Hort1) as D5. rewrite N.mul_1_r in D5.
  pose proof (den_mul2 _ _ _ _ _ _ _ Hl D5 Hd1) as D6.
  pose proof (den_mul_u _ _ _ _ _ D6 Hdenr) as D7.
  assert (Hn : U * (numer ort + denom ort) * D <> 0) by (repeat (apply N.neq_mul_0; split); try assumption; lia).
  assert (Hd : L * denom ort <> 0) by (apply N.neq_mul_0; split; assumption).
  pose proof (den_div _ _ _ _ _ _ _ D4 D7 Hn Hd Hq) as D8.
  assert (Hdd : denom ort * L * (U * (numer ort + denom ort) * D) <> 0) by (apply N.neq_mul_0; split; [apply N.neq_mul_0; split|]; assumption).
  rewrite (rat_into_u256_sound _ _ _ _ D8 Hdd Hraw) in H.
  erewrite frac_eq_floor; [exact H|assumption|assumption|]. unfold frac_eq. ring.
Qed.
