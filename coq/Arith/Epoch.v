(* Arith/Epoch.v — EpochNumberWithFraction of util/types/src/core/extras.rs:
   a u64 packing  length(16 bits) | index(16 bits) | number(24 bits).
   Model only; proofs are in Arith/EpochProofs.v. *)
From CKB Require Export Arith.U.
Local Open Scope N_scope.

Definition NUMBER_OFFSET : N := 0.
Definition NUMBER_BITS : N := 24.
Definition NUMBER_MAXIMUM_VALUE : N := N.shiftl 1 NUMBER_BITS.
Definition NUMBER_MASK : N := NUMBER_MAXIMUM_VALUE - 1.
Definition INDEX_OFFSET : N := NUMBER_BITS.
Definition INDEX_BITS : N := 16.
Definition INDEX_MAXIMUM_VALUE : N := N.shiftl 1 INDEX_BITS.
Definition INDEX_MASK : N := INDEX_MAXIMUM_VALUE - 1.
Definition LENGTH_OFFSET : N := NUMBER_BITS + INDEX_BITS.
Definition LENGTH_BITS : N := 16.
Definition LENGTH_MAXIMUM_VALUE : N := N.shiftl 1 LENGTH_BITS.
Definition LENGTH_MASK : N := LENGTH_MAXIMUM_VALUE - 1.

(* pub const fn new_unchecked(number, index, length): the shifts of a u64 lose
   the bits pushed out; [new] is the same function in a release build (its
   checks are debug_assert!s) *)
Definition enf_new (number index length : N) : N :=
  N.lor (N.lor (N.shiftl length LENGTH_OFFSET mod W64) (N.shiftl index INDEX_OFFSET mod W64))
        (N.shiftl number NUMBER_OFFSET mod W64).

Definition enf_number (v : N) : N := N.land (N.shiftr v NUMBER_OFFSET) NUMBER_MASK.
Definition enf_index (v : N) : N := N.land (N.shiftr v INDEX_OFFSET) INDEX_MASK.
Definition enf_length (v : N) : N := N.land (N.shiftr v LENGTH_OFFSET) LENGTH_MASK.

(* pub fn is_successor_of(self, predecessor) *)
Definition enf_is_successor_of (s p : N) : bool :=
  if enf_index p + 1 =? enf_length p
  then (enf_number s =? enf_number p + 1) && (enf_index s =? 0)
  else (enf_number s =? enf_number p) && (enf_index s =? enf_index p + 1)
       && (enf_length s =? enf_length p).

(* pub fn is_well_formed(self) *)
Definition enf_is_well_formed (v : N) : bool :=
  (0 <? enf_length v) && (enf_index v <? enf_length v).

Definition enf_is_well_formed_increment (v : N) : bool :=
  (enf_index v <? enf_length v) || ((enf_length v =? 0) && (enf_index v =? 0)).

(* pub fn normalize(self) *)
Definition enf_normalize (v : N) : N :=
  if enf_length v =? 0 then enf_new (enf_number v) 0 1 else v.

(* Ord::cmp: number first, then index/length as a fraction (cross product) *)
Definition enf_cmp (a b : N) : comparison :=
  match enf_number a ?= enf_number b with
  | Eq => (enf_index a * enf_length b) ?= (enf_index b * enf_length a)
  | o => o
  end.

(* pub fn minimum_epoch_number_after_n_blocks(self, n) *)
Definition enf_min_epoch_after (v n : N) : option N :=
  s <- add64 (enf_index v) n ;;
  if enf_length v <=? s then add64 (enf_number v) 1 else Some (enf_number v).

(* a chain of headers' epoch fields as HeaderVerifier/EpochVerifier accept it:
   every field well formed, every field the successor of its parent's *)
Fixpoint enf_chain (p : N) (l : list N) : bool :=
  match l with
  | [] => true
  | s :: l' => enf_is_well_formed s && enf_is_successor_of s p && enf_chain s l'
  end.

Definition comparison_eqb (a b : comparison) : bool :=
  match a, b with Eq, Eq | Lt, Lt | Gt, Gt => true | _, _ => false end.

(* ---- cases written by the harness ---------------------------------------- *)
(* ((number, index, length), full_value of new_unchecked) *)
Definition check_enf_new (c : N * N * N * N) : bool :=
  let '(n, i, l, v) := c in enf_new n i l =? v.
(* (full value, (number, index, length), well_formed, normalize) *)
Definition check_enf_get (c : N * (N * N * N) * bool * N) : bool :=
  let '(v, (n, i, l), wf, nz) := c in
  (enf_number v =? n) && (enf_index v =? i) && (enf_length v =? l)
  && Bool.eqb (enf_is_well_formed v) wf && (enf_normalize v =? nz).
(* (self, predecessor, is_successor_of, cmp as 0/1/2) *)
Definition check_enf_succ (c : N * N * bool * comparison) : bool :=
  let '(s, p, r, o) := c in
  Bool.eqb (enf_is_successor_of s p) r && comparison_eqb (enf_cmp s p) o.
