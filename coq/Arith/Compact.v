(* Arith/Compact.v — util/types/src/utilities/difficulty.rs and the target
   comparison of pow/src/eaglesong*.rs, transcribed.  A compact value is a
   u32 (an [N] below 2^32), targets and difficulties are U256.
   Model only; proofs are in Arith/CompactProofs.v. *)
From CKB Require Export Arith.U.
Local Open Scope N_scope.

Definition DIFF_TWO : N := 0x20800000.
(* HSPACE = 1 << 256 as a U512 *)
Definition HSPACE : N := 2 ^ 256.
Definition U256_MAX : N := 2 ^ 256 - 1.

(* fn target_to_difficulty(target: &U256) -> U256;  U512 division, the
   quotient converted back by truncation; panics on target = 0 *)
Definition target_to_difficulty (t : N) : option N :=
  if t =? 1 then Some U256_MAX
  else if t =? 0 then None
  else Some ((HSPACE / t) mod W256).

Definition difficulty_to_target (d : N) : option N :=
  if d =? 1 then Some U256_MAX
  else if d =? 0 then None
  else Some ((HSPACE / d) mod W256).

(* pub fn target_to_compact(target: U256) -> u32 *)
Definition target_to_compact (t : N) : N :=
  let bits := N.size t in                      (* 256 - leading_zeros *)
  let exponent := (bits + 7) / 8 in            (* bits.div_ceil(8) *)
  let compact :=
    if exponent <=? 3
    then N.shiftl (low64 t) (8 * (3 - exponent)) mod W64
    else low64 (shr256 t (8 * (exponent - 3))) in
  let compact := N.lor compact (N.shiftl exponent 24 mod W64) in
  compact mod W32.                             (* compact as u32 *)

(* pub fn compact_to_target(compact: u32) -> (U256, bool) *)
Definition compact_to_target (c : N) : N * bool :=
  let exponent := N.shiftr c 24 in
  let mantissa := N.land c 0x00ffffff in
  if exponent <=? 3 then
    let mantissa := shr256 mantissa (8 * (3 - exponent)) in
    (mantissa, negb (mantissa =? 0) && (32 <? exponent))
  else
    (shl256 mantissa (8 * (exponent - 3)), negb (mantissa =? 0) && (32 <? exponent)).

(* pub fn compact_to_difficulty(compact: u32) -> U256 *)
Definition compact_to_difficulty (c : N) : option N :=
  let '(target, overflow) := compact_to_target c in
  if (target =? 0) || overflow then Some 0 else target_to_difficulty target.

(* pub fn difficulty_to_compact(difficulty: U256) -> u32 *)
Definition difficulty_to_compact (d : N) : option N :=
  t <- difficulty_to_target d ;; Some (target_to_compact t).

(* PowEngine::verify of the two eaglesong engines after the hash has been
   computed: [hash] is U256::from_big_endian(output) *)
Definition pow_verify (hash c : N) : bool :=
  let '(target, overflow) := compact_to_target c in
  if (target =? 0) || overflow then false
  else if target <? hash then false else true.

(* the compact values target_to_compact produces *)
Definition canonicalb (c : N) : bool :=
  (c =? 0) ||
  (let e := N.shiftr c 24 in
   let m := N.land c 0x00ffffff in
   (c <? W32) && (0x10000 <=? m) && (1 <=? e) && (e <=? 32) &&
   ((3 <? e) || (m mod 2 ^ (8 * (3 - e)) =? 0))).

(* ---- cases written by the harness ---------------------------------------- *)
(* (target, target_to_compact) *)
Definition check_t2c (c : N * N) : bool := target_to_compact (fst c) =? snd c.
(* (compact, target, overflow, compact_to_difficulty) *)
Definition check_c2t (c : N * N * bool * option N) : bool :=
  let '(cc, t, o, d) := c in
  let '(t', o') := compact_to_target cc in
  (t' =? t) && Bool.eqb o' o && option_N_eqb (compact_to_difficulty cc) d.
(* (difficulty, difficulty_to_compact) *)
Definition check_d2c (c : N * option N) : bool := option_N_eqb (difficulty_to_compact (fst c)) (snd c).
(* (hash, compact, verdict of EaglesongPowEngine / EaglesongBlake2bPowEngine) *)
Definition check_pow (c : N * N * bool) : bool :=
  let '(h, cc, v) := c in Bool.eqb (pow_verify h cc) v.
