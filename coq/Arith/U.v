(* Arith/U.v — machine integers of the Rust code as [N] with explicit failure.
   u64: the release profile has overflow-checks = true, so + - * panic on
   overflow and / % panic on a zero divisor.  U256 (numext-fixed-uint): the
   operators + - * / panic on overflow / zero divisor as well; shifts drop
   bits silently.  A panic (and an [Err] of a CapacityResult) is [None].
   Model only; lemmas are in Arith/UProofs.v. *)
From Coq Require Export List NArith Bool.
Export ListNotations.
Local Open Scope N_scope.

Definition W64 : N := 2 ^ 64.
Definition W256 : N := 2 ^ 256.
Definition W32 : N := 2 ^ 32.

Definition bind {A B} (x : option A) (f : A -> option B) : option B :=
  match x with Some a => f a | None => None end.
Notation "x <- e ;; k" := (bind e (fun x => k)) (at level 61, e at next level, right associativity).
Notation "' p <- e ;; k" := (bind e (fun p => k)) (at level 61, p pattern, e at next level, right associativity).

Definition chk (w x : N) : option N := if x <? w then Some x else None.

(* u64 *)
Definition add64 (a b : N) : option N := chk W64 (a + b).
Definition mul64 (a b : N) : option N := chk W64 (a * b).
Definition sub64 (a b : N) : option N := if a <? b then None else Some (a - b).
Definition div64 (a b : N) : option N := if b =? 0 then None else Some (a / b).
Definition rem64 (a b : N) : option N := if b =? 0 then None else Some (a mod b).
(* [x << k] on u64: panics only when k >= 64, bits shifted out are lost *)
Definition shl64 (a k : N) : option N := if k <? 64 then Some (N.shiftl a k mod W64) else None.
Definition shr64 (a k : N) : option N := if k <? 64 then Some (N.shiftr a k) else None.

(* U256 *)
Definition add256 (a b : N) : option N := chk W256 (a + b).
Definition mul256 (a b : N) : option N := chk W256 (a * b).
Definition sub256 (a b : N) : option N := if a <? b then None else Some (a - b).
Definition div256 (a b : N) : option N := if b =? 0 then None else Some (a / b).
(* numext _ushl / _ushr: zero when the amount is >= 256, bits shifted out are lost *)
Definition shl256 (a k : N) : N := if k <? 256 then N.shiftl a k mod W256 else 0.
Definition shr256 (a k : N) : N := if k <? 256 then N.shiftr a k else 0.
(* the low 64-bit limb: [u.0[0]] *)
Definition low64 (a : N) : N := a mod W64.

Definition option_N_eqb (a b : option N) : bool :=
  match a, b with
  | None, None => true
  | Some x, Some y => x =? y
  | _, _ => false
  end.
