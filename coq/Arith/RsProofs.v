(* Arith/RsProofs.v — the functions rs2v translated from the Rust text
   (coq/gen/RsC07.v, regenerated on every run) are the hand models the theorems
   are about.  A flipped comparison or changed operator in the Rust text of one
   of these functions makes one of these proofs fail. *)
From Coq Require Import Lia.
From CKB Require Import Arith.U Arith.UProofs Arith.BitsProofs Arith.Rational Arith.Epoch Arith.EpochProofs Arith.EpochExt.
From CKB Require Import gen.RsC07.
Local Open Scope N_scope.

Theorem rs_bounding_epoch_length_eq P len last :
  rs_bounding_epoch_length (p_max_epoch_length P) (p_min_epoch_length P) (p_tau P) len last
  = bounding_epoch_length P len last.
Proof. reflexivity. Qed.

Lemma add64_small a : a < 2 ^ 24 -> add64 a 1 = Some (a + 1).
Proof. intros H. unfold add64. apply chk_ok. unfold W64. eval_pows. lia. Qed.

Theorem rs_is_successor_of_eq s p : rs_is_successor_of s p = Some (enf_is_successor_of s p).
Proof.
  unfold rs_is_successor_of, enf_is_successor_of. cbv zeta.
  pose proof (enf_index_lt p) as Hi. pose proof (enf_number_lt p) as Hn.
  rewrite ?(add64_small (enf_index p)) by (eval_pows; lia).
  rewrite ?(add64_small (enf_number p)) by exact Hn.
  cbn [bind].
  repeat match goal with
  | |- context [if ?b then _ else _] =>
    lazymatch b with
    | true => fail | false => fail
    | _ => destruct b eqn:?
    end
  end; cbn [andb bind]; try reflexivity;
  rewrite ?(add64_small (enf_index p)) by (eval_pows; lia);
  rewrite ?(add64_small (enf_number p)) by exact Hn; cbn [bind andb];
  repeat match goal with H : ?b = _ |- context [?b] => rewrite H end; cbn [andb]; try reflexivity.
Qed.

Theorem rs_is_well_formed_eq v : rs_is_well_formed v = Some (enf_is_well_formed v).
Proof.
  unfold rs_is_well_formed, enf_is_well_formed. cbv zeta.
  destruct (0 <? enf_length v); reflexivity.
Qed.
