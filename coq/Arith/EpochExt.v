(* Arith/EpochExt.v — EpochExt of util/types/src/core/extras.rs (per-block
   reward and issuance inside an epoch) and the issuance schedule and epoch
   adjustment of spec/src/consensus.rs (primary_epoch_reward,
   bounding_hash_rate, bounding_epoch_length, the non-dummy branch of
   next_epoch_ext), transcribed.  [None] = a panic (overflow, division by
   zero, shift overflow, RationalU256 "denominator == 0") or an Err of a
   CapacityResult.  Model only; proofs are in Arith/EpochExtProofs.v and
   Arith/NextEpochProofs.v. *)
From CKB Require Export Arith.U Arith.Compact Arith.Rational Arith.Epoch.
Local Open Scope N_scope.

Record epoch_ext := mkEpochExt {
  ee_number : N;                 (* u64 *)
  ee_base_block_reward : N;      (* Capacity = u64 *)
  ee_remainder_reward : N;
  ee_previous_epoch_hash_rate : N;   (* U256 *)
  ee_start_number : N;
  ee_length : N;
  ee_compact_target : N          (* u32 *)
}.

(* pub fn primary_reward(&self) *)
Definition ee_primary_reward (e : epoch_ext) : option N :=
  p <- mul64 (ee_base_block_reward e) (ee_length e) ;; add64 p (ee_remainder_reward e).

(* pub fn block_reward(&self, number); && is short-circuit *)
Definition ee_block_reward (e : epoch_ext) (number : N) : option N :=
  if ee_start_number e <=? number then
    s <- add64 (ee_start_number e) (ee_remainder_reward e) ;;
    if number <? s then add64 (ee_base_block_reward e) 1 else Some (ee_base_block_reward e)
  else Some (ee_base_block_reward e).

(* pub fn secondary_block_issuance(&self, block_number, secondary_epoch_issuance) *)
Definition ee_secondary_block_issuance (e : epoch_ext) (number sec : N) : option N :=
  g2 <- div64 sec (ee_length e) ;;
  remainder <- rem64 sec (ee_length e) ;;
  if ee_start_number e <=? number then
    s <- add64 (ee_start_number e) remainder ;;
    if number <? s then add64 g2 1 else Some g2
  else Some g2.

(* pub fn set_primary_reward(&mut self, primary_reward) *)
Definition ee_set_primary_reward (e : epoch_ext) (r : N) : option epoch_ext :=
  b <- div64 r (ee_length e) ;; m <- rem64 r (ee_length e) ;;
  Some (mkEpochExt (ee_number e) b m (ee_previous_epoch_hash_rate e) (ee_start_number e)
                   (ee_length e) (ee_compact_target e)).

(* pub fn number_with_fraction(&self, number) (debug_assert! is off in release) *)
Definition ee_number_with_fraction (e : epoch_ext) (number : N) : option N :=
  i <- sub64 number (ee_start_number e) ;; Some (enf_new (ee_number e) i (ee_length e)).

(* ---- consensus parameters -------------------------------------------------- *)
Record params := mkParams {
  p_tau : N;                       (* ckb_constant::consensus::TAU *)
  p_min_epoch_length : N;          (* MIN_EPOCH_LENGTH *)
  p_max_epoch_length : N;          (* MAX_EPOCH_LENGTH *)
  p_epoch_duration_target : N;     (* per chain spec, default DEFAULT_EPOCH_DURATION_TARGET *)
  p_orphan_rate_target : rat;      (* new_raw(o.0, o.1), default (1, 40) *)
  p_initial_primary_epoch_reward : N;
  p_halving_interval : N;
  p_ms_in_s : N                    (* MILLISECONDS_IN_A_SECOND *)
}.

(* pub fn primary_epoch_reward(&self, epoch_number) as it was before the fix:
   commit 2ebd8bf in /repo: [initial >> halvings] on a u64 panics when
   halvings >= 64 (overflow-checks) *)
Definition primary_epoch_reward_old (P : params) (epoch_number : N) : option N :=
  halvings <- div64 epoch_number (p_halving_interval P) ;;
  shr64 (p_initial_primary_epoch_reward P) halvings.

(* u64::checked_shr(h : u32): None when h >= 64 *)
Definition checked_shr64 (a k : N) : option N := if k <? 64 then Some (N.shiftr a k) else None.

(* pub fn primary_epoch_reward(&self, epoch_number), repaired:
   u32::try_from(halvings).ok().and_then(|h| initial.checked_shr(h)).unwrap_or(0);
   the division still panics on a zero halving interval *)
Definition primary_epoch_reward (P : params) (epoch_number : N) : option N :=
  halvings <- div64 epoch_number (p_halving_interval P) ;;
  Some (match (if halvings <? W32 then checked_shr64 (p_initial_primary_epoch_reward P) halvings else None) with
        | Some r => r
        | None => 0
        end).

(* u64::is_multiple_of: rhs = 0 gives self == 0 *)
Definition is_multiple_of (a b : N) : bool := if b =? 0 then a =? 0 else a mod b =? 0.

(* fn primary_epoch_reward_of_next_epoch(&self, epoch) *)
Definition primary_epoch_reward_of_next_epoch (P : params) (e : epoch_ext) : option N :=
  n1 <- add64 (ee_number e) 1 ;;
  if negb (is_multiple_of n1 (p_halving_interval P)) then ee_primary_reward e
  else primary_epoch_reward P n1.

(* fn bounding_hash_rate(&self, last_epoch_hash_rate, last_epoch_previous_hash_rate) *)
Definition bounding_hash_rate (P : params) (hr prev : N) : option N :=
  if prev =? 0 then Some hr else
  lower <- div256 prev (p_tau P) ;;
  if hr <? lower then Some lower else
  upper <- mul256 prev (p_tau P) ;;
  if upper <? hr then Some upper else Some hr.

(* fn bounding_epoch_length(&self, length, last_epoch_length) -> (BlockNumber, bool) *)
Definition bounding_epoch_length (P : params) (length last : N) : option (N * bool) :=
  m <- mul64 last (p_tau P) ;;
  let max_length := N.min (p_max_epoch_length P) m in
  d <- div64 last (p_tau P) ;;
  let min_length := N.max (p_min_epoch_length P) d in
  if max_length <? length then Some (max_length, true)
  else if length <? min_length then Some (min_length, true)
  else Some (length, false).

(* The TailBlock / non-dummy branch of next_epoch_ext, in the order of the
   source; the three numbered steps of the source are separate functions here.
   Inputs: the epoch the tail block is in, the tail block's number and compact
   target, the uncle count of the epoch and its duration in milliseconds. *)

(* U256::from(cmp::max(epoch_duration_in_milliseconds / MILLISECONDS_IN_A_SECOND, 1)) *)
Definition last_epoch_duration (P : params) (duration_ms : N) : option N :=
  ds <- div64 duration_ms (p_ms_in_s P) ;; Some (N.max ds 1).

(* (1) Computing the Adjusted Hash Rate Estimation *)
Definition adjusted_hash_rate (P : params) (e : epoch_ext) (header_compact uncles D : N) : option N :=
  last_difficulty <- compact_to_difficulty header_compact ;;
  lu <- add64 (ee_length e) uncles ;;
  w <- mul256 last_difficulty lu ;;
  hr <- div256 w D ;;
  bhr <- bounding_hash_rate P hr (ee_previous_epoch_hash_rate e) ;;
  Some (N.max bhr 1).

(* (2) Computing the Next Epoch's Main Chain Block Number *)
Definition next_epoch_length (P : params) (lor : rat) (L uncles D : N) : option (N * bool) :=
  let ort := p_orphan_rate_target P in
  let T := p_epoch_duration_target P in
  if uncles =? 0 then
    m <- mul64 L (p_tau P) ;; Some (N.min (p_max_epoch_length P) m, true)
  else
    lor1 <- rat_add_u lor 1 ;;
    n1 <- rat_mul ort lor1 ;; n2 <- rat_mul_u n1 T ;; numerator <- rat_mul_u n2 L ;;
    ort1 <- rat_add_u ort 1 ;;
    d1 <- rat_mul lor ort1 ;; denominator <- rat_mul_u d1 D ;;
    q <- rat_div numerator denominator ;;
    raw <- rat_into_u256 q ;;
    bounding_epoch_length P (low64 raw) L.

(* (3) Determining the Next Epoch's Difficulty: the denominator ... *)
Definition diff_denominator (P : params) (lor : rat) (L D next_len : N) (bound : bool) : option rat :=
  let ort := p_orphan_rate_target P in
  let T := p_epoch_duration_target P in
  if bound then
    if rat_is_zero lor then rat_new next_len 1
    else
      lor1 <- rat_add_u lor 1 ;;
      a1 <- rat_mul_u lor1 T ;; a2 <- rat_mul_u a1 L ;;
      b1 <- rat_mul_u lor D ;; b2 <- rat_mul_u b1 next_len ;;
      q <- rat_div a2 b2 ;;
      recip <- rat_sat_sub_u q 1 ;;
      if rat_is_zero recip then
        ort1 <- rat_add_u ort 1 ;; rat_mul_u ort1 next_len
      else
        est <- rat_div rat_one recip ;;
        est1 <- rat_add_u est 1 ;; rat_mul_u est1 next_len
  else
    ort1 <- rat_add_u ort 1 ;; rat_mul_u ort1 next_len.

(* ... and the quotient *)
Definition next_epoch_diff (P : params) (adjusted : N) (den : rat) : option N :=
  at_ <- mul256 adjusted (p_epoch_duration_target P) ;;
  diff_numerator <- rat_new at_ 1 ;;
  gt <- rat_gt diff_numerator den ;;
  if gt then q <- rat_div diff_numerator den ;; rat_into_u256 q
  else Some 1.

Definition next_epoch_ext (P : params) (e : epoch_ext)
           (header_number header_compact uncles duration_ms : N) : option epoch_ext :=
  let L := ee_length e in
  D <- last_epoch_duration P duration_ms ;;
  adjusted <- adjusted_hash_rate P e header_compact uncles D ;;
  lor <- rat_new uncles L ;;
  lb <- next_epoch_length P lor L uncles D ;;
  let next_len := fst lb in
  let bound := snd lb in
  den <- diff_denominator P lor L D next_len bound ;;
  next_diff <- next_epoch_diff P adjusted den ;;
  reward <- primary_epoch_reward_of_next_epoch P e ;;
  block_reward <- div64 reward next_len ;;
  remainder_reward <- rem64 reward next_len ;;
  number <- add64 (ee_number e) 1 ;;
  start <- add64 header_number 1 ;;
  compact <- difficulty_to_compact next_diff ;;
  Some (mkEpochExt number block_reward remainder_reward adjusted start next_len compact).

(* the blocks start, start+1, ... of an epoch: the sum of f over len of them *)
Fixpoint sum_range (f : N -> option N) (start : N) (len : nat) : option N :=
  match len with
  | O => Some 0
  | S k => x <- f start ;; r <- sum_range f (N.succ start) k ;; Some (x + r)
  end.

(* ---- cases written by the harness ---------------------------------------- *)
Definition ee_eqb (a b : epoch_ext) : bool :=
  (ee_number a =? ee_number b) && (ee_base_block_reward a =? ee_base_block_reward b)
  && (ee_remainder_reward a =? ee_remainder_reward b)
  && (ee_previous_epoch_hash_rate a =? ee_previous_epoch_hash_rate b)
  && (ee_start_number a =? ee_start_number b) && (ee_length a =? ee_length b)
  && (ee_compact_target a =? ee_compact_target b).
Definition option_ee_eqb (a b : option epoch_ext) : bool :=
  match a, b with
  | None, None => true
  | Some x, Some y => ee_eqb x y
  | _, _ => false
  end.

(* next_epoch_ext: parameters that vary per case (duration target, orphan rate
   target, initial reward, halving interval), the epoch, the tail header, the
   statistics, and what the implementation returned *)
Record next_case := mkNext {
  nc_T : N; nc_ort : N * N; nc_init : N; nc_halving : N;
  nc_epoch : epoch_ext; nc_header_number : N; nc_header_compact : N;
  nc_uncles : N; nc_duration_ms : N;
  nc_out : option epoch_ext }.
Definition check_next (base : params) (c : next_case) : bool :=
  let P := mkParams (p_tau base) (p_min_epoch_length base) (p_max_epoch_length base)
                    (nc_T c) (mkRat (fst (nc_ort c)) (snd (nc_ort c))) (nc_init c) (nc_halving c)
                    (p_ms_in_s base) in
  option_ee_eqb (next_epoch_ext P (nc_epoch c) (nc_header_number c) (nc_header_compact c)
                                (nc_uncles c) (nc_duration_ms c))
                (nc_out c).

(* (epoch, block number, secondary epoch issuance, block_reward, secondary_block_issuance,
    number_with_fraction full value, primary_reward) *)
Definition check_reward (c : epoch_ext * N * N * option N * option N * option N * option N) : bool :=
  let '(e, n, sec, br, si, nf, pr) := c in
  option_N_eqb (ee_block_reward e n) br && option_N_eqb (ee_secondary_block_issuance e n sec) si
  && option_N_eqb (ee_number_with_fraction e n) nf && option_N_eqb (ee_primary_reward e) pr.

(* (initial reward, halving interval, epoch number, primary_epoch_reward) *)
Definition check_halving (base : params) (c : N * N * N * option N) : bool :=
  let '(init, h, n, r) := c in
  let P := mkParams (p_tau base) (p_min_epoch_length base) (p_max_epoch_length base)
                    (p_epoch_duration_target base) (p_orphan_rate_target base) init h (p_ms_in_s base) in
  option_N_eqb (primary_epoch_reward P n) r.
