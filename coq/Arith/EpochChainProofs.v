(* Arith/EpochChainProofs.v — the epoch fields EpochExt::number_with_fraction
   gives consecutive blocks are well formed and each is the successor of the
   previous one, inside an epoch and across the epoch boundary. *)
From Coq Require Import Lia.
From CKB Require Import Arith.U Arith.UProofs Arith.BitsProofs Arith.Epoch Arith.EpochProofs Arith.EpochExt.
Local Open Scope N_scope.

Lemma nwf_value e b : ee_start_number e <= b ->
  ee_number_with_fraction e b = Some (enf_new (ee_number e) (b - ee_start_number e) (ee_length e)).
Proof.
  intros H. unfold ee_number_with_fraction, sub64.
  destruct (N.ltb_spec b (ee_start_number e)); [lia|]. reflexivity.
Qed.

Theorem number_with_fraction_successor_same_epoch e b :
  ee_number e < 2 ^ 24 -> ee_length e < 2 ^ 16 ->
  ee_start_number e <= b -> b + 1 < ee_start_number e + ee_length e ->
  exists v1 v2, ee_number_with_fraction e b = Some v1 /\ ee_number_with_fraction e (b + 1) = Some v2 /\
                enf_is_well_formed v1 = true /\ enf_is_well_formed v2 = true /\
                enf_is_successor_of v2 v1 = true.
Proof.
  intros Hn Hl Hs Hb.
  exists (enf_new (ee_number e) (b - ee_start_number e) (ee_length e)),
         (enf_new (ee_number e) (b + 1 - ee_start_number e) (ee_length e)).
  split; [apply nwf_value; assumption|]. split; [apply nwf_value; lia|].
  destruct (enf_fields_roundtrip (ee_number e) (b - ee_start_number e) (ee_length e) Hn ltac:(lia) Hl) as (A1 & A2 & A3).
  destruct (enf_fields_roundtrip (ee_number e) (b + 1 - ee_start_number e) (ee_length e) Hn ltac:(lia) Hl) as (B1 & B2 & B3).
  split; [apply wf_spec; rewrite A2, A3; lia|]. split; [apply wf_spec; rewrite B2, B3; lia|].
  apply epoch_next_position_is_successor. left. rewrite A1, A2, A3, B1, B2, B3. lia.
Qed.

Theorem number_with_fraction_successor_next_epoch e e' b :
  ee_number e + 1 < 2 ^ 24 -> ee_length e < 2 ^ 16 -> 0 < ee_length e' < 2 ^ 16 ->
  ee_start_number e <= b -> b + 1 = ee_start_number e + ee_length e ->
  ee_number e' = ee_number e + 1 -> ee_start_number e' = b + 1 ->
  exists v1 v2, ee_number_with_fraction e b = Some v1 /\ ee_number_with_fraction e' (b + 1) = Some v2 /\
                enf_is_well_formed v1 = true /\ enf_is_well_formed v2 = true /\
                enf_is_successor_of v2 v1 = true.
Proof.
  intros Hn Hl Hl' Hs Hb Hn' Hs'.
  exists (enf_new (ee_number e) (b - ee_start_number e) (ee_length e)),
         (enf_new (ee_number e') (b + 1 - ee_start_number e') (ee_length e')).
  split; [apply nwf_value; assumption|]. split; [apply nwf_value; lia|].
  destruct (enf_fields_roundtrip (ee_number e) (b - ee_start_number e) (ee_length e) ltac:(lia) ltac:(lia) Hl) as (A1 & A2 & A3).
  destruct (enf_fields_roundtrip (ee_number e') (b + 1 - ee_start_number e') (ee_length e') ltac:(lia) ltac:(lia) ltac:(lia)) as (B1 & B2 & B3).
  split; [apply wf_spec; rewrite A2, A3; lia|]. split; [apply wf_spec; rewrite B2, B3; lia|].
  apply epoch_next_position_is_successor. right. rewrite A1, A2, A3, B1, B2. lia.
Qed.
