(* Arith/CompactProofs.v — the compact target codec: arithmetic form, round
   trips, monotonicity, difficulty <-> target, PoW acceptance. *)
From Coq Require Import Lia.
From CKB Require Import Arith.U Arith.UProofs Arith.BitsProofs Arith.Compact.
Local Open Scope N_scope.

(* exponent and mantissa of a target *)
Definition ex (t : N) : N := (N.size t + 7) / 8.
Definition mant (t : N) : N :=
  if ex t <=? 3 then t * 2 ^ (8 * (3 - ex t)) else t / 2 ^ (8 * (ex t - 3)).

Lemma ex_0 : ex 0 = 0.
Proof. reflexivity. Qed.

Lemma ex_bounds t : t <> 0 -> 1 <= ex t /\ 2 ^ (8 * (ex t - 1)) <= t < 2 ^ (8 * ex t).
Proof.
  intros Ht. unfold ex. pose proof (size_bounds t Ht) as [Hlo Hhi].
  assert (Hs : 1 <= N.size t) by (rewrite (N.size_log2 t Ht); lia).
  pose proof (N.div_mod (N.size t + 7) 8 ltac:(lia)) as Hd.
  pose proof (N.mod_lt (N.size t + 7) 8 ltac:(lia)) as Hm.
  set (e := (N.size t + 7) / 8) in *. clearbody e.
  set (r := (N.size t + 7) mod 8) in *. clearbody r.
  set (s := N.size t) in *. clearbody s.
  split; [lia|]. split.
  - eapply N.le_trans; [|exact Hlo]. apply pow2_le_mono. lia.
  - eapply N.lt_le_trans; [exact Hhi|]. apply pow2_le_mono. lia.
Qed.

Lemma ex_unique t e : 1 <= e -> 2 ^ (8 * (e - 1)) <= t < 2 ^ (8 * e) -> ex t = e.
Proof.
  intros He [Hlo Hhi].
  assert (Ht : t <> 0) by (pose proof (pow2_pos (8 * (e - 1))); lia).
  unfold ex. rewrite (N.size_log2 t Ht).
  assert (H1 : 8 * (e - 1) <= N.log2 t) by (apply N.log2_le_pow2; [lia|exact Hlo]).
  assert (H2 : N.log2 t < 8 * e) by (apply N.log2_lt_pow2; [lia|exact Hhi]).
  symmetry. apply (N.div_unique _ 8 e (N.log2 t + 8 - 8 * e)); lia.
Qed.

Lemma ex_le_32 t : t < W256 -> ex t <= 32.
Proof.
  intros Ht. destruct (N.eq_dec t 0) as [->|Hn]; [rewrite ex_0; lia|].
  unfold ex. rewrite (N.size_log2 t Hn).
  assert (N.log2 t < 256) by (apply N.log2_lt_pow2; [lia|exact Ht]).
  change 32 with ((255 + 1 + 7) / 8). apply N.div_le_mono; lia.
Qed.

Lemma ex_le_mono a b : a <= b -> ex a <= ex b.
Proof. intros H. unfold ex. apply N.div_le_mono; [lia|]. pose proof (size_le_mono a b H). lia. Qed.

Lemma pow8_split e : 3 <= e -> 2 ^ (8 * e) = 2 ^ 24 * 2 ^ (8 * (e - 3)).
Proof. intros H. rewrite <- N.pow_add_r. f_equal. lia. Qed.
Lemma pow8_split1 e : 3 <= e -> 2 ^ (8 * (e - 1)) = 2 ^ 16 * 2 ^ (8 * (e - 3)).
Proof. intros H. rewrite <- N.pow_add_r. f_equal. lia. Qed.
Lemma pow8_low e : e <= 3 -> 2 ^ 24 = 2 ^ (8 * e) * 2 ^ (8 * (3 - e)).
Proof. intros H. rewrite <- N.pow_add_r. f_equal. lia. Qed.
Lemma pow8_low1 e : 1 <= e <= 3 -> 2 ^ 16 = 2 ^ (8 * (e - 1)) * 2 ^ (8 * (3 - e)).
Proof. intros H. rewrite <- N.pow_add_r. f_equal. lia. Qed.

Lemma mant_bounds t : t < W256 -> mant t < 2 ^ 24 /\ (t <> 0 -> 2 ^ 16 <= mant t).
Proof.
  intros Ht. unfold mant.
  destruct (N.eq_dec t 0) as [->|Hn].
  - rewrite ex_0. cbn. split; [lia|]. intros H; contradiction.
  - pose proof (ex_bounds t Hn) as (He & Hlo & Hhi).
    destruct (N.leb_spec (ex t) 3) as [H3|H3].
    + rewrite (pow8_low (ex t) H3). rewrite (pow8_low1 (ex t)) by lia.
      pose proof (pow2_pos (8 * (3 - ex t))). split; [nia|]. intros _. nia.
    + pose proof (pow2_pos (8 * (ex t - 3))) as Hp. split.
      * apply N.div_lt_upper_bound; [lia|]. rewrite N.mul_comm, <- pow8_split by lia. exact Hhi.
      * intros _. apply N.div_le_lower_bound; [lia|]. rewrite N.mul_comm, <- pow8_split1 by lia. exact Hlo.
Qed.

(* target_to_compact is mantissa + exponent * 2^24 *)
Lemma ttc_arith t : t < W256 -> target_to_compact t = mant t + ex t * 2 ^ 24.
Proof.
  intros Ht. pose proof (mant_bounds t Ht) as [Hm _]. pose proof (ex_le_32 t Ht) as He.
  unfold target_to_compact. fold (ex t). unfold mant in *.
  assert (Hmant :
    (if ex t <=? 3 then N.shiftl (low64 t) (8 * (3 - ex t)) mod W64
     else low64 (shr256 t (8 * (ex t - 3)))) =
    (if ex t <=? 3 then t * 2 ^ (8 * (3 - ex t)) else t / 2 ^ (8 * (ex t - 3)))).
  { destruct (N.leb_spec (ex t) 3) as [H3|H3].
    - assert (Hsmall : t < 2 ^ 24).
      { destruct (N.eq_dec t 0) as [->|Hn]; [lia|]. pose proof (ex_bounds t Hn) as (_ & _ & Hhi).
        eapply N.lt_le_trans; [exact Hhi|]. apply pow2_le_mono. lia. }
      unfold low64. rewrite (N.mod_small t W64) by (unfold W64; eval_pows; lia).
      rewrite N.shiftl_mul_pow2. apply N.mod_small. unfold W64. eval_pows. lia.
    - unfold shr256. assert (Hk : 8 * (ex t - 3) < 256) by lia. apply N.ltb_lt in Hk. rewrite Hk.
      rewrite N.shiftr_div_pow2. unfold low64. apply N.mod_small. unfold W64. eval_pows. lia. }
  rewrite Hmant.
  rewrite (N.shiftl_mul_pow2 (ex t) 24).
  rewrite (N.mod_small (ex t * 2 ^ 24) W64) by (unfold W64; eval_pows; lia).
  rewrite (lor_small_mul _ _ 24 Hm).
  apply N.mod_small. unfold W32. eval_pows. lia.
Qed.

Lemma ttc_lt_W32 t : t < W256 -> target_to_compact t < W32.
Proof.
  intros Ht. rewrite (ttc_arith t Ht). pose proof (mant_bounds t Ht) as [Hm _]. pose proof (ex_le_32 t Ht).
  unfold W32. eval_pows. lia.
Qed.

(* compact_to_target in arithmetic form *)
Lemma ctt_arith c :
  compact_to_target c =
  let e := c / 2 ^ 24 in let m := c mod 2 ^ 24 in
  if e <=? 3 then (m / 2 ^ (8 * (3 - e)), negb (m / 2 ^ (8 * (3 - e)) =? 0) && (32 <? e))
  else ((if 8 * (e - 3) <? 256 then (m * 2 ^ (8 * (e - 3))) mod W256 else 0), negb (m =? 0) && (32 <? e)).
Proof.
  unfold compact_to_target. rewrite N.shiftr_div_pow2. change 0x00ffffff with (N.ones 24).
  rewrite N.land_ones. cbv zeta.
  destruct (N.leb_spec (c / 2 ^ 24) 3) as [H3|H3].
  - unfold shr256. assert (Hk : 8 * (3 - c / 2 ^ 24) < 256) by (generalize (c / 2 ^ 24); intros; lia). apply N.ltb_lt in Hk. rewrite Hk.
    rewrite N.shiftr_div_pow2. reflexivity.
  - unfold shl256. rewrite N.shiftl_mul_pow2. reflexivity.
Qed.

Lemma compact_split m e : m < 2 ^ 24 -> (m + e * 2 ^ 24) / 2 ^ 24 = e /\ (m + e * 2 ^ 24) mod 2 ^ 24 = m.
Proof.
  intros Hm. split.
  - symmetry. apply (N.div_unique _ _ e m); lia.
  - symmetry. apply (N.mod_unique _ _ e m); lia.
Qed.

(* decode (encode t): no overflow, never above t, exact for small targets and
   otherwise t with everything below its top 24 significant bits cleared *)
Theorem compact_decode_encode t : t < W256 ->
  snd (compact_to_target (target_to_compact t)) = false /\
  fst (compact_to_target (target_to_compact t)) <= t /\
  (ex t <= 3 -> fst (compact_to_target (target_to_compact t)) = t) /\
  (3 < ex t -> fst (compact_to_target (target_to_compact t)) = t / 2 ^ (8 * (ex t - 3)) * 2 ^ (8 * (ex t - 3))
               /\ t < fst (compact_to_target (target_to_compact t)) + 2 ^ (8 * (ex t - 3))) /\
  (t <> 0 -> fst (compact_to_target (target_to_compact t)) <> 0).
Proof.
  intros Ht. rewrite (ttc_arith t Ht), ctt_arith.
  pose proof (mant_bounds t Ht) as [Hm Hm16]. pose proof (ex_le_32 t Ht) as He.
  destruct (compact_split (mant t) (ex t) Hm) as [-> ->]. cbv zeta.
  unfold mant in *.
  destruct (N.leb_spec (ex t) 3) as [H3|H3].
  - pose proof (pow2_pos (8 * (3 - ex t))) as Hp.
    rewrite N.div_mul by lia. cbn [fst snd].
    assert (H32 : 32 <? ex t = false) by (apply N.ltb_ge; lia). rewrite H32, Bool.andb_false_r.
    repeat split; try lia; try (intros _; reflexivity).
  - assert (Hk : 8 * (ex t - 3) < 256) by lia. apply N.ltb_lt in Hk. rewrite Hk. cbn [fst snd].
    assert (H32 : 32 <? ex t = false) by (apply N.ltb_ge; lia). rewrite H32, Bool.andb_false_r.
    set (k := 8 * (ex t - 3)) in *. pose proof (pow2_pos k) as Hp.
    pose proof (N.div_mod t (2 ^ k) ltac:(lia)) as Hdm. pose proof (N.mod_lt t (2 ^ k) ltac:(lia)) as Hlt.
    set (P := 2 ^ k) in *. set (q := t / P) in *. set (r := t mod P) in *.
    clearbody q r P.
    assert (Hle : q * P <= t) by nia.
    rewrite (N.mod_small (q * P) W256) by lia.
    repeat split; try lia; try nia.
Qed.

(* encode (decode c) = c exactly for the canonical compacts *)
Lemma canonical_spec c : canonicalb c = true ->
  c = 0 \/ (c < W32 /\ 2 ^ 16 <= c mod 2 ^ 24 /\ 1 <= c / 2 ^ 24 <= 32 /\
            (c / 2 ^ 24 <= 3 -> (c mod 2 ^ 24) mod 2 ^ (8 * (3 - c / 2 ^ 24)) = 0)).
Proof.
  unfold canonicalb. rewrite N.shiftr_div_pow2. change 0x00ffffff with (N.ones 24). rewrite N.land_ones.
  cbv zeta. intros H. apply Bool.orb_true_iff in H as [H|H]; [left; apply N.eqb_eq; exact H|right].
  repeat (apply Bool.andb_true_iff in H as [H ?]).
  apply N.ltb_lt in H. apply N.leb_le in H3, H2, H1. change 0x10000 with (2 ^ 16) in H3.
  repeat split; try assumption.
  intros Hle. apply Bool.orb_true_iff in H0 as [H0|H0]; [apply N.ltb_lt in H0; lia|apply N.eqb_eq; exact H0].
Qed.

Theorem compact_encode_decode c : canonicalb c = true ->
  snd (compact_to_target c) = false /\ fst (compact_to_target c) < W256 /\
  target_to_compact (fst (compact_to_target c)) = c.
Proof.
  intros Hc. apply canonical_spec in Hc as [->|(Hc & Hm16 & He & Hlow)]; [vm_compute; repeat split; reflexivity|].
  rewrite ctt_arith. cbv zeta.
  set (e := c / 2 ^ 24) in *. set (m := c mod 2 ^ 24) in *.
  assert (Hm : m < 2 ^ 24) by (apply N.mod_lt; lia).
  assert (Hcm : c = m + e * 2 ^ 24) by (pose proof (N.div_mod c (2 ^ 24) ltac:(lia)); subst e m; lia).
  assert (H32 : 32 <? e = false) by (apply N.ltb_ge; lia). rewrite H32, !Bool.andb_false_r.
  destruct (N.leb_spec e 3) as [H3|H3]; cbn [fst snd].
  - set (j := 8 * (3 - e)) in *. pose proof (pow2_pos j) as Hp.
    specialize (Hlow H3).
    assert (Hmq : m = m / 2 ^ j * 2 ^ j) by (pose proof (N.div_mod m (2 ^ j) ltac:(lia)); lia).
    set (t := m / 2 ^ j) in *.
    assert (Hex : ex t = e).
    { apply ex_unique; [lia|]. subst j. rewrite (pow8_low e H3) in Hm. rewrite (pow8_low1 e) in Hm16 by lia. nia. }
    assert (Ht : t < W256) by (unfold W256; eval_pows; nia).
    split; [reflexivity|]. split; [exact Ht|].
    rewrite (ttc_arith t Ht). unfold mant. rewrite Hex.
    apply N.leb_le in H3. rewrite H3. fold j. lia.
  - assert (Hk : 8 * (e - 3) < 256) by lia. apply N.ltb_lt in Hk. rewrite Hk.
    set (k := 8 * (e - 3)) in *. pose proof (pow2_pos k) as Hp.
    assert (Hlt : m * 2 ^ k < 2 ^ (8 * e)) by (rewrite (pow8_split e) by lia; fold k; nia).
    assert (HW : 2 ^ (8 * e) <= W256) by (apply pow2_le_mono; lia).
    rewrite (N.mod_small (m * 2 ^ k) W256) by lia.
    assert (Hex : ex (m * 2 ^ k) = e).
    { apply ex_unique; [lia|]. split; [|exact Hlt]. rewrite (pow8_split1 e) by lia. fold k. nia. }
    split; [reflexivity|]. split; [lia|].
    rewrite (ttc_arith (m * 2 ^ k)) by lia. unfold mant. rewrite Hex.
    apply N.leb_gt in H3. rewrite H3. fold k. rewrite N.div_mul by lia. lia.
Qed.

Theorem target_to_compact_canonical t : t < W256 -> canonicalb (target_to_compact t) = true.
Proof.
  intros Ht. destruct (N.eq_dec t 0) as [->|Hn]; [reflexivity|].
  pose proof (mant_bounds t Ht) as [Hm Hm16]. specialize (Hm16 Hn).
  pose proof (ex_le_32 t Ht) as He. pose proof (ex_bounds t Hn) as (He1 & _ & _).
  unfold canonicalb. rewrite N.shiftr_div_pow2. change 0x00ffffff with (N.ones 24). rewrite N.land_ones.
  cbv zeta. pose proof (ttc_lt_W32 t Ht) as HW. rewrite (ttc_arith t Ht) in *.
  destruct (compact_split (mant t) (ex t) Hm) as [-> ->].
  apply Bool.orb_true_iff. right.
  apply N.ltb_lt in HW. rewrite HW. change 0x10000 with (2 ^ 16).
  apply N.leb_le in Hm16, He1, He. rewrite Hm16, He1, He. cbn [andb].
  apply Bool.orb_true_iff. destruct (N.ltb_spec 3 (ex t)) as [H3|H3]; [left; reflexivity|right].
  apply N.eqb_eq. unfold mant. apply N.leb_le in H3. rewrite H3.
  apply N.mod_mul. pose proof (pow2_pos (8 * (3 - ex t))). lia.
Qed.

(* monotone *)
Theorem target_to_compact_monotone t1 t2 : t1 <= t2 -> t2 < W256 ->
  target_to_compact t1 <= target_to_compact t2.
Proof.
  intros Hle Ht2. assert (Ht1 : t1 < W256) by lia.
  rewrite (ttc_arith t1 Ht1), (ttc_arith t2 Ht2).
  pose proof (mant_bounds t1 Ht1) as [Hm1 _]. pose proof (mant_bounds t2 Ht2) as [Hm2 _].
  pose proof (ex_le_mono t1 t2 Hle) as He.
  destruct (N.eq_dec (ex t1) (ex t2)) as [Heq|Hne].
  - unfold mant. rewrite Heq. destruct (N.leb_spec (ex t2) 3).
    + pose proof (pow2_pos (8 * (3 - ex t2))). nia.
    + pose proof (N.div_le_mono t1 t2 (2 ^ (8 * (ex t2 - 3))) ltac:(pose proof (pow2_pos (8 * (ex t2 - 3))); lia) Hle). lia.
  - eval_pows. nia.
Qed.

Theorem compact_to_target_strictly_monotone c1 c2 :
  canonicalb c1 = true -> canonicalb c2 = true -> c1 < c2 ->
  fst (compact_to_target c1) < fst (compact_to_target c2).
Proof.
  intros H1 H2 Hlt.
  destruct (compact_encode_decode c1 H1) as (_ & Hw1 & He1).
  destruct (compact_encode_decode c2 H2) as (_ & Hw2 & He2).
  destruct (N.lt_ge_cases (fst (compact_to_target c1)) (fst (compact_to_target c2))) as [H|H]; [exact H|].
  pose proof (target_to_compact_monotone _ _ H Hw1). lia.
Qed.

(* difficulty <-> target *)
Theorem difficulty_to_target_antitone d1 d2 t1 t2 :
  d1 <= d2 -> d2 < W256 ->
  difficulty_to_target d1 = Some t1 -> difficulty_to_target d2 = Some t2 -> t2 <= t1.
Proof.
  unfold difficulty_to_target. intros Hle Hw H1 H2.
  destruct (N.eqb_spec d1 1) as [->|Hd1].
  - inversion H1; subst. destruct (N.eqb_spec d2 1); [inversion H2; lia|].
    destruct (N.eqb_spec d2 0); [discriminate|]. inversion H2; subst.
    pose proof (N.mod_lt (HSPACE / d2) W256 ltac:(unfold W256; eval_pows; lia)). unfold U256_MAX, W256 in *. lia.
  - destruct (N.eqb_spec d1 0); [discriminate|]. inversion H1; subst.
    destruct (N.eqb_spec d2 1); [lia|]. destruct (N.eqb_spec d2 0); [discriminate|]. inversion H2; subst.
    assert (Hq : forall d, 2 <= d -> (HSPACE / d) mod W256 = HSPACE / d).
    { intros d Hd. apply N.mod_small. apply N.div_lt_upper_bound; [lia|]. unfold HSPACE, W256. nia. }
    rewrite !Hq by lia. apply N.div_le_compat_l. lia.
Qed.

Lemma dtt_pos d t : 1 <= d -> d < W256 -> difficulty_to_target d = Some t -> 1 <= t /\ t < W256.
Proof.
  unfold difficulty_to_target. intros Hd Hw H.
  destruct (N.eqb_spec d 1); [inversion H; subst; unfold U256_MAX, W256; eval_pows; lia|].
  destruct (N.eqb_spec d 0); [lia|]. inversion H; subst.
  assert (HSPACE / d < W256) by (apply N.div_lt_upper_bound; [lia|]; unfold HSPACE, W256; nia).
  rewrite N.mod_small by assumption. split; [|assumption].
  apply N.div_le_lower_bound; [lia|]. unfold HSPACE, W256 in *. lia.
Qed.

(* a non-zero difficulty survives the compact encoding: the difficulty read
   back from the compact target is at least the one encoded (never zero) *)
Theorem difficulty_compact_nonzero d : 1 <= d -> d < W256 ->
  exists c d', difficulty_to_compact d = Some c /\ canonicalb c = true /\
               compact_to_difficulty c = Some d' /\ d <= d'.
Proof.
  intros Hd Hw. unfold difficulty_to_compact.
  destruct (difficulty_to_target d) as [t|] eqn:Et.
  2:{ unfold difficulty_to_target in Et. destruct (N.eqb_spec d 1); [discriminate|].
      destruct (N.eqb_spec d 0); [lia|discriminate]. }
  cbn [bind]. destruct (dtt_pos d t Hd Hw Et) as [Ht1 Htw].
  exists (target_to_compact t).
  pose proof (compact_decode_encode t Htw) as (Ho & Hle & _ & _ & Hnz).
  unfold compact_to_difficulty. destruct (compact_to_target (target_to_compact t)) as [t' o] eqn:Ect.
  cbn [fst snd] in *. subst o. specialize (Hnz ltac:(lia)).
  apply N.eqb_neq in Hnz. rewrite Hnz. cbn [orb].
  apply N.eqb_neq in Hnz.
  unfold target_to_difficulty.
  destruct (N.eqb_spec t' 1) as [->|Ht'1].
  - exists U256_MAX. repeat split; [apply target_to_compact_canonical; exact Htw|]. unfold U256_MAX, W256 in *. lia.
  - destruct (N.eqb_spec t' 0); [contradiction|].
    exists ((HSPACE / t') mod W256). repeat split; [apply target_to_compact_canonical; exact Htw|].
    assert (HSPACE / t' < W256) by (apply N.div_lt_upper_bound; [lia|]; unfold HSPACE, W256; nia).
    rewrite N.mod_small by assumption.
    (* d <= HSPACE / t <= HSPACE / t' *)
    assert (Hdt : d * t <= HSPACE).
    { unfold difficulty_to_target in Et. destruct (N.eqb_spec d 1) as [->|Hd1].
      - inversion Et; subst. unfold U256_MAX, HSPACE. lia.
      - destruct (N.eqb_spec d 0); [lia|]. inversion Et; subst.
        assert (HSPACE / d < W256) by (apply N.div_lt_upper_bound; [lia|]; unfold HSPACE, W256; nia).
        rewrite N.mod_small by assumption. apply N.mul_div_le. lia. }
    apply N.div_le_lower_bound; [lia|]. nia.
Qed.

(* PoW: accepted exactly when the target is valid and the hash does not exceed it *)
Theorem pow_accept_iff hash c :
  pow_verify hash c = true <->
  fst (compact_to_target c) <> 0 /\ snd (compact_to_target c) = false /\ hash <= fst (compact_to_target c).
Proof.
  unfold pow_verify. destruct (compact_to_target c) as [t o]. cbn [fst snd].
  destruct (N.eqb_spec t 0) as [->|Hn]; cbn [orb].
  - split; [discriminate|]. intros [H _]. contradiction.
  - destruct o.
    + split; [discriminate|]. intros (_ & H & _). discriminate.
    + destruct (N.ltb_spec t hash); split; try discriminate; try lia;
        try (intros _; repeat split; [assumption|lia]); try (intros _; reflexivity).
Qed.

(* a hash that passes keeps passing when it gets smaller: the accepted set of
   a compact target is downward closed *)
Theorem pow_accept_downward_closed hash hash' c :
  pow_verify hash c = true -> hash' <= hash -> pow_verify hash' c = true.
Proof.
  intros H Hle. apply pow_accept_iff in H as (Hn & Ho & Hh).
  apply pow_accept_iff. repeat split; try assumption. lia.
Qed.

(* an easier (larger) canonical compact target accepts every hash a harder
   one accepts: lowering the difficulty never rejects an accepted header hash *)
Theorem pow_accept_monotone_in_compact hash c1 c2 :
  canonicalb c1 = true -> canonicalb c2 = true -> c1 <= c2 ->
  pow_verify hash c1 = true -> pow_verify hash c2 = true.
Proof.
  intros H1 H2 Hle H.
  destruct (N.eq_dec c1 c2) as [->|Hne]; [exact H|].
  pose proof (compact_to_target_strictly_monotone c1 c2 H1 H2 ltac:(lia)) as Hlt.
  destruct (compact_encode_decode c2 H2) as (Ho2 & _ & _).
  apply pow_accept_iff in H as (Hn & Ho & Hh).
  apply pow_accept_iff. repeat split; try assumption; lia.
Qed.

(* the strictness of the order: between two distinct canonical compacts there
   is a hash the easier one accepts and the harder one rejects *)
Theorem pow_accept_separates hash c1 c2 :
  canonicalb c1 = true -> canonicalb c2 = true -> c1 < c2 ->
  hash = fst (compact_to_target c2) ->
  pow_verify hash c2 = true /\ pow_verify hash c1 = false.
Proof.
  intros H1 H2 Hlt ->.
  pose proof (compact_to_target_strictly_monotone c1 c2 H1 H2 Hlt) as Ht.
  destruct (compact_encode_decode c2 H2) as (Ho2 & _ & _).
  split.
  - apply pow_accept_iff. repeat split; try assumption; lia.
  - destruct (pow_verify (fst (compact_to_target c2)) c1) eqn:E; [|reflexivity].
    apply pow_accept_iff in E as (_ & _ & Hh). lia.
Qed.

(* ---- the work of a block: compact_to_difficulty --------------------------- *)
(* never panics, whatever 32 bits a peer puts in the header *)
Theorem compact_to_difficulty_total c : exists d, compact_to_difficulty c = Some d.
Proof.
  unfold compact_to_difficulty. destruct (compact_to_target c) as [t o].
  destruct (N.eqb_spec t 0) as [->|Hn]; cbn [orb]; [eexists; reflexivity|].
  destruct o; [eexists; reflexivity|].
  unfold target_to_difficulty. destruct (N.eqb_spec t 1); [eexists; reflexivity|].
  destruct (N.eqb_spec t 0); [contradiction|eexists; reflexivity].
Qed.

Lemma target_to_difficulty_spec t : 2 <= t -> target_to_difficulty t = Some (HSPACE / t).
Proof.
  intros Ht. unfold target_to_difficulty.
  destruct (N.eqb_spec t 1); [lia|]. destruct (N.eqb_spec t 0); [lia|].
  f_equal. apply N.mod_small. apply N.div_lt_upper_bound; [lia|]. unfold HSPACE, W256. nia.
Qed.

(* a smaller target is more work; a target inside U256 is at least one unit of work *)
Theorem target_to_difficulty_antitone t1 t2 d1 d2 :
  1 <= t1 -> t1 <= t2 -> t2 < W256 ->
  target_to_difficulty t1 = Some d1 -> target_to_difficulty t2 = Some d2 ->
  1 <= d2 /\ d2 <= d1 /\ d1 < W256.
Proof.
  intros H1 Hle Hw E1 E2.
  destruct (N.eq_dec t2 1) as [->|Hn2].
  - assert (t1 = 1) by lia. subst t1. rewrite E1 in E2. inversion E2; subst.
    unfold target_to_difficulty in E1. cbn in E1. inversion E1; subst. unfold U256_MAX, W256. lia.
  - rewrite target_to_difficulty_spec in E2 by lia. inversion E2; subst d2.
    assert (Hd2 : 1 <= HSPACE / t2).
    { apply N.div_le_lower_bound; [lia|]. unfold HSPACE, W256 in *. lia. }
    destruct (N.eq_dec t1 1) as [->|Hn1].
    + unfold target_to_difficulty in E1. cbn in E1. inversion E1; subst d1.
      assert (HSPACE / t2 < W256) by (apply N.div_lt_upper_bound; [lia|]; unfold HSPACE, W256; nia).
      unfold U256_MAX, W256 in *. lia.
    + rewrite target_to_difficulty_spec in E1 by lia. inversion E1; subst d1.
      repeat split; [exact Hd2| |].
      * apply N.div_le_compat_l. lia.
      * apply N.div_lt_upper_bound; [lia|]. unfold HSPACE, W256. nia.
Qed.

(* every canonical non-zero compact target is positive work, and the work is
   antitone in the compact value: the chain's total difficulty strictly grows
   with every block whose target is canonical *)
Theorem compact_to_difficulty_antitone c1 c2 :
  canonicalb c1 = true -> canonicalb c2 = true -> c1 <> 0 -> c1 <= c2 ->
  exists d1 d2, compact_to_difficulty c1 = Some d1 /\ compact_to_difficulty c2 = Some d2 /\
                1 <= d2 /\ d2 <= d1 /\ d1 < W256.
Proof.
  intros H1 H2 Hn Hle.
  destruct (compact_encode_decode c1 H1) as (Ho1 & Hw1 & He1).
  destruct (compact_encode_decode c2 H2) as (Ho2 & Hw2 & He2).
  assert (Ht1 : fst (compact_to_target c1) <> 0).
  { intros E. rewrite E in He1. vm_compute in He1. lia. }
  assert (Ht12 : fst (compact_to_target c1) <= fst (compact_to_target c2)).
  { destruct (N.eq_dec c1 c2) as [->|Hne]; [lia|].
    pose proof (compact_to_target_strictly_monotone c1 c2 H1 H2 ltac:(lia)). lia. }
  unfold compact_to_difficulty.
  destruct (compact_to_target c1) as [t1 o1], (compact_to_target c2) as [t2 o2]. cbn [fst snd] in *. subst o1 o2.
  destruct (N.eqb_spec t1 0); [contradiction|]. destruct (N.eqb_spec t2 0); [lia|]. cbn [orb].
  destruct (target_to_difficulty t1) as [d1|] eqn:E1.
  2:{ unfold target_to_difficulty in E1. destruct (N.eqb_spec t1 1); [discriminate|].
      destruct (N.eqb_spec t1 0); [contradiction|discriminate]. }
  destruct (target_to_difficulty t2) as [d2|] eqn:E2.
  2:{ unfold target_to_difficulty in E2. destruct (N.eqb_spec t2 1); [discriminate|].
      destruct (N.eqb_spec t2 0); [lia|discriminate]. }
  exists d1, d2. split; [reflexivity|]. split; [reflexivity|].
  apply (target_to_difficulty_antitone t1 t2 d1 d2); try assumption; lia.
Qed.

(* non-vacuity *)
Example compact_examples :
  canonicalb DIFF_TWO = true /\ compact_to_target DIFF_TWO = (2 ^ 255, false) /\
  compact_to_difficulty DIFF_TWO = Some 2 /\ difficulty_to_compact 2 = Some DIFF_TWO /\
  target_to_compact (2 ^ 255 + 12345) = DIFF_TWO /\
  canonicalb 0x1a08a97b = true /\ canonicalb 0x21000001 = false /\
  pow_verify (2 ^ 255) DIFF_TWO = true /\ pow_verify (2 ^ 255 + 1) DIFF_TWO = false /\
  pow_verify 0 0x21000001 = false.
Proof. vm_compute. repeat split; reflexivity. Qed.
