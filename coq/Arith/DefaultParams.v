(* Arith/DefaultParams.v — the consensus parameters of the default (mainnet)
   configuration, taken from the constants const2v extracts from the Rust
   source on every run (coq/gen/ParamsC07.v).  Model only; the side
   conditions are proved in Arith/ParamsOk.v. *)
From CKB Require Export Arith.EpochExt.
From CKB Require Export gen.ParamsC07.
Local Open Scope N_scope.

Definition default_params : params :=
  mkParams TAU MIN_EPOCH_LENGTH MAX_EPOCH_LENGTH DEFAULT_EPOCH_DURATION_TARGET
           (mkRat DEFAULT_ORPHAN_RATE_TARGET_0 DEFAULT_ORPHAN_RATE_TARGET_1)
           INITIAL_PRIMARY_EPOCH_REWARD DEFAULT_PRIMARY_EPOCH_REWARD_HALVING_INTERVAL
           MILLISECONDS_IN_A_SECOND.

(* build_genesis_epoch_ext with the default constants *)
Definition genesis_epoch_ext : epoch_ext :=
  mkEpochExt 0 (INITIAL_PRIMARY_EPOCH_REWARD / GENESIS_EPOCH_LENGTH)
             (INITIAL_PRIMARY_EPOCH_REWARD mod GENESIS_EPOCH_LENGTH)
             0 0 GENESIS_EPOCH_LENGTH DIFF_TWO_SRC.
