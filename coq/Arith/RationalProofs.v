(* Arith/RationalProofs.v — every RationalU256 operation that returns (does not
   panic) is exact: its result denotes the mathematical rational.  A rational
   n/d is compared by cross multiplication in unbounded N. *)
From Coq Require Import Lia.
From CKB Require Import Arith.U Arith.UProofs Arith.Rational.
Local Open Scope N_scope.

(* n1/d1 = n2/d2 *)
Definition frac_eq (n1 d1 n2 d2 : N) : Prop := n1 * d2 = n2 * d1.
(* r denotes n/d *)
Definition denotes (r : rat) (n d : N) : Prop := denom r <> 0 /\ frac_eq (numer r) (denom r) n d.

Lemma exact_div g n : g <> 0 -> N.divide g n -> n = g * (n / g).
Proof. intros Hg Hd. apply N.div_exact; [exact Hg|]. apply N.mod_divide; assumption. Qed.

Lemma gcd_l n d : N.gcd n d <> 0 -> n = N.gcd n d * (n / N.gcd n d).
Proof. intros H. apply exact_div; [exact H|apply N.gcd_divide_l]. Qed.
Lemma gcd_r n d : N.gcd n d <> 0 -> d = N.gcd n d * (d / N.gcd n d).
Proof. intros H. apply exact_div; [exact H|apply N.gcd_divide_r]. Qed.

Ltac inv_ops :=
  repeat match goal with
  | H : div256 _ _ = Some _ |- _ => apply div256_some in H; destruct H as [-> ?]
  | H : mul256 _ _ = Some _ |- _ => apply mul256_some in H; destruct H as [-> ?]
  | H : add256 _ _ = Some _ |- _ => apply add256_some in H; destruct H as [-> ?]
  end.

Theorem rat_new_sound n d r : rat_new n d = Some r -> denotes r n d /\ d <> 0.
Proof.
  unfold rat_new. destruct (N.eqb_spec d 0) as [|Hd]; [discriminate|]. intros H. unbind H. inv_ops.
  inversion H; subst; clear H. unfold denotes, frac_eq. cbn [numer denom].
  assert (G : N.gcd n d <> 0) by assumption.
  pose proof (gcd_l n d G) as Hn. pose proof (gcd_r n d G) as Hdd.
  set (g := N.gcd n d) in *. set (x := n / g) in *. set (y := d / g) in *. clearbody g x y.
  subst n d. repeat split; nia.
Qed.

Theorem rat_mul_sound a b r : rat_mul a b = Some r -> denom a <> 0 -> denom b <> 0 ->
  denotes r (numer a * numer b) (denom a * denom b).
Proof.
  unfold rat_mul. intros H Ha Hb. unbind H. inv_ops. inversion H; subst; clear H.
  unfold denotes, frac_eq. cbn [numer denom].
  assert (G1 : N.gcd (numer a) (denom b) <> 0) by assumption.
  assert (G2 : N.gcd (denom a) (numer b) <> 0) by assumption.
  pose proof (gcd_l _ _ G1) as E1. pose proof (gcd_r _ _ G1) as E2.
  pose proof (gcd_l _ _ G2) as E3. pose proof (gcd_r _ _ G2) as E4.
  set (g1 := N.gcd (numer a) (denom b)) in *. set (g2 := N.gcd (denom a) (numer b)) in *.
  set (x1 := numer a / g1) in *. set (y2 := denom b / g1) in *.
  set (y1 := denom a / g2) in *. set (x2 := numer b / g2) in *.
  clearbody g1 g2 x1 x2 y1 y2. rewrite E1, E2, E3, E4 in *. split; [nia|]. ring.
Qed.

Theorem rat_mul_u_sound a u r : rat_mul_u a u = Some r -> denom a <> 0 ->
  denotes r (numer a * u) (denom a).
Proof.
  unfold rat_mul_u. intros H Ha. unbind H. inv_ops. inversion H; subst; clear H.
  unfold denotes, frac_eq. cbn [numer denom].
  assert (G : N.gcd (denom a) u <> 0) by assumption.
  pose proof (gcd_l _ _ G) as E1. pose proof (gcd_r _ _ G) as E2.
  set (g := N.gcd (denom a) u) in *. set (y := denom a / g) in *. set (x := u / g) in *.
  clearbody g x y. rewrite E1, E2 in *. split; [nia|]. ring.
Qed.

Theorem rat_div_sound a b r : rat_div a b = Some r -> denom a <> 0 -> denom b <> 0 -> numer b <> 0 ->
  denotes r (numer a * denom b) (denom a * numer b).
Proof.
  unfold rat_div. intros H Ha Hb Hnb. unbind H. inv_ops. inversion H; subst; clear H.
  unfold denotes, frac_eq. cbn [numer denom].
  assert (G1 : N.gcd (numer a) (numer b) <> 0) by assumption.
  assert (G2 : N.gcd (denom a) (denom b) <> 0) by assumption.
  pose proof (gcd_l _ _ G1) as E1. pose proof (gcd_r _ _ G1) as E2.
  pose proof (gcd_l _ _ G2) as E3. pose proof (gcd_r _ _ G2) as E4.
  set (g1 := N.gcd (numer a) (numer b)) in *. set (g2 := N.gcd (denom a) (denom b)) in *.
  set (x1 := numer a / g1) in *. set (x2 := numer b / g1) in *.
  set (y1 := denom a / g2) in *. set (y2 := denom b / g2) in *.
  clearbody g1 g2 x1 x2 y1 y2. rewrite E1, E2, E3, E4 in *. split; [nia|]. ring.
Qed.

Theorem rat_div_u_sound a u r : rat_div_u a u = Some r -> denom a <> 0 -> u <> 0 ->
  denotes r (numer a) (denom a * u).
Proof.
  unfold rat_div_u. intros H Ha Hu. unbind H. inv_ops. inversion H; subst; clear H.
  unfold denotes, frac_eq. cbn [numer denom].
  assert (G : N.gcd (numer a) u <> 0) by assumption.
  pose proof (gcd_l _ _ G) as E1. pose proof (gcd_r _ _ G) as E2.
  set (g := N.gcd (numer a) u) in *. set (x := numer a / g) in *. set (y := u / g) in *.
  clearbody g x y. rewrite E1, E2 in *. split; [nia|]. ring.
Qed.

Theorem rat_add_u_sound a u r : rat_add_u a u = Some r ->
  r = mkRat (numer a + denom a * u) (denom a).
Proof. unfold rat_add_u. intros H. unbind H. inv_ops. inversion H; reflexivity. Qed.

Theorem rat_sat_sub_u_sound a u r : rat_sat_sub_u a u = Some r ->
  (numer a < denom a * u /\ r = rat_zero) \/
  (denom a * u <= numer a /\ r = mkRat (numer a - denom a * u) (denom a)).
Proof.
  unfold rat_sat_sub_u. intros H. unbind H. inv_ops.
  destruct (N.ltb_spec (numer a) (denom a * u)); inversion H; subst; [left|right]; auto.
Qed.

(* cmp is the order of the rationals *)
Theorem rat_cmp_sound a b c : rat_cmp a b = Some c -> denom a <> 0 -> denom b <> 0 ->
  c = (numer a * denom b ?= numer b * denom a).
Proof.
  unfold rat_cmp. intros H Ha Hb. unbind H. inv_ops. inversion H; subst; clear H.
  assert (G : N.gcd (denom a) (denom b) <> 0) by assumption.
  pose proof (gcd_l _ _ G) as E1. pose proof (gcd_r _ _ G) as E2.
  set (g := N.gcd (denom a) (denom b)) in *. set (y1 := denom a / g) in *. set (y2 := denom b / g) in *.
  clearbody g y1 y2. rewrite E1, E2.
  assert (Hg : 0 < g) by lia.
  destruct (N.compare_spec (numer a * y2) (numer b * y1)) as [He|Hl|Hg'].
  - symmetry. apply N.compare_eq_iff. nia.
  - symmetry. apply N.compare_lt_iff. nia.
  - symmetry. apply N.compare_gt_iff. nia.
Qed.

Theorem rat_gt_sound a b g : rat_gt a b = Some g -> denom a <> 0 -> denom b <> 0 ->
  (g = true <-> numer b * denom a < numer a * denom b).
Proof.
  unfold rat_gt. intros H Ha Hb. unbind H. apply (rat_cmp_sound a b v) in E; try assumption.
  inversion H; subst; clear H.
  destruct (N.compare_spec (numer a * denom b) (numer b * denom a)); split; try discriminate; try lia; reflexivity.
Qed.

(* equal fractions have equal floors *)
Lemma frac_eq_floor n1 d1 n2 d2 : d1 <> 0 -> d2 <> 0 -> frac_eq n1 d1 n2 d2 -> n1 / d1 = n2 / d2.
Proof.
  unfold frac_eq. intros H1 H2 He.
  symmetry. apply (N.div_unique n1 d1 (n2 / d2) ((n2 mod d2) * d1 / d2)).
  - pose proof (N.mod_lt n2 d2 H2). apply N.div_lt_upper_bound; [exact H2|]. nia.
  - pose proof (N.div_mod n2 d2 H2) as Hdm.
    (* n1 d2 = n2 d1 = (d2 q + r) d1, so d2 | r d1 *)
    assert (Hdiv : N.divide d2 ((n2 mod d2) * d1)).
    { exists (n1 - n2 / d2 * d1). set (q := n2 / d2) in *. set (r := n2 mod d2) in *. clearbody q r. nia. }
    pose proof (exact_div d2 _ H2 Hdiv) as Hex.
    set (q := n2 / d2) in *. set (r := n2 mod d2) in *. set (z := r * d1 / d2) in *. clearbody q r z.
    nia.
Qed.

Theorem rat_into_u256_sound r n d v : denotes r n d -> d <> 0 -> rat_into_u256 r = Some v -> v = n / d.
Proof.
  intros [Hd He] Hd' H. unfold rat_into_u256 in H. apply div256_some in H as [-> _].
  apply frac_eq_floor; assumption.
Qed.

(* non-vacuity: 3/8 * 4/9 = 1/6, 1/40 + 1 = 41/40, 7/2 > 10/3 *)
Example rat_examples :
  rat_mul (mkRat 3 8) (mkRat 4 9) = Some (mkRat 1 6) /\
  rat_add_u (mkRat 1 40) 1 = Some (mkRat 41 40) /\
  rat_gt (mkRat 7 2) (mkRat 10 3) = Some true /\
  rat_new 25 1000 = Some (mkRat 1 40) /\ rat_new 1 0 = None /\
  rat_mul (mkRat (2 ^ 200) 1) (mkRat (2 ^ 100) 1) = None.
Proof. vm_compute. repeat split; reflexivity. Qed.
