(* Arith/EpochProofs.v — EpochNumberWithFraction: packing round-trips, and a
   well-formed successor is exactly the next block position (no gap, no repeat). *)
From Coq Require Import Lia Sorted Relations.
From CKB Require Import Arith.U Arith.UProofs Arith.BitsProofs Arith.Epoch.
Local Open Scope N_scope.
Ltac plia := unfold W64 in *; eval_pows; lia.

Lemma enf_number_arith v : enf_number v = v mod 2 ^ 24.
Proof.
  unfold enf_number, NUMBER_OFFSET. rewrite N.shiftr_0_r.
  change NUMBER_MASK with (N.ones 24). apply N.land_ones.
Qed.
Lemma enf_index_arith v : enf_index v = (v / 2 ^ 24) mod 2 ^ 16.
Proof.
  unfold enf_index. change INDEX_OFFSET with 24. change INDEX_MASK with (N.ones 16).
  rewrite N.land_ones, N.shiftr_div_pow2. reflexivity.
Qed.
Lemma enf_length_arith v : enf_length v = (v / 2 ^ 40) mod 2 ^ 16.
Proof.
  unfold enf_length. change LENGTH_OFFSET with 40. change LENGTH_MASK with (N.ones 16).
  rewrite N.land_ones, N.shiftr_div_pow2. reflexivity.
Qed.

Lemma enf_number_lt v : enf_number v < 2 ^ 24.
Proof. rewrite enf_number_arith. apply N.mod_lt. plia. Qed.
Lemma enf_index_lt v : enf_index v < 2 ^ 16.
Proof. rewrite enf_index_arith. apply N.mod_lt. plia. Qed.
Lemma enf_length_lt v : enf_length v < 2 ^ 16.
Proof. rewrite enf_length_arith. apply N.mod_lt. plia. Qed.

Lemma enf_new_arith n i l : n < 2 ^ 24 -> i < 2 ^ 16 -> l < 2 ^ 16 ->
  enf_new n i l = l * 2 ^ 40 + i * 2 ^ 24 + n.
Proof.
  intros Hn Hi Hl. unfold enf_new.
  change LENGTH_OFFSET with 40. change INDEX_OFFSET with 24. change NUMBER_OFFSET with 0.
  rewrite N.shiftl_0_r.
  rewrite (N.mod_small n W64) by (unfold W64; plia).
  rewrite (N.shiftl_mul_pow2 i 24), (N.mod_small (i * 2 ^ 24) W64) by (unfold W64; plia).
  rewrite (N.mod_small (N.shiftl l 40) W64) by (rewrite N.shiftl_mul_pow2; unfold W64; plia).
  rewrite (lor_shiftl_small (i * 2 ^ 24) l 40) by plia.
  replace (l * 2 ^ 40 + i * 2 ^ 24) with (N.shiftl (l * 2 ^ 16 + i) 24) by (rewrite N.shiftl_mul_pow2; plia).
  rewrite (lor_shiftl_small n _ 24 Hn). rewrite N.shiftl_mul_pow2. reflexivity.
Qed.

(* the three fields of a packed value are the ones it was built from *)
Theorem enf_fields_roundtrip n i l : n < 2 ^ 24 -> i < 2 ^ 16 -> l < 2 ^ 16 ->
  enf_number (enf_new n i l) = n /\ enf_index (enf_new n i l) = i /\ enf_length (enf_new n i l) = l.
Proof.
  intros Hn Hi Hl. rewrite enf_number_arith, enf_index_arith, enf_length_arith, (enf_new_arith n i l Hn Hi Hl).
  assert (H1 : (l * 2 ^ 40 + i * 2 ^ 24 + n) / 2 ^ 24 = l * 2 ^ 16 + i).
  { symmetry. apply (N.div_unique _ _ _ n); plia. }
  assert (H2 : (l * 2 ^ 40 + i * 2 ^ 24 + n) / 2 ^ 40 = l).
  { symmetry. apply (N.div_unique _ _ _ (i * 2 ^ 24 + n)); plia. }
  rewrite H1, H2. repeat split.
  - symmetry. apply (N.mod_unique _ _ (l * 2 ^ 16 + i)); plia.
  - symmetry. apply (N.mod_unique _ _ l); plia.
  - apply N.mod_small. exact Hl.
Qed.

(* and a value below 2^56 is rebuilt from its fields *)
Theorem enf_pack_unpack v : v < 2 ^ 56 ->
  enf_new (enf_number v) (enf_index v) (enf_length v) = v.
Proof.
  intros Hv. rewrite (enf_new_arith _ _ _ (enf_number_lt v) (enf_index_lt v) (enf_length_lt v)).
  rewrite enf_number_arith, enf_index_arith, enf_length_arith.
  pose proof (N.div_mod v (2 ^ 24) ltac:(plia)) as H1.
  pose proof (N.div_mod (v / 2 ^ 24) (2 ^ 16) ltac:(plia)) as H2.
  assert (H3 : v / 2 ^ 40 = v / 2 ^ 24 / 2 ^ 16) by (rewrite N.div_div by plia; reflexivity).
  assert (H4 : v / 2 ^ 40 < 2 ^ 16) by (apply N.div_lt_upper_bound; plia).
  rewrite (N.mod_small _ _ H4). rewrite H3 in *. plia.
Qed.

(* ---- successor = next position ------------------------------------------------ *)
Definition pos (v : N) : N * N := (enf_number v, enf_index v).
Definition pos_lt (a b : N * N) : Prop := fst a < fst b \/ (fst a = fst b /\ snd a < snd b).

Lemma wf_spec v : enf_is_well_formed v = true <-> 0 < enf_length v /\ enf_index v < enf_length v.
Proof.
  unfold enf_is_well_formed. rewrite Bool.andb_true_iff, !N.ltb_lt. reflexivity.
Qed.

Lemma successor_spec s p : enf_is_successor_of s p = true <->
  (enf_index p + 1 = enf_length p /\ enf_number s = enf_number p + 1 /\ enf_index s = 0) \/
  (enf_index p + 1 <> enf_length p /\ enf_number s = enf_number p /\ enf_index s = enf_index p + 1
   /\ enf_length s = enf_length p).
Proof.
  unfold enf_is_successor_of.
  destruct (N.eqb_spec (enf_index p + 1) (enf_length p)) as [He|He];
    rewrite ?Bool.andb_true_iff, ?N.eqb_eq; intuition lia.
Qed.

(* the epoch fields of a block and of its parent: either the next index of the
   same epoch (same length), or the parent was the last block of its epoch and
   the child is block 0 of the next epoch *)
Theorem epoch_successor_is_next_position s p :
  enf_is_well_formed p = true -> enf_is_well_formed s = true -> enf_is_successor_of s p = true ->
  (enf_number s = enf_number p /\ enf_index s = enf_index p + 1 /\ enf_length s = enf_length p
   /\ enf_index s < enf_length p) \/
  (enf_index p + 1 = enf_length p /\ enf_number s = enf_number p + 1 /\ enf_index s = 0).
Proof.
  intros Hp Hs H. apply wf_spec in Hp, Hs. apply successor_spec in H.
  destruct H as [H|H]; [right; plia|left; plia].
Qed.

(* gap-free: the child's position is strictly after the parent's and no block
   position (number, index) with index < the parent's epoch length lies between *)
Theorem epoch_successor_gap_free s p :
  enf_is_well_formed p = true -> enf_is_well_formed s = true -> enf_is_successor_of s p = true ->
  pos_lt (pos p) (pos s) /\
  forall n i, pos_lt (pos p) (n, i) -> pos_lt (n, i) (pos s) -> n = enf_number p /\ enf_length p <= i.
Proof.
  intros Hp Hs H. apply wf_spec in Hp, Hs. apply successor_spec in H.
  unfold pos_lt, pos; cbn [fst snd]. split; [plia|]. intros n i H1 H2. plia.
Qed.

(* the converse: the next position is accepted *)
Theorem epoch_next_position_is_successor s p :
  (enf_number s = enf_number p /\ enf_index s = enf_index p + 1 /\ enf_length s = enf_length p
   /\ enf_index s < enf_length p) \/
  (enf_index p + 1 = enf_length p /\ enf_number s = enf_number p + 1 /\ enf_index s = 0) ->
  enf_is_successor_of s p = true.
Proof. intros H. apply successor_spec. plia. Qed.

Lemma pos_lt_trans a b c : pos_lt a b -> pos_lt b c -> pos_lt a c.
Proof. unfold pos_lt. plia. Qed.

Lemma enf_chain_sorted_aux : forall l p, enf_is_well_formed p = true -> enf_chain p l = true ->
  Sorted (fun a b => pos_lt (pos a) (pos b)) (p :: l).
Proof.
  induction l as [|s l IH]; intros p Hp H.
  - repeat constructor.
  - cbn [enf_chain] in H. apply Bool.andb_true_iff in H as [H Hc]. apply Bool.andb_true_iff in H as [Hs Hsucc].
    constructor; [apply IH; assumption|]. constructor.
    apply (epoch_successor_gap_free s p Hp Hs Hsucc).
Qed.

(* along a chain of headers the positions (number, index) strictly increase:
   every earlier block is at an earlier position than every later one *)
Theorem epoch_chain_positions_increase p l :
  enf_is_well_formed p = true -> enf_chain p l = true ->
  StronglySorted (fun a b => pos_lt (pos a) (pos b)) (p :: l).
Proof.
  intros Hp H. apply Sorted_StronglySorted.
  - intros a b c. apply pos_lt_trans.
  - apply enf_chain_sorted_aux; assumption.
Qed.

(* non-vacuity: blocks 1798, 1799 of epoch 7 (length 1800) and blocks 0, 1 of epoch 8 (length 1000) *)
Example enf_chain_example :
  enf_is_well_formed (enf_new 7 1798 1800) = true /\
  enf_chain (enf_new 7 1798 1800) [enf_new 7 1799 1800; enf_new 8 0 1000; enf_new 8 1 1000] = true.
Proof. vm_compute. split; reflexivity. Qed.
(* a gap is rejected *)
Example enf_gap_rejected :
  enf_is_successor_of (enf_new 8 1 1000) (enf_new 7 1799 1800) = false /\
  enf_is_successor_of (enf_new 7 1799 1800) (enf_new 7 1797 1800) = false.
Proof. vm_compute. split; reflexivity. Qed.
