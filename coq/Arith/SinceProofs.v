(* Arith/SinceProofs.v — the bit layout of `since` (RFC-17) as decoded by the
   model of Arith/Since.v, for every 64-bit value; side conditions of the
   constants regenerated from the Rust source; the F2 overflow witness of the
   pre-fix arithmetic and its exact class. *)
From CKB Require Import Arith.Since.
From Coq Require Import ZArith.
Local Open Scope N_scope.

(* ---- side conditions of coq/gen/SinceParams.v -------------------------------- *)
Lemma since_params_ok :
  LOCK_TYPE_FLAG = N.shiftl (N.ones 1) 63 /\
  METRIC_TYPE_FLAG_MASK = N.shiftl (N.ones 2) 61 /\
  REMAIN_FLAGS_BITS = N.shiftl (N.ones 5) 56 /\
  VALUE_MASK = N.ones 56 /\
  TAG_BLOCK_NUMBER = 0 /\ TAG_EPOCH = 1 * 2 ^ 61 /\ TAG_TIMESTAMP = 2 * 2 ^ 61 /\
  TIMESTAMP_MULTIPLIER = 1000 /\
  EPOCH_NUMBER_OFFSET = 0 /\ EPOCH_NUMBER_BITS = 24 /\
  EPOCH_INDEX_OFFSET = 24 /\ EPOCH_INDEX_BITS = 16 /\
  EPOCH_LENGTH_OFFSET = 40 /\ EPOCH_LENGTH_BITS = 16.
Proof. repeat split; vm_compute; reflexivity. Qed.

(* ---- masks are fields ------------------------------------------------------- *)
Lemma land_field s lo w : N.land s (N.shiftl (N.ones w) lo) = fld s lo w * 2 ^ lo.
Proof.
  unfold fld. rewrite <- N.shiftl_mul_pow2, <- N.shiftr_div_pow2, <- N.land_ones.
  apply N.bits_inj. intros n. rewrite N.land_spec.
  destruct (N.lt_ge_cases n lo) as [Hlt|Hge].
  - rewrite !N.shiftl_spec_low by exact Hlt. apply andb_false_r.
  - rewrite !N.shiftl_spec_high' by exact Hge.
    rewrite N.land_spec, N.shiftr_spec'. f_equal. f_equal. lia.
Qed.

Lemma fld_lt s lo w : fld s lo w < 2 ^ w.
Proof. unfold fld. apply N.mod_lt. apply N.pow_nonzero. discriminate. Qed.

Lemma value_is_field s : since_value s = fld s 0 56.
Proof.
  unfold since_value, fld. destruct since_params_ok as (_ & _ & _ & -> & _).
  rewrite N.land_ones. change (2 ^ 0) with 1. rewrite N.div_1_r. reflexivity.
Qed.
Lemma metric_is_field s : since_metric_bits s = fld s 61 2 * 2 ^ 61.
Proof.
  unfold since_metric_bits. destruct since_params_ok as (_ & -> & _). apply land_field.
Qed.
Lemma lock_is_field s : N.land s LOCK_TYPE_FLAG = fld s 63 1 * 2 ^ 63.
Proof. destruct since_params_ok as (-> & _). apply land_field. Qed.
Lemma remain_is_field s : N.land s REMAIN_FLAGS_BITS = fld s 56 5 * 2 ^ 56.
Proof. destruct since_params_ok as (_ & _ & -> & _). apply land_field. Qed.

(* every u64 is, uniquely, relative bit / metric flag / reserved bits / value *)
Lemma since_decompose s : s < U64 ->
  s = fld s 63 1 * 2 ^ 63 + fld s 61 2 * 2 ^ 61 + fld s 56 5 * 2 ^ 56 + fld s 0 56.
Proof.
  unfold U64, fld. intros H.
  assert (E1 : s / 2^63 = s / 2^61 / 2^2) by (rewrite N.div_div by (apply N.pow_nonzero; discriminate); reflexivity).
  assert (E2 : s / 2^61 = s / 2^56 / 2^5) by (rewrite N.div_div by (apply N.pow_nonzero; discriminate); reflexivity).
  assert (L1 : s / 2^63 < 2) by (apply N.div_lt_upper_bound; [apply N.pow_nonzero; discriminate| exact H]).
  rewrite (N.mod_small (s/2^63)) by exact L1.
  change (2 ^ 0) with 1. rewrite N.div_1_r.
  pose proof (N.div_mod' s (2^56)) as D3.
  pose proof (N.div_mod' (s/2^56) (2^5)) as D2.
  pose proof (N.div_mod' (s/2^61) (2^2)) as D1.
  rewrite <- E2 in D2. rewrite <- E1 in D1.
  set (q1 := s / 2^63) in *. set (q2 := s / 2^61) in *. set (q3 := s / 2^56) in *.
  set (m2 := q2 mod 2^2) in *. set (m3 := q3 mod 2^5) in *. set (v := s mod 2^56) in *.
  change (2^63) with 9223372036854775808 in *.
  change (2^61) with 2305843009213693952 in *.
  change (2^56) with 72057594037927936 in *.
  change (2^2) with 4 in *. change (2^5) with 32 in *.
  lia.
Qed.

Lemma fld_of_parts rel m r v :
  rel < 2 -> m < 4 -> r < 32 -> v < 2 ^ 56 ->
  let s := rel * 2 ^ 63 + m * 2 ^ 61 + r * 2 ^ 56 + v in
  s < U64 /\ fld s 63 1 = rel /\ fld s 61 2 = m /\ fld s 56 5 = r /\ fld s 0 56 = v.
Proof.
  intros Hrel Hm Hr Hv s. unfold fld, U64.
  change (2 ^ 0) with 1. rewrite N.div_1_r.
  assert (P56 : 2 ^ 56 <> 0) by (apply N.pow_nonzero; discriminate).
  assert (P61 : 2 ^ 61 <> 0) by (apply N.pow_nonzero; discriminate).
  assert (P63 : 2 ^ 63 <> 0) by (apply N.pow_nonzero; discriminate).
  assert (Q63 : s / 2 ^ 63 = rel).
  { symmetry. apply (N.div_unique s (2^63) rel (m * 2 ^ 61 + r * 2 ^ 56 + v)).
    - change (2^63) with 9223372036854775808. change (2^61) with 2305843009213693952.
      change (2^56) with 72057594037927936 in *. lia.
    - subst s. lia. }
  assert (Q61 : s / 2 ^ 61 = rel * 4 + m).
  { symmetry. apply (N.div_unique s (2^61) (rel * 4 + m) (r * 2 ^ 56 + v)).
    - change (2^61) with 2305843009213693952. change (2^56) with 72057594037927936 in *. lia.
    - subst s. change (2^63) with (2^61 * 4). lia. }
  assert (Q56 : s / 2 ^ 56 = rel * 128 + m * 32 + r).
  { symmetry. apply (N.div_unique s (2^56) (rel * 128 + m * 32 + r) v).
    - exact Hv.
    - subst s. change (2^63) with (2^56 * 128). change (2^61) with (2^56 * 32). lia. }
  split.
  { subst s. change (2^64) with 18446744073709551616. change (2^63) with 9223372036854775808.
    change (2^61) with 2305843009213693952. change (2^56) with 72057594037927936 in *. lia. }
  rewrite Q63, Q61, Q56. repeat split.
  - apply N.mod_small. exact Hrel.
  - symmetry. apply (N.mod_unique (rel * 4 + m) (2^2) rel m); [exact Hm| change (2^2) with 4; lia].
  - symmetry. apply (N.mod_unique (rel * 128 + m * 32 + r) (2^5) (rel * 4 + m) r); [exact Hr| change (2^5) with 32; lia].
  - symmetry. apply (N.mod_unique s (2^56) (rel * 128 + m * 32 + r) v); [exact Hv|].
    subst s. change (2^63) with (2^56 * 128). change (2^61) with (2^56 * 32). lia.
Qed.

(* ---- the decoders in terms of the fields ----------------------------------- *)
Lemma mul_pow_eq0 a k : a * 2 ^ k = 0 <-> a = 0.
Proof.
  assert (2 ^ k <> 0) by (apply N.pow_nonzero; discriminate).
  split; [intros E; apply N.eq_mul_0 in E; tauto | intros ->; reflexivity].
Qed.

Lemma is_absolute_fld s : is_absolute s = (fld s 63 1 =? 0).
Proof.
  unfold is_absolute. rewrite lock_is_field.
  destruct (N.eqb_spec (fld s 63 1) 0) as [E|E].
  - rewrite E. reflexivity.
  - apply N.eqb_neq. rewrite mul_pow_eq0. exact E.
Qed.

Lemma flags_is_valid_fld s :
  flags_is_valid s = (fld s 56 5 =? 0) && negb (fld s 61 2 =? 3).
Proof.
  unfold flags_is_valid. rewrite remain_is_field, metric_is_field.
  destruct since_params_ok as (_ & -> & _).
  f_equal.
  - destruct (N.eqb_spec (fld s 56 5) 0) as [E|E].
    + rewrite E. reflexivity.
    + apply N.eqb_neq. rewrite mul_pow_eq0. exact E.
  - f_equal. change (N.shiftl (N.ones 2) 61) with (3 * 2 ^ 61).
    destruct (N.eqb_spec (fld s 61 2) 3) as [E|E].
    + rewrite E. reflexivity.
    + apply N.eqb_neq. intros E2. apply N.mul_cancel_r in E2; [tauto|]. apply N.pow_nonzero. discriminate.
Qed.

Definition metric_of_fields (m v : N) : option metric :=
  if m =? 0 then Some (MBlock v)
  else if m =? 1 then Some (MEpoch v)
  else if m =? 2 then Some (MTime (N.min (v * 1000) U64MAX))
  else None.

Lemma tag_eqb m k : (m * 2 ^ 61 =? k * 2 ^ 61) = (m =? k).
Proof.
  destruct (N.eqb_spec m k) as [E|E].
  - rewrite E. apply N.eqb_refl.
  - apply N.eqb_neq. intros E2. apply N.mul_cancel_r in E2; [tauto|]. apply N.pow_nonzero. discriminate.
Qed.

Lemma extract_metric_fld s :
  extract_metric s = metric_of_fields (fld s 61 2) (fld s 0 56).
Proof.
  unfold extract_metric, metric_of_fields, sat_mul64.
  rewrite metric_is_field, value_is_field.
  destruct since_params_ok as (_ & _ & _ & _ & -> & -> & -> & -> & _).
  change 0 with (0 * 2 ^ 61) at 1. rewrite !tag_eqb. reflexivity.
Qed.

Lemma timestamp_overflows_fld s :
  timestamp_overflows s = (fld s 61 2 =? 2) && (U64 <=? fld s 0 56 * 1000).
Proof.
  unfold timestamp_overflows, mul64. rewrite metric_is_field, value_is_field.
  destruct since_params_ok as (_ & _ & _ & _ & _ & _ & -> & -> & _).
  rewrite tag_eqb. f_equal.
  destruct (N.ltb_spec (fld s 0 56 * 1000) U64); destruct (N.leb_spec U64 (fld s 0 56 * 1000)); try reflexivity; lia.
Qed.

Lemma extract_metric_old_fld s :
  extract_metric_old s =
  let m := fld s 61 2 in let v := fld s 0 56 in
  if m =? 0 then Some (Some (MBlock v))
  else if m =? 1 then Some (Some (MEpoch v))
  else if m =? 2 then (if v * 1000 <? U64 then Some (Some (MTime (v * 1000))) else None)
  else Some None.
Proof.
  unfold extract_metric_old, mul64. rewrite metric_is_field, value_is_field.
  destruct since_params_ok as (_ & _ & _ & _ & -> & -> & -> & -> & _).
  change 0 with (0 * 2 ^ 61) at 1. rewrite !tag_eqb. cbv zeta.
  destruct (fld s 61 2 =? 0); [reflexivity|]. destruct (fld s 61 2 =? 1); [reflexivity|].
  destruct (fld s 61 2 =? 2); [|reflexivity]. destruct (_ <? U64); reflexivity.
Qed.

(* ---- the theorems ---------------------------------------------------------- *)

(* Decoding is total and exact for every u64: the value splits uniquely into
   relative bit / metric flag / reserved bits / 56-bit value, the flags are
   valid exactly for the RFC-17 layout (reserved bits zero, metric flag not
   11), and every decoder answers from those fields. *)
Theorem since_decode_total_exact_thm : forall s, s < U64 ->
  exists rel m r v,
    rel < 2 /\ m < 4 /\ r < 32 /\ v < 2 ^ 56 /\
    s = rel * 2 ^ 63 + m * 2 ^ 61 + r * 2 ^ 56 + v /\
    (flags_is_valid s = true <-> r = 0 /\ m <> 3) /\
    is_absolute s = (rel =? 0) /\
    since_value s = v /\
    extract_metric s = metric_of_fields m v /\
    timestamp_overflows s = (m =? 2) && (U64 <=? v * 1000).
Proof.
  intros s Hs.
  exists (fld s 63 1), (fld s 61 2), (fld s 56 5), (fld s 0 56).
  split; [apply (fld_lt s 63 1)|]. split; [apply (fld_lt s 61 2)|].
  split; [apply (fld_lt s 56 5)|]. split; [apply (fld_lt s 0 56)|].
  split; [apply since_decompose; exact Hs|].
  split.
  { rewrite flags_is_valid_fld, andb_true_iff, negb_true_iff, N.eqb_eq, N.eqb_neq. reflexivity. }
  split; [apply is_absolute_fld|]. split; [apply value_is_field|].
  split; [apply extract_metric_fld|apply timestamp_overflows_fld].
Qed.

(* the decomposition is unique: decoding an encoded since gives the parts back *)
Theorem since_encode_decode_thm : forall (rel : bool) m v,
  m < 3 -> v < 2 ^ 56 ->
  let s := since_encode rel m v in
  s < U64 /\ flags_is_valid s = true /\ is_absolute s = negb rel /\
  since_value s = v /\ extract_metric s = metric_of_fields m v.
Proof.
  intros rel m v Hm Hv s.
  assert (Hs : s = (if rel then 1 else 0) * 2 ^ 63 + m * 2 ^ 61 + 0 * 2 ^ 56 + v).
  { subst s. unfold since_encode. destruct rel; lia. }
  destruct (fld_of_parts (if rel then 1 else 0) m 0 v) as (L & F63 & F61 & F56 & F0);
    [destruct rel; lia | lia | lia | exact Hv |].
  cbv zeta in L, F63, F61, F56, F0. rewrite <- Hs in *.
  split; [exact L|].
  split. { rewrite flags_is_valid_fld, F56, F61. cbn [N.eqb]. apply negb_true_iff, N.eqb_neq. lia. }
  split. { rewrite is_absolute_fld, F63. destruct rel; reflexivity. }
  split. { rewrite value_is_field. exact F0. }
  rewrite extract_metric_fld, F61, F0. reflexivity.
Qed.

Theorem since_decode_encode_thm : forall s, s < U64 -> flags_is_valid s = true ->
  since_encode (is_relative s) (fld s 61 2) (since_value s) = s /\ fld s 61 2 < 3.
Proof.
  intros s Hs Hv.
  rewrite flags_is_valid_fld, andb_true_iff, negb_true_iff, N.eqb_eq, N.eqb_neq in Hv.
  destruct Hv as [H56 H61].
  pose proof (since_decompose s Hs) as D. rewrite H56 in D.
  pose proof (fld_lt s 61 2) as L61. change (2 ^ 2) with 4 in L61.
  pose proof (fld_lt s 63 1) as L63. change (2 ^ 1) with 2 in L63.
  split; [|lia].
  unfold since_encode, is_relative. rewrite is_absolute_fld, value_is_field.
  destruct (N.eqb_spec (fld s 63 1) 0) as [E|E]; cbn [negb].
  - rewrite E in D. lia.
  - assert (E1 : fld s 63 1 = 1) by lia. rewrite E1 in D. lia.
Qed.

(* F2: the arithmetic as it was (value * 1000 with overflow checks) panics on
   a valid since; the class is exactly metric = timestamp and value >= 2^64/1000 *)
Theorem since_timestamp_overflow_refuted_thm :
  exists s, s < U64 /\ flags_is_valid s = true /\ extract_metric_old s = None.
Proof.
  exists (since_encode false 2 18446744073709552). vm_compute. repeat split; reflexivity.
Qed.

Theorem extract_metric_old_panics_iff : forall s,
  extract_metric_old s = None <-> fld s 61 2 = 2 /\ 18446744073709552 <= since_value s.
Proof.
  intros s. rewrite extract_metric_old_fld, value_is_field. cbv zeta.
  destruct (N.eqb_spec (fld s 61 2) 0) as [E0|E0]; [split; [discriminate|lia]|].
  destruct (N.eqb_spec (fld s 61 2) 1) as [E1|E1]; [split; [discriminate|lia]|].
  destruct (N.eqb_spec (fld s 61 2) 2) as [E2|E2]; [|split; [discriminate|lia]].
  unfold U64. change (2 ^ 64) with 18446744073709551616.
  destruct (N.ltb_spec (fld s 0 56 * 1000) 18446744073709551616); split; try discriminate; try lia.
  reflexivity.
Qed.

(* the repaired extraction is total and agrees with the old one wherever the
   old one did not panic *)
Theorem extract_metric_repaired : forall s,
  match extract_metric_old s with
  | Some m => extract_metric s = m /\ timestamp_overflows s = false
  | None => timestamp_overflows s = true /\ extract_metric s = Some (MTime U64MAX)
  end.
Proof.
  intros s. rewrite extract_metric_old_fld, extract_metric_fld, timestamp_overflows_fld.
  unfold metric_of_fields. cbv zeta.
  destruct (N.eqb_spec (fld s 61 2) 0) as [E0|E0]; [rewrite E0; split; reflexivity|].
  destruct (N.eqb_spec (fld s 61 2) 1) as [E1|E1]; [rewrite E1; split; reflexivity|].
  destruct (N.eqb_spec (fld s 61 2) 2) as [E2|E2].
  - unfold U64MAX, U64. change (2 ^ 64) with 18446744073709551616.
    destruct (N.ltb_spec (fld s 0 56 * 1000) 18446744073709551616);
      destruct (N.leb_spec 18446744073709551616 (fld s 0 56 * 1000)); try lia.
    + split; [|reflexivity]. f_equal. f_equal. lia.
    + split; [reflexivity|]. f_equal. f_equal. lia.
  - split; reflexivity.
Qed.

(* ---- EpochNumberWithFraction -------------------------------------------- *)
Lemma ep_fields_of_new n i l :
  n < 2 ^ 24 -> i < 2 ^ 16 -> l < 2 ^ 16 ->
  ep_number (ep_new n i l) = n /\ ep_index (ep_new n i l) = i /\ ep_length (ep_new n i l) = l.
Proof.
  intros Hn Hi Hl. unfold ep_number, ep_index, ep_length, ep_new, fld.
  destruct since_params_ok as (_ & _ & _ & _ & _ & _ & _ & _ & -> & -> & -> & -> & -> & ->).
  change (2 ^ 0) with 1. rewrite N.div_1_r, N.mul_1_r.
  set (s := l * 2 ^ 40 + i * 2 ^ 24 + n).
  assert (Q24 : s / 2 ^ 24 = l * 2 ^ 16 + i).
  { symmetry. apply (N.div_unique s (2^24) (l * 2 ^ 16 + i) n); [exact Hn|].
    subst s. change (2 ^ 40) with (2 ^ 24 * 2 ^ 16). lia. }
  assert (Q40 : s / 2 ^ 40 = l).
  { symmetry. apply (N.div_unique s (2^40) l (i * 2 ^ 24 + n)); [|subst s; lia].
    change (2 ^ 40) with 1099511627776. change (2 ^ 24) with 16777216 in *.
    change (2 ^ 16) with 65536 in *. lia. }
  rewrite Q24, Q40. repeat split.
  - symmetry. apply (N.mod_unique s (2^24) (l * 2 ^ 16 + i) n); [exact Hn|].
    subst s. change (2 ^ 40) with (2 ^ 24 * 2 ^ 16). lia.
  - symmetry. apply (N.mod_unique (l * 2 ^ 16 + i) (2^16) l i); [exact Hi|lia].
  - apply N.mod_small. exact Hl.
Qed.

Lemma ep_normalize_length e : ep_length (ep_normalize e) <> 0.
Proof.
  unfold ep_normalize. destruct (N.eqb_spec (ep_length e) 0) as [E|E]; [|exact E].
  assert (Hn : ep_number e < 2 ^ 24).
  { unfold ep_number. destruct since_params_ok as (_ & _ & _ & _ & _ & _ & _ & _ & _ & -> & _).
    apply fld_lt. }
  destruct (ep_fields_of_new (ep_number e) 0 1 Hn eq_refl eq_refl) as (_ & _ & ->). discriminate.
Qed.

(* to_rational of a normalized epoch never divides by zero *)
Lemma ep_to_rational_normalize e : exists r, ep_to_rational (ep_normalize e) = Some r /\ rden r <> 0.
Proof.
  unfold ep_to_rational. pose proof (ep_normalize_length e) as L.
  destruct (ep_normalize e =? 0).
  - eexists. split; [reflexivity|]. discriminate.
  - destruct (N.eqb_spec (ep_length (ep_normalize e)) 0) as [E|E]; [contradiction|].
    eexists. split; [reflexivity|]. exact E.
Qed.

Lemma ep_to_rational_den e r : ep_to_rational e = Some r -> rden r <> 0.
Proof.
  unfold ep_to_rational. destruct (e =? 0); [intros [= <-]; discriminate|].
  destruct (N.eqb_spec (ep_length e) 0) as [E|E]; [discriminate|]. intros [= <-]. exact E.
Qed.
