(* Arith/UProofs.v — inversion lemmas for the checked operations of Arith/U.v. *)
From Coq Require Import Lia.
From CKB Require Import Arith.U.
Local Open Scope N_scope.

Lemma bind_some {A B} (x : option A) (f : A -> option B) r :
  bind x f = Some r -> exists a, x = Some a /\ f a = Some r.
Proof. destruct x; cbn; [eauto|discriminate]. Qed.

Lemma chk_some w x r : chk w x = Some r -> r = x /\ x < w.
Proof. unfold chk. destruct (N.ltb_spec x w); intros H0; inversion H0; subst; auto. Qed.
Lemma chk_ok w x : x < w -> chk w x = Some x.
Proof. unfold chk. intros H. apply N.ltb_lt in H. rewrite H. reflexivity. Qed.

Lemma add64_some a b r : add64 a b = Some r -> r = a + b /\ a + b < W64.
Proof. apply chk_some. Qed.
Lemma mul64_some a b r : mul64 a b = Some r -> r = a * b /\ a * b < W64.
Proof. apply chk_some. Qed.
Lemma add256_some a b r : add256 a b = Some r -> r = a + b /\ a + b < W256.
Proof. apply chk_some. Qed.
Lemma mul256_some a b r : mul256 a b = Some r -> r = a * b /\ a * b < W256.
Proof. apply chk_some. Qed.
Lemma sub64_some a b r : sub64 a b = Some r -> r = a - b /\ b <= a.
Proof. unfold sub64. destruct (N.ltb_spec a b); intros H0; inversion H0; subst; auto. Qed.
Lemma div64_some a b r : div64 a b = Some r -> r = a / b /\ b <> 0.
Proof. unfold div64. destruct (N.eqb_spec b 0); intros H0; inversion H0; subst; auto. Qed.
Lemma rem64_some a b r : rem64 a b = Some r -> r = a mod b /\ b <> 0.
Proof. unfold rem64. destruct (N.eqb_spec b 0); intros H0; inversion H0; subst; auto. Qed.
Lemma div256_some a b r : div256 a b = Some r -> r = a / b /\ b <> 0.
Proof. unfold div256. destruct (N.eqb_spec b 0); intros H0; inversion H0; subst; auto. Qed.
Lemma sub256_some a b r : sub256 a b = Some r -> r = a - b /\ b <= a.
Proof. unfold sub256. destruct (N.ltb_spec a b); intros H0; inversion H0; subst; auto. Qed.
Lemma shr64_some a k r : shr64 a k = Some r -> r = a / 2 ^ k /\ k < 64.
Proof.
  unfold shr64. destruct (N.ltb_spec k 64); intros H0; inversion H0; subst.
  split; [apply N.shiftr_div_pow2|assumption].
Qed.

(* decompose a hypothesis [x <- e ;; k = Some r] step by step *)
Ltac unbind H :=
  repeat (match type of H with bind _ _ = Some _ => idtac end;
          let a := fresh "v" in let E := fresh "E" in
          apply bind_some in H; destruct H as (a & E & H)).
