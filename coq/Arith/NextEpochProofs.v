(* Arith/NextEpochProofs.v — Consensus::next_epoch_ext (non-dummy branch):
   length bounds, clamped hash rate estimate, difficulty never zero, issuance
   of the next epoch. *)
From Coq Require Import Lia.
From CKB Require Import Arith.U Arith.UProofs Arith.Compact Arith.CompactProofs Arith.Rational
     Arith.RationalProofs Arith.BitsProofs Arith.Epoch Arith.EpochExt Arith.EpochExtProofs.
Local Open Scope N_scope.

(* ---- inversion of the composed function ------------------------------------ *)
Lemma next_epoch_ext_inv P e hn hc U dur e' :
  next_epoch_ext P e hn hc U dur = Some e' ->
  exists D adjusted lor len bound den nd R number start compact,
    last_epoch_duration P dur = Some D /\
    adjusted_hash_rate P e hc U D = Some adjusted /\
    rat_new U (ee_length e) = Some lor /\
    next_epoch_length P lor (ee_length e) U D = Some (len, bound) /\
    diff_denominator P lor (ee_length e) D len bound = Some den /\
    next_epoch_diff P adjusted den = Some nd /\
    primary_epoch_reward_of_next_epoch P e = Some R /\
    len <> 0 /\
    add64 (ee_number e) 1 = Some number /\ add64 hn 1 = Some start /\
    difficulty_to_compact nd = Some compact /\
    e' = mkEpochExt number (R / len) (R mod len) adjusted start len compact.
Proof.
  intros H. unfold next_epoch_ext in H.
  apply bind_some in H as (D & HD & H). apply bind_some in H as (adjusted & Hadj & H).
  apply bind_some in H as (lor & Hlor & H). apply bind_some in H as ([len bound] & Hlen & H).
  cbn [fst snd] in H.
  apply bind_some in H as (den & Hden & H). apply bind_some in H as (nd & Hnd & H).
  apply bind_some in H as (R & HR & H). apply bind_some in H as (br & Hbr & H).
  apply bind_some in H as (rr & Hrr & H). apply bind_some in H as (number & Hnum & H).
  apply bind_some in H as (start & Hstart & H). apply bind_some in H as (compact & Hc & H).
  apply div64_some in Hbr as [-> Hl]. apply rem64_some in Hrr as [-> _]. inversion H; subst; clear H.
  exists D, adjusted, lor, len, bound, den, nd, R, number, start, compact.
  repeat split; assumption.
Qed.

Lemma adjusted_hash_rate_inv P e hc U D a :
  adjusted_hash_rate P e hc U D = Some a ->
  exists diff bhr, compact_to_difficulty hc = Some diff /\ D <> 0 /\
    bounding_hash_rate P (diff * (ee_length e + U) / D) (ee_previous_epoch_hash_rate e) = Some bhr /\
    a = N.max bhr 1.
Proof.
  intros H. unfold adjusted_hash_rate in H.
  apply bind_some in H as (diff & Hdiff & H). apply bind_some in H as (lu & Hlu & H).
  apply bind_some in H as (w & Hw & H). apply bind_some in H as (hr & Hhr & H).
  apply bind_some in H as (bhr & Hb & H).
  apply add64_some in Hlu as [-> _]. apply mul256_some in Hw as [-> _]. apply div256_some in Hhr as [-> HD].
  inversion H; subst. exists diff, bhr. repeat split; assumption.
Qed.

(* ---- (2) length ------------------------------------------------------------- *)
Lemma next_epoch_length_bounds P lor L U D r b :
  1 <= p_tau P -> p_min_epoch_length P <= L <= p_max_epoch_length P ->
  next_epoch_length P lor L U D = Some (r, b) ->
  p_min_epoch_length P <= r <= p_max_epoch_length P /\ L / p_tau P <= r <= L * p_tau P.
Proof.
  intros Ht HL H. unfold next_epoch_length in H.
  destruct (N.eqb_spec U 0) as [_|_].
  - unbind H. apply mul64_some in E as [-> _]. inversion H; subst.
    pose proof (div_le_self L (p_tau P) Ht). assert (L <= L * p_tau P) by nia. lia.
  - unbind H. pose proof (bounding_epoch_length_bounds P _ L r b Ht HL H) as (H1 & H2 & _). auto.
Qed.

Theorem next_len_bounds P e hn hc U dur e' :
  1 <= p_tau P -> p_min_epoch_length P <= ee_length e <= p_max_epoch_length P ->
  next_epoch_ext P e hn hc U dur = Some e' ->
  p_min_epoch_length P <= ee_length e' <= p_max_epoch_length P /\
  ee_length e / p_tau P <= ee_length e' <= ee_length e * p_tau P.
Proof.
  intros Ht HL H.
  destruct (next_epoch_ext_inv _ _ _ _ _ _ _ H) as (D & adjusted & lor & len & bound & den & nd & R & number & start & compact
    & HD & Hadj & Hlor & Hlen & Hden & Hnd & HR & Hl & Hnum & Hstart & Hc & ->).
  cbn [ee_length]. eapply next_epoch_length_bounds; eassumption.
Qed.

(* ---- (1) hash rate estimate --------------------------------------------------- *)
(* the estimate stored in the next epoch is max 1 of the raw estimate
   difficulty * (L + U) / D clamped into [prev / TAU, prev * TAU] (no clamp when prev = 0) *)
Theorem next_hash_rate_clamped P e hn hc U dur e' :
  1 <= p_tau P -> next_epoch_ext P e hn hc U dur = Some e' ->
  exists diff D,
    compact_to_difficulty hc = Some diff /\ D = N.max (dur / p_ms_in_s P) 1 /\
    let hr := diff * (ee_length e + U) / D in
    let prev := ee_previous_epoch_hash_rate e in
    1 <= ee_previous_epoch_hash_rate e' /\
    (prev = 0 -> ee_previous_epoch_hash_rate e' = N.max hr 1) /\
    (prev <> 0 -> ee_previous_epoch_hash_rate e' = N.max (N.max (prev / p_tau P) (N.min hr (prev * p_tau P))) 1 /\
                  (1 <= prev / p_tau P -> prev / p_tau P <= ee_previous_epoch_hash_rate e' <= prev * p_tau P)).
Proof.
  intros Ht H.
  destruct (next_epoch_ext_inv _ _ _ _ _ _ _ H) as (D & adjusted & lor & len & bound & den & nd & R & number & start & compact
    & HD & Hadj & Hlor & Hlen & Hden & Hnd & HR & Hl & Hnum & Hstart & Hc & ->).
  cbn [ee_previous_epoch_hash_rate].
  unfold last_epoch_duration in HD. apply bind_some in HD as (ds & Hds & HD). apply div64_some in Hds as [-> _].
  inversion HD; subst; clear HD.
  destruct (adjusted_hash_rate_inv _ _ _ _ _ _ Hadj) as (diff & bhr & Hdiff & _ & Hb & ->).
  exists diff, (N.max (dur / p_ms_in_s P) 1). split; [assumption|]. split; [reflexivity|]. cbv zeta.
  pose proof (bounding_hash_rate_clamp P _ _ _ Ht Hb) as [H0 H1].
  split; [lia|]. split.
  - intros Hp. rewrite (H0 Hp). reflexivity.
  - intros Hp. destruct (H1 Hp) as [Hr Hbb]. rewrite <- Hr. split; [reflexivity|]. lia.
Qed.

(* ---- (3) difficulty ------------------------------------------------------------ *)
Lemma rat_new_den1 n r : rat_new n 1 = Some r -> r = mkRat n 1.
Proof.
  unfold rat_new. cbn [N.eqb]. rewrite N.gcd_1_r. unfold div256. cbn [N.eqb bind].
  rewrite !N.div_1_r. intros H. inversion H. reflexivity.
Qed.

Lemma rat_cmp_inv a b c : rat_cmp a b = Some c ->
  N.gcd (denom a) (denom b) <> 0 /\
  c = (numer a * (denom b / N.gcd (denom a) (denom b)) ?= numer b * (denom a / N.gcd (denom a) (denom b))).
Proof.
  unfold rat_cmp. intros H.
  apply bind_some in H as (q1 & Hq1 & H). apply bind_some in H as (lhs & Hlhs & H).
  apply bind_some in H as (q2 & Hq2 & H). apply bind_some in H as (rhs & Hrhs & H).
  apply div256_some in Hq1 as [-> Hg]. apply mul256_some in Hlhs as [-> _].
  apply div256_some in Hq2 as [-> _]. apply mul256_some in Hrhs as [-> _].
  inversion H. split; [assumption|reflexivity].
Qed.

Lemma rat_gt_true_denom a b : rat_gt a b = Some true -> denom b <> 0.
Proof.
  unfold rat_gt. intros H. apply bind_some in H as (c & Hc & H).
  apply rat_cmp_inv in Hc as [Hg ->]. intros Hb. rewrite Hb in *.
  rewrite N.div_0_l in H by assumption. rewrite N.mul_0_r in H.
  set (z := numer b * (denom a / N.gcd (denom a) 0)) in *. clearbody z.
  destruct (N.compare_spec 0 z); try discriminate. lia.
Qed.

Lemma rat_div_inv a b q : rat_div a b = Some q ->
  N.gcd (numer a) (numer b) <> 0 /\ N.gcd (denom a) (denom b) <> 0 /\
  numer q = numer a / N.gcd (numer a) (numer b) * (denom b / N.gcd (denom a) (denom b)) /\
  denom q = denom a / N.gcd (denom a) (denom b) * (numer b / N.gcd (numer a) (numer b)) /\
  numer q < W256.
Proof.
  unfold rat_div. intros H.
  apply bind_some in H as (x1 & Hx1 & H). apply bind_some in H as (x2 & Hx2 & H).
  apply bind_some in H as (n & Hn & H). apply bind_some in H as (y1 & Hy1 & H).
  apply bind_some in H as (y2 & Hy2 & H). apply bind_some in H as (d & Hd & H).
  apply div256_some in Hx1 as [-> G1]. apply div256_some in Hx2 as [-> G2].
  apply mul256_some in Hn as [-> Hlt]. apply div256_some in Hy1 as [-> _]. apply div256_some in Hy2 as [-> _].
  apply mul256_some in Hd as [-> _]. inversion H; subst; clear H. cbn [numer denom].
  repeat split; assumption.
Qed.

Lemma rat_div_zero_numer a b q : numer b = 0 -> rat_div a b = Some q -> denom q = 0.
Proof.
  intros Hb H. apply rat_div_inv in H as (G1 & _ & _ & -> & _).
  rewrite Hb in *. rewrite N.div_0_l by assumption. lia.
Qed.

(* the next difficulty is max 1 (floor (adjusted * T / den)) and fits 256 bits *)
Theorem next_epoch_diff_value P adjusted den nd :
  next_epoch_diff P adjusted den = Some nd ->
  1 <= nd < W256 /\
  (denom den <> 0 -> numer den <> 0 ->
   nd = N.max 1 (adjusted * p_epoch_duration_target P * denom den / numer den)).
Proof.
  unfold next_epoch_diff. intros H.
  apply bind_some in H as (at_ & Hat & H). apply bind_some in H as (num & Hnum & H).
  apply bind_some in H as (gt & Hgt & H).
  apply mul256_some in Hat as [-> _]. apply rat_new_den1 in Hnum. subst num.
  destruct gt.
  - apply bind_some in H as (q & Hq & H).
    pose proof (rat_gt_true_denom _ _ Hgt) as Hdd.
    assert (Hdn : numer den <> 0).
    { intros Hz. pose proof (rat_div_zero_numer _ _ _ Hz Hq) as Hq0. unfold rat_into_u256 in H.
      apply div256_some in H as [_ Hc]. contradiction. }
    pose proof (rat_gt_sound _ _ _ Hgt ltac:(cbn; lia) Hdd) as [Hg _]. specialize (Hg eq_refl). cbn [numer denom] in Hg.
    pose proof (rat_div_sound _ _ _ Hq ltac:(cbn; lia) Hdd Hdn) as Hden. cbn [numer denom] in Hden.
    assert (Hv : nd = adjusted * p_epoch_duration_target P * denom den / (1 * numer den)).
    { eapply rat_into_u256_sound; [exact Hden|lia|exact H]. }
    rewrite N.mul_1_l in Hv.
    assert (H1 : 1 <= nd) by (rewrite Hv; apply N.div_le_lower_bound; [assumption|lia]).
    assert (H2 : nd < W256).
    { unfold rat_into_u256 in H. apply div256_some in H as [Hnd Hqd].
      apply rat_div_inv in Hq as (_ & _ & _ & _ & Hlt).
      eapply N.le_lt_trans; [|exact Hlt]. rewrite Hnd. apply N.div_le_upper_bound; [assumption|].
      set (x := numer q) in *. set (y := denom q) in *. clearbody x y. nia. }
    split; [lia|]. intros _ _. lia.
  - inversion H; subst; clear H. split; [unfold W256; eval_pows; lia|].
    intros Hdd Hdn. pose proof (rat_gt_sound _ _ _ Hgt ltac:(cbn; lia) Hdd) as [_ Hg]. cbn [numer denom] in Hg.
    assert (Hle : adjusted * p_epoch_duration_target P * denom den <= numer den * 1).
    { destruct (N.le_gt_cases (adjusted * p_epoch_duration_target P * denom den) (numer den * 1)) as [|Hc]; [assumption|].
      specialize (Hg Hc). discriminate. }
    assert (adjusted * p_epoch_duration_target P * denom den / numer den <= 1).
    { apply N.div_le_upper_bound; [assumption|]. lia. }
    lia.
Qed.

(* difficulty never zero: the compact target of the next epoch is canonical and
   decodes to a difficulty >= the computed one >= 1 *)
Theorem next_diff_nonzero P e hn hc U dur e' :
  next_epoch_ext P e hn hc U dur = Some e' ->
  exists nd d', 1 <= nd < W256 /\ difficulty_to_compact nd = Some (ee_compact_target e') /\
                canonicalb (ee_compact_target e') = true /\
                compact_to_difficulty (ee_compact_target e') = Some d' /\ nd <= d'.
Proof.
  intros H.
  destruct (next_epoch_ext_inv _ _ _ _ _ _ _ H) as (D & adjusted & lor & len & bound & den & nd & R & number & start & compact
    & HD & Hadj & Hlor & Hlen & Hden & Hnd & HR & Hl & Hnum & Hstart & Hc & ->).
  cbn [ee_compact_target].
  pose proof (next_epoch_diff_value _ _ _ _ Hnd) as [[H1 H2] _].
  destruct (difficulty_compact_nonzero nd H1 H2) as (c & d' & Hc' & Hcan & Hd & Hle).
  rewrite Hc in Hc'. inversion Hc'; subst.
  exists nd, d'. repeat split; assumption.
Qed.

(* issuance: base * length + remainder of the next epoch is the reward of the
   schedule, remainder < length, and the epoch number / start advance by one *)
Theorem next_epoch_issuance P e hn hc U dur e' :
  p_initial_primary_epoch_reward P < W64 ->
  next_epoch_ext P e hn hc U dur = Some e' ->
  exists R, primary_epoch_reward_of_next_epoch P e = Some R /\
            ee_primary_reward e' = Some R /\
            ee_remainder_reward e' < ee_length e' /\
            ee_base_block_reward e' = R / ee_length e' /\ ee_remainder_reward e' = R mod ee_length e' /\
            ee_number e' = ee_number e + 1 /\ ee_start_number e' = hn + 1.
Proof.
  intros Hinit H.
  destruct (next_epoch_ext_inv _ _ _ _ _ _ _ H) as (D & adjusted & lor & len & bound & den & nd & R & number & start & compact
    & HD & Hadj & Hlor & Hlen & Hden & Hnd & HR & Hl & Hnum & Hstart & Hc & ->).
  cbn [ee_base_block_reward ee_remainder_reward ee_length ee_number ee_start_number].
  exists R. apply add64_some in Hnum as [-> _]. apply add64_some in Hstart as [-> _].
  assert (HRw : R < W64).
  { unfold primary_epoch_reward_of_next_epoch in HR. apply bind_some in HR as (n1 & _ & HR).
    destruct (negb _).
    - unfold ee_primary_reward in HR. apply bind_some in HR as (p & _ & HR). apply add64_some in HR as [-> ?]. assumption.
    - assert (HI : 0 < p_halving_interval P).
      { unfold primary_epoch_reward in HR. apply bind_some in HR as (h & Hh & _). apply div64_some in Hh as [_ ?]. lia. }
      destruct (primary_epoch_reward_total P n1 HI) as (r & Hr & Hle). rewrite Hr in HR. inversion HR; subst. lia. }
  split; [assumption|].
  pose proof (N.div_mod R len Hl) as Hdm. pose proof (N.mod_lt R len Hl) as Hlt.
  repeat split; try assumption; try reflexivity.
  unfold ee_primary_reward. cbn [ee_base_block_reward ee_remainder_reward ee_length].
  set (q := R / len) in *. set (r := R mod len) in *. clearbody q r.
  unfold mul64, add64. rewrite chk_ok by nia. cbn [bind]. rewrite chk_ok by nia. f_equal. nia.
Qed.
