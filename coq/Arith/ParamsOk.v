(* Arith/ParamsOk.v — side conditions of the theorems, re-proved against the
   constants const2v extracted from the Rust source (coq/gen/ParamsC07.v): a
   changed constant that breaks a bound breaks one of these proofs. *)
From Coq Require Import Lia.
From CKB Require Import Arith.U Arith.Compact Arith.Epoch Arith.EpochExt Arith.DefaultParams.
Local Open Scope N_scope.

(* the dampening factor of the property text ("within a factor of two") *)
Lemma tau_is_two : TAU = 2.
Proof. reflexivity. Qed.

Lemma epoch_length_limits_ok :
  0 < MIN_EPOCH_LENGTH /\ MIN_EPOCH_LENGTH <= MAX_EPOCH_LENGTH /\
  MAX_EPOCH_LENGTH * TAU < W64 /\
  MIN_EPOCH_LENGTH <= GENESIS_EPOCH_LENGTH <= MAX_EPOCH_LENGTH /\
  MAX_EPOCH_LENGTH = DEFAULT_EPOCH_DURATION_TARGET / MIN_BLOCK_INTERVAL /\
  MIN_EPOCH_LENGTH = DEFAULT_EPOCH_DURATION_TARGET / MAX_BLOCK_INTERVAL.
Proof. vm_compute. repeat split; congruence. Qed.

(* every epoch length the adjustment can produce fits the 16-bit length field
   of EpochNumberWithFraction, with room for an index below it *)
Lemma epoch_length_fits_header_field : MAX_EPOCH_LENGTH < ENF_LENGTH_MAXIMUM_VALUE /\ MAX_EPOCH_LENGTH <= ENF_INDEX_MAXIMUM_VALUE.
Proof. vm_compute. split; congruence. Qed.

(* the hand model of EpochNumberWithFraction uses the constants of the source *)
Lemma enf_constants_match :
  NUMBER_OFFSET = ENF_NUMBER_OFFSET /\ NUMBER_BITS = ENF_NUMBER_BITS /\
  NUMBER_MAXIMUM_VALUE = ENF_NUMBER_MAXIMUM_VALUE /\ NUMBER_MASK = ENF_NUMBER_MASK /\
  INDEX_OFFSET = ENF_INDEX_OFFSET /\ INDEX_BITS = ENF_INDEX_BITS /\
  INDEX_MAXIMUM_VALUE = ENF_INDEX_MAXIMUM_VALUE /\ INDEX_MASK = ENF_INDEX_MASK /\
  LENGTH_OFFSET = ENF_LENGTH_OFFSET /\ LENGTH_BITS = ENF_LENGTH_BITS /\
  LENGTH_MAXIMUM_VALUE = ENF_LENGTH_MAXIMUM_VALUE /\ LENGTH_MASK = ENF_LENGTH_MASK /\
  ENF_LENGTH_OFFSET + ENF_LENGTH_BITS <= 64.
Proof. vm_compute. repeat split; congruence. Qed.

Lemma diff_two_matches : DIFF_TWO = DIFF_TWO_SRC /\ compact_to_difficulty DIFF_TWO_SRC = Some 2.
Proof. vm_compute. split; reflexivity. Qed.

Lemma issuance_constants_ok :
  0 < DEFAULT_PRIMARY_EPOCH_REWARD_HALVING_INTERVAL /\
  0 < INITIAL_PRIMARY_EPOCH_REWARD < W64 /\ DEFAULT_SECONDARY_EPOCH_REWARD < W64 /\
  0 < DEFAULT_ORPHAN_RATE_TARGET_1 /\ 0 < DEFAULT_ORPHAN_RATE_TARGET_0 /\
  0 < DEFAULT_EPOCH_DURATION_TARGET /\ MILLISECONDS_IN_A_SECOND = 1000.
Proof. vm_compute. repeat split; congruence. Qed.

Lemma default_params_ok :
  p_tau default_params = 2 /\ 1 <= p_tau default_params /\
  0 < p_min_epoch_length default_params <= p_max_epoch_length default_params.
Proof. vm_compute. repeat split; congruence. Qed.

(* the genesis epoch carries the scheduled reward, so the schedule invariant starts true *)
Lemma genesis_reward_on_schedule :
  ee_primary_reward genesis_epoch_ext = primary_epoch_reward default_params (ee_number genesis_epoch_ext).
Proof. vm_compute. reflexivity. Qed.

(* finding (repaired by fix: commit 2ebd8bf in /repo): before the fix 64 or more
   halvings made [initial >> halvings] panic (overflow-checks): epoch
   560640 = 64 * 8760 of the default schedule.  The repaired function answers 0. *)
Lemma primary_epoch_reward_old_64_halvings_refuted :
  exists n, n < 2 ^ 24 /\ primary_epoch_reward_old default_params n = None.
Proof. exists (64 * DEFAULT_PRIMARY_EPOCH_REWARD_HALVING_INTERVAL). vm_compute. split; reflexivity. Qed.

Lemma primary_epoch_reward_fixed_on_witness :
  primary_epoch_reward default_params (64 * DEFAULT_PRIMARY_EPOCH_REWARD_HALVING_INTERVAL) = Some 0 /\
  primary_epoch_reward default_params (47 * DEFAULT_PRIMARY_EPOCH_REWARD_HALVING_INTERVAL) = Some 1 /\
  primary_epoch_reward default_params (2 ^ 64 - 1) = Some 0.
Proof. vm_compute. repeat split; reflexivity. Qed.

(* non-vacuity of the next_epoch_ext theorems: three concrete tail blocks of the
   default chain (genesis epoch with 25 uncles; epoch 8758 with 61 uncles and a
   short duration; epoch 8759 -> 8760, the first halving) *)
Example next_epoch_examples :
  next_epoch_ext default_params genesis_epoch_ext 999 DIFF_TWO_SRC 25 14400000
    = Some (mkEpochExt 1 191780821917 808 1 1000 1000 538069284) /\
  next_epoch_ext default_params (mkEpochExt 8758 106544901065 448 (2 ^ 60) 5000000 1800 0x1a08a97b) 5001799 0x1a08a97b 61 13000999
    = Some (mkEpochExt 8759 129319502304 616 576460752303423488 5001800 1483 419651776) /\
  (exists e', next_epoch_ext default_params (mkEpochExt 8759 129319502304 616 576460752303423488 5001800 1483 419651776)
                              5003282 419651776 0 14400000 = Some e' /\
              ee_number e' = 8760 /\ ee_primary_reward e' = Some (INITIAL_PRIMARY_EPOCH_REWARD / 2) /\
              ee_length e' = 1800).
Proof.
  split; [vm_compute; reflexivity|]. split; [vm_compute; reflexivity|].
  eexists. split; [vm_compute; reflexivity|]. vm_compute. repeat split; reflexivity.
Qed.
