(* Structs/HeaderMap.v — executable model of the two-tier header map
   (shared/src/types/header_map: kernel_lru.rs, memory.rs, backend_sled.rs):
   memory tier = LinkedHashMap in age order (oldest first; insert and
   get_refresh move a key to the back), backend tier = key-value store with
   its own element counter (SledBackend::count, read by is_empty), and
   limit_memory spilling the oldest entries.  Header views are opaque values.
   No proofs here (Structs/HeaderMapProofs.v). *)
From CKB Require Export Structs.AList.

Definition view := N.

Record hm := mkHM {
  memory : list (N * view);      (* oldest first *)
  backend : list (N * view);
  bcount : N;                    (* SledBackend::count *)
  limit : nat                    (* memory_limit, in items *)
}.
Definition hm_empty (lim : nat) : hm := mkHM [] [] 0 lim.

(* LinkedHashMap::insert / get_refresh: (re)attach at the back *)
Definition minsert (k : N) (v : view) (l : list (N * view)) : list (N * view) :=
  adelete N.eqb k l ++ [(k, v)].

Definition hm_contains (st : hm) (k : N) : bool :=
  if amem N.eqb k (memory st) then true
  else if N.eqb (bcount st) 0 then false
  else amem N.eqb k (backend st).

Definition hm_get (st : hm) (k : N) : hm * option view :=
  match alookup N.eqb k (memory st) with
  | Some v => (mkHM (minsert k v (memory st)) (backend st) (bcount st) (limit st), Some v)
  | None =>
    if N.eqb (bcount st) 0 then (st, None)
    else match alookup N.eqb k (backend st) with
         | Some v => (mkHM (minsert k v (memory st)) (adelete N.eqb k (backend st)) (N.pred (bcount st)) (limit st),
                      Some v)
         | None => (st, None)
         end
  end.

(* returns Some(()) iff the memory tier already held the key *)
Definition hm_insert (st : hm) (k : N) (v : view) : hm * bool :=
  (mkHM (minsert k v (memory st)) (backend st) (bcount st) (limit st), amem N.eqb k (memory st)).

Definition hm_remove (st : hm) (k : N) : hm :=
  let mem := adelete N.eqb k (memory st) in
  if N.eqb (bcount st) 0 then mkHM mem (backend st) (bcount st) (limit st)
  else if amem N.eqb k (backend st)
       then mkHM mem (adelete N.eqb k (backend st)) (N.pred (bcount st)) (limit st)
       else mkHM mem (backend st) (bcount st) (limit st).

(* KeyValueBackend::insert_batch *)
Definition insert_batch (vals : list (N * view)) (be : list (N * view)) (cnt : N) : list (N * view) * N :=
  fold_left (fun bc kv => (ainsert N.eqb (fst kv) (snd kv) (fst bc),
                           if amem N.eqb (fst kv) (fst bc) then snd bc else (snd bc + 1)%N))
            vals (be, cnt).

(* HeaderMapKernel::limit_memory *)
Definition hm_spill (st : hm) : hm :=
  let size := length (memory st) in
  if Nat.ltb (limit st) size then
    let vals := firstn (size - limit st) (memory st) in
    let bc := insert_batch vals (backend st) (bcount st) in
    mkHM (adelete_all N.eqb (map fst vals) (memory st)) (fst bc) (snd bc) (limit st)
  else st.

Inductive hop := HInsert (k : N) (v : view) | HGet (k : N) | HContains (k : N) | HRemove (k : N) | HSpill.
Inductive hans := AIns (was_in_memory : bool) | AGet (o : option view) | ACont (b : bool) | AUnit.

Definition hstep (st : hm) (o : hop) : hm * hans :=
  match o with
  | HInsert k v => let '(s, b) := hm_insert st k v in (s, AIns b)
  | HGet k => let '(s, r) := hm_get st k in (s, AGet r)
  | HContains k => (st, ACont (hm_contains st k))
  | HRemove k => (hm_remove st k, AUnit)
  | HSpill => (hm_spill st, AUnit)
  end.
Fixpoint hrun (st : hm) (ops : list hop) : list hans :=
  match ops with
  | [] => []
  | o :: ops' => let '(s, a) := hstep st o in a :: hrun s ops'
  end.

(* ---- specification: a plain map; spill steps do nothing --------------------- *)
Definition pstep (m : list (N * view)) (o : hop) : list (N * view) * hans :=
  match o with
  | HInsert k v => (ainsert N.eqb k v m, AUnit)
  | HGet k => (m, AGet (alookup N.eqb k m))
  | HContains k => (m, ACont (amem N.eqb k m))
  | HRemove k => (adelete N.eqb k m, AUnit)
  | HSpill => (m, AUnit)
  end.
Fixpoint prun (m : list (N * view)) (ops : list hop) : list hans :=
  match ops with
  | [] => []
  | o :: ops' => let '(m', a) := pstep m o in a :: prun m' ops'
  end.
(* insert's return value tells which tier held the key; the plain map has no tiers *)
Definition erase (a : hans) : hans := match a with AIns _ => AUnit | _ => a end.

(* ---- observations: the answer of every op, and where every key of the
   universe sits afterwards (memory tier, backend tier) ---------------------- *)
Definition tiers (st : hm) (keys : list N) : list (bool * bool) :=
  map (fun k => (amem N.eqb k (memory st), amem N.eqb k (backend st))) keys.
Fixpoint hrun_obs (keys : list N) (st : hm) (ops : list hop) : list (hans * list (bool * bool)) :=
  match ops with
  | [] => []
  | o :: ops' => let '(s, a) := hstep st o in (a, tiers s keys) :: hrun_obs keys s ops'
  end.
Definition hans_eqb (a b : hans) : bool :=
  match a, b with
  | AIns x, AIns y => Bool.eqb x y
  | AGet x, AGet y => option_eqb N.eqb x y
  | ACont x, ACont y => Bool.eqb x y
  | AUnit, AUnit => true
  | _, _ => false
  end.
Definition bb_eqb (a b : bool * bool) : bool := Bool.eqb (fst a) (fst b) && Bool.eqb (snd a) (snd b).
Record hmap_case := mkHCase { hc_limit : nat; hc_keys : list N; hc_ops : list hop;
                              hc_obs : list (hans * list (bool * bool)) }.
Definition check_hmap (c : hmap_case) : bool :=
  list_eqb (fun a b => hans_eqb (fst a) (fst b) && list_eqb bb_eqb (snd a) (snd b))
           (hrun_obs (hc_keys c) (hm_empty (hc_limit c)) (hc_ops c)) (hc_obs c).
