(* Structs/Skip.v — executable model of the skip list of header views
   (shared/src/types/mod.rs: get_skip_height, HeaderIndexView::get_ancestor,
   build_skip) and of ActiveChain::get_locator (sync/src/types/mod.rs).
   u64/i64 arithmetic that can overflow (the release profile has
   overflow-checks = true) yields None / RPanic.  No proofs here. *)
From Coq Require Export ZArith.
From CKB Require Export Structs.AList.

(* fn invert_lowest_one(n: i64) -> i64 { n & (n - 1) } ; n - 1 overflows for i64::MIN *)
Definition invert_lowest_one (n : Z) : option Z :=
  if Z.eqb n (- 2 ^ 63) then None else Some (Z.land n (n - 1)).
Definition as_i64 (h : N) : Z :=
  let z := Z.of_N h in if Z.ltb z (2 ^ 63) then z else (z - 2 ^ 64)%Z.
Definition as_u64 (z : Z) : N := Z.to_N (z mod 2 ^ 64).

Definition get_skip_height (height : N) : option N :=
  if N.ltb height 2 then Some 0%N
  else if N.ltb 0 (N.land height 1) then
    (* height as i64 - 1 cannot overflow: i64::MIN is even *)
    match invert_lowest_one (as_i64 height - 1) with
    | None => None
    | Some x =>
      match invert_lowest_one x with
      | None => None
      | Some y => let r := as_u64 y in
                  if N.eqb r (2 ^ 64 - 1) then None else Some (r + 1)%N
      end
    end
  else
    match invert_lowest_one (as_i64 height) with
    | None => None
    | Some y => Some (as_u64 y)
    end.

(* what the bit tricks compute *)
Definition clear_lowest (n : N) : N := N.land n (n - 1).
Definition skip_spec (h : N) : N :=
  if N.ltb h 2 then 0%N
  else if N.odd h then (clear_lowest (clear_lowest (h - 1)) + 1)%N
  else clear_lowest h.

(* ---- header views -------------------------------------------------------- *)
Record hdr := mkHdr { h_hash : N; h_number : N; h_parent : N; h_skip : option N }.

Inductive res := RSome (h : hdr) | RNone | RPanic | RFuel.

Section Ancestor.
  (* the two closures of get_ancestor *)
  Variable getv : N -> bool -> option hdr.            (* get_header_view(hash, store_first) *)
  Variable fast : N -> N * N -> option hdr.           (* fast_scanner(number, (current.number, current.hash)) *)
  Variable tip : N.

  Definition follow_skip (number number_skip number_skip_prev : N) : bool :=
    N.eqb number_skip number
    || (N.ltb number number_skip
        && negb (N.ltb (number_skip_prev + 2) number_skip && N.leb number number_skip_prev)).

  Fixpoint ga_loop (fuel : nat) (number : N) (current : hdr) (number_walk : N) : res :=
    if N.leb number_walk number then RSome current
    else
      match fuel with
      | O => RFuel
      | S f =>
        match get_skip_height number_walk, get_skip_height (number_walk - 1) with
        | Some number_skip, Some number_skip_prev =>
          let store_first := N.leb (h_number current) tip in
          let next :=
            match h_skip current with
            | Some sh =>
              if follow_skip number number_skip number_skip_prev
              then option_map (fun c => (c, number_skip)) (getv sh store_first)
              else option_map (fun c => (c, (number_walk - 1)%N)) (getv (h_parent current) store_first)
            | None => option_map (fun c => (c, (number_walk - 1)%N)) (getv (h_parent current) store_first)
            end in
          match next with
          | None => RNone
          | Some (c, nw) =>
            match fast number (h_number c, h_hash c) with
            | Some t => RSome t
            | None => ga_loop f number c nw
            end
          end
        | _, _ => RPanic
        end
      end.

  (* number_walk strictly decreases, so number(self)+1 rounds are enough *)
  Definition get_ancestor (self : hdr) (number : N) : res :=
    if N.ltb (h_number self) number then RNone
    else ga_loop (S (N.to_nat (h_number self))) number self (h_number self).

  (* build_skip: the hash stored in skip_hash; RNone also stands for "left None" *)
  Definition build_skip (self : hdr) : res :=
    if N.eqb (h_number self) 0 then RNone
    else match get_skip_height (h_number self) with
         | None => RPanic
         | Some s => get_ancestor self s
         end.
End Ancestor.

(* ---- locator --------------------------------------------------------------- *)
Definition ONE_DAY_BLOCK_NUMBER : N := 8192.

Section Locator.
  Variable ga : N -> N -> option N.      (* get_ancestor(base hash, number) -> hash *)
  Variable genesis : N.

  Fixpoint loc_loop (fuel : nat) (step index base : N) (acc : list N) : option (list N) :=
    match fuel with
    | O => None
    | S f =>
      match ga base index with
      | None => None                                   (* the panic! in get_locator *)
      | Some hh =>
        let acc := acc ++ [hh] in
        let step := if Nat.leb 10 (length acc) then (step * 2)%N else step in
        if N.ltb index (step * 2) then
          if Nat.ltb (length acc) 52 && N.ltb ONE_DAY_BLOCK_NUMBER index
          then loc_loop f step (N.div index 2) hh acc
          else Some (if N.eqb index 0 then acc else acc ++ [genesis])
        else loc_loop f step (index - step) hh acc
      end
    end.

  Definition get_locator (start_number start_hash : N) : option (list N) :=
    loc_loop (S (N.to_nat start_number)) 1 start_number start_hash [].

  (* the heights a locator of a chain of this height lists (without the final genesis) *)
  Fixpoint loc_heights (fuel : nat) (step index : N) (len : nat) : list N :=
    match fuel with
    | O => []
    | S f =>
      let len := S len in
      let step := if Nat.leb 10 len then (step * 2)%N else step in
      index ::
      (if N.ltb index (step * 2) then
         if Nat.ltb len 52 && N.ltb ONE_DAY_BLOCK_NUMBER index
         then loc_heights f step (N.div index 2) len
         else []
       else loc_heights f step (index - step) len)
    end.
End Locator.

(* ---- the oracles the harness uses (and SyncShared::get_header_index_view has):
   headers up to [tip] on the main branch are "in the store": fetched store-first
   they come without a skip pointer, and the fast scanner answers for them ---- *)
Record chain_data := mkChain {
  cd_hdrs : list (N * hdr);     (* hash => view as kept in the header map (with skip pointer) *)
  cd_main : list (N * N);       (* number => hash of the stored main branch, numbers 0..tip *)
  cd_tip : N
}.
Definition in_store (cd : chain_data) (h : hdr) : bool :=
  N.leb (h_number h) (cd_tip cd)
  && match alookup N.eqb (h_number h) (cd_main cd) with Some x => N.eqb x (h_hash h) | None => false end.
Definition strip (h : hdr) : hdr := mkHdr (h_hash h) (h_number h) (h_parent h) None.
Definition oracle_getv (cd : chain_data) (x : N) (store_first : bool) : option hdr :=
  match alookup N.eqb x (cd_hdrs cd) with
  | None => None
  | Some h => if store_first && in_store cd h then Some (strip h) else Some h
  end.
Definition oracle_fast (cd : chain_data) (number : N) (cur : N * N) : option hdr :=
  match alookup N.eqb (snd cur) (cd_hdrs cd) with
  | None => None
  | Some h =>
    if in_store cd h then
      match alookup N.eqb number (cd_main cd) with
      | Some x => option_map strip (alookup N.eqb x (cd_hdrs cd))
      | None => None
      end
    else None
  end.

Definition res_hash (r : res) : option N := match r with RSome h => Some (h_hash h) | _ => None end.

(* cases written by the harness *)
Definition check_skip_height (c : N * option N) : bool :=
  option_eqb N.eqb (get_skip_height (fst c)) (snd c).

(* a chain built by the implementation (build_skip run for every header in
   order), and get_ancestor queries (base hash, number, answer hash) *)
Record anc_case := mkAnc { ac_chain : chain_data; ac_queries : list (N * N * option N) }.
Definition check_anc (c : anc_case) : bool :=
  let cd := ac_chain c in
  let ga := get_ancestor (oracle_getv cd) (oracle_fast cd) (cd_tip cd) in
  (* every skip pointer is what build_skip computes from the earlier headers *)
  forallb (fun e => let h := snd e in
                    option_eqb N.eqb
                      (res_hash (build_skip (oracle_getv cd) (oracle_fast cd) (cd_tip cd) (strip h)))
                      (h_skip h))
          (cd_hdrs cd)
  && forallb (fun q => match q with
                       | (base, n, ans) =>
                         match oracle_getv cd base false with
                         | None => match ans with None => true | _ => false end
                         | Some b => option_eqb N.eqb (res_hash (ga b n)) ans
                         end
                       end) (ac_queries c).

Record loc_case := mkLoc { lc_chain : chain_data; lc_genesis : N; lc_start : N * N; lc_loc : list N }.
Definition check_loc (c : loc_case) : bool :=
  let cd := lc_chain c in
  let ga := fun base n =>
    match oracle_getv cd base false with
    | None => None
    | Some b => res_hash (get_ancestor (oracle_getv cd) (oracle_fast cd) (cd_tip cd) b n)
    end in
  option_eqb (list_eqb N.eqb) (get_locator ga (lc_genesis c) (fst (lc_start c)) (snd (lc_start c)))
             (Some (lc_loc c)).
